#!/bin/sh
# Warms the Go build cache for the harness packages (offline; files on disk only).
# Every check rebuilds what it needs from /repo's working tree on each run, so a
# failure to pre-build one package here is reported but does not fail the setup.
cd "$(dirname "$0")/harness" || exit 1
export GOFLAGS=-mod=mod GOPROXY=off GOTOOLCHAIN=auto
unset GOSUMDB
for d in props/*/; do
  go test -tags verif -count=1 -run '^$' "./$d" >/dev/null 2>&1 || echo "warning: pre-build of $d failed (checks rebuild on demand)"
done
echo setup ok
