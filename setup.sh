#!/bin/sh
# Warms the Go build cache for the harness packages (offline; files on disk only) with the
# same flags ./check uses. Every check rebuilds what it needs from /repo's working tree on
# each run, so a failure to pre-build one package here is reported but does not fail setup.
cd "$(dirname "$0")/harness" || exit 1
export GOFLAGS=-mod=mod GOPROXY=off GOTOOLCHAIN=auto
unset GOSUMDB
mkdir -p ../.build
for d in props/*/; do
  p=$(basename "$d")
  go test -c -trimpath -tags verif -o "../.build/$p.test" "./props/$p" >/dev/null 2>&1 || echo "warning: pre-build of $p failed (checks rebuild on demand)"
done
echo setup ok
