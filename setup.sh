#!/bin/sh
# Builds the harness test binaries once from files on disk (offline). Checks rebuild
# incrementally from /repo's working tree on every run, so this only warms the cache.
set -e
cd "$(dirname "$0")/harness"
export GOFLAGS=-mod=mod GOPROXY=off GOTOOLCHAIN=auto
unset GOSUMDB
go vet -tags verif ./internal/... >/dev/null 2>&1 || true
go test -tags verif -count=1 -run '^$' ./props/... >/dev/null
echo setup ok
