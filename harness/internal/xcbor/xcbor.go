// Package xcbor is an independent CBOR (RFC 8949) item-tree parser and
// re-encoder. It shares no code with gouroboros/cbor or fxamacker/cbor. Every
// node remembers the byte range it was parsed from and the *form* of its head
// (argument width, definite/indefinite), and the encoder reproduces exactly the
// form stored in the node, so a tree can be re-encoded with a chosen style plan
// while its data-model value stays unchanged by construction.
package xcbor

import (
	"encoding/binary"
	"errors"
	"fmt"
	"math/big"
)

type Kind uint8

const (
	Uint Kind = iota
	Nint
	Bytes
	Text
	Array
	Map
	Tag
	Simple // major type 7 (simple values and floats); Arg holds the raw argument
)

func (k Kind) String() string {
	return [...]string{"uint", "nint", "bytes", "text", "array", "map", "tag", "simple"}[k]
}

// Node is one CBOR data item.
type Node struct {
	Kind  Kind
	Arg   uint64 // uint value | nint argument (value = -1-Arg) | tag number | simple/float raw bits
	Width int    // head argument width in bytes: 0 (immediate, arg<24), 1, 2, 4, 8
	Indef bool   // indefinite-length array/map/bytes/text
	Data  []byte // definite bytes/text payload
	Items []*Node
	// Items: array elements; map k0,v0,k1,v1…; tag: exactly one; indefinite
	// bytes/text: the definite chunks.
	Start, End int // byte range in the parsed buffer (End exclusive); 0,0 for built nodes
}

var ErrTruncated = errors.New("xcbor: truncated")

const maxDepth = 512

// Parse parses exactly one item starting at b[0] and returns it with the number
// of bytes consumed.
func Parse(b []byte) (*Node, int, error) {
	n, end, err := parseAt(b, 0, 0)
	if err != nil {
		return nil, 0, err
	}
	return n, end, nil
}

// ParseExact parses one item that must span all of b.
func ParseExact(b []byte) (*Node, error) {
	n, end, err := parseAt(b, 0, 0)
	if err != nil {
		return nil, err
	}
	if end != len(b) {
		return nil, fmt.Errorf("xcbor: %d trailing bytes", len(b)-end)
	}
	return n, nil
}

func parseAt(b []byte, off, depth int) (*Node, int, error) {
	if depth > maxDepth {
		return nil, 0, errors.New("xcbor: too deep")
	}
	if off >= len(b) {
		return nil, 0, ErrTruncated
	}
	ib := b[off]
	major := ib >> 5
	ai := ib & 0x1f
	n := &Node{Start: off}
	p := off + 1
	indef := false
	switch {
	case ai < 24:
		n.Arg = uint64(ai)
		n.Width = 0
	case ai == 24:
		if p+1 > len(b) {
			return nil, 0, ErrTruncated
		}
		n.Arg = uint64(b[p])
		n.Width = 1
		p++
	case ai == 25:
		if p+2 > len(b) {
			return nil, 0, ErrTruncated
		}
		n.Arg = uint64(binary.BigEndian.Uint16(b[p:]))
		n.Width = 2
		p += 2
	case ai == 26:
		if p+4 > len(b) {
			return nil, 0, ErrTruncated
		}
		n.Arg = uint64(binary.BigEndian.Uint32(b[p:]))
		n.Width = 4
		p += 4
	case ai == 27:
		if p+8 > len(b) {
			return nil, 0, ErrTruncated
		}
		n.Arg = binary.BigEndian.Uint64(b[p:])
		n.Width = 8
		p += 8
	case ai == 31:
		indef = true
	default:
		return nil, 0, fmt.Errorf("xcbor: reserved additional info %d at %d", ai, off)
	}
	switch major {
	case 0:
		if indef {
			return nil, 0, errors.New("xcbor: indefinite uint")
		}
		n.Kind = Uint
	case 1:
		if indef {
			return nil, 0, errors.New("xcbor: indefinite nint")
		}
		n.Kind = Nint
	case 2, 3:
		n.Kind = Bytes
		if major == 3 {
			n.Kind = Text
		}
		if indef {
			n.Indef = true
			for {
				if p >= len(b) {
					return nil, 0, ErrTruncated
				}
				if b[p] == 0xff {
					p++
					break
				}
				if b[p]>>5 != major || b[p]&0x1f == 31 {
					return nil, 0, errors.New("xcbor: bad chunk in indefinite string")
				}
				c, e, err := parseAt(b, p, depth+1)
				if err != nil {
					return nil, 0, err
				}
				n.Items = append(n.Items, c)
				p = e
			}
		} else {
			if n.Arg > uint64(len(b)-p) {
				return nil, 0, ErrTruncated
			}
			n.Data = b[p : p+int(n.Arg)]
			p += int(n.Arg)
		}
	case 4, 5:
		n.Kind = Array
		mult := uint64(1)
		if major == 5 {
			n.Kind = Map
			mult = 2
		}
		if indef {
			n.Indef = true
			for {
				if p >= len(b) {
					return nil, 0, ErrTruncated
				}
				if b[p] == 0xff {
					p++
					break
				}
				c, e, err := parseAt(b, p, depth+1)
				if err != nil {
					return nil, 0, err
				}
				n.Items = append(n.Items, c)
				p = e
			}
			if major == 5 && len(n.Items)%2 != 0 {
				return nil, 0, errors.New("xcbor: odd number of map items")
			}
		} else {
			if n.Arg > uint64(len(b)) { // each item takes at least one byte
				return nil, 0, ErrTruncated
			}
			cnt := n.Arg * mult
			n.Items = make([]*Node, 0, min(int(cnt), 1024))
			for i := uint64(0); i < cnt; i++ {
				c, e, err := parseAt(b, p, depth+1)
				if err != nil {
					return nil, 0, err
				}
				n.Items = append(n.Items, c)
				p = e
			}
		}
	case 6:
		if indef {
			return nil, 0, errors.New("xcbor: indefinite tag")
		}
		n.Kind = Tag
		c, e, err := parseAt(b, p, depth+1)
		if err != nil {
			return nil, 0, err
		}
		n.Items = []*Node{c}
		p = e
	case 7:
		if indef {
			return nil, 0, errors.New("xcbor: unexpected break")
		}
		n.Kind = Simple
	}
	n.End = p
	return n, p, nil
}

// Src returns the bytes the node was parsed from.
func (n *Node) Src(buf []byte) []byte { return buf[n.Start:n.End] }

func minWidth(v uint64) int {
	switch {
	case v < 24:
		return 0
	case v <= 0xff:
		return 1
	case v <= 0xffff:
		return 2
	case v <= 0xffffffff:
		return 4
	}
	return 8
}

func appendHead(dst []byte, major byte, arg uint64, width int) []byte {
	mw := minWidth(arg)
	if width < mw {
		width = mw
	}
	switch width {
	case 0:
		return append(dst, major<<5|byte(arg))
	case 1:
		return append(dst, major<<5|24, byte(arg))
	case 2:
		return append(dst, major<<5|25, byte(arg>>8), byte(arg))
	case 4:
		return append(dst, major<<5|26, byte(arg>>24), byte(arg>>16), byte(arg>>8), byte(arg))
	default:
		var t [8]byte
		binary.BigEndian.PutUint64(t[:], arg)
		dst = append(dst, major<<5|27)
		return append(dst, t[:]...)
	}
}

// Encode serialises the tree in exactly the forms recorded in the nodes.
func (n *Node) Encode() []byte { return n.AppendTo(nil) }

func (n *Node) AppendTo(dst []byte) []byte {
	switch n.Kind {
	case Uint:
		return appendHead(dst, 0, n.Arg, n.Width)
	case Nint:
		return appendHead(dst, 1, n.Arg, n.Width)
	case Bytes, Text:
		major := byte(2)
		if n.Kind == Text {
			major = 3
		}
		if n.Indef {
			dst = append(dst, major<<5|31)
			for _, c := range n.Items {
				dst = c.AppendTo(dst)
			}
			return append(dst, 0xff)
		}
		dst = appendHead(dst, major, uint64(len(n.Data)), n.Width)
		return append(dst, n.Data...)
	case Array, Map:
		major := byte(4)
		cnt := uint64(len(n.Items))
		if n.Kind == Map {
			major = 5
			cnt /= 2
		}
		if n.Indef {
			dst = append(dst, major<<5|31)
			for _, c := range n.Items {
				dst = c.AppendTo(dst)
			}
			return append(dst, 0xff)
		}
		dst = appendHead(dst, major, cnt, n.Width)
		for _, c := range n.Items {
			dst = c.AppendTo(dst)
		}
		return dst
	case Tag:
		dst = appendHead(dst, 6, n.Arg, n.Width)
		return n.Items[0].AppendTo(dst)
	default: // Simple
		if n.Width == 0 {
			return append(dst, 7<<5|byte(n.Arg&0x1f))
		}
		// floats / 1-byte simple keep their declared width (no minimisation)
		switch n.Width {
		case 1:
			return append(dst, 7<<5|24, byte(n.Arg))
		case 2:
			return append(dst, 7<<5|25, byte(n.Arg>>8), byte(n.Arg))
		case 4:
			return append(dst, 7<<5|26, byte(n.Arg>>24), byte(n.Arg>>16), byte(n.Arg>>8), byte(n.Arg))
		default:
			var t [8]byte
			binary.BigEndian.PutUint64(t[:], n.Arg)
			dst = append(dst, 7<<5|27)
			return append(dst, t[:]...)
		}
	}
}

// Clone deep-copies the tree (Data slices are shared; they are never mutated).
func (n *Node) Clone() *Node {
	c := *n
	if n.Items != nil {
		c.Items = make([]*Node, len(n.Items))
		for i, it := range n.Items {
			c.Items[i] = it.Clone()
		}
	}
	return &c
}

// Walk visits nodes in preorder.
func (n *Node) Walk(f func(*Node)) {
	f(n)
	for _, c := range n.Items {
		c.Walk(f)
	}
}

// Nodes returns all nodes in preorder.
func (n *Node) Nodes() []*Node {
	var out []*Node
	n.Walk(func(x *Node) { out = append(out, x) })
	return out
}

// Payload returns the logical byte content of a bytes/text node (chunks joined).
func (n *Node) Payload() []byte {
	if !n.Indef {
		return n.Data
	}
	var out []byte
	for _, c := range n.Items {
		out = append(out, c.Data...)
	}
	return out
}

// MapGet returns the value for an unsigned integer key in a map node.
func (n *Node) MapGet(key uint64) *Node {
	if n.Kind != Map {
		return nil
	}
	for i := 0; i+1 < len(n.Items); i += 2 {
		if n.Items[i].Kind == Uint && n.Items[i].Arg == key {
			return n.Items[i+1]
		}
	}
	return nil
}

// MapSet replaces or appends the value for an unsigned key.
func (n *Node) MapSet(key uint64, v *Node) {
	for i := 0; i+1 < len(n.Items); i += 2 {
		if n.Items[i].Kind == Uint && n.Items[i].Arg == key {
			n.Items[i+1] = v
			return
		}
	}
	n.Items = append(n.Items, U(key), v)
}

// MapDel removes an unsigned key; reports whether it was present.
func (n *Node) MapDel(key uint64) bool {
	for i := 0; i+1 < len(n.Items); i += 2 {
		if n.Items[i].Kind == Uint && n.Items[i].Arg == key {
			n.Items = append(n.Items[:i:i], n.Items[i+2:]...)
			return true
		}
	}
	return false
}

// IsCanonicalForm reports whether every head in the subtree is minimal and definite.
func (n *Node) IsCanonicalForm() bool {
	ok := true
	n.Walk(func(x *Node) {
		if x.Indef {
			ok = false
		}
		if x.Kind != Simple {
			arg := x.Arg
			switch x.Kind {
			case Bytes, Text:
				arg = uint64(len(x.Data))
			case Array:
				arg = uint64(len(x.Items))
			case Map:
				arg = uint64(len(x.Items) / 2)
			}
			if x.Width != minWidth(arg) {
				ok = false
			}
		}
	})
	return ok
}

// ---- builders -------------------------------------------------------------

func U(v uint64) *Node  { return &Node{Kind: Uint, Arg: v, Width: minWidth(v)} }
func NegArg(a uint64) *Node { return &Node{Kind: Nint, Arg: a, Width: minWidth(a)} } // value -1-a
func I(v int64) *Node {
	if v >= 0 {
		return U(uint64(v))
	}
	return NegArg(uint64(-1 - v))
}
func B(b []byte) *Node { return &Node{Kind: Bytes, Data: b, Width: minWidth(uint64(len(b)))} }
func T(s string) *Node {
	return &Node{Kind: Text, Data: []byte(s), Width: minWidth(uint64(len(s)))}
}
func A(items ...*Node) *Node {
	if items == nil {
		items = []*Node{}
	}
	return &Node{Kind: Array, Items: items, Width: minWidth(uint64(len(items)))}
}
func AI(items ...*Node) *Node { n := A(items...); n.Indef = true; return n }
func M(kv ...*Node) *Node {
	if len(kv)%2 != 0 {
		panic("xcbor.M: odd")
	}
	if kv == nil {
		kv = []*Node{}
	}
	return &Node{Kind: Map, Items: kv, Width: minWidth(uint64(len(kv) / 2))}
}
func Tg(tag uint64, item *Node) *Node {
	return &Node{Kind: Tag, Arg: tag, Width: minWidth(tag), Items: []*Node{item}}
}
func Bool(b bool) *Node {
	if b {
		return &Node{Kind: Simple, Arg: 21}
	}
	return &Node{Kind: Simple, Arg: 20}
}
func Null() *Node { return &Node{Kind: Simple, Arg: 22} }

// Big encodes an arbitrary integer: plain int when it fits 64 bits, else tag 2/3.
func Big(v *big.Int) *Node {
	if v.Sign() >= 0 {
		if v.IsUint64() {
			return U(v.Uint64())
		}
		return Tg(2, B(v.Bytes()))
	}
	m := new(big.Int).Neg(v)
	m.Sub(m, big.NewInt(1)) // -1-v
	if m.IsUint64() {
		return NegArg(m.Uint64())
	}
	return Tg(3, B(m.Bytes()))
}

// BigTagged always uses the bignum tags, also for small values (a legal,
// non-preferred encoding).
func BigTagged(v *big.Int) *Node {
	if v.Sign() >= 0 {
		return Tg(2, B(v.Bytes()))
	}
	m := new(big.Int).Neg(v)
	m.Sub(m, big.NewInt(1))
	return Tg(3, B(m.Bytes()))
}

// Raw parses b and returns the tree (panics on malformed input; for literals).
func Raw(b []byte) *Node {
	n, err := ParseExact(b)
	if err != nil {
		panic(err)
	}
	return n
}

// Int returns the integer value of a Uint/Nint node (or bignum tag).
func (n *Node) Int() (*big.Int, bool) {
	switch n.Kind {
	case Uint:
		return new(big.Int).SetUint64(n.Arg), true
	case Nint:
		v := new(big.Int).SetUint64(n.Arg)
		v.Add(v, big.NewInt(1))
		return v.Neg(v), true
	case Tag:
		if (n.Arg == 2 || n.Arg == 3) && (n.Items[0].Kind == Bytes) {
			v := new(big.Int).SetBytes(n.Items[0].Payload())
			if n.Arg == 3 {
				v.Add(v, big.NewInt(1))
				v.Neg(v)
			}
			return v, true
		}
	}
	return nil, false
}
