package xcbor

import (
	"fmt"
	"strings"

	"pgregory.net/rapid"
)

// Form names one admissible head form.
type Form int

const (
	FormMinimal Form = iota
	FormW1           // 1-byte argument (0x18-style)
	FormW2
	FormW4
	FormW8
	FormIndef
)

var AllForms = []Form{FormMinimal, FormW1, FormW2, FormW4, FormW8, FormIndef}

func (f Form) String() string {
	return [...]string{"minimal", "w1", "w2", "w4", "w8", "indef"}[f]
}

func (f Form) width() int { return [...]int{0, 1, 2, 4, 8, 0}[f] }

// headArg is the argument the head of n carries.
func (n *Node) headArg() uint64 {
	switch n.Kind {
	case Bytes, Text:
		return uint64(len(n.Data))
	case Array:
		return uint64(len(n.Items))
	case Map:
		return uint64(len(n.Items) / 2)
	}
	return n.Arg
}

// CanApply reports whether form f is a *different, admissible* form for n.
func (n *Node) CanApply(f Form) bool {
	if n.Kind == Simple {
		return false
	}
	if f == FormIndef {
		return !n.Indef && (n.Kind == Array || n.Kind == Map || n.Kind == Bytes || n.Kind == Text)
	}
	if n.Indef {
		return false
	}
	if f == FormMinimal {
		return n.Width != minWidth(n.headArg())
	}
	return f.width() > minWidth(n.headArg()) && f.width() != n.Width
}

// Apply sets the head form of n. For strings FormIndef splits the payload into
// chunkSizes-sized definite chunks (one chunk if nil).
func (n *Node) Apply(f Form, chunk int) {
	if f == FormIndef {
		if n.Kind == Bytes || n.Kind == Text {
			data := n.Data
			n.Items = nil
			if chunk <= 0 || chunk > len(data) {
				chunk = len(data)
			}
			for len(data) > 0 {
				c := data[:chunk]
				data = data[chunk:]
				n.Items = append(n.Items, &Node{Kind: n.Kind, Data: c, Width: minWidth(uint64(len(c)))})
				if chunk > len(data) {
					chunk = len(data)
				}
			}
			n.Data = nil
		}
		n.Indef = true
		n.Width = 0
		return
	}
	n.Indef = false
	n.Width = f.width()
	if mw := minWidth(n.headArg()); n.Width < mw {
		n.Width = mw
	}
}

// Edit records one applied style change.
type Edit struct {
	Index int // preorder index of the node in the tree
	Kind  Kind
	Form  Form
	Path  string
}

func (e Edit) String() string { return fmt.Sprintf("%s#%d@%s→%s", e.Kind, e.Index, e.Path, e.Form) }

func EditsString(es []Edit) string {
	ss := make([]string, len(es))
	for i, e := range es {
		ss[i] = e.String()
	}
	return strings.Join(ss, ",")
}

// StyleOpts selects which nodes a plan may touch.
type StyleOpts struct {
	MaxEdits int
	Kinds    map[Kind]bool           // nil = all kinds
	Forms    []Form                  // nil = all forms
	Filter   func(n *Node, path string) bool // nil = every node
}

type cand struct {
	n    *Node
	idx  int
	path string
}

func candidates(root *Node, o StyleOpts) []cand {
	var out []cand
	idx := 0
	var rec func(n *Node, path string)
	rec = func(n *Node, path string) {
		my := idx
		idx++
		if n.Kind != Simple && (o.Kinds == nil || o.Kinds[n.Kind]) && (o.Filter == nil || o.Filter(n, path)) {
			out = append(out, cand{n, my, path})
		}
		for i, c := range n.Items {
			var p string
			switch n.Kind {
			case Map:
				if i%2 == 0 {
					p = fmt.Sprintf("%s/k%d", path, i/2)
				} else {
					p = fmt.Sprintf("%s/v%d", path, i/2)
				}
			case Tag:
				p = path + "/t"
			default:
				p = fmt.Sprintf("%s/%d", path, i)
			}
			rec(c, p)
		}
	}
	rec(root, "")
	return out
}

// Restyle draws a style plan from rapid and applies it in place: up to
// MaxEdits nodes get a different admissible head form. The data-model value of
// the tree is unchanged. Returns the edits that were applied.
func Restyle(t *rapid.T, root *Node, o StyleOpts) []Edit {
	cs := candidates(root, o)
	if len(cs) == 0 {
		return nil
	}
	forms := o.Forms
	if forms == nil {
		forms = AllForms
	}
	maxE := o.MaxEdits
	if maxE <= 0 {
		maxE = 4
	}
	k := rapid.IntRange(1, maxE).Draw(t, "nEdits")
	var edits []Edit
	done := map[int]bool{}
	for i := 0; i < k; i++ {
		c := cs[rapid.IntRange(0, len(cs)-1).Draw(t, "node")]
		if done[c.idx] {
			continue
		}
		done[c.idx] = true
		// admissible different forms for this node
		var adm []Form
		for _, f := range forms {
			if c.n.CanApply(f) {
				adm = append(adm, f)
			}
		}
		if len(adm) == 0 {
			continue
		}
		f := adm[rapid.IntRange(0, len(adm)-1).Draw(t, "form")]
		chunk := 0
		if f == FormIndef && (c.n.Kind == Bytes || c.n.Kind == Text) && len(c.n.Data) > 1 {
			chunk = rapid.IntRange(1, len(c.n.Data)).Draw(t, "chunk")
		}
		c.n.Apply(f, chunk)
		edits = append(edits, Edit{Index: c.idx, Kind: c.n.Kind, Form: f, Path: c.path})
	}
	return edits
}

// Paths returns the candidate paths (for enumerating plans deterministically).
func Paths(root *Node, o StyleOpts) []string {
	cs := candidates(root, o)
	out := make([]string, len(cs))
	for i, c := range cs {
		out[i] = c.path
	}
	return out
}

// At returns the node at a path produced by candidates ("" = root).
func (n *Node) At(path string) *Node {
	if path == "" {
		return n
	}
	cur := n
	for _, seg := range strings.Split(strings.TrimPrefix(path, "/"), "/") {
		var i int
		switch {
		case seg == "t":
			i = 0
		case seg[0] == 'k':
			fmt.Sscanf(seg[1:], "%d", &i)
			i = 2 * i
		case seg[0] == 'v':
			fmt.Sscanf(seg[1:], "%d", &i)
			i = 2*i + 1
		default:
			fmt.Sscanf(seg, "%d", &i)
		}
		if i >= len(cur.Items) {
			return nil
		}
		cur = cur.Items[i]
	}
	return cur
}
