package xcbor

import (
	"bytes"
	"testing"

	"pgregory.net/rapid"

	"verif/harness/internal/fixtures"
)

// Self-check of the independent layer: parse→encode is the identity on real
// blocks, and restyling never changes the parsed data model.
func TestRoundTripFixtures(t *testing.T) {
	for _, b := range fixtures.Blocks() {
		n, err := ParseExact(b.Bytes)
		if err != nil {
			t.Fatalf("%s: %v", b.Name, err)
		}
		if !bytes.Equal(n.Encode(), b.Bytes) {
			t.Fatalf("%s: re-encode differs", b.Name)
		}
	}
}

func sameModel(a, b *Node) bool {
	if a.Kind != b.Kind {
		return false
	}
	switch a.Kind {
	case Uint, Nint, Simple:
		return a.Arg == b.Arg
	case Bytes, Text:
		return bytes.Equal(a.Payload(), b.Payload())
	case Tag:
		return a.Arg == b.Arg && sameModel(a.Items[0], b.Items[0])
	}
	if len(a.Items) != len(b.Items) {
		return false
	}
	for i := range a.Items {
		if !sameModel(a.Items[i], b.Items[i]) {
			return false
		}
	}
	return true
}

func TestRestyleKeepsModel(t *testing.T) {
	bs := fixtures.SmallBlocks()
	rapid.Check(t, func(t *rapid.T) {
		b := bs[rapid.IntRange(0, len(bs)-1).Draw(t, "b")]
		orig := Raw(b.Bytes)
		n := orig.Clone()
		edits := Restyle(t, n, StyleOpts{MaxEdits: 6})
		enc := n.Encode()
		back, err := ParseExact(enc)
		if err != nil {
			t.Fatalf("restyled does not parse: %v (%v)", err, edits)
		}
		if !sameModel(orig, back) {
			t.Fatalf("model changed: %v", edits)
		}
		if len(edits) > 0 && bytes.Equal(enc, b.Bytes) {
			t.Fatalf("edits %v did not change bytes", edits)
		}
	})
}
