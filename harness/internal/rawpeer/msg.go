package rawpeer

import (
	"errors"
	"fmt"
	"time"

	"verif/harness/internal/xcbor"
)

// NextMsg waits for one complete CBOR item on a stream, removes it and returns
// its bytes. Incomplete data at timeout gives ErrTimeout.
func (p *Peer) NextMsg(proto uint16, response bool, d time.Duration) ([]byte, error) {
	deadline := time.Now().Add(d)
	k := key(proto, response)
	stop := time.AfterFunc(d, func() { p.mu.Lock(); p.cond.Broadcast(); p.mu.Unlock() })
	defer stop.Stop()
	p.mu.Lock()
	defer p.mu.Unlock()
	for {
		if buf := p.streams[k]; len(buf) > 0 {
			_, n, err := xcbor.Parse(buf)
			if err == nil {
				out := append([]byte(nil), buf[:n]...)
				p.streams[k] = buf[n:]
				return out, nil
			}
			if !errors.Is(err, xcbor.ErrTruncated) {
				return nil, fmt.Errorf("rawpeer: malformed CBOR from library: %w", err)
			}
		}
		if p.readErr != nil {
			return nil, p.readErr
		}
		if time.Now().After(deadline) {
			return nil, ErrTimeout
		}
		p.cond.Wait()
	}
}

// AcceptHandshake plays the responder side of the handshake against a library
// initiator: it reads ProposeVersions, picks the highest proposed version (or
// the one chosen by pick, if non-nil) and answers AcceptVersion echoing the
// initiator's own version data. Returns the accepted version.
func (p *Peer) AcceptHandshake(d time.Duration, pick func(versions []uint64) uint64) (uint64, error) {
	msg, err := p.NextMsg(0, false, d)
	if err != nil {
		return 0, fmt.Errorf("handshake: no proposal: %w", err)
	}
	n, err := xcbor.ParseExact(msg)
	if err != nil || n.Kind != xcbor.Array || len(n.Items) != 2 || n.Items[1].Kind != xcbor.Map {
		return 0, fmt.Errorf("handshake: unexpected proposal %x", msg)
	}
	vm := n.Items[1]
	var versions []uint64
	for i := 0; i+1 < len(vm.Items); i += 2 {
		versions = append(versions, vm.Items[i].Arg)
	}
	if len(versions) == 0 {
		return 0, errors.New("handshake: empty proposal")
	}
	best := versions[0]
	for _, v := range versions {
		if v > best {
			best = v
		}
	}
	if pick != nil {
		best = pick(versions)
	}
	data := vm.MapGet(best)
	if data == nil {
		return 0, fmt.Errorf("handshake: version %d not in proposal", best)
	}
	reply := xcbor.A(xcbor.U(1), xcbor.U(best), data).Encode()
	return best, p.SendMsg(0, true, reply)
}

// ProposeHandshake plays the initiator side against a library responder with a
// single version and raw version data; returns the reply message bytes.
func (p *Peer) ProposeHandshake(version uint64, data *xcbor.Node, d time.Duration) ([]byte, error) {
	prop := xcbor.A(xcbor.U(0), xcbor.M(xcbor.U(version), data)).Encode()
	if err := p.SendMsg(0, false, prop); err != nil {
		return nil, err
	}
	return p.NextMsg(0, true, d)
}
