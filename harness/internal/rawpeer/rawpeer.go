// Package rawpeer provides the parts of the network the harness owns: an
// in-memory full-duplex net.Conn whose read fragmentation and micro-delays are
// chosen by the generator, an independent implementation of the Ouroboros mux
// segment framing, and a raw peer that speaks segments/messages directly.
package rawpeer

import (
	"encoding/binary"
	"errors"
	"io"
	"net"
	"os"
	"runtime"
	"sync"
	"time"
)

// ---- in-memory pipe with controllable fragmentation -------------------------

type half struct {
	mu       sync.Mutex
	cond     *sync.Cond
	buf      []byte
	closed   bool // writer closed: reader gets EOF after draining
	rdClosed bool // reader closed: writer gets EPIPE
	rdDeadline time.Time
}

func newHalf() *half {
	h := &half{}
	h.cond = sync.NewCond(&h.mu)
	return h
}

// Plan decides read chunk sizes and yields. All methods must be goroutine safe.
type Plan interface {
	// NextRead returns the maximum number of bytes the next Read may return (>=1).
	NextRead(avail int) int
	// Yield is called before each Read and Write returns (may Gosched / sleep).
	Yield()
}

// SeqPlan cycles through fixed chunk sizes and yield kinds; deterministic given
// its inputs (which the generator draws).
type SeqPlan struct {
	mu     sync.Mutex
	Chunks []int // cycled; 0 or negative = unlimited
	Yields []int // cycled; 0 none, 1 Gosched, n>1 sleep n microseconds
	ci, yi int
}

func (p *SeqPlan) NextRead(avail int) int {
	p.mu.Lock()
	defer p.mu.Unlock()
	if len(p.Chunks) == 0 {
		return avail
	}
	c := p.Chunks[p.ci%len(p.Chunks)]
	p.ci++
	if c <= 0 || c > avail {
		return avail
	}
	return c
}

func (p *SeqPlan) Yield() {
	p.mu.Lock()
	y := 0
	if len(p.Yields) > 0 {
		y = p.Yields[p.yi%len(p.Yields)]
		p.yi++
	}
	p.mu.Unlock()
	switch {
	case y == 1:
		runtime.Gosched()
	case y > 1:
		time.Sleep(time.Duration(y) * time.Microsecond)
	}
}

// FragConn is one end of an in-memory connection.
type FragConn struct {
	rd, wr *half
	plan   Plan
	name   string
	once   sync.Once
}

type addr string

func (a addr) Network() string { return "mem" }
func (a addr) String() string  { return string(a) }

// Pipe returns two connected ends. planA governs reads performed on a, planB on b.
// A nil plan means unfragmented, no yields.
func Pipe(planA, planB Plan) (a, b *FragConn) {
	ab, ba := newHalf(), newHalf()
	a = &FragConn{rd: ba, wr: ab, plan: planA, name: "a"}
	b = &FragConn{rd: ab, wr: ba, plan: planB, name: "b"}
	return
}

func (c *FragConn) Read(p []byte) (int, error) {
	if len(p) == 0 {
		return 0, nil
	}
	h := c.rd
	h.mu.Lock()
	for len(h.buf) == 0 {
		if h.rdClosed {
			h.mu.Unlock()
			return 0, net.ErrClosed
		}
		if h.closed {
			h.mu.Unlock()
			return 0, io.EOF
		}
		if !h.rdDeadline.IsZero() {
			d := time.Until(h.rdDeadline)
			if d <= 0 {
				h.mu.Unlock()
				return 0, os.ErrDeadlineExceeded
			}
			// wake up at the deadline
			t := time.AfterFunc(d, func() { h.mu.Lock(); h.cond.Broadcast(); h.mu.Unlock() })
			h.cond.Wait()
			t.Stop()
			continue
		}
		h.cond.Wait()
	}
	n := len(h.buf)
	if n > len(p) {
		n = len(p)
	}
	if c.plan != nil {
		if m := c.plan.NextRead(n); m >= 1 && m < n {
			n = m
		}
	}
	copy(p, h.buf[:n])
	h.buf = h.buf[n:]
	h.cond.Broadcast()
	h.mu.Unlock()
	if c.plan != nil {
		c.plan.Yield()
	}
	return n, nil
}

// maxBuffered bounds the in-flight bytes per direction so a fast writer is
// slowed down like on a socket (gives real backpressure).
const maxBuffered = 256 * 1024

func (c *FragConn) Write(p []byte) (int, error) {
	h := c.wr
	total := 0
	for len(p) > 0 {
		h.mu.Lock()
		for len(h.buf) >= maxBuffered && !h.closed && !h.rdClosed {
			h.cond.Wait()
		}
		if h.closed {
			h.mu.Unlock()
			return total, net.ErrClosed
		}
		if h.rdClosed {
			h.mu.Unlock()
			return total, io.ErrClosedPipe
		}
		n := maxBuffered - len(h.buf)
		if n > len(p) {
			n = len(p)
		}
		h.buf = append(h.buf, p[:n]...)
		p = p[n:]
		total += n
		h.cond.Broadcast()
		h.mu.Unlock()
	}
	if c.plan != nil {
		c.plan.Yield()
	}
	return total, nil
}

// Close closes both directions of this end (the peer sees EOF after draining).
func (c *FragConn) Close() error {
	c.once.Do(func() {
		c.wr.mu.Lock()
		c.wr.closed = true
		c.wr.cond.Broadcast()
		c.wr.mu.Unlock()
		c.rd.mu.Lock()
		c.rd.rdClosed = true
		c.rd.cond.Broadcast()
		c.rd.mu.Unlock()
	})
	return nil
}

// Unread returns the number of bytes this end has written that the other end
// has not read yet (added for C15's flood fault; read-only).
func (c *FragConn) Unread() int {
	c.wr.mu.Lock()
	defer c.wr.mu.Unlock()
	return len(c.wr.buf)
}

func (c *FragConn) LocalAddr() net.Addr  { return addr("mem-" + c.name) }
func (c *FragConn) RemoteAddr() net.Addr { return addr("mem-peer-of-" + c.name) }
func (c *FragConn) SetDeadline(t time.Time) error {
	_ = c.SetReadDeadline(t)
	return nil
}
func (c *FragConn) SetReadDeadline(t time.Time) error {
	c.rd.mu.Lock()
	c.rd.rdDeadline = t
	c.rd.cond.Broadcast()
	c.rd.mu.Unlock()
	return nil
}
func (c *FragConn) SetWriteDeadline(time.Time) error { return nil }

// ---- independent segment framing -------------------------------------------

// Seg is one mux segment as seen on the wire.
type Seg struct {
	Timestamp uint32
	ProtoID   uint16 // without the direction bit
	Response  bool   // direction bit (0x8000) set: sent by a responder
	Payload   []byte
}

// Frame serialises a segment: 4-byte timestamp, 2-byte id|direction, 2-byte length.
func Frame(s Seg) []byte {
	if len(s.Payload) > 0xffff {
		panic("rawpeer.Frame: payload too long")
	}
	out := make([]byte, 8+len(s.Payload))
	binary.BigEndian.PutUint32(out[0:], s.Timestamp)
	id := s.ProtoID & 0x7fff
	if s.Response {
		id |= 0x8000
	}
	binary.BigEndian.PutUint16(out[4:], id)
	binary.BigEndian.PutUint16(out[6:], uint16(len(s.Payload)))
	copy(out[8:], s.Payload)
	return out
}

// ReadSeg reads one segment from r.
func ReadSeg(r io.Reader) (Seg, error) {
	var hdr [8]byte
	if _, err := io.ReadFull(r, hdr[:]); err != nil {
		return Seg{}, err
	}
	id := binary.BigEndian.Uint16(hdr[4:])
	n := binary.BigEndian.Uint16(hdr[6:])
	s := Seg{Timestamp: binary.BigEndian.Uint32(hdr[0:]), ProtoID: id & 0x7fff, Response: id&0x8000 != 0}
	s.Payload = make([]byte, n)
	if _, err := io.ReadFull(r, s.Payload); err != nil {
		return s, err
	}
	return s, nil
}

// ParseSegs parses a complete wire capture; rest is the unparsed tail.
func ParseSegs(b []byte) (segs []Seg, rest []byte) {
	for len(b) >= 8 {
		n := int(binary.BigEndian.Uint16(b[6:]))
		if len(b) < 8+n {
			break
		}
		id := binary.BigEndian.Uint16(b[4:])
		segs = append(segs, Seg{Timestamp: binary.BigEndian.Uint32(b), ProtoID: id & 0x7fff, Response: id&0x8000 != 0, Payload: b[8 : 8+n]})
		b = b[8+n:]
	}
	return segs, b
}

// SplitPayload cuts a byte string into segments of at most max bytes each.
func SplitPayload(proto uint16, response bool, data []byte, max int) []Seg {
	if max <= 0 || max > 0xffff {
		max = 0xffff
	}
	var out []Seg
	for len(data) > 0 {
		n := len(data)
		if n > max {
			n = max
		}
		out = append(out, Seg{ProtoID: proto, Response: response, Payload: data[:n]})
		data = data[n:]
	}
	return out
}

// ---- raw peer -----------------------------------------------------------------

// Peer speaks raw segments on its end of a FragConn. A background reader
// collects everything the library writes, demultiplexed per (proto, direction).
type Peer struct {
	Conn net.Conn
	mu   sync.Mutex
	cond *sync.Cond
	segs []Seg
	// per stream byte buffers (key: proto | response<<15)
	streams map[uint16][]byte
	readErr error
	done    chan struct{}
}

func NewPeer(c net.Conn) *Peer {
	p := &Peer{Conn: c, streams: map[uint16][]byte{}, done: make(chan struct{})}
	p.cond = sync.NewCond(&p.mu)
	go p.reader()
	return p
}

func key(proto uint16, response bool) uint16 {
	if response {
		return proto | 0x8000
	}
	return proto
}

func (p *Peer) reader() {
	defer close(p.done)
	for {
		s, err := ReadSeg(p.Conn)
		p.mu.Lock()
		if err != nil {
			p.readErr = err
			p.cond.Broadcast()
			p.mu.Unlock()
			return
		}
		p.segs = append(p.segs, s)
		k := key(s.ProtoID, s.Response)
		p.streams[k] = append(p.streams[k], s.Payload...)
		p.cond.Broadcast()
		p.mu.Unlock()
	}
}

// Send writes segments back to back.
func (p *Peer) Send(segs ...Seg) error {
	var buf []byte
	for _, s := range segs {
		buf = append(buf, Frame(s)...)
	}
	_, err := p.Conn.Write(buf)
	return err
}

// SendBytes writes arbitrary bytes (for malformed framing).
func (p *Peer) SendBytes(b []byte) error { _, err := p.Conn.Write(b); return err }

// SendMsg sends message bytes on a protocol stream, split into max-size segments.
func (p *Peer) SendMsg(proto uint16, response bool, data []byte) error {
	return p.Send(SplitPayload(proto, response, data, 0)...)
}

var ErrTimeout = errors.New("rawpeer: timeout")

// WaitStream waits until at least n bytes have been received on a stream (or the
// reader ended) and returns a copy of the stream so far.
func (p *Peer) WaitStream(proto uint16, response bool, n int, d time.Duration) ([]byte, error) {
	deadline := time.Now().Add(d)
	k := key(proto, response)
	stop := time.AfterFunc(d, func() { p.mu.Lock(); p.cond.Broadcast(); p.mu.Unlock() })
	defer stop.Stop()
	p.mu.Lock()
	defer p.mu.Unlock()
	for len(p.streams[k]) < n {
		if p.readErr != nil {
			return append([]byte(nil), p.streams[k]...), p.readErr
		}
		if time.Now().After(deadline) {
			return append([]byte(nil), p.streams[k]...), ErrTimeout
		}
		p.cond.Wait()
	}
	return append([]byte(nil), p.streams[k]...), nil
}

// Take removes and returns the first n bytes of a stream (must be available).
func (p *Peer) Take(proto uint16, response bool, n int) []byte {
	k := key(proto, response)
	p.mu.Lock()
	defer p.mu.Unlock()
	if n > len(p.streams[k]) {
		n = len(p.streams[k])
	}
	out := append([]byte(nil), p.streams[k][:n]...)
	p.streams[k] = p.streams[k][n:]
	return out
}

// Stream returns a copy of everything currently buffered on a stream.
func (p *Peer) Stream(proto uint16, response bool) []byte {
	p.mu.Lock()
	defer p.mu.Unlock()
	return append([]byte(nil), p.streams[key(proto, response)]...)
}

// Segs returns a copy of all segments received so far.
func (p *Peer) Segs() []Seg {
	p.mu.Lock()
	defer p.mu.Unlock()
	return append([]Seg(nil), p.segs...)
}

// ReadErr returns the error that ended the reader (nil while running).
func (p *Peer) ReadErr() error {
	p.mu.Lock()
	defer p.mu.Unlock()
	return p.readErr
}

// WaitClosed waits until the library side closed the connection (reader got EOF/err).
func (p *Peer) WaitClosed(d time.Duration) bool {
	select {
	case <-p.done:
		return true
	case <-time.After(d):
		return false
	}
}

func (p *Peer) Close() { _ = p.Conn.Close() }
