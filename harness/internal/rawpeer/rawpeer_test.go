package rawpeer

import (
	"testing"
	"time"

	ouroboros "github.com/blinklabs-io/gouroboros"
)

func TestHandshakeAgainstLibrary(t *testing.T) {
	a, b := Pipe(&SeqPlan{Chunks: []int{1, 3, 7}, Yields: []int{0, 1}}, nil)
	peer := NewPeer(b)
	errc := make(chan error, 1)
	go func() {
		_, err := peer.AcceptHandshake(5*time.Second, nil)
		errc <- err
	}()
	conn, err := ouroboros.NewConnection(
		ouroboros.WithConnection(a),
		ouroboros.WithNetworkMagic(42),
		ouroboros.WithNodeToNode(true),
		ouroboros.WithKeepAlive(false),
	)
	if err != nil {
		t.Fatalf("NewConnection: %v", err)
	}
	if err := <-errc; err != nil {
		t.Fatal(err)
	}
	v, _ := conn.ProtocolVersion()
	t.Logf("negotiated %d", v)
	conn.Close()
	if !peer.WaitClosed(5 * time.Second) {
		t.Fatal("library did not close the conn")
	}
}
