// Package fixtures carries real Cardano blocks (copied from gouroboros test
// data; they are inputs, not code under test) for use as generator templates.
package fixtures

import (
	"embed"
	"encoding/hex"
	"strings"
	"sync"
)

//go:embed data/*.hex
var files embed.FS

// Block types as defined by the ledger (ledger.BlockType*).
const (
	TypeByronEbb  = 0
	TypeByronMain = 1
	TypeShelley   = 2
	TypeAllegra   = 3
	TypeMary      = 4
	TypeAlonzo    = 5
	TypeBabbage   = 6
	TypeConway    = 7
	TypeDijkstra  = 8
)

type Block struct {
	Name  string
	Era   string
	Type  uint
	Bytes []byte
}

func mustHex(name string) []byte {
	b, err := files.ReadFile("data/" + name)
	if err != nil {
		panic(err)
	}
	out, err := hex.DecodeString(strings.TrimSpace(string(b)))
	if err != nil {
		panic(name + ": " + err.Error())
	}
	return out
}

var (
	once   sync.Once
	blocks []Block
)

// Blocks returns all block fixtures (the 650 KiB Byron EBB last).
func Blocks() []Block {
	once.Do(func() {
		blocks = []Block{
			{"byron_main", "byron", TypeByronMain, mustHex("byron_block.hex")},
			{"byron_main_testnet", "byron", TypeByronMain, mustHex("cs_byron_main_block.hex")},
			{"shelley", "shelley", TypeShelley, mustHex("shelley_block.hex")},
			{"shelley_testnet", "shelley", TypeShelley, mustHex("cs_shelley_block.hex")},
			{"allegra", "allegra", TypeAllegra, mustHex("allegra_block.hex")},
			{"mary", "mary", TypeMary, mustHex("mary_block.hex")},
			{"alonzo", "alonzo", TypeAlonzo, mustHex("alonzo_block.hex")},
			{"babbage", "babbage", TypeBabbage, mustHex("babbage_block.hex")},
			{"conway", "conway", TypeConway, mustHex("conway_block.hex")},
			{"dijkstra", "dijkstra", TypeDijkstra, mustHex("musashi_dijkstra_block.hex")},
			{"byron_ebb", "byron", TypeByronEbb, mustHex("cs_byron_ebb.hex")},
		}
	})
	return blocks
}

// SmallBlocks returns all fixtures except the very large Byron EBB.
func SmallBlocks() []Block {
	bs := Blocks()
	return bs[:len(bs)-1]
}

// ByName returns a fixture.
func ByName(name string) Block {
	for _, b := range Blocks() {
		if b.Name == name {
			return b
		}
	}
	panic("no fixture " + name)
}

// DijkstraTx is a standalone Dijkstra transaction from cardano-ledger.
func DijkstraTx() []byte { return mustHex("cardano_ledger_dijkstra_w30_tx.hex") }
