// Package evi is the evidence recorder shared by every property check.
//
// One Recorder per TestCnn. It counts oracle evaluations, the set of distinct
// non-trivial cases (by a hash of a canonical description), class counters that
// describe the generator's measured distribution, keeps samples, classifies
// failures into finding keys, consults /verif/known_findings.json, writes the
// replay file of an unlisted failure and prints the VIOLATION / KNOWN-FINDING
// lines the driver looks for. It never writes to known_findings.json.
package evi

import (
	"encoding/hex"
	"encoding/json"
	"fmt"
	"hash/fnv"
	"io"
	"os"
	"path/filepath"
	"sort"
	"strconv"
	"strings"
	"sync"
	"testing"
	"time"

	"pgregory.net/rapid"
)

const (
	Exploration      = "exploration"
	FaultEnumeration = "fault_enumeration"
)

// Root is /verif (overridable for tests of the machinery itself).
func Root() string {
	if r := os.Getenv("VERIF_ROOT"); r != "" {
		return r
	}
	return "/verif"
}

type finding struct {
	Property string `json:"property"`
	Key      string `json:"key"`
	What     string `json:"what"`
	Status   string `json:"status"` // "known" | "fixed"
	Commit   string `json:"commit,omitempty"`
}

type failure struct {
	Key     string `json:"key"`
	What    string `json:"what"`
	Case    any    `json:"case"`
	Extra   string `json:"extra,omitempty"`
	isPanic bool
}

type Recorder struct {
	t     testing.TB
	ID    string
	Level string
	Rule  string
	Tier  string
	seed  int64
	start time.Time

	mu          sync.Mutex
	evals       int64
	distinct    map[uint64]struct{}
	classes     map[string]int64
	samples     []any
	sampleSeen  int64
	maxSamples  int
	known       map[string]finding // key -> finding with status known
	knownHit    map[string]int64
	knownOrder  []string
	excluded    int64
	last        *failure
	violations  []failure
	assumptions []string
	extra       map[string]any
	exhaustive  bool
	finished    bool
	inShrink    bool
}

// New creates the recorder for property id. rule states how cases are
// generated and what makes one non-trivial/distinct.
func New(t testing.TB, id, level, rule string) *Recorder {
	r := &Recorder{
		t: t, ID: id, Level: level, Rule: rule,
		Tier:       tier(),
		seed:       Seed(),
		start:      time.Now(),
		distinct:   map[uint64]struct{}{},
		classes:    map[string]int64{},
		known:      map[string]finding{},
		knownHit:   map[string]int64{},
		extra:      map[string]any{},
		maxSamples: 8,
	}
	r.loadKnown()
	return r
}

func tier() string {
	if v := os.Getenv("VERIF_TIER"); v == "thorough" {
		return "thorough"
	}
	return "quick"
}

// Thorough reports whether the thorough tier is running.
func (r *Recorder) Thorough() bool { return r.Tier == "thorough" }

// Pick returns q in the quick tier and th in the thorough tier.
func (r *Recorder) Pick(q, th int) int {
	if r.Thorough() {
		return th
	}
	return q
}

// Seed is VERIF_SEED (0 remapped to a fixed constant: rapid treats 0 as random).
func Seed() int64 {
	v, err := strconv.ParseInt(os.Getenv("VERIF_SEED"), 10, 64)
	if err != nil || v == 0 {
		return 20260921
	}
	return v
}

func (r *Recorder) Seed() int64 { return r.seed }

func (r *Recorder) loadKnown() {
	files := []string{filepath.Join(Root(), "known_findings.json")}
	more, _ := filepath.Glob(filepath.Join(Root(), "known_findings.d", "*.json"))
	sort.Strings(more)
	files = append(files, more...)
	for _, fn := range files {
		b, err := os.ReadFile(fn)
		if err != nil {
			continue
		}
		var fs []finding
		if err := json.Unmarshal(b, &fs); err != nil {
			r.t.Fatalf("%s: %v", fn, err)
		}
		for _, f := range fs {
			if f.Property == r.ID && f.Status == "known" {
				r.known[f.Key] = f
			}
		}
	}
}

// IsKnown reports whether a finding key is listed as known (so a generator may
// exclude that class by construction). It does not print anything.
func (r *Recorder) IsKnown(key string) bool {
	_, ok := r.known[key]
	return ok
}

func (r *Recorder) Assume(s ...string) { r.assumptions = append(r.assumptions, s...) }

func (r *Recorder) SetExtra(k string, v any) {
	r.mu.Lock()
	r.extra[k] = v
	r.mu.Unlock()
}

func (r *Recorder) SetExhaustive(b bool) { r.exhaustive = b }

// Eval counts one oracle evaluation.
func (r *Recorder) Eval() { r.EvalN(1) }

func (r *Recorder) EvalN(n int) {
	r.mu.Lock()
	r.evals += int64(n)
	r.mu.Unlock()
}

// Class increments a distribution counter.
func (r *Recorder) Class(name string) {
	r.mu.Lock()
	r.classes[name]++
	r.mu.Unlock()
}

func (r *Recorder) ClassN(name string, n int) {
	r.mu.Lock()
	r.classes[name] += int64(n)
	r.mu.Unlock()
}

func hash64(s string) uint64 {
	h := fnv.New64a()
	_, _ = io.WriteString(h, s)
	return h.Sum64()
}

// NonTrivial records a case that met the property's non-triviality rule.
// desc is a canonical description used for distinctness; sample (may be nil,
// then desc is used) is what gets written out if this case is sampled.
func (r *Recorder) NonTrivial(desc string, sample any) {
	h := hash64(desc)
	r.mu.Lock()
	defer r.mu.Unlock()
	if _, ok := r.distinct[h]; ok {
		return
	}
	r.distinct[h] = struct{}{}
	r.sampleSeen++
	if sample == nil {
		sample = clip(desc, 600)
	}
	if len(r.samples) < r.maxSamples {
		r.samples = append(r.samples, sample)
	} else {
		// deterministic reservoir keyed on the case hash
		j := h % uint64(r.sampleSeen)
		if j < uint64(r.maxSamples) && j >= 3 { // keep the first three always
			r.samples[j] = sample
		}
	}
}

func clip(s string, n int) string {
	if len(s) > n {
		return s[:n] + fmt.Sprintf("…(+%d)", len(s)-n)
	}
	return s
}

// Hex renders bytes for samples/replays, clipped.
func Hex(b []byte) string {
	if len(b) > 400 {
		return hex.EncodeToString(b[:400]) + fmt.Sprintf("…(+%d bytes)", len(b)-400)
	}
	return hex.EncodeToString(b)
}

// tbLike is what both *testing.T and *rapid.T offer.
type tbLike interface {
	Fatalf(format string, args ...any)
	Helper()
}

// Fail reports that the oracle failed on the current case. If key is a listed
// known finding it is noted (KNOWN-FINDING line at the end) and Fail returns
// true so the caller continues as if the case passed; otherwise the failure is
// remembered as the candidate replay and the (rapid or plain) test is failed.
func (r *Recorder) Fail(t tbLike, key, what string, cs any) bool {
	t.Helper()
	r.mu.Lock()
	if _, ok := r.known[key]; ok {
		if r.knownHit[key] == 0 {
			r.knownOrder = append(r.knownOrder, key)
		}
		r.knownHit[key]++
		r.excluded++
		r.mu.Unlock()
		return true
	}
	r.last = &failure{Key: key, What: what, Case: cs}
	r.mu.Unlock()
	t.Fatalf("property %s violated [%s]: %s", r.ID, key, what)
	return false
}

// Violation records a failure outside rapid (enumerations, concurrency
// scenarios). It does not stop the test; Finish reports it.
func (r *Recorder) Violation(key, what string, cs any) bool {
	r.mu.Lock()
	defer r.mu.Unlock()
	if _, ok := r.known[key]; ok {
		if r.knownHit[key] == 0 {
			r.knownOrder = append(r.knownOrder, key)
		}
		r.knownHit[key]++
		r.excluded++
		return true
	}
	for _, v := range r.violations {
		if v.Key == key {
			return false // one replay per key is enough
		}
	}
	r.violations = append(r.violations, failure{Key: key, What: what, Case: cs})
	return false
}

// Check runs prop under rapid.Check. Library panics inside prop are turned into
// failures with a key derived from the panic site, so that a crashing library
// is a violation rather than an infrastructure error.
func (r *Recorder) Check(prop func(*rapid.T)) {
	r.t.Helper()
	t, ok := r.t.(*testing.T)
	if !ok {
		r.t.Fatalf("evi.Check needs *testing.T")
	}
	rapid.Check(t, func(rt *rapid.T) {
		defer func() {
			if p := recover(); p != nil {
				tn := fmt.Sprintf("%T", p)
				if strings.HasPrefix(tn, "rapid.") || strings.HasPrefix(tn, "*rapid.") {
					panic(p)
				}
				r.mu.Lock()
				r.last = &failure{Key: "panic", What: fmt.Sprintf("panic: %v", p), isPanic: true}
				r.mu.Unlock()
				panic(p)
			}
		}()
		prop(rt)
	})
}

// Safely runs f and converts a panic into an error string (used by oracles for
// which "the library panicked" is itself the violation).
func Safely(f func()) (panicked string) {
	defer func() {
		if p := recover(); p != nil {
			panicked = fmt.Sprint(p)
		}
	}()
	f()
	return ""
}

type evidence struct {
	PropertyID  string         `json:"property_id"`
	Tier        string         `json:"tier"`
	Seed        int64          `json:"seed"`
	Level       string         `json:"level"`
	Coverage    map[string]any `json:"coverage"`
	Assumptions []string       `json:"assumptions"`
	WallS       float64        `json:"wall_s"`
	Violations  int            `json:"violations"`
}

// Finish writes the evidence file and prints the report lines. Call it with
// defer right after New so it also runs when rapid.Check calls FailNow.
func (r *Recorder) Finish() {
	r.mu.Lock()
	if r.finished {
		r.mu.Unlock()
		return
	}
	r.finished = true
	viol := append([]failure(nil), r.violations...)
	if r.t.Failed() && r.last != nil {
		viol = append(viol, *r.last)
	}
	r.mu.Unlock()

	for _, k := range r.knownOrder {
		fmt.Printf("KNOWN-FINDING: property=%s %s (key=%s, hit %d times, excluded from the search)\n",
			r.ID, r.known[k].What, k, r.knownHit[k])
	}
	for i := range viol {
		p := r.writeReplay(&viol[i])
		fmt.Printf("VIOLATION property=%s replay=%s\n", r.ID, p)
		fmt.Printf("  key=%s what=%s\n", viol[i].Key, clip(viol[i].What, 1500))
	}
	if r.t.Failed() && len(viol) == 0 {
		fmt.Printf("HARNESS-ERROR property=%s test failed without a classified violation\n", r.ID)
	}

	cov := map[string]any{
		"evaluations":         r.evals,
		"distinct_nontrivial": len(r.distinct),
		"rule":                r.Rule,
		"samples":             r.samples,
		"classes":             r.classes,
		"excluded_known":      r.excluded,
	}
	if r.exhaustive {
		cov["exhaustive"] = true
	}
	for k, v := range r.extra {
		cov[k] = v
	}
	if cov["samples"] == nil || len(r.samples) == 0 {
		cov["samples"] = []any{}
	}
	hits := map[string]int64{}
	for k, v := range r.knownHit {
		hits[k] = v
	}
	cov["known_finding_hits"] = hits
	ev := evidence{
		PropertyID: r.ID, Tier: r.Tier, Seed: r.seed, Level: r.Level,
		Coverage: cov, Assumptions: r.assumptions,
		WallS:      time.Since(r.start).Seconds(),
		Violations: len(viol),
	}
	if ev.Assumptions == nil {
		ev.Assumptions = []string{}
	}
	out := os.Getenv("VERIF_EVIDENCE_OUT")
	if out == "" {
		out = filepath.Join(Root(), "evidence", r.ID+".json")
	}
	if os.Getenv("VERIF_EVIDENCE_HASHES") != "" {
		hs := make([]string, 0, len(r.distinct))
		for h := range r.distinct {
			hs = append(hs, strconv.FormatUint(h, 16))
		}
		sort.Strings(hs)
		cov["_distinct_hashes"] = hs
	}
	b, err := json.MarshalIndent(ev, "", " ")
	if err != nil {
		// a sample was not serialisable; degrade to strings
		ss := make([]any, len(r.samples))
		for i, s := range r.samples {
			ss[i] = fmt.Sprintf("%+v", s)
		}
		cov["samples"] = ss
		b, _ = json.MarshalIndent(ev, "", " ")
	}
	_ = os.MkdirAll(filepath.Dir(out), 0o755)
	if err := os.WriteFile(out, b, 0o644); err != nil {
		fmt.Printf("HARNESS-ERROR property=%s cannot write evidence: %v\n", r.ID, err)
	}
	if len(viol) > 0 && !r.t.Failed() {
		r.t.Errorf("%d violation(s) of %s", len(viol), r.ID)
	}
}

func (r *Recorder) writeReplay(f *failure) string {
	dir := os.Getenv("VERIF_REPLAY_DIR")
	if dir == "" {
		dir = filepath.Join(Root(), "replays", r.ID)
	}
	_ = os.MkdirAll(dir, 0o755)
	name := fmt.Sprintf("%s-%016x", sanitize(f.Key), hash64(f.Key+f.What))
	p := filepath.Join(dir, name+".json")
	doc := map[string]any{
		"property": r.ID, "key": f.Key, "what": f.What, "case": f.Case,
		"seed": r.seed, "tier": r.Tier, "test": r.t.Name(),
	}
	// keep rapid's fail file (bit stream of the shrunk case) next to it
	if matches, _ := filepath.Glob(filepath.Join("testdata", "rapid", "*", "*.fail")); len(matches) > 0 {
		sort.Strings(matches)
		src := matches[len(matches)-1]
		if b, err := os.ReadFile(src); err == nil {
			dst := filepath.Join(dir, name+".fail")
			if os.WriteFile(dst, b, 0o644) == nil {
				doc["rapid_failfile"] = dst
			}
		}
	}
	b, err := json.MarshalIndent(doc, "", " ")
	if err != nil {
		doc["case"] = fmt.Sprintf("%+v", f.Case)
		b, _ = json.MarshalIndent(doc, "", " ")
	}
	_ = os.WriteFile(p, b, 0o644)
	return p
}

func sanitize(s string) string {
	var sb strings.Builder
	for _, c := range s {
		switch {
		case c >= 'a' && c <= 'z', c >= 'A' && c <= 'Z', c >= '0' && c <= '9', c == '-', c == '_', c == '.':
			sb.WriteRune(c)
		default:
			sb.WriteByte('_')
		}
	}
	out := sb.String()
	if len(out) > 80 {
		out = out[:80]
	}
	return out
}

// ReplayCase loads the "case" object of a replay file named by VERIF_REPLAY,
// or returns nil when no replay was requested.
func ReplayCase() (json.RawMessage, string) {
	p := os.Getenv("VERIF_REPLAY")
	if p == "" {
		return nil, ""
	}
	b, err := os.ReadFile(p)
	if err != nil {
		return nil, ""
	}
	var doc struct {
		Key  string          `json:"key"`
		Case json.RawMessage `json:"case"`
	}
	if json.Unmarshal(b, &doc) != nil {
		return nil, ""
	}
	return doc.Case, doc.Key
}
