package faults

import (
	"fmt"
	"os"
	"testing"
	"time"
)

func TestProbeLegit(t *testing.T) {
	only := os.Getenv("PROBE_SCN")
	for _, s := range scenarios() {
		if only != "" && only != s.Name {
			continue
		}
		cs := caseSpec{Scn: s.Name, Fault: "none", Pos: 0, LingerUs: 20000}
		o := runCase(s, cs, 5*time.Second)
		fmt.Printf("%-45s key=%q desync=%v settle=%.1fms calls=%+v errs=%v\n", s.Name, o.Key, o.Desync, o.SettleMs, o.Calls, o.ConnErrors)
		if o.Key != "" || o.Desync || testing.Verbose() {
			for _, l := range o.Trace {
				fmt.Println("    ", l)
			}
			fmt.Println(o.What)
			fmt.Println(o.Dump)
		}
	}
}

func TestProbeTableSize(t *testing.T) {
	tab := table()
	n, pn := 0, 0
	for _, r := range tab {
		for _, p := range r.pos {
			n += variantCount(r.scn, r.fault, p)
			pn++
		}
	}
	fmt.Println("scenarios", len(scenarios()), "rows", len(tab), "row-positions", pn, "cells", n)
}
