package faults

import (
	"net"
	"sync"
	"syscall"
	"time"

	"verif/harness/internal/rawpeer"
)

// faultConn is the library's end of the pipe. It behaves exactly like the
// FragConn it wraps until the harness makes reads and/or writes fail with a
// transport error other than EOF (connection reset, broken pipe).
type faultConn struct {
	*rawpeer.FragConn
	mu       sync.Mutex
	readErr  error
	writeErr error
}

func (c *faultConn) Read(p []byte) (int, error) {
	c.mu.Lock()
	e := c.readErr
	c.mu.Unlock()
	if e != nil {
		return 0, e
	}
	n, err := c.FragConn.Read(p)
	if err != nil {
		c.mu.Lock()
		e = c.readErr
		c.mu.Unlock()
		if e != nil {
			return n, e // the wake-up deadline of failReads is reported as the reset
		}
	}
	return n, err
}

func (c *faultConn) Write(p []byte) (int, error) {
	c.mu.Lock()
	e := c.writeErr
	c.mu.Unlock()
	if e != nil {
		return 0, e
	}
	return c.FragConn.Write(p)
}

// failReads makes the pending and every later Read fail with ECONNRESET.
func (c *faultConn) failReads() {
	c.mu.Lock()
	c.readErr = &net.OpError{Op: "read", Net: "mem", Err: syscall.ECONNRESET}
	c.mu.Unlock()
	_ = c.FragConn.SetReadDeadline(time.Unix(1, 0)) // wakes a blocked Read
}

// failWrites makes every later Write fail with EPIPE.
func (c *faultConn) failWrites() {
	c.mu.Lock()
	c.writeErr = &net.OpError{Op: "write", Net: "mem", Err: syscall.EPIPE}
	c.mu.Unlock()
}
