package faults

import (
	"encoding/json"
	"flag"
	"fmt"
	"os"
	"sort"
	"strconv"
	"strings"
	"sync"
	"testing"
	"time"

	"pgregory.net/rapid"

	"verif/harness/internal/evi"
)

// fullBound is the bounded-liveness bound of the oracle: a healthy shutdown
// settles within a few milliseconds (measured: median < 10 ms, worst observed
// under load a few hundred ms), so 15 s is far beyond 20x the expected latency.
var fullBound = func() time.Duration {
	// VERIF_C15_BOUND_MS shortens the bound for exploratory runs only; the
	// registered check never sets it
	if v, err := strconv.Atoi(os.Getenv("VERIF_C15_BOUND_MS")); err == nil && v > 0 {
		return time.Duration(v) * time.Millisecond
	}
	return 15 * time.Second
}()

// row is one line of the fault table: an API-call scenario crossed with a fault kind.
type row struct {
	scn   *scenario
	fault faultKind
	pos   []int // applicable positions
}

func table() []row {
	var out []row
	for _, s := range scenarios() {
		for fk := faultKind(0); fk < nFaultKinds; fk++ {
			var ps []int
			for p := -1; p < s.nPos(); p++ {
				if applicable(s, fk, p) {
					ps = append(ps, p)
				}
			}
			if len(ps) > 0 {
				out = append(out, row{s, fk, ps})
			}
		}
	}
	return out
}

func genPlanSpec(t *rapid.T, label string) planSpec {
	switch rapid.IntRange(0, 3).Draw(t, label+"_plan") {
	case 0:
		return planSpec{}
	case 1:
		return planSpec{Chunks: []int{0}, Yields: []int{1}}
	default:
		chunks := rapid.SliceOfN(rapid.SampledFrom([]int{1, 2, 3, 7, 8, 9, 64, 1000, 4096, 0}), 1, 4).Draw(t, label+"_chunks")
		ys := []int{0, 0, 1, 1, 20, 200}
		for _, c := range chunks {
			if c > 0 && c < 1000 {
				ys = []int{0, 0, 1} // tiny reads: never sleep per read
			}
		}
		yields := rapid.SliceOfN(rapid.SampledFrom(ys), 1, 3).Draw(t, label+"_yields")
		return planSpec{Chunks: chunks, Yields: yields}
	}
}

// genCase draws everything of a case except (scenario, fault); pos < -1 means
// "draw the position", variant < 0 "draw the variant".
func genCase(r row, pos, variant int) *rapid.Generator[caseSpec] {
	return rapid.Custom(func(t *rapid.T) caseSpec {
		cs := caseSpec{Scn: r.scn.Name, Fault: r.fault.String(), Pos: pos, Variant: variant}
		if pos < -1 {
			cs.Pos = rapid.SampledFrom(r.pos).Draw(t, "pos")
		}
		if variant < 0 {
			cs.Variant = rapid.IntRange(0, variantCount(r.scn, r.fault, cs.Pos)-1).Draw(t, "variant")
		}
		cs.Cut = rapid.IntRange(0, 999).Draw(t, "cut")
		cs.SegMax = rapid.SampledFrom([]int{0, 0, 0, 1, 2, 5, 64, 1000}).Draw(t, "segmax")
		if !floodWithStop && r.scn.callsStop() {
			// a client Stop() that meets more than 10 unread segments of its protocol
			// wedges the muxer on the unchanged tree (findings/C15.md); scenarios that
			// call Stop get their messages in one segment each, so that history is not
			// generated
			cs.SegMax = 0
		}
		cs.LingerUs = rapid.SampledFrom([]int{0, 200, 2000, 20000, 60000}).Draw(t, "linger_us")
		if r.fault == fSilenceClose && cs.LingerUs < 2000 {
			cs.LingerUs = 2000
		}
		cs.EndLocal = rapid.Bool().Draw(t, "end_local")
		cs.CallDelay = rapid.SampledFrom([]int{0, 0, 100, 3000}).Draw(t, "call_delay_us")
		cs.AfterErr = rapid.IntRange(0, 3).Draw(t, "after_err") == 0
		cs.DoubleClose = rapid.IntRange(0, 3).Draw(t, "double_close") == 0
		cs.NoErrReader = rapid.IntRange(0, 4).Draw(t, "no_err_reader") == 0
		if r.fault == fGarbage {
			cs.Noise = rapid.SliceOfN(rapid.Byte(), 1, 40).Draw(t, "noise")
		}
		cs.PlanLib = genPlanSpec(t, "lib")
		cs.PlanPeer = genPlanSpec(t, "peer")
		return cs
	})
}

// state shared by the phases of one run
type runState struct {
	rec *evi.Recorder
	mu  sync.Mutex
	// ignoreLeak: library functions whose goroutines are left behind even by a
	// fault-free conversation (reported once by the baseline phase, per mode)
	ignoreLeak map[string]bool
	// confirmed: key prefixes of listed known findings that were reproduced in this run
	confirmed map[string]bool
	cells     map[string]bool
	rows      map[string]bool
	settle    []float64
	// reported: unlisted keys already reported in this run; a repetition is not
	// waited for with the full bound again, and after maxUnlisted distinct ones the
	// walk stops (a change that breaks every shutdown must end as a violation, not
	// as an exhausted time budget)
	reported  map[string]bool
	nUnlisted int
	shards    int // the baseline of a scenario runs in one shard only
	shard     int
}

const (
	maxUnlisted     = 6  // distinct unlisted keys
	maxUnlistedHits = 14 // occurrences of unlisted keys
)

func (st *runState) isKnownOrReported(k string) bool {
	if st.rec.IsKnown(k) {
		return true
	}
	st.mu.Lock()
	defer st.mu.Unlock()
	return st.reported[k]
}

func (st *runState) tooMany() bool {
	st.mu.Lock()
	defer st.mu.Unlock()
	return len(st.reported) >= maxUnlisted || st.nUnlisted >= maxUnlistedHits
}

func (st *runState) noteReported(k string) {
	if !st.rec.IsKnown(k) {
		st.mu.Lock()
		st.reported[k] = true
		st.nUnlisted++
		st.mu.Unlock()
	}
}

type failer func(key, what string, cs any) bool

// evalCase runs one case and feeds the recorder. It returns the outcome.
func (st *runState) evalCase(cs caseSpec, fail failer) outcome {
	rec := st.rec
	scn := scenarioByName(cs.Scn)
	if scn == nil {
		panic("no scenario " + cs.Scn)
	}
	if st.tooMany() {
		rec.Class("skipped:enough-violations-reported")
		return outcome{}
	}
	prefix := predictedKeyPrefix(scn, cs)
	st.mu.Lock()
	done := st.confirmed[prefix]
	st.mu.Unlock()
	if done {
		// the (protocol, call, fault, position) class is a listed known finding that
		// this run has already reproduced: excluded by construction
		rec.Class("skipped:known-class-already-confirmed")
		return outcome{}
	}
	st.mu.Lock()
	ign := map[string]bool{}
	for k := range st.ignoreLeak {
		ign[k] = true
	}
	st.mu.Unlock()
	t0 := time.Now()
	o := runCaseIgnoring(scn, cs, fullBound, ign, st.isKnownOrReported)
	if os.Getenv("VERIF_C15_TRACE") != "" {
		fmt.Printf("TRACE %6.0fms %s %s pos=%d key=%q\n", float64(time.Since(t0).Milliseconds()), cs.Scn, cs.Fault, cs.Pos, o.Key)
	}
	rec.Eval()
	rec.Class("fault:" + cs.Fault)
	rec.Class("proto:" + scn.Proto)
	if cs.EndLocal {
		rec.Class("end:local-close")
	} else {
		rec.Class("end:peer-close")
	}
	if o.Desync {
		rec.Class("desync-before-fault")
	}
	if o.NewConnErr != "" {
		rec.Class("newconnection-returned-error")
	}
	if o.NeededClose {
		rec.Class("calls-pending-until-local-close")
	}
	if cs.DoubleClose {
		rec.Class("close:concurrent-double-close")
	}
	if cs.NoErrReader {
		rec.Class("errorchan:not-read-before-close")
	}
	if o.CallPendingAtEnd {
		rec.Class("call-blocked-when-connection-ended")
	}
	for _, c := range o.Calls {
		switch {
		case !c.Started:
			rec.Class("call:not-started")
		case !c.Returned:
			rec.Class("call:never-returned")
		case c.Err != "":
			rec.Class("call:returned-error")
		default:
			rec.Class("call:returned-result")
		}
	}
	st.mu.Lock()
	st.settle = append(st.settle, o.SettleMs)
	if o.Injected && !o.Desync {
		st.cells[fmt.Sprintf("%s|%s|%d|%s", cs.Scn, cs.Fault, cs.Pos, o.Variant)] = true
		st.rows[cs.Scn+"|"+cs.Fault] = true
	}
	st.mu.Unlock()
	if o.Injected && !o.Desync {
		rec.NonTrivial(cs.String(), map[string]any{"case": cs, "at": o.At, "pending_call": o.Call, "variant": o.Variant,
			"calls": o.Calls, "connection_errors": o.ConnErrors, "settle_ms": o.SettleMs, "trace": o.Trace})
	}
	if o.Key != "" {
		if strings.HasPrefix(o.Key, "harness:") {
			rec.Class("harness-problem")
			fmt.Printf("HARNESS-NOTE %s: %s\n", cs, o.What)
			return o
		}
		for _, k := range o.Keys {
			st.noteReported(k)
			if fail(k, o.What, map[string]any{"spec": cs, "outcome": o}) && strings.HasPrefix(k, prefix) {
				// a listed (protocol, call, fault, position) class was reproduced: it is
				// excluded by construction for the rest of the run
				st.mu.Lock()
				st.confirmed[prefix] = true
				st.mu.Unlock()
			}
		}
	}
	return o
}

func thoroughSchedules() int {
	if v, err := strconv.Atoi(os.Getenv("VERIF_C15_SCHEDULES")); err == nil && v > 0 {
		return v
	}
	return 3
}

func limitShrinkTime() {
	if f := flag.Lookup("rapid.shrinktime"); f != nil && f.Value.String() == f.DefValue {
		_ = flag.Set("rapid.shrinktime", "20s")
	}
}

func TestC15(t *testing.T) {
	rec := evi.New(t, "C15", evi.FaultEnumeration,
		"a table of blocking API calls (rows = call scenario x fault kind; cells = rows x positions of the legitimate conversation) of a full ouroboros.Connection "+
			"over an in-memory pipe; the peer is a raw segment peer that plays the legitimate conversation up to a position and then injects the fault (a reply of another kind the "+
			"state map admits / of a kind it does not admit / a surplus reply / a truncated segment then close / close / silence then close / garbage / close right after the handshake / "+
			"close in the middle of a message / transport errors other than EOF / silence without close against 250 ms protocol timeouts / a flood of valid messages whose total size exceeds the state's PendingMessageByteLimit, read from the exported state map, with a slow user callback when a call is pending). rapid draws position, the alternative message, cut point, segmentation, read-fragmentation plans of both ends, linger, who ends the "+
			"connection (peer close or local Close()), and whether the caller goes on after an error. A case is non-trivial when the fault was really injected at the planned position "+
			"(the legitimate prefix ran without desynchronisation); two cases are distinct when their full specification differs")
	defer rec.Finish()
	rec.Assume(
		"the harness drains ErrorChan(), in 1 of 5 cases only after Close() has returned (the channel is buffered; a consumer that never reads it is outside the statement)",
		"scenarios re-use the same Connection / client / server objects through Stop/Start and MsgDone/restart cycles and through failed operations before the fault; histories in which a client Stop() meets a receive backlog are not generated (does not hold on the unchanged tree, see findings)",
		"user callbacks given to the library return immediately (one tx-submission scenario has a Done callback that takes 3 ms; in flood cases with a call pending the chain-sync / block-fetch callbacks block until 20 ms after the connection ended - a slow consumer)",
		"a goroutine counts as started for the connection when it is not in the goroutine set taken right before the connection is created and has a gouroboros frame; the harness's own caller goroutines are judged as calls, not as leaks",
		"goroutines that even a fault-free conversation leaves behind are reported once by the baseline phase (key no-fault) and not again per fault",
		"bounded liveness: "+fullBound.String()+" polled, against a measured settle time of milliseconds; classes that are listed known findings are re-confirmed with "+knownBound.String()+" only")
	limitShrinkTime()

	st := &runState{rec: rec, ignoreLeak: map[string]bool{}, confirmed: map[string]bool{}, cells: map[string]bool{}, rows: map[string]bool{}, reported: map[string]bool{}}
	viol := func(key, what string, cs any) bool { return rec.Violation(key, what, cs) }

	// ---- replay of a saved case
	if rawCase, _ := evi.ReplayCase(); rawCase != nil {
		var doc struct {
			Spec caseSpec `json:"spec"`
		}
		if err := json.Unmarshal(rawCase, &doc); err != nil || doc.Spec.Scn == "" {
			t.Fatalf("replay file has no case spec: %v", err)
		}
		st.baseline(doc.Spec.Scn, viol)
		o := st.evalCase(doc.Spec, viol)
		fmt.Printf("replayed %s -> key=%q %s\n", doc.Spec, o.Key, o.What)
		// evidence needs two distinct cases: run the mirrored end mode as well
		m := doc.Spec
		m.EndLocal = !m.EndLocal
		st.evalCase(m, viol)
		return
	}

	tab := table()
	nCells := 0
	for _, r := range tab {
		for _, p := range r.pos {
			nCells += variantCount(r.scn, r.fault, p)
		}
	}
	rec.SetExtra("table_rows", len(tab))
	rec.SetExtra("table_cells", nCells)
	rec.SetExtra("table_scenarios", len(scenarios()))

	// sharding of the deterministic walk over processes (the driver starts shard i with seed S+i)
	shards, shard := 1, 0
	if v, err := strconv.Atoi(os.Getenv("VERIF_C15_SHARDS")); err == nil && v > 1 {
		shards = v
		shard = int(((rec.Seed() % int64(v)) + int64(v)) % int64(v))
	}
	baseSeed := int(rec.Seed() - int64(shard)) // identical in all shards of one run

	// ---- phase 0: every scenario once without any fault (self-check of the scripts + unconditional leaks)
	st.shards, st.shard = shards, shard
	st.baseline("", viol)

	// ---- phase 1: walk the table
	// quick: every row once with a generated position and variant; thorough: every
	// cell (row x position x variant) under several generated schedules
	schedules := rec.Pick(1, thoroughSchedules())
	idx := 0
	for ri, r := range tab {
		if !rec.Thorough() {
			idx++
			if idx%shards == shard {
				if r.fault == fFlood {
					// few rows, and only some positions can reach the byte limit: all of them
					for _, p := range r.pos {
						st.evalCase(genCase(r, p, 0).Example(baseSeed*7919+ri*131+(p+3)*17), viol)
					}
					continue
				}
				st.evalCase(genCase(r, -2, -1).Example(baseSeed*7919+ri*131), viol)
			}
			continue
		}
		for _, p := range r.pos {
			for v := 0; v < variantCount(r.scn, r.fault, p); v++ {
				idx++ // a cell and all its schedules belong to one shard
				if idx%shards != shard {
					continue
				}
				for k := 0; k < schedules; k++ {
					st.evalCase(genCase(r, p, v).Example(baseSeed*7919+ri*131+(p+3)*17+v*5+k), viol)
				}
			}
		}
	}

	// coverage of the table is counted for the walk only (every row / cell belongs to
	// exactly one shard, so the per-shard counts add up)
	st.mu.Lock()
	nRows, nCellsCov := len(st.rows), len(st.cells)
	st.mu.Unlock()

	// ---- phase 2: rapid draws whole cases
	rec.Check(func(rt *rapid.T) {
		r := tab[rapid.IntRange(0, len(tab)-1).Draw(rt, "row")]
		cs := genCase(r, -2, -1).Draw(rt, "case")
		st.evalCase(cs, func(key, what string, c any) bool { return rec.Fail(rt, key, what, c) })
	})

	st.mu.Lock()
	if !rec.Thorough() {
		rec.SetExtra("n_rows_covered_by_walk", nRows)
	}
	rec.SetExtra("n_cells_covered_by_walk", nCellsCov)
	sort.Float64s(st.settle)
	if n := len(st.settle); n > 0 {
		rec.SetExtra("settle_ms_median", st.settle[n/2])
		rec.SetExtra("settle_ms_p99", st.settle[n*99/100])
		rec.SetExtra("settle_ms_max", st.settle[n-1])
	}
	ign := []string{}
	for k := range st.ignoreLeak {
		ign = append(ign, k)
	}
	sort.Strings(ign)
	rec.SetExtra("unconditional_leaks_reported_once", ign)
	st.mu.Unlock()
}

// baseline runs scenarios without a fault. Calls must return results, the oracle
// must hold; goroutines left behind here are reported under a no-fault key and
// ignored afterwards.
func (st *runState) baseline(only string, fail failer) {
	for si, s := range scenarios() {
		if only != "" && s.Name != only {
			continue
		}
		if only == "" && st.shards > 1 && si%st.shards != st.shard {
			continue
		}
		if st.tooMany() {
			return
		}
		cs := caseSpec{Scn: s.Name, Fault: "none", LingerUs: 20000}
		st.mu.Lock()
		ign := map[string]bool{}
		for k := range st.ignoreLeak {
			ign[k] = true
		}
		st.mu.Unlock()
		o := runCaseIgnoring(s, cs, fullBound, ign, func(k string) bool {
			// leaks of the baseline are listed per leaked function and mode
			if i := strings.Index(k, "goroutine-leak@"); i >= 0 {
				if st.rec.IsKnown(k) {
					return true
				}
				for _, f := range strings.Split(k[i+len("goroutine-leak@"):], "+") {
					if !st.isKnownOrReported(noFaultLeakKey(s, f)) {
						return false
					}
				}
				return true
			}
			return st.isKnownOrReported(k)
		})
		st.rec.Eval()
		st.rec.Class("fault:none")
		if o.Desync {
			st.rec.Class("baseline-desync")
			fmt.Printf("HARNESS-NOTE baseline %s: the legitimate script lost synchronisation: %v\n", s.Name, o.Trace)
		}
		for i, c := range o.Calls {
			if i < len(s.Calls) && s.Calls[i].ErrOK {
				continue
			}
			if c.Err != "" && !strings.Contains(c.Err, "stop server process") {
				st.rec.Class("baseline-call-error")
				fmt.Printf("HARNESS-NOTE baseline %s: call %s returned %s\n", s.Name, c.Name, c.Err)
			}
		}
		if o.Key == "" {
			continue
		}
		if strings.HasPrefix(o.Symptom, "goroutine-leak") {
			// one finding per leaked function and mode
			for _, f := range o.leakFuncs {
				if k := fmt.Sprintf("%s:goroutine-leak@%s", s.Proto, f); st.rec.IsKnown(k) {
					// a listed schedule-dependent leak that also shows up without a fault (e.g.
					// the restart after MsgDone losing the race against the disconnect on a
					// loaded machine): reported under its own key, not as unconditional
					fail(k, o.What, map[string]any{"spec": cs, "outcome": o})
					continue
				}
				key := noFaultLeakKey(s, f)
				st.noteReported(key)
				fail(key, fmt.Sprintf("a goroutine parked in %s is left behind by every %s connection, also after a fault-free conversation and Close() (first seen in scenario %s)", f, s.Mode, s.Name),
					map[string]any{"spec": cs, "outcome": o})
				st.mu.Lock()
				st.ignoreLeak[f] = true
				st.mu.Unlock()
			}
			continue
		}
		st.noteReported(o.Key)
		fail(o.Key, o.What, map[string]any{"spec": cs, "outcome": o})
	}
}

func noFaultLeakKey(s *scenario, f string) string {
	return fmt.Sprintf("%s:no-fault:goroutine-leak@%s", s.Mode, f)
}
