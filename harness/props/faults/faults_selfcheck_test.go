package faults

import (
	"fmt"
	"os"
	"strings"
	"testing"
	"time"

	"github.com/blinklabs-io/gouroboros/protocol"
)

// TestFaultsLegitScripts is the self-check of the machinery: without a fault
// every scenario's script runs to its end, every call returns a result (the
// tx-submission scenarios that end with MsgDone return the documented stop
// error) and the table has the expected shape.
func TestFaultsLegitScripts(t *testing.T) {
	if testing.Short() {
		t.Skip()
	}
	ignore := map[string]bool{"/protocol/localmessagenotification.(*Server).startExpirationCleaner.func1": true}
	for _, s := range scenarios() {
		o := runCaseIgnoring(s, caseSpec{Scn: s.Name, Fault: "none", LingerUs: 20000}, 10*time.Second, ignore, nil)
		if o.Desync {
			t.Errorf("%s: script lost synchronisation: %v", s.Name, o.Trace)
		}
		if o.Key != "" {
			t.Errorf("%s: %s %s", s.Name, o.Key, o.What)
		}
		for i, c := range o.Calls {
			expectErr := i < len(s.Calls) && s.Calls[i].ErrOK
			if !c.Returned || (c.Err != "") != expectErr && !strings.Contains(c.Err, "stop server process") {
				t.Errorf("%s: call %+v (error expected: %v)", s.Name, c, expectErr)
			}
		}
		checkLabels(t, s, o)
	}
	tab := table()
	cells := 0
	for _, r := range tab {
		for _, p := range r.pos {
			if n := variantCount(r.scn, r.fault, p); n < 1 {
				t.Errorf("%s/%s pos %d: no variant", r.scn.Name, r.fault, p)
			} else {
				cells += n
			}
		}
	}
	fmt.Printf("label self-check: %d alternatives of %d scenarios verified against the exported state maps\n", labelsChecked, labelScenarios)
	if labelsChecked < 300 || labelScenarios < 50 {
		t.Errorf("label self-check covered too little: %d alternatives, %d scenarios", labelsChecked, labelScenarios)
	}
	if len(tab) < 400 || cells < 3000 {
		t.Errorf("table unexpectedly small: %d rows, %d cells", len(tab), cells)
	}
}

// TestC15Repro prints the minimal reproductions documented in findings/C15.md
// (VERIF_REPRO=1; full bound; fails on a tree that has the defects).
func TestC15Repro(t *testing.T) {
	if os.Getenv("VERIF_REPRO") == "" {
		t.Skip("set VERIF_REPRO=1")
	}
	bound := 10 * time.Second
	cases := []struct {
		name string
		cs   caseSpec
	}{
		{"txmon-hastx-answered-with-replynexttx", caseSpec{Scn: "txmon/HasTx", Fault: "not-admitted", Pos: 1, Variant: 0, LingerUs: 20000}},
		{"txmon-surplus-replyhastx-then-getsizes", caseSpec{Scn: "txmon/GetSizes", Fault: "surplus", Pos: 0, Variant: 2, Cut: 1, LingerUs: 20000}},
		{"peersharing-getpeers-peer-closes", caseSpec{Scn: "peersharing/GetPeers", Fault: "close", Pos: 0}},
		{"peersharing-getpeers-local-close", caseSpec{Scn: "peersharing/GetPeers", Fault: "silence-close", Pos: 0, LingerUs: 20000, EndLocal: true}},
		{"blockfetch-getblock-empty-batch", caseSpec{Scn: "blockfetch/GetBlock", Fault: "other-admitted", Pos: 1, Variant: 0, LingerUs: 20000}},
		{"blockfetch-getblock-two-blocks", caseSpec{Scn: "blockfetch/GetBlock", Fault: "surplus", Pos: 1, Variant: 0, Cut: 1, LingerUs: 20000}},
		{"dmq-client-no-fault", caseSpec{Scn: "dmq-submit/SubmitMessage", Fault: "none", LingerUs: 2000}},
		{"txsubmission-done-then-close", caseSpec{Scn: "txsubmission-server/RequestTxIds-blocking-Done-callback3ms", Fault: "close", Pos: 2}},
	}
	only := os.Getenv("VERIF_REPRO_ONLY")
	for _, c := range cases {
		if only != "" && only != c.name {
			continue
		}
		s := scenarioByName(c.cs.Scn)
		o := runCase(s, c.cs, bound)
		fmt.Printf("=== %s\nspec: %s\nkey: %s\nwhat: %s\ncalls: %+v\nconnection errors: %v\n", c.name, c.cs, o.Key, o.What, o.Calls, o.ConnErrors)
		for _, l := range o.Trace {
			fmt.Println("  ", l)
		}
		fmt.Println(o.Dump)
		if o.Key != "" {
			t.Errorf("%s: %s", c.name, o.Key)
		}
	}
}

// checkLabels replays the messages of a fault-free run through the library's
// exported state map and verifies the table's labels: at every send event the
// legitimate kind and every "other admitted" alternative have a transition in
// the current state, every "not admitted" alternative has none. (The labels
// only name the fault classes; the oracle does not depend on them.)
var labelsChecked, labelScenarios int

func checkLabels(t *testing.T, s *scenario, o outcome) {
	if s.SM == nil {
		return
	}
	labelScenarios++
	var state protocol.State
	found := false
	for st := range s.SM.Map {
		if st.Name == s.SM.Initial {
			state, found = st, true
		}
	}
	if !found {
		t.Errorf("%s: no state %q in the state map", s.Name, s.SM.Initial)
		return
	}
	next := func(st protocol.State, data []byte) (protocol.State, string) {
		tag := msgTag(data)
		if tag < 0 {
			return st, "malformed"
		}
		m, err := s.SM.Decode(uint(tag), data)
		if err != nil || m == nil {
			return st, "undecodable"
		}
		for _, tr := range s.SM.Map[st].Transitions {
			if tr.MsgType == m.Type() && (tr.MatchFunc == nil || tr.MatchFunc(nil, m)) {
				return tr.NewState, "admitted"
			}
		}
		return st, "not-admitted"
	}
	for _, w := range o.wireLog {
		if !w.FromLib {
			e := s.Script[w.EvIdx]
			for _, alt := range e.Others {
				labelsChecked++
				_, v := next(state, alt.Data)
				if v != "admitted" && !(v == "undecodable" && strings.Contains(alt.Kind, "undecodable")) {
					t.Errorf("%s: at %s in state %s the alternative %s is labelled admitted but is %s", s.Name, e.Send.Kind, state, alt.Kind, v)
				}
			}
			r := &runner{scn: s}
			for _, alt := range r.badList(e) {
				labelsChecked++
				if _, v := next(state, alt.Data); v == "admitted" {
					t.Errorf("%s: at %s in state %s the alternative %s is labelled not-admitted but the state map admits it", s.Name, e.Send.Kind, state, alt.Kind)
				}
			}
		}
		ns, v := next(state, w.Data)
		if v != "admitted" {
			t.Errorf("%s: legitimate message %x (from library: %v) is %s in state %s", s.Name, clipb(w.Data), w.FromLib, v, state)
			return
		}
		state = ns
	}
}

// TestFloodProbe runs every flood cell once (development aid; VERIF_REPRO=1).
func TestFloodProbe(t *testing.T) {
	if os.Getenv("VERIF_REPRO") == "" {
		t.Skip("set VERIF_REPRO=1")
	}
	for _, r := range table() {
		if r.fault != fFlood {
			continue
		}
		for _, p := range r.pos {
			for _, local := range []bool{false, true} {
				cs := caseSpec{Scn: r.scn.Name, Fault: r.fault.String(), Pos: p, EndLocal: local, LingerUs: 2000}
				t0 := time.Now()
				o := runCase(r.scn, cs, 10*time.Second)
				fmt.Printf("%-40s pos=%d local=%v %6dms key=%q calls=%+v errs=%v\n", r.scn.Name, p, local, time.Since(t0).Milliseconds(), o.Key, o.Calls, o.ConnErrors)
				if o.Key != "" || testing.Verbose() && os.Getenv("VERIF_TRACE") != "" {
					for _, l := range o.Trace {
						fmt.Println("    ", l)
					}
					fmt.Println(o.Dump)
				}
				if o.Key != "" {
					t.Errorf("%s pos %d: %s", r.scn.Name, p, o.Key)
				}
			}
		}
	}
}
