package faults

import (
	"context"
	"fmt"
	"net"
	"sync"
	"time"

	ouroboros "github.com/blinklabs-io/gouroboros"
	gcbor "github.com/blinklabs-io/gouroboros/cbor"
	"github.com/blinklabs-io/gouroboros/ledger"
	"github.com/blinklabs-io/gouroboros/protocol"
	"github.com/blinklabs-io/gouroboros/protocol/blockfetch"
	"github.com/blinklabs-io/gouroboros/protocol/chainsync"
	pcommon "github.com/blinklabs-io/gouroboros/protocol/common"
	"github.com/blinklabs-io/gouroboros/protocol/keepalive"
	"github.com/blinklabs-io/gouroboros/protocol/leiosfetch"
	"github.com/blinklabs-io/gouroboros/protocol/leiosnotify"
	"github.com/blinklabs-io/gouroboros/protocol/leiosvotes"
	"github.com/blinklabs-io/gouroboros/protocol/localmessagenotification"
	"github.com/blinklabs-io/gouroboros/protocol/localmessagesubmission"
	"github.com/blinklabs-io/gouroboros/protocol/localstatequery"
	"github.com/blinklabs-io/gouroboros/protocol/localtxmonitor"
	"github.com/blinklabs-io/gouroboros/protocol/localtxsubmission"
	"github.com/blinklabs-io/gouroboros/protocol/peersharing"
	"github.com/blinklabs-io/gouroboros/protocol/txsubmission"

	"verif/harness/internal/fixtures"
	"verif/harness/internal/xcbor"
)

// The legitimate messages are built with the library's own constructors and
// encoder (they are inputs, not the oracle); the malformed ones with xcbor.

func enc(kind string, m protocol.Message) wire {
	b, err := gcbor.Encode(m)
	if err != nil {
		panic(fmt.Sprintf("encode %s: %v", kind, err))
	}
	return wire{kind, b}
}

func raw(kind string, n *xcbor.Node) wire { return wire{kind, n.Encode()} }

func call(name string, f func(c *ouroboros.Connection) (string, error)) apiCall {
	return apiCall{Name: name, Do: f}
}

func okStr(err error) (string, error) {
	if err != nil {
		return "", err
	}
	return "ok", nil
}

// ---- blocks --------------------------------------------------------------------------

type blk struct {
	fixtures.Block
	Slot   uint64
	Hash   []byte
	Header []byte
}

var (
	blkOnce sync.Once
	blks    []blk
)

func testBlocks() []blk {
	blkOnce.Do(func() {
		for _, name := range []string{"conway", "babbage", "shelley"} {
			f := fixtures.ByName(name)
			b, err := ledger.NewBlockFromCbor(f.Type, f.Bytes)
			if err != nil {
				panic(err)
			}
			n, err := xcbor.ParseExact(f.Bytes)
			if err != nil {
				panic(err)
			}
			blks = append(blks, blk{Block: f, Slot: b.SlotNumber(), Hash: b.Hash().Bytes(), Header: n.Items[0].Src(f.Bytes)})
		}
	})
	return blks
}

func (b blk) point() pcommon.Point { return pcommon.NewPoint(b.Slot, b.Hash) }
func (b blk) tip() pcommon.Tip     { return pcommon.Tip{Point: b.point(), BlockNumber: 1000} }

func tipAhead(b blk) pcommon.Tip {
	h := append([]byte(nil), b.Hash...)
	h[0] ^= 0x55
	return pcommon.Tip{Point: pcommon.NewPoint(b.Slot+1000, h), BlockNumber: 2000}
}

func rollForward(ntn bool, b blk, tip pcommon.Tip) wire {
	if ntn {
		m, err := chainsync.NewMsgRollForwardNtN(b.Type-1, 0, b.Bytes, tip)
		if err != nil {
			panic(err)
		}
		return enc("RollForward", m)
	}
	m, err := chainsync.NewMsgRollForwardNtC(b.Type, b.Bytes, tip)
	if err != nil {
		panic(err)
	}
	return enc("RollForward", m)
}

func fetchedBlock(b blk) wire {
	inner := append([]byte{0x82}, xcbor.U(uint64(b.Type)).Encode()...)
	inner = append(inner, b.Bytes...)
	return raw("Block", xcbor.A(xcbor.U(4), xcbor.Tg(24, xcbor.B(inner))))
}

// ---- scenarios -----------------------------------------------------------------------

var (
	scnOnce sync.Once
	scns    []*scenario
)

func scenarios() []*scenario {
	scnOnce.Do(func() {
		var all []*scenario
		all = append(all, txMonitorScenarios()...)
		all = append(all, lsqScenarios()...)
		all = append(all, txSubmissionScenarios()...)
		all = append(all, chainSyncScenarios()...)
		all = append(all, blockFetchScenarios()...)
		all = append(all, peerSharingScenarios()...)
		all = append(all, keepAliveScenarios()...)
		all = append(all, txSubmissionServerScenarios()...)
		all = append(all, leiosScenarios()...)
		all = append(all, dmqScenarios()...)
		all = append(all, duplexScenarios()...)
		for _, s := range all {
			s.finish()
		}
		scns = all
	})
	return scns
}

func scenarioByName(n string) *scenario {
	for _, s := range scenarios() {
		if s.Name == n {
			return s
		}
	}
	return nil
}

// shortTimeout is the protocol timeout of the "-timeouts" scenarios (silence-timeout fault).
const shortTimeout = 250 * time.Millisecond

func withTimeouts(s *scenario, opts func() []ouroboros.ConnectionOptionFunc) *scenario {
	s.Timeouts = true
	s.Opts = opts
	s.Flood = nil
	return s
}

// ---- full duplex: client and server halves on one connection ----------------------------------

func duplexScenarios() []*scenario {
	bs := testBlocks()
	b0, b1 := bs[1], bs[0]
	tipA := tipAhead(b1)
	foundOrigin := enc("IntersectFound", chainsync.NewMsgIntersectFound(pcommon.NewPointOrigin(), tipA))
	notFound := enc("IntersectNotFound", chainsync.NewMsgIntersectNotFound(tipA))
	tx := fixtures.DijkstraTx()
	var txid txsubmission.TxId
	txid.EraId = 7
	copy(txid.TxId[:], []byte("0123456789abcdef0123456789abcdef"))
	init := enc("Init", txsubmission.NewMsgInit())
	ids := enc("ReplyTxIds", txsubmission.NewMsgReplyTxIds([]txsubmission.TxIdAndSize{{TxId: txid, Size: uint32(len(tx))}}))
	txs := enc("ReplyTxs", txsubmission.NewMsgReplyTxs([]txsubmission.TxBody{{EraId: 7, TxBody: tx}}))
	done := enc("Done", txsubmission.NewMsgDone())
	start := enc("StartBatch", blockfetch.NewMsgStartBatch())
	noBlocks := enc("NoBlocks", blockfetch.NewMsgNoBlocks())
	bdone := enc("BatchDone", blockfetch.NewMsgBatchDone())
	blk0 := fetchedBlock(bs[0])
	_ = b0
	opts := func() []ouroboros.ConnectionOptionFunc {
		cs := chainsync.NewConfig(
			chainsync.WithRollForwardFunc(func(chainsync.CallbackContext, uint, any, chainsync.Tip) error { return nil }),
			chainsync.WithRollBackwardFunc(func(chainsync.CallbackContext, pcommon.Point, chainsync.Tip) error { return nil }))
		bf, _ := blockfetch.NewConfig(
			blockfetch.WithBlockFunc(func(blockfetch.CallbackContext, uint, ledger.Block) error { return nil }),
			blockfetch.WithBatchDoneFunc(func(blockfetch.CallbackContext) error { return nil }))
		ts := txsubmission.NewConfig(
			txsubmission.WithInitFunc(func(txsubmission.CallbackContext) error { return nil }),
			txsubmission.WithDoneFunc(func(txsubmission.CallbackContext) error { return nil }),
			txsubmission.WithRequestTxIdsFunc(func(txsubmission.CallbackContext, bool, uint16, uint16) ([]txsubmission.TxIdAndSize, error) {
				return nil, nil
			}))
		return []ouroboros.ConnectionOptionFunc{ouroboros.WithChainSyncConfig(cs), ouroboros.WithBlockFetchConfig(bf), ouroboros.WithTxSubmissionConfig(ts)}
	}
	csTip := call("GetCurrentTip", func(c *ouroboros.Connection) (string, error) {
		t, err := c.ChainSync().Client.GetCurrentTip()
		if err != nil {
			return "", err
		}
		return fmt.Sprint(t.Point.Slot), nil
	})
	csStop := call("Stop", func(c *ouroboros.Connection) (string, error) { return okStr(c.ChainSync().Client.Stop()) })
	csStart := call("Start", func(c *ouroboros.Connection) (string, error) { c.ChainSync().Client.Start(); return "ok", nil })
	srvIds := call("RequestTxIds(blocking)", func(c *ouroboros.Connection) (string, error) {
		v, err := c.TxSubmission().Server.RequestTxIds(true, 4)
		return fmt.Sprint(len(v)), err
	})
	srvTxs := call("RequestTxs", func(c *ouroboros.Connection) (string, error) {
		v, err := c.TxSubmission().Server.RequestTxs([]txsubmission.TxId{txid})
		return fmt.Sprint(len(v)), err
	})
	bfGet := call("GetBlock", func(c *ouroboros.Connection) (string, error) {
		b, err := c.BlockFetch().Client.GetBlock(bs[0].point())
		if err != nil {
			return "", err
		}
		return fmt.Sprint(b.SlotNumber()), nil
	})
	cs := func(e ev) ev { return e.on("chain-sync", chainsync.ProtocolIdNtN, false) }
	ts := func(e ev) ev { return e.on("tx-submission", txsubmission.ProtocolId, true) }
	bf := func(e ev) ev { return e.on("block-fetch", blockfetch.ProtocolId, false) }
	return []*scenario{{
		// one duplex connection: the chain-sync client goes through a Stop/Start cycle and the
		// tx-submission server through a MsgDone/restart cycle while the other half is in use
		Name: "duplex/client-restart+server-done-restart", Proto: "duplex(chain-sync+tx-submission+block-fetch)", ProtoID: chainsync.ProtocolIdNtN, Mode: modeNtNDuplex, Opts: opts,
		Calls: []apiCall{csTip, srvIds.failing(), csStop, csStart, csTip, srvIds, srvTxs, bfGet},
		Script: []ev{
			cs(rq(4, "GetCurrentTip")), cs(rp("GetCurrentTip", foundOrigin, notFound)),
			ts(rp("RequestTxIds(blocking)", init)), ts(rq(0, "RequestTxIds(blocking)")), ts(rp("RequestTxIds(blocking)", done, ids)),
			cs(rqOpt(7, "Stop")),
			cs(rq(4, "GetCurrentTip~2")), cs(rp("GetCurrentTip~2", foundOrigin, notFound)),
			pause(30000, "RequestTxIds(blocking)~2"), ts(rp("RequestTxIds(blocking)~2", init)), ts(rq(0, "RequestTxIds(blocking)~2")), ts(rp("RequestTxIds(blocking)~2", ids, done)),
			ts(rq(2, "RequestTxs")), ts(rp("RequestTxs", txs)),
			bf(rq(0, "GetBlock")), bf(rp("GetBlock", start, noBlocks)), bf(rp("GetBlock", blk0, bdone)), bf(rp("GetBlock", bdone, blk0)),
		},
		BadExtra: []wire{raw("unknown-tag-98", xcbor.A(xcbor.U(98)))},
	}}
}

// ---- local-tx-monitor ------------------------------------------------------------------

func txMonitorScenarios() []*scenario {
	const proto = "local-tx-monitor"
	id := localtxmonitor.ProtocolId
	tx := fixtures.DijkstraTx()
	acquired := enc("Acquired", localtxmonitor.NewMsgAcquired(4242))
	hasTx := enc("ReplyHasTx", localtxmonitor.NewMsgReplyHasTx(true))
	nextTx := enc("ReplyNextTx", localtxmonitor.NewMsgReplyNextTx(7, tx))
	sizes := enc("ReplyGetSizes", localtxmonitor.NewMsgReplyGetSizes(1000, 300, 2))
	badExtra := []wire{
		enc("client-kind-Acquire", localtxmonitor.NewMsgAcquire()),
		enc("client-kind-Done", localtxmonitor.NewMsgDone()),
	}
	cl := func(c *ouroboros.Connection) *localtxmonitor.Client { return c.LocalTxMonitor().Client }
	cAcquire := call("Acquire", func(c *ouroboros.Connection) (string, error) { return okStr(cl(c).Acquire()) })
	cRelease := call("Release", func(c *ouroboros.Connection) (string, error) { return okStr(cl(c).Release()) })
	cStop := call("Stop", func(c *ouroboros.Connection) (string, error) { return okStr(cl(c).Stop()) })
	cHasTx := call("HasTx", func(c *ouroboros.Connection) (string, error) {
		v, err := cl(c).HasTx(make([]byte, 32))
		return fmt.Sprint(v), err
	})
	cNextTx := call("NextTx", func(c *ouroboros.Connection) (string, error) {
		v, err := cl(c).NextTx()
		return fmt.Sprintf("%d bytes", len(v)), err
	})
	cSizes := call("GetSizes", func(c *ouroboros.Connection) (string, error) {
		a, b, n, err := cl(c).GetSizes()
		return fmt.Sprint(a, b, n), err
	})
	// one busy state per request kind: the replies of the other kinds are not admitted
	bad := func(e ev, ws ...wire) ev { e.Bad = ws; return e }
	rHasTx := bad(rp("HasTx", hasTx), nextTx, sizes)
	rNextTx := bad(rp("NextTx", nextTx), hasTx, sizes)
	rSizes := bad(rp("GetSizes", sizes), hasTx, nextTx)
	mk := func(name string, calls []apiCall, script []ev) *scenario {
		return &scenario{Name: "txmon/" + name, Proto: proto, ProtoID: id, Mode: modeNtC, Calls: calls, Script: script, BadExtra: badExtra,
			SM: &smBinding{localtxmonitor.StateMap, localtxmonitor.NewMsgFromCbor, "Idle"}}
	}
	return []*scenario{
		withTimeouts(mk("HasTx-timeouts", []apiCall{cAcquire, cHasTx}, []ev{rq(1, "Acquire"), rp("Acquire", acquired), rq(7, "HasTx"), rHasTx}), func() []ouroboros.ConnectionOptionFunc {
			return []ouroboros.ConnectionOptionFunc{ouroboros.WithLocalTxMonitorConfig(localtxmonitor.NewConfig(
				localtxmonitor.WithAcquireTimeout(shortTimeout), localtxmonitor.WithQueryTimeout(shortTimeout)))}
		}),
		mk("Acquire", []apiCall{cAcquire}, []ev{rq(1, "Acquire"), rp("Acquire", acquired)}),
		mk("HasTx", []apiCall{cAcquire, cHasTx}, []ev{rq(1, "Acquire"), rp("Acquire", acquired), rq(7, "HasTx"), rHasTx}),
		mk("NextTx", []apiCall{cAcquire, cNextTx}, []ev{rq(1, "Acquire"), rp("Acquire", acquired), rq(5, "NextTx"), rNextTx}),
		mk("GetSizes", []apiCall{cAcquire, cSizes}, []ev{rq(1, "Acquire"), rp("Acquire", acquired), rq(9, "GetSizes"), rSizes}),
		mk("HasTx-autoacquire", []apiCall{cHasTx}, []ev{rq(1, "HasTx"), rp("HasTx", acquired), rq(7, "HasTx"), rHasTx}),
		mk("Release", []apiCall{cAcquire, cRelease}, []ev{rq(1, "Acquire"), rp("Acquire", acquired), rq(3, "Release")}),
		mk("Stop", []apiCall{cAcquire, cRelease, cStop}, []ev{rq(1, "Acquire"), rp("Acquire", acquired), rq(3, "Release"), rq(0, "Stop")}),
		mk("session", []apiCall{cAcquire, cHasTx, cNextTx, cSizes, cAcquire, cNextTx, cRelease, cHasTx, cRelease, cStop}, []ev{
			rq(1, "Acquire"), rp("Acquire", acquired),
			rq(7, "HasTx"), rHasTx,
			rq(5, "NextTx"), rNextTx,
			rq(9, "GetSizes"), rSizes,
			rq(1, "Acquire"), rp("Acquire", acquired),
			rq(5, "NextTx"), rNextTx,
			rq(3, "Release"),
			rq(1, "HasTx"), rp("HasTx", acquired), rq(7, "HasTx"), rHasTx,
			rq(3, "Release"), rq(0, "Stop"),
		}),
	}
}

// ---- local-state-query -----------------------------------------------------------------

func lsqScenarios() []*scenario {
	const proto = "local-state-query"
	id := localstatequery.ProtocolId
	b := testBlocks()[0]
	acquired := enc("Acquired", localstatequery.NewMsgAcquired())
	failure := enc("Failure", localstatequery.NewMsgFailure(localstatequery.AcquireFailurePointNotOnChain))
	failureUnknown := enc("Failure-unknown-code", localstatequery.NewMsgFailure(9))
	result := func(kind string, n *xcbor.Node) wire {
		return enc("Result", localstatequery.NewMsgResult(n.Encode()))
	}
	resEra := result("era", xcbor.U(6))
	resStart := result("start", xcbor.A(xcbor.U(2022), xcbor.U(100), xcbor.U(0)))
	resBlockNo := result("blockno", xcbor.A(xcbor.U(1), xcbor.U(123456)))
	resPoint := result("point", xcbor.A(xcbor.U(b.Slot), xcbor.B(b.Hash)))
	resHistory := result("history", xcbor.A())
	resEpoch := result("epoch", xcbor.A(xcbor.U(500)))
	resUndecodable := wire{"Result-undecodable", enc("", localstatequery.NewMsgResult(xcbor.T("not what was asked for").Encode())).Data}
	badExtra := []wire{
		enc("client-kind-Release", localstatequery.NewMsgRelease()),
		enc("client-kind-Done", localstatequery.NewMsgDone()),
	}
	cl := func(c *ouroboros.Connection) *localstatequery.Client { return c.LocalStateQuery().Client }
	pt := b.point()
	cAcquire := call("Acquire", func(c *ouroboros.Connection) (string, error) { return okStr(cl(c).Acquire(&pt)) })
	cAcquireTip := call("AcquireVolatileTip", func(c *ouroboros.Connection) (string, error) { return okStr(cl(c).AcquireVolatileTip()) })
	cAcquireImm := call("AcquireImmutableTip", func(c *ouroboros.Connection) (string, error) { return okStr(cl(c).AcquireImmutableTip()) })
	cRelease := call("Release", func(c *ouroboros.Connection) (string, error) { return okStr(cl(c).Release()) })
	cEra := call("GetCurrentEra", func(c *ouroboros.Connection) (string, error) {
		v, err := cl(c).GetCurrentEra()
		return fmt.Sprint(v), err
	})
	cStart := call("GetSystemStart", func(c *ouroboros.Connection) (string, error) {
		v, err := cl(c).GetSystemStart()
		return fmt.Sprint(v != nil), err
	})
	cBlockNo := call("GetChainBlockNo", func(c *ouroboros.Connection) (string, error) {
		v, err := cl(c).GetChainBlockNo()
		return fmt.Sprint(v), err
	})
	cPoint := call("GetChainPoint", func(c *ouroboros.Connection) (string, error) {
		v, err := cl(c).GetChainPoint()
		return fmt.Sprint(v != nil), err
	})
	cHistory := call("GetEraHistory", func(c *ouroboros.Connection) (string, error) {
		v, err := cl(c).GetEraHistory()
		return fmt.Sprint(len(v)), err
	})
	cEpoch := call("GetEpochNo", func(c *ouroboros.Connection) (string, error) {
		v, err := cl(c).GetEpochNo()
		return fmt.Sprint(v), err
	})
	rAcq := func(callName string) ev { return rp(callName, acquired, failure, failureUnknown) }
	rRes := func(callName string, w wire) ev {
		e := rp(callName, w, resUndecodable)
		return e
	}
	mk := func(name string, calls []apiCall, script []ev) *scenario {
		return &scenario{Name: "lsq/" + name, Proto: proto, ProtoID: id, Mode: modeNtC, Calls: calls, Script: script, BadExtra: badExtra,
			SM: &smBinding{localstatequery.StateMap, localstatequery.NewMsgFromCbor, "Idle"}}
	}
	q := func(name string, c apiCall, res wire) *scenario {
		return mk(name, []apiCall{cAcquireTip, c}, []ev{rq(8, "AcquireVolatileTip"), rAcq("AcquireVolatileTip"), rq(3, name), rRes(name, res)})
	}
	return []*scenario{
		// failed operations as history: a refused acquire, then a good one and a query
		mk("Acquire-refused-then-query", []apiCall{cAcquire.failing(), cAcquireTip, cStart}, []ev{
			rq(0, "Acquire"), rp("Acquire", failure, acquired, failureUnknown),
			rq(8, "AcquireVolatileTip"), rAcq("AcquireVolatileTip"),
			rq(3, "GetSystemStart"), rRes("GetSystemStart", resStart)}),
		withTimeouts(mk("GetSystemStart-timeouts", []apiCall{cAcquireTip, cStart}, []ev{rq(8, "AcquireVolatileTip"), rAcq("AcquireVolatileTip"), rq(3, "GetSystemStart"), rRes("GetSystemStart", resStart)}),
			func() []ouroboros.ConnectionOptionFunc {
				return []ouroboros.ConnectionOptionFunc{ouroboros.WithLocalStateQueryConfig(localstatequery.NewConfig(
					localstatequery.WithAcquireTimeout(shortTimeout), localstatequery.WithQueryTimeout(shortTimeout)))}
			}),
		mk("Acquire", []apiCall{cAcquire}, []ev{rq(0, "Acquire"), rAcq("Acquire")}),
		mk("AcquireImmutableTip", []apiCall{cAcquireImm}, []ev{rq(10, "AcquireImmutableTip"), rAcq("AcquireImmutableTip")}),
		mk("Release", []apiCall{cAcquireTip, cRelease}, []ev{rq(8, "AcquireVolatileTip"), rAcq("AcquireVolatileTip"), rq(5, "Release")}),
		q("GetCurrentEra", cEra, resEra),
		q("GetSystemStart", cStart, resStart),
		q("GetChainBlockNo", cBlockNo, resBlockNo),
		q("GetChainPoint", cPoint, resPoint),
		q("GetEraHistory", cHistory, resHistory),
		mk("GetEpochNo", []apiCall{cAcquireTip, cEpoch}, []ev{rq(8, "AcquireVolatileTip"), rAcq("AcquireVolatileTip"),
			rq(3, "GetEpochNo"), rRes("GetEpochNo", resEra), rq(3, "GetEpochNo"), rRes("GetEpochNo", resEpoch)}),
		mk("GetSystemStart-autoacquire", []apiCall{cStart}, []ev{rq(8, "GetSystemStart"), rAcq("GetSystemStart"), rq(3, "GetSystemStart"), rRes("GetSystemStart", resStart)}),
		mk("session", []apiCall{cAcquire, cEra, cStart, cAcquireTip, cBlockNo, cRelease, cPoint, cRelease}, []ev{
			rq(0, "Acquire"), rAcq("Acquire"),
			rq(3, "GetCurrentEra"), rRes("GetCurrentEra", resEra),
			rq(3, "GetSystemStart"), rRes("GetSystemStart", resStart),
			rq(9, "AcquireVolatileTip"), rAcq("AcquireVolatileTip"),
			rq(3, "GetChainBlockNo"), rRes("GetChainBlockNo", resBlockNo),
			rq(5, "Release"),
			rq(8, "GetChainPoint"), rAcq("GetChainPoint"), rq(3, "GetChainPoint"), rRes("GetChainPoint", resPoint),
			rq(5, "Release"),
		}),
	}
}

// ---- local-tx-submission ---------------------------------------------------------------

func txSubmissionScenarios() []*scenario {
	const proto = "local-tx-submission"
	id := localtxsubmission.ProtocolId
	tx := fixtures.DijkstraTx()
	accept := enc("AcceptTx", localtxsubmission.NewMsgAcceptTx())
	reject := enc("RejectTx", localtxsubmission.NewMsgRejectTx(xcbor.A(xcbor.A(xcbor.U(6), xcbor.A())).Encode()))
	rejectOdd := enc("RejectTx-undecodable-reason", localtxsubmission.NewMsgRejectTx(xcbor.T("because").Encode()))
	badExtra := []wire{enc("client-kind-Done", localtxsubmission.NewMsgDone())}
	cl := func(c *ouroboros.Connection) *localtxsubmission.Client { return c.LocalTxSubmission().Client }
	cSubmit := call("SubmitTx", func(c *ouroboros.Connection) (string, error) { return okStr(cl(c).SubmitTx(7, tx)) })
	cStop := call("Stop", func(c *ouroboros.Connection) (string, error) { return okStr(cl(c).Stop()) })
	r := rp("SubmitTx", accept, reject, rejectOdd)
	r2 := rp("SubmitTx~2", accept, reject, rejectOdd)
	mk := func(name string, calls []apiCall, script []ev) *scenario {
		return &scenario{Name: "txsubmit/" + name, Proto: proto, ProtoID: id, Mode: modeNtC, Calls: calls, Script: script, BadExtra: badExtra,
			SM: &smBinding{localtxsubmission.StateMap, localtxsubmission.NewMsgFromCbor, "Idle"}}
	}
	return []*scenario{
		mk("Rejected-then-SubmitTx", []apiCall{cSubmit.failing(), cSubmit}, []ev{rq(0, "SubmitTx"), rp("SubmitTx", reject, accept, rejectOdd), rq(0, "SubmitTx~2"), r2}),
		withTimeouts(mk("SubmitTx-timeouts", []apiCall{cSubmit}, []ev{rq(0, "SubmitTx"), r}), func() []ouroboros.ConnectionOptionFunc {
			return []ouroboros.ConnectionOptionFunc{ouroboros.WithLocalTxSubmissionConfig(localtxsubmission.NewConfig(localtxsubmission.WithTimeout(shortTimeout)))}
		}),
		mk("SubmitTx", []apiCall{cSubmit}, []ev{rq(0, "SubmitTx"), r}),
		mk("SubmitTx-twice-Stop", []apiCall{cSubmit, cSubmit, cStop}, []ev{rq(0, "SubmitTx"), r, rq(0, "SubmitTx~2"), r2, rq(3, "Stop")}),
	}
}

// ---- chain-sync ----------------------------------------------------------------------

func chainSyncOpts(limit int) func() []ouroboros.ConnectionOptionFunc {
	return func() []ouroboros.ConnectionOptionFunc {
		cfg := chainsync.NewConfig(
			chainsync.WithRollForwardFunc(func(chainsync.CallbackContext, uint, any, chainsync.Tip) error { slowCallback(); return nil }),
			chainsync.WithRollBackwardFunc(func(chainsync.CallbackContext, pcommon.Point, chainsync.Tip) error { slowCallback(); return nil }),
			chainsync.WithPipelineLimit(limit),
		)
		return []ouroboros.ConnectionOptionFunc{ouroboros.WithChainSyncConfig(cfg)}
	}
}

func chainSyncScenarios() []*scenario {
	const proto = "chain-sync"
	bs := testBlocks()
	b0, b1 := bs[1], bs[0] // babbage (older) then conway
	var out []*scenario
	for _, ntn := range []bool{false, true} {
		ntn := ntn
		id := chainsync.ProtocolIdNtC
		mode := modeNtC
		pfx := "chainsync-ntc/"
		if ntn {
			id, mode, pfx = chainsync.ProtocolIdNtN, modeNtN, "chainsync-ntn/"
		}
		tipA := tipAhead(b1)
		found := enc("IntersectFound", chainsync.NewMsgIntersectFound(b0.point(), tipA))
		foundOrigin := enc("IntersectFound", chainsync.NewMsgIntersectFound(pcommon.NewPointOrigin(), tipA))
		notFound := enc("IntersectNotFound", chainsync.NewMsgIntersectNotFound(tipA))
		await := enc("AwaitReply", chainsync.NewMsgAwaitReply())
		back := enc("RollBackward", chainsync.NewMsgRollBackward(b0.point(), tipA))
		fwd := rollForward(ntn, b1, tipA)
		fwd0 := rollForward(ntn, b0, tipA)
		badBlockMsg := func() wire {
			// a RollForward whose block/header bytes do not decode
			if ntn {
				return raw("RollForward-undecodable-header", xcbor.A(xcbor.U(2), xcbor.A(xcbor.U(6), xcbor.Tg(24, xcbor.B([]byte{0x82, 0x01}))), xcbor.A(xcbor.A(xcbor.U(5), xcbor.B(b0.Hash)), xcbor.U(9))))
			}
			return raw("RollForward-undecodable-block", xcbor.A(xcbor.U(2), xcbor.Tg(24, xcbor.B([]byte{0x82, 0x07, 0x80})), xcbor.A(xcbor.A(xcbor.U(5), xcbor.B(b0.Hash)), xcbor.U(9))))
		}()
		badExtra := []wire{
			enc("client-kind-RequestNext", chainsync.NewMsgRequestNext()),
			enc("client-kind-Done", chainsync.NewMsgDone()),
		}
		cl := func(c *ouroboros.Connection) *chainsync.Client { return c.ChainSync().Client }
		cTip := call("GetCurrentTip", func(c *ouroboros.Connection) (string, error) {
			t, err := cl(c).GetCurrentTip()
			if err != nil {
				return "", err
			}
			return fmt.Sprint(t.Point.Slot), nil
		})
		cRange := call("GetAvailableBlockRange", func(c *ouroboros.Connection) (string, error) {
			s, e, err := cl(c).GetAvailableBlockRange([]pcommon.Point{b0.point()})
			return fmt.Sprint(s.Slot, e.Slot), err
		})
		cSync := call("Sync", func(c *ouroboros.Connection) (string, error) {
			return okStr(cl(c).Sync([]pcommon.Point{b0.point()}))
		})
		cStop := call("Stop", func(c *ouroboros.Connection) (string, error) { return okStr(cl(c).Stop()) })
		rInt := func(callName string, legit wire) ev {
			if legit.Kind == "IntersectFound" {
				return rp(callName, legit, notFound)
			}
			return rp(callName, legit, found)
		}
		// replies in the CanAwait state (after RequestNext): AwaitReply, RollForward, RollBackward
		rNext := func(callName string, legit wire) ev {
			var others []wire
			for _, w := range []wire{await, fwd, back, badBlockMsg} {
				if w.Kind != legit.Kind {
					others = append(others, w)
				}
			}
			return rp(callName, legit, others...)
		}
		// replies in the MustReply state (after AwaitReply): RollForward, RollBackward
		rMust := func(callName string, legit wire) ev {
			var others []wire
			for _, w := range []wire{fwd, back, badBlockMsg} {
				if w.Kind != legit.Kind {
					others = append(others, w)
				}
			}
			e := rp(callName, legit, others...)
			e.Bad = []wire{await}
			return e
		}
		mk := func(name string, limit int, calls []apiCall, script []ev) *scenario {
			sm := &smBinding{chainsync.StateMapNtC, chainsync.NewMsgFromCborNtC, "Idle"}
			if ntn {
				sm = &smBinding{chainsync.StateMapNtN, chainsync.NewMsgFromCborNtN, "Idle"}
			}
			flood := rollForward(ntn, b0, tipA) // babbage: the largest small fixture
			// a RollForward with an opaque 150 KB header / block (decodes as a message; four
			// of them exceed 462000 bytes without reaching the receive queue's message count)
			floodOpaque := raw("RollForward(opaque-150KB)", xcbor.A(xcbor.U(2), xcbor.Tg(24, xcbor.B(append([]byte{0x82, 0x07}, xcbor.B(make([]byte, 150000)).Encode()...))),
				xcbor.A(xcbor.A(xcbor.U(b1.Slot+1000), xcbor.B(b1.Hash)), xcbor.U(2000))))
			if ntn {
				floodOpaque = raw("RollForward(opaque-150KB)", xcbor.A(xcbor.U(2), xcbor.A(xcbor.U(6), xcbor.Tg(24, xcbor.B(make([]byte, 150000)))),
					xcbor.A(xcbor.A(xcbor.U(b1.Slot+1000), xcbor.B(b1.Hash)), xcbor.U(2000))))
			}
			return &scenario{Name: pfx + name, Proto: proto, ProtoID: id, Mode: mode, Calls: calls, Script: script, BadExtra: badExtra, Opts: chainSyncOpts(limit), SM: sm, Flood: []floodMsg{{wire: flood}, {wire: floodOpaque, IdleOnly: true}}, StopCall: &cStop}
		}
		cStart := call("Start", func(c *ouroboros.Connection) (string, error) { cl(c).Start(); return "ok", nil })
		// the same client object through Stop/Start cycles (each Start is a new protocol
		// instance on the same muxer): no state-map binding, the conversation restarts
		restart := mk("restart-cycles", 0, []apiCall{cTip, cStop, cStart, cTip, cStop, cStart, cRange}, []ev{
			rq(4, "GetCurrentTip"), rInt("GetCurrentTip", foundOrigin), rqOpt(7, "Stop"),
			rq(4, "GetCurrentTip~2"), rInt("GetCurrentTip~2", foundOrigin), rqOpt(7, "Stop~2"),
			rq(4, "GetAvailableBlockRange"), rInt("GetAvailableBlockRange", found),
			rq(0, "GetAvailableBlockRange"), rNext("GetAvailableBlockRange", back),
			rq(0, "GetAvailableBlockRange"), rNext("GetAvailableBlockRange", fwd)})
		restart.SM = nil
		out = append(out, restart,
			// a failed operation, then the next one
			mk("Range-notfound-then-Tip", 0, []apiCall{cRange.failing(), cTip}, []ev{
				rq(4, "GetAvailableBlockRange"), rInt("GetAvailableBlockRange", notFound),
				rq(4, "GetCurrentTip"), rInt("GetCurrentTip", foundOrigin)}))
		if ntn {
			out = append(out, withTimeouts(mk("Sync-timeouts", 1, []apiCall{cSync}, []ev{
				rq(4, "Sync"), rInt("Sync", found),
				rq(0, "Sync"), rNext("Sync", back),
				rq(0, "Sync"), rNext("Sync", fwd0)}), func() []ouroboros.ConnectionOptionFunc {
				cfg := chainsync.NewConfig(
					chainsync.WithRollForwardFunc(func(chainsync.CallbackContext, uint, any, chainsync.Tip) error { return nil }),
					chainsync.WithRollBackwardFunc(func(chainsync.CallbackContext, pcommon.Point, chainsync.Tip) error { return nil }),
					chainsync.WithPipelineLimit(1), chainsync.WithIntersectTimeout(shortTimeout), chainsync.WithBlockTimeout(shortTimeout))
				return []ouroboros.ConnectionOptionFunc{ouroboros.WithChainSyncConfig(cfg)}
			}))
		}
		out = append(out,
			mk("GetCurrentTip", 0, []apiCall{cTip}, []ev{rq(4, "GetCurrentTip"), rInt("GetCurrentTip", foundOrigin)}),
			mk("GetCurrentTip-notfound", 0, []apiCall{cTip}, []ev{rq(4, "GetCurrentTip"), rInt("GetCurrentTip", notFound)}),
			mk("GetAvailableBlockRange", 0, []apiCall{cRange}, []ev{
				rq(4, "GetAvailableBlockRange"), rInt("GetAvailableBlockRange", found),
				rq(0, "GetAvailableBlockRange"), rNext("GetAvailableBlockRange", back),
				rq(0, "GetAvailableBlockRange"), rNext("GetAvailableBlockRange", fwd)}),
			mk("GetAvailableBlockRange-await", 0, []apiCall{cRange}, []ev{
				rq(4, "GetAvailableBlockRange"), rInt("GetAvailableBlockRange", found),
				rq(0, "GetAvailableBlockRange"), rNext("GetAvailableBlockRange", await), rMust("GetAvailableBlockRange", back),
				rq(0, "GetAvailableBlockRange"), rNext("GetAvailableBlockRange", fwd)}),
			mk("Sync", 1, []apiCall{cSync}, []ev{
				rq(4, "Sync"), rInt("Sync", found),
				rq(0, "Sync"), rNext("Sync", back),
				rq(0, "Sync"), rNext("Sync", fwd0),
				rq(0, "Sync"), rNext("Sync", await), rMust("Sync", fwd)}),
			mk("Sync-pipelined", 3, []apiCall{cSync}, []ev{
				rq(4, "Sync"), rInt("Sync", found),
				rq(0, "Sync"), rNext("Sync", back),
				rq(0, "Sync"), rNext("Sync", fwd0),
				rq(0, "Sync"), rNext("Sync", fwd),
				rq(0, "Sync"), rNext("Sync", await), rMust("Sync", fwd)}),
			mk("Sync-Stop", 1, []apiCall{cSync, cStop}, []ev{
				rq(4, "Sync"), rInt("Sync", found),
				rq(0, "Sync"), rNext("Sync", back),
				rqAny("Stop")}),
			mk("Tip-Range-Sync-Stop", 2, []apiCall{cTip, cRange, cSync, cStop}, []ev{
				rq(4, "GetCurrentTip"), rInt("GetCurrentTip", foundOrigin),
				rq(4, "GetAvailableBlockRange"), rInt("GetAvailableBlockRange", found),
				rq(0, "GetAvailableBlockRange"), rNext("GetAvailableBlockRange", back),
				rq(0, "GetAvailableBlockRange"), rNext("GetAvailableBlockRange", fwd),
				rq(4, "Sync"), rInt("Sync", found),
				rq(0, "Sync"), rNext("Sync", back)}),
		)
	}
	return out
}

// ---- block-fetch -----------------------------------------------------------------------

func blockFetchScenarios() []*scenario {
	const proto = "block-fetch"
	id := blockfetch.ProtocolId
	bs := testBlocks()
	b0, b1 := bs[0], bs[1]
	start := enc("StartBatch", blockfetch.NewMsgStartBatch())
	noBlocks := enc("NoBlocks", blockfetch.NewMsgNoBlocks())
	done := enc("BatchDone", blockfetch.NewMsgBatchDone())
	blk0 := fetchedBlock(b0)
	blk1 := fetchedBlock(b1)
	ebbFix := fixtures.ByName("byron_ebb") // 650 KB: four of them exceed the Streaming limit
	ebb := fetchedBlock(blk{Block: ebbFix})
	ebb.Kind = "Block(650KB)"
	badBlock := raw("Block-undecodable", xcbor.A(xcbor.U(4), xcbor.Tg(24, xcbor.B([]byte{0x82, 0x07, 0x80}))))
	badExtra := []wire{
		enc("client-kind-ClientDone", blockfetch.NewMsgClientDone()),
	}
	opts := func() []ouroboros.ConnectionOptionFunc {
		cfg, _ := blockfetch.NewConfig(
			blockfetch.WithBlockFunc(func(blockfetch.CallbackContext, uint, ledger.Block) error { slowCallback(); return nil }),
			blockfetch.WithBatchDoneFunc(func(blockfetch.CallbackContext) error { return nil }),
		)
		return []ouroboros.ConnectionOptionFunc{ouroboros.WithBlockFetchConfig(cfg)}
	}
	cl := func(c *ouroboros.Connection) *blockfetch.Client { return c.BlockFetch().Client }
	cGet := call("GetBlock", func(c *ouroboros.Connection) (string, error) {
		b, err := cl(c).GetBlock(b0.point())
		if err != nil {
			return "", err
		}
		return fmt.Sprint(b.SlotNumber()), nil
	})
	cRange := call("GetBlockRange", func(c *ouroboros.Connection) (string, error) {
		return okStr(cl(c).GetBlockRange(b0.point(), b1.point()))
	})
	cStop := call("Stop", func(c *ouroboros.Connection) (string, error) { return okStr(cl(c).Stop()) })
	// Busy admits StartBatch / NoBlocks; Streaming admits Block / BatchDone
	rStart := func(cn string) ev { return rp(cn, start, noBlocks) }
	rBlock := func(cn string, w wire) ev { return rp(cn, w, done, badBlock) }
	rDone := func(cn string) ev { return rp(cn, done, blk1, badBlock) }
	mk := func(name string, calls []apiCall, script []ev) *scenario {
		return &scenario{Name: "blockfetch/" + name, Proto: proto, ProtoID: id, Mode: modeNtN, Calls: calls, Script: script, BadExtra: badExtra, Opts: opts,
			SM:    &smBinding{blockfetch.StateMap, blockfetch.NewMsgFromCbor, "Idle"},
			Flood: []floodMsg{{wire: blk1}, {wire: ebb}}, StopCall: &cStop}
	}
	cStart := call("Start", func(c *ouroboros.Connection) (string, error) { cl(c).Start(); return "ok", nil })
	noSM := func(s *scenario) *scenario { s.SM = nil; return s }
	return []*scenario{
		// the same client object through Stop/Start cycles
		noSM(mk("restart-cycles", []apiCall{cGet, cStop, cStart, cGet, cStop, cStart, cGet}, []ev{
			rq(0, "GetBlock"), rStart("GetBlock"), rBlock("GetBlock", blk0), rDone("GetBlock"), rqOpt(1, "Stop"),
			rq(0, "GetBlock~2"), rStart("GetBlock~2"), rBlock("GetBlock~2", blk0), rDone("GetBlock~2"), rqOpt(1, "Stop~2"),
			rq(0, "GetBlock~3"), rStart("GetBlock~3"), rBlock("GetBlock~3", blk0), rDone("GetBlock~3")})),
		// Stop in the middle of a streamed range, restart, next request on the new instance
		noSM(mk("stop-midrange-restart", []apiCall{cRange, cStop, cStart, cGet}, []ev{
			rq(0, "GetBlockRange"), rStart("GetBlockRange"), rBlock("GetBlockRange", blk0), rqOpt(1, "Stop"),
			rq(0, "GetBlock"), rStart("GetBlock"), rBlock("GetBlock", blk0), rDone("GetBlock")})),
		// a failed operation, then the next one
		mk("NoBlocks-then-GetBlock", []apiCall{cGet.failing(), cGet}, []ev{
			rq(0, "GetBlock"), rp("GetBlock", noBlocks, start),
			rq(0, "GetBlock~2"), rStart("GetBlock~2"), rBlock("GetBlock~2", blk0), rDone("GetBlock~2")}),
		withTimeouts(mk("GetBlock-timeouts", []apiCall{cGet}, []ev{rq(0, "GetBlock"), rStart("GetBlock"), rBlock("GetBlock", blk0), rDone("GetBlock")}), func() []ouroboros.ConnectionOptionFunc {
			cfg, _ := blockfetch.NewConfig(
				blockfetch.WithBlockFunc(func(blockfetch.CallbackContext, uint, ledger.Block) error { return nil }),
				blockfetch.WithBatchDoneFunc(func(blockfetch.CallbackContext) error { return nil }),
				blockfetch.WithBatchStartTimeout(shortTimeout), blockfetch.WithBlockTimeout(shortTimeout))
			return []ouroboros.ConnectionOptionFunc{ouroboros.WithBlockFetchConfig(cfg)}
		}),
		mk("GetBlock", []apiCall{cGet}, []ev{rq(0, "GetBlock"), rStart("GetBlock"), rBlock("GetBlock", blk0), rDone("GetBlock")}),
		mk("GetBlockRange", []apiCall{cRange}, []ev{rq(0, "GetBlockRange"), rStart("GetBlockRange"), rBlock("GetBlockRange", blk0), rBlock("GetBlockRange", blk1), rDone("GetBlockRange")}),
		mk("GetBlock-GetBlock-Stop", []apiCall{cGet, cGet, cStop}, []ev{
			rq(0, "GetBlock"), rStart("GetBlock"), rBlock("GetBlock", blk0), rDone("GetBlock"),
			rq(0, "GetBlock~2"), rStart("GetBlock~2"), rBlock("GetBlock~2", blk0), rDone("GetBlock~2"),
			rq(1, "Stop")}),
		mk("GetBlockRange-GetBlock", []apiCall{cRange, cGet}, []ev{
			rq(0, "GetBlockRange"), rStart("GetBlockRange"), rBlock("GetBlockRange", blk0), rBlock("GetBlockRange", blk1), rDone("GetBlockRange"),
			rq(0, "GetBlock"), rStart("GetBlock"), rBlock("GetBlock", blk0), rDone("GetBlock")}),
	}
}

// ---- peer-sharing ----------------------------------------------------------------------

func peerSharingScenarios() []*scenario {
	const proto = "peer-sharing"
	id := uint16(peersharing.ProtocolId)
	peers := enc("SharePeers", peersharing.NewMsgSharePeers([]peersharing.PeerAddress{{IP: net.IPv4(10, 1, 2, 3), Port: 3001}}))
	none := enc("SharePeers-empty", peersharing.NewMsgSharePeers(nil))
	odd := raw("SharePeers-undecodable", xcbor.A(xcbor.U(1), xcbor.A(xcbor.A(xcbor.U(7), xcbor.T("x")))))
	badExtra := []wire{
		enc("client-kind-ShareRequest", peersharing.NewMsgShareRequest(3)),
		enc("client-kind-Done", peersharing.NewMsgDone()),
	}
	cl := func(c *ouroboros.Connection) *peersharing.Client { return c.PeerSharing().Client }
	cGet := call("GetPeers", func(c *ouroboros.Connection) (string, error) {
		p, err := cl(c).GetPeers(3)
		return fmt.Sprint(len(p)), err
	})
	r := rp("GetPeers", peers, none, odd)
	mk := func(name string, calls []apiCall, script []ev) *scenario {
		return &scenario{Name: "peersharing/" + name, Proto: proto, ProtoID: id, Mode: modeNtN, Calls: calls, Script: script, BadExtra: badExtra,
			SM: &smBinding{peersharing.StateMap, peersharing.NewMsgFromCbor, "Idle"}}
	}
	return []*scenario{
		withTimeouts(mk("GetPeers-timeouts", []apiCall{cGet}, []ev{rq(0, "GetPeers"), r}), func() []ouroboros.ConnectionOptionFunc {
			return []ouroboros.ConnectionOptionFunc{ouroboros.WithPeerSharingConfig(peersharing.NewConfig(peersharing.WithTimeout(shortTimeout)))}
		}),
		mk("GetPeers", []apiCall{cGet}, []ev{rq(0, "GetPeers"), r}),
		mk("GetPeers-twice", []apiCall{cGet, cGet}, []ev{rq(0, "GetPeers"), r, rq(0, "GetPeers~2"), rp("GetPeers~2", peers, none, odd)}),
	}
}

// ---- keep-alive (no API call: the client runs by itself) -------------------------------------

const kaCookie = 0x3a7

func keepAliveScenarios() []*scenario {
	const proto = "keep-alive"
	id := keepalive.ProtocolId
	resp := enc("KeepAliveResponse", keepalive.NewMsgKeepAliveResponse(kaCookie))
	wrong := enc("KeepAliveResponse-wrong-cookie", keepalive.NewMsgKeepAliveResponse(kaCookie+1))
	badExtra := []wire{
		enc("client-kind-KeepAlive", keepalive.NewMsgKeepAlive(kaCookie)),
		enc("client-kind-Done", keepalive.NewMsgDone()),
	}
	opts := func() []ouroboros.ConnectionOptionFunc {
		cfg := keepalive.NewConfig(keepalive.WithCookie(kaCookie), keepalive.WithPeriod(3*time.Millisecond), keepalive.WithTimeout(10*time.Second))
		return []ouroboros.ConnectionOptionFunc{ouroboros.WithKeepAlive(true), ouroboros.WithKeepAliveConfig(cfg)}
	}
	r := rp("keep-alive-client", resp, wrong)
	q := rq(0, "keep-alive-client")
	return []*scenario{{
		Name: "keepalive/client", Proto: proto, ProtoID: id, Mode: modeNtN, Opts: opts, BadExtra: badExtra,
		SM:     &smBinding{keepalive.StateMap, keepalive.NewMsgFromCbor, "Client"},
		Script: []ev{q, r, q, r, q, r},
	}}
}

// ---- tx-submission server (library = responder) -------------------------------------------------

func txSubmissionServerScenarios() []*scenario {
	const proto = "tx-submission"
	id := txsubmission.ProtocolId
	tx := fixtures.DijkstraTx()
	var txid txsubmission.TxId
	txid.EraId = 7
	copy(txid.TxId[:], []byte("0123456789abcdef0123456789abcdef"))
	init := enc("Init", txsubmission.NewMsgInit())
	ids := enc("ReplyTxIds", txsubmission.NewMsgReplyTxIds([]txsubmission.TxIdAndSize{{TxId: txid, Size: uint32(len(tx))}}))
	noIds := enc("ReplyTxIds-empty", txsubmission.NewMsgReplyTxIds(nil))
	txs := enc("ReplyTxs", txsubmission.NewMsgReplyTxs([]txsubmission.TxBody{{EraId: 7, TxBody: tx}}))
	done := enc("Done", txsubmission.NewMsgDone())
	badExtra := []wire{
		enc("server-kind-RequestTxs", txsubmission.NewMsgRequestTxs([]txsubmission.TxId{txid})),
	}
	opts := func() []ouroboros.ConnectionOptionFunc {
		cfg := txsubmission.NewConfig(
			txsubmission.WithInitFunc(func(txsubmission.CallbackContext) error { return nil }),
			txsubmission.WithDoneFunc(func(txsubmission.CallbackContext) error { return nil }),
		)
		return []ouroboros.ConnectionOptionFunc{ouroboros.WithTxSubmissionConfig(cfg)}
	}
	// the same with a Done callback that takes 3 ms (bookkeeping, logging): the restart of
	// the server protocol that follows MsgDone then happens after a prompt disconnect
	optsSlowDone := func() []ouroboros.ConnectionOptionFunc {
		cfg := txsubmission.NewConfig(
			txsubmission.WithInitFunc(func(txsubmission.CallbackContext) error { return nil }),
			txsubmission.WithDoneFunc(func(txsubmission.CallbackContext) error { time.Sleep(3 * time.Millisecond); return nil }),
		)
		return []ouroboros.ConnectionOptionFunc{ouroboros.WithTxSubmissionConfig(cfg)}
	}
	sv := func(c *ouroboros.Connection) *txsubmission.Server { return c.TxSubmission().Server }
	cIdsB := call("RequestTxIds(blocking)", func(c *ouroboros.Connection) (string, error) {
		v, err := sv(c).RequestTxIds(true, 4)
		return fmt.Sprint(len(v)), err
	})
	cIdsNB := call("RequestTxIds(non-blocking)", func(c *ouroboros.Connection) (string, error) {
		v, err := sv(c).RequestTxIds(false, 4)
		return fmt.Sprint(len(v)), err
	})
	cTxs := call("RequestTxs", func(c *ouroboros.Connection) (string, error) {
		v, err := sv(c).RequestTxs([]txsubmission.TxId{txid})
		return fmt.Sprint(len(v)), err
	})
	rInit := func(cn string) ev { return rp(cn, init) }
	mk := func(name string, calls []apiCall, script []ev) *scenario {
		return &scenario{Name: "txsubmission-server/" + name, Proto: proto, ProtoID: id, Mode: modeNtNServer, Calls: calls, Script: script, BadExtra: badExtra, Opts: opts,
			SM: &smBinding{txsubmission.StateMap, txsubmission.NewMsgFromCbor, "Init"}}
	}
	return []*scenario{
		mk("RequestTxIds-blocking", []apiCall{cIdsB}, []ev{rInit("RequestTxIds(blocking)"), rq(0, "RequestTxIds(blocking)"), rp("RequestTxIds(blocking)", ids, done)}),
		mk("RequestTxIds-blocking-Done", []apiCall{cIdsB}, []ev{rInit("RequestTxIds(blocking)"), rq(0, "RequestTxIds(blocking)"), rp("RequestTxIds(blocking)", done, ids)}),
		func() *scenario {
			s := mk("RequestTxIds-blocking-Done-callback3ms", []apiCall{cIdsB}, []ev{rInit("RequestTxIds(blocking)"), rq(0, "RequestTxIds(blocking)"), rp("RequestTxIds(blocking)", done, ids)})
			s.Opts = optsSlowDone
			return s
		}(),
		mk("RequestTxIds-nonblocking", []apiCall{cIdsNB}, []ev{rInit("RequestTxIds(non-blocking)"), rq(0, "RequestTxIds(non-blocking)"), func() ev {
			e := rp("RequestTxIds(non-blocking)", ids, noIds)
			e.Bad = []wire{done}
			return e
		}()}),
		mk("RequestTxs", []apiCall{cIdsB, cTxs}, []ev{rInit("RequestTxIds(blocking)"), rq(0, "RequestTxIds(blocking)"), rp("RequestTxIds(blocking)", ids, done),
			rq(2, "RequestTxs"), func() ev {
				e := rp("RequestTxs", txs)
				e.Bad = []wire{ids, done}
				return e
			}()}),
		// the same server object through two MsgDone/restart cycles (each restart is a new
		// protocol instance that waits for a new Init)
		func() *scenario {
			s := mk("done-restart-cycles", []apiCall{cIdsB.failing(), cIdsB, cTxs, cIdsB.failing(), cIdsNB}, []ev{
				rInit("RequestTxIds(blocking)"), rq(0, "RequestTxIds(blocking)"), rp("RequestTxIds(blocking)", done, ids),
				pause(30000, "RequestTxIds(blocking)~2"), // a peer that starts over gives the responder time to restart
				rInit("RequestTxIds(blocking)~2"), rq(0, "RequestTxIds(blocking)~2"), rp("RequestTxIds(blocking)~2", ids, done),
				rq(2, "RequestTxs"), rp("RequestTxs", txs),
				rq(0, "RequestTxIds(blocking)~3"), rp("RequestTxIds(blocking)~3", done, ids),
				pause(30000, "RequestTxIds(non-blocking)"),
				rInit("RequestTxIds(non-blocking)"), rq(0, "RequestTxIds(non-blocking)"), rp("RequestTxIds(non-blocking)", ids, noIds)})
			s.SM = nil
			return s
		}(),
		mk("session", []apiCall{cIdsB, cTxs, cIdsNB, cIdsB}, []ev{rInit("RequestTxIds(blocking)"), rq(0, "RequestTxIds(blocking)"), rp("RequestTxIds(blocking)", ids, done),
			rq(2, "RequestTxs"), rp("RequestTxs", txs),
			rq(0, "RequestTxIds(non-blocking)"), rp("RequestTxIds(non-blocking)", noIds, ids),
			rq(0, "RequestTxIds(blocking)"), rp("RequestTxIds(blocking)", done, ids)}),
	}
}

// ---- Leios ---------------------------------------------------------------------------------

func leiosScenarios() []*scenario {
	bs := testBlocks()
	b0, b1 := bs[0], bs[1]
	var out []*scenario

	// leios-fetch
	{
		const proto = "leios-fetch"
		id := leiosfetch.ProtocolId
		ebRaw := gcbor.RawMessage(xcbor.A(xcbor.U(1), xcbor.B([]byte("endorser block"))).Encode())
		block := enc("Block", leiosfetch.NewMsgBlock(ebRaw))
		noBlock := enc("NoBlock", leiosfetch.NewMsgNoBlock())
		blockTxs := enc("BlockTxs", leiosfetch.NewMsgBlockTxs([]gcbor.RawMessage{gcbor.RawMessage(fixtures.DijkstraTx())}))
		noBlockTxs := enc("NoBlockTxs", leiosfetch.NewMsgNoBlockTxs())
		votes := enc("Votes", leiosfetch.NewMsgVotes([]gcbor.RawMessage{gcbor.RawMessage(xcbor.A(xcbor.U(1), xcbor.U(2)).Encode())}))
		next := enc("NextBlockAndTxsInRange", leiosfetch.NewMsgNextBlockAndTxsInRange(ebRaw, []gcbor.RawMessage{gcbor.RawMessage(fixtures.DijkstraTx())}))
		last := enc("LastBlockAndTxsInRange", leiosfetch.NewMsgLastBlockAndTxsInRange(ebRaw, []gcbor.RawMessage{gcbor.RawMessage(fixtures.DijkstraTx())}))
		badExtra := []wire{enc("client-kind-Done", leiosfetch.NewMsgDone())}
		cl := func(c *ouroboros.Connection) *leiosfetch.Client { return c.LeiosFetch().Client }
		cBlock := call("BlockRequest", func(c *ouroboros.Connection) (string, error) {
			m, err := cl(c).BlockRequest(context.Background(), b0.point())
			return fmt.Sprint(m != nil), err
		})
		cBlockTxs := call("BlockTxsRequest", func(c *ouroboros.Connection) (string, error) {
			m, err := cl(c).BlockTxsRequest(context.Background(), b0.point(), map[uint16]uint64{0: 1})
			return fmt.Sprint(m != nil), err
		})
		cVotes := call("VotesRequest", func(c *ouroboros.Connection) (string, error) {
			m, err := cl(c).VotesRequest([]leiosfetch.MsgVotesRequestVoteId{{SlotNo: 5, VoterId: 9}})
			return fmt.Sprint(m != nil), err
		})
		cRange := call("BlockRangeRequest", func(c *ouroboros.Connection) (string, error) {
			m, err := cl(c).BlockRangeRequest(b0.point(), b1.point())
			return fmt.Sprint(len(m)), err
		})
		mk := func(name string, calls []apiCall, script []ev) *scenario {
			return &scenario{Name: "leiosfetch/" + name, Proto: proto, ProtoID: id, Mode: modeNtN, Calls: calls, Script: script, BadExtra: badExtra,
				SM: &smBinding{leiosfetch.StateMap, leiosfetch.NewMsgFromCbor, "Idle"}}
		}
		cBlockCtx := call("BlockRequest(30ms-context)", func(c *ouroboros.Connection) (string, error) {
			ctx, cancel := context.WithTimeout(context.Background(), 30*time.Millisecond)
			defer cancel()
			m, err := cl(c).BlockRequest(ctx, b0.point())
			return fmt.Sprint(m != nil), err
		})
		out = append(out,
			// failed operations as history: not found, then an expired context whose late
			// reply has to be drained, then a good request
			mk("NoBlock-expired-context-then-Block", []apiCall{cBlock.failing(), cBlockCtx.failing(), cBlock}, []ev{
				rq(0, "BlockRequest"), rp("BlockRequest", noBlock, block),
				rq(0, "BlockRequest(30ms-context)"), pause(80000, "BlockRequest(30ms-context)"), rp("BlockRequest(30ms-context)", block, noBlock),
				rq(0, "BlockRequest~3"), rp("BlockRequest~3", block, noBlock)}),
			mk("BlockRequest", []apiCall{cBlock}, []ev{rq(0, "BlockRequest"), rp("BlockRequest", block, noBlock)}),
			mk("BlockTxsRequest", []apiCall{cBlockTxs}, []ev{rq(2, "BlockTxsRequest"), rp("BlockTxsRequest", blockTxs, noBlockTxs)}),
			mk("VotesRequest", []apiCall{cVotes}, []ev{rq(4, "VotesRequest"), rp("VotesRequest", votes)}),
			mk("BlockRangeRequest", []apiCall{cRange}, []ev{rq(6, "BlockRangeRequest"), rp("BlockRangeRequest", next, last), rp("BlockRangeRequest", last, next)}),
			mk("session", []apiCall{cBlock, cVotes, cRange, cBlockTxs}, []ev{
				rq(0, "BlockRequest"), rp("BlockRequest", block, noBlock),
				rq(4, "VotesRequest"), rp("VotesRequest", votes),
				rq(6, "BlockRangeRequest"), rp("BlockRangeRequest", next, last), rp("BlockRangeRequest", last, next),
				rq(2, "BlockTxsRequest"), rp("BlockTxsRequest", blockTxs, noBlockTxs)}),
		)
	}

	// leios-notify
	{
		const proto = "leios-notify"
		id := leiosnotify.ProtocolId
		offer := enc("BlockOffer", leiosnotify.NewMsgBlockOffer(b0.point(), 1234))
		txsOffer := enc("BlockTxsOffer", leiosnotify.NewMsgBlockTxsOffer(b0.point()))
		badExtra := []wire{enc("client-kind-Done", leiosnotify.NewMsgDone())}
		opts := func() []ouroboros.ConnectionOptionFunc {
			cfg := leiosnotify.NewConfig(
				leiosnotify.WithNotificationFunc(func(leiosnotify.CallbackContext, protocol.Message) error { return nil }),
				leiosnotify.WithPipelineLimit(2),
			)
			return []ouroboros.ConnectionOptionFunc{ouroboros.WithLeiosNotifyConfig(cfg)}
		}
		cl := func(c *ouroboros.Connection) *leiosnotify.Client { return c.LeiosNotify().Client }
		cSync := call("Sync", func(c *ouroboros.Connection) (string, error) { return okStr(cl(c).Sync()) })
		cStop := call("Stop", func(c *ouroboros.Connection) (string, error) { return okStr(cl(c).Stop()) })
		out = append(out,
			&scenario{Name: "leiosnotify/Sync", Proto: proto, ProtoID: id, Mode: modeNtN, Opts: opts, BadExtra: badExtra,
				SM:     &smBinding{leiosnotify.StateMap, leiosnotify.NewMsgFromCbor, "Idle"},
				Calls:  []apiCall{cSync},
				Script: []ev{rq(0, "Sync"), rp("Sync", offer, txsOffer), rq(0, "Sync"), rp("Sync", txsOffer, offer), rq(0, "Sync"), rp("Sync", offer, txsOffer)}},
			&scenario{Name: "leiosnotify/Sync-Stop", Proto: proto, ProtoID: id, Mode: modeNtN, Opts: opts, BadExtra: badExtra,
				SM:     &smBinding{leiosnotify.StateMap, leiosnotify.NewMsgFromCbor, "Idle"},
				Calls:  []apiCall{cSync, cStop},
				Script: []ev{rq(0, "Sync"), rp("Sync", offer, txsOffer)}},
		)
	}

	// leios-votes
	{
		const proto = "leios-votes"
		id := leiosvotes.ProtocolId
		vote := enc("Vote", leiosvotes.NewMsgVote(leiosvotes.Vote{SlotNo: 5, VoterId: 9, VoteSignature: make([]byte, 48)}))
		badExtra := []wire{enc("client-kind-Done", leiosvotes.NewMsgDone())}
		opts := func() []ouroboros.ConnectionOptionFunc {
			cfg := leiosvotes.NewConfig(
				leiosvotes.WithVoteFunc(func(leiosvotes.CallbackContext, leiosvotes.Vote) error { return nil }),
				leiosvotes.WithRequestNextCount(2),
			)
			return []ouroboros.ConnectionOptionFunc{ouroboros.WithLeiosVotesConfig(cfg)}
		}
		cl := func(c *ouroboros.Connection) *leiosvotes.Client { return c.LeiosVotes().Client }
		cNext := call("RequestNext", func(c *ouroboros.Connection) (string, error) {
			v, err := cl(c).RequestNext(2)
			return fmt.Sprint(len(v)), err
		})
		cSync := call("Sync", func(c *ouroboros.Connection) (string, error) { return okStr(cl(c).Sync()) })
		cStop := call("Stop", func(c *ouroboros.Connection) (string, error) { return okStr(cl(c).Stop()) })
		out = append(out,
			&scenario{Name: "leiosvotes/RequestNext", Proto: proto, ProtoID: id, Mode: modeNtN, Opts: opts, BadExtra: badExtra,
				Calls:  []apiCall{cNext},
				Script: []ev{rq(0, "RequestNext"), rp("RequestNext", vote), rp("RequestNext", vote)}},
			&scenario{Name: "leiosvotes/Sync-Stop", Proto: proto, ProtoID: id, Mode: modeNtN, Opts: opts, BadExtra: badExtra,
				Calls:  []apiCall{cSync, cStop},
				Script: []ev{rq(0, "Sync"), rp("Sync", vote), rp("Sync", vote), rqAny("Stop")}},
		)
	}
	return out
}

// ---- DMQ node-to-client --------------------------------------------------------------------

func dmqScenarios() []*scenario {
	var out []*scenario
	dm := pcommon.DmqMessage{}
	dm.MessageID = make([]byte, 32)
	dm.Payload.MessageBody = []byte("body")
	dm.Payload.KESPeriod = 1
	dm.Payload.ExpiresAt = uint32(time.Now().Add(20 * time.Minute).Unix())
	dm.KESSignature = make([]byte, 448)
	dm.OperationalCertificate.KESVerificationKey = make([]byte, 32)
	dm.OperationalCertificate.ColdSignature = make([]byte, 64)
	dm.ColdVerificationKey = make([]byte, 32)
	{
		const proto = "local-message-submission"
		id := uint16(localmessagesubmission.ProtocolID)
		accept := enc("AcceptMessage", localmessagesubmission.NewMsgAcceptMessage())
		rejM, err := localmessagesubmission.NewMsgRejectMessage(pcommon.InvalidReason{Message: "no"})
		if err != nil {
			panic(err)
		}
		reject := enc("RejectMessage", rejM)
		badExtra := []wire{enc("client-kind-Done", localmessagesubmission.NewMsgDone())}
		opts := func() []ouroboros.ConnectionOptionFunc {
			// a literal Config: NewConfig would install the default KES authenticator, and
			// signing a message is not what this check is about (the client then only
			// checks the expiry)
			cfg := localmessagesubmission.Config{
				Timeout:           30 * time.Second,
				AcceptMessageFunc: func(localmessagesubmission.CallbackContext) {},
				RejectMessageFunc: func(localmessagesubmission.CallbackContext, pcommon.RejectReason) {},
			}
			return []ouroboros.ConnectionOptionFunc{ouroboros.WithLocalMessageSubmissionConfig(cfg)}
		}
		cl := func(c *ouroboros.Connection) *localmessagesubmission.Client { return c.LocalMessageSubmission().Client }
		cSubmit := call("SubmitMessage", func(c *ouroboros.Connection) (string, error) {
			m := dm
			return okStr(cl(c).SubmitMessage(&m))
		})
		cStop := call("Stop", func(c *ouroboros.Connection) (string, error) { return okStr(cl(c).Stop()) })
		out = append(out,
			&scenario{Name: "dmq-submit/SubmitMessage", Proto: proto, ProtoID: id, Mode: modeDMQ, Opts: opts, BadExtra: badExtra,
				Calls:  []apiCall{cSubmit},
				Script: []ev{rq(0, "SubmitMessage"), rp("SubmitMessage", accept, reject)}},
			&scenario{Name: "dmq-submit/SubmitMessage-Stop", Proto: proto, ProtoID: id, Mode: modeDMQ, Opts: opts, BadExtra: badExtra,
				Calls:  []apiCall{cSubmit, cStop},
				Script: []ev{rq(0, "SubmitMessage"), rp("SubmitMessage", reject, accept), rq(3, "Stop")}},
		)
	}
	{
		const proto = "local-message-notification"
		id := uint16(localmessagenotification.ProtocolID)
		nb := enc("ReplyMessagesNonBlocking", localmessagenotification.NewMsgReplyMessagesNonBlocking([]pcommon.DmqMessage{dm}, false))
		bl := enc("ReplyMessagesBlocking", localmessagenotification.NewMsgReplyMessagesBlocking([]pcommon.DmqMessage{dm}))
		badExtra := []wire{enc("client-kind-ClientDone", localmessagenotification.NewMsgClientDone())}
		opts := func() []ouroboros.ConnectionOptionFunc {
			cfg := localmessagenotification.NewConfig(
				localmessagenotification.WithReplyMessagesFunc(func(localmessagenotification.CallbackContext, []pcommon.DmqMessage, bool) {}),
			)
			return []ouroboros.ConnectionOptionFunc{ouroboros.WithLocalMessageNotificationConfig(cfg)}
		}
		cl := func(c *ouroboros.Connection) *localmessagenotification.Client {
			return c.LocalMessageNotification().Client
		}
		cNB := call("RequestMessagesNonBlocking", func(c *ouroboros.Connection) (string, error) { return okStr(cl(c).RequestMessagesNonBlocking()) })
		cB := call("RequestMessagesBlocking", func(c *ouroboros.Connection) (string, error) { return okStr(cl(c).RequestMessagesBlocking()) })
		cStop := call("Stop", func(c *ouroboros.Connection) (string, error) { return okStr(cl(c).Stop()) })
		out = append(out,
			&scenario{Name: "dmq-notify/RequestMessagesNonBlocking", Proto: proto, ProtoID: id, Mode: modeDMQ, Opts: opts, BadExtra: badExtra,
				Calls: []apiCall{cNB},
				Script: []ev{rq(0, "RequestMessagesNonBlocking"), func() ev {
					e := rp("RequestMessagesNonBlocking", nb)
					e.Bad = []wire{bl}
					return e
				}()}},
			&scenario{Name: "dmq-notify/RequestMessagesBlocking-Stop", Proto: proto, ProtoID: id, Mode: modeDMQ, Opts: opts, BadExtra: badExtra,
				Calls: []apiCall{cB, cStop},
				Script: []ev{rq(0, "RequestMessagesBlocking"), func() ev {
					e := rp("RequestMessagesBlocking", bl)
					e.Bad = []wire{nb}
					return e
				}(), rq(3, "Stop")}},
		)
	}
	return out
}
