// Package faults holds the fault-enumeration check C15: a full
// ouroboros.Connection (the object under test) talks over an in-memory
// rawpeer.Pipe to an adversarial raw peer. A table of blocking API calls is
// crossed with fault scripts applied at every position of the legitimate
// conversation; after the connection ends the oracle demands that every started
// API call has returned, Close() has returned, ErrorChan() is closed and no
// goroutine with a gouroboros frame that was started for this connection is
// left.
package faults

import (
	"encoding/json"
	"fmt"
	"regexp"
	"runtime"
	"sort"
	"strconv"
	"strings"
	"sync"
	"sync/atomic"
	"time"

	ouroboros "github.com/blinklabs-io/gouroboros"
	"github.com/blinklabs-io/gouroboros/protocol"

	"verif/harness/internal/rawpeer"
	"verif/harness/internal/xcbor"
)

const testMagic = 764824073

// connMode is the role the library end plays.
type connMode int

const (
	modeNtC       connMode = iota // library = node-to-client initiator
	modeNtN                       // library = node-to-node initiator
	modeNtNServer                 // library = node-to-node responder
	modeDMQ                       // library = DMQ node-to-client initiator
	modeNtNDuplex                 // library = node-to-node initiator, full duplex: client and server halves run
)

func (m connMode) String() string {
	return [...]string{"ntc-client", "ntn-client", "ntn-server", "dmq-client", "ntn-duplex"}[m]
}

// wire is one message the peer can put on the protocol's stream.
type wire struct {
	Kind string
	Data []byte
}

// ev is one event of the peer's legitimate script: either "wait for a library
// message with this tag" or "send this message". Send events are the positions
// faults are applied at.
type ev struct {
	Recv   int    // >= 0: wait for one library message with this tag; -1: send event
	Send   wire   // the legitimate message
	Others []wire // other kinds the library's state map admits in this state
	Bad    []wire // kinds it does not admit here (generic ones are added by the runner)
	Call   string // API call pending at this point (label used in finding keys)
	RIdx   int    // index of this reply within the pending call (filled by finish())
	// stream of this event when it differs from the scenario's (duplex scenarios):
	// protocol id, whether the peer speaks as the initiator, protocol name for keys
	HasStream bool
	PID       uint16
	AsInit    bool
	ProtoName string
	PauseUs   int // > 0: the peer just waits this long (neither send nor receive)
	Optional  bool
}

// on binds an event to a stream other than the scenario's default one.
func (e ev) on(name string, pid uint16, peerIsInitiator bool) ev {
	e.HasStream, e.PID, e.AsInit, e.ProtoName = true, pid, peerIsInitiator, name
	return e
}

func pause(us int, call string) ev { return ev{Recv: -1, PauseUs: us, Call: call} }

func rq(tag int, call string) ev { return ev{Recv: tag, Call: call} }

// rqAny waits for any one library message (where two requests race by design).
const anyTag = 1000

func rqAny(call string) ev { return ev{Recv: anyTag, Call: call} }

// rqOpt waits for a library message that may legitimately not be sent (the Done of
// a Stop() that races with the protocol shutdown): a message with another tag is
// left for the next event.
func rqOpt(tag int, call string) ev { return ev{Recv: tag, Call: call, Optional: true} }
func rp(call string, legit wire, others ...wire) ev {
	return ev{Recv: -1, Send: legit, Others: others, Call: call}
}

// apiCall is one blocking API call made by the harness's caller goroutine.
type apiCall struct {
	Name string
	Do   func(c *ouroboros.Connection) (string, error)
	// ErrOK: the legitimate script makes this call return an error (a refused
	// acquire, a block that is not there, an expired context, ...); the caller goes
	// on with the next call: failed operations are history steps
	ErrOK bool
}

func (a apiCall) failing() apiCall { a.ErrOK = true; return a }

type scenario struct {
	Name    string
	Proto   string
	ProtoID uint16
	Mode    connMode
	Calls   []apiCall
	Script  []ev
	Opts    func() []ouroboros.ConnectionOptionFunc
	// BadExtra: well-formed messages of this protocol that no server state admits
	// (client-side kinds); used by the not-admitted fault next to an unknown tag.
	BadExtra []wire
	// SM binds the scenario to the library's exported state map (used only by the
	// self-check of the admitted / not-admitted labels); nil when the protocol
	// does not export what is needed
	SM *smBinding
	// Flood is a valid, fully decodable server message (a real block / header) used
	// by the flood fault (protocols whose state maps declare a
	// PendingMessageByteLimit; the limits are read from SM.Map)
	Flood []floodMsg
	// StopCall is the client's Stop() (flood variant "stop in progress")
	StopCall *apiCall
	// Timeouts: the scenario configures short (250 ms) protocol timeouts, so the
	// silence-timeout fault applies: the peer goes silent and never closes
	Timeouts bool
	sends    []int // indices of send events
}

// floodMsg is a candidate message of the flood fault. IdleOnly candidates are well
// formed as messages but carry an opaque payload: they are only used where no
// handler will look at them (after the conversation, the client idle).
type floodMsg struct {
	wire
	IdleOnly bool
}

// floodWithStop enables the histories "a client Stop() while a receive backlog
// (flood) is pending": flood cases in scenarios that call Stop, and the flood
// variant stop-in-progress. Before /repo commit 2f319f8 the property did not hold
// there (findings/C15.md, "Stop() with a receive backlog wedges the muxer":
// Protocol.Stop -> Muxer.UnregisterProtocol blocked on the receiver's mutex, which
// muxer.readLoop held while blocked sending into that protocol's full channel);
// the histories are part of the search now.
const floodWithStop = true

func (s *scenario) callsStop() bool {
	for _, c := range s.Calls {
		if c.Name == "Stop" {
			return true
		}
	}
	return false
}

// floodLimits reads the pending-byte limits from the exported state map: the
// limit of the initial (idle, client agency) state and the largest limit of any state.
func (s *scenario) floodLimits() (idle, busy int) {
	if s.SM == nil {
		return 0, 0
	}
	for st, e := range s.SM.Map {
		if st.Name == s.SM.Initial {
			idle = e.PendingMessageByteLimit
		}
		if e.PendingMessageByteLimit > busy {
			busy = e.PendingMessageByteLimit
		}
	}
	return
}

// callbackGate: while a flood case with a call pending runs, the user callbacks of
// the chain-sync / block-fetch scenarios block on it (a slow consumer); the runner
// releases it shortly after the connection ended. Cases run one at a time.
var callbackGate atomic.Pointer[chan struct{}]

func slowCallback() {
	if g := callbackGate.Load(); g != nil {
		<-*g
	}
}

type smBinding struct {
	Map     protocol.StateMap
	Decode  func(uint, []byte) (protocol.Message, error)
	Initial string // name of the initial state
}

func (s *scenario) finish() *scenario {
	// RIdx: ordinal of this reply among the replies of the same kind within the
	// same call instance (labels of repeated calls carry a "~n" suffix that the
	// finding key drops)
	s.sends = s.sends[:0]
	last := ""
	seen := map[string]int{}
	for i := range s.Script {
		if s.Script[i].Call != last {
			last = s.Script[i].Call
			seen = map[string]int{}
		}
		if s.Script[i].Recv >= 0 || s.Script[i].PauseUs > 0 {
			continue
		}
		seen[s.Script[i].Send.Kind]++
		s.Script[i].RIdx = seen[s.Script[i].Send.Kind]
		s.sends = append(s.sends, i)
	}
	return s
}

// nPos is the number of fault positions: one per send event plus the end.
func (s *scenario) nPos() int { return len(s.sends) + 1 }

// ---- faults ----------------------------------------------------------------------

type faultKind int

const (
	fOtherAdmitted  faultKind = iota // a reply of another kind that the state map admits
	fNotAdmitted                     // a well-formed reply of a kind the state map does not admit
	fSurplus                         // the legitimate reply followed by a surplus one
	fTruncSeg                        // a segment whose header promises more bytes than are sent, then close
	fClose                           // immediate close
	fSilenceClose                    // silence, then close
	fGarbage                         // garbage bytes
	fHsClose                         // close right after the handshake, before any request is read
	fMidMsgClose                     // close in the middle of a message split over several segments
	fFlood                           // valid messages whose total size exceeds the state's pending-byte limit, then the connection ends
	fConnError                       // the transport fails with an error other than EOF (reset on read, broken pipe on write)
	fSilenceTimeout                  // the peer goes silent and never closes: the library's own protocol timeout ends the connection
	nFaultKinds
	fNone = nFaultKinds // no fault (self-test of the legitimate scripts)
)

var faultNames = [...]string{"other-admitted", "not-admitted", "surplus", "truncated-segment-close", "close",
	"silence-close", "garbage", "handshake-close", "midmessage-close", "flood-valid", "conn-error", "silence-timeout", "none"}

func (f faultKind) String() string { return faultNames[f] }

func faultByName(s string) (faultKind, bool) {
	for i, n := range faultNames {
		if n == s {
			return faultKind(i), true
		}
	}
	return 0, false
}

// garbage flavours
var garbageNames = [...]string{"raw-bytes", "framed-noise", "framed-bad-cbor", "framed-nonarray", "zero-length-segment", "unknown-protocol-id", "wrong-direction", "framed-65535-incomplete"}

// where a truncated segment is cut (boundaries of the 8-byte header and of the payload, and one byte either side)
var truncNames = [...]string{"payload-mid", "header-mid", "header-7of8", "header-only", "header+1", "all-but-last-byte"}

// what happens around the end of the handshake
var hsNames = [...]string{"close", "reply-minus-last-byte", "reply-last-byte-late", "refuse"}

var connErrNames = [...]string{"read-reset", "write-epipe", "read-reset+peer-close"}

// planSpec is the JSON form of a rawpeer.SeqPlan.
type planSpec struct {
	Chunks []int `json:"chunks,omitempty"`
	Yields []int `json:"yields,omitempty"`
}

func (p planSpec) plan() rawpeer.Plan {
	if len(p.Chunks) == 0 && len(p.Yields) == 0 {
		return nil
	}
	return &rawpeer.SeqPlan{Chunks: append([]int(nil), p.Chunks...), Yields: append([]int(nil), p.Yields...)}
}

// caseSpec is one fully determined case (what rapid draws / what a replay file holds).
type caseSpec struct {
	Scn       string `json:"scenario"`
	Fault     string `json:"fault"`
	Pos       int    `json:"pos"`     // ordinal of the send event the fault replaces; nPos-1 = end; -1 = before anything
	Variant   int    `json:"variant"` // which alternative message / garbage flavour
	Cut       int    `json:"cut"`     // permille: where a message is truncated / split
	SegMax    int    `json:"seg_max"` // peer's segment payload size for legit messages (0 = one segment)
	LingerUs  int    `json:"linger_us"`
	EndLocal  bool   `json:"end_local"` // true: the harness calls Close() while the peer is still open
	CallDelay int    `json:"call_delay_us"`
	AfterErr  bool   `json:"continue_after_error"`
	// DoubleClose: Close() is called from two goroutines at once and once more afterwards
	DoubleClose bool `json:"double_close,omitempty"`
	// NoErrReader: the application does not read ErrorChan() until Close() has returned
	NoErrReader bool     `json:"no_error_reader,omitempty"`
	Noise       []byte   `json:"noise,omitempty"`
	PlanLib     planSpec `json:"plan_lib"`
	PlanPeer    planSpec `json:"plan_peer"`
}

func (c caseSpec) String() string {
	b, _ := json.Marshal(c)
	return string(b)
}

// ---- result ------------------------------------------------------------------------

type callRec struct {
	Name     string `json:"name"`
	Started  bool   `json:"started"`
	Returned bool   `json:"returned"`
	Result   string `json:"result,omitempty"`
	Err      string `json:"err,omitempty"`
}

type outcome struct {
	Key        string    `json:"key"`            // "" when the oracle holds
	Keys       []string  `json:"keys,omitempty"` // one per leaked function for a pure leak
	Symptom    string    `json:"symptom"`        // call-hang | close-hang | errchan-open | goroutine-leak
	What       string    `json:"what"`
	At         string    `json:"at"`
	Call       string    `json:"call"`
	Variant    string    `json:"variant"`
	Calls      []callRec `json:"calls"`
	ConnErrors []string  `json:"conn_errors"`
	Trace      []string  `json:"trace"`
	Dump       string    `json:"goroutines,omitempty"`
	NewConnErr string    `json:"newconnection_error,omitempty"`
	Desync     bool      `json:"desync"`
	Injected   bool      `json:"injected"`
	SettleMs   float64   `json:"settle_ms"`
	BoundMs    int       `json:"bound_ms"`
	// non-triviality facts
	CallPendingAtEnd bool `json:"call_pending_when_connection_ended"`
	CallsStarted     int  `json:"calls_started"`
	NeededClose      bool `json:"calls_pending_until_local_close"`
	leakFuncs        []string
	wireLog          []wireRec
}

// ---- goroutine bookkeeping ---------------------------------------------------------

type gor struct {
	ID    int
	Stack string
}

var gorHdr = regexp.MustCompile(`^goroutine (\d+) `)

func allGoroutines() []gor {
	n := 1 << 20
	for {
		buf := make([]byte, n)
		m := runtime.Stack(buf, true)
		if m < n {
			var out []gor
			for _, g := range strings.Split(string(buf[:m]), "\n\n") {
				mm := gorHdr.FindStringSubmatch(g)
				if mm == nil {
					continue
				}
				id, _ := strconv.Atoi(mm[1])
				out = append(out, gor{ID: id, Stack: g})
			}
			return out
		}
		n *= 2
	}
}

const libMark = "github.com/blinklabs-io/gouroboros"
const callerMark = "props/faults.(*runner).caller" // also matches callerExtra
const harnessMark = "verif/harness/"

// libraryGoroutines returns the goroutines not in base that have a gouroboros
// frame (also "created by" a gouroboros function) and are not one of the
// harness's own caller goroutines (those are judged as calls, not as leaks).
// Goroutines parked in a function listed in ignore are skipped.
func libraryGoroutines(base map[int]bool, ignore map[string]bool) (leaks []gor, callers []gor) {
	for _, g := range allGoroutines() {
		if base[g.ID] || !strings.Contains(g.Stack, libMark) {
			continue
		}
		if strings.Contains(g.Stack, callerMark) || strings.Contains(g.Stack, "faults.(*runner).newConn") ||
			strings.Contains(g.Stack, "faults.(*runner).closer") { // also closer2
			// the harness's own goroutines inside an API call / NewConnection / Close():
			// judged as calls
			callers = append(callers, g)
			continue
		}
		if ignore[topFunc(g)] {
			continue
		}
		leaks = append(leaks, g)
	}
	return
}

// topFunc is the innermost library function of a goroutine.
func topFunc(g gor) string {
	for _, l := range strings.Split(g.Stack, "\n") {
		if strings.HasPrefix(l, libMark) {
			f := strings.TrimPrefix(l, libMark)
			if i := strings.LastIndex(f, "("); i > 0 {
				f = f[:i]
			}
			return f
		}
		if strings.HasPrefix(l, "created by "+libMark) {
			f := strings.TrimPrefix(l, "created by "+libMark)
			if i := strings.Index(f, " in goroutine"); i > 0 {
				f = f[:i]
			}
			return "created-by:" + f
		}
	}
	return "?"
}

func clipStack(g gor, maxLines int) string {
	lines := strings.Split(g.Stack, "\n")
	if len(lines) > maxLines {
		lines = append(lines[:maxLines], "\t...")
	}
	return strings.Join(lines, "\n")
}

func dumpOf(gs []gor, limit int) string {
	var sb strings.Builder
	for i, g := range gs {
		if i >= limit {
			fmt.Fprintf(&sb, "\n(+%d more)", len(gs)-limit)
			break
		}
		if i > 0 {
			sb.WriteString("\n\n")
		}
		sb.WriteString(clipStack(g, 24))
	}
	return sb.String()
}

// topFrames names the function each goroutine is parked in (first library frame).
func topFrames(gs []gor) string {
	seen := map[string]int{}
	for _, g := range gs {
		seen[topFunc(g)]++
	}
	var ks []string
	for k, n := range seen {
		ks = append(ks, fmt.Sprintf("%s x%d", k, n))
	}
	sort.Strings(ks)
	return strings.Join(ks, ", ")
}

// ---- runner -----------------------------------------------------------------------

type runner struct {
	scn   *scenario
	cs    caseSpec
	fault faultKind
	bound time.Duration

	mu       sync.Mutex
	calls    []callRec
	trace    []string
	connErrs []string

	errClosed  chan struct{}
	closeDone  chan struct{}
	callerDone chan struct{}
	conn       *ouroboros.Connection
	peer       *rawpeer.Peer
	ca, cb     *rawpeer.FragConn
	peerResp   bool // direction bit of the peer's segments
	t0         time.Time
	wireLog    []wireRec // messages in script order (self-check only)
	gate       *chan struct{}
	curPID     uint16 // stream of the current event
	curResp    bool
	fc         *faultConn
	connReset  bool              // the transport was made to fail (the connection has ended without a peer close)
	pushback   map[uint32][]byte // a message read ahead by an optional wait, per stream
	extra      []callRec         // calls made by the harness outside the caller (Stop during a flood)
	extraWG    sync.WaitGroup
}

// stream selects the stream of an event (the scenario's default one unless the event names its own).
func (r *runner) stream(e ev) {
	if e.HasStream {
		r.curPID, r.curResp = e.PID, !e.AsInit
		return
	}
	r.curPID, r.curResp = r.scn.ProtoID, r.peerResp
}

// extraCall runs an API call in its own tracked goroutine (judged like the caller's calls).
func (r *runner) extraCall(ac apiCall, c *ouroboros.Connection) {
	r.mu.Lock()
	i := len(r.extra)
	r.extra = append(r.extra, callRec{Name: ac.Name + "(concurrent)", Started: true})
	r.mu.Unlock()
	r.extraWG.Add(1)
	go r.callerExtra(ac, c, i)
}

func (r *runner) callerExtra(ac apiCall, c *ouroboros.Connection, i int) {
	defer r.extraWG.Done()
	res, err := ac.Do(c)
	r.mu.Lock()
	r.extra[i].Returned = true
	r.extra[i].Result = res
	if err != nil {
		r.extra[i].Err = err.Error()
	}
	r.mu.Unlock()
	r.logf("concurrent call %s -> %s %v", ac.Name, res, err)
}

type wireRec struct {
	FromLib bool
	EvIdx   int
	Data    []byte
}

func (r *runner) logf(format string, a ...any) {
	r.mu.Lock()
	if len(r.trace) < 80 {
		r.trace = append(r.trace, fmt.Sprintf("%6.1fms ", float64(time.Since(r.t0).Microseconds())/1000)+fmt.Sprintf(format, a...))
	}
	r.mu.Unlock()
}

// newConn runs NewConnection (it blocks until the handshake is over).
func (r *runner) newConn(opts []ouroboros.ConnectionOptionFunc, out chan<- error) {
	c, err := ouroboros.NewConnection(opts...)
	r.mu.Lock()
	r.conn = c
	r.mu.Unlock()
	out <- err
}

// caller makes the scenario's API calls one after the other.
func (r *runner) caller(c *ouroboros.Connection) {
	defer close(r.callerDone)
	if r.cs.CallDelay > 0 {
		time.Sleep(time.Duration(r.cs.CallDelay) * time.Microsecond)
	}
	for i, ac := range r.scn.Calls {
		r.mu.Lock()
		r.calls[i].Started = true
		r.mu.Unlock()
		res, err := ac.Do(c)
		r.mu.Lock()
		r.calls[i].Returned = true
		r.calls[i].Result = res
		if err != nil {
			r.calls[i].Err = err.Error()
		}
		r.mu.Unlock()
		if err != nil {
			r.logf("call %s -> error %v", ac.Name, err)
			if !r.cs.AfterErr && !ac.ErrOK {
				return
			}
		} else {
			r.logf("call %s -> %s", ac.Name, res)
		}
	}
}

func (r *runner) send(w wire) {
	max := r.cs.SegMax
	if max > 0 && len(w.Data)/max > 300 {
		max = len(w.Data)/300 + 1 // keep the number of segments of a big block bounded
	}
	segs := rawpeer.SplitPayload(r.curPID, r.curResp, w.Data, max)
	if err := r.peer.Send(segs...); err != nil {
		r.logf("peer send %s: %v", w.Kind, err)
		return
	}
	r.logf("peer -> %s (%d bytes, %d segment(s))", w.Kind, len(w.Data), len(segs))
}

func msgTag(b []byte) int {
	n, err := xcbor.ParseExact(b)
	if err != nil || n.Kind != xcbor.Array || len(n.Items) == 0 || n.Items[0].Kind != xcbor.Uint {
		return -1
	}
	return int(n.Items[0].Arg)
}

// await waits for a library message with the given tag.
func (r *runner) await(tag int, d time.Duration) bool { return r.awaitOpt(tag, d, false) }

func (r *runner) awaitOpt(tag int, d time.Duration, optional bool) bool {
	sk := uint32(r.curPID) << 1
	if !r.curResp {
		sk |= 1
	}
	var m []byte
	var err error
	if pb, ok := r.pushback[sk]; ok {
		m = pb
		delete(r.pushback, sk)
	} else {
		if optional {
			d = 400 * time.Millisecond
		}
		m, err = r.peer.NextMsg(r.curPID, !r.curResp, d)
	}
	if optional && (err != nil || msgTag(m) != tag) {
		if err == nil {
			if r.pushback == nil {
				r.pushback = map[uint32][]byte{}
			}
			r.pushback[sk] = m
		}
		r.logf("peer: optional library message tag %d not sent", tag)
		return true
	}
	if err != nil {
		r.logf("peer: expected library message tag %d: %v", tag, err)
		return false
	}
	if got := msgTag(m); got != tag && tag != anyTag {
		r.logf("peer: expected library message tag %d, got %x", tag, clipb(m))
		return false
	}
	r.logf("peer <- tag %d (%d bytes)", tag, len(m))
	r.wireLog = append(r.wireLog, wireRec{FromLib: true, EvIdx: -1, Data: m})
	return true
}

func clipb(b []byte) []byte {
	if len(b) > 24 {
		return b[:24]
	}
	return b
}

// genericBad are well-formed messages no state of any of the protocols admits.
func (r *runner) badList(e ev) []wire {
	out := append([]wire(nil), e.Bad...)
	out = append(out, r.scn.BadExtra...)
	out = append(out, wire{"unknown-tag-99", xcbor.A(xcbor.U(99)).Encode()})
	return out
}

type position struct {
	evIdx int // index into Script of the send event (-1: end / pre)
	at    string
	call  string
	proto string // protocol of the event ("" = the scenario's)
}

func (r *runner) position() position {
	s := r.scn
	switch {
	case r.fault == fNone:
		return position{-2, "none", "", ""}
	case r.cs.Pos < 0:
		c := ""
		if len(s.Calls) > 0 {
			c = s.Calls[0].Name
		}
		return position{-1, "pre", c, ""}
	case r.cs.Pos >= len(s.sends):
		c := ""
		if len(s.Script) > 0 {
			c = baseLabel(s.Script[len(s.Script)-1].Call)
		}
		return position{-1, "end", c, ""}
	}
	e := s.Script[s.sends[r.cs.Pos]]
	at := "at=" + e.Send.Kind
	if e.RIdx > 1 {
		at += fmt.Sprintf("#%d", e.RIdx)
	}
	return position{s.sends[r.cs.Pos], at, baseLabel(e.Call), e.ProtoName}
}

// baseLabel drops the "~n" instance suffix of a call label.
func baseLabel(l string) string {
	if i := strings.Index(l, "~"); i >= 0 {
		return l[:i]
	}
	return l
}

// runCase executes one case and evaluates the oracle.
func runCase(scn *scenario, cs caseSpec, bound time.Duration) outcome {
	return runCaseIgnoring(scn, cs, bound, nil, nil)
}

func (r *runner) closer(c *ouroboros.Connection) {
	if r.cs.DoubleClose {
		// close during close: two concurrent Close() calls and a third one afterwards
		second := make(chan struct{})
		go r.closer2(c, second)
		_ = c.Close()
		<-second
	}
	_ = c.Close()
	close(r.closeDone)
}

func (r *runner) closer2(c *ouroboros.Connection, done chan struct{}) {
	_ = c.Close()
	close(done)
}

// closeGrace: how long after a peer disconnect the harness waits for pending
// calls before it calls Close() itself.
const closeGrace = 500 * time.Millisecond

// knownBound: once this much time has passed, a case whose current symptom is a
// listed known finding is not waited for any longer (it is enough to confirm
// that the listed defect is still there).
const knownBound = 1200 * time.Millisecond

func runCaseIgnoring(scn *scenario, cs caseSpec, bound time.Duration, ignore map[string]bool, isKnown func(string) bool) outcome {
	fk, _ := faultByName(cs.Fault)
	r := &runner{scn: scn, cs: cs, fault: fk, bound: bound, t0: time.Now(),
		errClosed: make(chan struct{}), closeDone: make(chan struct{}), callerDone: make(chan struct{})}
	r.calls = make([]callRec, len(scn.Calls))
	for i, c := range scn.Calls {
		r.calls[i].Name = c.Name
	}
	r.peerResp = scn.Mode != modeNtNServer
	pos := r.position()
	out := outcome{At: pos.at, Call: pos.call, BoundMs: int(bound / time.Millisecond)}

	base := map[int]bool{}
	for _, g := range allGoroutines() {
		base[g.ID] = true
	}

	// flood with a call pending: the scenario's user callbacks are slow (they block
	// until shortly after the connection ended)
	var gate chan struct{}
	releaseGate := func() {}
	if fk == fFlood && pos.evIdx >= 0 {
		gate = make(chan struct{})
		var once sync.Once
		releaseGate = func() { once.Do(func() { close(gate); r.logf("user callbacks released") }) }
		r.gate = &gate // armed when the fault is injected
		defer func() {
			releaseGate()
			callbackGate.Store(nil)
		}()
	}

	r.ca, r.cb = rawpeer.Pipe(cs.PlanLib.plan(), cs.PlanPeer.plan())
	r.fc = &faultConn{FragConn: r.ca}
	r.curPID, r.curResp = scn.ProtoID, r.peerResp
	r.peer = rawpeer.NewPeer(r.cb)
	defer func() {
		r.peer.Close()
		_ = r.ca.Close()
	}()

	// ---- connection + handshake
	opts := []ouroboros.ConnectionOptionFunc{ouroboros.WithConnection(r.fc), ouroboros.WithNetworkMagic(testMagic)}
	switch scn.Mode {
	case modeNtN:
		opts = append(opts, ouroboros.WithNodeToNode(true), ouroboros.WithPeerSharing(true))
	case modeNtNServer:
		opts = append(opts, ouroboros.WithNodeToNode(true), ouroboros.WithServer(true))
	case modeNtNDuplex:
		// the peer echoes the version data, i.e. it agrees to initiator-and-responder mode
		opts = append(opts, ouroboros.WithNodeToNode(true), ouroboros.WithPeerSharing(true), ouroboros.WithFullDuplex(true))
	case modeDMQ:
		opts = append(opts, ouroboros.WithDMQ(true))
	}
	if scn.Opts != nil {
		opts = append(opts, scn.Opts()...)
	}
	ncErr := make(chan error, 1)
	go r.newConn(opts, ncErr)
	hsVariant := ""
	if fk == fHsClose {
		hsVariant = hsNames[mod(cs.Variant, len(hsNames))]
		if scn.Mode == modeNtNServer && hsVariant != "close" {
			hsVariant = "proposal-minus-last-byte"
		}
	}
	hsLinger := func() {
		if cs.LingerUs > 0 {
			time.Sleep(time.Duration(cs.LingerUs) * time.Microsecond)
		}
	}
	var hsErr error
	if scn.Mode == modeNtNServer {
		data := xcbor.A(xcbor.U(testMagic), xcbor.Bool(true), xcbor.U(0), xcbor.Bool(false))
		if hsVariant == "proposal-minus-last-byte" {
			// the proposal arrives without its last byte, then the peer is gone
			prop := rawpeer.Frame(rawpeer.Seg{ProtoID: 0, Response: false, Payload: xcbor.A(xcbor.U(0), xcbor.M(xcbor.U(14), data)).Encode()})
			_ = r.peer.SendBytes(prop[:len(prop)-1])
			hsLinger()
			r.peer.Close()
			r.logf("FAULT handshake: proposal without its last byte, then close")
		} else {
			var reply []byte
			reply, hsErr = r.peer.ProposeHandshake(14, data, 20*time.Second)
			if hsErr == nil && msgTag(reply) != 1 {
				hsErr = fmt.Errorf("responder did not accept: %x", reply)
			}
		}
	} else if hsVariant == "" || hsVariant == "close" {
		_, hsErr = r.peer.AcceptHandshake(20*time.Second, nil)
	} else {
		// the reply is built here so that its last byte can be withheld / it can be a refusal
		var msg []byte
		msg, hsErr = r.peer.NextMsg(0, false, 20*time.Second)
		if hsErr == nil {
			n, perr := xcbor.ParseExact(msg)
			if perr != nil || n.Kind != xcbor.Array || len(n.Items) != 2 || n.Items[1].Kind != xcbor.Map || len(n.Items[1].Items) < 2 {
				hsErr = fmt.Errorf("unexpected proposal %x", clipb(msg))
			} else {
				vm := n.Items[1]
				best := vm.Items[0].Arg
				for i := 0; i+1 < len(vm.Items); i += 2 {
					if vm.Items[i].Arg > best {
						best = vm.Items[i].Arg
					}
				}
				reply := rawpeer.Frame(rawpeer.Seg{ProtoID: 0, Response: true, Payload: xcbor.A(xcbor.U(1), xcbor.U(best), vm.MapGet(best)).Encode()})
				switch hsVariant {
				case "reply-minus-last-byte":
					_ = r.peer.SendBytes(reply[:len(reply)-1])
					hsLinger()
					r.peer.Close()
				case "reply-last-byte-late":
					_ = r.peer.SendBytes(reply[:len(reply)-1])
					hsLinger()
					_ = r.peer.SendBytes(reply[len(reply)-1:])
					r.peer.Close()
				case "refuse":
					// MsgRefuse, VersionMismatch: a failed operation
					// (the peer stays connected: the library has to clean up on its own)
					_ = r.peer.SendMsg(0, true, xcbor.A(xcbor.U(2), xcbor.A(xcbor.U(0), xcbor.A(xcbor.U(1)))).Encode())
				}
				r.logf("FAULT handshake: %s", hsVariant)
			}
		}
	}
	if hsErr != nil {
		out.What = "harness: handshake failed: " + hsErr.Error()
		out.Key = "harness:handshake"
		out.Keys = []string{out.Key}
		return out
	}
	r.logf("handshake done")

	if fk == fHsClose && hsVariant == "close" {
		// the peer goes away before anything else happens; NewConnection may or may
		// not have returned yet
		hsLinger()
		r.peer.Close()
		r.logf("peer closed right after the handshake")
	}
	if fk == fHsClose {
		out.Injected = true
	}

	var ncE error
	select {
	case ncE = <-ncErr:
	case <-time.After(bound):
		out.Symptom = "newconnection-hang"
		out.What = "NewConnection did not return after the handshake was answered"
		_, callers := libraryGoroutines(base, ignore)
		out.Dump = dumpOf(callers, 6)
		out.Key = r.key(pos, "", out.Symptom)
		out.Keys = []string{out.Key}
		return out
	}
	if ncE != nil {
		out.NewConnErr = ncE.Error()
		r.logf("NewConnection error: %v", ncE)
	}
	conn := r.conn
	if ncE == nil && conn != nil {
		go func() {
			if cs.NoErrReader {
				// an application that does not look at the error channel before it has
				// closed the connection (the channel is buffered)
				<-r.closeDone
			}
			for e := range conn.ErrorChan() {
				r.mu.Lock()
				if len(r.connErrs) < 10 {
					r.connErrs = append(r.connErrs, e.Error())
				}
				r.mu.Unlock()
			}
			close(r.errClosed)
		}()
		go r.caller(conn)
	} else {
		close(r.errClosed)
		close(r.callerDone)
		close(r.closeDone)
	}

	variant := ""
	peerClosed := fk == fHsClose
	if fk != fHsClose {
		variant, peerClosed = r.script(pos, &out)
	}
	out.Variant = variant

	// ---- the connection ends
	out.CallPendingAtEnd = r.pendingCall()
	endAt := time.Now()
	closeCalled := ncE != nil || conn == nil
	callClose := func() {
		if !closeCalled {
			closeCalled = true
			r.logf("harness calls Close()")
			go r.closer(conn)
		}
	}
	if r.connReset {
		peerClosed = true // the transport failed: the connection has ended without the application's doing
	}
	if cs.EndLocal && !peerClosed {
		r.logf("the harness ends the connection (peer still open)")
		callClose()
	} else if !peerClosed {
		r.peer.Close()
		peerClosed = true
		r.logf("peer closes")
	}

	if gate != nil {
		// the slow consumer catches up only after the connection is gone
		time.Sleep(20 * time.Millisecond)
		releaseGate()
	}

	// ---- oracle: poll until everything has settled or the bound is over
	var leaks, callers []gor
	var hung []string
	assess := func() (symptom string) {
		hung = hung[:0]
		r.mu.Lock()
		for _, c := range r.calls {
			if c.Started && !c.Returned {
				hung = append(hung, c.Name)
			}
		}
		for _, c := range r.extra {
			if !c.Returned {
				hung = append(hung, c.Name)
			}
		}
		r.mu.Unlock()
		leaks, callers = libraryGoroutines(base, ignore)
		out.leakFuncs = out.leakFuncs[:0]
		seenF := map[string]bool{}
		for _, g := range leaks {
			if f := topFunc(g); !seenF[f] {
				seenF[f] = true
				out.leakFuncs = append(out.leakFuncs, f)
			}
		}
		sort.Strings(out.leakFuncs)
		switch {
		case len(hung) > 0:
			return "call-hang=" + strings.Join(hung, ",")
		case !chanClosed(r.closeDone):
			return "close-hang"
		case !chanClosed(r.errClosed):
			return "errchan-open"
		case len(leaks) > 0:
			return "goroutine-leak@" + strings.Join(out.leakFuncs, "+")
		case len(callers) > 0 || !r.callsDone():
			return "winding-down" // the harness's own goroutines are about to finish
		}
		return ""
	}
	// keysOf: the finding keys of a symptom. A pure leak (every call and Close()
	// returned) gives one key per leaked function: the leaked function is the
	// precise locator; which fault ended the connection does not matter.
	keysOf := func(symptom string) []string {
		if strings.HasPrefix(symptom, "goroutine-leak@") {
			var ks []string
			for _, f := range strings.Split(strings.TrimPrefix(symptom, "goroutine-leak@"), "+") {
				ks = append(ks, fmt.Sprintf("%s:goroutine-leak@%s", scn.Proto, f))
			}
			return ks
		}
		return []string{r.key(pos, variant, symptom)}
	}
	allKnown := func(ks []string) bool {
		for _, k := range ks {
			if !isKnown(k) {
				return false
			}
		}
		return true
	}
	sleep := 200 * time.Microsecond
	symptom := ""
	var needClose []string
	needCloseDump := ""
	for {
		el := time.Since(endAt)
		if !closeCalled && (r.callsDone() || el >= bound*6/10) {
			// a peer disconnect / transport error / protocol timeout ends the connection:
			// the pending calls have to return without the application calling Close().
			// Close() is called once they did; if they are still pending after 60 % of
			// the bound it is called anyway, and calls that return only then are reported
			// as call-needs-close
			if !r.callsDone() {
				out.NeededClose = true
				needClose = append([]string(nil), r.pendingNames()...)
				lk, cl := libraryGoroutines(base, ignore)
				needCloseDump = dumpOf(append(cl, lk...), 14)
				r.logf("calls still pending %v after the connection ended: %v", el, needClose)
			}
			callClose()
		}
		symptom = ""
		symptom = assess()
		if symptom == "" {
			break
		}
		if el >= bound {
			break
		}
		if el >= knownBound && closeCalled && symptom != "winding-down" && isKnown != nil && allKnown(keysOf(symptom)) {
			out.BoundMs = int(knownBound / time.Millisecond)
			break
		}
		time.Sleep(sleep)
		if sleep < 20*time.Millisecond {
			sleep *= 2
		}
	}
	if symptom != "" && len(leaks) > 0 {
		// a leak is a goroutine that stays: goroutines that are only passing through
		// (e.g. a timer callback that is about to return) are not in a second
		// snapshot taken a little later
		first := map[int]bool{}
		for _, g := range leaks {
			first[g.ID] = true
		}
		time.Sleep(40 * time.Millisecond)
		symptom = assess()
		kept := leaks[:0]
		for _, g := range leaks {
			if first[g.ID] {
				kept = append(kept, g)
			}
		}
		if len(kept) != len(leaks) {
			leaks = kept
			out.leakFuncs = out.leakFuncs[:0]
			seenF := map[string]bool{}
			for _, g := range leaks {
				if f := topFunc(g); !seenF[f] {
					seenF[f] = true
					out.leakFuncs = append(out.leakFuncs, f)
				}
			}
			sort.Strings(out.leakFuncs)
			if strings.HasPrefix(symptom, "goroutine-leak@") {
				symptom = ""
				if len(leaks) > 0 {
					symptom = "goroutine-leak@" + strings.Join(out.leakFuncs, "+")
				}
			}
		}
	}
	if symptom == "winding-down" {
		symptom = "harness-goroutine-stuck"
	}
	if symptom == "" && len(needClose) > 0 {
		symptom = "call-needs-close=" + strings.Join(needClose, ",")
	}
	out.SettleMs = float64(time.Since(endAt).Microseconds()) / 1000

	r.mu.Lock()
	out.Calls = append(append([]callRec(nil), r.calls...), r.extra...)
	out.ConnErrors = append([]string(nil), r.connErrs...)
	r.mu.Unlock()
	for _, c := range out.Calls {
		if c.Started {
			out.CallsStarted++
		}
	}
	out.Symptom = symptom
	switch {
	case strings.HasPrefix(symptom, "call-hang"):
		out.What = fmt.Sprintf("API call %s has not returned %d ms after the connection ended", strings.Join(hung, ","), out.BoundMs)
	case strings.HasPrefix(symptom, "call-needs-close"):
		out.What = fmt.Sprintf("API call %s was still blocked %d ms after the connection had ended (peer disconnect / transport error / protocol timeout) and returned only when the application called Close()", strings.Join(needClose, ","), out.BoundMs*6/10)
	case symptom == "close-hang":
		out.What = fmt.Sprintf("Connection.Close() has not returned after %d ms", out.BoundMs)
	case symptom == "errchan-open":
		out.What = fmt.Sprintf("ErrorChan() is still open %d ms after Close() returned", out.BoundMs)
	case strings.HasPrefix(symptom, "goroutine-leak"):
		out.What = fmt.Sprintf("%d goroutine(s) started for the connection are still there %d ms after it ended (every call and Close() returned, ErrorChan() closed)", len(leaks), out.BoundMs)
	case symptom != "":
		out.What = "harness: a harness goroutine did not finish"
	}
	if out.Symptom != "" {
		extra := []string{}
		if !chanClosed(r.closeDone) && out.Symptom != "close-hang" {
			extra = append(extra, "Close() has not returned either")
		}
		if !chanClosed(r.errClosed) && out.Symptom != "errchan-open" {
			extra = append(extra, "ErrorChan() still open")
		}
		if len(leaks) > 0 {
			extra = append(extra, fmt.Sprintf("%d library goroutine(s) left: %s", len(leaks), topFrames(leaks)))
		}
		if len(extra) > 0 {
			out.What += "; " + strings.Join(extra, "; ")
		}
		out.Dump = dumpOf(append(append([]gor(nil), callers...), leaks...), 14)
		if strings.HasPrefix(out.Symptom, "call-needs-close") {
			out.Dump = needCloseDump // taken while the calls were still blocked
		}
		out.Keys = keysOf(out.Symptom)
		if out.Symptom == "harness-goroutine-stuck" {
			out.Keys = []string{"harness:goroutine-stuck"}
		}
		out.Key = out.Keys[0]
		out.What = fmt.Sprintf("%s [%s, call %s, fault %s%s at %s, %s]", out.What, scn.Proto, pos.call, cs.Fault, optEq(variant), pos.at, endMode(cs, peerClosed))
	}
	r.mu.Lock()
	out.Trace = append([]string(nil), r.trace...)
	r.mu.Unlock()
	out.wireLog = r.wireLog
	return out
}

func orDash(s string) string {
	if s == "" {
		return "-"
	}
	return s
}

func optEq(v string) string {
	if v == "" {
		return ""
	}
	return "=" + v
}

func endMode(cs caseSpec, peerClosed bool) string {
	if cs.EndLocal && !peerClosed {
		return "ended by local Close()"
	}
	return "ended by the peer closing, then Close()"
}

func (r *runner) key(pos position, variant, symptom string) string {
	call := pos.call
	if call == "" {
		call = "-"
	}
	proto := r.scn.Proto
	if pos.proto != "" {
		proto = pos.proto
	}
	return fmt.Sprintf("%s:%s:%s%s:%s:%s", proto, call, r.cs.Fault, optEq(variant), pos.at, symptom)
}

// predictedKeys lists the keys a case can produce (one per symptom); used to
// shorten the bound for classes that are listed known findings.
func predictedKeyPrefix(scn *scenario, cs caseSpec) (prefix string) {
	fk, _ := faultByName(cs.Fault)
	r := &runner{scn: scn, cs: cs, fault: fk}
	pos := r.position()
	v := r.variantName(pos)
	call := pos.call
	if call == "" {
		call = "-"
	}
	proto := scn.Proto
	if pos.proto != "" {
		proto = pos.proto
	}
	return fmt.Sprintf("%s:%s:%s%s:%s:", proto, call, cs.Fault, optEq(v), pos.at)
}

func chanClosed(ch chan struct{}) bool {
	select {
	case <-ch:
		return true
	default:
		return false
	}
}

// callerDoneOrIdle: the caller goroutine ends when all calls returned (or the
// first error); a call that never returns keeps it alive.
func (r *runner) callerDoneOrIdle() chan struct{} { return r.callerDone }

// callsDone: the caller goroutine has finished and every concurrent call has returned.
func (r *runner) callsDone() bool {
	if !chanClosed(r.callerDone) {
		return false
	}
	r.mu.Lock()
	defer r.mu.Unlock()
	for _, c := range r.extra {
		if !c.Returned {
			return false
		}
	}
	return true
}

func (r *runner) pendingNames() []string {
	r.mu.Lock()
	defer r.mu.Unlock()
	var out []string
	for _, c := range r.calls {
		if c.Started && !c.Returned {
			out = append(out, c.Name)
		}
	}
	for _, c := range r.extra {
		if !c.Returned {
			out = append(out, c.Name)
		}
	}
	return out
}

func (r *runner) pendingCall() bool {
	r.mu.Lock()
	defer r.mu.Unlock()
	for _, c := range r.calls {
		if c.Started && !c.Returned {
			return true
		}
	}
	return false
}

func (r *runner) waitCalls(d time.Duration) {
	select {
	case <-r.callerDone:
	case <-time.After(d):
		r.logf("calls still pending %v after the peer closed", d)
	}
}

// variantName tells which alternative the case's Variant selects (without running).
func (r *runner) variantName(pos position) string {
	switch r.fault {
	case fOtherAdmitted:
		if pos.evIdx >= 0 {
			if o := r.scn.Script[pos.evIdx].Others; len(o) > 0 {
				return o[mod(r.cs.Variant, len(o))].Kind
			}
		}
	case fNotAdmitted:
		var e ev
		if pos.evIdx >= 0 {
			e = r.scn.Script[pos.evIdx]
		}
		b := r.badList(e)
		return b[mod(r.cs.Variant, len(b))].Kind
	case fSurplus:
		if s := r.surplusList(pos); len(s) > 0 {
			return s[mod(r.cs.Variant, len(s))].Kind
		}
	case fGarbage:
		return garbageNames[mod(r.cs.Variant, len(garbageNames))]
	case fTruncSeg:
		return truncNames[mod(r.cs.Variant, len(truncNames))]
	case fConnError:
		return connErrNames[mod(r.cs.Variant, len(connErrNames))]
	case fHsClose:
		v := hsNames[mod(r.cs.Variant, len(hsNames))]
		if r.scn.Mode == modeNtNServer && v != "close" {
			v = "proposal-minus-last-byte"
		}
		return v
	case fFlood:
		if floodWithStop && mod(r.cs.Variant, 2) == 1 && r.scn.StopCall != nil {
			return "stop-in-progress"
		}
	}
	return ""
}

func mod(a, n int) int {
	if n <= 0 {
		return 0
	}
	a %= n
	if a < 0 {
		a += n
	}
	return a
}

// surplusList: what can be sent as a surplus message at a position: a copy of
// the legitimate reply, or any other reply kind of the scenario.
func (r *runner) surplusList(pos position) []wire {
	var out []wire
	seen := map[string]bool{}
	add := func(w wire) {
		if w.Data != nil && !seen[w.Kind] {
			seen[w.Kind] = true
			out = append(out, w)
		}
	}
	if pos.evIdx >= 0 {
		add(r.scn.Script[pos.evIdx].Send)
	} else {
		// end: the last legitimate reply again
		for i := len(r.scn.sends) - 1; i >= 0; i-- {
			add(r.scn.Script[r.scn.sends[i]].Send)
			break
		}
	}
	for _, i := range r.scn.sends {
		add(r.scn.Script[i].Send)
		for _, o := range r.scn.Script[i].Others {
			add(o)
		}
	}
	return out
}

// variantCount is the number of alternatives the Variant field selects from.
func variantCount(scn *scenario, fk faultKind, p int) int {
	r := &runner{scn: scn, cs: caseSpec{Pos: p}, fault: fk}
	pos := r.position()
	switch fk {
	case fOtherAdmitted:
		if pos.evIdx >= 0 {
			return len(scn.Script[pos.evIdx].Others)
		}
	case fNotAdmitted:
		var e ev
		if pos.evIdx >= 0 {
			e = scn.Script[pos.evIdx]
		}
		return len(r.badList(e))
	case fSurplus:
		return len(r.surplusList(pos))
	case fGarbage:
		return len(garbageNames)
	case fTruncSeg:
		return len(truncNames)
	case fConnError:
		return len(connErrNames)
	case fHsClose:
		if scn.Mode == modeNtNServer {
			return 2
		}
		return len(hsNames)
	case fFlood:
		if scn.StopCall != nil && floodWithStop {
			return 2
		}
	}
	return 1
}

// applicable says whether a fault kind can be applied at a position of a scenario.
func applicable(scn *scenario, fk faultKind, p int) bool {
	end := p >= len(scn.sends)
	switch fk {
	case fHsClose:
		return p == -1
	case fOtherAdmitted:
		return p >= 0 && !end && len(scn.Script[scn.sends[p]].Others) > 0
	case fNotAdmitted, fSurplus, fClose, fSilenceClose, fGarbage, fConnError:
		return p >= 0 && (!end || len(scn.sends) > 0 || fk != fSurplus)
	case fSilenceTimeout:
		return scn.Timeouts && p >= 0 && !end
	case fTruncSeg, fMidMsgClose:
		return p >= 0 && !end && len(scn.Script[scn.sends[p]].Send.Data) >= 2
	case fFlood:
		idle, busy := scn.floodLimits()
		if !floodWithStop && scn.callsStop() {
			return false
		}
		return len(scn.Flood) > 0 && p >= 0 && idle > 0 && busy > 0
	}
	return false
}

// script plays the peer's side: the legitimate events up to the fault position,
// the fault, and (for faults that keep the connection) the rest of the
// legitimate script. It returns the variant label and whether the peer closed.
func (r *runner) script(pos position, out *outcome) (variant string, peerClosed bool) {
	s := r.scn
	cs := r.cs
	const reqWait = 3 * time.Second
	variant = r.variantName(pos)
	linger := func() {
		// give the library time to react; return early when it hangs up
		d := time.Duration(cs.LingerUs) * time.Microsecond
		if d > 0 {
			r.peer.WaitClosed(d)
		}
	}
	inject := func(e ev) (stop bool) {
		out.Injected = true
		switch r.fault {
		case fOtherAdmitted:
			if len(e.Others) == 0 {
				// a stale replay: the table no longer has an alternative here
				r.logf("no other admitted kind at this position any more: legitimate reply sent")
				r.send(e.Send)
				return false
			}
			w := e.Others[mod(cs.Variant, len(e.Others))]
			r.logf("FAULT other-admitted: %s instead of %s", w.Kind, e.Send.Kind)
			r.send(w)
			return false
		case fNotAdmitted:
			b := r.badList(e)
			w := b[mod(cs.Variant, len(b))]
			r.logf("FAULT not-admitted: %s instead of %s", w.Kind, e.Send.Kind)
			r.send(w)
			return false
		case fSurplus:
			sl := r.surplusList(pos)
			w := sl[mod(cs.Variant, len(sl))]
			if e.Send.Data != nil {
				r.logf("FAULT surplus: %s then a surplus %s", e.Send.Kind, w.Kind)
				if cs.Cut%2 == 0 {
					// both in one segment
					seg := rawpeer.Seg{ProtoID: r.curPID, Response: r.curResp, Payload: append(append([]byte(nil), e.Send.Data...), w.Data...)}
					if len(seg.Payload) <= 0xffff {
						_ = r.peer.Send(seg)
						return false
					}
				}
				r.send(e.Send)
			} else {
				r.logf("FAULT surplus: %s after the conversation", w.Kind)
			}
			r.send(w)
			return false
		case fTruncSeg:
			d := e.Send.Data
			cut := 1 + mod(cs.Cut, 1000)*(len(d)-1)/1000
			if cut >= len(d) {
				cut = len(d) - 1
			}
			full := rawpeer.Frame(rawpeer.Seg{ProtoID: r.curPID, Response: r.curResp, Payload: d})
			hdrCut := 8 + cut
			switch truncNames[mod(cs.Variant, len(truncNames))] {
			case "header-mid":
				hdrCut = 1 + mod(cs.Cut, 6) // inside the 8-byte segment header
			case "header-7of8":
				hdrCut = 7
			case "header-only":
				hdrCut = 8
			case "header+1":
				hdrCut = 9
			case "all-but-last-byte":
				hdrCut = len(full) - 1
			}
			r.logf("FAULT truncated segment (%s): %d of %d bytes of the segment carrying %s, then close", truncNames[mod(cs.Variant, len(truncNames))], hdrCut, len(full), e.Send.Kind)
			_ = r.peer.SendBytes(full[:hdrCut])
			r.peer.Close()
			peerClosed = true
			return true
		case fMidMsgClose:
			d := e.Send.Data
			cut := 1 + mod(cs.Cut, 1000)*(len(d)-1)/1000
			if cut >= len(d) {
				cut = len(d) - 1
			}
			r.logf("FAULT mid-message close: first segment with %d of %d bytes of %s, then close", cut, len(d), e.Send.Kind)
			_ = r.peer.Send(rawpeer.Seg{ProtoID: r.curPID, Response: r.curResp, Payload: d[:cut]})
			if cs.LingerUs > 0 {
				time.Sleep(time.Duration(cs.LingerUs) * time.Microsecond)
			}
			r.peer.Close()
			peerClosed = true
			return true
		case fFlood:
			// the legitimate reply (if one is due), then valid messages whose total
			// exceeds the pending-byte limit; each one alone fits the smallest limit
			if r.gate != nil {
				callbackGate.Store(r.gate) // from now on the user callbacks are slow
			}
			idle, busy := s.floodLimits()
			limit := busy
			if e.Send.Data == nil {
				limit = idle // after the conversation: the client is idle
			} else {
				r.send(e.Send)
			}
			// the largest candidate of which at least two fit the limit (big messages get
			// past the receive queue's message-count backpressure to the byte limit)
			w := s.Flood[0].wire
			for _, c := range s.Flood {
				if c.IdleOnly && e.Send.Data != nil {
					continue
				}
				if len(c.Data) <= limit/2 && len(c.Data) > len(w.Data) {
					w = c.wire
				}
			}
			n := limit/len(w.Data) + 2
			r.logf("FAULT flood: %d x %s of %d bytes (limit %d)", n, w.Kind, len(w.Data), limit)
			sent := make(chan struct{})
			go func() {
				defer close(sent)
				for i := 0; i < n; i++ {
					segs := rawpeer.SplitPayload(r.curPID, r.curResp, w.Data, r.cs.SegMax*1000)
					if r.peer.Send(segs...) != nil {
						return
					}
				}
			}()
			select {
			case <-sent:
			case <-time.After(300 * time.Millisecond):
				r.logf("flood: the pipe is full (backpressure), going on")
			}
			// let the library take what it is going to take off the wire
			last, stable := -1, 0
			for i := 0; i < 100 && stable < 4; i++ {
				time.Sleep(10 * time.Millisecond)
				if u := r.cb.Unread(); u == last {
					stable++
				} else {
					last, stable = u, 0
				}
			}
			r.logf("flood: %d bytes still unread in the pipe", last)
			if floodWithStop && mod(cs.Variant, 2) == 1 && s.StopCall != nil && r.conn != nil {
				// back-pressure and a Stop() in progress when the connection ends
				r.extraCall(*s.StopCall, r.conn)
				time.Sleep(2 * time.Millisecond)
			}
			return true // nothing more is sent; the connection ends next (peer close or local Close)
		case fConnError:
			v := connErrNames[mod(cs.Variant, len(connErrNames))]
			r.logf("FAULT transport error: %s", v)
			switch v {
			case "read-reset":
				r.fc.failReads()
				r.connReset = true
				return true
			case "read-reset+peer-close":
				r.fc.failReads()
				r.peer.Close()
				r.connReset = true
				peerClosed = true
				return true
			case "write-epipe":
				// the library's next write fails; the legitimate script goes on (a reply may
				// still arrive), reads keep working until the connection ends
				r.fc.failWrites()
				if e.Send.Data != nil {
					r.send(e.Send)
				}
				return false
			}
			return true
		case fSilenceTimeout:
			// nothing is sent and the peer stays connected: the library's own state
			// timeout (250 ms in these scenarios) has to end the connection
			r.logf("FAULT silence without close (waiting for the library's timeout)")
			if r.peer.WaitClosed(4 * time.Second) {
				r.logf("the library closed the connection by itself")
				r.connReset = true // ended without the application's doing
			} else {
				r.logf("the library did not close the connection within 4 s")
			}
			return true
		case fClose:
			r.logf("FAULT close")
			r.peer.Close()
			peerClosed = true
			return true
		case fSilenceClose:
			r.logf("FAULT silence for %d us, then close", cs.LingerUs)
			time.Sleep(time.Duration(cs.LingerUs) * time.Microsecond)
			r.peer.Close()
			peerClosed = true
			return true
		case fGarbage:
			noise := append([]byte(nil), cs.Noise...)
			if len(noise) == 0 {
				noise = []byte{0xde, 0xad, 0xbe, 0xef, 0x00, 0xff, 0x13, 0x37, 0x42}
			}
			// framed noise must not be the prefix of a well-formed item (else it is just
			// a delayed legitimate message): start it with a reserved head byte
			framedNoise := append([]byte{[]byte{0xff, 0x1c, 0x1d, 0x1e, 0x3e, 0x5c, 0xfc}[int(noise[0])%7]}, noise...)
			g := garbageNames[mod(cs.Variant, len(garbageNames))]
			r.logf("FAULT garbage: %s", g)
			switch g {
			case "raw-bytes":
				_ = r.peer.SendBytes(noise)
			case "framed-noise":
				_ = r.peer.Send(rawpeer.Seg{ProtoID: r.curPID, Response: r.curResp, Payload: framedNoise})
			case "framed-bad-cbor":
				_ = r.peer.Send(rawpeer.Seg{ProtoID: r.curPID, Response: r.curResp, Payload: []byte{0x82, 0x1c, 0xff, 0xff}})
			case "framed-nonarray":
				_ = r.peer.Send(rawpeer.Seg{ProtoID: r.curPID, Response: r.curResp, Payload: xcbor.M(xcbor.U(1), xcbor.T("x")).Encode()})
			case "zero-length-segment":
				_ = r.peer.Send(rawpeer.Seg{ProtoID: r.curPID, Response: r.curResp, Payload: nil})
			case "unknown-protocol-id":
				_ = r.peer.Send(rawpeer.Seg{ProtoID: 0x3abc, Response: r.curResp, Payload: xcbor.A(xcbor.U(0)).Encode()})
			case "wrong-direction":
				_ = r.peer.Send(rawpeer.Seg{ProtoID: r.curPID, Response: !r.curResp, Payload: xcbor.A(xcbor.U(0)).Encode()})
			case "framed-65535-incomplete":
				// a segment of the maximum payload length carrying the beginning of an item
				// that never completes ([99, bytes(1 MiB) ...)
				pl := make([]byte, 0xffff)
				copy(pl, []byte{0x82, 0x18, 0x63, 0x5a, 0x00, 0x10, 0x00, 0x00})
				_ = r.peer.Send(rawpeer.Seg{ProtoID: r.curPID, Response: r.curResp, Payload: pl})
			}
			return false
		}
		return false
	}

	for i, e := range s.Script {
		r.stream(e)
		if e.PauseUs > 0 {
			time.Sleep(time.Duration(e.PauseUs) * time.Microsecond)
			continue
		}
		if e.Recv >= 0 {
			wait := reqWait
			if out.Injected {
				// after the fault the library may legitimately never send another
				// request; the peer does not wait long for one
				wait = 150*time.Millisecond + time.Duration(cs.LingerUs)*time.Microsecond
			}
			if !r.awaitOpt(e.Recv, wait, e.Optional) {
				if !out.Injected {
					out.Desync = true
				}
				linger()
				return variant, peerClosed
			}
			continue
		}
		if i == pos.evIdx {
			if inject(e) {
				return variant, peerClosed
			}
			continue // faults that keep the connection: the legitimate script goes on
		}
		r.wireLog = append(r.wireLog, wireRec{FromLib: false, EvIdx: i, Data: e.Send.Data})
		r.send(e.Send)
	}
	if r.fault == fNone {
		select {
		case <-r.callerDone:
		case <-time.After(reqWait):
		}
	}
	r.stream(ev{})
	if pos.at == "end" {
		// let the last call finish before the fault, so that the position is really "after the conversation"
		select {
		case <-r.callerDone:
		case <-time.After(reqWait):
		}
		if inject(ev{Recv: -1}) {
			return variant, peerClosed
		}
	}
	linger()
	return variant, peerClosed
}
