package codec

import (
	"bytes"
	"fmt"
	"math/big"
	"net"
	"reflect"
)

// diffExported compares two values of the library's message types and returns
// a description of the first difference ("" when equal).
//
// Equality is the one the property statement talks about ("decodes back to an
// equal message"): same Go type, and every *exported* field equal, recursively.
// Unexported fields (stored-CBOR caches, decoder bookkeeping) are ignored; the
// accessor methods that expose unexported state are compared separately by the
// message table. Two things are deliberately treated as equal because no CBOR
// encoding distinguishes them and no caller can rely on the difference:
// a nil and an empty slice/map, and (only inside fields declared as `any`) two
// integers of different Go integer types with the same value. net.IP values
// are compared with IP.Equal (4-byte and 16-byte forms of one address).
func diffExported(a, b any) string {
	return diffValue(reflect.ValueOf(a), reflect.ValueOf(b), "", false)
}

var (
	typeNetIP = reflect.TypeOf(net.IP{})
)

func isIntKind(k reflect.Kind) bool {
	switch k {
	case reflect.Int, reflect.Int8, reflect.Int16, reflect.Int32, reflect.Int64,
		reflect.Uint, reflect.Uint8, reflect.Uint16, reflect.Uint32, reflect.Uint64:
		return true
	}
	return false
}

func bigOf(v reflect.Value) *big.Int {
	switch v.Kind() {
	case reflect.Int, reflect.Int8, reflect.Int16, reflect.Int32, reflect.Int64:
		return big.NewInt(v.Int())
	default:
		return new(big.Int).SetUint64(v.Uint())
	}
}

func lenOrZero(v reflect.Value) int {
	if !v.IsValid() {
		return 0
	}
	switch v.Kind() {
	case reflect.Slice, reflect.Map:
		if v.IsNil() {
			return 0
		}
		return v.Len()
	case reflect.Array, reflect.String:
		return v.Len()
	}
	return -1
}

// loose: we are inside a value held by an interface (a field declared `any`).
func diffValue(a, b reflect.Value, path string, loose bool) string {
	// values held in interfaces (elements of []any, `any` fields) are compared
	// by their dynamic content
	for a.IsValid() && a.Kind() == reflect.Interface && !a.IsNil() {
		a, loose = a.Elem(), true
	}
	for b.IsValid() && b.Kind() == reflect.Interface && !b.IsNil() {
		b, loose = b.Elem(), true
	}
	if !a.IsValid() || !b.IsValid() {
		if a.IsValid() != b.IsValid() {
			// nil interface vs. empty container is still a difference of kind
			return fmt.Sprintf("%s: one side is nil (%v vs %v)", path, a.IsValid(), b.IsValid())
		}
		return ""
	}
	if a.Type() != b.Type() {
		if loose && isIntKind(a.Kind()) && isIntKind(b.Kind()) {
			if bigOf(a).Cmp(bigOf(b)) != 0 {
				return fmt.Sprintf("%s: %v != %v", path, bigOf(a), bigOf(b))
			}
			return ""
		}
		if loose && (a.Kind() == reflect.Slice || a.Kind() == reflect.Array) &&
			(b.Kind() == reflect.Slice || b.Kind() == reflect.Array) {
			// e.g. []uint16 given by the caller vs []any produced by the decoder
			if lenOrZero(a) != lenOrZero(b) {
				return fmt.Sprintf("%s: length %d != %d", path, lenOrZero(a), lenOrZero(b))
			}
			for i := 0; i < lenOrZero(a); i++ {
				if d := diffValue(a.Index(i), b.Index(i), fmt.Sprintf("%s[%d]", path, i), true); d != "" {
					return d
				}
			}
			return ""
		}
		return fmt.Sprintf("%s: Go type %s != %s", path, a.Type(), b.Type())
	}
	if a.Type() == typeNetIP && a.CanInterface() && b.CanInterface() {
		if !a.Interface().(net.IP).Equal(b.Interface().(net.IP)) {
			return fmt.Sprintf("%s: IP %v != %v", path, a.Interface(), b.Interface())
		}
		return ""
	}
	switch a.Kind() {
	case reflect.Pointer:
		if a.IsNil() || b.IsNil() {
			if a.IsNil() != b.IsNil() {
				return fmt.Sprintf("%s: nil pointer on one side", path)
			}
			return ""
		}
		return diffValue(a.Elem(), b.Elem(), path, loose)
	case reflect.Interface:
		if a.IsNil() || b.IsNil() {
			if a.IsNil() != b.IsNil() {
				return fmt.Sprintf("%s: nil interface on one side (%v vs %v)", path, a, b)
			}
			return ""
		}
		return diffValue(a.Elem(), b.Elem(), path, true)
	case reflect.Struct:
		t := a.Type()
		for i := 0; i < t.NumField(); i++ {
			f := t.Field(i)
			if f.PkgPath != "" && !(f.Anonymous && f.Type.Kind() == reflect.Struct) {
				continue // unexported (caches, bookkeeping)
			}
			// anonymous structs are descended into even when their type name is
			// unexported: their exported fields are promoted (simpleQueryBase.Type)
			if d := diffValue(a.Field(i), b.Field(i), path+"."+f.Name, loose); d != "" {
				return d
			}
		}
		return ""
	case reflect.Slice, reflect.Array:
		if a.Kind() == reflect.Slice && a.Type().Elem().Kind() == reflect.Uint8 {
			ab, bb := a.Bytes(), b.Bytes()
			if !bytes.Equal(ab, bb) {
				return fmt.Sprintf("%s: bytes %x != %x", path, clipB(ab), clipB(bb))
			}
			return ""
		}
		if lenOrZero(a) != lenOrZero(b) {
			return fmt.Sprintf("%s: length %d != %d", path, lenOrZero(a), lenOrZero(b))
		}
		for i := 0; i < lenOrZero(a); i++ {
			if d := diffValue(a.Index(i), b.Index(i), fmt.Sprintf("%s[%d]", path, i), loose); d != "" {
				return d
			}
		}
		return ""
	case reflect.Map:
		if lenOrZero(a) != lenOrZero(b) {
			return fmt.Sprintf("%s: map size %d != %d", path, lenOrZero(a), lenOrZero(b))
		}
		if lenOrZero(a) == 0 {
			return ""
		}
		iter := a.MapRange()
		for iter.Next() {
			bv := b.MapIndex(iter.Key())
			if !bv.IsValid() {
				return fmt.Sprintf("%s: key %v missing", path, iter.Key())
			}
			if d := diffValue(iter.Value(), bv, fmt.Sprintf("%s[%v]", path, iter.Key()), loose); d != "" {
				return d
			}
		}
		return ""
	case reflect.Bool:
		if a.Bool() != b.Bool() {
			return fmt.Sprintf("%s: %v != %v", path, a.Bool(), b.Bool())
		}
	case reflect.String:
		if a.String() != b.String() {
			return fmt.Sprintf("%s: %q != %q", path, a.String(), b.String())
		}
	case reflect.Float32, reflect.Float64:
		if a.Float() != b.Float() {
			return fmt.Sprintf("%s: %v != %v", path, a.Float(), b.Float())
		}
	default:
		if isIntKind(a.Kind()) {
			if bigOf(a).Cmp(bigOf(b)) != 0 {
				return fmt.Sprintf("%s: %v != %v", path, bigOf(a), bigOf(b))
			}
			return ""
		}
		return fmt.Sprintf("%s: unsupported kind %s", path, a.Kind())
	}
	return ""
}

func clipB(b []byte) []byte {
	if len(b) > 48 {
		return b[:48]
	}
	return b
}
