package codec

import (
	"encoding/binary"
	"fmt"
	"sync"

	lcommon "github.com/blinklabs-io/gouroboros/ledger/common"
	"pgregory.net/rapid"

	"verif/harness/internal/fixtures"
	"verif/harness/internal/xcbor"
)

// ---- seeds: valid encodings cut out of the fixtures with xcbor ----------------

type seedClass int

const (
	seedBlock seedClass = iota
	seedHeader
	seedTx
	seedTxBody
	seedWitness
	seedOutput
	seedAddress
	seedMessage
	seedGeneric
	seedAddressStr  // bech32 / base58 text of fixture addresses
	seedAddressCbor // fixture addresses as CBOR byte strings
	nSeedClasses
)

func (c seedClass) String() string {
	return [...]string{"block", "header", "tx", "txbody", "witness", "output", "address", "message", "generic", "address-string", "address-cbor"}[c]
}

type seed struct {
	Class seedClass
	Era   uint // fixtures.Type* for ledger seeds
	Name  string
	Bytes []byte
}

const c02MaxInput = 64 << 10

var (
	seedOnce sync.Once
	seedsBy  [nSeedClasses][]seed
)

func txTypeOfBlock(bt uint) uint {
	// ledger.TxType* = era ids 0..7 (byron..dijkstra); block types 0,1 are byron
	if bt <= 1 {
		return 0
	}
	return bt - 1
}

func loadSeeds() {
	seedOnce.Do(func() {
		add := func(c seedClass, era uint, name string, b []byte) {
			if len(b) == 0 || len(b) > c02MaxInput {
				return
			}
			seedsBy[c] = append(seedsBy[c], seed{c, era, name, append([]byte(nil), b...)})
		}
		for _, fb := range fixtures.Blocks() {
			root, _, err := xcbor.Parse(fb.Bytes)
			if err != nil || root.Kind != xcbor.Array || len(root.Items) == 0 {
				continue
			}
			add(seedBlock, fb.Type, fb.Name, fb.Bytes)
			add(seedHeader, fb.Type, fb.Name+"/header", root.Items[0].Src(fb.Bytes))
			if fb.Type <= 1 || len(root.Items) < 4 {
				// Byron: body = [txPayload, ssc, dlg, upd]; txPayload = [[tx, [witnesses]]...]
				if fb.Type == 1 && len(root.Items) >= 2 && root.Items[1].Kind == xcbor.Array && len(root.Items[1].Items) > 0 {
					for i, tw := range root.Items[1].Items[0].Items {
						if i >= 6 {
							break
						}
						add(seedTx, 0, fmt.Sprintf("%s/tx%d", fb.Name, i), tw.Src(fb.Bytes))
						if tw.Kind == xcbor.Array && len(tw.Items) > 0 {
							tx := tw.Items[0]
							if tx.Kind == xcbor.Array && len(tx.Items) >= 2 {
								for j, o := range tx.Items[1].Items {
									if j < 3 {
										add(seedOutput, 0, fmt.Sprintf("%s/tx%d/out%d", fb.Name, i, j), o.Src(fb.Bytes))
									}
								}
							}
						}
					}
				}
				continue
			}
			bodies, wits := root.Items[1], root.Items[2]
			for i, body := range bodies.Items {
				if i >= 8 {
					break
				}
				tt := txTypeOfBlock(fb.Type)
				bsrc := body.Src(fb.Bytes)
				add(seedTxBody, tt, fmt.Sprintf("%s/body%d", fb.Name, i), bsrc)
				if i < len(wits.Items) {
					w := wits.Items[i]
					add(seedWitness, tt, fmt.Sprintf("%s/wit%d", fb.Name, i), w.Src(fb.Bytes))
					var tx *xcbor.Node
					if fb.Type >= fixtures.TypeAlonzo {
						tx = xcbor.A(xcbor.Raw(bsrc), xcbor.Raw(w.Src(fb.Bytes)), xcbor.Bool(true), xcbor.Null())
					} else {
						tx = xcbor.A(xcbor.Raw(bsrc), xcbor.Raw(w.Src(fb.Bytes)), xcbor.Null())
					}
					add(seedTx, tt, fmt.Sprintf("%s/tx%d", fb.Name, i), tx.Encode())
				}
				if outs := body.MapGet(1); outs != nil {
					for j, o := range outs.Items {
						if j >= 3 {
							break
						}
						add(seedOutput, tt, fmt.Sprintf("%s/body%d/out%d", fb.Name, i, j), o.Src(fb.Bytes))
						var a *xcbor.Node
						if o.Kind == xcbor.Array && len(o.Items) > 0 {
							a = o.Items[0]
						} else if o.Kind == xcbor.Map {
							a = o.MapGet(0)
						}
						if a != nil && a.Kind == xcbor.Bytes {
							add(seedAddress, tt, fmt.Sprintf("%s/body%d/addr%d", fb.Name, i, j), a.Payload())
						}
					}
				}
			}
		}
		add(seedTx, 7, "dijkstra_tx", fixtures.DijkstraTx())
		// text and CBOR forms of the fixture addresses (rendered by the library
		// from valid fixture bytes; they are seed material, not oracle)
		for i, a := range seedsBy[seedAddress] {
			if i >= 40 {
				break
			}
			add(seedAddressCbor, a.Era, a.Name+"/cbor", xcbor.B(a.Bytes).Encode())
			if addr, err := lcommon.NewAddressFromBytes(a.Bytes); err == nil {
				add(seedAddressStr, a.Era, a.Name+"/text", []byte(addr.String()))
			}
		}
		// Leios endorser blocks in both accepted layouts
		h1, h2 := make([]byte, 32), make([]byte, 32)
		h1[0], h2[31] = 1, 2
		refs := xcbor.M(xcbor.B(h1), xcbor.U(100), xcbor.B(h2), xcbor.U(65535))
		add(seedGeneric, 0, "leios-eb-wrapped", xcbor.A(refs).Encode())
		add(seedGeneric, 0, "leios-eb-bare", refs.Encode())
		// tagged-sum lists for DecodeById / DecodeIdFromList
		add(seedGeneric, 0, "idlist-0", xcbor.A(xcbor.U(0), xcbor.U(5), xcbor.B([]byte{1})).Encode())
		add(seedGeneric, 0, "idlist-1", xcbor.A(xcbor.U(1), xcbor.B([]byte{1, 2}), xcbor.A(), xcbor.M(xcbor.U(1), xcbor.U(2)), xcbor.U(9)).Encode())
		add(seedGeneric, 0, "idlist-1-long-head", func() []byte {
			n := xcbor.A(xcbor.U(1), xcbor.B([]byte{1, 2}), xcbor.A(xcbor.U(3), xcbor.B(h1)), xcbor.M(), xcbor.U(9))
			n.Width = 2
			return n.Encode()
		}())
		add(seedGeneric, 0, "idlist-2-map", xcbor.A(xcbor.U(2)).Encode())
		// generic CBOR values
		for i, n := range []*xcbor.Node{
			xcbor.U(0), xcbor.U(1 << 40), xcbor.I(-500), xcbor.B([]byte("hello")), xcbor.T("text"),
			xcbor.A(xcbor.U(1), xcbor.A(xcbor.U(2), xcbor.U(3)), xcbor.M(xcbor.U(1), xcbor.T("a"), xcbor.B([]byte{1}), xcbor.A())),
			xcbor.M(xcbor.U(0), xcbor.A(xcbor.U(1), xcbor.B(make([]byte, 28))), xcbor.U(1), xcbor.Tg(258, xcbor.A(xcbor.U(1), xcbor.U(2)))),
			xcbor.Tg(121, xcbor.AI(xcbor.U(1), xcbor.Tg(122, xcbor.A()), xcbor.B([]byte{1, 2}))),
			xcbor.Tg(24, xcbor.B(xcbor.A(xcbor.U(1), xcbor.U(2)).Encode())),
			xcbor.Tg(30, xcbor.A(xcbor.U(1), xcbor.U(3))),
			xcbor.Tg(2, xcbor.B([]byte{1, 0, 0, 0, 0, 0, 0, 0, 0})),
			xcbor.Tg(3, xcbor.B([]byte{1, 0, 0, 0, 0, 0, 0, 0, 0})),
			xcbor.Tg(102, xcbor.A(xcbor.U(7), xcbor.A(xcbor.U(1)))),
			xcbor.A(xcbor.U(0), xcbor.B(make([]byte, 28))),                                                                  // native script pubkey
			xcbor.A(xcbor.U(1), xcbor.A(xcbor.A(xcbor.U(0), xcbor.B(make([]byte, 28))), xcbor.A(xcbor.U(4), xcbor.U(100)))), // all[...]
			xcbor.A(xcbor.Bool(true), xcbor.Null(), &xcbor.Node{Kind: xcbor.Simple, Arg: 0x3ff0000000000000, Width: 8}),
		} {
			add(seedGeneric, 0, fmt.Sprintf("generic%d", i), n.Encode())
		}
	})
}

// ---- mutations ------------------------------------------------------------------

type mutation struct {
	Kind string
	Desc string
}

var inflatedCounts = []uint64{
	1 << 32, 1<<32 + 1, 1<<63 - 1, 1 << 63, 1<<64 - 1, // 9-byte heads beyond any int32
	1<<31 - 1, 1<<31 - 2, 1 << 30, // pass "fits in int32" checks
	10_000_000, 10_000_001, 131072, 131073, 1 << 24, 65536, 70000, // around the configured limits
}

func head9(major byte, v uint64) []byte {
	out := make([]byte, 9)
	out[0] = major<<5 | 27
	binary.BigEndian.PutUint64(out[1:], v)
	return out
}

func head5(major byte, v uint32) []byte {
	out := make([]byte, 5)
	out[0] = major<<5 | 26
	binary.BigEndian.PutUint32(out[1:], v)
	return out
}

func headLen(n *xcbor.Node) int {
	if n.Indef {
		return 1
	}
	return 1 + n.Width
}

func majorOf(k xcbor.Kind) byte {
	return [...]byte{0, 1, 2, 3, 4, 5, 6, 7}[k]
}

func clipTo(b []byte, max int) []byte {
	if len(b) > max {
		return b[:max]
	}
	return b
}

// mutate applies one structure-aware mutation to data (well-formed or not;
// when it does not parse, byte-level mutations are used). All choices are
// rapid draws. Returns the mutated bytes and a description.
func mutate(rt *rapid.T, data []byte, maxLen int) ([]byte, mutation) {
	root, _, err := xcbor.Parse(data)
	var nodes []*xcbor.Node
	if err == nil {
		nodes = root.Nodes()
	}
	pick := func(pred func(*xcbor.Node) bool) *xcbor.Node {
		var c []*xcbor.Node
		for _, n := range nodes {
			if pred == nil || pred(n) {
				c = append(c, n)
			}
		}
		if len(c) == 0 {
			return nil
		}
		// bias to the outermost few nodes half of the time (block/body/bodies arrays)
		if len(c) > 8 && rapid.Bool().Draw(rt, "outer") {
			return c[rapid.IntRange(0, 7).Draw(rt, "nodeOuter")]
		}
		return c[rapid.IntRange(0, len(c)-1).Draw(rt, "node")]
	}
	splice := func(n *xcbor.Node, repl []byte) []byte {
		out := make([]byte, 0, len(data)+len(repl))
		out = append(out, data[:n.Start]...)
		out = append(out, repl...)
		out = append(out, data[n.End:]...)
		return out
	}
	replaceHead := func(n *xcbor.Node, head []byte) []byte {
		hl := headLen(n)
		out := make([]byte, 0, len(data)+len(head))
		out = append(out, data[:n.Start]...)
		out = append(out, head...)
		out = append(out, data[n.Start+hl:]...)
		return out
	}
	kind := rapid.IntRange(0, 15).Draw(rt, "mutKind")
	if nodes == nil && kind < 9 {
		kind = 9 + kind%3
	}
	switch kind {
	case 0: // truncation at a node boundary
		n := pick(nil)
		cut := n.Start
		if rapid.Bool().Draw(rt, "cutEnd") {
			cut = n.End
		}
		if n.Start+headLen(n) <= len(data) && rapid.IntRange(0, 3).Draw(rt, "cutHead") == 0 {
			cut = n.Start + headLen(n) // right after a head: the claimed content is missing
		}
		if cut == len(data) && cut > 0 {
			cut--
		}
		return append([]byte(nil), data[:cut]...), mutation{"truncate", fmt.Sprintf("cut at %d of %d (%s node)", cut, len(data), n.Kind)}
	case 1: // length-field inflation
		n := pick(func(n *xcbor.Node) bool {
			return !n.Indef && (n.Kind == xcbor.Array || n.Kind == xcbor.Map || n.Kind == xcbor.Bytes || n.Kind == xcbor.Text)
		})
		if n == nil {
			break
		}
		v := rapid.SampledFrom(inflatedCounts).Draw(rt, "claimed")
		var h []byte
		if v <= 0xffffffff && rapid.Bool().Draw(rt, "head5") {
			h = head5(majorOf(n.Kind), uint32(v))
		} else {
			h = head9(majorOf(n.Kind), v)
		}
		return replaceHead(n, h), mutation{"inflate", fmt.Sprintf("%s at %d claims %d", n.Kind, n.Start, v)}
	case 2: // deep nesting around a node
		n := pick(nil)
		depth := rapid.SampledFrom([]int{1, 2, 8, 30, 64, 200, 255, 256, 257, 300, 1000, 5000}).Draw(rt, "depth")
		var wrap, unwrap []byte
		switch rapid.IntRange(0, 4).Draw(rt, "wrapKind") {
		case 0:
			wrap = []byte{0x81}
		case 1:
			wrap, unwrap = []byte{0x9f}, []byte{0xff}
		case 2:
			wrap = []byte{0xd8, 0x18}
			if rapid.Bool().Draw(rt, "tag121") {
				wrap = []byte{0xd8, 0x79}
			}
		case 3:
			wrap = []byte{0xa1, 0x00}
		default:
			wrap, unwrap = []byte{0xbf, 0x00}, []byte{0xff}
		}
		if depth*(len(wrap)+len(unwrap)) > maxLen {
			depth = maxLen / (len(wrap) + len(unwrap) + 1)
		}
		var repl []byte
		for i := 0; i < depth; i++ {
			repl = append(repl, wrap...)
		}
		repl = append(repl, data[n.Start:n.End]...)
		for i := 0; i < depth; i++ {
			repl = append(repl, unwrap...)
		}
		return clipTo(splice(n, repl), maxLen), mutation{"nest", fmt.Sprintf("node at %d wrapped %d times in %x", n.Start, depth, wrap)}
	case 3: // tag substitution / insertion / removal
		tagNo := rapid.SampledFrom([]uint64{0, 1, 2, 3, 4, 5, 24, 30, 101, 102, 121, 127, 258, 259, 1280, 1400, 55799, 1<<64 - 1}).Draw(rt, "tagNo")
		if t := pick(func(n *xcbor.Node) bool { return n.Kind == xcbor.Tag }); t != nil && rapid.Bool().Draw(rt, "retag") {
			if rapid.IntRange(0, 3).Draw(rt, "untag") == 0 {
				return splice(t, data[t.Items[0].Start:t.End]), mutation{"tag", fmt.Sprintf("tag %d at %d removed", t.Arg, t.Start)}
			}
			h := xcbor.Tg(tagNo, xcbor.U(0)).Encode()
			return replaceHead(t, h[:len(h)-1]), mutation{"tag", fmt.Sprintf("tag %d at %d -> %d", t.Arg, t.Start, tagNo)}
		}
		n := pick(nil)
		h := xcbor.Tg(tagNo, xcbor.U(0)).Encode()
		return splice(n, append(h[:len(h)-1:len(h)-1], data[n.Start:n.End]...)), mutation{"tag", fmt.Sprintf("tag %d put before %s at %d", tagNo, n.Kind, n.Start)}
	case 4: // major-type confusion: same argument, other major type
		n := pick(func(n *xcbor.Node) bool { return !n.Indef && n.Kind != xcbor.Simple })
		if n == nil {
			break
		}
		m := byte(rapid.IntRange(0, 7).Draw(rt, "major"))
		out := append([]byte(nil), data...)
		out[n.Start] = m<<5 | data[n.Start]&0x1f
		return out, mutation{"majortype", fmt.Sprintf("%s at %d -> major %d", n.Kind, n.Start, m)}
	case 5: // replace a node by a small item of another type
		n := pick(nil)
		repl := rapid.SampledFrom([][]byte{{0x00}, {0x20}, {0x40}, {0x60}, {0x80}, {0xa0}, {0xf6}, {0xf5}, {0xf7}, {0xf9, 0x7e, 0x00}, {0xfb, 0x7f, 0xf0, 0, 0, 0, 0, 0, 0}, {0x1b, 0xff, 0xff, 0xff, 0xff, 0xff, 0xff, 0xff, 0xff}, {0x3b, 0xff, 0xff, 0xff, 0xff, 0xff, 0xff, 0xff, 0xff}, {0x9f, 0xff}, {0xbf, 0xff}, {0x5f, 0xff}, {0xe0}, {0xf8, 0x10}, {0xff}}).Draw(rt, "repl")
		return splice(n, repl), mutation{"replace", fmt.Sprintf("%s at %d -> %x", n.Kind, n.Start, repl)}
	case 6: // duplicate map keys
		m := pick(func(n *xcbor.Node) bool { return n.Kind == xcbor.Map && len(n.Items) >= 2 })
		if m == nil {
			break
		}
		i := 2 * rapid.IntRange(0, len(m.Items)/2-1).Draw(rt, "pair")
		k, v := m.Items[i], m.Items[i+1]
		pair := data[k.Start:v.End]
		if m.Indef {
			// insert the pair once more right after itself
			out := append([]byte(nil), data[:v.End]...)
			out = append(out, pair...)
			out = append(out, data[v.End:]...)
			return clipTo(out, maxLen), mutation{"dupkey", fmt.Sprintf("pair %d of indefinite map at %d duplicated", i/2, m.Start)}
		}
		// definite: overwrite the next pair's key with this key when there is one, else bump the count
		if i+2 < len(m.Items) {
			nk := m.Items[i+2]
			out := append([]byte(nil), data[:nk.Start]...)
			out = append(out, data[k.Start:k.End]...)
			out = append(out, data[nk.End:]...)
			return out, mutation{"dupkey", fmt.Sprintf("key %d of map at %d copied over key %d", i/2, m.Start, i/2+1)}
		}
		cnt := uint64(len(m.Items)/2 + 1)
		out := append([]byte(nil), data[:m.Start]...)
		out = append(out, appendHeadFor(5, cnt, m.Width)...)
		out = append(out, data[m.Start+headLen(m):v.End]...)
		out = append(out, pair...)
		out = append(out, data[v.End:]...)
		return clipTo(out, maxLen), mutation{"dupkey", fmt.Sprintf("last pair of map at %d appended again (count %d)", m.Start, cnt)}
	case 7: // huge bignum in place of an integer
		n := pick(func(n *xcbor.Node) bool { return n.Kind == xcbor.Uint || n.Kind == xcbor.Nint })
		if n == nil {
			break
		}
		if rapid.IntRange(0, 2).Draw(rt, "plainHuge") == 0 {
			// a plain integer with a huge value: counts, sizes, indexes, k-of-n, periods
			// carried as integers are lengths claimed inside the input too
			v := rapid.SampledFrom(inflatedCounts).Draw(rt, "hugeInt")
			repl := xcbor.U(v)
			if n.Kind == xcbor.Nint {
				repl = xcbor.NegArg(v)
			}
			return splice(n, repl.Encode()), mutation{"hugeint", fmt.Sprintf("int at %d -> %d", n.Start, v)}
		}
		l := rapid.SampledFrom([]int{0, 1, 8, 9, 16, 33, 64, 256, 1024, 4096, 20000}).Draw(rt, "bigLen")
		if l > maxLen/2 {
			l = maxLen / 2
		}
		body := make([]byte, l)
		for i := range body {
			body[i] = 0xff
		}
		if l > 0 && rapid.Bool().Draw(rt, "leadingZero") {
			body[0] = 0
		}
		tag := uint64(2 + rapid.IntRange(0, 1).Draw(rt, "neg"))
		return clipTo(splice(n, xcbor.Tg(tag, xcbor.B(body)).Encode()), maxLen), mutation{"bignum", fmt.Sprintf("int at %d -> tag %d with %d bytes", n.Start, tag, l)}
	case 8: // definite <-> indefinite, or drop/insert a break
		n := pick(func(n *xcbor.Node) bool { return n.Kind == xcbor.Array || n.Kind == xcbor.Map })
		if n == nil {
			break
		}
		if n.Indef {
			// remove the break: container never ends
			out := append([]byte(nil), data[:n.End-1]...)
			out = append(out, data[n.End:]...)
			return out, mutation{"break", fmt.Sprintf("break of indefinite %s at %d removed", n.Kind, n.Start)}
		}
		out := append([]byte(nil), data[:n.Start]...)
		out = append(out, majorOf(n.Kind)<<5|31)
		out = append(out, data[n.Start+headLen(n):n.End]...)
		if rapid.Bool().Draw(rt, "withBreak") {
			out = append(out, 0xff)
		}
		out = append(out, data[n.End:]...)
		return clipTo(out, maxLen), mutation{"break", fmt.Sprintf("%s at %d made indefinite", n.Kind, n.Start)}
	case 9: // byte flip
		if len(data) == 0 {
			break
		}
		out := append([]byte(nil), data...)
		k := rapid.IntRange(1, 4).Draw(rt, "nFlips")
		for i := 0; i < k; i++ {
			p := rapid.IntRange(0, len(out)-1).Draw(rt, "flipPos")
			out[p] = rapid.Byte().Draw(rt, "flipVal")
		}
		return out, mutation{"flip", fmt.Sprintf("%d bytes overwritten", k)}
	case 10: // delete or insert a short run
		if len(data) == 0 {
			break
		}
		p := rapid.IntRange(0, len(data)-1).Draw(rt, "runPos")
		if rapid.Bool().Draw(rt, "delete") {
			l := rapid.IntRange(1, 16).Draw(rt, "runLen")
			if p+l > len(data) {
				l = len(data) - p
			}
			out := append([]byte(nil), data[:p]...)
			return append(out, data[p+l:]...), mutation{"delete", fmt.Sprintf("%d bytes removed at %d", l, p)}
		}
		ins := genBytesN(rt, "ins", 1, 16)
		out := append([]byte(nil), data[:p]...)
		out = append(out, ins...)
		return clipTo(append(out, data[p:]...), maxLen), mutation{"insert", fmt.Sprintf("%x inserted at %d", ins, p)}
	case 12, 13: // a map key of a drawn kind: replace a key, or turn a node into {key: node}
		if nodes == nil {
			break
		}
		key, kname := genMapKey(rt)
		if m := pick(func(n *xcbor.Node) bool { return n.Kind == xcbor.Map && len(n.Items) >= 2 }); m != nil && rapid.IntRange(0, 2).Draw(rt, "replaceKey") != 0 {
			i := 2 * rapid.IntRange(0, len(m.Items)/2-1).Draw(rt, "pair")
			return clipTo(splice(m.Items[i], key.Encode()), maxLen), mutation{"mapkey", fmt.Sprintf("key %d of map at %d -> %s", i/2, m.Start, kname)}
		}
		n := pick(nil)
		repl := append([]byte{0xa1}, key.Encode()...)
		repl = append(repl, data[n.Start:n.End]...)
		return clipTo(splice(n, repl), maxLen), mutation{"mapkey", fmt.Sprintf("%s at %d -> {%s: it}", n.Kind, n.Start, kname)}
	case 14, 15: // reshape a LATER entry of a list / map (the first entry stays valid), or append one
		if nodes == nil {
			break
		}
		clone := root.Clone()
		var conts []*xcbor.Node
		clone.Walk(func(n *xcbor.Node) {
			if (n.Kind == xcbor.Array && len(n.Items) >= 1) || (n.Kind == xcbor.Map && len(n.Items) >= 2) {
				conts = append(conts, n)
			}
		})
		if len(conts) == 0 {
			break
		}
		var c *xcbor.Node
		if len(conts) > 12 && rapid.IntRange(0, 2).Draw(rt, "outerCont") != 0 {
			c = conts[rapid.IntRange(0, 11).Draw(rt, "contOuter")]
		} else {
			c = conts[rapid.IntRange(0, len(conts)-1).Draw(rt, "cont")]
		}
		step := 1
		if c.Kind == xcbor.Map {
			step = 2
		}
		nEntries := len(c.Items) / step
		shape := rapid.IntRange(0, len(entryShapeNames)-1).Draw(rt, "entryShape")
		if nEntries < 2 || rapid.IntRange(0, 4).Draw(rt, "appendEntry") == 0 {
			if c.Kind == xcbor.Map {
				c.Items = append(c.Items, xcbor.U(uint64(1000+shape)))
			}
			c.Items = append(c.Items, reshapeEntry(xcbor.A(xcbor.U(0), xcbor.U(1)), shape))
			return clipTo(clone.Encode(), maxLen), mutation{"entry", fmt.Sprintf("%s at %d: appended an entry of shape %s", c.Kind, c.Start, entryShapeNames[shape])}
		}
		i := rapid.IntRange(1, nEntries-1).Draw(rt, "laterEntry")
		slot := i*step + step - 1
		if shape == len(entryShapeNames)-1 { // remove the entry altogether
			c.Items = append(c.Items[:i*step:i*step], c.Items[(i+1)*step:]...)
		} else {
			c.Items[slot] = reshapeEntry(c.Items[slot], shape)
		}
		return clipTo(clone.Encode(), maxLen), mutation{"entry", fmt.Sprintf("entry %d of %s at %d -> %s", i, c.Kind, c.Start, entryShapeNames[shape])}
	default: // random cut anywhere
		if len(data) == 0 {
			break
		}
		cut := rapid.IntRange(0, len(data)-1).Draw(rt, "cut")
		return append([]byte(nil), data[:cut]...), mutation{"truncate", fmt.Sprintf("cut at %d of %d", cut, len(data))}
	}
	return append([]byte(nil), data...), mutation{"none", "no applicable node"}
}

func appendHeadFor(major byte, arg uint64, width int) []byte {
	n := &xcbor.Node{Kind: xcbor.Uint, Arg: arg, Width: width}
	h := n.Encode()
	h[0] = major<<5 | h[0]&0x1f
	return h
}

// genUniform draws uniformly random bytes, with the first byte biased to
// container/tag heads half of the time so that typed decoding is reached.
func genUniform(rt *rapid.T, maxLen int) []byte {
	n := rapid.IntRange(0, maxLen).Draw(rt, "uLen")
	if rapid.IntRange(0, 3).Draw(rt, "short") != 0 {
		n = rapid.IntRange(0, 64).Draw(rt, "uLenShort")
	}
	b := genBytesN(rt, "uniform", n, n)
	if len(b) > 0 && rapid.Bool().Draw(rt, "biasHead") {
		b[0] = rapid.SampledFrom([]byte{0x80, 0x81, 0x82, 0x83, 0x84, 0x85, 0x87, 0x8a, 0x98, 0x9a, 0x9b, 0x9f, 0xa1, 0xa4, 0xb8, 0xbf, 0xc2, 0xd8, 0xd9, 0x58, 0x5f}).Draw(rt, "head")
	}
	return b
}

// hostileConstants: inputs built to claim far more than they contain.
// The bombs are built from `big` repetitions (60000 in the thorough tier, fewer
// in the quick tier; all far beyond every depth / element limit of the library).
func hostileConstants(big int) []struct {
	Name string
	Data []byte
} {
	type hc = struct {
		Name string
		Data []byte
	}
	var out []hc
	rep := func(unit []byte, n int, tail []byte) []byte {
		var b []byte
		for i := 0; i < n; i++ {
			b = append(b, unit...)
		}
		return append(b, tail...)
	}
	for _, major := range []byte{2, 3, 4, 5} {
		for _, v := range []uint64{1 << 32, 1<<63 - 1, 1<<64 - 1, 1<<31 - 1, 10_000_000, 131072} {
			out = append(out, hc{fmt.Sprintf("major%d-claims-%d", major, v), head9(major, v)})
			if v <= 0xffffffff {
				out = append(out, hc{fmt.Sprintf("major%d-claims-%d-w4", major, v), head5(major, uint32(v))})
				out = append(out, hc{fmt.Sprintf("major%d-claims-%d-w4-some-content", major, v), append(head5(major, uint32(v)), rep([]byte{0x00}, 64, nil)...)})
			}
		}
	}
	// a list whose first element is small, claiming 2^31-1 / 2^32 elements (tagged-sum fast paths)
	out = append(out, hc{"list-id0-claims-maxint32", append(head5(4, 1<<31-1), 0x00, 0x00)})
	out = append(out, hc{"list-id0-claims-2^32", append(head9(4, 1<<32), 0x00, 0x00)})
	// block-shaped: 5 elements, each claiming 2^31-1
	blk := []byte{0x85}
	for i := 0; i < 5; i++ {
		blk = append(blk, head5(4, 1<<31-1)...)
	}
	out = append(out, hc{"block-of-5-inflated-arrays", blk})
	blk2 := []byte{0x85, 0x82, 0x80, 0x40}
	blk2 = append(blk2, head5(4, 1<<31-1)...)
	blk2 = append(blk2, head5(4, 1<<31-1)...)
	blk2 = append(blk2, 0xa0, 0x80)
	out = append(out, hc{"block-header-then-inflated-bodies", blk2})
	out = append(out, hc{"nest-array-300", rep([]byte{0x81}, 300, []byte{0x00})})
	out = append(out, hc{"nest-array-big", rep([]byte{0x81}, big, []byte{0x00})})
	out = append(out, hc{"nest-indef-array-big-unterminated", rep([]byte{0x9f}, big, nil)})
	out = append(out, hc{"nest-indef-map-big", rep([]byte{0xbf, 0x00}, big/2, nil)})
	out = append(out, hc{"nest-tag24-big", rep([]byte{0xd8, 0x18}, big/2, []byte{0x40})})
	out = append(out, hc{"nest-tag2-big", rep([]byte{0xc2}, big, []byte{0x40})})
	out = append(out, hc{"nest-map-big", rep([]byte{0xa1, 0x00}, big/3, []byte{0x00})})
	out = append(out, hc{"bignum-big-bytes", append([]byte{0xc2, 0x59, byte(big >> 8), byte(big)}, rep([]byte{0xff}, big, nil)...)})
	out = append(out, hc{"neg-bignum-big-bytes", append([]byte{0xc3, 0x59, byte(big >> 8), byte(big)}, rep([]byte{0xff}, big, nil)...)})
	out = append(out, hc{"many-empty-arrays-big", append([]byte{0x9f}, rep([]byte{0x80}, big, []byte{0xff})...)})
	out = append(out, hc{"many-empty-maps-in-array", append([]byte{0x99, byte(big >> 8), byte(big)}, rep([]byte{0xa0}, big, nil)...)})
	out = append(out, hc{"map-big-dup-keys", append([]byte{0xb9, byte(big / 2 >> 8), byte(big / 2)}, rep([]byte{0x00, 0x00}, big/2, nil)...)})
	out = append(out, hc{"indef-bytes-big-chunks", append([]byte{0x5f}, rep([]byte{0x40}, big, []byte{0xff})...)})
	out = append(out, hc{"tag24-of-inflated", append([]byte{0xd8, 0x18, 0x49}, head9(4, 1<<62)...)})
	out = append(out, hc{"rat-zero-denominator", []byte{0xd8, 0x1e, 0x82, 0x01, 0x00}})
	out = append(out, hc{"map-with-array-key", []byte{0xa1, 0x81, 0x00, 0x00}})
	out = append(out, hc{"map-with-map-key", []byte{0xa1, 0xa1, 0x00, 0x00, 0x00}})
	out = append(out, hc{"map-with-nan-keys", []byte{0xa2, 0xf9, 0x7e, 0x00, 0x00, 0xf9, 0x7e, 0x00, 0x01}})
	out = append(out, hc{"empty", nil})
	out = append(out, hc{"single-break", []byte{0xff}})
	out = append(out, hc{"reserved-ai-28", []byte{0x1c}})
	return out
}

// ---- map keys of every kind -------------------------------------------------------

type namedNode struct {
	Name string
	Node *xcbor.Node
}

func f64node(bits uint64) *xcbor.Node { return &xcbor.Node{Kind: xcbor.Simple, Arg: bits, Width: 8} }

// mapKeyKinds lists one or more representatives of every kind of CBOR item that
// can stand in key position: integers, strings (definite and chunked), arrays,
// maps, floats, simple values, bignums, tags the library registers or treats as
// constructors, and tags it does not know around each of those (also nested).
func mapKeyKinds() []namedNode {
	b2 := []byte{1, 2}
	ib := xcbor.B(b2)
	ib.Apply(xcbor.FormIndef, 1)
	it := xcbor.T("ab")
	it.Apply(xcbor.FormIndef, 1)
	base := []namedNode{
		{"uint0", xcbor.U(0)}, {"uint24", xcbor.U(24)}, {"uint-max", xcbor.U(1<<64 - 1)},
		{"nint1", xcbor.I(-1)}, {"nint-max", xcbor.NegArg(1<<64 - 1)},
		{"text", xcbor.T("a")}, {"text-empty", xcbor.T("")}, {"text-chunked", it},
		{"bytes", xcbor.B(b2)}, {"bytes-empty", xcbor.B([]byte{})}, {"bytes-chunked", ib},
		{"array-empty", xcbor.A()}, {"array", xcbor.A(xcbor.U(1))}, {"array-nested", xcbor.A(xcbor.A(xcbor.U(1)))}, {"array-indef", xcbor.AI(xcbor.U(1))},
		{"map-empty", xcbor.M()}, {"map", xcbor.M(xcbor.U(1), xcbor.U(2))}, {"map-with-array-key", xcbor.M(xcbor.A(xcbor.U(1)), xcbor.U(2))},
		{"false", xcbor.Bool(false)}, {"true", xcbor.Bool(true)}, {"null", xcbor.Null()},
		{"undefined", &xcbor.Node{Kind: xcbor.Simple, Arg: 23}}, {"simple16", &xcbor.Node{Kind: xcbor.Simple, Arg: 16}},
		{"simple255", &xcbor.Node{Kind: xcbor.Simple, Arg: 255, Width: 1}},
		{"float16-1.0", &xcbor.Node{Kind: xcbor.Simple, Arg: 0x3c00, Width: 2}}, {"float16-nan", &xcbor.Node{Kind: xcbor.Simple, Arg: 0x7e00, Width: 2}},
		{"float32", &xcbor.Node{Kind: xcbor.Simple, Arg: 0x40490fdb, Width: 4}}, {"float64", f64node(0x400921fb54442d18)}, {"float64-inf", f64node(0x7ff0000000000000)},
		{"bignum", xcbor.Tg(2, xcbor.B([]byte{1, 0, 0, 0, 0, 0, 0, 0, 0}))}, {"bignum-small", xcbor.Tg(2, xcbor.B([]byte{5}))},
		{"neg-bignum", xcbor.Tg(3, xcbor.B([]byte{1, 0, 0, 0, 0, 0, 0, 0, 0}))}, {"bignum-of-array", xcbor.Tg(2, xcbor.A(xcbor.U(1)))},
		{"tag24-bytes", xcbor.Tg(24, xcbor.B([]byte{0x01}))}, {"tag24-array", xcbor.Tg(24, xcbor.A(xcbor.U(1)))},
		{"tag30-rat", xcbor.Tg(30, xcbor.A(xcbor.U(1), xcbor.U(2)))}, {"tag30-bad", xcbor.Tg(30, xcbor.B(b2))},
		{"tag258-set", xcbor.Tg(258, xcbor.A(xcbor.U(1)))}, {"tag259-map", xcbor.Tg(259, xcbor.M(xcbor.U(1), xcbor.U(2)))},
		{"tag121-constr", xcbor.Tg(121, xcbor.A())}, {"tag122-constr", xcbor.Tg(122, xcbor.A(xcbor.U(1), xcbor.B(b2)))},
		{"tag127-constr", xcbor.Tg(127, xcbor.AI(xcbor.U(1)))}, {"tag1280-constr", xcbor.Tg(1280, xcbor.A(xcbor.U(1)))},
		{"tag1400-constr", xcbor.Tg(1400, xcbor.A())}, {"tag101", xcbor.Tg(101, xcbor.A(xcbor.U(1)))},
		{"tag102-constr", xcbor.Tg(102, xcbor.A(xcbor.U(7), xcbor.A(xcbor.U(1))))}, {"tag121-of-uint", xcbor.Tg(121, xcbor.U(1))},
		{"tag0-time", xcbor.Tg(0, xcbor.T("2020-01-01T00:00:00Z"))}, {"tag1-epoch", xcbor.Tg(1, xcbor.U(1))},
	}
	out := append([]namedNode(nil), base...)
	// tags the library does not register, around every kind of content
	contents := []namedNode{
		{"uint", xcbor.U(1)}, {"nint", xcbor.I(-2)}, {"text", xcbor.T("a")}, {"bytes", xcbor.B(b2)}, {"bytes-chunked", ib},
		{"array", xcbor.A(xcbor.U(1))}, {"array-empty", xcbor.A()}, {"array-indef", xcbor.AI(xcbor.U(1))},
		{"map", xcbor.M(xcbor.U(1), xcbor.U(2))}, {"map-empty", xcbor.M()},
		{"bool", xcbor.Bool(true)}, {"null", xcbor.Null()}, {"float", f64node(0x3ff8000000000000)},
		{"bignum", xcbor.Tg(2, xcbor.B([]byte{1, 0, 0, 0, 0, 0, 0, 0, 0}))}, {"constr", xcbor.Tg(121, xcbor.A(xcbor.U(1)))}, {"set", xcbor.Tg(258, xcbor.A(xcbor.U(1)))},
	}
	for _, c := range contents {
		out = append(out, namedNode{"tag99(" + c.Name + ")", xcbor.Tg(99, c.Node.Clone())})
	}
	for _, tn := range []uint64{6, 23, 55799, 1 << 32, 1<<64 - 1} {
		out = append(out, namedNode{fmt.Sprintf("tag%d(array)", tn), xcbor.Tg(tn, xcbor.A(xcbor.U(1)))})
		out = append(out, namedNode{fmt.Sprintf("tag%d(bytes)", tn), xcbor.Tg(tn, xcbor.B(b2))})
	}
	// nested unknown tags, unknown inside known and known inside unknown
	out = append(out,
		namedNode{"tag99(tag99(array))", xcbor.Tg(99, xcbor.Tg(99, xcbor.A(xcbor.U(1))))},
		namedNode{"tag99(tag1000(bytes))", xcbor.Tg(99, xcbor.Tg(1000, xcbor.B(b2)))},
		namedNode{"tag99(tag1000(tag6(map)))", xcbor.Tg(99, xcbor.Tg(1000, xcbor.Tg(6, xcbor.M(xcbor.U(1), xcbor.U(2)))))},
		namedNode{"tag99(tag99(uint))", xcbor.Tg(99, xcbor.Tg(99, xcbor.U(1)))},
		namedNode{"constr-of-tag99(array)", xcbor.Tg(121, xcbor.A(xcbor.Tg(99, xcbor.A(xcbor.U(1)))))},
		namedNode{"set-of-tag99(bytes)", xcbor.Tg(258, xcbor.A(xcbor.Tg(99, xcbor.B(b2))))},
		namedNode{"array-of-tag99(array)", xcbor.A(xcbor.Tg(99, xcbor.A(xcbor.U(1))))},
		namedNode{"map-with-tag99(array)-key", xcbor.M(xcbor.Tg(99, xcbor.A(xcbor.U(1))), xcbor.U(2))},
	)
	return out
}

// mapKeyPositions puts a map {key: 2} into every container position through
// which the generic decoders reach a map.
func mapKeyPositions(key *xcbor.Node) []namedNode {
	m := func() *xcbor.Node { return xcbor.M(key.Clone(), xcbor.U(2)) }
	nonMinimalID := &xcbor.Node{Kind: xcbor.Uint, Arg: 0, Width: 1} // 18 00: misses the DecodeIdFromList fast path
	longHead := xcbor.A(xcbor.U(0), m())
	longHead.Width = 1 // 98 02 ...: long array header, same reason
	indef := m()
	indef.Indef = true
	return []namedNode{
		{"top-level-map", m()},
		{"map-in-array", xcbor.A(m())},
		{"map-as-map-value", xcbor.M(xcbor.U(0), m())},
		{"map-in-tag24-bytes", xcbor.Tg(24, xcbor.B(m().Encode()))},
		{"second-key", xcbor.M(xcbor.U(1), xcbor.U(1), key.Clone(), xcbor.U(2))},
		{"same-key-twice", xcbor.M(key.Clone(), xcbor.U(1), key.Clone(), xcbor.U(2))},
		{"indefinite-map", indef},
		{"map-in-unknown-tag", xcbor.Tg(99, m())},
		{"map-in-constr", xcbor.Tg(121, xcbor.A(m()))},
		{"idlist-nonminimal-id", xcbor.A(nonMinimalID, m(), xcbor.U(0))},
		{"idlist-long-head", longHead},
		{"idlist-in-list", xcbor.A(xcbor.U(1), xcbor.A(xcbor.A(nonMinimalID, m(), xcbor.U(0))))},
		{"nested-3-deep", xcbor.A(xcbor.M(xcbor.U(0), xcbor.A(xcbor.A(m()))))},
	}
}

// mapKeyConstants: every key kind x every container position.
func mapKeyConstants() []struct {
	Name string
	Data []byte
} {
	var out []struct {
		Name string
		Data []byte
	}
	for _, k := range mapKeyKinds() {
		for _, p := range mapKeyPositions(k.Node) {
			out = append(out, struct {
				Name string
				Data []byte
			}{"mapkey:" + k.Name + "@" + p.Name, p.Node.Encode()})
		}
	}
	return out
}

// genMapKey draws a key: one of the listed kinds, optionally wrapped in up to
// two further tags (unknown ones most of the time).
func genMapKey(rt *rapid.T) (*xcbor.Node, string) {
	ks := mapKeyKindsCached()
	k := ks[rapid.IntRange(0, len(ks)-1).Draw(rt, "keyKind")]
	n, name := k.Node.Clone(), k.Name
	for i := rapid.SampledFrom([]int{0, 0, 0, 1, 1, 2}).Draw(rt, "keyWraps"); i > 0; i-- {
		tn := rapid.SampledFrom([]uint64{99, 99, 6, 1000, 55799, 24, 121, 258, 2}).Draw(rt, "keyWrapTag")
		n, name = xcbor.Tg(tn, n), fmt.Sprintf("tag%d(%s)", tn, name)
	}
	return n, name
}

var (
	mapKeyKindsOnce sync.Once
	mapKeyKindsVal  []namedNode
)

func mapKeyKindsCached() []namedNode {
	mapKeyKindsOnce.Do(func() { mapKeyKindsVal = mapKeyKinds() })
	return mapKeyKindsVal
}

// ---- later entries of per-transaction lists ---------------------------------------

var entryShapeNames = []string{"empty-array", "one-element", "drop-last-element", "extra-element", "uint", "bytes", "empty-map", "null", "removed"}

// reshapeEntry returns entry e in one of the malformed shapes (well-formed CBOR).
func reshapeEntry(e *xcbor.Node, shape int) *xcbor.Node {
	switch entryShapeNames[shape] {
	case "empty-array":
		return xcbor.A()
	case "one-element":
		if e.Kind == xcbor.Array && len(e.Items) > 0 {
			n := xcbor.A(e.Items[0])
			n.Indef = e.Indef
			return n
		}
		return xcbor.A(e)
	case "drop-last-element":
		if e.Kind == xcbor.Array && len(e.Items) > 0 {
			n := xcbor.A(e.Items[:len(e.Items)-1]...)
			n.Indef = e.Indef
			return n
		}
		return xcbor.A()
	case "extra-element":
		if e.Kind == xcbor.Array {
			n := xcbor.A(append(append([]*xcbor.Node(nil), e.Items...), xcbor.U(0))...)
			n.Indef = e.Indef
			return n
		}
		return xcbor.A(e, xcbor.U(0), xcbor.U(0))
	case "uint":
		return xcbor.U(0)
	case "bytes":
		return xcbor.B([]byte{})
	case "empty-map":
		return xcbor.M()
	default:
		return xcbor.Null()
	}
}

// laterEntryVariants enumerates, for every list / map down to maxDepth below
// the root of a valid encoding, its 2nd, 3rd and last entry in every malformed
// shape plus appended entries, leaving the first entry (which classifiers look
// at) untouched. Only containers whose entries are themselves lists or maps
// (per-transaction lists, block components) are touched. full=false keeps the
// 2nd and last entry and the six shapes that change arity or type.
func laterEntryVariants(name string, data []byte, maxDepth int, full bool) []struct {
	Name string
	Data []byte
} {
	type hc = struct {
		Name string
		Data []byte
	}
	root, err := xcbor.ParseExact(data)
	if err != nil {
		return nil
	}
	type cont struct {
		path []int
		n    *xcbor.Node
	}
	var conts []cont
	var walk func(n *xcbor.Node, path []int, depth int)
	walk = func(n *xcbor.Node, path []int, depth int) {
		if (n.Kind == xcbor.Array && len(n.Items) > 0 && (n.Items[0].Kind == xcbor.Array || n.Items[0].Kind == xcbor.Map)) ||
			(n.Kind == xcbor.Map && len(n.Items) > 1 && (n.Items[1].Kind == xcbor.Array || n.Items[1].Kind == xcbor.Map)) {
			conts = append(conts, cont{append([]int(nil), path...), n})
		}
		if depth >= maxDepth {
			return
		}
		for i, c := range n.Items {
			if i >= 6 { // the first few children are enough to reach every per-tx list
				break
			}
			walk(c, append(path, i), depth+1)
		}
	}
	walk(root, nil, 0)
	at := func(r *xcbor.Node, path []int) *xcbor.Node {
		for _, i := range path {
			r = r.Items[i]
		}
		return r
	}
	var out []hc
	for _, c := range conts {
		step := 1
		if c.n.Kind == xcbor.Map {
			step = 2
		}
		nEntries := len(c.n.Items) / step
		pos := map[int]bool{}
		cand := []int{1, 2, nEntries - 1}
		if !full {
			cand = []int{1, nEntries - 1}
		}
		for _, i := range cand {
			if i >= 1 && i < nEntries {
				pos[i] = true
			}
		}
		for i := 1; i < nEntries; i++ {
			if !pos[i] {
				continue
			}
			for shape := range entryShapeNames {
				if sn := entryShapeNames[shape]; !full && (sn == "bytes" || sn == "empty-map" || sn == "null") {
					continue
				}
				cl := root.Clone()
				cc := at(cl, c.path)
				if entryShapeNames[shape] == "removed" {
					cc.Items = append(cc.Items[:i*step:i*step], cc.Items[(i+1)*step:]...)
				} else {
					cc.Items[i*step+step-1] = reshapeEntry(cc.Items[i*step+step-1], shape)
				}
				out = append(out, hc{fmt.Sprintf("entry:%s%v[%d]->%s", name, c.path, i, entryShapeNames[shape]), cl.Encode()})
			}
		}
		for _, shape := range []int{0, 1, 4} { // append [], [0], 0
			cl := root.Clone()
			cc := at(cl, c.path)
			if step == 2 {
				cc.Items = append(cc.Items, xcbor.U(uint64(1000+shape)))
			}
			cc.Items = append(cc.Items, reshapeEntry(xcbor.A(xcbor.U(0), xcbor.U(1)), shape))
			out = append(out, hc{fmt.Sprintf("entry:%s%v+append-%s", name, c.path, entryShapeNames[shape]), cl.Encode()})
		}
	}
	return out
}
