package codec

import (
	"pgregory.net/rapid"

	"verif/harness/internal/xcbor"
)

// ---- generic argument generators (all randomness from rapid) ----------------

func genBytesN(rt *rapid.T, label string, min, max int) []byte {
	return rapid.SliceOfN(rapid.Byte(), min, max).Draw(rt, label)
}

// genBytesNonNil returns a non-nil slice (possibly empty).
func genBytesNonNil(rt *rapid.T, label string, min, max int) []byte {
	b := genBytesN(rt, label, min, max)
	if b == nil {
		b = []byte{}
	}
	return b
}

var u64Edges = []uint64{0, 1, 23, 24, 255, 256, 65535, 65536, 1<<32 - 1, 1 << 32, 1<<63 - 1, 1 << 63, 1<<64 - 1}

func genU64(rt *rapid.T, label string) uint64 {
	if rapid.IntRange(0, 2).Draw(rt, label+"_edge") == 0 {
		return rapid.SampledFrom(u64Edges).Draw(rt, label)
	}
	return rapid.Uint64().Draw(rt, label)
}

func genU32(rt *rapid.T, label string) uint32 {
	if rapid.IntRange(0, 2).Draw(rt, label+"_edge") == 0 {
		return rapid.SampledFrom([]uint32{0, 1, 23, 24, 255, 256, 65535, 65536, 1<<32 - 1}).Draw(rt, label)
	}
	return rapid.Uint32().Draw(rt, label)
}

func genU16(rt *rapid.T, label string) uint16 {
	if rapid.IntRange(0, 2).Draw(rt, label+"_edge") == 0 {
		return rapid.SampledFrom([]uint16{0, 1, 23, 24, 255, 256, 65535}).Draw(rt, label)
	}
	return rapid.Uint16().Draw(rt, label)
}

func genU8(rt *rapid.T, label string) uint8 {
	if rapid.IntRange(0, 2).Draw(rt, label+"_edge") == 0 {
		return rapid.SampledFrom([]uint8{0, 1, 23, 24, 255}).Draw(rt, label)
	}
	return rapid.Uint8().Draw(rt, label)
}

// genText returns valid UTF-8 (the CBOR decoder rejects invalid UTF-8 in text
// strings, so callers have to pass valid text for a message to be decodable).
func genText(rt *rapid.T, label string, maxRunes int) string {
	return rapid.StringN(0, maxRunes, -1).Draw(rt, label)
}

// genTree draws a small well-formed CBOR item for fields the library treats as
// opaque pre-encoded CBOR (RawMessage arguments, block bodies, query results).
// Maps get distinct integer keys (the decoder enforces unique keys); tags avoid
// the numbers whose content the decoder validates (0-5), simple values are
// limited to false/true/null/undefined and floats.
func genTree(rt *rapid.T, depth int) *xcbor.Node {
	max := 8
	if depth <= 0 {
		max = 5
	}
	switch rapid.IntRange(0, max).Draw(rt, "treeKind") {
	case 0:
		return xcbor.U(genU64(rt, "tu"))
	case 1:
		return xcbor.NegArg(genU64(rt, "tn"))
	case 2:
		return xcbor.B(genBytesNonNil(rt, "tb", 0, 40))
	case 3:
		return xcbor.T(genText(rt, "tt", 12))
	case 4:
		return &xcbor.Node{Kind: xcbor.Simple, Arg: uint64(rapid.SampledFrom([]int{20, 21, 22, 23}).Draw(rt, "ts"))}
	case 5:
		// float64 with arbitrary bits except NaN payload variety (keep one NaN)
		bits := rapid.Uint64().Draw(rt, "tf")
		return &xcbor.Node{Kind: xcbor.Simple, Arg: bits, Width: 8}
	case 6:
		n := rapid.IntRange(0, 4).Draw(rt, "tal")
		items := make([]*xcbor.Node, n)
		for i := range items {
			items[i] = genTree(rt, depth-1)
		}
		a := xcbor.A(items...)
		if rapid.IntRange(0, 4).Draw(rt, "tai") == 0 {
			a.Indef = true
		}
		return a
	case 7:
		n := rapid.IntRange(0, 3).Draw(rt, "tml")
		kv := make([]*xcbor.Node, 0, 2*n)
		for i := 0; i < n; i++ {
			kv = append(kv, xcbor.U(uint64(i*7+rapid.IntRange(0, 6).Draw(rt, "tmk"))), genTree(rt, depth-1))
		}
		return xcbor.M(kv...)
	default:
		tag := rapid.SampledFrom([]uint64{6, 24, 30, 101, 121, 122, 258, 259, 1280, 65536}).Draw(rt, "ttag")
		switch tag {
		case 24:
			return xcbor.Tg(24, xcbor.B(genTree(rt, depth-1).Encode()))
		case 30:
			return xcbor.Tg(30, xcbor.A(xcbor.U(genU64(rt, "rn")), xcbor.U(1+uint64(rapid.IntRange(0, 1000).Draw(rt, "rd")))))
		case 258:
			return xcbor.Tg(258, xcbor.A(xcbor.U(1), xcbor.U(2)))
		case 259:
			return xcbor.Tg(259, xcbor.M(xcbor.U(1), genTree(rt, depth-1)))
		}
		return xcbor.Tg(tag, genTree(rt, depth-1))
	}
}

func genRaw(rt *rapid.T, depth int) []byte { return genTree(rt, depth).Encode() }
