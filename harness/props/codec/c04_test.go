package codec

import (
	"bytes"
	"fmt"
	"os"
	"reflect"
	"regexp"
	"sort"
	"strings"
	"testing"

	gcbor "github.com/blinklabs-io/gouroboros/cbor"
	"github.com/blinklabs-io/gouroboros/protocol"
	"pgregory.net/rapid"

	"verif/harness/internal/evi"
	"verif/harness/internal/xcbor"
)

var reIndex = regexp.MustCompile(`\[[^\]]*\]`)

func c04Decode(c *msgCase, data []byte) (m protocol.Message, err error, panicked string) {
	panicked = evi.Safely(func() { m, err = c.Decode(c.TypeID, data) })
	return
}

func decoderClass(e shapeEdit) string {
	if e.Custom != "" {
		return e.Custom
	}
	return "generic"
}

func decoderName(e shapeEdit) string {
	if e.Custom != "" {
		return e.Custom
	}
	return "generic(" + e.GoType + ")"
}

func TestC04(t *testing.T) {
	rec := evi.New(t, "C04", evi.Exploration,
		"each case draws one of the library's message constructors (table of all NewMsg* of 15 mini-protocols, chain-sync in NtN and NtC mode) and generated arguments; "+
			"round trip: cbor.Encode(msg) -> protocol's NewMsgFromCbor(type id from the harness table) must give the same Go type with deeply equal exported fields (+ accessor/independent-encoding expectations); "+
			"shape: every single edit of the valid encoding derived from the message's schema (drop last / append element on fixed-arity arrays, replace a typed field by another major type or null, chain points -> 1/3/4-element or wrongly typed lists) must be rejected; "+
			"non-trivial round trip = message carries at least one field besides the type id; non-trivial edit = well-formed CBOR different from the original; distinct by encoded bytes")
	defer rec.Finish()
	rec.Assume(
		"internal/xcbor (independent parser/encoder) is correct",
		"constructor arguments respect the preconditions real callers respect: chain points are origin or slot+hash, text is valid UTF-8, pre-encoded CBOR arguments are well-formed, Leios signatures are 48 bytes, NewMsgReplyNextTx without a transaction is (0,nil)",
		"nil and empty slices/maps are the same message content; integers inside fields declared `any` are compared by value",
		"which nested arrays are fixed-arity is taken from the struct definitions (reflection) and, for hand-written decoders, from a reviewed table in codec_shape.go",
	)

	// VERIF_C04_SURVEY=1 (debugging aid, never set by ./check): do not stop at the
	// first violation, print every failing key with one example at the end.
	survey := os.Getenv("VERIF_C04_SURVEY") != ""
	surveyHits := map[string]int{}
	surveyEx := map[string]string{}
	covered := map[string]bool{}
	unreviewed := map[string]bool{}
	maxEdits := rec.Pick(64, 160)

	rec.Check(func(rt *rapid.T) {
		fail := func(key, what string, cs any) bool {
			if survey && !rec.IsKnown(key) {
				surveyHits[key]++
				if _, ok := surveyEx[key]; !ok {
					surveyEx[key] = what
				}
				return true
			}
			return rec.Fail(rt, key, what, cs)
		}
		e := ctorTable[rapid.IntRange(0, len(ctorTable)-1).Draw(rt, "ctor")]
		c := &msgCase{Proto: e.Proto, Ctor: e.Ctor, TypeID: e.TypeID, Decode: e.Decode}
		e.Gen(rt, c)
		id := c.Proto + ":" + c.Ctor
		covered[id] = true
		msgName := reflect.TypeOf(c.Msg).Elem().Name()
		caseObj := func(enc []byte) map[string]any {
			return map[string]any{"protocol": c.Proto, "constructor": c.Ctor, "args": clipS(c.Desc, 400), "type_id": c.TypeID, "encoding": evi.Hex(enc)}
		}

		// ---- round trip ----
		enc, err := gcbor.Encode(c.Msg)
		rec.Eval()
		if err != nil {
			fail("encode:"+id, fmt.Sprintf("%s.%s(%s) does not encode: %v", c.Proto, c.Ctor, clipS(c.Desc, 200), err), caseObj(nil))
			return
		}
		root, perr := xcbor.ParseExact(enc)
		if perr != nil || root.Kind != xcbor.Array || len(root.Items) == 0 || root.Items[0].Kind != xcbor.Uint || root.Items[0].Arg != uint64(c.TypeID) {
			fail("wire:"+id, fmt.Sprintf("%s.%s encodes to %x, which is not an array starting with message type %d", c.Proto, c.Ctor, enc, c.TypeID), caseObj(enc))
			return
		}
		if uint(c.Msg.Type()) != c.TypeID {
			fail("type-id:"+id, fmt.Sprintf("%s.%s: Type() = %d, specification id %d", c.Proto, c.Ctor, c.Msg.Type(), c.TypeID), caseObj(enc))
			return
		}
		dec, derr, pn := c04Decode(c, enc)
		if pn != "" {
			fail("panic:"+id, fmt.Sprintf("NewMsgFromCbor panicked on the encoding of %s.%s: %s", c.Proto, c.Ctor, pn), caseObj(enc))
			return
		}
		if len(root.Items) >= 2 {
			rec.Class("roundtrip_with_fields")
			rec.NonTrivial("rt|"+c.Proto+"|"+string(enc), map[string]any{"kind": "round-trip", "protocol": c.Proto, "constructor": c.Ctor, "args": clipS(c.Desc, 200), "encoding": evi.Hex(enc)})
		} else {
			rec.Class("roundtrip_type_only")
		}
		if derr != nil {
			if !fail("roundtrip-reject:"+id, fmt.Sprintf("%s.%s(%s) encodes to %s but NewMsgFromCbor(%d) rejects it: %v", c.Proto, c.Ctor, clipS(c.Desc, 200), evi.Hex(enc), c.TypeID, derr), caseObj(enc)) {
				return
			}
			return // known: nothing to edit
		}
		if reflect.TypeOf(dec) != reflect.TypeOf(c.Msg) {
			fail("roundtrip-type:"+id, fmt.Sprintf("%s.%s decodes back as %T, built as %T", c.Proto, c.Ctor, dec, c.Msg), caseObj(enc))
			return
		}
		if uint(dec.Type()) != c.TypeID {
			fail("roundtrip-typeid:"+id, fmt.Sprintf("%s.%s decodes back with Type() %d", c.Proto, c.Ctor, dec.Type()), caseObj(enc))
			return
		}
		want := c.Want
		if want == nil {
			want = c.Msg
		}
		if !c.skipDeep {
			if d := diffExported(dec, want); d != "" {
				// key by the top-level field of the message that differs
				gen := reIndex.ReplaceAllString(d, "")
				if i := bytes.IndexByte([]byte(gen), ':'); i > 0 {
					gen = gen[:i]
				}
				if i := strings.Index(gen[1:], "."); i >= 0 {
					gen = gen[:i+1]
				}
				if !fail("roundtrip-diff:"+id+":"+gen, fmt.Sprintf("%s.%s(%s): decoded message differs from the built one at %s (encoding %s)", c.Proto, c.Ctor, clipS(c.Desc, 200), d, evi.Hex(enc)), caseObj(enc)) {
					return
				}
			}
		}
		if c.Extra != nil {
			if d := c.Extra(dec); d != "" {
				if !fail("roundtrip-extra:"+id, fmt.Sprintf("%s.%s(%s): %s (encoding %s)", c.Proto, c.Ctor, clipS(c.Desc, 200), d, evi.Hex(enc)), caseObj(enc)) {
					return
				}
			}
		}

		// ---- malformed shapes ----
		sch := messageSchema(dec, root)
		var edits []shapeEdit
		collectEdits(sch, &root, "", &edits)
		noteUnreviewed(sch, unreviewed)
		if len(edits) > maxEdits {
			// draw a subset (without replacement) from rapid
			perm := rapid.Permutation(indexes(len(edits))).Draw(rt, "editSubset")
			sub := make([]shapeEdit, 0, maxEdits)
			for _, i := range perm[:maxEdits] {
				sub = append(sub, edits[i])
			}
			edits = sub
		}
		for _, ed := range edits {
			ed.apply()
			mut := root.Encode()
			ed.undo()
			if bytes.Equal(mut, enc) {
				// e.g. null for a list the constructor was given as a nil slice: the
				// library itself encodes a nil slice as null
				rec.Class("edit_noop")
				continue
			}
			if _, err := xcbor.ParseExact(mut); err != nil {
				rt.Fatalf("harness: edit %s produced malformed CBOR %x: %v", ed.Edit, mut, err)
			}
			_, merr, mpn := c04Decode(c, mut)
			rec.Eval()
			cls := ed.Edit
			if i := bytes.IndexByte([]byte(cls), ':'); i > 0 {
				cls = cls[:i]
			}
			rec.Class("edit_" + cls)
			rec.NonTrivial("ed|"+c.Proto+"|"+string(mut), map[string]any{"kind": "shape-edit", "protocol": c.Proto, "message": msgName, "path": ed.Path, "edit": ed.Edit, "valid": evi.Hex(enc), "mutated": evi.Hex(mut)})
			co := map[string]any{"protocol": c.Proto, "message": msgName, "type_id": c.TypeID, "path": ed.Path, "edit": ed.Edit, "valid": evi.Hex(enc), "mutated": evi.Hex(mut), "decoder": decoderName(ed)}
			if mpn != "" {
				if !fail("panic:"+decoderName(ed)+":"+ed.Edit, fmt.Sprintf("%s %s: NewMsgFromCbor panicked on %s (%s at %s): %s", c.Proto, msgName, evi.Hex(mut), ed.Edit, ed.Path, mpn), co) {
					return
				}
				continue
			}
			if merr == nil {
				key := ed.FindingKey()
				rec.Class("accepted_" + strings.TrimPrefix(key, "shape:") + "_by_" + decoderClass(ed))
				if !fail(key, fmt.Sprintf("%s %s accepted a body of the wrong shape: %s at %s; valid %s, mutated %s decoded without error", c.Proto, msgName, ed.Edit, ed.Path, evi.Hex(enc), evi.Hex(mut)), co) {
					return
				}
				rec.Class("edit_accepted_known")
			} else {
				rec.Class("edit_rejected")
			}
		}
		// the NtN and NtC RollForward bodies have different shapes: each decoder must reject the other's
		if c.TypeID == 2 && (c.Proto == "chainsync-ntn" || c.Proto == "chainsync-ntc") {
			other := "chainsync-ntc"
			if c.Proto == other {
				other = "chainsync-ntn"
			}
			var oerr error
			pn := evi.Safely(func() { _, oerr = decoderOf(other)(2, enc) })
			rec.Eval()
			rec.Class("edit_crossmode")
			if pn != "" || oerr == nil {
				fail("shape:crossmode:"+c.Proto+"->"+other, fmt.Sprintf("a %s RollForward body %s was accepted by the %s decoder (panic=%q)", c.Proto, evi.Hex(enc), other, pn), caseObj(enc))
			}
		}
	})

	if survey {
		keys := make([]string, 0, len(surveyHits))
		for k := range surveyHits {
			keys = append(keys, k)
		}
		sort.Strings(keys)
		for _, k := range keys {
			fmt.Printf("SURVEY %6d  %s\n        e.g. %s\n", surveyHits[k], k, clipS(surveyEx[k], 600))
		}
	}
	names := make([]string, 0, len(covered))
	for k := range covered {
		names = append(names, k)
	}
	sort.Strings(names)
	rec.SetExtra("constructors_in_table", len(ctorTable))
	rec.SetExtra("constructors_exercised", len(names))
	var missing []string
	for _, e := range ctorTable {
		if !covered[e.Proto+":"+e.Ctor] {
			missing = append(missing, e.Proto+":"+e.Ctor)
		}
	}
	rec.SetExtra("constructors_not_exercised", missing)
	ur := make([]string, 0, len(unreviewed))
	for k := range unreviewed {
		ur = append(ur, k)
	}
	sort.Strings(ur)
	rec.SetExtra("fields_treated_as_opaque_because_decoder_unreviewed", ur)
}

func noteUnreviewed(s *schema, into map[string]bool) {
	if s == nil {
		return
	}
	if len(s.Custom) > 11 && (s.Custom[:11] == "unreviewed:" || (len(s.Custom) > 14 && s.Custom[:14] == "struct-as-map:")) {
		into[s.Custom] = true
	}
	for _, f := range s.Fields {
		noteUnreviewed(f, into)
	}
	noteUnreviewed(s.Elem, into)
}

func indexes(n int) []int {
	out := make([]int, n)
	for i := range out {
		out[i] = i
	}
	return out
}

func clipS(s string, n int) string {
	if len(s) > n {
		return s[:n] + "…"
	}
	return s
}
