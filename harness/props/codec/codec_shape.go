package codec

import (
	"fmt"
	"net"
	"reflect"
	"strings"

	gcbor "github.com/blinklabs-io/gouroboros/cbor"
	lcommon "github.com/blinklabs-io/gouroboros/ledger/common"
	"github.com/blinklabs-io/gouroboros/protocol/chainsync"
	pcommon "github.com/blinklabs-io/gouroboros/protocol/common"
	"github.com/blinklabs-io/gouroboros/protocol/leiosfetch"
	"github.com/blinklabs-io/gouroboros/protocol/leiosnotify"
	"github.com/blinklabs-io/gouroboros/protocol/localstatequery"
	"github.com/blinklabs-io/gouroboros/protocol/localtxmonitor"
	"github.com/blinklabs-io/gouroboros/protocol/peersharing"

	"verif/harness/internal/xcbor"
)

// ---- shape schema -------------------------------------------------------------
//
// A schema describes the wire shape a message type requires, so that edits
// which break the shape can be enumerated. It is derived by reflection from the
// message struct for everything the generic (toarray) decoder handles, and from
// a reviewed override table for the types with a hand-written UnmarshalCBOR.
// Fields that are opaque in the struct (any, []any, RawMessage, content of a
// cbor.Tag) are exempt from edits below them.

type sKind int

const (
	sUint        sKind = iota // unsigned integer field
	sInt                      // signed integer field (uint and nint both legal)
	sBool                     // boolean
	sBytes                    // byte string (possibly wrapped in a tag on the wire)
	sText                     // text string
	sFixed                    // fixed-arity array (struct encoded as array)
	sList                     // variable-length array of Elem
	sMap                      // map (keys/values of Elem kinds; only type swaps of the whole map)
	sPoint                    // chain point: [] or [slot, hash]
	sTagAny                   // a CBOR tag is required, content opaque
	sArrayOpaque              // must be an array; content is a tagged sum not described here
	sOpaque                   // anything goes (any / RawMessage / []any)
)

type schema struct {
	Kind   sKind
	Name   string    // field or type name, for paths
	Fields []*schema // sFixed
	Elem   *schema   // sList
	// NoDropLast / NoAppend: a shorter / longer form is a documented alternative
	// encoding of the same type (reviewed, see comments in the override table).
	NoDropLast bool
	NoAppend   bool
	GoType     string // Go type of the field the generic decoder fills ("" for custom decoders)
	Custom     string // name of the hand-written decoder responsible ("" = generic toarray decoder)
}

var (
	tRawMessage = reflect.TypeOf(gcbor.RawMessage{})
	tTag        = reflect.TypeOf(gcbor.Tag{})
	tPoint      = reflect.TypeOf(pcommon.Point{})
	tIP         = reflect.TypeOf(net.IP{})
)

// customSchemas: types with their own UnmarshalCBOR. The function receives the
// node actually present in the valid encoding (several of these types accept
// more than one layout).
var customSchemas = map[reflect.Type]func(n *xcbor.Node) *schema{}

func fixed(custom, name string, fs ...*schema) *schema {
	return &schema{Kind: sFixed, Name: name, Fields: fs, Custom: custom}
}
func leaf(k sKind, name, custom string) *schema { return &schema{Kind: k, Name: name, Custom: custom} }

func init() {
	customSchemas[tPoint] = func(n *xcbor.Node) *schema {
		return &schema{Kind: sPoint, Name: "Point", Custom: "Point.UnmarshalCBOR"}
	}
	customSchemas[reflect.TypeOf(peersharing.PeerAddress{})] = func(n *xcbor.Node) *schema {
		// [0, u32, port] | [1, u32 x4, port] | [1, u32 x4, flow, scope, port]
		const c = "PeerAddress.UnmarshalCBOR"
		s := fixed(c, "PeerAddress")
		for i := range n.Items {
			s.Fields = append(s.Fields, leaf(sUint, fmt.Sprintf("f%d", i), c))
		}
		return s
	}
	customSchemas[reflect.TypeOf(pcommon.DmqMessage{})] = func(n *xcbor.Node) *schema {
		const c = "DmqMessage.UnmarshalCBOR"
		const pc = "DmqMessagePayload.UnmarshalCBOR"
		return fixed(c, "DmqMessage",
			leaf(sBytes, "MessageID", c),
			fixed(pc, "Payload", leaf(sBytes, "MessageBody", pc), leaf(sUint, "KESPeriod", pc), leaf(sUint, "ExpiresAt", pc)),
			leaf(sBytes, "KESSignature", c),
			fixed(c, "OperationalCertificate", leaf(sBytes, "KESVerificationKey", c), leaf(sUint, "IssueNumber", c), leaf(sUint, "KESPeriod", c), leaf(sBytes, "ColdSignature", c)),
			leaf(sBytes, "ColdVerificationKey", c))
	}
	customSchemas[reflect.TypeOf(pcommon.RejectReasonData{})] = func(n *xcbor.Node) *schema {
		// CIP-0137: [0, tstr] / [1] / [2] / [3, tstr]: a one-element form is a
		// legal reason, so dropping the message is not a shape violation.
		const c = "RejectReasonData.UnmarshalCBOR"
		s := fixed(c, "RejectReasonData", leaf(sUint, "Type", c), leaf(sText, "Message", c))
		s.NoDropLast = true
		return s
	}
	customSchemas[reflect.TypeOf(chainsync.WrappedHeader{})] = func(n *xcbor.Node) *schema {
		const c = "WrappedHeader.UnmarshalCBOR"
		if len(n.Items) == 2 && n.Items[1].Kind == xcbor.Array {
			return fixed(c, "WrappedHeader", leaf(sUint, "Era", c),
				fixed(c, "Byron", fixed(c, "Metadata", leaf(sUint, "Type", c), leaf(sUint, "Size", c)), leaf(sTagAny, "RawHeader", c)))
		}
		return fixed(c, "WrappedHeader", leaf(sUint, "Era", c), leaf(sTagAny, "Header", c))
	}
	customSchemas[reflect.TypeOf(localstatequery.QueryWrapper{})] = func(n *xcbor.Node) *schema {
		return leaf(sArrayOpaque, "Query", "QueryWrapper.UnmarshalCBOR")
	}
	customSchemas[reflect.TypeOf(lcommon.LeiosVote{})] = func(n *xcbor.Node) *schema {
		const c = "LeiosVote.UnmarshalCBOR"
		return fixed(c, "LeiosVote", leaf(sUint, "SlotNo", c), leaf(sBytes, "EndorserBlockHash", c), leaf(sUint, "VoterId", c), leaf(sBytes, "VoteSignature", c))
	}
	customSchemas[reflect.TypeOf(lcommon.LeiosPrototypeVote{})] = func(n *xcbor.Node) *schema {
		const c = "LeiosPrototypeVote.UnmarshalCBOR"
		return fixed(c, "LeiosPrototypeVote", leaf(sBytes, "AnnouncingRbHash", c), leaf(sUint, "VoterId", c), leaf(sBytes, "VoteSignature", c))
	}
	// whole messages with a hand-written decoder
	customSchemas[reflect.TypeOf(localtxmonitor.MsgReplyNextTx{})] = func(n *xcbor.Node) *schema {
		// [6] (no more transactions) | [6, [era, #6.24(bytes)]]
		const c = "MsgReplyNextTx.UnmarshalCBOR"
		s := fixed(c, "MsgReplyNextTx", leaf(sUint, "MessageType", c))
		if len(n.Items) > 1 {
			s.Fields = append(s.Fields, fixed(c, "Transaction", leaf(sUint, "EraId", c), leaf(sTagAny, "Tx", c)))
			s.NoDropLast = true // [6] is the other legal form
		} else {
			s.NoAppend = true // [6, x]: x is then judged as the transaction wrapper, covered by the 2-element case
		}
		return s
	}
	customSchemas[reflect.TypeOf(leiosfetch.MsgBlockTxs{})] = func(n *xcbor.Node) *schema {
		const c = "MsgBlockTxs.UnmarshalCBOR"
		if len(n.Items) == 4 {
			return fixed(c, "MsgBlockTxs", leaf(sUint, "MessageType", c),
				&schema{Kind: sPoint, Name: "Point", Custom: "Point.UnmarshalCBOR"},
				leaf(sMap, "Bitmaps", c),
				&schema{Kind: sList, Name: "TxsRaw", Elem: leaf(sOpaque, "tx", c), Custom: c})
		}
		return fixed(c, "MsgBlockTxs", leaf(sUint, "MessageType", c),
			&schema{Kind: sList, Name: "TxsRaw", Elem: leaf(sOpaque, "tx", c), Custom: c})
	}
	customSchemas[reflect.TypeOf(leiosnotify.MsgVotesOffer{})] = func(n *xcbor.Node) *schema {
		// [4, [ *vote ]] where a vote is a 2- (id), 3- (prototype) or 4-element (full) array
		const c = "MsgVotesOffer.UnmarshalCBOR"
		return fixed(c, "MsgVotesOffer", leaf(sUint, "MessageType", c),
			&schema{Kind: sList, Name: "Votes", Custom: c, Elem: &schema{Kind: sFixed, Name: "vote", Custom: c, Fields: nil}})
	}
}

// voteSchema resolves the element schema of MsgVotesOffer per actual vote node.
func voteSchema(n *xcbor.Node) *schema {
	const c = "MsgVotesOffer.UnmarshalCBOR"
	switch len(n.Items) {
	case 2:
		return fixed(c, "voteId", leaf(sUint, "SlotNo", c), leaf(sUint, "VoterId", c))
	case 3:
		return fixed(c, "prototypeVote", leaf(sBytes, "AnnouncingRbHash", c), leaf(sUint, "VoterId", c), leaf(sBytes, "VoteSignature", c))
	default:
		return fixed(c, "fullVote", leaf(sUint, "SlotNo", c), leaf(sBytes, "EndorserBlockHash", c), leaf(sUint, "VoterId", c), leaf(sBytes, "VoteSignature", c))
	}
}

// aliasDecoded: types whose UnmarshalCBOR first decodes the value through a
// method-less alias of the same struct (i.e. by the generic decoder with the
// struct's own layout) and then post-processes; their layout is the reflected one.
var aliasDecoded = map[reflect.Type]bool{
	reflect.TypeOf(chainsync.MsgRollForwardNtC{}): true,
}

func hasCustomUnmarshal(t reflect.Type) bool {
	_, ok := reflect.PointerTo(t).MethodByName("UnmarshalCBOR")
	return ok
}

// schemaOf derives the schema of Go type t as the generic decoder sees it.
// n is the node of the valid encoding aligned with it (may be nil).
func schemaOf(t reflect.Type, name string, n *xcbor.Node) *schema {
	if f, ok := customSchemas[t]; ok {
		if n == nil {
			n = &xcbor.Node{}
		}
		s := f(n)
		if s.Name == "" {
			s.Name = name
		}
		return s
	}
	gt := t.String()
	switch {
	case t == tRawMessage:
		return &schema{Kind: sOpaque, Name: name, GoType: gt}
	case t == tTag:
		return &schema{Kind: sTagAny, Name: name, GoType: gt}
	case t == tIP:
		return &schema{Kind: sBytes, Name: name, GoType: gt}
	}
	if hasCustomUnmarshal(t) && !aliasDecoded[t] {
		// a hand-written decoder that is not in the reviewed table: no claims
		return &schema{Kind: sOpaque, Name: name, GoType: gt, Custom: "unreviewed:" + gt}
	}
	switch t.Kind() {
	case reflect.Uint, reflect.Uint8, reflect.Uint16, reflect.Uint32, reflect.Uint64:
		return &schema{Kind: sUint, Name: name, GoType: gt}
	case reflect.Int, reflect.Int8, reflect.Int16, reflect.Int32, reflect.Int64:
		return &schema{Kind: sInt, Name: name, GoType: gt}
	case reflect.Bool:
		return &schema{Kind: sBool, Name: name, GoType: gt}
	case reflect.String:
		return &schema{Kind: sText, Name: name, GoType: gt}
	case reflect.Interface:
		return &schema{Kind: sOpaque, Name: name, GoType: gt}
	case reflect.Slice, reflect.Array:
		if t.Elem().Kind() == reflect.Uint8 {
			return &schema{Kind: sBytes, Name: name, GoType: gt}
		}
		if t.Elem().Kind() == reflect.Interface {
			return &schema{Kind: sOpaque, Name: name, GoType: gt} // []any
		}
		var en *xcbor.Node
		if n != nil && n.Kind == xcbor.Array && len(n.Items) > 0 {
			en = n.Items[0]
		}
		return &schema{Kind: sList, Name: name, GoType: gt, Elem: schemaOf(t.Elem(), "*", en)}
	case reflect.Map:
		return &schema{Kind: sMap, Name: name, GoType: gt}
	case reflect.Struct:
		fields, toArray := structFields(t)
		if !toArray {
			return &schema{Kind: sOpaque, Name: name, GoType: gt, Custom: "struct-as-map:" + gt}
		}
		s := &schema{Kind: sFixed, Name: name, GoType: gt}
		for i, f := range fields {
			var fn *xcbor.Node
			if n != nil && n.Kind == xcbor.Array && i < len(n.Items) {
				fn = n.Items[i]
			}
			s.Fields = append(s.Fields, schemaOf(f.Type, f.Name, fn))
		}
		return s
	}
	return &schema{Kind: sOpaque, Name: name, GoType: gt}
}

// structFields flattens the exported, encoded fields of a struct the way the
// generic decoder does (embedded structs inline, `cbor:"-"` skipped) and
// reports whether the struct carries the toarray marker.
func structFields(t reflect.Type) ([]reflect.StructField, bool) {
	var out []reflect.StructField
	toArray := false
	for i := 0; i < t.NumField(); i++ {
		f := t.Field(i)
		tag := f.Tag.Get("cbor")
		if f.Name == "_" {
			if strings.Contains(tag, "toarray") {
				toArray = true
			}
			continue
		}
		if tag == "-" {
			continue
		}
		if f.Anonymous && f.Type.Kind() == reflect.Struct && !hasCustomUnmarshal(f.Type) {
			sub, ta := structFields(f.Type)
			if ta {
				toArray = true
			}
			out = append(out, sub...)
			continue
		}
		if f.PkgPath != "" {
			continue
		}
		out = append(out, f)
	}
	return out, toArray
}

// ---- edit sites ---------------------------------------------------------------

type shapeEdit struct {
	Node     string // name of the edited schema node
	Path     string // schema path with list indices replaced by *
	Edit     string // drop-last | append | swap:<from>-><to> | point:<form> | null
	Custom   string // decoder responsible for the edited node
	GoType   string
	pointLen int // for point edits: length of the edited list; -1 otherwise
	apply    func()
	undo     func()
}

// FindingKey names the class of input that was wrongly accepted. Two classes
// have one root cause each in the generic CBOR layer, whatever the message:
// null/undefined decodes into the zero value of any destination, and a CBOR
// array of small integers decodes into a Go byte slice/array. Everything else is
// keyed by the responsible decoder, the schema node and the edit.
func (e shapeEdit) FindingKey() string {
	switch {
	case strings.HasPrefix(e.Edit, "null:") && e.Custom == "":
		return "shape:null-for-required-field"
	case e.Edit == "swap:bytes->array" && e.Custom == "":
		return "shape:array-for-byte-string"
	case strings.HasPrefix(e.Edit, "null:"):
		// a hand-written decoder is responsible for this node: the generic
		// coercion does not excuse it, so the class names the decoder
		return "shape:null-for-required-field:" + e.Custom
	case e.Edit == "swap:bytes->array":
		return "shape:array-for-byte-string:" + e.Custom
	case strings.HasPrefix(e.Edit, "point:") && e.pointLen >= 0 && e.pointLen != 0 && e.pointLen != 2:
		return "shape:Point.UnmarshalCBOR:list-length-not-0-or-2"
	}
	ed := e.Edit
	if strings.HasPrefix(ed, "append-") {
		ed = "append"
	}
	dec := e.Custom
	if dec == "" {
		dec = "generic(" + e.GoType + ")"
	}
	return "shape:" + dec + ":" + e.Node + ":" + ed
}

var swapKinds = []xcbor.Kind{xcbor.Uint, xcbor.Nint, xcbor.Bytes, xcbor.Text, xcbor.Array, xcbor.Map}

func replacement(k xcbor.Kind) *xcbor.Node {
	switch k {
	case xcbor.Uint:
		return xcbor.U(1)
	case xcbor.Nint:
		return xcbor.I(-1)
	case xcbor.Bytes:
		return xcbor.B([]byte{1})
	case xcbor.Text:
		return xcbor.T("a")
	case xcbor.Array:
		return xcbor.A()
	default:
		return xcbor.M()
	}
}

// legalKinds: the CBOR major types a field of schema kind k may legitimately
// have on the wire (a swap is only an edit when the target is outside this set).
func legalKinds(k sKind) map[xcbor.Kind]bool {
	switch k {
	case sUint:
		return map[xcbor.Kind]bool{xcbor.Uint: true}
	case sInt:
		return map[xcbor.Kind]bool{xcbor.Uint: true, xcbor.Nint: true}
	case sBool:
		return map[xcbor.Kind]bool{}
	case sBytes:
		return map[xcbor.Kind]bool{xcbor.Bytes: true}
	case sText:
		return map[xcbor.Kind]bool{xcbor.Text: true}
	case sFixed, sList, sPoint, sArrayOpaque:
		return map[xcbor.Kind]bool{xcbor.Array: true}
	case sMap:
		return map[xcbor.Kind]bool{xcbor.Map: true}
	case sTagAny:
		return map[xcbor.Kind]bool{}
	}
	return nil // opaque: everything legal
}

// collectEdits walks schema and tree together and returns every shape edit.
// slot is the pointer through which the node can be replaced.
//
// The root node itself is never replaced and never emptied: the protocol's
// receive loop only hands NewMsgFromCbor a non-empty list whose first element
// decoded as an unsigned type id, so "the whole message is null / a string /
// the empty list" is not a received message of any type.
func collectEdits(s *schema, slot **xcbor.Node, path string, out *[]shapeEdit) {
	n := *slot
	if s.Kind == sOpaque {
		return
	}
	isRoot := path == ""
	p := path + "/" + s.Name
	// type swaps of the whole node (a tag in front of a scalar is part of the node)
	if legal := legalKinds(s.Kind); legal != nil && !isRoot {
		inner := n
		for inner.Kind == xcbor.Tag {
			inner = inner.Items[0]
		}
		for _, k := range swapKinds {
			if legal[k] {
				continue
			}
			if k == inner.Kind && n.Kind != xcbor.Tag {
				continue
			}
			k := k
			orig := n
			*out = append(*out, shapeEdit{Node: s.Name,
				Path: p, Edit: fmt.Sprintf("swap:%s->%s", kindName(s.Kind), k), Custom: s.Custom, GoType: s.GoType,
				apply: func() { *slot = replacement(k) }, undo: func() { *slot = orig },
			})
		}
		// null in place of a required value
		orig := n
		*out = append(*out, shapeEdit{Node: s.Name,
			Path: p, Edit: fmt.Sprintf("null:%s", kindName(s.Kind)), Custom: s.Custom, GoType: s.GoType,
			apply: func() { *slot = xcbor.Null() }, undo: func() { *slot = orig },
		})
	}
	switch s.Kind {
	case sFixed:
		if n.Kind != xcbor.Array {
			return
		}
		fields := s.Fields
		if fields == nil && s.Name == "vote" {
			vs := voteSchema(n)
			fields = vs.Fields
			p = path + "/" + vs.Name
		}
		arr := n
		origItems := arr.Items
		if !s.NoDropLast && len(arr.Items) > 0 && !(isRoot && len(arr.Items) == 1) {
			*out = append(*out, shapeEdit{Node: s.Name,
				Path: p, Edit: "drop-last", Custom: s.Custom, GoType: s.GoType,
				apply: func() { arr.Items = origItems[:len(origItems)-1] },
				undo:  func() { arr.Items = origItems },
			})
		}
		if !s.NoAppend {
			for _, extra := range []struct {
				name string
				n    *xcbor.Node
			}{{"uint", xcbor.U(0)}, {"bytes", xcbor.B([]byte{})}, {"array", xcbor.A()}} {
				extra := extra
				*out = append(*out, shapeEdit{Node: s.Name,
					Path: p, Edit: "append-" + extra.name, Custom: s.Custom, GoType: s.GoType,
					// copy: the element slots of origItems are referenced by other edits
					apply: func() { arr.Items = append(append([]*xcbor.Node(nil), origItems...), extra.n) },
					undo:  func() { arr.Items = origItems },
				})
			}
		}
		for i, f := range fields {
			if i >= len(arr.Items) {
				break
			}
			collectEdits(f, &arr.Items[i], p, out)
		}
	case sList:
		if n.Kind != xcbor.Array || s.Elem == nil {
			return
		}
		for i := range n.Items {
			collectEdits(s.Elem, &n.Items[i], p, out)
		}
	case sPoint:
		if n.Kind != xcbor.Array {
			return
		}
		arr := n
		orig := arr.Items
		mk := func(name string, items func() []*xcbor.Node) {
			*out = append(*out, shapeEdit{Node: s.Name, pointLen: len(items()),
				Path: p, Edit: "point:" + name, Custom: s.Custom,
				apply: func() { arr.Items = items() }, undo: func() { arr.Items = orig },
			})
		}
		h32 := make([]byte, 32)
		switch len(orig) {
		case 0:
			mk("origin->1-element[slot]", func() []*xcbor.Node { return []*xcbor.Node{xcbor.U(7)} })
			mk("origin->1-element[hash]", func() []*xcbor.Node { return []*xcbor.Node{xcbor.B(h32)} })
			mk("origin->3-element", func() []*xcbor.Node { return []*xcbor.Node{xcbor.U(7), xcbor.B(h32), xcbor.U(0)} })
		case 2:
			mk("pair->1-element[slot]", func() []*xcbor.Node { return []*xcbor.Node{orig[0]} })
			mk("pair->1-element[hash]", func() []*xcbor.Node { return []*xcbor.Node{orig[1]} })
			mk("pair->3-element", func() []*xcbor.Node { return []*xcbor.Node{orig[0], orig[1], xcbor.U(0)} })
			mk("pair->4-element", func() []*xcbor.Node { return []*xcbor.Node{orig[0], orig[1], xcbor.U(0), xcbor.B(h32)} })
			mk("pair->swapped[hash,slot]", func() []*xcbor.Node { return []*xcbor.Node{orig[1], orig[0]} })
			mk("pair->slot-as-bytes", func() []*xcbor.Node { return []*xcbor.Node{xcbor.B([]byte{1}), orig[1]} })
			mk("pair->slot-negative", func() []*xcbor.Node { return []*xcbor.Node{xcbor.I(-1), orig[1]} })
			mk("pair->hash-as-uint", func() []*xcbor.Node { return []*xcbor.Node{orig[0], xcbor.U(5)} })
			mk("pair->hash-as-text", func() []*xcbor.Node { return []*xcbor.Node{orig[0], xcbor.T("abcd")} })
			mk("pair->hash-as-array", func() []*xcbor.Node { return []*xcbor.Node{orig[0], xcbor.A(xcbor.U(1), xcbor.U(2))} })
		}
	}
}

func kindName(k sKind) string {
	return [...]string{"uint", "int", "bool", "bytes", "text", "fixed", "list", "map", "point", "tag", "array", "opaque"}[k]
}

// messageSchema derives the schema of a decoded message value.
func messageSchema(msg any, root *xcbor.Node) *schema {
	t := reflect.TypeOf(msg)
	for t.Kind() == reflect.Pointer {
		t = t.Elem()
	}
	return schemaOf(t, t.Name(), root)
}
