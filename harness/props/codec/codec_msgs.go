package codec

import (
	"bytes"
	"fmt"
	"net"
	"reflect"
	"sort"

	gcbor "github.com/blinklabs-io/gouroboros/cbor"
	lcommon "github.com/blinklabs-io/gouroboros/ledger/common"
	"github.com/blinklabs-io/gouroboros/protocol"
	"github.com/blinklabs-io/gouroboros/protocol/blockfetch"
	"github.com/blinklabs-io/gouroboros/protocol/chainsync"
	pcommon "github.com/blinklabs-io/gouroboros/protocol/common"
	"github.com/blinklabs-io/gouroboros/protocol/handshake"
	"github.com/blinklabs-io/gouroboros/protocol/keepalive"
	"github.com/blinklabs-io/gouroboros/protocol/leiosfetch"
	"github.com/blinklabs-io/gouroboros/protocol/leiosnotify"
	"github.com/blinklabs-io/gouroboros/protocol/leiosvotes"
	"github.com/blinklabs-io/gouroboros/protocol/localmessagenotification"
	"github.com/blinklabs-io/gouroboros/protocol/localmessagesubmission"
	"github.com/blinklabs-io/gouroboros/protocol/localstatequery"
	"github.com/blinklabs-io/gouroboros/protocol/localtxmonitor"
	"github.com/blinklabs-io/gouroboros/protocol/localtxsubmission"
	"github.com/blinklabs-io/gouroboros/protocol/messagesubmission"
	"github.com/blinklabs-io/gouroboros/protocol/peersharing"
	"github.com/blinklabs-io/gouroboros/protocol/txsubmission"
	"golang.org/x/crypto/blake2b"
	"pgregory.net/rapid"

	"verif/harness/internal/fixtures"
	"verif/harness/internal/xcbor"
)

type decodeFn func(uint, []byte) (protocol.Message, error)

// msgCase is one constructed message together with everything the oracles need.
type msgCase struct {
	Proto  string
	Ctor   string
	Msg    protocol.Message
	TypeID uint // the message-type id of the protocol specification (harness table, not read from the message)
	Decode decodeFn
	Want   protocol.Message                  // expected decoded value when it legitimately differs from Msg (documented normalisation); nil = Msg
	Extra  func(dec protocol.Message) string // additional expectations (accessors over unexported state, independent wire checks)
	Desc   string
	// skipDeep: the constructor argument is an opaque `any` in caller form that
	// the decoder replaces by a typed tree; Extra carries the whole expectation.
	skipDeep bool
}

type ctorEntry struct {
	Proto  string
	Ctor   string
	TypeID uint
	Decode decodeFn
	Gen    func(rt *rapid.T, c *msgCase)
}

// protoDecoders lists every protocol's NewMsgFromCbor (chain-sync twice: NtN and NtC mode).
var protoDecoders = []struct {
	Name   string
	Decode decodeFn
}{
	{"handshake", handshake.NewMsgFromCbor},
	{"chainsync-ntn", chainsync.NewMsgFromCborNtN},
	{"chainsync-ntc", chainsync.NewMsgFromCborNtC},
	{"blockfetch", blockfetch.NewMsgFromCbor},
	{"txsubmission", txsubmission.NewMsgFromCbor},
	{"keepalive", keepalive.NewMsgFromCbor},
	{"peersharing", peersharing.NewMsgFromCbor},
	{"localtxsubmission", localtxsubmission.NewMsgFromCbor},
	{"localtxmonitor", localtxmonitor.NewMsgFromCbor},
	{"localstatequery", localstatequery.NewMsgFromCbor},
	{"messagesubmission", messagesubmission.NewMsgFromCbor},
	{"localmessagesubmission", localmessagesubmission.NewMsgFromCbor},
	{"localmessagenotification", localmessagenotification.NewMsgFromCbor},
	{"leiosfetch", leiosfetch.NewMsgFromCbor},
	{"leiosnotify", leiosnotify.NewMsgFromCbor},
	{"leiosvotes", leiosvotes.NewMsgFromCbor},
}

func decoderOf(name string) decodeFn {
	for _, p := range protoDecoders {
		if p.Name == name {
			return p.Decode
		}
	}
	panic("no decoder " + name)
}

// ---- argument generators ---------------------------------------------------

// genPoint: a chain point is the origin or a slot with a block hash (32 bytes
// on Cardano; other non-zero lengths are drawn occasionally). NewPoint(slot, nil)
// with slot != 0 is not a chain point and is not generated.
func genPoint(rt *rapid.T) pcommon.Point {
	switch rapid.IntRange(0, 9).Draw(rt, "pointKind") {
	case 0, 1:
		return pcommon.NewPointOrigin()
	case 2:
		return pcommon.NewPoint(genU64(rt, "slot"), genBytesNonNil(rt, "hashOdd", 1, 64))
	default:
		return pcommon.NewPoint(genU64(rt, "slot"), genBytesNonNil(rt, "hash", 32, 32))
	}
}

func descPoint(p pcommon.Point) string {
	if p.Slot == 0 && p.Hash == nil {
		return "origin"
	}
	return fmt.Sprintf("(%d,%x)", p.Slot, p.Hash)
}

func genTip(rt *rapid.T) pcommon.Tip {
	return pcommon.Tip{Point: genPoint(rt), BlockNumber: genU64(rt, "blockNo")}
}

// version data of the five wire layouts + the independent expected encoding
func genVersionData(rt *rapid.T) (protocol.VersionData, *xcbor.Node) {
	magic := genU32(rt, "magic")
	b1 := rapid.Bool().Draw(rt, "vb1")
	b2 := rapid.Bool().Draw(rt, "vb2")
	ps := uint(rapid.IntRange(0, 2).Draw(rt, "peerSharing"))
	switch rapid.IntRange(0, 4).Draw(rt, "vdKind") {
	case 0:
		return protocol.VersionDataNtC9to14(magic), xcbor.U(uint64(magic))
	case 1:
		return protocol.VersionDataNtC15andUp{CborNetworkMagic: magic, CborQuery: b1},
			xcbor.A(xcbor.U(uint64(magic)), xcbor.Bool(b1))
	case 2:
		return protocol.VersionDataNtN7to10{CborNetworkMagic: magic, CborInitiatorAndResponderDiffusionMode: b1},
			xcbor.A(xcbor.U(uint64(magic)), xcbor.Bool(b1))
	case 3:
		return protocol.VersionDataNtN11to12{CborNetworkMagic: magic, CborInitiatorAndResponderDiffusionMode: b1, CborPeerSharing: ps, CborQuery: b2},
			xcbor.A(xcbor.U(uint64(magic)), xcbor.Bool(b1), xcbor.U(uint64(ps)), xcbor.Bool(b2))
	default:
		return protocol.VersionDataNtN13andUp{VersionDataNtN11to12: protocol.VersionDataNtN11to12{CborNetworkMagic: magic, CborInitiatorAndResponderDiffusionMode: b1, CborPeerSharing: ps, CborQuery: b2}},
			xcbor.A(xcbor.U(uint64(magic)), xcbor.Bool(b1), xcbor.U(uint64(ps)), xcbor.Bool(b2))
	}
}

func genVersionMap(rt *rapid.T) (protocol.ProtocolVersionMap, map[uint16][]byte) {
	n := rapid.IntRange(0, 5).Draw(rt, "nVersions")
	vm := protocol.ProtocolVersionMap{}
	want := map[uint16][]byte{}
	for i := 0; i < n; i++ {
		v := genU16(rt, "version")
		vd, enc := genVersionData(rt)
		vm[v] = vd
		want[v] = enc.Encode()
	}
	return vm, want
}

func checkVersionMap(got map[uint16]gcbor.RawMessage, want map[uint16][]byte) string {
	if len(got) != len(want) {
		return fmt.Sprintf("version map has %d entries, want %d", len(got), len(want))
	}
	for v, w := range want {
		if !bytes.Equal(got[v], w) {
			return fmt.Sprintf("version %d data = %x, independent encoding = %x", v, got[v], w)
		}
	}
	return ""
}

func genTxId(rt *rapid.T) txsubmission.TxId {
	var id [32]byte
	copy(id[:], genBytesN(rt, "txid", 32, 32))
	return txsubmission.TxId{EraId: genU16(rt, "era"), TxId: id}
}

func genDmq(rt *rapid.T) (pcommon.DmqMessage, pcommon.DmqMessage) {
	m := pcommon.DmqMessage{
		Payload: pcommon.DmqMessagePayload{
			MessageBody: genBytesNonNil(rt, "dmqBody", 0, 48),
			KESPeriod:   genU64(rt, "kesPeriod"),
			ExpiresAt:   genU32(rt, "expires"),
		},
		KESSignature: genBytesNonNil(rt, "kesSig", 0, 64),
		OperationalCertificate: pcommon.OperationalCertificate{
			KESVerificationKey: genBytesNonNil(rt, "kesVk", 0, 32),
			IssueNumber:        genU64(rt, "issue"),
			KESPeriod:          genU64(rt, "ocKes"),
			ColdSignature:      genBytesNonNil(rt, "coldSig", 0, 64),
		},
		ColdVerificationKey: genBytesNonNil(rt, "coldVk", 0, 32),
	}
	// Three ways a caller identifies the message: explicit id on the message,
	// id only inside the payload (legacy callers), or no id (the encoder then
	// computes blake2b-256 of the payload encoding, as documented on MarshalCBOR).
	want := m
	switch rapid.IntRange(0, 2).Draw(rt, "dmqIdKind") {
	case 0:
		id := genBytesNonNil(rt, "dmqId", 1, 32)
		m.MessageID = id
		want.MessageID = id
		want.Payload.MessageID = id
	case 1:
		id := genBytesNonNil(rt, "dmqPayloadId", 1, 32)
		m.Payload.MessageID = id
		want.MessageID = id
		want.Payload.MessageID = id
	default:
		enc := xcbor.A(xcbor.B(m.Payload.MessageBody), xcbor.U(m.Payload.KESPeriod), xcbor.U(uint64(m.Payload.ExpiresAt))).Encode()
		sum := blake2b.Sum256(enc)
		want.MessageID = sum[:]
		want.Payload.MessageID = sum[:]
	}
	return m, want
}

func genDmqList(rt *rapid.T) ([]pcommon.DmqMessage, []pcommon.DmqMessage) {
	n := rapid.IntRange(0, 3).Draw(rt, "nDmq")
	var ms, ws []pcommon.DmqMessage
	for i := 0; i < n; i++ {
		m, w := genDmq(rt)
		ms = append(ms, m)
		ws = append(ws, w)
	}
	return ms, ws
}

func genSig48(rt *rapid.T) []byte { return genBytesNonNil(rt, "blsSig", 48, 48) }

func genLeiosVote(rt *rapid.T) lcommon.LeiosVote {
	return lcommon.LeiosVote{
		SlotNo:            genU64(rt, "voteSlot"),
		EndorserBlockHash: lcommon.NewBlake2b256(genBytesN(rt, "ebHash", 32, 32)),
		VoterId:           genU64(rt, "voter"),
		VoteSignature:     genSig48(rt), // Validate() requires 48 bytes
	}
}

func genVoteIds(rt *rapid.T) []lcommon.LeiosVoteId {
	n := rapid.IntRange(0, 4).Draw(rt, "nVoteIds")
	var out []lcommon.LeiosVoteId
	for i := 0; i < n; i++ {
		out = append(out, lcommon.LeiosVoteId{SlotNo: genU64(rt, "vidSlot"), VoterId: genU64(rt, "vidVoter")})
	}
	return out
}

func genRawList(rt *rapid.T) []gcbor.RawMessage {
	n := rapid.IntRange(0, 3).Draw(rt, "nRaw")
	var out []gcbor.RawMessage
	for i := 0; i < n; i++ {
		out = append(out, gcbor.RawMessage(genRaw(rt, 2)))
	}
	return out
}

func genBitmaps(rt *rapid.T) map[uint16]uint64 {
	n := rapid.IntRange(0, 4).Draw(rt, "nBitmaps")
	m := map[uint16]uint64{}
	for i := 0; i < n; i++ {
		m[genU16(rt, "bmKey")] = genU64(rt, "bmVal")
	}
	return m
}

func genPeerAddr(rt *rapid.T) peersharing.PeerAddress {
	port := genU16(rt, "port")
	switch rapid.IntRange(0, 2).Draw(rt, "ipKind") {
	case 0:
		return peersharing.PeerAddress{IP: net.IP(genBytesN(rt, "ip4", 4, 4)), Port: port}
	case 1:
		b := genBytesN(rt, "ip4m", 4, 4)
		return peersharing.PeerAddress{IP: net.IPv4(b[0], b[1], b[2], b[3]), Port: port} // 16-byte form of a v4 address
	default:
		return peersharing.PeerAddress{IP: net.IP(genBytesN(rt, "ip6", 16, 16)), Port: port}
	}
}

// ---- local-state-query queries ----------------------------------------------

// leaf Shelley queries without parameters: id -> Go type the decoder must pick
// (transcribed from ouroboros-consensus' BlockQuery encoding, not read from the library's maps)
var lsqSimpleLeaves = []struct {
	ID   int
	Type reflect.Type
}{
	{0, reflect.TypeOf(&localstatequery.ShelleyLedgerTipQuery{})},
	{1, reflect.TypeOf(&localstatequery.ShelleyEpochNoQuery{})},
	{3, reflect.TypeOf(&localstatequery.ShelleyCurrentProtocolParamsQuery{})},
	{4, reflect.TypeOf(&localstatequery.ShelleyProposedProtocolParamsUpdatesQuery{})},
	{5, reflect.TypeOf(&localstatequery.ShelleyStakeDistributionQuery{})},
	{7, reflect.TypeOf(&localstatequery.ShelleyUtxoWholeQuery{})},
	{8, reflect.TypeOf(&localstatequery.ShelleyDebugEpochStateQuery{})},
	{11, reflect.TypeOf(&localstatequery.ShelleyGenesisConfigQuery{})},
	{12, reflect.TypeOf(&localstatequery.ShelleyDebugNewEpochStateQuery{})},
	{13, reflect.TypeOf(&localstatequery.ShelleyDebugChainDepStateQuery{})},
	{14, reflect.TypeOf(&localstatequery.ShelleyRewardProvenanceQuery{})},
	{16, reflect.TypeOf(&localstatequery.ShelleyStakePoolsQuery{})},
	{18, reflect.TypeOf(&localstatequery.ShelleyRewardInfoPoolsQuery{})},
	{19, reflect.TypeOf(&localstatequery.ShelleyPoolStateQuery{})},
	{23, reflect.TypeOf(&localstatequery.ShelleyConstitutionQuery{})},
	{24, reflect.TypeOf(&localstatequery.ShelleyGovStateQuery{})},
	{29, reflect.TypeOf(&localstatequery.ShelleyAccountStateQuery{})},
	{32, reflect.TypeOf(&localstatequery.ShelleyGetRatifyStateQuery{})},
}

// genLsqQuery returns the query in the []any form the client builds
// (buildShelleyQuery etc.), the independent encoding, and a checker for the
// decoded typed tree.
func genLsqQuery(rt *rapid.T) (q any, enc *xcbor.Node, check func(decoded any) string, desc string) {
	asBlock := func(dec any) (any, string) {
		bq, ok := dec.(*localstatequery.BlockQuery)
		if !ok {
			return nil, fmt.Sprintf("top query decoded as %T, want *BlockQuery", dec)
		}
		return bq.Query, ""
	}
	switch rapid.IntRange(0, 5).Draw(rt, "lsqKind") {
	case 0:
		return []any{1}, xcbor.A(xcbor.U(1)), func(d any) string {
			if _, ok := d.(*localstatequery.SystemStartQuery); !ok {
				return fmt.Sprintf("[1] decoded as %T, want *SystemStartQuery", d)
			}
			return ""
		}, "system-start"
	case 1:
		id := rapid.SampledFrom([]int{2, 3}).Draw(rt, "chainQ")
		return []any{id}, xcbor.A(xcbor.U(uint64(id))), func(d any) string {
			switch d.(type) {
			case *localstatequery.ChainBlockNoQuery:
				if id == 2 {
					return ""
				}
			case *localstatequery.ChainPointQuery:
				if id == 3 {
					return ""
				}
			}
			return fmt.Sprintf("[%d] decoded as %T", id, d)
		}, fmt.Sprintf("chain-%d", id)
	case 2:
		id := rapid.IntRange(0, 1).Draw(rt, "hfQ")
		return []any{0, []any{2, []any{id}}},
			xcbor.A(xcbor.U(0), xcbor.A(xcbor.U(2), xcbor.A(xcbor.U(uint64(id))))),
			func(d any) string {
				in, e := asBlock(d)
				if e != "" {
					return e
				}
				hf, ok := in.(*localstatequery.HardForkQuery)
				if !ok {
					return fmt.Sprintf("block sub-query decoded as %T, want *HardForkQuery", in)
				}
				switch hf.Query.(type) {
				case *localstatequery.HardForkEraHistoryQuery:
					if id == 0 {
						return ""
					}
				case *localstatequery.HardForkCurrentEraQuery:
					if id == 1 {
						return ""
					}
				}
				return fmt.Sprintf("hard-fork query %d decoded as %T", id, hf.Query)
			}, fmt.Sprintf("hardfork-%d", id)
	default:
		era := uint(rapid.IntRange(0, 7).Draw(rt, "lsqEra"))
		kind := rapid.IntRange(0, 3).Draw(rt, "leafKind")
		var leafAny any
		var leafEnc *xcbor.Node
		var leafType reflect.Type
		var leafID int
		wrapCbor := false
		switch kind {
		case 0: // ledger peer snapshot with peer kind
			pk := rapid.IntRange(0, 1).Draw(rt, "peerKind")
			leafID = 34
			leafAny = []any{34, pk}
			leafEnc = xcbor.A(xcbor.U(34), xcbor.U(uint64(pk)))
			leafType = reflect.TypeOf(&localstatequery.ShelleyGetLedgerPeerSnapshotQuery{})
		default:
			l := rapid.SampledFrom(lsqSimpleLeaves).Draw(rt, "leaf")
			leafID = l.ID
			leafAny = []any{l.ID}
			leafEnc = xcbor.A(xcbor.U(uint64(l.ID)))
			leafType = l.Type
			wrapCbor = kind == 1 // GetCBOR combinator [9, inner]
		}
		inner := leafAny
		innerEnc := leafEnc
		if wrapCbor {
			inner = []any{9, leafAny}
			innerEnc = xcbor.A(xcbor.U(9), leafEnc)
		}
		return []any{0, []any{0, []any{era, inner}}},
			xcbor.A(xcbor.U(0), xcbor.A(xcbor.U(0), xcbor.A(xcbor.U(uint64(era)), innerEnc))),
			func(d any) string {
				in, e := asBlock(d)
				if e != "" {
					return e
				}
				sq, ok := in.(*localstatequery.ShelleyQuery)
				if !ok {
					return fmt.Sprintf("block sub-query decoded as %T, want *ShelleyQuery", in)
				}
				if sq.Era != era {
					return fmt.Sprintf("era %d decoded as %d", era, sq.Era)
				}
				leaf := sq.Query
				if wrapCbor {
					cq, ok := leaf.(*localstatequery.ShelleyCborQuery)
					if !ok {
						return fmt.Sprintf("[9, q] decoded as %T, want *ShelleyCborQuery", leaf)
					}
					leaf = cq.Query
				}
				if reflect.TypeOf(leaf) != leafType {
					return fmt.Sprintf("shelley query %d decoded as %T, want %s", leafID, leaf, leafType)
				}
				tf := reflect.ValueOf(leaf).Elem().FieldByName("Type")
				if !tf.IsValid() || tf.Int() != int64(leafID) {
					return fmt.Sprintf("shelley query %d: decoded Type field = %v", leafID, tf)
				}
				return ""
			}, fmt.Sprintf("shelley era=%d leaf=%d cbor=%v", era, leafID, wrapCbor)
	}
}

// genLsqTyped builds the query from the library's exported typed structs (the
// form a server-side test or a proxy would use); the decoded tree must be
// deeply equal.
func genLsqTyped(rt *rapid.T) (any, string) {
	era := uint(rapid.IntRange(0, 7).Draw(rt, "tEra"))
	switch rapid.IntRange(0, 3).Draw(rt, "typedKind") {
	case 0:
		q := &localstatequery.ShelleyEpochNoQuery{}
		q.Type = 1
		return &localstatequery.BlockQuery{Query: &localstatequery.ShelleyQuery{Era: era, Query: q}}, "typed epoch-no"
	case 1:
		q := &localstatequery.HardForkCurrentEraQuery{}
		q.Type = 1
		return &localstatequery.BlockQuery{Query: &localstatequery.HardForkQuery{Query: q}}, "typed current-era"
	case 2:
		q := &localstatequery.ShelleyGetLedgerPeerSnapshotQuery{Type: 34, PeerKind: localstatequery.LedgerPeerKind(rapid.IntRange(0, 1).Draw(rt, "tpk"))}
		return &localstatequery.BlockQuery{Query: &localstatequery.ShelleyQuery{Era: era, Query: q}}, "typed ledger-peer-snapshot"
	default:
		q := &localstatequery.SystemStartQuery{}
		q.Type = 1
		return q, "typed system-start"
	}
}

// ---- the constructor table --------------------------------------------------

func noArgs(f func() protocol.Message) func(rt *rapid.T, c *msgCase) {
	return func(rt *rapid.T, c *msgCase) { c.Msg = f(); c.Desc = "()" }
}

func hx(b []byte) string {
	if len(b) > 40 {
		return fmt.Sprintf("%x…(%d bytes)", b[:40], len(b))
	}
	return fmt.Sprintf("%x", b)
}

var ctorTable []ctorEntry

func reg(proto, ctor string, id uint, gen func(rt *rapid.T, c *msgCase)) {
	ctorTable = append(ctorTable, ctorEntry{Proto: proto, Ctor: ctor, TypeID: id, Decode: decoderOf(proto), Gen: gen})
}

func init() {
	// ---------------- handshake ----------------
	reg("handshake", "NewMsgProposeVersions", 0, func(rt *rapid.T, c *msgCase) {
		vm, want := genVersionMap(rt)
		c.Msg = handshake.NewMsgProposeVersions(vm)
		c.Desc = fmt.Sprintf("%d versions", len(vm))
		c.Extra = func(d protocol.Message) string {
			return checkVersionMap(d.(*handshake.MsgProposeVersions).VersionMap, want)
		}
	})
	reg("handshake", "NewMsgAcceptVersion", 1, func(rt *rapid.T, c *msgCase) {
		v := genU16(rt, "version")
		vd, enc := genVersionData(rt)
		c.Msg = handshake.NewMsgAcceptVersion(v, vd)
		c.Desc = fmt.Sprintf("v=%d data=%x", v, enc.Encode())
		c.Extra = func(d protocol.Message) string {
			m := d.(*handshake.MsgAcceptVersion)
			if m.Version != v || !bytes.Equal(m.VersionData, enc.Encode()) {
				return fmt.Sprintf("decoded (%d,%x), independent expectation (%d,%x)", m.Version, m.VersionData, v, enc.Encode())
			}
			return ""
		}
	})
	reg("handshake", "NewMsgRefuse", 2, func(rt *rapid.T, c *msgCase) {
		var reason []any
		switch rapid.IntRange(0, 2).Draw(rt, "refuseKind") {
		case 0:
			n := rapid.IntRange(0, 4).Draw(rt, "nSupported")
			vs := make([]uint16, n)
			for i := range vs {
				vs[i] = genU16(rt, "supported")
			}
			reason = []any{handshake.RefuseReasonVersionMismatch, vs}
		case 1:
			reason = []any{handshake.RefuseReasonDecodeError, genU16(rt, "rv"), genText(rt, "rmsg", 20)}
		default:
			reason = []any{handshake.RefuseReasonRefused, genU16(rt, "rv"), genText(rt, "rmsg", 20)}
		}
		c.Msg = handshake.NewMsgRefuse(reason)
		c.Desc = fmt.Sprintf("%v", reason)
	})
	reg("handshake", "NewMsgQueryReply", 3, func(rt *rapid.T, c *msgCase) {
		vm, want := genVersionMap(rt)
		c.Msg = handshake.NewMsgQueryReply(vm)
		c.Desc = fmt.Sprintf("%d versions", len(vm))
		c.Extra = func(d protocol.Message) string {
			return checkVersionMap(d.(*handshake.MsgQueryReply).VersionMap, want)
		}
	})

	// ---------------- chain-sync (both modes share the simple messages) ----------------
	for _, mode := range []string{"chainsync-ntn", "chainsync-ntc"} {
		mode := mode
		reg(mode, "NewMsgRequestNext", 0, noArgs(func() protocol.Message { return chainsync.NewMsgRequestNext() }))
		reg(mode, "NewMsgAwaitReply", 1, noArgs(func() protocol.Message { return chainsync.NewMsgAwaitReply() }))
		reg(mode, "NewMsgRollBackward", 3, func(rt *rapid.T, c *msgCase) {
			p, tip := genPoint(rt), genTip(rt)
			c.Msg = chainsync.NewMsgRollBackward(p, tip)
			c.Desc = fmt.Sprintf("point=%s tip=%s/%d", descPoint(p), descPoint(tip.Point), tip.BlockNumber)
		})
		reg(mode, "NewMsgFindIntersect", 4, func(rt *rapid.T, c *msgCase) {
			n := rapid.IntRange(0, 5).Draw(rt, "nPoints")
			var ps []pcommon.Point
			d := ""
			for i := 0; i < n; i++ {
				p := genPoint(rt)
				ps = append(ps, p)
				d += descPoint(p) + " "
			}
			c.Msg = chainsync.NewMsgFindIntersect(ps)
			c.Desc = d
		})
		reg(mode, "NewMsgIntersectFound", 5, func(rt *rapid.T, c *msgCase) {
			p, tip := genPoint(rt), genTip(rt)
			c.Msg = chainsync.NewMsgIntersectFound(p, tip)
			c.Desc = fmt.Sprintf("point=%s tip=%s/%d", descPoint(p), descPoint(tip.Point), tip.BlockNumber)
		})
		reg(mode, "NewMsgIntersectNotFound", 6, func(rt *rapid.T, c *msgCase) {
			tip := genTip(rt)
			c.Msg = chainsync.NewMsgIntersectNotFound(tip)
			c.Desc = fmt.Sprintf("tip=%s/%d", descPoint(tip.Point), tip.BlockNumber)
		})
		reg(mode, "NewMsgDone", 7, noArgs(func() protocol.Message { return chainsync.NewMsgDone() }))
	}
	reg("chainsync-ntc", "NewMsgRollForwardNtC", 2, func(rt *rapid.T, c *msgCase) {
		bt := uint(rapid.IntRange(0, 8).Draw(rt, "blockType"))
		var blk []byte
		if rapid.IntRange(0, 3).Draw(rt, "useFixture") == 0 {
			blk = rapid.SampledFrom(fixtures.SmallBlocks()).Draw(rt, "fixture").Bytes
		} else {
			blk = genRaw(rt, 3)
		}
		tip := genTip(rt)
		m, err := chainsync.NewMsgRollForwardNtC(bt, blk, tip)
		if err != nil {
			rt.Fatalf("harness: NewMsgRollForwardNtC: %v", err)
		}
		c.Msg = m
		c.Desc = fmt.Sprintf("type=%d block=%s", bt, hx(blk))
		c.Extra = func(d protocol.Message) string {
			dm := d.(*chainsync.MsgRollForwardNtC)
			if dm.BlockType() != bt || !bytes.Equal(dm.BlockCbor(), blk) {
				return fmt.Sprintf("BlockType()/BlockCbor() = %d/%s, constructed with %d/%s", dm.BlockType(), hx(dm.BlockCbor()), bt, hx(blk))
			}
			return ""
		}
	})
	reg("chainsync-ntn", "NewMsgRollForwardNtN", 2, func(rt *rapid.T, c *msgCase) {
		era := uint(rapid.IntRange(0, 7).Draw(rt, "era"))
		byronType := uint(0)
		if era == 0 {
			byronType = uint(rapid.IntRange(0, 1).Draw(rt, "byronType"))
		}
		// the constructor takes a block = array whose first element is the header
		header := genTree(rt, 2)
		var blk []byte
		if rapid.IntRange(0, 3).Draw(rt, "useFixture") == 0 {
			blk = rapid.SampledFrom(fixtures.SmallBlocks()).Draw(rt, "fixture").Bytes
			n, _, err := xcbor.Parse(blk)
			if err != nil || n.Kind != xcbor.Array || len(n.Items) == 0 {
				rt.Fatalf("harness: fixture is not an array")
			}
			header = n.Items[0]
			header = xcbor.Raw(header.Src(blk))
		} else {
			blk = xcbor.A(header, genTree(rt, 1)).Encode()
		}
		tip := genTip(rt)
		m, err := chainsync.NewMsgRollForwardNtN(era, byronType, blk, tip)
		if err != nil {
			rt.Fatalf("harness: NewMsgRollForwardNtN: %v", err)
		}
		c.Msg = m
		hdr := header.Encode()
		c.Desc = fmt.Sprintf("era=%d byronType=%d header=%s", era, byronType, hx(hdr))
		c.Extra = func(d protocol.Message) string {
			dm := d.(*chainsync.MsgRollForwardNtN)
			if !bytes.Equal(dm.WrappedHeader.HeaderCbor(), hdr) {
				return fmt.Sprintf("HeaderCbor() = %s, header item of the block = %s", hx(dm.WrappedHeader.HeaderCbor()), hx(hdr))
			}
			if dm.WrappedHeader.ByronType() != byronType {
				return fmt.Sprintf("ByronType() = %d, constructed with %d", dm.WrappedHeader.ByronType(), byronType)
			}
			return ""
		}
	})

	// ---------------- block-fetch ----------------
	reg("blockfetch", "NewMsgRequestRange", 0, func(rt *rapid.T, c *msgCase) {
		a, b := genPoint(rt), genPoint(rt)
		c.Msg = blockfetch.NewMsgRequestRange(a, b)
		c.Desc = descPoint(a) + ".." + descPoint(b)
	})
	reg("blockfetch", "NewMsgClientDone", 1, noArgs(func() protocol.Message { return blockfetch.NewMsgClientDone() }))
	reg("blockfetch", "NewMsgStartBatch", 2, noArgs(func() protocol.Message { return blockfetch.NewMsgStartBatch() }))
	reg("blockfetch", "NewMsgNoBlocks", 3, noArgs(func() protocol.Message { return blockfetch.NewMsgNoBlocks() }))
	reg("blockfetch", "NewMsgBlock", 4, func(rt *rapid.T, c *msgCase) {
		b := genBytesNonNil(rt, "wrappedBlock", 0, 200)
		c.Msg = blockfetch.NewMsgBlock(b)
		c.Desc = hx(b)
	})
	reg("blockfetch", "NewMsgBatchDone", 5, noArgs(func() protocol.Message { return blockfetch.NewMsgBatchDone() }))

	// ---------------- tx-submission ----------------
	reg("txsubmission", "NewMsgRequestTxIds", 0, func(rt *rapid.T, c *msgCase) {
		b, a, r := rapid.Bool().Draw(rt, "blocking"), genU16(rt, "ack"), genU16(rt, "req")
		c.Msg = txsubmission.NewMsgRequestTxIds(b, a, r)
		c.Desc = fmt.Sprintf("%v %d %d", b, a, r)
	})
	reg("txsubmission", "NewMsgReplyTxIds", 1, func(rt *rapid.T, c *msgCase) {
		n := rapid.IntRange(0, 4).Draw(rt, "nTxIds")
		var ids []txsubmission.TxIdAndSize
		for i := 0; i < n; i++ {
			ids = append(ids, txsubmission.TxIdAndSize{TxId: genTxId(rt), Size: genU32(rt, "size")})
		}
		c.Msg = txsubmission.NewMsgReplyTxIds(ids)
		c.Desc = fmt.Sprintf("%d ids", n)
	})
	reg("txsubmission", "NewMsgRequestTxs", 2, func(rt *rapid.T, c *msgCase) {
		n := rapid.IntRange(0, 4).Draw(rt, "nTxIds")
		var ids []txsubmission.TxId
		for i := 0; i < n; i++ {
			ids = append(ids, genTxId(rt))
		}
		c.Msg = txsubmission.NewMsgRequestTxs(ids)
		c.Desc = fmt.Sprintf("%d ids", n)
	})
	reg("txsubmission", "NewMsgReplyTxs", 3, func(rt *rapid.T, c *msgCase) {
		n := rapid.IntRange(0, 3).Draw(rt, "nTxs")
		var txs []txsubmission.TxBody
		for i := 0; i < n; i++ {
			txs = append(txs, txsubmission.TxBody{EraId: genU16(rt, "era"), TxBody: genBytesNonNil(rt, "txBody", 0, 100)})
		}
		c.Msg = txsubmission.NewMsgReplyTxs(txs)
		c.Desc = fmt.Sprintf("%d txs", n)
	})
	reg("txsubmission", "NewMsgDone", 4, noArgs(func() protocol.Message { return txsubmission.NewMsgDone() }))
	reg("txsubmission", "NewMsgInit", 6, noArgs(func() protocol.Message { return txsubmission.NewMsgInit() }))

	// ---------------- keep-alive ----------------
	reg("keepalive", "NewMsgKeepAlive", 0, func(rt *rapid.T, c *msgCase) {
		ck := genU16(rt, "cookie")
		c.Msg = keepalive.NewMsgKeepAlive(ck)
		c.Desc = fmt.Sprint(ck)
	})
	reg("keepalive", "NewMsgKeepAliveResponse", 1, func(rt *rapid.T, c *msgCase) {
		ck := genU16(rt, "cookie")
		c.Msg = keepalive.NewMsgKeepAliveResponse(ck)
		c.Desc = fmt.Sprint(ck)
	})
	reg("keepalive", "NewMsgDone", 2, noArgs(func() protocol.Message { return keepalive.NewMsgDone() }))

	// ---------------- peer-sharing ----------------
	reg("peersharing", "NewMsgShareRequest", 0, func(rt *rapid.T, c *msgCase) {
		a := genU8(rt, "amount")
		c.Msg = peersharing.NewMsgShareRequest(a)
		c.Desc = fmt.Sprint(a)
	})
	reg("peersharing", "NewMsgSharePeers", 1, func(rt *rapid.T, c *msgCase) {
		n := rapid.IntRange(0, 4).Draw(rt, "nPeers")
		var ps []peersharing.PeerAddress
		d := ""
		for i := 0; i < n; i++ {
			p := genPeerAddr(rt)
			ps = append(ps, p)
			d += fmt.Sprintf("%v:%d ", p.IP, p.Port)
		}
		c.Msg = peersharing.NewMsgSharePeers(ps)
		c.Desc = d
	})
	reg("peersharing", "NewMsgDone", 2, noArgs(func() protocol.Message { return peersharing.NewMsgDone() }))

	// ---------------- local-tx-submission ----------------
	reg("localtxsubmission", "NewMsgSubmitTx", 0, func(rt *rapid.T, c *msgCase) {
		era, tx := genU16(rt, "era"), genBytesNonNil(rt, "tx", 0, 120)
		c.Msg = localtxsubmission.NewMsgSubmitTx(era, tx)
		c.Desc = fmt.Sprintf("era=%d tx=%s", era, hx(tx))
	})
	reg("localtxsubmission", "NewMsgAcceptTx", 1, noArgs(func() protocol.Message { return localtxsubmission.NewMsgAcceptTx() }))
	reg("localtxsubmission", "NewMsgRejectTx", 2, func(rt *rapid.T, c *msgCase) {
		r := genRaw(rt, 3)
		c.Msg = localtxsubmission.NewMsgRejectTx(r)
		c.Desc = hx(r)
	})
	reg("localtxsubmission", "NewMsgDone", 3, noArgs(func() protocol.Message { return localtxsubmission.NewMsgDone() }))

	// ---------------- local-tx-monitor ----------------
	reg("localtxmonitor", "NewMsgDone", 0, noArgs(func() protocol.Message { return localtxmonitor.NewMsgDone() }))
	reg("localtxmonitor", "NewMsgAcquire", 1, noArgs(func() protocol.Message { return localtxmonitor.NewMsgAcquire() }))
	reg("localtxmonitor", "NewMsgAcquired", 2, func(rt *rapid.T, c *msgCase) {
		s := genU64(rt, "slot")
		c.Msg = localtxmonitor.NewMsgAcquired(s)
		c.Desc = fmt.Sprint(s)
	})
	reg("localtxmonitor", "NewMsgRelease", 3, noArgs(func() protocol.Message { return localtxmonitor.NewMsgRelease() }))
	reg("localtxmonitor", "NewMsgNextTx", 5, noArgs(func() protocol.Message { return localtxmonitor.NewMsgNextTx() }))
	reg("localtxmonitor", "NewMsgReplyNextTx", 6, func(rt *rapid.T, c *msgCase) {
		// "no more transactions" is NewMsgReplyNextTx(0, nil) (the only way the
		// server calls it without a tx); with a tx the era is significant.
		if rapid.IntRange(0, 3).Draw(rt, "empty") == 0 {
			c.Msg = localtxmonitor.NewMsgReplyNextTx(0, nil)
			c.Desc = "(0,nil)"
			return
		}
		era, tx := genU8(rt, "era"), genBytesNonNil(rt, "tx", 1, 120)
		c.Msg = localtxmonitor.NewMsgReplyNextTx(era, tx)
		c.Desc = fmt.Sprintf("era=%d tx=%s", era, hx(tx))
	})
	reg("localtxmonitor", "NewMsgHasTx", 7, func(rt *rapid.T, c *msgCase) {
		id := genBytesNonNil(rt, "txid", 0, 40)
		c.Msg = localtxmonitor.NewMsgHasTx(id)
		c.Desc = hx(id)
	})
	reg("localtxmonitor", "NewMsgReplyHasTx", 8, func(rt *rapid.T, c *msgCase) {
		b := rapid.Bool().Draw(rt, "has")
		c.Msg = localtxmonitor.NewMsgReplyHasTx(b)
		c.Desc = fmt.Sprint(b)
	})
	reg("localtxmonitor", "NewMsgGetSizes", 9, noArgs(func() protocol.Message { return localtxmonitor.NewMsgGetSizes() }))
	reg("localtxmonitor", "NewMsgReplyGetSizes", 10, func(rt *rapid.T, c *msgCase) {
		a, b, n := genU32(rt, "cap"), genU32(rt, "size"), genU32(rt, "ntx")
		c.Msg = localtxmonitor.NewMsgReplyGetSizes(a, b, n)
		c.Desc = fmt.Sprintf("%d %d %d", a, b, n)
	})

	// ---------------- local-state-query ----------------
	lsqPoint := func(ctor string, id uint, f func(p pcommon.Point) protocol.Message) {
		reg("localstatequery", ctor, id, func(rt *rapid.T, c *msgCase) {
			p := genPoint(rt)
			c.Msg = f(p)
			c.Desc = descPoint(p)
		})
	}
	lsqPoint("NewMsgAcquire", 0, func(p pcommon.Point) protocol.Message { return localstatequery.NewMsgAcquire(p) })
	reg("localstatequery", "NewMsgAcquired", 1, noArgs(func() protocol.Message { return localstatequery.NewMsgAcquired() }))
	reg("localstatequery", "NewMsgFailure", 2, func(rt *rapid.T, c *msgCase) {
		f := genU8(rt, "failure")
		c.Msg = localstatequery.NewMsgFailure(f)
		c.Desc = fmt.Sprint(f)
	})
	reg("localstatequery", "NewMsgQuery", 3, func(rt *rapid.T, c *msgCase) {
		if rapid.IntRange(0, 3).Draw(rt, "typedForm") == 0 {
			q, desc := genLsqTyped(rt)
			c.Msg = localstatequery.NewMsgQuery(q)
			c.Desc = desc
			return
		}
		q, enc, check, desc := genLsqQuery(rt)
		c.Msg = localstatequery.NewMsgQuery(q)
		c.Desc = desc + " " + fmt.Sprintf("%x", enc.Encode())
		// the client-built []any form cannot be compared field by field with the
		// typed tree the decoder builds; the expectation is the independent one
		c.Extra = func(d protocol.Message) string {
			dm := d.(*localstatequery.MsgQuery)
			if e := check(dm.Query.Query); e != "" {
				return e
			}
			re, err := gcbor.Encode(dm.Query.Query)
			if err != nil {
				return "decoded query does not re-encode: " + err.Error()
			}
			if !bytes.Equal(re, enc.Encode()) {
				return fmt.Sprintf("decoded query re-encodes to %x, independent encoding of the query is %x", re, enc.Encode())
			}
			return ""
		}
		c.skipDeep = true
	})
	reg("localstatequery", "NewMsgResult", 4, func(rt *rapid.T, c *msgCase) {
		r := genRaw(rt, 3)
		c.Msg = localstatequery.NewMsgResult(r)
		c.Desc = hx(r)
	})
	reg("localstatequery", "NewMsgRelease", 5, noArgs(func() protocol.Message { return localstatequery.NewMsgRelease() }))
	lsqPoint("NewMsgReAcquire", 6, func(p pcommon.Point) protocol.Message { return localstatequery.NewMsgReAcquire(p) })
	reg("localstatequery", "NewMsgDone", 7, noArgs(func() protocol.Message { return localstatequery.NewMsgDone() }))
	reg("localstatequery", "NewMsgAcquireVolatileTip", 8, noArgs(func() protocol.Message { return localstatequery.NewMsgAcquireVolatileTip() }))
	reg("localstatequery", "NewMsgReAcquireVolatileTip", 9, noArgs(func() protocol.Message { return localstatequery.NewMsgReAcquireVolatileTip() }))
	reg("localstatequery", "NewMsgAcquireImmutableTip", 10, noArgs(func() protocol.Message { return localstatequery.NewMsgAcquireImmutableTip() }))
	reg("localstatequery", "NewMsgReAcquireImmutableTip", 11, noArgs(func() protocol.Message { return localstatequery.NewMsgReAcquireImmutableTip() }))

	// ---------------- DMQ: message-submission ----------------
	reg("messagesubmission", "NewMsgInit", 0, noArgs(func() protocol.Message { return messagesubmission.NewMsgInit() }))
	reg("messagesubmission", "NewMsgRequestMessageIds", 1, func(rt *rapid.T, c *msgCase) {
		b, a, r := rapid.Bool().Draw(rt, "blocking"), genU16(rt, "ack"), genU16(rt, "req")
		c.Msg = messagesubmission.NewMsgRequestMessageIds(b, a, r)
		c.Desc = fmt.Sprintf("%v %d %d", b, a, r)
	})
	reg("messagesubmission", "NewMsgReplyMessageIds", 2, func(rt *rapid.T, c *msgCase) {
		n := rapid.IntRange(0, 4).Draw(rt, "nIds")
		var ids []pcommon.MessageIDAndSize
		for i := 0; i < n; i++ {
			ids = append(ids, pcommon.MessageIDAndSize{MessageID: genBytesNonNil(rt, "mid", 0, 32), SizeInBytes: genU32(rt, "msize")})
		}
		c.Msg = messagesubmission.NewMsgReplyMessageIds(ids)
		c.Desc = fmt.Sprintf("%d ids", n)
	})
	reg("messagesubmission", "NewMsgRequestMessages", 3, func(rt *rapid.T, c *msgCase) {
		n := rapid.IntRange(0, 4).Draw(rt, "nIds")
		var ids [][]byte
		for i := 0; i < n; i++ {
			ids = append(ids, genBytesNonNil(rt, "mid", 0, 32))
		}
		c.Msg = messagesubmission.NewMsgRequestMessages(ids)
		c.Desc = fmt.Sprintf("%d ids", n)
	})
	reg("messagesubmission", "NewMsgReplyMessages", 4, func(rt *rapid.T, c *msgCase) {
		ms, ws := genDmqList(rt)
		c.Msg = messagesubmission.NewMsgReplyMessages(ms)
		c.Want = messagesubmission.NewMsgReplyMessages(ws)
		c.Desc = fmt.Sprintf("%d messages", len(ms))
	})
	reg("messagesubmission", "NewMsgDone", 5, noArgs(func() protocol.Message { return messagesubmission.NewMsgDone() }))

	// ---------------- DMQ: local-message-submission ----------------
	reg("localmessagesubmission", "NewMsgSubmitMessage", 0, func(rt *rapid.T, c *msgCase) {
		m, w := genDmq(rt)
		c.Msg = localmessagesubmission.NewMsgSubmitMessage(m)
		c.Want = localmessagesubmission.NewMsgSubmitMessage(w)
		c.Desc = fmt.Sprintf("id=%x body=%s", m.ID(), hx(m.Payload.MessageBody))
	})
	reg("localmessagesubmission", "NewMsgAcceptMessage", 1, noArgs(func() protocol.Message { return localmessagesubmission.NewMsgAcceptMessage() }))
	reg("localmessagesubmission", "NewMsgRejectMessage", 2, func(rt *rapid.T, c *msgCase) {
		msg := genText(rt, "rejectMsg", 20)
		var rr pcommon.RejectReason
		var want pcommon.RejectReasonData
		switch rapid.IntRange(0, 6).Draw(rt, "rejectKind") {
		case 0:
			rr, want = pcommon.InvalidReason{Message: msg}, pcommon.RejectReasonData{Type: 0, Message: msg}
		case 1:
			rr, want = pcommon.AlreadyReceivedReason{}, pcommon.RejectReasonData{Type: 1}
		case 2:
			rr, want = pcommon.ExpiredReason{}, pcommon.RejectReasonData{Type: 2}
		case 3:
			rr, want = pcommon.OtherReason{Message: msg}, pcommon.RejectReasonData{Type: 3, Message: msg}
		case 4:
			rr, want = &pcommon.OtherReason{Message: msg}, pcommon.RejectReasonData{Type: 3, Message: msg}
		case 5:
			rr, want = &pcommon.InvalidReason{Message: msg}, pcommon.RejectReasonData{Type: 0, Message: msg}
		default:
			t := uint8(rapid.IntRange(0, 3).Draw(rt, "rejectType"))
			rr, want = pcommon.RejectReasonData{Type: t, Message: msg}, pcommon.RejectReasonData{Type: t, Message: msg}
		}
		m, err := localmessagesubmission.NewMsgRejectMessage(rr)
		if err != nil {
			rt.Fatalf("harness: NewMsgRejectMessage: %v", err)
		}
		c.Msg = m
		c.Desc = fmt.Sprintf("%T %q", rr, msg)
		c.Extra = func(d protocol.Message) string {
			got := d.(*localmessagesubmission.MsgRejectMessage).Reason
			if got.Type != want.Type || got.Message != want.Message {
				return fmt.Sprintf("decoded reason (%d,%q), constructed from %T = (%d,%q)", got.Type, got.Message, rr, want.Type, want.Message)
			}
			return ""
		}
	})
	reg("localmessagesubmission", "NewMsgDone", 3, noArgs(func() protocol.Message { return localmessagesubmission.NewMsgDone() }))

	// ---------------- DMQ: local-message-notification ----------------
	reg("localmessagenotification", "NewMsgRequestMessages", 0, func(rt *rapid.T, c *msgCase) {
		b := rapid.Bool().Draw(rt, "blocking")
		c.Msg = localmessagenotification.NewMsgRequestMessages(b)
		c.Desc = fmt.Sprint(b)
	})
	reg("localmessagenotification", "NewMsgReplyMessagesNonBlocking", 1, func(rt *rapid.T, c *msgCase) {
		ms, ws := genDmqList(rt)
		more := rapid.Bool().Draw(rt, "hasMore")
		c.Msg = localmessagenotification.NewMsgReplyMessagesNonBlocking(ms, more)
		c.Want = localmessagenotification.NewMsgReplyMessagesNonBlocking(ws, more)
		c.Desc = fmt.Sprintf("%d messages more=%v", len(ms), more)
	})
	reg("localmessagenotification", "NewMsgReplyMessagesBlocking", 2, func(rt *rapid.T, c *msgCase) {
		ms, ws := genDmqList(rt)
		c.Msg = localmessagenotification.NewMsgReplyMessagesBlocking(ms)
		c.Want = localmessagenotification.NewMsgReplyMessagesBlocking(ws)
		c.Desc = fmt.Sprintf("%d messages", len(ms))
	})
	reg("localmessagenotification", "NewMsgClientDone", 3, noArgs(func() protocol.Message { return localmessagenotification.NewMsgClientDone() }))

	// ---------------- Leios: fetch ----------------
	reg("leiosfetch", "NewMsgBlockRequest", 0, func(rt *rapid.T, c *msgCase) {
		p := genPoint(rt)
		c.Msg = leiosfetch.NewMsgBlockRequest(p)
		c.Desc = descPoint(p)
	})
	reg("leiosfetch", "NewMsgBlock", 1, func(rt *rapid.T, c *msgCase) {
		r := genRaw(rt, 3)
		c.Msg = leiosfetch.NewMsgBlock(r)
		c.Desc = hx(r)
	})
	reg("leiosfetch", "NewMsgBlockTxsRequest", 2, func(rt *rapid.T, c *msgCase) {
		p, bm := genPoint(rt), genBitmaps(rt)
		c.Msg = leiosfetch.NewMsgBlockTxsRequest(p, bm)
		c.Desc = fmt.Sprintf("%s %v", descPoint(p), bm)
	})
	reg("leiosfetch", "NewMsgBlockTxs", 3, func(rt *rapid.T, c *msgCase) {
		txs := genRawList(rt)
		c.Msg = leiosfetch.NewMsgBlockTxs(txs)
		c.Desc = fmt.Sprintf("%d txs", len(txs))
	})
	reg("leiosfetch", "NewMsgBlockTxsFull", 3, func(rt *rapid.T, c *msgCase) {
		p, bm, txs := genPoint(rt), genBitmaps(rt), genRawList(rt)
		if rapid.IntRange(0, 5).Draw(rt, "nilBitmaps") == 0 {
			bm = nil // "no bitmaps" the way Go callers usually say it
		}
		c.Msg = leiosfetch.NewMsgBlockTxsFull(p, bm, txs)
		c.Desc = fmt.Sprintf("%s %v %d txs", descPoint(p), bm, len(txs))
	})
	reg("leiosfetch", "NewMsgVotesRequest", 4, func(rt *rapid.T, c *msgCase) {
		ids := genVoteIds(rt)
		c.Msg = leiosfetch.NewMsgVotesRequest(ids)
		c.Desc = fmt.Sprintf("%v", ids)
	})
	reg("leiosfetch", "NewMsgVotes", 5, func(rt *rapid.T, c *msgCase) {
		vs := genRawList(rt)
		c.Msg = leiosfetch.NewMsgVotes(vs)
		c.Desc = fmt.Sprintf("%d raw votes", len(vs))
	})
	reg("leiosfetch", "NewMsgVotesFromVotes", 5, func(rt *rapid.T, c *msgCase) {
		n := rapid.IntRange(0, 3).Draw(rt, "nVotes")
		var vs []lcommon.LeiosVote
		for i := 0; i < n; i++ {
			vs = append(vs, genLeiosVote(rt))
		}
		m, err := leiosfetch.NewMsgVotesFromVotes(vs)
		if err != nil {
			rt.Fatalf("harness: NewMsgVotesFromVotes: %v", err)
		}
		c.Msg = m
		c.Desc = fmt.Sprintf("%d votes", n)
		c.Extra = func(d protocol.Message) string {
			got, err := d.(*leiosfetch.MsgVotes).DecodeVotes()
			if err != nil {
				return "DecodeVotes on the decoded message: " + err.Error()
			}
			if len(got) != len(vs) {
				return fmt.Sprintf("DecodeVotes gives %d votes, constructed from %d", len(got), len(vs))
			}
			for i := range vs {
				if df := diffExported(got[i], vs[i]); df != "" {
					return fmt.Sprintf("vote %d: %s", i, df)
				}
			}
			return ""
		}
	})
	reg("leiosfetch", "NewMsgBlockRangeRequest", 6, func(rt *rapid.T, c *msgCase) {
		a, b := genPoint(rt), genPoint(rt)
		c.Msg = leiosfetch.NewMsgBlockRangeRequest(a, b)
		c.Desc = descPoint(a) + ".." + descPoint(b)
	})
	reg("leiosfetch", "NewMsgLastBlockAndTxsInRange", 7, func(rt *rapid.T, c *msgCase) {
		blk, txs := genRaw(rt, 2), genRawList(rt)
		c.Msg = leiosfetch.NewMsgLastBlockAndTxsInRange(blk, txs)
		c.Desc = fmt.Sprintf("%s + %d txs", hx(blk), len(txs))
	})
	reg("leiosfetch", "NewMsgNextBlockAndTxsInRange", 8, func(rt *rapid.T, c *msgCase) {
		blk, txs := genRaw(rt, 2), genRawList(rt)
		c.Msg = leiosfetch.NewMsgNextBlockAndTxsInRange(blk, txs)
		c.Desc = fmt.Sprintf("%s + %d txs", hx(blk), len(txs))
	})
	reg("leiosfetch", "NewMsgDone", 9, noArgs(func() protocol.Message { return leiosfetch.NewMsgDone() }))
	reg("leiosfetch", "NewMsgNoBlock", 10, noArgs(func() protocol.Message { return leiosfetch.NewMsgNoBlock() }))
	reg("leiosfetch", "NewMsgNoBlockTxs", 11, noArgs(func() protocol.Message { return leiosfetch.NewMsgNoBlockTxs() }))

	// ---------------- Leios: notify ----------------
	reg("leiosnotify", "NewMsgNotificationRequestNext", 0, noArgs(func() protocol.Message { return leiosnotify.NewMsgNotificationRequestNext() }))
	reg("leiosnotify", "NewMsgBlockAnnouncement", 1, func(rt *rapid.T, c *msgCase) {
		r := genRaw(rt, 3)
		c.Msg = leiosnotify.NewMsgBlockAnnouncement(r)
		c.Desc = hx(r)
	})
	reg("leiosnotify", "NewMsgBlockOffer", 2, func(rt *rapid.T, c *msgCase) {
		p, s := genPoint(rt), genU64(rt, "size")
		c.Msg = leiosnotify.NewMsgBlockOffer(p, s)
		c.Desc = fmt.Sprintf("%s %d", descPoint(p), s)
	})
	reg("leiosnotify", "NewMsgBlockTxsOffer", 3, func(rt *rapid.T, c *msgCase) {
		p := genPoint(rt)
		c.Msg = leiosnotify.NewMsgBlockTxsOffer(p)
		c.Desc = descPoint(p)
	})
	reg("leiosnotify", "NewMsgVotesOffer", 4, func(rt *rapid.T, c *msgCase) {
		ids := genVoteIds(rt)
		c.Msg = leiosnotify.NewMsgVotesOffer(ids)
		c.Desc = fmt.Sprintf("%v", ids)
	})
	reg("leiosnotify", "NewMsgVotesOfferFull", 4, func(rt *rapid.T, c *msgCase) {
		n := rapid.IntRange(0, 3).Draw(rt, "nVotes")
		var vs []lcommon.LeiosVote
		for i := 0; i < n; i++ {
			vs = append(vs, genLeiosVote(rt))
		}
		c.Msg = leiosnotify.NewMsgVotesOfferFull(vs)
		c.Desc = fmt.Sprintf("%d full votes", n)
	})
	reg("leiosnotify", "NewMsgVotesOfferPrototype", 4, func(rt *rapid.T, c *msgCase) {
		n := rapid.IntRange(0, 3).Draw(rt, "nVotes")
		var vs []lcommon.LeiosPrototypeVote
		for i := 0; i < n; i++ {
			vs = append(vs, lcommon.LeiosPrototypeVote{
				AnnouncingRbHash: lcommon.NewBlake2b256(genBytesN(rt, "rbHash", 32, 32)),
				VoterId:          genU64(rt, "voter"),
				VoteSignature:    genSig48(rt),
			})
		}
		c.Msg = leiosnotify.NewMsgVotesOfferPrototype(vs)
		c.Desc = fmt.Sprintf("%d prototype votes", n)
	})
	reg("leiosnotify", "NewMsgDone", 5, noArgs(func() protocol.Message { return leiosnotify.NewMsgDone() }))

	// ---------------- Leios: votes ----------------
	reg("leiosvotes", "NewMsgVotesRequestNext", 0, func(rt *rapid.T, c *msgCase) {
		n := genU64(rt, "count")
		c.Msg = leiosvotes.NewMsgVotesRequestNext(n)
		c.Desc = fmt.Sprint(n)
	})
	reg("leiosvotes", "NewMsgVote", 1, func(rt *rapid.T, c *msgCase) {
		v := genLeiosVote(rt)
		c.Msg = leiosvotes.NewMsgVote(v)
		c.Desc = fmt.Sprintf("slot=%d voter=%d", v.SlotNo, v.VoterId)
	})
	reg("leiosvotes", "NewMsgDone", 2, noArgs(func() protocol.Message { return leiosvotes.NewMsgDone() }))

	sort.SliceStable(ctorTable, func(i, j int) bool { return ctorTable[i].Proto < ctorTable[j].Proto })
}
