package codec

import (
	"encoding/binary"
	"errors"
	"fmt"
	"time"

	gcbor "github.com/blinklabs-io/gouroboros/cbor"
	"github.com/blinklabs-io/gouroboros/ledger"
	lcommon "github.com/blinklabs-io/gouroboros/ledger/common"
	pcommon "github.com/blinklabs-io/gouroboros/protocol/common"
)

// c02Entry is one public decoding entry point (or a family indexed by a small
// integer: block type, tx type, message type id, stream-decoder op mix).
type c02Entry struct {
	Name     string
	Variants int
	Seeds    []seedClass                     // seed classes that reach deep into this entry
	Era      func(v int) (era uint, ok bool) // era of the variant for ledger entries (to pair with same-era seeds)
	Run      func(v int, data []byte) error
	Hidden   bool // canaries for the guard self-test; not part of the property
}

var blockTypeNames = []string{"byron-ebb", "byron-main", "shelley", "allegra", "mary", "alonzo", "babbage", "conway", "dijkstra"}
var txTypeNames = []string{"byron", "shelley", "allegra", "mary", "alonzo", "babbage", "conway", "dijkstra"}

func (e *c02Entry) VariantName(v int) string {
	switch {
	case e.Variants <= 1:
		return e.Name
	case e.Variants == 9 && e.Era != nil:
		return e.Name + "/" + blockTypeNames[v]
	case e.Variants == 8 && e.Era != nil:
		return e.Name + "/" + txTypeNames[v]
	}
	return fmt.Sprintf("%s/%d", e.Name, v)
}

var diagOpts = []gcbor.DiagnosticOptions{
	{},
	{ShowOffsets: true, ShowHex: true, MaxDepth: 4, MaxArrayItems: 3, MaxByteLength: 8},
	{CardanoAware: true, IndentString: "\t"},
	{ShowOffsets: true, MaxDepth: 1000000, MaxArrayItems: 1000000, MaxByteLength: 1000000, CardanoAware: true},
}

func useNode(n *gcbor.DiagnosticNode, v int) {
	if n == nil {
		return
	}
	o := diagOpts[v%len(diagOpts)]
	_ = n.FormatDiagnostic(o)
	_ = n.FormatDiagnosticPretty(o)
	_ = n.FormatHexDump(o)
	_ = n.GetNodeAtOffset(n.Length / 2)
	_ = n.GetPathToOffset(n.Length / 2)
	_ = n.GetNodeAtOffset(-1)
	_ = n.GetPathToOffset(1 << 40)
	_ = gcbor.AnnotateAddresses(n)
}

func streamOps(v int, data []byte) error {
	d, err := gcbor.NewStreamDecoder(data)
	if err != nil {
		return err
	}
	var last error
	for step := 0; step < 2048 && !d.EOF(); step++ {
		var err error
		switch v {
		case 0: // headers first, skip otherwise
			if _, _, _, err = d.DecodeArrayHeader(); err != nil {
				if _, _, _, err = d.DecodeMapHeader(); err != nil {
					_, _, err = d.Skip()
				}
			}
		case 1:
			var x any
			_, _, err = d.Decode(&x)
		case 2:
			var x gcbor.Value
			var raw []byte
			_, raw, err = d.DecodeRaw(&x)
			_ = raw
		case 3:
			_, _, err = d.SkipN(3)
		case 4:
			_, _, err = d.DecodeArrayItems(func(i, off, l int, item []byte) error {
				_ = d.RawBytes(off, l)
				return nil
			})
		case 5:
			var ns []*gcbor.DiagnosticNode
			ns, err = d.DecodeAllDiagnostic()
			for i, n := range ns {
				if i < 4 {
					useNode(n, i)
				}
			}
		case 6:
			var n *gcbor.DiagnosticNode
			n, err = d.DecodeDiagnostic()
			useNode(n, step)
		default: // mixed: header, advance by a data-dependent amount, raw lookups
			pos := d.Position()
			if pos < len(data) {
				k := int(data[pos] & 7)
				_ = d.RawBytes(pos, k*1000)
				_ = d.RawBytes(-k, k)
				if step%3 == 0 {
					err = d.Advance(k)
				} else if _, _, _, err = d.DecodeMapHeader(); err != nil {
					var x gcbor.LazyValue
					_, _, err = d.Decode(&x)
				}
			}
		}
		if err != nil {
			last = err
			break
		}
	}
	_ = d.Data()
	return last
}

type c02GenericTarget struct {
	gcbor.StructAsArray
	A uint64
	B []byte
	C pcommon.Point
	D map[uint64]any
	E gcbor.RawMessage
}

var c02Entries []*c02Entry

func blockEra(v int) (uint, bool) { return uint(v), true }
func txEra(v int) (uint, bool)    { return uint(v), true }

func init() {
	add := func(e *c02Entry) {
		if e.Variants == 0 {
			e.Variants = 1
		}
		c02Entries = append(c02Entries, e)
	}
	generic := []seedClass{seedGeneric, seedOutput, seedTxBody, seedWitness, seedMessage, seedTx, seedHeader}

	// ---- cbor: generic values ----
	add(&c02Entry{Name: "cbor.Decode(Value)+MarshalJSON", Seeds: generic, Run: func(_ int, d []byte) error {
		var v gcbor.Value
		if _, err := gcbor.Decode(d, &v); err != nil {
			return err
		}
		_ = v.Value()
		_ = v.Cbor()
		_, err := v.MarshalJSON()
		return err
	}})
	add(&c02Entry{Name: "cbor.Decode(LazyValue)+Decode+MarshalJSON", Seeds: generic, Run: func(_ int, d []byte) error {
		var v gcbor.LazyValue
		if _, err := gcbor.Decode(d, &v); err != nil {
			return err
		}
		if _, err := v.Decode(); err != nil {
			return err
		}
		_ = v.Value()
		_, err := v.MarshalJSON()
		return err
	}})
	add(&c02Entry{Name: "cbor.Decode(any)", Variants: 3, Seeds: generic, Run: func(v int, d []byte) error {
		var x any
		var err error
		switch v {
		case 0:
			_, err = gcbor.Decode(d, &x)
		case 1:
			_, err = gcbor.DecodeStrict(d, &x)
		default:
			_, err = gcbor.DecodeLenient(d, &x)
		}
		if err == nil {
			_ = gcbor.DumpCborStructure(x, "", 6)
		}
		return err
	}})
	add(&c02Entry{Name: "cbor.Decode(typed)", Variants: 8, Seeds: generic, Run: func(v int, d []byte) error {
		var err error
		switch v {
		case 0:
			var x []gcbor.RawMessage
			_, err = gcbor.Decode(d, &x)
		case 1:
			var x gcbor.ConstructorDecoder
			if _, err = gcbor.Decode(d, &x); err == nil {
				_, _ = x.ParsedFields()
				_, _ = x.MarshalJSON()
			}
		case 2:
			var x gcbor.Rat
			_, err = gcbor.Decode(d, &x)
		case 3:
			var x gcbor.SetType[uint64]
			if _, err = gcbor.Decode(d, &x); err == nil {
				_ = x.CheckForDuplicates()
			}
		case 4:
			var x map[gcbor.ByteString]any
			_, err = gcbor.Decode(d, &x)
		case 5:
			var x gcbor.Tag
			_, err = gcbor.Decode(d, &x)
		case 6:
			var x c02GenericTarget
			err = gcbor.DecodeGeneric(d, &x)
		default:
			var x gcbor.WrappedCbor
			_, err = gcbor.Decode(d, &x)
		}
		return err
	}})
	add(&c02Entry{Name: "cbor.DecodeIdFromList", Seeds: generic, Run: func(_ int, d []byte) error { _, err := gcbor.DecodeIdFromList(d); return err }})
	add(&c02Entry{Name: "cbor.ListLength", Seeds: generic, Run: func(_ int, d []byte) error { _, err := gcbor.ListLength(d); return err }})
	add(&c02Entry{Name: "cbor.DecodeById", Seeds: generic, Run: func(_ int, d []byte) error {
		var a []any
		var b c02GenericTarget
		var c map[any]any
		_, err := gcbor.DecodeById(d, map[int]any{0: &a, 1: &b, 2: &c, 3: nil, 4: &a})
		return err
	}})
	add(&c02Entry{Name: "cbor.ArrayInfo/MapInfo", Seeds: generic, Run: func(_ int, d []byte) error {
		gcbor.ArrayInfo(d)
		gcbor.MapInfo(d)
		return nil
	}})
	add(&c02Entry{Name: "cbor.StreamDecoder", Variants: 8, Seeds: append([]seedClass{seedBlock}, generic...), Run: streamOps})

	// ---- cbor: diagnostics ----
	add(&c02Entry{Name: "cbor.ParseDiagnostic+Format", Variants: 4, Seeds: generic, Run: func(v int, d []byte) error {
		n, err := gcbor.ParseDiagnostic(d)
		if err != nil {
			return err
		}
		useNode(n, v)
		return nil
	}})
	add(&c02Entry{Name: "cbor.Diagnose", Variants: 3, Seeds: append([]seedClass{seedBlock, seedTx}, generic...), Run: func(v int, d []byte) error {
		var r *gcbor.DiagnosticResult
		var err error
		switch v {
		case 0:
			r, err = gcbor.Diagnose(d, diagOpts[1])
		case 1:
			r, err = gcbor.DiagnoseTransaction(d, diagOpts[2])
		default:
			r, err = gcbor.DiagnoseBlock(d, diagOpts[3])
		}
		if err == nil && r != nil {
			useNode(r.Root, v)
		}
		return err
	}})
	add(&c02Entry{Name: "cbor.FormatCardanoDiagnostic", Variants: 4, Seeds: append([]seedClass{seedBlock, seedTx}, generic...), Run: func(v int, d []byte) error {
		var err error
		switch v {
		case 0:
			_, err = gcbor.FormatTransactionDiagnostic(d, diagOpts[3])
		case 1:
			_, err = gcbor.FormatBlockDiagnostic(d, diagOpts[3])
		case 2:
			_, err = gcbor.FormatPlutusData(d, diagOpts[1])
		default:
			_, err = gcbor.FormatNativeScript(d, diagOpts[0])
		}
		return err
	}})

	// ---- ledger ----
	add(&c02Entry{Name: "ledger.NewBlockFromCbor", Variants: 9, Era: blockEra, Seeds: []seedClass{seedBlock}, Run: func(v int, d []byte) error {
		_, err := ledger.NewBlockFromCbor(uint(v), d)
		return err
	}})
	add(&c02Entry{Name: "ledger.NewBlockFromCbor(skip-body-hash)", Variants: 9, Era: blockEra, Seeds: []seedClass{seedBlock}, Run: func(v int, d []byte) error {
		_, err := ledger.NewBlockFromCbor(uint(v), d, lcommon.VerifyConfig{SkipBodyHashValidation: true})
		return err
	}})
	add(&c02Entry{Name: "ledger.NewBlockFromCborWithOffsets", Variants: 9, Era: blockEra, Seeds: []seedClass{seedBlock}, Run: func(v int, d []byte) error {
		_, err := ledger.NewBlockFromCborWithOffsets(uint(v), d, lcommon.VerifyConfig{SkipBodyHashValidation: true})
		return err
	}})
	add(&c02Entry{Name: "ledger.ExtractTransactionOffsets+Extract*Cbor", Seeds: []seedClass{seedBlock}, Run: func(_ int, d []byte) error {
		offs, err := ledger.ExtractTransactionOffsets(d)
		if err != nil {
			return err
		}
		if offs == nil {
			return errors.New("nil offsets without error")
		}
		for tx := -1; tx < 4; tx++ {
			_, _ = lcommon.ExtractTransactionBodyCbor(d, offs, tx)
			_, _ = lcommon.ExtractWitnessCbor(d, offs, tx)
			for o := -1; o < 3; o++ {
				_, _ = lcommon.ExtractOutputCbor(d, offs, tx, o)
			}
		}
		return nil
	}})
	add(&c02Entry{Name: "lcommon.StreamingBlockDecoder.DecodeWithOffsets", Seeds: []seedClass{seedBlock}, Run: func(_ int, d []byte) error {
		dec, err := lcommon.NewStreamingBlockDecoder(d)
		if err != nil {
			return err
		}
		_, err = dec.DecodeWithOffsets()
		return err
	}})
	add(&c02Entry{Name: "ledger.NewBlockHeaderFromCbor", Variants: 9, Era: blockEra, Seeds: []seedClass{seedHeader}, Run: func(v int, d []byte) error {
		_, err := ledger.NewBlockHeaderFromCbor(uint(v), d)
		return err
	}})
	add(&c02Entry{Name: "ledger.DetermineBlockType", Seeds: []seedClass{seedHeader}, Run: func(_ int, d []byte) error {
		_, err := ledger.DetermineBlockType(d)
		return err
	}})
	add(&c02Entry{Name: "ledger.NewTransactionFromCbor", Variants: 8, Era: txEra, Seeds: []seedClass{seedTx}, Run: func(v int, d []byte) error {
		_, err := ledger.NewTransactionFromCbor(uint(v), d)
		return err
	}})
	add(&c02Entry{Name: "ledger.NewTransactionBodyFromCbor", Variants: 8, Era: txEra, Seeds: []seedClass{seedTxBody}, Run: func(v int, d []byte) error {
		_, err := ledger.NewTransactionBodyFromCbor(uint(v), d)
		return err
	}})
	add(&c02Entry{Name: "ledger.NewTransactionOutputFromCbor", Seeds: []seedClass{seedOutput}, Run: func(_ int, d []byte) error {
		_, err := ledger.NewTransactionOutputFromCbor(d)
		return err
	}})
	add(&c02Entry{Name: "ledger.DetermineTransactionType", Seeds: []seedClass{seedTx}, Run: func(_ int, d []byte) error {
		_, err := ledger.DetermineTransactionType(d)
		return err
	}})
	add(&c02Entry{Name: "lcommon.NewLeiosEndorserBlockFromCbor", Seeds: []seedClass{seedGeneric}, Run: func(_ int, d []byte) error {
		_, err := lcommon.NewLeiosEndorserBlockFromCbor(d)
		return err
	}})
	add(&c02Entry{Name: "lcommon.NewAddressFromBytes", Seeds: []seedClass{seedAddress}, Run: func(_ int, d []byte) error {
		a, err := lcommon.NewAddressFromBytes(d)
		if err == nil {
			_ = a.String()
			_, _ = a.Bytes()
		}
		return err
	}})
	add(&c02Entry{Name: "lcommon.NewAddress(string)", Seeds: []seedClass{seedAddressStr, seedAddressStr, seedAddress}, Run: func(_ int, d []byte) error {
		_, err := lcommon.NewAddress(string(d))
		return err
	}})
	add(&c02Entry{Name: "cbor.Decode(lcommon.Address)", Seeds: []seedClass{seedAddressCbor, seedAddressCbor, seedOutput}, Run: func(_ int, d []byte) error {
		var a lcommon.Address
		_, err := gcbor.Decode(d, &a)
		return err
	}})

	// ---- protocol: every NewMsgFromCbor, message type ids 0..31 ----
	for _, p := range protoDecoders {
		p := p
		add(&c02Entry{Name: "NewMsgFromCbor:" + p.Name, Variants: 32, Seeds: []seedClass{seedMessage}, Run: func(v int, d []byte) error {
			_, err := p.Decode(uint(v), d)
			return err
		}})
	}

	// ---- canaries (guard self-test only) ----
	add(&c02Entry{Name: "canary:alloc-claimed", Hidden: true, Variants: 2, Run: func(v int, d []byte) error {
		if len(d) < 9 {
			return errors.New("short")
		}
		n := binary.BigEndian.Uint64(d[1:9])
		s := make([]uint64, n) // what a decoder trusting a claimed length would do
		s[0], s[len(s)-1] = 1, 1
		if v == 0 {
			time.Sleep(30 * time.Millisecond) // ... and then spend some time filling it
		} // v == 1: dropped at once, invisible to any sampler; only the heap profile sees it
		c02Sink = s
		c02Sink = nil
		return nil
	}})
	add(&c02Entry{Name: "canary:panic", Hidden: true, Run: c02CanaryPanic})
	add(&c02Entry{Name: "canary:recurse", Hidden: true, Run: func(_ int, d []byte) error { return fmt.Errorf("%d", c02CanaryRecurse(1, d)) }})
	add(&c02Entry{Name: "canary:spin", Hidden: true, Run: func(_ int, d []byte) error {
		x := uint64(len(d))
		for {
			x = x*6364136223846793005 + 1442695040888963407
			if x == 42 && len(d) == 99 {
				return nil
			}
		}
	}})
	add(&c02Entry{Name: "canary:loop", Hidden: true, Run: func(_ int, d []byte) error {
		for {
			time.Sleep(200 * time.Millisecond)
		}
	}})
}

var c02Sink []uint64

func c02CanaryPanic(_ int, d []byte) error {
	if len(d) > 0 {
		panic("canary")
	}
	return nil
}

//go:noinline
func c02CanaryRecurse(n int, d []byte) int {
	var pad [64]byte
	pad[n%64] = byte(n)
	return c02CanaryRecurse(n+1, d) + int(pad[(n+1)%64])
}
