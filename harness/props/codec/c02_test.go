package codec

import (
	"encoding/hex"
	"encoding/json"
	"fmt"
	"hash/fnv"
	"math"
	"os"
	"path/filepath"
	"sort"
	"strings"
	"testing"
	"time"

	gcbor "github.com/blinklabs-io/gouroboros/cbor"
	"pgregory.net/rapid"

	"verif/harness/internal/evi"
	"verif/harness/internal/xcbor"
)

// TestC02Child is the worker process of TestC02 (see codec_c02_child.go).
func TestC02Child(t *testing.T) {
	if os.Getenv(c02ChildEnv) == "" {
		t.Skip("worker mode only (spawned by TestC02)")
	}
	c02ChildMain()
}

const (
	c02TimeBound  = 10 * time.Second // CPU time per call, inputs <= 64 KiB
	c02FirstWait  = 15 * time.Second // CPU-time limit of the first attempt
	c02RetryWait  = 30 * time.Second // CPU-time limit of the re-measurement
	c02AllocFixed = 32 << 20
	c02AllocPerB  = 1024
)

func c02Budget(n int) uint64 { return c02AllocFixed + uint64(c02AllocPerB)*uint64(n) }

type c02Verdict struct {
	Key  string
	What string
	Res  c02Result
}

type c02Harness struct {
	r                  *c02Runner
	rec                *evi.Recorder
	flakyCrash         int
	amplified          int
	unmeasured         int
	knownSlow          map[string]int
	churn              int
	maxChurn           uint64
	maxChurnAt         string
	maxAmplification   float64
	maxAmplificationAt string
	slowFirst          int
	remeasured         int
}

// c02TimeKeyName: every entry that renders a diagnostic tree shares the
// formatter (formatPretty / formatCompact / writeHexDump), which is where their
// time goes; one key for that family.
func c02TimeKeyName(e *c02Entry, v int) string {
	switch e.Name {
	case "cbor.ParseDiagnostic+Format", "cbor.Diagnose", "cbor.FormatCardanoDiagnostic":
		return "cbor.diagnostic-formatting"
	case "cbor.StreamDecoder":
		if v == 5 || v == 6 {
			return "cbor.diagnostic-formatting"
		}
	}
	return c02KeyName(e, v)
}

func c02KeyName(e *c02Entry, v int) string {
	if strings.HasPrefix(e.Name, "NewMsgFromCbor:") {
		return e.Name
	}
	return e.VariantName(v)
}

// judge runs one input and applies the three oracles (no panic/crash, bounded
// time, allocation proportional to the input). Anything suspicious is measured
// a second time (fresh worker for crashes/timeouts) before it is reported.
func (h *c02Harness) judge(ei, v int, data []byte) c02Verdict {
	e := c02Entries[ei]
	name := c02KeyName(e, v)
	firstWait := c02FirstWait
	timeKey := "time:" + c02TimeKeyName(e, v)
	if h.rec.IsKnown(timeKey) {
		// the slowness of this family is a listed finding: do not spend the long
		// confirmation waits on it again, an overrun of the bound is attributed directly
		firstWait = c02TimeBound + 2*time.Second
	}
	res := h.r.call(ei, v, data, firstWait)
	if res.Status == -2 && h.rec.IsKnown(timeKey) {
		h.knownSlow[timeKey]++
		return c02Verdict{timeKey, fmt.Sprintf("%s did not finish within %s of CPU time on a %d-byte input (listed finding, not re-measured)", e.VariantName(v), firstWait, len(data)), res}
	}
	switch res.Status {
	case c02StatusOK, c02StatusErr:
		if res.Alloc > c02Budget(len(data)) {
			h.remeasured++
			res2 := h.r.call(ei, v, data, c02FirstWait)
			if (res2.Status == c02StatusOK || res2.Status == c02StatusErr) && res2.Alloc <= c02Budget(len(data)) {
				res2 = h.r.call(ei, v, data, c02FirstWait) // the two disagree: a third measurement decides
			}
			if (res2.Status == c02StatusOK || res2.Status == c02StatusErr) && res2.Alloc > c02Budget(len(data)) {
				a := res.Alloc
				if res2.Alloc < a {
					a = res2.Alloc
				}
				// Over the budget in cumulative allocation. That is the trigger; the
				// statement is about memory *use*, so confirm with the peak growth of
				// the heap while the call runs (garbage churned through by, e.g., a
				// formatter that rebuilds strings at every nesting level is CPU cost,
				// judged by the time bound, not memory use).
				// Two measures are combined: the sampled peak growth of the heap and,
				// deterministically (heap profile, independent of scheduling and GC
				// timing), the largest single allocation: the heap is at least that big
				// at the moment it is made.
				okStatus := func(r c02Result) bool { return r.Status == c02StatusOK || r.Status == c02StatusErr }
				use := func(r c02Result) uint64 {
					if r.MaxSingle > r.Peak {
						return r.MaxSingle
					}
					return r.Peak
				}
				resP := h.r.callPeak(ei, v, data, c02FirstWait)
				if !okStatus(resP) || resP.MaxSingle == math.MaxUint64 {
					h.r.kill()                                     // worker trouble or heap profile not published:
					resP = h.r.callPeak(ei, v, data, c02RetryWait) // once more in a fresh worker
				}
				if okStatus(resP) && resP.MaxSingle == math.MaxUint64 {
					h.unmeasured++
					resP.Status = -4 // not measurable: judged on the cumulative allocation below
				}
				if okStatus(resP) && use(resP) <= c02Budget(len(data)) {
					h.churn++
					if resP.Alloc > h.maxChurn {
						h.maxChurn = resP.Alloc
						h.maxChurnAt = fmt.Sprintf("%s on a %d-byte input: %d bytes allocated in total, peak heap growth %d, largest single allocation %d", e.VariantName(v), len(data), resP.Alloc, resP.Peak, resP.MaxSingle)
					}
					resP.Churn = true
					return c02Verdict{Res: resP}
				}
				how := "cumulative allocation (the peak could not be measured)"
				if okStatus(resP) {
					a = use(resP)
					how = fmt.Sprintf("sampled peak heap growth %d, largest single allocation %d", resP.Peak, resP.MaxSingle)
				}
				// The statement forbids memory that follows *claimed*
				// lengths; a decoder that spends a large but fixed number of bytes per
				// input byte actually consumed is proportional to the input. Tell the
				// two apart by decoding the first half of the same input: consumption-
				// driven allocation drops with it, claim-driven allocation (made when
				// the head is read) does not. A hard ceiling of 8 KiB per input byte
				// keeps super-linear behaviour an alarm either way.
				if okStatus(resP) && a <= c02AllocFixed+8192*uint64(len(data)) && len(data) >= 2 {
					res3 := h.r.callPeak(ei, v, data[:len(data)/2], c02FirstWait)
					if okStatus(res3) && use(res3)*4 <= a*3 {
						h.amplified++
						if f := float64(a) / float64(len(data)); f > h.maxAmplification {
							h.maxAmplification = f
							h.maxAmplificationAt = fmt.Sprintf("%s on a %d-byte input: heap use %d bytes, %d for its first half", e.VariantName(v), len(data), a, use(res3))
						}
						res2.Amplified = true
						return c02Verdict{Res: res2}
					}
				}
				return c02Verdict{"memory:" + name, fmt.Sprintf("%s: heap use %d bytes (%s; %d bytes allocated in total, re-measured) decoding a %d-byte input; budget 32 MiB + 1024*len = %d", e.VariantName(v), a, how, res2.Alloc, len(data), c02Budget(len(data))), res2}
			}
			if res2.Status < 0 || res2.Status == c02StatusPanic {
				res = res2 // fall through to the crash/panic handling below
				break
			}
		}
		if res.CPU > c02TimeBound {
			h.remeasured++
			res2 := h.r.call(ei, v, data, c02RetryWait)
			if res2.Status == -2 || res2.CPU > c02TimeBound {
				return c02Verdict{"time:" + c02TimeKeyName(e, v), fmt.Sprintf("%s used %s and %s (re-measured) of CPU time on a %d-byte input; bound %s", e.VariantName(v), res.CPU, res2.CPU, len(data), c02TimeBound), res2}
			}
			h.slowFirst++
		}
		if res.Status >= 0 && res.Status != c02StatusPanic {
			return c02Verdict{Res: res}
		}
	}
	switch res.Status {
	case c02StatusPanic:
		first := strings.SplitN(res.Msg, "\n", 2)[0]
		return c02Verdict{"panic:" + name + ":" + res.Site, fmt.Sprintf("%s panicked on a %d-byte input: %s at %s", e.VariantName(v), len(data), clipS(first, 300), res.Site), res}
	case -1: // worker died
		h.remeasured++
		res2 := h.r.call(ei, v, data, c02RetryWait)
		if res2.Status == -1 {
			sum, site := crashSummary(res2.Msg)
			return c02Verdict{"crash:" + name + ":" + sum, fmt.Sprintf("%s killed the worker process twice (address space capped at 4 GiB, stack at 32 MiB) on a %d-byte input: %s; first library frame %s", e.VariantName(v), len(data), sum, site), res2}
		}
		if res2.Status == c02StatusPanic || res2.Status == -2 {
			return h.judgeRetry(ei, v, data, res2)
		}
		h.flakyCrash++
		return c02Verdict{Res: res2}
	case -2: // no answer in time
		h.remeasured++
		res2 := h.r.call(ei, v, data, c02RetryWait)
		if res2.Status == -2 || (res2.Status >= 0 && res2.CPU > c02TimeBound) {
			return c02Verdict{"time:" + c02TimeKeyName(e, v), fmt.Sprintf("%s: %s; re-measured in a fresh worker: %s of CPU time, %s (bound %s of CPU time) on a %d-byte input", e.VariantName(v), res.Msg, res2.CPU, res2.Msg, c02TimeBound, len(data)), res2}
		}
		if res2.Status == -1 || res2.Status == c02StatusPanic {
			return h.judgeRetry(ei, v, data, res2)
		}
		h.slowFirst++
		return c02Verdict{Res: res2}
	case -3:
		return c02Verdict{Key: "harness", What: res.Msg, Res: res}
	}
	return c02Verdict{Res: res}
}

func (h *c02Harness) judgeRetry(ei, v int, data []byte, res c02Result) c02Verdict {
	e := c02Entries[ei]
	name := c02KeyName(e, v)
	switch res.Status {
	case c02StatusPanic:
		first := strings.SplitN(res.Msg, "\n", 2)[0]
		return c02Verdict{"panic:" + name + ":" + res.Site, fmt.Sprintf("%s panicked: %s at %s", e.VariantName(v), clipS(first, 300), res.Site), res}
	case -1:
		sum, site := crashSummary(res.Msg)
		return c02Verdict{"crash:" + name + ":" + sum, fmt.Sprintf("%s killed the worker: %s; first library frame %s", e.VariantName(v), sum, site), res}
	default:
		return c02Verdict{"time:" + c02TimeKeyName(e, v), fmt.Sprintf("%s did not finish within %s", e.VariantName(v), c02RetryWait), res}
	}
}

func hash64s(b []byte) uint64 {
	h := fnv.New64a()
	h.Write(b)
	return h.Sum64()
}

type c02Input struct {
	Data  []byte
	Desc  []string
	Kinds []string
}

var ctorsByProto = map[string][]ctorEntry{}

var c02Consts = hostileConstants(12000)

var keySweepFull = map[string]bool{
	"cbor.Decode(Value)+MarshalJSON": true, "cbor.Decode(LazyValue)+Decode+MarshalJSON": true, "cbor.Decode(any)": true,
	"cbor.DecodeIdFromList": true, "cbor.DecodeById": true, "ledger.NewTransactionOutputFromCbor": true,
}

func c02Init() {
	loadSeeds()
	if len(ctorsByProto) == 0 {
		for _, c := range ctorTable {
			ctorsByProto[c.Proto] = append(ctorsByProto[c.Proto], c)
		}
	}
}

// genC02Input draws one input for entry e (and may adjust the variant so that
// era / message-type-matching seeds reach deep into the typed decoder).
func genC02Input(rt *rapid.T, e *c02Entry, v *int, uniformMax int) c02Input {
	in := c02Input{}
	mode := rapid.IntRange(0, 11).Draw(rt, "inputMode")
	switch {
	case mode <= 1:
		in.Data = genUniform(rt, uniformMax)
		in.Desc = append(in.Desc, fmt.Sprintf("uniform %d bytes", len(in.Data)))
		in.Kinds = append(in.Kinds, "uniform")
		return in
	case mode == 3:
		key, kname := genMapKey(rt)
		ps := mapKeyPositions(key)
		pn := ps[rapid.IntRange(0, len(ps)-1).Draw(rt, "keyPosition")]
		in.Data = pn.Node.Encode()
		in.Desc = append(in.Desc, "map key "+kname+" @ "+pn.Name)
		in.Kinds = append(in.Kinds, "mapkey-constant")
	case mode == 2:
		hc := rapid.SampledFrom(c02Consts).Draw(rt, "hostile")
		in.Data = hc.Data
		in.Desc = append(in.Desc, "hostile constant "+hc.Name)
		in.Kinds = append(in.Kinds, "hostile-constant")
	default:
		var cls seedClass
		if len(e.Seeds) > 0 && rapid.IntRange(0, 3).Draw(rt, "preferredSeed") != 0 {
			cls = e.Seeds[rapid.IntRange(0, len(e.Seeds)-1).Draw(rt, "seedClass")]
		} else {
			cls = seedClass(rapid.IntRange(0, int(nSeedClasses)-1).Draw(rt, "anySeedClass"))
		}
		if cls == seedMessage {
			proto := strings.TrimPrefix(e.Name, "NewMsgFromCbor:")
			cs := ctorsByProto[proto]
			sameProto := len(cs) > 0 && rapid.IntRange(0, 4).Draw(rt, "sameProto") != 0
			if !sameProto {
				cs = ctorTable
			}
			ce := cs[rapid.IntRange(0, len(cs)-1).Draw(rt, "msgCtor")]
			mc := &msgCase{Proto: ce.Proto, Ctor: ce.Ctor, TypeID: ce.TypeID, Decode: ce.Decode}
			ce.Gen(rt, mc)
			enc, err := gcbor.Encode(mc.Msg)
			if err != nil {
				enc = []byte{0x80}
			}
			in.Data = clipTo(enc, c02MaxInput)
			in.Desc = append(in.Desc, fmt.Sprintf("message %s.%s", ce.Proto, ce.Ctor))
			if sameProto && int(ce.TypeID) < e.Variants && rapid.IntRange(0, 4).Draw(rt, "matchType") != 0 {
				*v = int(ce.TypeID)
			}
		} else {
			ss := seedsBy[cls]
			if len(ss) == 0 {
				ss = seedsBy[seedGeneric]
			}
			var s seed
			if e.Era != nil && rapid.IntRange(0, 3).Draw(rt, "matchEra") != 0 {
				// pick the seed first, then the variant of its era
				s = ss[rapid.IntRange(0, len(ss)-1).Draw(rt, "seed")]
				if int(s.Era) < e.Variants && (s.Class == seedBlock || s.Class == seedHeader) == (e.Variants == 9) {
					*v = int(s.Era)
				}
			} else {
				s = ss[rapid.IntRange(0, len(ss)-1).Draw(rt, "seed")]
			}
			in.Data = s.Bytes
			in.Desc = append(in.Desc, "seed "+s.Name)
		}
		in.Kinds = append(in.Kinds, "seed-"+cls.String())
	}
	nMut := rapid.SampledFrom([]int{0, 1, 1, 1, 1, 2, 2, 3}).Draw(rt, "nMutations")
	for i := 0; i < nMut; i++ {
		var m mutation
		in.Data, m = mutate(rt, in.Data, c02MaxInput)
		in.Desc = append(in.Desc, m.Kind+": "+m.Desc)
		in.Kinds = append(in.Kinds, m.Kind)
	}
	if nMut == 0 {
		in.Kinds = append(in.Kinds, "unmutated")
	}
	return in
}

func loadCorpus() []struct {
	Name string
	Data []byte
} {
	var out []struct {
		Name string
		Data []byte
	}
	files, _ := filepath.Glob(filepath.Join(evi.Root(), "corpus", "*.hex"))
	sort.Strings(files)
	for _, f := range files {
		b, err := os.ReadFile(f)
		if err != nil {
			continue
		}
		var hx strings.Builder
		for _, l := range strings.Split(string(b), "\n") {
			l = strings.TrimSpace(l)
			if l == "" || strings.HasPrefix(l, "#") {
				continue
			}
			hx.WriteString(l)
		}
		d, err := hex.DecodeString(hx.String())
		if err != nil {
			continue
		}
		out = append(out, struct {
			Name string
			Data []byte
		}{"corpus/" + filepath.Base(f), d})
	}
	return out
}

func TestC02(t *testing.T) {
	rec := evi.New(t, "C02", evi.Exploration,
		"each case draws a public decoding entry point (table: cbor generic/typed/stream/diagnostic API, ledger block/header/tx/body/output/offset/address decoders per era, every protocol's NewMsgFromCbor for type ids 0..31) and an input: uniform bytes, a hostile constant, or a valid encoding (fixture block/header/tx/body/witness/output/address, constructor-built message, generic value) with 0-3 structure-aware mutations (truncation at node boundaries, length-field inflation to 2^16..2^64-1, nesting 1..5000, tag substitution, major-type confusion, replacement, duplicate map keys, huge bignums, indefinite/break edits, byte flips/inserts/deletes); "+
			"every call runs in a worker process with a 4 GiB address-space cap; oracle: no panic, no worker death, elapsed <= 10 s (re-measured in a fresh worker), memory: cumulative allocation > 32 MiB + 1024*len(input) triggers a re-measurement of the peak heap growth, which must stay within that budget unless it demonstrably follows the consumed input (halving test, ceiling 8 KiB per input byte); "+
			"non-trivial = the input starts with a well-formed CBOR item (typed decoding is reached) or the call returned a value; distinct by (entry point, input bytes)")
	defer rec.Finish()
	rec.Assume(
		"internal/xcbor decides well-formedness for the non-triviality count only; the verdict does not depend on it",
		"allocation is measured as the /gc/heap/allocs:bytes delta around the single-goroutine call inside the worker; goroutine stacks are capped at 64 MiB instead of being counted",
		"inputs are bounded at 64 KiB",
	)
	testStart := time.Now()
	c02Init()
	runner := &c02Runner{}
	defer runner.Close()
	h := &c02Harness{r: runner, rec: rec, knownSlow: map[string]int{}}

	// ---- the guard itself must work before anything hostile is trusted to it ----
	msg := ""
	for attempt := 1; attempt <= 3; attempt++ { // nothing in it should depend on load; belt and braces
		if msg = c02SelfTest(h); msg == "" {
			break
		}
		fmt.Printf("C02 guard self-test attempt %d: %s\n", attempt, msg)
		runner.kill()
	}
	rec.SetExtra("guard_selftest", "passed")
	if msg != "" {
		fmt.Printf("HARNESS-ERROR property=C02 worker guard self-test failed: %s\n", msg)
		t.Fatalf("guard self-test: %s", msg)
	}

	if os.Getenv("VERIF_C02_SELFTEST_ONLY") != "" { // debugging aid
		rec.Eval()
		rec.NonTrivial("selftest-a", nil)
		rec.NonTrivial("selftest-b", nil)
		fmt.Println("guard self-test passed; workers spawned:", runner.Spawned)
		return
	}
	perEntry := map[string]int{}
	perEntryMs := map[string]float64{}
	reached := map[string]int{}
	returned := map[string]int{}
	record := func(ei, v int, in c02Input, vd c02Verdict) {
		e := c02Entries[ei]
		rec.Eval()
		perEntry[e.Name]++
		perEntryMs[e.Name] += float64(vd.Res.Elapsed.Microseconds()) / 1000
		for _, k := range in.Kinds {
			rec.Class("input_" + k)
		}
		wf := false
		if _, _, err := xcbor.Parse(in.Data); err == nil {
			wf = true
			reached[e.Name]++
			rec.Class("wellformed_prefix")
		}
		switch vd.Res.Status {
		case c02StatusOK:
			returned[e.Name]++
			rec.Class("returned_value")
		case c02StatusErr:
			rec.Class("returned_error")
		}
		if vd.Res.Amplified {
			rec.Class("over_budget_but_proportional")
		}
		if vd.Res.Churn {
			rec.Class("total_alloc_over_budget_peak_within")
		}
		if wf || vd.Res.Status == c02StatusOK {
			rec.NonTrivial(fmt.Sprintf("%s|%d|%016x|%d", e.Name, v, hash64s(in.Data), len(in.Data)),
				map[string]any{"entry": e.VariantName(v), "input": evi.Hex(in.Data), "how": in.Desc, "status": vd.Res.Status, "alloc_bytes": vd.Res.Alloc, "elapsed_us": vd.Res.Elapsed.Microseconds()})
		}
	}
	caseOf := func(ei, v int, in c02Input, vd c02Verdict) map[string]any {
		return map[string]any{"entry": c02Entries[ei].Name, "entry_index": ei, "variant": v, "variant_name": c02Entries[ei].VariantName(v),
			"input_hex": hex.EncodeToString(in.Data), "input_len": len(in.Data), "how": in.Desc,
			"status": vd.Res.Status, "alloc_bytes": vd.Res.Alloc, "elapsed": vd.Res.Elapsed.String(), "detail": clipS(vd.Res.Msg, 6000)}
	}

	// ---- replay of a saved case ----
	if raw, _ := evi.ReplayCase(); raw != nil {
		var cs struct {
			Entry   string `json:"entry"`
			Variant int    `json:"variant"`
			Hex     string `json:"input_hex"`
		}
		if json.Unmarshal(raw, &cs) == nil {
			data, _ := hex.DecodeString(cs.Hex)
			for ei, e := range c02Entries {
				if e.Name == cs.Entry && cs.Variant < e.Variants {
					in := c02Input{Data: data, Desc: []string{"replay"}, Kinds: []string{"replay"}}
					vd := h.judge(ei, cs.Variant, data)
					record(ei, cs.Variant, in, vd)
					rec.NonTrivial("replay", nil)
					rec.NonTrivial("replay2", nil)
					if vd.Key != "" {
						rec.Violation(vd.Key, vd.What, caseOf(ei, cs.Variant, in, vd))
					}
				}
			}
			return
		}
	}

	// ---- deterministic sweep: hostile constants and corpus x every entry ----
	c02Consts = hostileConstants(rec.Pick(12000, 60000))
	consts := c02Consts
	consts = append(consts, loadCorpus()...)
	rec.SetExtra("hostile_constants_and_corpus", len(consts))
	sweepStart := time.Now()
	sweepCalls, sweepBig := 0, 0
	var sweepJudge, sweepBigDur time.Duration
	sweepVariants := rec.Pick(12, 32)
	bigVariants := rec.Pick(1, 2)
	protoSweepVariants := rec.Pick(3, 12)
	// the thorough tier runs as 4 shards with consecutive seeds: each sweeps a quarter of the table
	sweepPart, sweepParts := 0, 1
	if rec.Thorough() {
		sweepParts = 4
		sweepPart = int(rec.Seed() % 4)
	}
	// own deadline: leave a minute of the go-test timeout for reporting, so that a
	// defect that makes many calls slow is still reported as what was found so far
	// Running out of this budget is not an error: on an overloaded machine fewer
	// inputs are tried and the evidence says so (cases_not_run_time_budget); the
	// verdict never depends on how fast the machine is.
	budgetEnd := testStart.Add(time.Duration(rec.Pick(240, 1320)) * time.Second)
	if dl, ok := t.Deadline(); ok && dl.Add(-75*time.Second).Before(budgetEnd) {
		budgetEnd = dl.Add(-75 * time.Second)
	}
	casesNotRun := 0
	outOfTime := false
	sweepViolKeys := map[string]bool{}
	keyConsts := mapKeyConstants()
	rec.SetExtra("map_key_constants", len(keyConsts))
	sweepOne := func(ei, v int, name string, data []byte) (stop bool) {
		in := c02Input{Data: data, Desc: []string{"hostile constant " + name}, Kinds: []string{"sweep"}}
		tj := time.Now()
		vd := h.judge(ei, v, data)
		sweepJudge += time.Since(tj)
		sweepCalls++
		if len(data) > 1024 {
			sweepBig++
			sweepBigDur += time.Since(tj)
		}
		record(ei, v, in, vd)
		if vd.Key == "harness" {
			fmt.Printf("HARNESS-ERROR property=C02 %s\n", vd.What)
			t.Fatalf("harness: %s", vd.What)
		}
		if vd.Key != "" {
			if !rec.Violation(vd.Key, vd.What+" (input: "+name+")", caseOf(ei, v, in, vd)) {
				sweepViolKeys[vd.Key] = true
			}
		}
		if len(sweepViolKeys) >= 8 {
			return true // enough to report; every further crash costs two worker restarts
		}
		if time.Now().After(budgetEnd) {
			outOfTime = true
			return true
		}
		return false
	}
sweep:
	for ei, e := range c02Entries {
		if e.Hidden || ei%sweepParts != sweepPart {
			continue
		}
		nv := e.Variants
		if nv > sweepVariants {
			nv = sweepVariants
		}
		if e.Variants == 32 && nv > protoSweepVariants {
			nv = protoSweepVariants
		}
		for v := 0; v < nv; v++ {
			for _, hc := range consts {
				if (e.Variants == 32 || e.Era != nil) && v >= bigVariants && len(hc.Data) > 1024 {
					// all message types of a protocol / all eras of a ledger decoder share
					// the generic decoder front end that sees the big bombs first
					continue
				}
				if sweepOne(ei, v, hc.Name, hc.Data) {
					break sweep
				}
			}
			// every key kind x every container position: the generic value decoders
			// (all their variants) and the first two message types of each protocol
			// full matrix on the entry points that build Go maps from arbitrary keys,
			// two positions (top-level map, tagged-sum list with a slow-path id)
			// on the first variant of the others and the first two message types
			full := keySweepFull[e.Name] && (v == 0 || e.Name == "cbor.Decode(typed)")
			if !full && (e.Era != nil || v >= 2 || (e.Variants != 32 && v >= 1)) {
				continue
			}
			for _, hc := range keyConsts {
				if !full && !strings.HasSuffix(hc.Name, "@top-level-map") && !strings.HasSuffix(hc.Name, "@idlist-nonminimal-id") {
					continue
				}
				if sweepOne(ei, v, hc.Name, hc.Data) {
					break sweep
				}
			}
		}
	}

	// every block fixture with a later entry of each of its component / per-tx
	// lists reshaped (first entry valid), against the offset-extracting and block
	// decoding entry points
	nEntryVariants := 0
	if len(sweepViolKeys) < 8 && !outOfTime {
		targets := map[string]bool{"ledger.ExtractTransactionOffsets+Extract*Cbor": true, "lcommon.StreamingBlockDecoder.DecodeWithOffsets": true,
			"ledger.NewBlockFromCborWithOffsets": true, "ledger.NewBlockFromCbor(skip-body-hash)": rec.Thorough()}
	entrySweep:
		for bi, sd := range seedsBy[seedBlock] {
			if bi%sweepParts != sweepPart {
				continue
			}
			vars := laterEntryVariants(sd.Name, sd.Bytes, rec.Pick(2, 3), rec.Thorough())
			nEntryVariants += len(vars)
			for ei, e := range c02Entries {
				if !targets[e.Name] {
					continue
				}
				v := 0
				if e.Era != nil {
					v = int(sd.Era)
				}
				for _, hc := range vars {
					if sweepOne(ei, v, hc.Name, hc.Data) {
						break entrySweep
					}
				}
			}
		}
	}
	rec.SetExtra("later_entry_variants", nEntryVariants)
	rec.SetExtra("sweep_wall_s", int(time.Since(sweepStart).Seconds()))
	rec.SetExtra("n_sweep_calls", sweepCalls)
	rec.SetExtra("sweep_judge_ms", sweepJudge.Milliseconds())
	rec.SetExtra("n_sweep_calls_big_input", sweepBig)
	rec.SetExtra("sweep_big_input_ms", sweepBigDur.Milliseconds())
	if len(sweepViolKeys) >= 8 {
		rec.SetExtra("stopped_after_sweep", "8 distinct violation classes in the deterministic sweep")
		return
	}
	if outOfTime {
		rec.SetExtra("sweep_cut_short_by_time_budget", true)
	}
	// ---- generated inputs ----
	uniformMax := rec.Pick(4096, c02MaxInput)
	visible := make([]int, 0, len(c02Entries))
	for i, e := range c02Entries {
		if !e.Hidden {
			visible = append(visible, i)
		}
	}
	rec.Check(func(rt *rapid.T) {
		if outOfTime || time.Now().After(budgetEnd) {
			outOfTime = true
			casesNotRun++
			return // not evaluated, not counted
		}
		ei := visible[rapid.IntRange(0, len(visible)-1).Draw(rt, "entry")]
		e := c02Entries[ei]
		v := rapid.IntRange(0, e.Variants-1).Draw(rt, "variant")
		in := genC02Input(rt, e, &v, uniformMax)
		if len(in.Data) > c02MaxInput {
			in.Data = in.Data[:c02MaxInput]
		}
		if tk := "time:" + c02TimeKeyName(e, v); h.knownSlow[tk] >= 2 && len(in.Data) > 4096 {
			// listed slow family, already hit twice in this run: exclude the class
			// (big inputs for these entries) by construction for the rest of the run
			in.Data = in.Data[:4096]
			in.Desc = append(in.Desc, "clipped to 4096 bytes (listed slow family)")
			rec.Class("excluded_by_construction_listed_slow_family")
		}
		vd := h.judge(ei, v, in.Data)
		record(ei, v, in, vd)
		if vd.Key == "harness" {
			rt.Fatalf("harness: %s", vd.What)
		}
		if vd.Key != "" {
			rec.Fail(rt, vd.Key, vd.What+" (input: "+strings.Join(in.Desc, "; ")+")", caseOf(ei, v, in, vd))
		}
	})

	rec.SetExtra("cases_not_run_time_budget", casesNotRun)
	if outOfTime {
		fmt.Printf("NOTE property=C02 time budget reached (overloaded machine?): %d generated cases were not run; verdict covers what the evidence counts\n", casesNotRun)
	}
	rec.SetExtra("entry_points", len(visible))
	nVar := 0
	for _, i := range visible {
		nVar += c02Entries[i].Variants
	}
	rec.SetExtra("entry_point_variants", nVar)
	rec.SetExtra("calls_per_entry_point", perEntry)
	for k, v := range perEntryMs {
		perEntryMs[k] = float64(int(v))
	}
	rec.SetExtra("worker_ms_per_entry_point", perEntryMs)
	rec.SetExtra("wellformed_inputs_per_entry_point", reached)
	rec.SetExtra("calls_returning_a_value_per_entry_point", returned)
	var never []string
	for _, i := range visible {
		if returned[c02Entries[i].Name] == 0 {
			never = append(never, c02Entries[i].Name)
		}
	}
	rec.SetExtra("entry_points_that_never_returned_a_value", never)
	rec.SetExtra("n_worker_processes_spawned", runner.Spawned)
	rec.SetExtra("n_worker_restarts", runner.Restarts)
	rec.SetExtra("n_remeasured", h.remeasured)
	rec.SetExtra("n_heap_profile_not_published_twice", h.unmeasured)
	rec.SetExtra("n_total_alloc_over_budget_but_peak_heap_within", h.churn)
	rec.SetExtra("max_total_alloc_in_those", h.maxChurn)
	rec.SetExtra("max_total_alloc_case", h.maxChurnAt)
	rec.SetExtra("n_over_budget_but_proportional_to_consumed_input", h.amplified)
	rec.SetExtra("max_bytes_allocated_per_input_byte_in_those", int(h.maxAmplification))
	rec.SetExtra("max_amplification_case", h.maxAmplificationAt)
	rec.SetExtra("n_slow_first_attempt_not_confirmed", h.slowFirst)
	rec.SetExtra("n_worker_death_not_reproduced", h.flakyCrash)
}

// c02SelfTest proves that the worker guard turns each kind of misbehaviour
// into a verdict (and that the address-space cap is really in force) using
// canary entries that are not part of the property.
func c02SelfTest(h *c02Harness) string {
	t0 := time.Now()
	lap := func(what string) {
		if os.Getenv("VERIF_C02_SELFTEST_ONLY") != "" {
			fmt.Printf("selftest %-30s %s\n", what, time.Since(t0))
		}
		t0 = time.Now()
	}
	defer lap("end")
	idx := func(name string) int {
		for i, e := range c02Entries {
			if e.Name == name {
				return i
			}
		}
		return -1
	}
	// 1. claimed-length allocation far beyond the cap must kill only the worker
	vd := h.judge(idx("canary:alloc-claimed"), 0, head9(4, 1<<35))
	lap("oom-judge")
	var res c02Result
	if !strings.HasPrefix(vd.Key, "crash:") || !strings.Contains(vd.Key+vd.Res.Msg, "out of memory") && !strings.Contains(vd.Res.Msg, "cannot allocate") {
		return "worker death was not turned into a crash verdict: " + vd.Key
	}
	// 2. allocation over budget but under the cap
	vd = h.judge(idx("canary:alloc-claimed"), 0, head9(4, 6<<20)) // 48 MiB
	if !strings.HasPrefix(vd.Key, "memory:") {
		return fmt.Sprintf("48 MiB allocation not flagged: key %q alloc %d status %d peak %d maxSingle %d churn %v amplified %v cpu %s msg %q", vd.Key, vd.Res.Alloc, vd.Res.Status, vd.Res.Peak, vd.Res.MaxSingle, vd.Res.Churn, vd.Res.Amplified, vd.Res.CPU, clipS(vd.Res.Msg, 200))
	}
	lap(fmt.Sprintf("160MiB: elapsed in worker %s alloc %d", vd.Res.Elapsed, vd.Res.Alloc))
	// 2b. the same allocation dropped immediately: no sampler can see it, the
	// heap profile (largest single allocation) must
	vd = h.judge(idx("canary:alloc-claimed"), 1, head9(4, 6<<20))
	if !strings.HasPrefix(vd.Key, "memory:") || !strings.Contains(vd.What, "largest single allocation 50") {
		return fmt.Sprintf("48 MiB allocation dropped at once not flagged through the heap profile: key %q what %q", vd.Key, vd.What)
	}
	// 3. within budget
	vd = h.judge(idx("canary:alloc-claimed"), 0, head9(4, 1<<18)) // 2 MiB
	if vd.Key != "" {
		return "2 MiB allocation flagged: " + vd.Key
	}
	lap("alloc budget")
	// 4. panic
	vd = h.judge(idx("canary:panic"), 0, []byte{1})
	if !strings.HasPrefix(vd.Key, "panic:") || !strings.Contains(vd.Key, "c02CanaryPanic") {
		return "panic not classified with its site: " + vd.Key
	}
	lap("panic")
	// 5. stack overflow
	res = h.r.call(idx("canary:recurse"), 0, []byte{1}, 60*time.Second)
	if sum, site := crashSummary(res.Msg); res.Status != -1 || !strings.Contains(sum, "stack overflow") {
		return fmt.Sprintf("unbounded recursion not classified: status %d summary %q site %q", res.Status, sum, site)
	}
	lap("recursion")
	// 6. endless loop (short waits for the self-test only)
	// a call blocked without using CPU runs into the wall-clock cap ...
	h.r.WallCap = time.Second
	res = h.r.call(idx("canary:loop"), 0, []byte{1}, 10*time.Second)
	h.r.WallCap = 0
	if res.Status != -2 {
		return fmt.Sprintf("blocked call not detected (status %d)", res.Status)
	}
	// ... and a busy loop into the CPU-time limit, however slowly the machine lets it burn CPU
	res = h.r.call(idx("canary:spin"), 0, []byte{1}, 400*time.Millisecond)
	if res.Status != -2 || res.CPU < 400*time.Millisecond {
		return fmt.Sprintf("busy loop not stopped by the CPU-time limit (status %d, cpu %s, %s)", res.Status, res.CPU, clipS(res.Msg, 200))
	}
	// and the runner recovers
	res = h.r.call(idx("canary:panic"), 0, nil, 20*time.Second)
	if res.Status != c02StatusOK {
		return fmt.Sprintf("worker did not come back after a kill (status %d %s)", res.Status, clipS(res.Msg, 200))
	}
	return ""
}
