package codec

import (
	"bufio"
	"bytes"
	"encoding/binary"
	"errors"
	"fmt"
	"io"
	"math"
	"os"
	"os/exec"
	"runtime"
	"runtime/debug"
	"runtime/metrics"
	"strings"
	"sync"
	"syscall"
	"time"
)

// Hostile inputs are never decoded in the test process. The test binary
// re-executes itself (TestC02Child, selected by VERIF_C02_CHILD=1) as a worker
// that (1) caps its own address space with RLIMIT_AS, so a decoder trying to
// allocate what an inflated length field claims fails inside the worker
// instead of taking the shared machine down, (2) caps the goroutine stack,
// (3) runs one call at a time on one goroutine under recover and reports
// status, allocated bytes (runtime/metrics /gc/heap/allocs:bytes delta) and
// elapsed time over a pipe. The parent enforces wall-clock bounds, restarts a
// dead or stuck worker and re-measures before anything is reported.

const (
	c02ChildEnv      = "VERIF_C02_CHILD"
	c02AddrSpaceCap  = 4 << 30  // RLIMIT_AS of the worker
	c02StackCap      = 32 << 20 // debug.SetMaxStack in the worker
	c02HeapWatchdog  = 1536 << 20
	c02StatusOK      = 0
	c02StatusErr     = 1
	c02StatusPanic   = 2
	c02StatusBadCall = 3
)

type c02Result struct {
	Status    int           // c02Status*, or -1 worker died, -2 timeout
	Msg       string        // error text / panic value + site / stderr tail of a dead worker
	Site      string        // panic site (function) for keys
	Alloc     uint64        // bytes allocated during the call (cumulative)
	Peak      uint64        // peak growth of the bytes held by heap objects, sampled (peak mode only)
	MaxSingle uint64        // largest per-site average allocation size during the call, from the heap profile (peak mode only)
	CPU       time.Duration // process CPU time (user+system) consumed by the worker during the call
	Elapsed   time.Duration
	Restarts  int
	// Amplified: over the allocation budget, but shown to follow the consumed input
	Amplified bool
	// Churn: cumulative allocation over the budget, peak heap growth within it
	Churn bool
}

// ---- worker side ------------------------------------------------------------------

func c02ChildMain() {
	lim := syscall.Rlimit{Cur: c02AddrSpaceCap, Max: c02AddrSpaceCap}
	if err := syscall.Setrlimit(syscall.RLIMIT_AS, &lim); err != nil {
		fmt.Fprintf(os.Stderr, "C02-CHILD cannot set RLIMIT_AS: %v\n", err)
		os.Exit(97) // never run hostile inputs unprotected
	}
	debug.SetMaxStack(c02StackCap)
	debug.SetMemoryLimit(1 << 30) // soft: makes the GC work harder before the hard caps are reached
	in := bufio.NewReaderSize(os.NewFile(3, "req"), 1<<16)
	out := bufio.NewWriterSize(os.NewFile(4, "resp"), 1<<16)

	// heap watchdog: a decoder that really touches > 1.5 GiB is stopped here
	go func() {
		s := []metrics.Sample{{Name: "/memory/classes/heap/objects:bytes"}}
		for {
			time.Sleep(25 * time.Millisecond)
			metrics.Read(s)
			if s[0].Value.Uint64() > c02HeapWatchdog {
				fmt.Fprintf(os.Stderr, "\nfatal error: C02-CHILD heap watchdog: live heap %d bytes exceeds %d\n", s[0].Value.Uint64(), c02HeapWatchdog)
				os.Exit(98)
			}
		}
	}()

	allocS := []metrics.Sample{{Name: "/gc/heap/allocs:bytes"}}
	var sentinels int64 // sentinel allocations published in the heap profile so far
	hdr := make([]byte, 8)
	for {
		if _, err := io.ReadFull(in, hdr); err != nil {
			os.Exit(0)
		}
		entry := int(binary.BigEndian.Uint16(hdr[0:]))
		variant := int(binary.BigEndian.Uint16(hdr[2:]))
		peakMode := variant&0x8000 != 0
		variant &= 0x7fff
		n := int(binary.BigEndian.Uint32(hdr[4:]))
		data := make([]byte, n)
		if _, err := io.ReadFull(in, data); err != nil {
			os.Exit(0)
		}
		status, msg, site := c02StatusBadCall, "no such entry", ""
		var alloc, peak, maxSingle uint64
		var el, cpu time.Duration
		var prof0 map[[32]uintptr][2]int64
		profOK := false
		if entry < len(c02Entries) && variant < c02Entries[entry].Variants {
			var stop, stopped chan struct{}
			if peakMode {
				// peak heap growth: collect first, then sample the bytes held by heap
				// objects (live + not yet swept) while the call runs
				prof0, sentinels, profOK = c02MemProfile(sentinels)
				ps := []metrics.Sample{{Name: "/memory/classes/heap/objects:bytes"}}
				metrics.Read(ps)
				base := ps[0].Value.Uint64()
				stop, stopped = make(chan struct{}), make(chan struct{})
				go func() {
					defer close(stopped)
					for {
						metrics.Read(ps)
						if v := ps[0].Value.Uint64(); v > base && v-base > peak {
							peak = v - base
						}
						select {
						case <-stop:
							return
						default:
						}
						time.Sleep(50 * time.Microsecond)
					}
				}()
			}
			metrics.Read(allocS)
			a0 := allocS[0].Value.Uint64()
			t0, c0 := time.Now(), c02ProcessCPU()
			status, msg, site = c02RunOne(c02Entries[entry], variant, data)
			el, cpu = time.Since(t0), c02ProcessCPU()-c0
			metrics.Read(allocS)
			alloc = allocS[0].Value.Uint64() - a0
			if peakMode {
				close(stop)
				<-stopped
				// Deterministic part of the measurement (no sampling race): the largest
				// average allocation size of any allocation site during the call, from the
				// heap profile. Allocations above a few MiB are recorded with probability
				// 1 - e^(-size/512KiB), i.e. always; a site that made one claimed-length
				// allocation shows exactly its size.
				prof1, n1, ok1 := c02MemProfile(sentinels)
				sentinels = n1
				for k, v := range prof1 {
					b, o := v[0]-prof0[k][0], v[1]-prof0[k][1]
					if o > 0 && b > 0 && b/o != c02SentinelSize && uint64(b/o) > maxSingle {
						maxSingle = uint64(b / o)
					}
				}
				if !profOK || !ok1 {
					maxSingle = math.MaxUint64 // "could not be measured"
				}
			}
		}
		if len(msg) > 4000 {
			msg = msg[:4000]
		}
		var resp [49]byte
		binary.BigEndian.PutUint64(resp[33:], maxSingle)
		binary.BigEndian.PutUint64(resp[41:], uint64(cpu))
		resp[0] = byte(status)
		binary.BigEndian.PutUint64(resp[1:], alloc)
		binary.BigEndian.PutUint64(resp[9:], uint64(el))
		binary.BigEndian.PutUint32(resp[17:], uint32(len(msg)))
		binary.BigEndian.PutUint32(resp[21:], uint32(len(site)))
		binary.BigEndian.PutUint64(resp[25:], peak)
		out.Write(resp[:])
		out.WriteString(msg)
		out.WriteString(site)
		if err := out.Flush(); err != nil {
			os.Exit(0)
		}
		if alloc > 64<<20 {
			runtime.GC() // give the big garbage back before the next call
		}
	}
}

// panicSite returns the innermost non-runtime function of the panicking stack.
func panicSite(stack []byte) string {
	lines := strings.Split(string(stack), "\n")
	seenPanic := false
	for i := 0; i < len(lines); i++ {
		l := lines[i]
		if strings.HasPrefix(l, "panic(") {
			seenPanic = true
			continue
		}
		if !seenPanic || strings.HasPrefix(l, "\t") || strings.HasPrefix(l, "goroutine ") || l == "" {
			continue
		}
		if strings.HasPrefix(l, "runtime.") || strings.HasPrefix(l, "runtime/") {
			continue
		}
		fn := l
		if j := strings.LastIndex(l, "("); j > 0 { // strip the argument list, keep "(*T).Method"
			fn = l[:j]
		}
		loc := ""
		if i+1 < len(lines) {
			loc = strings.TrimSpace(lines[i+1])
			if j := strings.LastIndex(loc, " +0x"); j > 0 {
				loc = loc[:j]
			}
			if j := strings.LastIndex(loc, "/"); j >= 0 {
				loc = loc[j+1:]
			}
		}
		return fn + " (" + loc + ")"
	}
	return "unknown"
}

// c02ProcessCPU is the CPU time (user+system) the worker process has consumed.
func c02ProcessCPU() time.Duration {
	var ru syscall.Rusage
	if syscall.Getrusage(syscall.RUSAGE_SELF, &ru) != nil {
		return 0
	}
	return time.Duration(ru.Utime.Nano() + ru.Stime.Nano())
}

const c02SentinelSize = 4<<20 + 8192

var c02SentinelSink []byte

//go:noinline
func c02Sentinel() {
	c02SentinelSink = make([]byte, c02SentinelSize)
	c02SentinelSink[0] = 1
	c02SentinelSink = nil
}

// c02MemProfile returns cumulative (bytes, objects) allocated per allocation
// site, complete up to the moment of the call. The runtime publishes profile
// data only when a GC cycle finishes sweeping without another cycle racing it,
// so automatic collection is switched off while flushing and a sentinel
// allocation made on entry must have become visible before the snapshot is
// accepted (everything allocated before the sentinel is published with it or
// earlier). ok=false: the sentinel never showed up.
func c02MemProfile(prevSentinels int64) (prof map[[32]uintptr][2]int64, sentinels int64, ok bool) {
	oldPct := debug.SetGCPercent(-1)
	oldLim := debug.SetMemoryLimit(math.MaxInt64)
	defer func() {
		debug.SetGCPercent(oldPct)
		debug.SetMemoryLimit(oldLim)
	}()
	c02Sentinel()
	for attempt := 0; attempt < 12; attempt++ {
		runtime.GC()
		runtime.GC()
		n, _ := runtime.MemProfile(nil, true)
		var recs []runtime.MemProfileRecord
		for {
			recs = make([]runtime.MemProfileRecord, n+64)
			var fit bool
			if n, fit = runtime.MemProfile(recs, true); fit {
				recs = recs[:n]
				break
			}
		}
		prof = make(map[[32]uintptr][2]int64, len(recs))
		sentinels = 0
		for _, r := range recs {
			v := prof[r.Stack0]
			prof[r.Stack0] = [2]int64{v[0] + r.AllocBytes, v[1] + r.AllocObjects}
			if r.AllocObjects > 0 && r.AllocBytes == r.AllocObjects*c02SentinelSize {
				sentinels += r.AllocObjects
			}
		}
		if sentinels > prevSentinels {
			return prof, sentinels, true
		}
	}
	return prof, sentinels, false
}

func c02RunOne(e *c02Entry, v int, data []byte) (status int, msg, site string) {
	defer func() {
		if p := recover(); p != nil {
			st := debug.Stack()
			status = c02StatusPanic
			site = panicSite(st)
			msg = fmt.Sprintf("panic: %v\n%s", p, clipS(string(st), 3000))
		}
	}()
	if err := e.Run(v, data); err != nil {
		return c02StatusErr, err.Error(), ""
	}
	return c02StatusOK, "", ""
}

// ---- parent side ------------------------------------------------------------------

type c02Worker struct {
	cmd    *exec.Cmd
	req    *os.File
	resp   *bufio.Reader
	respF  *os.File
	stderr *tailBuffer
	done   chan struct{}
}

type tailBuffer struct {
	mu  sync.Mutex
	buf []byte
}

func (t *tailBuffer) Write(p []byte) (int, error) {
	t.mu.Lock()
	t.buf = append(t.buf, p...)
	if len(t.buf) > 1<<16 {
		t.buf = t.buf[len(t.buf)-(1<<16):]
	}
	t.mu.Unlock()
	return len(p), nil
}

func (t *tailBuffer) String() string {
	t.mu.Lock()
	defer t.mu.Unlock()
	return string(t.buf)
}

type c02Runner struct {
	WallCap  time.Duration // overrides the wall-clock cap of a call (self-test only)
	w        *c02Worker
	Restarts int
	Spawned  int
}

func (r *c02Runner) start() error {
	exe, err := os.Executable()
	if err != nil {
		return err
	}
	reqR, reqW, err := os.Pipe()
	if err != nil {
		return err
	}
	respR, respW, err := os.Pipe()
	if err != nil {
		return err
	}
	cmd := exec.Command(exe, "-test.run=^TestC02Child$", "-test.count=1", "-test.timeout=0", "-test.v=false")
	cmd.Env = append(os.Environ(), c02ChildEnv+"=1", "GOMAXPROCS=4", "VERIF_EVIDENCE_OUT=/dev/null")
	cmd.ExtraFiles = []*os.File{reqR, respW}
	tb := &tailBuffer{}
	cmd.Stderr = tb
	cmd.Stdout = tb
	if err := cmd.Start(); err != nil {
		return err
	}
	reqR.Close()
	respW.Close()
	w := &c02Worker{cmd: cmd, req: reqW, resp: bufio.NewReaderSize(respR, 1<<16), respF: respR, stderr: tb, done: make(chan struct{})}
	go func() { _ = cmd.Wait(); close(w.done) }()
	r.w = w
	r.Spawned++
	return nil
}

func (r *c02Runner) kill() {
	if r.w == nil {
		return
	}
	_ = r.w.cmd.Process.Kill()
	<-r.w.done
	r.w.req.Close()
	r.w.respF.Close()
	r.w = nil
}

func (r *c02Runner) Close() { r.kill() }

var errC02Timeout = errors.New("timeout")

// callPeak is call with peak-heap sampling switched on in the worker.
func (r *c02Runner) callPeak(entry, variant int, data []byte, wait time.Duration) c02Result {
	return r.call(entry, variant|0x8000, data, wait)
}

// call runs one input in the worker; `wait` bounds the CPU time the call may consume.
func (r *c02Runner) call(entry, variant int, data []byte, wait time.Duration) c02Result {
	if r.w == nil {
		if err := r.start(); err != nil {
			return c02Result{Status: -3, Msg: "cannot start worker: " + err.Error()}
		}
	}
	w := r.w
	hdr := make([]byte, 8, 8+len(data))
	binary.BigEndian.PutUint16(hdr[0:], uint16(entry))
	binary.BigEndian.PutUint16(hdr[2:], uint16(variant))
	binary.BigEndian.PutUint32(hdr[4:], uint32(len(data)))
	type rd struct {
		res c02Result
		err error
	}
	ch := make(chan rd, 1)
	go func() {
		if _, err := w.req.Write(append(hdr, data...)); err != nil {
			ch <- rd{err: err}
			return
		}
		var resp [49]byte
		if _, err := io.ReadFull(w.resp, resp[:]); err != nil {
			ch <- rd{err: err}
			return
		}
		ml := binary.BigEndian.Uint32(resp[17:])
		sl := binary.BigEndian.Uint32(resp[21:])
		buf := make([]byte, ml+sl)
		if _, err := io.ReadFull(w.resp, buf); err != nil {
			ch <- rd{err: err}
			return
		}
		ch <- rd{res: c02Result{
			Status: int(resp[0]), Alloc: binary.BigEndian.Uint64(resp[1:]),
			Elapsed: time.Duration(binary.BigEndian.Uint64(resp[9:])),
			Msg:     string(buf[:ml]), Site: string(buf[ml:]),
			Peak:      binary.BigEndian.Uint64(resp[25:]),
			MaxSingle: binary.BigEndian.Uint64(resp[33:]),
			CPU:       time.Duration(binary.BigEndian.Uint64(resp[41:])),
		}}
	}()
	// The bound is on CPU time, not wall time: on a loaded machine a call may wait
	// arbitrarily long for a processor, which says nothing about the decoder. The
	// parent reads the worker's consumed CPU time from /proc and gives up when the
	// call has burnt more than `wait` of CPU, or when it has been blocked without
	// using CPU for wallCap (a decoder stuck on a lock or channel).
	cpu0 := procCPU(w.cmd.Process.Pid)
	start := time.Now()
	wallCap := 6 * wait
	if wallCap < 90*time.Second {
		wallCap = 90 * time.Second
	}
	if r.WallCap > 0 {
		wallCap = r.WallCap
	}
	tick := time.NewTicker(100 * time.Millisecond)
	defer tick.Stop()
	for {
		select {
		case x := <-ch:
			if x.err == nil {
				return x.res
			}
			// worker died: collect what it said
			select {
			case <-w.done:
			case <-time.After(5 * time.Second):
			}
			tail := w.stderr.String()
			r.kill()
			r.Restarts++
			return c02Result{Status: -1, Msg: tail}
		case <-tick.C:
			used := procCPU(w.cmd.Process.Pid) - cpu0
			if used > wait || time.Since(start) > wallCap {
				r.kill() // unblocks the reader goroutine through closed pipes
				r.Restarts++
				return c02Result{Status: -2, Msg: fmt.Sprintf("no answer after %s of CPU time and %s of wall time (limits %s CPU, %s wall)", used.Round(time.Millisecond), time.Since(start).Round(time.Millisecond), wait, wallCap), Elapsed: time.Since(start), CPU: used}
			}
		}
	}
}

// procCPU reads utime+stime of a process from /proc (clock ticks of 10 ms).
func procCPU(pid int) time.Duration {
	b, err := os.ReadFile(fmt.Sprintf("/proc/%d/stat", pid))
	if err != nil {
		return 0
	}
	s := string(b)
	i := strings.LastIndex(s, ")") // comm may contain spaces
	if i < 0 {
		return 0
	}
	f := strings.Fields(s[i+1:])
	if len(f) < 13 {
		return 0
	}
	var ut, st int64
	fmt.Sscan(f[11], &ut)
	fmt.Sscan(f[12], &st)
	return time.Duration(ut+st) * 10 * time.Millisecond
}

// crashSummary extracts the fatal line of a dead worker's output.
func crashSummary(tail string) (summary, site string) {
	lines := strings.Split(tail, "\n")
	for i, l := range lines {
		if strings.HasPrefix(l, "fatal error:") || strings.HasPrefix(l, "runtime: goroutine stack exceeds") ||
			strings.HasPrefix(l, "panic:") || strings.HasPrefix(l, "SIG") || strings.HasPrefix(l, "unexpected fault") {
			summary = strings.TrimSpace(l)
			if strings.HasPrefix(l, "runtime: goroutine stack exceeds") {
				summary = "fatal error: stack overflow (goroutine stack exceeds the limit)"
			}
			// first library frame after it
			for _, f := range lines[i:] {
				if strings.HasPrefix(f, "github.com/blinklabs-io/gouroboros") || strings.HasPrefix(f, "github.com/fxamacker") {
					site = f
					if j := strings.LastIndex(f, "("); j > 0 {
						site = f[:j]
					}
					break
				}
			}
			return
		}
	}
	return clipS(strings.TrimSpace(tail), 200), ""
}

var _ = bytes.Equal
