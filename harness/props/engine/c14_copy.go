package engine

import (
	"fmt"
	"time"

	"github.com/blinklabs-io/gouroboros/protocol"
	"github.com/blinklabs-io/gouroboros/protocol/chainsync"
	"github.com/blinklabs-io/gouroboros/protocol/handshake"

	"verif/harness/internal/evi"
)

// checkStateMapCopies is the structural part of C14: every client and server
// configures its Protocol with StateMap.Copy() of the package-level map, so a
// timeout that does not survive Copy() never fires. For every package-level
// state map reachable from outside, each entry of the map and of its Copy()
// must agree in Agency, Timeout, PendingMessageByteLimit, edges and in whether
// TimeoutFunc is set; a copied TimeoutFunc must yield values in the range the
// package documents. Package-level maps that are themselves made with Copy()
// (chainsync.StateMap, handshake.StateMap) are compared with their sources.
func checkStateMapCopies(rec *evi.Recorder) {
	type named struct {
		name string
		m    protocol.StateMap
	}
	var maps []named
	for _, sp := range allSpecs {
		maps = append(maps, named{sp.Name, sp.Map})
	}
	compare := func(name string, src, cp protocol.StateMap) {
		if len(src) != len(cp) {
			rec.Violation("C14:copy:"+name+":states-differ", fmt.Sprintf("%s: map has %d states, copy has %d", name, len(src), len(cp)), nil)
			return
		}
		for _, s := range sortedStates(src) {
			a, b := src[s], cp[s]
			rec.Eval()
			key := fmt.Sprintf("C14:copy:%s:%s:", name, s)
			cs := map[string]any{"map": name, "state": s.String(), "timeout": a.Timeout.String(), "copy_timeout": b.Timeout.String(),
				"timeoutfunc_set": a.TimeoutFunc != nil, "copy_timeoutfunc_set": b.TimeoutFunc != nil}
			switch {
			case a.Timeout != b.Timeout:
				rec.Violation(key+"timeout-changed", fmt.Sprintf("%s state %s: Timeout %v, after Copy() %v", name, s, a.Timeout, b.Timeout), cs)
			case (a.TimeoutFunc == nil) != (b.TimeoutFunc == nil):
				rec.Violation(key+"timeoutfunc-lost", fmt.Sprintf("%s state %s: TimeoutFunc set=%v, after Copy() set=%v (Timeout %v): the copy a Protocol is configured with arms no timer for this state", name, s, a.TimeoutFunc != nil, b.TimeoutFunc != nil, b.Timeout), cs)
			case a.Agency != b.Agency || a.PendingMessageByteLimit != b.PendingMessageByteLimit || len(a.Transitions) != len(b.Transitions):
				rec.Violation(key+"entry-changed", fmt.Sprintf("%s state %s: agency/limit/edges differ after Copy()", name, s), cs)
			default:
				for i := range a.Transitions {
					x, y := a.Transitions[i], b.Transitions[i]
					if x.MsgType != y.MsgType || x.NewState != y.NewState || (x.MatchFunc == nil) != (y.MatchFunc == nil) {
						rec.Violation(key+"edge-changed", fmt.Sprintf("%s state %s: edge %d differs after Copy()", name, s, i), cs)
					}
				}
			}
			if b.TimeoutFunc != nil {
				rec.Class("copied_timeoutfunc_called")
				lo, hi := time.Duration(1), time.Duration(1<<62)
				if name == "chain-sync/NtN" || name == "chainsync.StateMap" {
					lo, hi = chainsync.MustReplyTimeoutMin, chainsync.MustReplyTimeoutMax
				}
				for i := 0; i < 50; i++ {
					if v := b.TimeoutFunc(); v < lo || v >= hi {
						rec.Violation(key+"timeoutfunc-range", fmt.Sprintf("%s state %s: copied TimeoutFunc returned %v, documented range [%v,%v)", name, s, v, lo, hi), cs)
						break
					}
				}
				rec.NonTrivial("copy/"+name+"/"+s.String(), cs)
			}
		}
	}
	for _, nm := range maps {
		compare(nm.name, nm.m, nm.m.Copy())
		compare(nm.name+"(copy of copy)", nm.m, nm.m.Copy().Copy())
	}
	// package-level maps that the library itself derives with Copy()
	compare("chainsync.StateMap", chainsync.StateMapNtN, chainsync.StateMap)
	compare("handshake.StateMap", handshake.StateMapNtN, handshake.StateMap)
	rec.SetExtra("n_state_maps_compared_with_copy", 2*len(maps)+2)
}
