package engine

import (
	"bytes"
	"fmt"
	"runtime"
	"strings"
	"testing"
	"time"

	"github.com/blinklabs-io/gouroboros/protocol"
	"pgregory.net/rapid"

	"verif/harness/internal/evi"
	"verif/harness/internal/rawpeer"
	"verif/harness/internal/xcbor"
)

// c11Step is one step of an adversary script.
type c11Step struct {
	Local   bool   // true: the harness calls SendMessage; false: the raw peer writes
	Msg     *wmsg  // nil for an unknown-type message
	Raw     []byte // what the peer writes
	Class   string // ok | offending | early | followup | unknown_type | after_terminal
	Join    bool   // peer step: same segment payload as the preceding peer step
	Cut     int    // peer step: cut the segment payload after Cut bytes (0: no cut)
	Barrier bool   // local step: first wait until the engine has taken in everything the peer wrote
	HoldMs  int    // local step with Barrier: then keep agency for this long before sending
}

func (s c11Step) desc() string {
	who := "P"
	if s.Local {
		who = "L"
	}
	k := "?"
	if s.Msg != nil {
		k = s.Msg.Kind
	}
	return who + ":" + k + ":" + s.Class
}

type schedule struct {
	Procs       int
	LibChunks   []int
	LibYields   []int
	PeerYields  []int
	HandlerWait []int // per handler invocation, cycled: 0 none, 1 Gosched, n>1 sleep n µs
}

func genSchedule(rt *rapid.T) schedule {
	return schedule{
		Procs:       rapid.SampledFrom([]int{1, 2, 4, 16}).Draw(rt, "procs"),
		LibChunks:   rapid.SliceOfN(rapid.SampledFrom([]int{0, 0, 1, 2, 3, 7, 8, 9, 64}), 0, 5).Draw(rt, "libChunks"),
		LibYields:   rapid.SliceOfN(rapid.SampledFrom([]int{0, 0, 1, 1, 40}), 0, 4).Draw(rt, "libYields"),
		PeerYields:  rapid.SliceOfN(rapid.SampledFrom([]int{0, 0, 1, 30}), 0, 3).Draw(rt, "peerYields"),
		HandlerWait: rapid.SliceOfN(rapid.SampledFrom([]int{0, 0, 1, 60, 300}), 0, 4).Draw(rt, "handlerWait"),
	}
}

func (sc schedule) hook() func(int) {
	if len(sc.HandlerWait) == 0 {
		return nil
	}
	return func(n int) {
		switch w := sc.HandlerWait[n%len(sc.HandlerWait)]; {
		case w == 1:
			runtime.Gosched()
		case w > 1:
			time.Sleep(time.Duration(w) * time.Microsecond)
		}
	}
}

func pickKind(rt *rapid.T, idx []int, label string) int {
	return idx[rapid.IntRange(0, len(idx)-1).Draw(rt, label)]
}

// genC11Script walks the state map and lets the adversary mix permitted
// messages with messages of other states / of the local role, messages that
// arrive early (while the local side holds agency), messages after the
// terminal state and messages with a type number the protocol does not know.
func genC11Script(rt *rapid.T, sp *protoSpec, role protocol.ProtocolRole) []c11Step {
	sm := sp.Map
	var steps []c11Step
	tag := uint64(rapid.IntRange(0, 50).Draw(rt, "tag0"))
	mk := func(ki int) *wmsg { tag++; return sp.mustBuild(sp.Kinds[ki], tag) }
	all := make([]int, len(sp.Kinds))
	for i := range all {
		all[i] = i
	}
	peerStep := func(m *wmsg, class string) c11Step {
		st := c11Step{Msg: m, Raw: m.Bytes, Class: class}
		st.Join = rapid.IntRange(0, 2).Draw(rt, "join") == 0
		if rapid.IntRange(0, 3).Draw(rt, "doCut") == 0 && len(m.Bytes) > 1 {
			st.Cut = rapid.IntRange(1, len(m.Bytes)-1).Draw(rt, "cut")
		}
		return st
	}
	s := sp.Initial
	var early []*wmsg
	maxSteps := rapid.IntRange(1, 14).Draw(rt, "maxSteps")
	bad := false
	var badState protocol.State
walk:
	for i := 0; i < maxSteps; i++ {
		// early messages get processed as soon as the peer holds agency
		for agencyOf(sm, s) == roleAgency(otherRole(role)) && len(early) > 0 {
			m := early[0]
			early = early[1:]
			next, ok := permits(sm, nil, s, m)
			if !ok {
				bad, badState = true, s
				break walk
			}
			s = next
		}
		perm, notPerm := sp.splitKinds(sm, s)
		if len(perm) == 0 && agencyOf(sm, s) != protocol.AgencyNone {
			break walk // cannot happen for reachable states of the covered maps
		}
		switch agencyOf(sm, s) {
		case protocol.AgencyNone:
			if rapid.Bool().Draw(rt, "afterTerminal") {
				steps = append(steps, peerStep(mk(pickKind(rt, all, "kind")), "after_terminal"))
			}
			break walk
		case roleAgency(role): // local side holds agency
			switch c := rapid.IntRange(0, 9).Draw(rt, "localChoice"); {
			case c < 5:
				m := mk(pickKind(rt, perm, "kind"))
				next, _ := permits(sm, nil, s, m)
				ls := c11Step{Local: true, Msg: m, Class: "ok",
					Barrier: rapid.IntRange(0, 3).Draw(rt, "barrier") != 0}
				if len(early) > 0 && ls.Barrier && rapid.IntRange(0, 24).Draw(rt, "longHold") == 0 {
					// early messages are queued and the local side keeps agency for a long time
					ls.HoldMs = rapid.IntRange(120, 300).Draw(rt, "holdMs")
				}
				steps = append(steps, ls)
				s = next
			case c < 9:
				m := mk(pickKind(rt, all, "kind"))
				steps = append(steps, peerStep(m, "early"))
				early = append(early, m)
			default:
				break walk
			}
		default: // the peer holds agency
			switch c := rapid.IntRange(0, 19).Draw(rt, "peerChoice"); {
			case c < 13:
				m := mk(pickKind(rt, perm, "kind"))
				next, _ := permits(sm, nil, s, m)
				steps = append(steps, peerStep(m, "ok"))
				s = next
			case c < 18 && len(notPerm) > 0:
				steps = append(steps, peerStep(mk(pickKind(rt, notPerm, "kind")), "offending"))
				bad, badState = true, s
				break walk
			case c < 19:
				raw := xcbor.A(xcbor.U(uint64(sp.unusedType())), xcbor.U(tag)).Encode()
				steps = append(steps, c11Step{Raw: raw, Class: "unknown_type"})
				bad, badState = true, s
				break walk
			default:
				break walk
			}
		}
	}
	if bad {
		// what follows the first offending message must never reach the
		// application: prefer messages the state would have accepted
		perm, _ := sp.splitKinds(sm, badState)
		n := rapid.IntRange(1, 3).Draw(rt, "followups")
		for i := 0; i < n; i++ {
			pool := all
			if len(perm) > 0 && rapid.IntRange(0, 3).Draw(rt, "followPerm") != 0 {
				pool = perm
			}
			st := peerStep(mk(pickKind(rt, pool, "kind")), "followup")
			if i == 0 {
				// often in the very same segment as the offending message
				st.Join = rapid.Bool().Draw(rt, "joinFollow")
			}
			steps = append(steps, st)
		}
	}
	return steps
}

func statesEq(a, b protocol.State) bool { return a.Id == b.Id && a.Name == b.Name }

// judgeTrace replays the recorded hook events against the projection. It
// returns a finding (key suffix, text) or "" and whether the engine rejected
// a message the model permits (counted, not a C11 violation).
func judgeTrace(snap snapshot, proj projection, peerMsgs []*wmsg) (key, what string, overReject bool) {
	ti := 0     // transitions seen
	okRecv := 0 // successful receive transitions seen so far
	hi := 0     // handler events seen
	for _, ev := range snap.Events {
		switch ev.Kind {
		case "transition":
			if ti >= len(proj.Trs) {
				return fmt.Sprintf("unexpected-transition:%s:type%d", ev.From, ev.MsgType),
					fmt.Sprintf("the engine performed a transition (%s) where the model expects none: no side may move there (agency/turn) - model final state %s", ev, proj.Final), false
			}
			ex := proj.Trs[ti]
			dir := "recv"
			if ex.Send {
				dir = "send"
			}
			if !statesEq(ev.From, ex.From) {
				return fmt.Sprintf("state-mismatch:%s", ex.From),
					fmt.Sprintf("transition #%d starts in %s, model is in %s", ti, ev.From, ex.From), false
			}
			if ev.MsgType != ex.Msg.Type {
				return fmt.Sprintf("wrong-turn:%s:%s:type%d", ex.From, dir, ev.MsgType),
					fmt.Sprintf("in state %s it is the turn of a %s of %s, but the engine processed a message of type %d (%s)", ex.From, dir, ex.Msg, ev.MsgType, ev), false
			}
			if ex.OK && ev.Err != "" {
				return "", "", true
			}
			if !ex.OK && ev.Err == "" {
				return fmt.Sprintf("accepted-not-permitted:%s:%s:%s", ex.From, dir, ex.Msg.Kind),
					fmt.Sprintf("message %s is not listed for state %s but the engine moved to %s", ex.Msg, ex.From, ev.To), false
			}
			if ex.OK && !statesEq(ev.To, ex.To) {
				return fmt.Sprintf("wrong-target:%s:%s", ex.From, ex.Msg.Kind),
					fmt.Sprintf("message %s in %s leads to %s, state map says %s", ex.Msg, ex.From, ev.To, ex.To), false
			}
			if ex.OK && !ex.Send {
				okRecv++
			}
			ti++
		case "handler":
			if hi >= okRecv {
				return fmt.Sprintf("handler-without-recv:type%d", ev.MsgType),
					fmt.Sprintf("handler invocation #%d (type %d) is not preceded by an accepted receive transition (only %d so far)", hi, ev.MsgType, okRecv), false
			}
			if hi >= len(proj.Handled) || peerMsgs[proj.Handled[hi]].Type != ev.MsgType {
				return fmt.Sprintf("handler-wrong-message:type%d", ev.MsgType),
					fmt.Sprintf("handler invocation #%d has type %d, model expects %v", hi, ev.MsgType, proj.Handled), false
			}
			hi++
		}
	}
	return "", "", false
}

// judgeHandled compares what reached the harness handler (the application)
// with what the model lets through: it must be a prefix, byte for byte.
func judgeHandled(h []handled, proj projection, peerMsgs []*wmsg) (key, what string) {
	for i, got := range h {
		if i >= len(proj.Handled) {
			return fmt.Sprintf("app-got-extra:type%d", got.Type),
				fmt.Sprintf("the application received message #%d (type %d, %x) but the model lets only %d messages through", i, got.Type, got.Bytes, len(proj.Handled))
		}
		want := peerMsgs[proj.Handled[i]]
		if !bytes.Equal(got.Bytes, want.Bytes) {
			return fmt.Sprintf("app-got-wrong:type%d", got.Type),
				fmt.Sprintf("the application received %x as message #%d, model expects %s %x", got.Bytes, i, want, want.Bytes)
		}
	}
	return "", ""
}

func TestC11(t *testing.T) {
	rec := evi.New(t, "C11", evi.Exploration,
		"one case = (exported state map, role, schedule, adversary script). The script is generated by walking the state map: while the peer holds agency the raw peer sends a permitted message, a message of the same protocol that the state does not list (other state / the local role's own messages) or a message with an unknown type number; while the local side holds agency either the harness sends a permitted message or the peer sends an 'early' message; after the terminal state possibly one more message; after the first offending message 1-3 follow-ups (mostly ones the state would accept), often in the same segment. Segment joins/cuts, read chunking, yields, handler delays and GOMAXPROCS are drawn too. Oracle: the recorded transition/handler hook trace and the harness handler log are replayed against the projection computed from the state map data alone. Non-trivial = the script has an offending/early/unknown-type/after-terminal message after at least one accepted message; distinct by (map, role, step kinds and classes).")
	defer rec.Finish()
	rec.Assume("the verif tracer hook reports transitions in the order the state loop performs them",
		"the protocol ErrorChan is buffered (as in ouroboros.Connection), so SendError never drops the error",
		"messages that are never processed (sent after the terminal state, or early with the local side never moving) are outside the statement: they must not reach the application, no error is demanded")
	validateSpecs(t)
	oldProcs := runtime.GOMAXPROCS(0)
	defer runtime.GOMAXPROCS(oldProcs)

	rec.Check(func(rt *rapid.T) {
		sp := allSpecs[rapid.IntRange(0, len(allSpecs)-1).Draw(rt, "spec")]
		role := rapid.SampledFrom([]protocol.ProtocolRole{protocol.ProtocolRoleClient, protocol.ProtocolRoleServer}).Draw(rt, "role")
		sc := genSchedule(rt)
		steps := genC11Script(rt, sp, role)
		runC11(rec, rt, sp, role, sc, steps)
	})
}

func runC11(rec *evi.Recorder, rt *rapid.T, sp *protoSpec, role protocol.ProtocolRole, sc schedule, steps []c11Step) {
	runtime.GOMAXPROCS(sc.Procs)
	var local, peerMsgs []*wmsg
	garbage := false
	descs := make([]string, len(steps))
	nontrivial, sawOK := false, false
	for i, st := range steps {
		descs[i] = st.desc()
		switch {
		case st.Local:
			local = append(local, st.Msg)
		case st.Msg != nil && !garbage:
			peerMsgs = append(peerMsgs, st.Msg)
		case st.Msg == nil:
			garbage = true
		}
		if st.Class == "ok" && !st.Local {
			sawOK = true
		}
		if sawOK && (st.Class == "offending" || st.Class == "early" || st.Class == "unknown_type" || st.Class == "after_terminal") {
			nontrivial = true
		}
		rec.Class("step_" + st.Class)
	}
	proj := project(sp.Map, nil, sp.Initial, role, local, peerMsgs)
	expectErr := garbage || proj.RecvError

	r := newRig(sp, sp.Map, role,
		&rawpeer.SeqPlan{Chunks: sc.LibChunks, Yields: sc.LibYields},
		&rawpeer.SeqPlan{Yields: sc.PeerYields})
	r.handlerHook = sc.hook()
	closed := false
	defer func() {
		if !closed {
			r.close()
		}
	}()

	caseObj := func(snap snapshot, extra map[string]any) map[string]any {
		m := map[string]any{
			"protocol": sp.Name, "role": roleName(role), "script": descs,
			"schedule": sc, "trace": snap.traceStrings(), "errors": snap.errStrings(),
			"handled": len(snap.Handled), "model_final_state": proj.Final.String(),
			"model_handled": proj.Handled,
		}
		for k, v := range extra {
			m[k] = v
		}
		return m
	}
	keyBase := fmt.Sprintf("C11:%s:%s:", sp.Name, roleName(role))

	// ---- run the script
	var sendErrs []string
	var buf []byte
	cut := 0
	wellFormedSent := 0
	flush := func() {
		if len(buf) > 0 {
			_ = r.peerSend(buf, cut) // the write may fail once the library closed the connection
			buf, cut = nil, 0
		}
	}
	for i, st := range steps {
		if st.Local {
			flush()
			if st.Barrier {
				n := wellFormedSent
				r.waitFor(2*time.Second, func() bool { return r.accounted >= n || len(r.errs) > 0 })
				settle(200 * time.Microsecond)
				if st.HoldMs > 0 {
					time.Sleep(time.Duration(st.HoldMs) * time.Millisecond)
					rec.Class("long_agency_hold_with_early_msgs_queued")
				}
			}
			if err := r.proto.SendMessage(sp.fresh(st.Msg)); err != nil {
				sendErrs = append(sendErrs, fmt.Sprintf("step %d: %v", i, err))
			}
			continue
		}
		if !st.Join {
			flush()
		}
		if st.Cut > 0 && cut == 0 {
			cut = len(buf) + st.Cut
		}
		buf = append(buf, st.Raw...)
		if st.Msg != nil {
			wellFormedSent++
		}
	}
	flush()

	// ---- wait for the conversation to play out (bounded, generous)
	const bound = livenessWindow
	if expectErr {
		finished := r.waitProgress(livenessWindow, livenessCap, func() bool { return len(r.errs) > 0 && r.isDone() }, nil)
		if finished == "cap" {
			rec.Class("inconclusive_still_progressing_at_cap")
			return
		}
		if finished == "stalled" {
			snap := r.snap()
			miss := "no error on ErrorChan"
			if len(snap.Errs) > 0 {
				miss = "DoneChan still open"
			}
			rec.Eval()
			rec.Fail(rt, keyBase+"offending-not-stopped", fmt.Sprintf("an offending message was put in front of the engine but nothing more happened for %v: %s", bound, miss),
				caseObj(snap, map[string]any{"goroutines": goroutineDump()}))
			return
		}
	} else {
		complete := r.waitProgress(livenessWindow, livenessCap, func() bool {
			n := 0
			for _, ev := range r.events {
				if ev.Kind == "transition" {
					n++
				}
			}
			return (n >= len(proj.Trs) && len(r.handledBy) >= len(proj.Handled)) || len(r.errs) > 0
		}, nil)
		if complete != "done" {
			rec.Class("incomplete_without_error")
		}
		// let the engine take in every byte the peer wrote, then give it a chance to misbehave
		n := wellFormedSent
		r.waitFor(time.Second, func() bool { return r.accounted >= n || len(r.errs) > 0 })
	}
	settle(time.Millisecond)
	snapA := r.snap()
	settle(time.Millisecond)
	snapB := r.snap()
	rec.Eval()

	// ---- judge
	if k, what, over := judgeTrace(snapB, proj, peerMsgs); k != "" {
		rec.Fail(rt, keyBase+k, what, caseObj(snapB, nil))
		return
	} else if over {
		rec.Class("over_reject_not_judged")
		return
	}
	if k, what := judgeHandled(snapB.Handled, proj, peerMsgs); k != "" {
		rec.Fail(rt, keyBase+k, what, caseObj(snapB, nil))
		return
	}
	if expectErr && len(snapB.Handled) != len(snapA.Handled) {
		rec.Fail(rt, keyBase+"app-got-message-after-error",
			fmt.Sprintf("the handler log grew from %d to %d after the protocol had reported its error and closed DoneChan", len(snapA.Handled), len(snapB.Handled)),
			caseObj(snapB, nil))
		return
	}
	if proj.RecvError && !garbage {
		// the offending message must have been looked at and refused
		trs := snapB.transitions()
		if len(trs) != len(proj.Trs) || trs[len(trs)-1].Err == "" {
			rec.Fail(rt, keyBase+"offending-not-refused",
				fmt.Sprintf("the model expects %d transitions ending in a refusal, the trace has %d", len(proj.Trs), len(trs)),
				caseObj(snapB, nil))
			return
		}
	}
	if !expectErr && len(snapB.Errs) > 0 {
		rec.Class("error_without_offending_message")
		if testing.Verbose() {
			rt.Logf("note: error without offending message: %v script=%v", snapB.errStrings(), descs)
		}
	}
	if len(sendErrs) > 0 && !expectErr {
		rec.Class("local_send_refused")
	}

	// ---- bookkeeping
	if expectErr {
		rec.Class("case_with_error")
	} else {
		rec.Class("case_clean")
	}
	rec.ClassN("handled_msgs", len(snapB.Handled))
	if len(snapB.Handled) == len(proj.Handled) {
		rec.Class("all_permitted_handled")
	}
	rec.Class("role_" + roleName(role))
	rec.Class("proto_" + sp.Name)
	if nontrivial {
		rec.NonTrivial(sp.Name+"/"+roleName(role)+" "+strings.Join(descs, ","),
			map[string]any{"protocol": sp.Name, "role": roleName(role), "script": descs,
				"trace": snapB.traceStrings(), "errors": snapB.errStrings(), "handled": len(snapB.Handled)})
	}
	closed = true
	if !r.close() {
		rec.Class("teardown_done_timeout")
	}
}
