package engine

import (
	"bytes"
	"fmt"
	"runtime"
	"strings"
	"time"

	"github.com/blinklabs-io/gouroboros/protocol"

	"verif/harness/internal/evi"
	"verif/harness/internal/rawpeer"
)

// framingSweep is the deterministic part of C12's "receive framing" family:
// a block-fetch client (real muxer + real Protocol) asks for a range and the
// raw peer streams StartBatch, a small block, a block of S payload bytes,
// another small block and BatchDone, laid out over muxer segments so that the
// S-block is the first / second / third message of the segment it starts in
// and is cut at one of four offsets (after 1 byte, after 2 bytes, in the
// middle, 1 byte before its end); everything after the cut travels in further
// segments of at most 65535 bytes. The library must deliver all five messages
// once, in order, byte for byte, end in Idle without error, DoneChan must
// close on Stop and no readLoop goroutine may stay behind.
// It returns false when a violation was recorded (the caller then stops:
// a faulty engine may be spinning).
func framingSweep(rec *evi.Recorder) bool {
	sp := specByName("block-fetch")
	kind := func(name string) msgKind {
		for _, k := range sp.Kinds {
			if k.Name == name {
				return k
			}
		}
		panic(name)
	}
	positions := []string{"first", "second", "third"}
	classes := []string{"after-1-byte", "after-2-bytes", "middle", "1-before-end"}
	n := 0
	for _, size := range framingSizes {
		for pi, pos := range positions {
			for ci, cls := range classes {
				n++
				req := sp.mustBuild(kind("RequestRange"), uint64(n))
				start := sp.mustBuild(kind("StartBatch"), 0)
				small1 := sp.mustBuildSized(kind("Block"), uint64(n), 5)
				big := sp.mustBuildSized(kind("Block"), uint64(n+1), size)
				small2 := sp.mustBuildSized(kind("Block"), uint64(n+2), 7)
				done := sp.mustBuild(kind("BatchDone"), 0)
				peerMsgs := []*wmsg{start, small1, big, small2, done}
				l := len(big.Bytes)
				off := []int{1, 2, l / 2, l - 1}[ci]
				if off < 1 {
					off = 1
				}
				if off >= l {
					off = l - 1
				}
				var segs [][]byte
				cat := func(bs ...[]byte) []byte { return bytes.Join(bs, nil) }
				switch pi {
				case 0:
					segs = [][]byte{cat(start.Bytes, small1.Bytes), big.Bytes[:off]}
				case 1:
					segs = [][]byte{start.Bytes, cat(small1.Bytes, big.Bytes[:off])}
				case 2:
					segs = [][]byte{cat(start.Bytes, small1.Bytes, big.Bytes[:off])}
				}
				rest := cat(big.Bytes[off:], small2.Bytes, done.Bytes)
				for len(rest) > 0 {
					k := len(rest)
					if k > 65535 {
						k = 65535
					}
					segs = append(segs, rest[:k])
					rest = rest[k:]
				}
				// no segment payload may exceed 65535 bytes
				var capped [][]byte
				for _, sg := range segs {
					for len(sg) > 65535 {
						capped = append(capped, sg[:65535])
						sg = sg[65535:]
					}
					capped = append(capped, sg)
				}
				segs = capped
				key := fmt.Sprintf("C12:framing:block-fetch:client:payload%d:%s-in-segment:cut-%s:", size, pos, cls)
				if !runFramingCase(rec, sp, key, req, peerMsgs, segs) {
					return false
				}
			}
		}
	}
	rec.SetExtra("n_framing_sweep_cases", n)
	return true
}

func runFramingCase(rec *evi.Recorder, sp *protoSpec, key string, req *wmsg, peerMsgs []*wmsg, segs [][]byte) bool {
	role := protocol.ProtocolRoleClient
	r := newRig(sp, sp.Map, role, nil, nil)
	closed := false
	defer func() {
		if !closed {
			r.close()
		}
	}()
	segLens := make([]int, len(segs))
	for i, s := range segs {
		segLens[i] = len(s)
	}
	cs := func(snap snapshot, extra map[string]any) map[string]any {
		m := map[string]any{"segment_payload_lengths": segLens, "trace": snap.traceStrings(), "errors": snap.errStrings(), "handled": len(snap.Handled)}
		for k, v := range extra {
			m[k] = v
		}
		return m
	}
	rec.Eval()
	if err := r.proto.SendMessage(sp.fresh(req)); err != nil {
		rec.Violation(key+"send-refused", err.Error(), nil)
		return false
	}
	if _, err := r.wireFromLib(livenessWindow); err != nil {
		rec.Violation(key+"request-not-on-wire", fmt.Sprintf("RequestRange did not reach the wire: %v", err), cs(r.snap(), map[string]any{"goroutines": goroutineDump()}))
		return false
	}
	var out []rawpeer.Seg
	for _, pl := range segs {
		out = append(out, rawpeer.Seg{ProtoID: sp.ID, Response: r.peerResp, Payload: pl})
	}
	if err := r.peer.Send(out...); err != nil {
		rec.Class("framing_peer_write_failed")
	}
	proj := project(sp.Map, nil, sp.Initial, role, []*wmsg{req}, peerMsgs)
	w := r.waitProgress(livenessWindow, livenessCap, func() bool { return len(r.handledBy) >= len(peerMsgs) || len(r.errs) > 0 }, nil)
	snap := r.snap()
	if w == "cap" {
		rec.Class("inconclusive_still_progressing_at_cap")
		return true
	}
	if k, what, over := judgeTrace(snap, proj, peerMsgs); k != "" || over {
		rec.Violation(key+k, what, cs(snap, nil))
		return false
	}
	if k, what := judgeHandled(snap.Handled, proj, peerMsgs); k != "" {
		rec.Violation(key+k, what, cs(snap, nil))
		return false
	}
	if len(snap.Errs) > 0 {
		rec.Violation(key+"error", fmt.Sprintf("legal stream refused: %v", snap.errStrings()), cs(snap, nil))
		return false
	}
	if w == "stalled" || len(snap.Handled) != len(peerMsgs) {
		rec.Violation(key+"not-consumed",
			fmt.Sprintf("the library handled %d of %d streamed messages and then nothing happened any more for %v (segments %v)", len(snap.Handled), len(peerMsgs), livenessWindow, segLens),
			cs(snap, map[string]any{"goroutines": goroutineDump()}))
		return false
	}
	closed = true
	if !r.close() {
		rec.Violation(key+"done-not-closed", "DoneChan did not close within 10s of Stop()", cs(snap, map[string]any{"goroutines": goroutineDump()}))
		return false
	}
	// no readLoop of the engine may stay behind (cases run one at a time)
	deadline := time.Now().Add(5 * time.Second)
	for {
		buf := make([]byte, 1<<20)
		st := string(buf[:runtime.Stack(buf, true)])
		if !strings.Contains(st, "protocol.(*Protocol).readLoop") {
			break
		}
		if time.Now().After(deadline) {
			rec.Violation(key+"readloop-still-running", "a Protocol.readLoop goroutine is still alive 5s after Stop()", cs(snap, map[string]any{"goroutines": goroutineDump()}))
			return false
		}
		time.Sleep(2 * time.Millisecond)
	}
	big := 0
	for _, l := range segLens {
		if l > big {
			big = l
		}
	}
	rec.Class("framing_sweep_case_ok")
	rec.NonTrivial(key, map[string]any{"case": key, "segment_payload_lengths": segLens})
	return true
}
