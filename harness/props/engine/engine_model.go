package engine

import (
	"fmt"
	"sort"

	"github.com/blinklabs-io/gouroboros/protocol"

	"verif/harness/internal/xcbor"
)

// wmsg is one concrete well-formed message: its bytes, its type as read from
// the bytes by the harness' own CBOR parser, and the object the protocol's
// decoder made of it (needed because MatchFuncs inspect the decoded object).
type wmsg struct {
	Kind  string
	Type  uint8
	Bytes []byte
	Obj   protocol.Message
}

func (m *wmsg) String() string { return fmt.Sprintf("%s(%d)", m.Kind, m.Type) }

// wireType reads the message type (first element of the outer array) with the
// harness' own parser.
func wireType(b []byte) (uint8, error) {
	n, err := xcbor.ParseExact(b)
	if err != nil {
		return 0, err
	}
	if n.Kind != xcbor.Array || len(n.Items) == 0 || n.Items[0].Kind != xcbor.Uint || n.Items[0].Arg > 255 {
		return 0, fmt.Errorf("not a message: %x", b)
	}
	return uint8(n.Items[0].Arg), nil
}

// build makes message number tag of kind k of this protocol.
func (sp *protoSpec) build(k msgKind, tag uint64) (*wmsg, error) {
	return sp.buildBytes(k, k.Make(tag))
}

// mustBuildSized builds kind k with an n-byte payload field (sp.sized(k) != nil).
func (sp *protoSpec) mustBuildSized(k msgKind, tag uint64, n int) *wmsg {
	m, err := sp.buildBytes(k, sp.sized(k)(tag, n))
	if err != nil {
		panic(err)
	}
	m.Kind = fmt.Sprintf("%s[%d]", k.Name, n)
	return m
}

func (sp *protoSpec) buildBytes(k msgKind, b []byte) (*wmsg, error) {
	t, err := wireType(b)
	if err != nil {
		return nil, fmt.Errorf("%s/%s: %v", sp.Name, k.Name, err)
	}
	if t != k.Type {
		return nil, fmt.Errorf("%s/%s: wire type %d, table says %d", sp.Name, k.Name, t, k.Type)
	}
	obj, err := sp.FromCbor(uint(t), b)
	if err != nil || obj == nil {
		return nil, fmt.Errorf("%s/%s: decoder rejects sample %.40x: %v", sp.Name, k.Name, b, err)
	}
	if obj.Type() != t {
		return nil, fmt.Errorf("%s/%s: decoded type %d != %d", sp.Name, k.Name, obj.Type(), t)
	}
	return &wmsg{Kind: k.Name, Type: t, Bytes: b, Obj: obj}, nil
}

func (sp *protoSpec) mustBuild(k msgKind, tag uint64) *wmsg {
	m, err := sp.build(k, tag)
	if err != nil {
		panic(err)
	}
	return m
}

// fresh returns a new decoded object for the same bytes (the engine gets its
// own object; the model keeps m.Obj).
func (sp *protoSpec) fresh(m *wmsg) protocol.Message {
	obj, err := sp.FromCbor(uint(m.Type), m.Bytes)
	if err != nil {
		panic(err)
	}
	return obj
}

// ---- the model: bookkeeping over the state map data only --------------------

// agencyOf is the agency the map records for s (AgencyNone for unknown states).
func agencyOf(sm protocol.StateMap, s protocol.State) protocol.ProtocolStateAgency {
	e, ok := sm[s]
	if !ok {
		return protocol.AgencyNone
	}
	return e.Agency
}

func roleAgency(r protocol.ProtocolRole) protocol.ProtocolStateAgency {
	if r == protocol.ProtocolRoleClient {
		return protocol.AgencyClient
	}
	return protocol.AgencyServer
}

func otherRole(r protocol.ProtocolRole) protocol.ProtocolRole {
	if r == protocol.ProtocolRoleClient {
		return protocol.ProtocolRoleServer
	}
	return protocol.ProtocolRoleClient
}

func roleName(r protocol.ProtocolRole) string {
	if r == protocol.ProtocolRoleClient {
		return "client"
	}
	return "server"
}

// permits says whether the state map lists message m in state s and, if so,
// which state follows: the first listed edge with m's type whose MatchFunc (if
// any) accepts the decoded message. ctx is the StateContext the engine under
// test was configured with (nil in this harness).
func permits(sm protocol.StateMap, ctx any, s protocol.State, m *wmsg) (protocol.State, bool) {
	e, ok := sm[s]
	if !ok {
		return protocol.State{}, false
	}
	for _, tr := range e.Transitions {
		if tr.MsgType != m.Type {
			continue
		}
		if tr.MatchFunc != nil && !tr.MatchFunc(ctx, m.Obj) {
			continue
		}
		return tr.NewState, true
	}
	return protocol.State{}, false
}

// expTr is one transition the model expects the engine to perform.
type expTr struct {
	Send bool // true: local message, false: received message
	Idx  int  // index into the local / peer sequence
	From protocol.State
	To   protocol.State
	OK   bool // false: the message is not permitted in From
	Msg  *wmsg
}

type projection struct {
	Trs       []expTr
	Handled   []int // indices of peer messages that reach the application, in order
	Final     protocol.State
	RecvError bool // an offending received message gets processed
	SendError bool // a local message is not permitted when its turn comes
	LocalUsed int
	PeerUsed  int
}

// project computes the unique conversation the two message sequences produce:
// in a state where the local role holds agency the next local message is
// consumed, where the peer holds agency the next peer message is consumed;
// the first message that is not permitted ends the conversation.
func project(sm protocol.StateMap, ctx any, initial protocol.State, role protocol.ProtocolRole, local, peer []*wmsg) projection {
	var p projection
	s := initial
	li, pi := 0, 0
	for {
		ag := agencyOf(sm, s)
		if ag == protocol.AgencyNone {
			break
		}
		if ag == roleAgency(role) {
			if li >= len(local) {
				break
			}
			m := local[li]
			next, ok := permits(sm, ctx, s, m)
			p.Trs = append(p.Trs, expTr{Send: true, Idx: li, From: s, To: next, OK: ok, Msg: m})
			li++
			if !ok {
				p.SendError = true
				break
			}
			s = next
			continue
		}
		if pi >= len(peer) {
			break
		}
		m := peer[pi]
		next, ok := permits(sm, ctx, s, m)
		p.Trs = append(p.Trs, expTr{Send: false, Idx: pi, From: s, To: next, OK: ok, Msg: m})
		pi++
		if !ok {
			p.RecvError = true
			break
		}
		p.Handled = append(p.Handled, pi-1)
		s = next
	}
	p.Final = s
	p.LocalUsed, p.PeerUsed = li, pi
	return p
}

// kindsPermitted / kindsNotPermitted split the protocol's message kinds by
// whether state s lists them (tag 0 samples are enough: no MatchFunc in the
// covered maps looks at the tag-dependent fields).
func (sp *protoSpec) splitKinds(sm protocol.StateMap, s protocol.State) (perm, notPerm []int) {
	for i, k := range sp.Kinds {
		if _, ok := permits(sm, nil, s, sp.mustBuild(k, 0)); ok {
			perm = append(perm, i)
		} else {
			notPerm = append(notPerm, i)
		}
	}
	return
}

// sortedStates lists the map's states in a fixed order.
func sortedStates(sm protocol.StateMap) []protocol.State {
	out := make([]protocol.State, 0, len(sm))
	for s := range sm {
		out = append(out, s)
	}
	sort.Slice(out, func(i, j int) bool {
		if out[i].Id != out[j].Id {
			return out[i].Id < out[j].Id
		}
		return out[i].Name < out[j].Name
	})
	return out
}

// unusedType returns a message type number no kind of the protocol uses.
func (sp *protoSpec) unusedType() uint8 {
	used := map[uint8]bool{}
	for _, k := range sp.Kinds {
		used[k.Type] = true
	}
	for t := uint8(40); ; t++ {
		if !used[t] {
			return t
		}
	}
}
