package engine

import (
	"sync"

	"github.com/blinklabs-io/gouroboros/protocol"

	"verif/harness/internal/rawpeer"
	"verif/harness/internal/xcbor"
)

// duo is two real endpoints (opposite roles, same state map) joined by a
// harness relay that records every byte travelling from A to B and from B to A.
type duo struct {
	A, B *endpoint
	mu   sync.Mutex
	ab   []byte // bytes A wrote
	ba   []byte // bytes B wrote
	ends []*rawpeer.FragConn
	wg   sync.WaitGroup
}

func newDuo(spec *protoSpec, sm protocol.StateMap, roleA protocol.ProtocolRole, planA, planB rawpeer.Plan) *duo {
	a1, b1 := rawpeer.Pipe(planA, nil) // A reads from a1 with planA
	a2, b2 := rawpeer.Pipe(nil, planB) // B reads from b2 with planB
	d := &duo{ends: []*rawpeer.FragConn{a1, b1, a2, b2}}
	pump := func(from, to *rawpeer.FragConn, rec *[]byte) {
		defer d.wg.Done()
		buf := make([]byte, 32*1024)
		for {
			n, err := from.Read(buf)
			if n > 0 {
				d.mu.Lock()
				*rec = append(*rec, buf[:n]...)
				d.mu.Unlock()
				if _, werr := to.Write(buf[:n]); werr != nil {
					break
				}
			}
			if err != nil {
				break
			}
		}
		_ = to.Close()
		_ = from.Close()
	}
	d.wg.Add(2)
	go pump(b1, a2, &d.ab)
	go pump(a2, b1, &d.ba)
	d.A = newEndpoint(spec, sm, roleA, a1)
	d.B = newEndpoint(spec, sm, otherRole(roleA), b2)
	return d
}

func (d *duo) close() bool {
	okA := d.A.close()
	okB := d.B.close()
	for _, c := range d.ends {
		_ = c.Close()
	}
	d.wg.Wait()
	return okA && okB
}

// wireMsgs parses a captured byte stream into segments with the harness' own
// framing code and cuts the payload stream of (proto, direction) into CBOR
// items. rest is what does not form a complete item.
func wireMsgs(capture []byte, proto uint16, response bool) (msgs [][]byte, rest []byte, foreign int) {
	segs, tail := rawpeer.ParseSegs(capture)
	var stream []byte
	for _, s := range segs {
		if s.ProtoID != proto || s.Response != response {
			foreign++
			continue
		}
		stream = append(stream, s.Payload...)
	}
	for len(stream) > 0 {
		_, n, err := xcbor.Parse(stream)
		if err != nil {
			break
		}
		msgs = append(msgs, stream[:n])
		stream = stream[n:]
	}
	if len(tail) > 0 {
		foreign++
	}
	return msgs, stream, foreign
}

func (d *duo) fromA(proto uint16, roleA protocol.ProtocolRole) ([][]byte, []byte, int) {
	d.mu.Lock()
	c := append([]byte(nil), d.ab...)
	d.mu.Unlock()
	return wireMsgs(c, proto, roleA == protocol.ProtocolRoleServer)
}
