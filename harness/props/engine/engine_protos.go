// Package engine holds the checks for the generic mini-protocol engine
// (protocol/protocol.go, protocol/state.go): C11, C12 and C14.
package engine

import (
	"fmt"
	"net"
	"sort"

	"github.com/blinklabs-io/gouroboros/cbor"
	"github.com/blinklabs-io/gouroboros/protocol"
	"github.com/blinklabs-io/gouroboros/protocol/blockfetch"
	"github.com/blinklabs-io/gouroboros/protocol/chainsync"
	pcommon "github.com/blinklabs-io/gouroboros/protocol/common"
	"github.com/blinklabs-io/gouroboros/protocol/handshake"
	"github.com/blinklabs-io/gouroboros/protocol/keepalive"
	"github.com/blinklabs-io/gouroboros/protocol/leiosfetch"
	"github.com/blinklabs-io/gouroboros/protocol/leiosnotify"
	"github.com/blinklabs-io/gouroboros/protocol/leiosvotes"
	"github.com/blinklabs-io/gouroboros/protocol/localstatequery"
	"github.com/blinklabs-io/gouroboros/protocol/localtxmonitor"
	"github.com/blinklabs-io/gouroboros/protocol/localtxsubmission"
	"github.com/blinklabs-io/gouroboros/protocol/peersharing"
	"github.com/blinklabs-io/gouroboros/protocol/txsubmission"

	"verif/harness/internal/xcbor"
)

// msgKind is one way of building a well-formed message of a protocol. The
// bytes are produced either by the protocol's own constructor + encoder (the
// library is only used to *make inputs* here, never as the oracle) or by hand
// with xcbor. tag varies the payload so that two messages of the same kind can
// be told apart on the wire.
type msgKind struct {
	Name string
	Type uint8
	Make func(tag uint64) []byte
}

// sizedKinds: for some kinds ("<spec>|<kind>") a builder with a payload field of n bytes.
var sizedKinds = map[string]func(tag uint64, n int) []byte{
	"block-fetch|Block":            func(t uint64, n int) []byte { return enc(blockfetch.NewMsgBlock(filler(t, n))) },
	"local-state-query|Result":     func(t uint64, n int) []byte { return enc(localstatequery.NewMsgResult(xcbor.B(filler(t, n)).Encode())) },
	"local-tx-submission|SubmitTx": func(t uint64, n int) []byte { return enc(localtxsubmission.NewMsgSubmitTx(6, filler(t, n))) },
}

func (sp *protoSpec) sized(k msgKind) func(uint64, int) []byte { return sizedKinds[sp.Name+"|"+k.Name] }

// filler is n patterned bytes that differ per tag.
func filler(tag uint64, n int) []byte {
	b := make([]byte, n)
	for i := range b {
		b[i] = byte(uint64(i)*31 + tag)
	}
	return b
}

// protoSpec describes one exported state map and how to run the engine on it.
type protoSpec struct {
	Name     string // unique, e.g. "chain-sync/NtN"
	ID       uint16
	Mode     protocol.ProtocolMode
	Map      protocol.StateMap
	Initial  protocol.State // (id, name) transcribed from the client/server constructors
	FromCbor protocol.MessageFromCborFunc
	Kinds    []msgKind
}

func enc(m any) []byte {
	b, err := cbor.Encode(m)
	if err != nil {
		panic(fmt.Sprintf("engine: cannot encode sample %T: %v", m, err))
	}
	return b
}

func hash32(tag uint64) []byte {
	h := make([]byte, 32)
	for i := range h {
		h[i] = byte(tag>>uint((i%8)*8)) ^ byte(i*7)
	}
	return h
}

func point(tag uint64) pcommon.Point { return pcommon.NewPoint(1000+tag, hash32(tag)) }

func tip(tag uint64) pcommon.Tip {
	return pcommon.Tip{Point: point(tag + 1), BlockNumber: 77 + tag}
}

func xpoint(tag uint64) *xcbor.Node { return xcbor.A(xcbor.U(1000+tag), xcbor.B(hash32(tag))) }

func xtip(tag uint64) *xcbor.Node { return xcbor.A(xpoint(tag+1), xcbor.U(77+tag)) }

func st(id uint, name string) protocol.State { return protocol.NewState(id, name) }

func chainsyncKinds(ntn bool) []msgKind {
	ks := []msgKind{
		{"RequestNext", chainsync.MessageTypeRequestNext, func(uint64) []byte { return enc(chainsync.NewMsgRequestNext()) }},
		{"AwaitReply", chainsync.MessageTypeAwaitReply, func(uint64) []byte { return enc(chainsync.NewMsgAwaitReply()) }},
		{"RollBackward", chainsync.MessageTypeRollBackward, func(t uint64) []byte { return enc(chainsync.NewMsgRollBackward(point(t), tip(t))) }},
		{"FindIntersect", chainsync.MessageTypeFindIntersect, func(t uint64) []byte {
			return enc(chainsync.NewMsgFindIntersect([]pcommon.Point{point(t), point(t + 3)}))
		}},
		{"IntersectFound", chainsync.MessageTypeIntersectFound, func(t uint64) []byte { return enc(chainsync.NewMsgIntersectFound(point(t), tip(t))) }},
		{"IntersectNotFound", chainsync.MessageTypeIntersectNotFound, func(t uint64) []byte { return enc(chainsync.NewMsgIntersectNotFound(tip(t))) }},
		{"Done", chainsync.MessageTypeDone, func(uint64) []byte { return enc(chainsync.NewMsgDone()) }},
	}
	if ntn {
		// [2, [era, 24(h'header')], tip] -- post-Byron wrapped header
		ks = append(ks, msgKind{"RollForward", chainsync.MessageTypeRollForward, func(t uint64) []byte {
			hdr := xcbor.A(xcbor.U(t), xcbor.B(hash32(t))).Encode()
			return xcbor.A(xcbor.U(2), xcbor.A(xcbor.U(1), xcbor.Tg(24, xcbor.B(hdr))), xtip(t)).Encode()
		}})
	} else {
		ks = append(ks, msgKind{"RollForward", chainsync.MessageTypeRollForward, func(t uint64) []byte {
			blk := xcbor.A(xcbor.U(t), xcbor.B(hash32(t))).Encode()
			m, err := chainsync.NewMsgRollForwardNtC(1, blk, tip(t))
			if err != nil {
				panic(err)
			}
			return enc(m)
		}})
	}
	return ks
}

func handshakeKinds(mode protocol.ProtocolMode) []msgKind {
	vm := func(t uint64) protocol.ProtocolVersionMap {
		return protocol.GetProtocolVersionMap(mode, uint32(764824073+t), false, false, false)
	}
	return []msgKind{
		{"ProposeVersions", handshake.MessageTypeProposeVersions, func(t uint64) []byte { return enc(handshake.NewMsgProposeVersions(vm(t))) }},
		{"AcceptVersion", handshake.MessageTypeAcceptVersion, func(t uint64) []byte {
			m := vm(t)
			vs := make([]int, 0, len(m))
			for v := range m {
				vs = append(vs, int(v))
			}
			sort.Ints(vs)
			v := uint16(vs[len(vs)-1])
			return enc(handshake.NewMsgAcceptVersion(v, m[v]))
		}},
		{"Refuse", handshake.MessageTypeRefuse, func(t uint64) []byte {
			return enc(handshake.NewMsgRefuse([]any{uint64(handshake.RefuseReasonRefused), uint64(13), fmt.Sprintf("no %d", t)}))
		}},
		{"QueryReply", handshake.MessageTypeQueryReply, func(t uint64) []byte { return enc(handshake.NewMsgQueryReply(vm(t))) }},
	}
}

func raws(t uint64, n int) []cbor.RawMessage {
	out := make([]cbor.RawMessage, n)
	for i := range out {
		out[i] = cbor.RawMessage(xcbor.A(xcbor.U(t), xcbor.U(uint64(i))).Encode())
	}
	return out
}

var allSpecs = buildSpecs()

func buildSpecs() []*protoSpec {
	specs := []*protoSpec{
		{
			Name: "block-fetch", ID: blockfetch.ProtocolId, Mode: protocol.ProtocolModeNodeToNode,
			Map: blockfetch.StateMap, Initial: st(1, "Idle"), FromCbor: blockfetch.NewMsgFromCbor,
			Kinds: []msgKind{
				{"RequestRange", blockfetch.MessageTypeRequestRange, func(t uint64) []byte { return enc(blockfetch.NewMsgRequestRange(point(t), point(t+5))) }},
				{"ClientDone", blockfetch.MessageTypeClientDone, func(uint64) []byte { return enc(blockfetch.NewMsgClientDone()) }},
				{"StartBatch", blockfetch.MessageTypeStartBatch, func(uint64) []byte { return enc(blockfetch.NewMsgStartBatch()) }},
				{"NoBlocks", blockfetch.MessageTypeNoBlocks, func(uint64) []byte { return enc(blockfetch.NewMsgNoBlocks()) }},
				{"Block", blockfetch.MessageTypeBlock, func(t uint64) []byte {
					return enc(blockfetch.NewMsgBlock(xcbor.A(xcbor.U(6), xcbor.A(xcbor.U(t), xcbor.B(hash32(t)))).Encode()))
				}},
				{"BatchDone", blockfetch.MessageTypeBatchDone, func(uint64) []byte { return enc(blockfetch.NewMsgBatchDone()) }},
			},
		},
		{
			Name: "chain-sync/NtN", ID: chainsync.ProtocolIdNtN, Mode: protocol.ProtocolModeNodeToNode,
			Map: chainsync.StateMapNtN, Initial: st(1, "Idle"), FromCbor: chainsync.NewMsgFromCborNtN,
			Kinds: chainsyncKinds(true),
		},
		{
			Name: "chain-sync/NtC", ID: chainsync.ProtocolIdNtC, Mode: protocol.ProtocolModeNodeToClient,
			Map: chainsync.StateMapNtC, Initial: st(1, "Idle"), FromCbor: chainsync.NewMsgFromCborNtC,
			Kinds: chainsyncKinds(false),
		},
		{
			Name: "handshake/NtN", ID: handshake.ProtocolId, Mode: protocol.ProtocolModeNodeToNode,
			Map: handshake.StateMapNtN, Initial: st(1, "Propose"), FromCbor: handshake.NewMsgFromCbor,
			Kinds: handshakeKinds(protocol.ProtocolModeNodeToNode),
		},
		{
			Name: "handshake/NtC", ID: handshake.ProtocolId, Mode: protocol.ProtocolModeNodeToClient,
			Map: handshake.StateMapNtC, Initial: st(1, "Propose"), FromCbor: handshake.NewMsgFromCbor,
			Kinds: handshakeKinds(protocol.ProtocolModeNodeToClient),
		},
		{
			Name: "keep-alive", ID: keepalive.ProtocolId, Mode: protocol.ProtocolModeNodeToNode,
			Map: keepalive.StateMap, Initial: st(1, "Client"), FromCbor: keepalive.NewMsgFromCbor,
			Kinds: []msgKind{
				{"KeepAlive", keepalive.MessageTypeKeepAlive, func(t uint64) []byte { return enc(keepalive.NewMsgKeepAlive(uint16(t))) }},
				{"KeepAliveResponse", keepalive.MessageTypeKeepAliveResponse, func(t uint64) []byte { return enc(keepalive.NewMsgKeepAliveResponse(uint16(t))) }},
				{"Done", keepalive.MessageTypeDone, func(uint64) []byte { return enc(keepalive.NewMsgDone()) }},
			},
		},
		{
			Name: "leios-fetch", ID: leiosfetch.ProtocolId, Mode: protocol.ProtocolModeNodeToNode,
			Map: leiosfetch.StateMap, Initial: st(1, "Idle"), FromCbor: leiosfetch.NewMsgFromCbor,
			Kinds: []msgKind{
				{"BlockRequest", leiosfetch.MessageTypeBlockRequest, func(t uint64) []byte { return enc(leiosfetch.NewMsgBlockRequest(point(t))) }},
				{"Block", leiosfetch.MessageTypeBlock, func(t uint64) []byte { return enc(leiosfetch.NewMsgBlock(raws(t, 1)[0])) }},
				{"BlockTxsRequest", leiosfetch.MessageTypeBlockTxsRequest, func(t uint64) []byte {
					return enc(leiosfetch.NewMsgBlockTxsRequest(point(t), map[uint16]uint64{0: t | 1}))
				}},
				{"BlockTxs", leiosfetch.MessageTypeBlockTxs, func(t uint64) []byte {
					return enc(leiosfetch.NewMsgBlockTxsFull(point(t), map[uint16]uint64{0: 3}, raws(t, 2)))
				}},
				{"VotesRequest", leiosfetch.MessageTypeVotesRequest, func(t uint64) []byte {
					return enc(leiosfetch.NewMsgVotesRequest([]leiosfetch.MsgVotesRequestVoteId{{SlotNo: t, VoterId: 9}}))
				}},
				{"Votes", leiosfetch.MessageTypeVotes, func(t uint64) []byte { return enc(leiosfetch.NewMsgVotes(nil)) }},
				{"BlockRangeRequest", leiosfetch.MessageTypeBlockRangeRequest, func(t uint64) []byte {
					return enc(leiosfetch.NewMsgBlockRangeRequest(point(t), point(t+9)))
				}},
				{"LastBlockAndTxsInRange", leiosfetch.MessageTypeLastBlockAndTxsInRange, func(t uint64) []byte {
					return enc(leiosfetch.NewMsgLastBlockAndTxsInRange(raws(t, 1)[0], raws(t+1, 2)))
				}},
				{"NextBlockAndTxsInRange", leiosfetch.MessageTypeNextBlockAndTxsInRange, func(t uint64) []byte {
					return enc(leiosfetch.NewMsgNextBlockAndTxsInRange(raws(t, 1)[0], raws(t+1, 1)))
				}},
				{"Done", leiosfetch.MessageTypeDone, func(uint64) []byte { return enc(leiosfetch.NewMsgDone()) }},
				{"NoBlock", leiosfetch.MessageTypeNoBlock, func(uint64) []byte { return enc(leiosfetch.NewMsgNoBlock()) }},
				{"NoBlockTxs", leiosfetch.MessageTypeNoBlockTxs, func(uint64) []byte { return enc(leiosfetch.NewMsgNoBlockTxs()) }},
			},
		},
		{
			Name: "leios-notify", ID: leiosnotify.ProtocolId, Mode: protocol.ProtocolModeNodeToNode,
			Map: leiosnotify.StateMap, Initial: st(1, "Idle"), FromCbor: leiosnotify.NewMsgFromCbor,
			Kinds: []msgKind{
				{"NotificationRequestNext", leiosnotify.MessageTypeNotificationRequestNext, func(uint64) []byte { return enc(leiosnotify.NewMsgNotificationRequestNext()) }},
				{"BlockAnnouncement", leiosnotify.MessageTypeBlockAnnouncement, func(t uint64) []byte {
					return enc(leiosnotify.NewMsgBlockAnnouncement(raws(t, 1)[0]))
				}},
				{"BlockOffer", leiosnotify.MessageTypeBlockOffer, func(t uint64) []byte { return enc(leiosnotify.NewMsgBlockOffer(point(t), 100+t)) }},
				{"BlockTxsOffer", leiosnotify.MessageTypeBlockTxsOffer, func(t uint64) []byte { return enc(leiosnotify.NewMsgBlockTxsOffer(point(t))) }},
				{"VotesOffer", leiosnotify.MessageTypeVotesOffer, func(t uint64) []byte {
					return enc(leiosnotify.NewMsgVotesOffer([]leiosnotify.MsgVotesOfferVote{{SlotNo: t, VoterId: 4}}))
				}},
				{"Done", leiosnotify.MessageTypeDone, func(uint64) []byte { return enc(leiosnotify.NewMsgDone()) }},
			},
		},
		{
			// The exported map carries MatchFuncs that need the package-private
			// *stateContext; with the context an outside caller can supply (nil)
			// they never match, so here only Done is ever permitted from Idle.
			Name: "leios-votes", ID: leiosvotes.ProtocolId, Mode: protocol.ProtocolModeNodeToNode,
			Map: leiosvotes.StateMap, Initial: st(1, "Idle"), FromCbor: leiosvotes.NewMsgFromCbor,
			Kinds: []msgKind{
				{"VotesRequestNext", leiosvotes.MessageTypeVotesRequestNext, func(t uint64) []byte { return enc(leiosvotes.NewMsgVotesRequestNext(1 + t%5)) }},
				{"Vote", leiosvotes.MessageTypeVote, func(t uint64) []byte {
					return xcbor.A(xcbor.U(1), xcbor.A(xcbor.U(t), xcbor.B(hash32(t)), xcbor.U(3), xcbor.B(append(hash32(t+1), hash32(t+2)[:16]...)))).Encode()
				}},
				{"Done", leiosvotes.MessageTypeDone, func(uint64) []byte { return enc(leiosvotes.NewMsgDone()) }},
			},
		},
		{
			Name: "local-state-query", ID: localstatequery.ProtocolId, Mode: protocol.ProtocolModeNodeToClient,
			Map: localstatequery.StateMap, Initial: st(1, "Idle"), FromCbor: localstatequery.NewMsgFromCbor,
			Kinds: []msgKind{
				{"Acquire", localstatequery.MessageTypeAcquire, func(t uint64) []byte { return enc(localstatequery.NewMsgAcquire(point(t))) }},
				{"Acquired", localstatequery.MessageTypeAcquired, func(uint64) []byte { return enc(localstatequery.NewMsgAcquired()) }},
				{"Failure", localstatequery.MessageTypeFailure, func(t uint64) []byte { return enc(localstatequery.NewMsgFailure(uint8(t % 2))) }},
				{"Query", localstatequery.MessageTypeQuery, func(t uint64) []byte {
					return xcbor.A(xcbor.U(3), xcbor.A(xcbor.U(1+t%3))).Encode()
				}},
				{"Result", localstatequery.MessageTypeResult, func(t uint64) []byte { return enc(localstatequery.NewMsgResult(raws(t, 1)[0])) }},
				{"Release", localstatequery.MessageTypeRelease, func(uint64) []byte { return enc(localstatequery.NewMsgRelease()) }},
				{"ReAcquire", localstatequery.MessageTypeReacquire, func(t uint64) []byte { return enc(localstatequery.NewMsgReAcquire(point(t))) }},
				{"Done", localstatequery.MessageTypeDone, func(uint64) []byte { return enc(localstatequery.NewMsgDone()) }},
				{"AcquireVolatileTip", localstatequery.MessageTypeAcquireVolatileTip, func(uint64) []byte { return enc(localstatequery.NewMsgAcquireVolatileTip()) }},
				{"ReAcquireVolatileTip", localstatequery.MessageTypeReacquireVolatileTip, func(uint64) []byte { return enc(localstatequery.NewMsgReAcquireVolatileTip()) }},
				{"AcquireImmutableTip", localstatequery.MessageTypeAcquireImmutableTip, func(uint64) []byte { return enc(localstatequery.NewMsgAcquireImmutableTip()) }},
				{"ReAcquireImmutableTip", localstatequery.MessageTypeReacquireImmutableTip, func(uint64) []byte { return enc(localstatequery.NewMsgReAcquireImmutableTip()) }},
			},
		},
		{
			Name: "local-tx-monitor", ID: localtxmonitor.ProtocolId, Mode: protocol.ProtocolModeNodeToClient,
			Map: localtxmonitor.StateMap, Initial: st(1, "Idle"), FromCbor: localtxmonitor.NewMsgFromCbor,
			Kinds: []msgKind{
				{"Done", localtxmonitor.MessageTypeDone, func(uint64) []byte { return enc(localtxmonitor.NewMsgDone()) }},
				{"Acquire", localtxmonitor.MessageTypeAcquire, func(uint64) []byte { return enc(localtxmonitor.NewMsgAcquire()) }},
				{"Acquired", localtxmonitor.MessageTypeAcquired, func(t uint64) []byte { return enc(localtxmonitor.NewMsgAcquired(t)) }},
				{"Release", localtxmonitor.MessageTypeRelease, func(uint64) []byte { return enc(localtxmonitor.NewMsgRelease()) }},
				{"NextTx", localtxmonitor.MessageTypeNextTx, func(uint64) []byte { return enc(localtxmonitor.NewMsgNextTx()) }},
				{"ReplyNextTx", localtxmonitor.MessageTypeReplyNextTx, func(t uint64) []byte { return enc(localtxmonitor.NewMsgReplyNextTx(6, hash32(t))) }},
				{"HasTx", localtxmonitor.MessageTypeHasTx, func(t uint64) []byte { return enc(localtxmonitor.NewMsgHasTx(hash32(t))) }},
				{"ReplyHasTx", localtxmonitor.MessageTypeReplyHasTx, func(t uint64) []byte { return enc(localtxmonitor.NewMsgReplyHasTx(t%2 == 0)) }},
				{"GetSizes", localtxmonitor.MessageTypeGetSizes, func(uint64) []byte { return enc(localtxmonitor.NewMsgGetSizes()) }},
				{"ReplyGetSizes", localtxmonitor.MessageTypeReplyGetSizes, func(t uint64) []byte {
					return enc(localtxmonitor.NewMsgReplyGetSizes(uint32(1000+t), uint32(t), 3))
				}},
			},
		},
		{
			Name: "local-tx-submission", ID: localtxsubmission.ProtocolId, Mode: protocol.ProtocolModeNodeToClient,
			Map: localtxsubmission.StateMap, Initial: st(1, "Idle"), FromCbor: localtxsubmission.NewMsgFromCbor,
			Kinds: []msgKind{
				{"SubmitTx", localtxsubmission.MessageTypeSubmitTx, func(t uint64) []byte { return enc(localtxsubmission.NewMsgSubmitTx(6, hash32(t))) }},
				{"AcceptTx", localtxsubmission.MessageTypeAcceptTx, func(uint64) []byte { return enc(localtxsubmission.NewMsgAcceptTx()) }},
				{"RejectTx", localtxsubmission.MessageTypeRejectTx, func(t uint64) []byte { return enc(localtxsubmission.NewMsgRejectTx(raws(t, 1)[0])) }},
				{"Done", localtxsubmission.MessageTypeDone, func(uint64) []byte { return enc(localtxsubmission.NewMsgDone()) }},
			},
		},
		{
			Name: "peer-sharing", ID: peersharing.ProtocolId, Mode: protocol.ProtocolModeNodeToNode,
			Map: peersharing.StateMap, Initial: st(1, "Idle"), FromCbor: peersharing.NewMsgFromCbor,
			Kinds: []msgKind{
				{"ShareRequest", peersharing.MessageTypeShareRequest, func(t uint64) []byte { return enc(peersharing.NewMsgShareRequest(uint8(t))) }},
				{"SharePeers", peersharing.MessageTypeSharePeers, func(t uint64) []byte {
					return enc(peersharing.NewMsgSharePeers([]peersharing.PeerAddress{{IP: net.IPv4(10, 0, byte(t>>8), byte(t)), Port: 3001}}))
				}},
				{"Done", peersharing.MessageTypeDone, func(uint64) []byte { return enc(peersharing.NewMsgDone()) }},
			},
		},
		{
			Name: "tx-submission", ID: txsubmission.ProtocolId, Mode: protocol.ProtocolModeNodeToNode,
			Map: txsubmission.StateMap, Initial: st(1, "Init"), FromCbor: txsubmission.NewMsgFromCbor,
			Kinds: []msgKind{
				{"RequestTxIds/blocking", txsubmission.MessageTypeRequestTxIds, func(t uint64) []byte {
					return enc(txsubmission.NewMsgRequestTxIds(true, uint16(t), 3))
				}},
				{"RequestTxIds/nonblocking", txsubmission.MessageTypeRequestTxIds, func(t uint64) []byte {
					return enc(txsubmission.NewMsgRequestTxIds(false, uint16(t), 3))
				}},
				{"ReplyTxIds", txsubmission.MessageTypeReplyTxIds, func(t uint64) []byte {
					var id [32]byte
					copy(id[:], hash32(t))
					return enc(txsubmission.NewMsgReplyTxIds([]txsubmission.TxIdAndSize{{TxId: txsubmission.TxId{EraId: 6, TxId: id}, Size: uint32(200 + t)}}))
				}},
				{"RequestTxs", txsubmission.MessageTypeRequestTxs, func(t uint64) []byte {
					var id [32]byte
					copy(id[:], hash32(t))
					return enc(txsubmission.NewMsgRequestTxs([]txsubmission.TxId{{EraId: 6, TxId: id}}))
				}},
				{"ReplyTxs", txsubmission.MessageTypeReplyTxs, func(t uint64) []byte {
					return enc(txsubmission.NewMsgReplyTxs([]txsubmission.TxBody{{EraId: 6, TxBody: raws(t, 1)[0]}}))
				}},
				{"Done", txsubmission.MessageTypeDone, func(uint64) []byte { return enc(txsubmission.NewMsgDone()) }},
				{"Init", txsubmission.MessageTypeInit, func(uint64) []byte { return enc(txsubmission.NewMsgInit()) }},
			},
		},
	}
	return specs
}
