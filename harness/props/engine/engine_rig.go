package engine

import (
	"fmt"
	"runtime"
	"strings"
	"sync"
	"time"

	"github.com/blinklabs-io/gouroboros/muxer"
	"github.com/blinklabs-io/gouroboros/protocol"

	"verif/harness/internal/rawpeer"
)

// traceEv is one hook event of the protocol instance under test, in the order
// the engine emitted them.
type traceEv struct {
	Kind    string // "transition" | "handler"
	From    protocol.State
	To      protocol.State
	MsgType uint8
	Err     string
	At      time.Time
}

func (e traceEv) String() string {
	if e.Kind == "handler" {
		return fmt.Sprintf("handler(type %d, state %s)", e.MsgType, e.From)
	}
	if e.Err != "" {
		return fmt.Sprintf("%s -[%d]-> ERROR", e.From, e.MsgType)
	}
	return fmt.Sprintf("%s -[%d]-> %s", e.From, e.MsgType, e.To)
}

type handled struct {
	Type  uint8
	Bytes []byte
	At    time.Time
}

// endpoint is one real muxer + one real protocol.Protocol on one end of an
// in-memory connection, with a harness handler and the trace of its hook events.
type endpoint struct {
	spec  *protoSpec
	role  protocol.ProtocolRole
	sm    protocol.StateMap
	mux   *muxer.Muxer
	proto *protocol.Protocol
	errCh chan error

	mu        sync.Mutex
	cond      *sync.Cond
	events    []traceEv
	handledBy []handled
	accounted int
	errs      []error
	errAt     []time.Time
	// shortClose: do not wait long for DoneChan at teardown (adopted real
	// clients whose own handler may be parked, see engine_realclients.go)
	shortClose bool
	// handlerHook, if set, runs inside the handler (schedule perturbation)
	handlerHook func(n int)
}

var (
	tracerOnce sync.Once
	tracerMap  sync.Map // *protocol.Protocol -> *endpoint
)

func installTracer() {
	tracerOnce.Do(func() {
		protocol.SetVerifTracer(func(ev protocol.VerifEvent) {
			v, ok := tracerMap.Load(ev.P)
			if !ok {
				return
			}
			v.(*endpoint).onEvent(ev)
		})
	})
}

func (e *endpoint) onEvent(ev protocol.VerifEvent) {
	now := time.Now()
	e.mu.Lock()
	defer e.mu.Unlock()
	switch ev.Kind {
	case "transition", "handler":
		te := traceEv{Kind: ev.Kind, From: ev.From, To: ev.To, MsgType: ev.MsgType, At: now}
		if ev.Err != nil {
			te.Err = ev.Err.Error()
		}
		e.events = append(e.events, te)
	case "recv_accounted":
		e.accounted++
	default:
		return
	}
	e.cond.Broadcast()
}

// newEndpoint builds muxer + protocol on conn and starts both.
func newEndpoint(spec *protoSpec, sm protocol.StateMap, role protocol.ProtocolRole, conn *rawpeer.FragConn) *endpoint {
	installTracer()
	e := &endpoint{spec: spec, role: role, sm: sm, errCh: make(chan error, 10)}
	e.cond = sync.NewCond(&e.mu)
	e.mux = muxer.New(conn)
	e.proto = protocol.New(protocol.ProtocolConfig{
		Name:                spec.Name,
		ProtocolId:          spec.ID,
		ErrorChan:           e.errCh,
		Muxer:               e.mux,
		Mode:                spec.Mode,
		Role:                role,
		MessageHandlerFunc:  e.handle,
		MessageFromCborFunc: spec.FromCbor,
		StateMap:            sm,
		InitialState:        spec.Initial,
	})
	tracerMap.Store(e.proto, e)
	go e.collectErrors()
	e.proto.Start()
	e.mux.Start()
	return e
}

func (e *endpoint) handle(m protocol.Message) error {
	now := time.Now()
	e.mu.Lock()
	n := len(e.handledBy)
	e.handledBy = append(e.handledBy, handled{Type: m.Type(), Bytes: append([]byte(nil), m.Cbor()...), At: now})
	hook := e.handlerHook
	e.cond.Broadcast()
	e.mu.Unlock()
	if hook != nil {
		hook(n)
	}
	return nil
}

func (e *endpoint) collectErrors() {
	for {
		select {
		case err := <-e.errCh:
			now := time.Now()
			e.mu.Lock()
			e.errs = append(e.errs, err)
			e.errAt = append(e.errAt, now)
			e.cond.Broadcast()
			e.mu.Unlock()
		case <-e.proto.DoneChan():
			// drain what is left, then stop
			for {
				select {
				case err := <-e.errCh:
					now := time.Now()
					e.mu.Lock()
					e.errs = append(e.errs, err)
					e.errAt = append(e.errAt, now)
					e.cond.Broadcast()
					e.mu.Unlock()
				default:
					e.mu.Lock()
					e.cond.Broadcast()
					e.mu.Unlock()
					return
				}
			}
		}
	}
}

// waitFor waits until cond() (evaluated under e.mu) holds or d elapsed.
func (e *endpoint) waitFor(d time.Duration, cond func() bool) bool {
	deadline := time.Now().Add(d)
	t := time.AfterFunc(d, func() { e.mu.Lock(); e.cond.Broadcast(); e.mu.Unlock() })
	defer t.Stop()
	e.mu.Lock()
	defer e.mu.Unlock()
	for !cond() {
		if !time.Now().Before(deadline) {
			return false
		}
		e.cond.Wait()
	}
	return true
}

// progressCount is a number that grows whenever anything observable happens
// at this endpoint (hook events, handler calls, accounted bytes, errors).
// Caller holds e.mu.
func (e *endpoint) progressCount() int {
	return len(e.events) + len(e.handledBy) + len(e.errs) + e.accounted
}

// waitProgress is the liveness wait of the bounded-liveness oracles: it returns
// "done" as soon as cond() holds, "stalled" when nothing observable happened
// for a whole window (a deadlock has no progress at all, a starved machine
// still progresses slowly), "cap" when things were still moving after cap.
// extra (may be nil) adds harness-side progress (e.g. messages read from the wire).
func (e *endpoint) waitProgress(window, cap time.Duration, cond func() bool, extra func() int) string {
	start := time.Now()
	last := -1
	for {
		if time.Since(start) > cap {
			return "cap"
		}
		e.mu.Lock()
		cur := e.progressCount()
		e.mu.Unlock()
		if extra != nil {
			cur += extra()
		}
		if e.isDone() {
			cur++
		}
		if last >= 0 && cur == last {
			return "stalled"
		}
		last = cur
		if e.waitFor(window, cond) {
			return "done"
		}
	}
}

// livenessWindow / livenessCap: a verdict "it hangs" needs a full window
// without any observable progress; expected latencies are milliseconds.
const (
	livenessWindow = 10 * time.Second
	livenessCap    = 100 * time.Second
)

func (e *endpoint) isDone() bool {
	select {
	case <-e.proto.DoneChan():
		return true
	default:
		return false
	}
}

// waitDone waits for DoneChan to close.
func (e *endpoint) waitDone(d time.Duration) bool {
	select {
	case <-e.proto.DoneChan():
		return true
	case <-time.After(d):
		return false
	}
}

type snapshot struct {
	Events    []traceEv
	Handled   []handled
	Errs      []error
	ErrAt     []time.Time
	Accounted int
}

func (e *endpoint) snap() snapshot {
	e.mu.Lock()
	defer e.mu.Unlock()
	return snapshot{
		Events:    append([]traceEv(nil), e.events...),
		Handled:   append([]handled(nil), e.handledBy...),
		Errs:      append([]error(nil), e.errs...),
		ErrAt:     append([]time.Time(nil), e.errAt...),
		Accounted: e.accounted,
	}
}

func (s snapshot) transitions() []traceEv {
	var out []traceEv
	for _, ev := range s.Events {
		if ev.Kind == "transition" {
			out = append(out, ev)
		}
	}
	return out
}

func (s snapshot) traceStrings() []string {
	out := make([]string, len(s.Events))
	for i, ev := range s.Events {
		out[i] = ev.String()
	}
	return out
}

func (s snapshot) errStrings() []string {
	out := make([]string, len(s.Errs))
	for i, err := range s.Errs {
		out[i] = err.Error()
	}
	return out
}

func (e *endpoint) closeWait() time.Duration {
	if e.shortClose {
		return 200 * time.Millisecond
	}
	return 10 * time.Second
}

// close stops protocol and muxer and forgets the tracer registration.
// It reports whether DoneChan closed within the (generous) bound.
func (e *endpoint) close() bool {
	e.proto.Stop()
	e.mux.Stop()
	ok := e.waitDone(e.closeWait())
	tracerMap.Delete(e.proto)
	return ok
}

// rig = endpoint under test + raw peer on the other end of the pipe.
type rig struct {
	*endpoint
	peer     *rawpeer.Peer
	peerResp bool // direction bit the peer uses when it sends
}

func newRig(spec *protoSpec, sm protocol.StateMap, role protocol.ProtocolRole, planLib, planPeer rawpeer.Plan) *rig {
	a, b := rawpeer.Pipe(planLib, planPeer)
	r := &rig{peer: rawpeer.NewPeer(b)}
	// a server endpoint receives segments without the direction bit; a client
	// endpoint receives segments with it.
	r.peerResp = role == protocol.ProtocolRoleClient
	r.endpoint = newEndpoint(spec, sm, role, a)
	return r
}

func (r *rig) close() bool {
	ok := r.endpoint.close()
	r.peer.Close()
	r.peer.WaitClosed(5 * time.Second)
	return ok
}

// peerSend writes one or more messages as a single segment payload (or several
// segments when cut > 0: the payload is cut after cut bytes).
func (r *rig) peerSend(payload []byte, cut int) error {
	if cut > 0 && cut < len(payload) {
		return r.peer.Send(
			rawpeer.Seg{ProtoID: r.spec.ID, Response: r.peerResp, Payload: payload[:cut]},
			rawpeer.Seg{ProtoID: r.spec.ID, Response: r.peerResp, Payload: payload[cut:]},
		)
	}
	return r.peer.SendMsg(r.spec.ID, r.peerResp, payload)
}

// wireFromLib returns the next complete message the library wrote.
func (r *rig) wireFromLib(d time.Duration) ([]byte, error) {
	return r.peer.NextMsg(r.spec.ID, !r.peerResp, d)
}

// goroutineDump returns the stacks of goroutines that are inside gouroboros.
func goroutineDump() string {
	buf := make([]byte, 1<<20)
	n := runtime.Stack(buf, true)
	var keep []string
	for _, g := range strings.Split(string(buf[:n]), "\n\n") {
		if strings.Contains(g, "gouroboros") {
			keep = append(keep, g)
		}
	}
	out := strings.Join(keep, "\n\n")
	if len(out) > 20000 {
		out = out[:20000] + "\n…"
	}
	return out
}

// settle gives a (possibly faulty) engine the opportunity to do something it
// must not do: a few scheduler rounds plus a short sleep. It is not an oracle
// input; the oracle only looks at what was recorded.
func settle(d time.Duration) {
	for i := 0; i < 4; i++ {
		runtime.Gosched()
	}
	if d > 0 {
		time.Sleep(d)
	}
}
