package engine

import (
	"fmt"
	"strings"
	"sync"
	"time"

	"github.com/blinklabs-io/gouroboros/connection"
	"github.com/blinklabs-io/gouroboros/muxer"
	"github.com/blinklabs-io/gouroboros/protocol"
	"github.com/blinklabs-io/gouroboros/protocol/blockfetch"
	"github.com/blinklabs-io/gouroboros/protocol/chainsync"
	pcommon "github.com/blinklabs-io/gouroboros/protocol/common"
	"github.com/blinklabs-io/gouroboros/protocol/handshake"
	"github.com/blinklabs-io/gouroboros/protocol/keepalive"
	"github.com/blinklabs-io/gouroboros/protocol/leiosfetch"
	"github.com/blinklabs-io/gouroboros/protocol/leiosnotify"
	"github.com/blinklabs-io/gouroboros/protocol/leiosvotes"
	"github.com/blinklabs-io/gouroboros/protocol/localmessagenotification"
	"github.com/blinklabs-io/gouroboros/protocol/localmessagesubmission"
	"github.com/blinklabs-io/gouroboros/protocol/localstatequery"
	"github.com/blinklabs-io/gouroboros/protocol/localtxmonitor"
	"github.com/blinklabs-io/gouroboros/protocol/localtxsubmission"
	"github.com/blinklabs-io/gouroboros/protocol/messagesubmission"
	"github.com/blinklabs-io/gouroboros/protocol/peersharing"

	"verif/harness/internal/rawpeer"
)

// The real protocol clients copy their state map and overwrite some timeouts
// from their configuration. realClientCase configures such a client with the
// scaled timeout, walks it into the state that timeout belongs to and lets
// the server (raw peer) stall.

type rcStep struct {
	Local bool
	Msg   func() protocol.Message // local: the message the harness queues through the embedded Protocol
	Peer  func() []byte           // peer: the bytes the raw peer writes
}

type realClientCase struct {
	Name   string // "<protocol>:<config option>"
	ID     uint16
	Mode   protocol.ProtocolMode
	Ver    uint16
	State  string // name of the state the configured timeout belongs to
	Make   func(opts protocol.ProtocolOptions, T time.Duration) (*protocol.Protocol, func())
	Script []rcStep // steps after Start() that lead into State
}

func specByName(name string) *protoSpec {
	for _, sp := range allSpecs {
		if sp.Name == name {
			return sp
		}
	}
	panic("no spec " + name)
}

func sampleOf(spec, kind string, tag uint64) []byte {
	sp := specByName(spec)
	for _, k := range sp.Kinds {
		if k.Name == kind {
			return sp.mustBuild(k, tag).Bytes
		}
	}
	panic("no kind " + kind)
}

func lmsg(f func() protocol.Message) rcStep { return rcStep{Local: true, Msg: f} }
func pmsg(spec, kind string) rcStep {
	return rcStep{Peer: func() []byte { return sampleOf(spec, kind, 5) }}
}

func realClientCases() []realClientCase {
	ntn, ntc := protocol.ProtocolModeNodeToNode, protocol.ProtocolModeNodeToClient
	return []realClientCase{
		{Name: "block-fetch:BatchStartTimeout", ID: blockfetch.ProtocolId, Mode: ntn, State: "Busy",
			Make: func(o protocol.ProtocolOptions, T time.Duration) (*protocol.Protocol, func()) {
				cfg, err := blockfetch.NewConfig(blockfetch.WithBatchStartTimeout(T), blockfetch.WithBlockTimeout(c14Far))
				if err != nil {
					panic(err)
				}
				c := blockfetch.NewClient(o, &cfg)
				return c.Protocol, c.Start
			},
			Script: []rcStep{lmsg(func() protocol.Message { return blockfetch.NewMsgRequestRange(point(1), point(2)) })}},
		{Name: "block-fetch:BlockTimeout", ID: blockfetch.ProtocolId, Mode: ntn, State: "Streaming",
			Make: func(o protocol.ProtocolOptions, T time.Duration) (*protocol.Protocol, func()) {
				cfg, err := blockfetch.NewConfig(blockfetch.WithBatchStartTimeout(c14Far), blockfetch.WithBlockTimeout(T))
				if err != nil {
					panic(err)
				}
				c := blockfetch.NewClient(o, &cfg)
				return c.Protocol, c.Start
			},
			Script: []rcStep{lmsg(func() protocol.Message { return blockfetch.NewMsgRequestRange(point(1), point(2)) }), pmsg("block-fetch", "StartBatch")}},
		{Name: "chain-sync/NtN:IntersectTimeout", ID: chainsync.ProtocolIdNtN, Mode: ntn, State: "Intersect",
			Make: func(o protocol.ProtocolOptions, T time.Duration) (*protocol.Protocol, func()) {
				cfg := chainsync.NewConfig(chainsync.WithIntersectTimeout(T), chainsync.WithBlockTimeout(c14Far))
				c := chainsync.NewClient(o, &cfg)
				return c.Protocol, c.Start
			},
			Script: []rcStep{lmsg(func() protocol.Message { return chainsync.NewMsgFindIntersect([]pcommon.Point{point(3)}) })}},
		{Name: "chain-sync/NtN:BlockTimeout", ID: chainsync.ProtocolIdNtN, Mode: ntn, State: "CanAwait",
			Make: func(o protocol.ProtocolOptions, T time.Duration) (*protocol.Protocol, func()) {
				cfg := chainsync.NewConfig(chainsync.WithIntersectTimeout(c14Far), chainsync.WithBlockTimeout(T))
				c := chainsync.NewClient(o, &cfg)
				return c.Protocol, c.Start
			},
			Script: []rcStep{lmsg(func() protocol.Message { return chainsync.NewMsgRequestNext() })}},
		{Name: "handshake/NtN:Timeout", ID: handshake.ProtocolId, Mode: ntn, State: "Confirm",
			Make: func(o protocol.ProtocolOptions, T time.Duration) (*protocol.Protocol, func()) {
				cfg := handshake.NewConfig(handshake.WithTimeout(T),
					handshake.WithProtocolVersionMap(protocol.GetProtocolVersionMap(ntn, 764824073, false, false, false)))
				c := handshake.NewClient(o, &cfg)
				return c.Protocol, c.Start // Start sends ProposeVersions
			}},
		{Name: "keep-alive:Timeout", ID: keepalive.ProtocolId, Mode: ntn, State: "Server",
			Make: func(o protocol.ProtocolOptions, T time.Duration) (*protocol.Protocol, func()) {
				cfg := keepalive.NewConfig(keepalive.WithTimeout(T), keepalive.WithPeriod(time.Hour))
				c := keepalive.NewClient(o, &cfg)
				return c.Protocol, c.Start // Start sends the first KeepAlive
			}},
		{Name: "leios-fetch:Timeout/Votes", ID: leiosfetch.ProtocolId, Mode: ntn, State: "Votes",
			Make: func(o protocol.ProtocolOptions, T time.Duration) (*protocol.Protocol, func()) {
				cfg := leiosfetch.NewConfig(leiosfetch.WithTimeout(T))
				c := leiosfetch.NewClient(o, &cfg)
				return c.Protocol, c.Start
			},
			Script: []rcStep{lmsg(func() protocol.Message {
				return leiosfetch.NewMsgVotesRequest([]leiosfetch.MsgVotesRequestVoteId{{SlotNo: 4, VoterId: 2}})
			})}},
		{Name: "leios-fetch:Timeout/BlockRange", ID: leiosfetch.ProtocolId, Mode: ntn, State: "BlockRange",
			Make: func(o protocol.ProtocolOptions, T time.Duration) (*protocol.Protocol, func()) {
				cfg := leiosfetch.NewConfig(leiosfetch.WithTimeout(T))
				c := leiosfetch.NewClient(o, &cfg)
				return c.Protocol, c.Start
			},
			Script: []rcStep{lmsg(func() protocol.Message { return leiosfetch.NewMsgBlockRangeRequest(point(1), point(9)) })}},
		{Name: "leios-notify:Timeout", ID: leiosnotify.ProtocolId, Mode: ntn, State: "Busy",
			Make: func(o protocol.ProtocolOptions, T time.Duration) (*protocol.Protocol, func()) {
				cfg := leiosnotify.NewConfig(leiosnotify.WithTimeout(T))
				c := leiosnotify.NewClient(o, &cfg)
				return c.Protocol, c.Start
			},
			Script: []rcStep{lmsg(func() protocol.Message { return leiosnotify.NewMsgNotificationRequestNext() })}},
		{Name: "leios-votes:Timeout", ID: leiosvotes.ProtocolId, Mode: ntn, State: "Busy",
			Make: func(o protocol.ProtocolOptions, T time.Duration) (*protocol.Protocol, func()) {
				cfg := leiosvotes.NewConfig(leiosvotes.WithTimeout(T))
				c := leiosvotes.NewClient(o, &cfg)
				return c.Protocol, c.Start
			},
			Script: []rcStep{lmsg(func() protocol.Message { return leiosvotes.NewMsgVotesRequestNext(3) })}},
		{Name: "local-state-query:AcquireTimeout", ID: localstatequery.ProtocolId, Mode: ntc, State: "Acquiring",
			Make: func(o protocol.ProtocolOptions, T time.Duration) (*protocol.Protocol, func()) {
				cfg := localstatequery.NewConfig(localstatequery.WithAcquireTimeout(T), localstatequery.WithQueryTimeout(c14Far))
				c := localstatequery.NewClient(o, &cfg)
				return c.Protocol, c.Start
			},
			Script: []rcStep{lmsg(func() protocol.Message { return localstatequery.NewMsgAcquireVolatileTip() })}},
		{Name: "local-state-query:QueryTimeout", ID: localstatequery.ProtocolId, Mode: ntc, State: "Querying",
			Make: func(o protocol.ProtocolOptions, T time.Duration) (*protocol.Protocol, func()) {
				cfg := localstatequery.NewConfig(localstatequery.WithAcquireTimeout(c14Far), localstatequery.WithQueryTimeout(T))
				c := localstatequery.NewClient(o, &cfg)
				return c.Protocol, c.Start
			},
			Script: []rcStep{
				lmsg(func() protocol.Message { return localstatequery.NewMsgAcquireVolatileTip() }),
				pmsg("local-state-query", "Acquired"),
				lmsg(func() protocol.Message {
					m, err := localstatequery.NewMsgFromCbor(localstatequery.MessageTypeQuery, sampleOf("local-state-query", "Query", 1))
					if err != nil {
						panic(err)
					}
					return m
				})}},
		{Name: "local-tx-monitor:AcquireTimeout", ID: localtxmonitor.ProtocolId, Mode: ntc, State: "Acquiring",
			Make: func(o protocol.ProtocolOptions, T time.Duration) (*protocol.Protocol, func()) {
				cfg := localtxmonitor.NewConfig(localtxmonitor.WithAcquireTimeout(T), localtxmonitor.WithQueryTimeout(c14Far))
				c := localtxmonitor.NewClient(o, &cfg)
				return c.Protocol, c.Start
			},
			Script: []rcStep{lmsg(func() protocol.Message { return localtxmonitor.NewMsgAcquire() })}},
		{Name: "local-tx-monitor:QueryTimeout", ID: localtxmonitor.ProtocolId, Mode: ntc, State: "BusyNextTx",
			Make: func(o protocol.ProtocolOptions, T time.Duration) (*protocol.Protocol, func()) {
				cfg := localtxmonitor.NewConfig(localtxmonitor.WithAcquireTimeout(c14Far), localtxmonitor.WithQueryTimeout(T))
				c := localtxmonitor.NewClient(o, &cfg)
				return c.Protocol, c.Start
			},
			Script: []rcStep{
				lmsg(func() protocol.Message { return localtxmonitor.NewMsgAcquire() }),
				pmsg("local-tx-monitor", "Acquired"),
				lmsg(func() protocol.Message { return localtxmonitor.NewMsgNextTx() })}},
		{Name: "local-tx-submission:Timeout", ID: localtxsubmission.ProtocolId, Mode: ntc, State: "Busy",
			Make: func(o protocol.ProtocolOptions, T time.Duration) (*protocol.Protocol, func()) {
				cfg := localtxsubmission.NewConfig(localtxsubmission.WithTimeout(T))
				c := localtxsubmission.NewClient(o, &cfg)
				return c.Protocol, c.Start
			},
			Script: []rcStep{lmsg(func() protocol.Message { return localtxsubmission.NewMsgSubmitTx(6, hash32(3)) })}},
		{Name: "peer-sharing:Timeout", ID: peersharing.ProtocolId, Mode: ntn, State: "Busy",
			Make: func(o protocol.ProtocolOptions, T time.Duration) (*protocol.Protocol, func()) {
				cfg := peersharing.NewConfig(peersharing.WithTimeout(T))
				c := peersharing.NewClient(o, &cfg)
				return c.Protocol, c.Start
			},
			Script: []rcStep{lmsg(func() protocol.Message { return peersharing.NewMsgShareRequest(4) })}},
		{Name: "local-message-submission:Timeout", ID: localmessagesubmission.ProtocolID, Mode: ntc, State: "busy",
			Make: func(o protocol.ProtocolOptions, T time.Duration) (*protocol.Protocol, func()) {
				cfg := localmessagesubmission.NewConfig(localmessagesubmission.WithTimeout(T))
				c := localmessagesubmission.NewClient(o, &cfg)
				return c.Protocol, c.Start
			},
			Script: []rcStep{lmsg(func() protocol.Message {
				return localmessagesubmission.NewMsgSubmitMessage(pcommon.DmqMessage{
					MessageID: hash32(1), KESSignature: make([]byte, 448), ColdVerificationKey: hash32(2),
				})
			})}},
		{Name: "local-message-notification:BlockingRequestTimeout", ID: localmessagenotification.ProtocolID, Mode: ntc, State: "busyBlocking",
			Make: func(o protocol.ProtocolOptions, T time.Duration) (*protocol.Protocol, func()) {
				cfg := localmessagenotification.NewConfig(localmessagenotification.WithBlockingRequestTimeout(T))
				c := localmessagenotification.NewClient(o, &cfg)
				return c.Protocol, c.Start
			},
			Script: []rcStep{lmsg(func() protocol.Message { return localmessagenotification.NewMsgRequestMessages(true) })}},
		{Name: "message-submission/v1:IdleTimeout", ID: messagesubmission.ProtocolID, Mode: ntn, Ver: 14, State: "idle",
			Make: func(o protocol.ProtocolOptions, T time.Duration) (*protocol.Protocol, func()) {
				cfg := messagesubmission.NewConfig(messagesubmission.WithIdleTimeout(T), messagesubmission.WithInitTimeout(c14Far))
				c := messagesubmission.NewClient(o, &cfg)
				return c.Protocol, c.Start
			},
			Script: []rcStep{lmsg(func() protocol.Message { return messagesubmission.NewMsgInit() })}},
	}
}

// adopt wraps an already constructed protocol (a real client's embedded
// Protocol) so that its hook events and errors are recorded like those of a
// harness-built endpoint.
func adopt(name string, id uint16, role protocol.ProtocolRole, mux *muxer.Muxer, proto *protocol.Protocol, errCh chan error) *endpoint {
	installTracer()
	e := &endpoint{spec: &protoSpec{Name: name, ID: id}, role: role, mux: mux, proto: proto, errCh: errCh}
	e.cond = sync.NewCond(&e.mu)
	tracerMap.Store(proto, e)
	go e.collectErrors()
	return e
}

// runRealClientCase: configure the client's timeout to T, reach the state, let
// the server stall. Verdicts as for the "slow" kind.
func runRealClientCase(rc realClientCase, probe *noiseProbe) c14Result {
	return confirm(attemptRealClientCase(rc, probe), func() c14Result { return attemptRealClientCase(rc, probe) })
}

func attemptRealClientCase(rc realClientCase, probe *noiseProbe) c14Result {
	a, b := rawpeer.Pipe(nil, nil)
	peer := rawpeer.NewPeer(b)
	mux := muxer.New(a)
	errCh := make(chan error, 10)
	opts := protocol.ProtocolOptions{
		ConnectionId: connection.ConnectionId{LocalAddr: a.LocalAddr(), RemoteAddr: a.RemoteAddr()},
		Muxer:        mux, ErrorChan: errCh, Mode: rc.Mode, Role: protocol.ProtocolRoleClient, Version: rc.Ver,
	}
	startAt := time.Now()
	proto, start := rc.Make(opts, c14T)
	e := adopt(rc.Name, rc.ID, protocol.ProtocolRoleClient, mux, proto, errCh)
	for _, st := range rc.Script {
		if !st.Local {
			e.shortClose = true
		}
	}
	defer func() {
		e.close()
		peer.Close()
		peer.WaitClosed(5 * time.Second)
	}()
	start()
	mux.Start()
	discard := func(why string) c14Result { return c14Result{Verdict: "discard", Why: why} }
	keyBase := "C14:client:" + rc.Name + ":"
	obj := func(snap snapshot, extra map[string]any) map[string]any {
		evAt := make([]string, len(snap.Events))
		for i, ev := range snap.Events {
			evAt[i] = fmt.Sprintf("%s @%v", ev, ev.At.Sub(startAt))
		}
		errAt := make([]string, len(snap.ErrAt))
		for i, t := range snap.ErrAt {
			errAt[i] = t.Sub(startAt).String()
		}
		m := map[string]any{"case": rc.Name, "configured_timeout": c14T.String(), "state": rc.State,
			"trace": evAt, "errors": snap.errStrings(), "errors_at": errAt}
		for k, v := range extra {
			m[k] = v
		}
		return m
	}
	nTrans := func() int {
		n := 0
		for _, ev := range e.events {
			if ev.Kind == "transition" {
				n++
			}
		}
		return n
	}
	want := 0
	if len(rc.Script) == 0 {
		want = 1 // Start() itself sends the first message
	}
	for _, st := range rc.Script {
		var err error
		if st.Local {
			err = proto.SendMessage(st.Msg())
		} else {
			err = peer.SendMsg(rc.ID, true, st.Peer())
		}
		if err != nil {
			return discard("path_send_failed")
		}
		want++
		n := want
		if !e.waitFor(2*time.Second, func() bool { return nTrans() >= n || len(e.errs) > 0 }) {
			return discard("path_stalled")
		}
		if s := e.snap(); len(s.Errs) > 0 {
			return discard("path_error")
		}
	}
	if !e.waitFor(2*time.Second, func() bool { return nTrans() >= want || len(e.errs) > 0 }) {
		return discard("path_stalled")
	}
	snap := e.snap()
	trs := snap.transitions()
	if len(snap.Errs) > 0 || len(trs) < want || trs[want-1].Err != "" {
		return discard("path_error")
	}
	if trs[want-1].To.Name != rc.State {
		return c14Result{Verdict: "violation", Key: keyBase + "harness-path", What: fmt.Sprintf("HARNESS: script ends in %s, table says %s", trs[want-1].To, rc.State), Obj: obj(snap, nil)}
	}
	enteredAt := trs[want-1].At
	// the server stalls: the configured timeout must fire (bounded wait: 20T)
	e.waitFor(20*c14T, func() bool { return len(e.errs) > 0 })
	settle(time.Millisecond)
	snap = e.snap()
	late, samples := probe.maxLate(enteredAt, time.Now())
	calm := samples > 0 && late <= c14T/5
	for i, err := range snap.Errs {
		if !isTimeoutErr(err) {
			continue
		}
		since := snap.ErrAt[i].Sub(enteredAt)
		if since < c14T*9/10 {
			return c14Result{Verdict: "violation", Key: keyBase + "timeout-before-configured",
				What: fmt.Sprintf("timeout error %q only %v after %s was entered; configured %v", err, since, rc.State, c14T), Obj: obj(snap, nil)}
		}
		// When the script contains a server reply, the client's own handler for
		// that reply hands the result to an API call that this harness never
		// made (it drives the embedded Protocol directly), so the receive loop
		// may sit in that handler and DoneChan cannot close: not judged then.
		handlerMayBlock := false
		for _, st := range rc.Script {
			if !st.Local {
				handlerMayBlock = true
			}
		}
		if !handlerMayBlock && !e.waitDone(30*time.Second) {
			return c14Result{Verdict: "violation", Key: keyBase + "not-stopped",
				What: fmt.Sprintf("timeout error %q reported but DoneChan still open 30s later", err), Obj: obj(snap, map[string]any{"goroutines": goroutineDump()})}
		}
		return c14Result{Verdict: "pass", Named: strings.Contains(err.Error(), rc.State)}
	}
	if len(snap.Errs) > 0 {
		return discard("other_error")
	}
	if !calm {
		return discard("slow_noisy")
	}
	return c14Result{Verdict: "violation", LoadSensitive: true, Key: keyBase + "configured-timeout-ignored",
		What: fmt.Sprintf("the client was configured with timeout %v for state %s; the server stalled for %v and no timeout error was reported", c14T, rc.State, 20*c14T),
		Obj:  obj(snap, map[string]any{"probe_late": late.String(), "goroutines": goroutineDump()})}
}
