package engine

import (
	"fmt"
	"strings"
	"sync"
	"testing"
	"time"

	"github.com/blinklabs-io/gouroboros/protocol"
	"pgregory.net/rapid"

	"verif/harness/internal/evi"
)

// c14T is the scaled-down timeout of the state(s) under test.
const c14T = 150 * time.Millisecond

// c14Far is the timeout given to every other timed state where it must not interfere.
const c14Far = 10 * time.Second

// noiseProbe measures how late a sleeping goroutine of this process wakes up:
// the same scheduler and the same machine load the engine's timers and
// goroutines see. Verdicts that would be ambiguous under scheduling noise are
// discarded (never reported) when the probe saw lateness in the case's window.
type noiseProbe struct {
	mu   sync.Mutex
	at   []time.Time
	late []time.Duration
	stop chan struct{}
	done chan struct{}
}

func startProbe() *noiseProbe {
	p := &noiseProbe{stop: make(chan struct{}), done: make(chan struct{})}
	go func() {
		defer close(p.done)
		const tick = 2 * time.Millisecond
		for {
			select {
			case <-p.stop:
				return
			default:
			}
			t0 := time.Now()
			time.Sleep(tick)
			l := time.Since(t0) - tick
			p.mu.Lock()
			p.at = append(p.at, t0)
			p.late = append(p.late, l)
			p.mu.Unlock()
		}
	}()
	return p
}

func (p *noiseProbe) close() { close(p.stop); <-p.done }

// maxLate returns the worst lateness of probe sleeps that overlap [from, to],
// and the number of probe samples in the window (0 samples = the probe itself
// was starved: treat as noisy).
func (p *noiseProbe) maxLate(from, to time.Time) (time.Duration, int) {
	p.mu.Lock()
	defer p.mu.Unlock()
	var m time.Duration
	n := 0
	for i, t := range p.at {
		end := t.Add(2*time.Millisecond + p.late[i])
		if end.Before(from) || t.After(to) {
			continue
		}
		n++
		if p.late[i] > m {
			m = p.late[i]
		}
	}
	return m, n
}

type c14Case struct {
	Spec   *protoSpec
	Role   protocol.ProtocolRole
	Target protocol.State
	Kind   string          // slow | fast | untimed | initial | progress | loop
	Delta  time.Duration   // slow / fast: when the agency holder moves
	Deltas []time.Duration // progress / loop: delay before each step
	Picks  []int           // progress: which listed message to take at each step
	// UseFunc: the scaled timeouts are installed as TimeoutFunc (Timeout == 0)
	// in the source map before StateMap.Copy() is taken
	UseFunc bool
	// Backlog: while the local side holds agency in the timed state, the raw
	// peer has this many further messages delivered ahead of its turn (they sit
	// in the receive queue and cannot be consumed before the local side moves)
	Backlog int
	// Partial: while the peer holds agency in the timed state, the first half
	// of its next message has arrived and then nothing more
	Partial bool
}

func (c c14Case) String() string {
	return fmt.Sprintf("%s/%s state=%s kind=%s delta=%v timeoutfunc=%v backlog=%d partial=%v", c.Spec.Name, roleName(c.Role), c.Target, c.Kind, c.Delta, c.UseFunc, c.Backlog, c.Partial)
}

type c14Result struct {
	Verdict string // pass | discard | violation
	Why     string
	Key     string
	What    string
	Obj     map[string]any
	Named   bool // the timeout error names the state
	// LoadSensitive: the verdict assumes the engine was given CPU in time
	LoadSensitive bool
}

func hasTimeout(e protocol.StateMapEntry) bool { return e.Timeout > 0 || e.TimeoutFunc != nil }

// scaledMap copies the map. short lists the states whose timeout becomes T
// (nil: every timed state); every other timed state gets the far timeout.
// A state that uses TimeoutFunc keeps using a TimeoutFunc; with useFunc every
// timed state gets its (scaled) timeout as a TimeoutFunc with Timeout == 0.
// The scaled source map is then passed through StateMap.Copy(), exactly as the
// real clients and servers do (`StateMap: StateMap.Copy()`), and the copy is
// what the Protocol under test is configured with.
func scaledMap(sm protocol.StateMap, short func(protocol.State) bool, useFunc bool) protocol.StateMap {
	out := protocol.StateMap{}
	for s, e := range sm {
		if hasTimeout(e) {
			d := c14Far
			if short == nil || short(s) {
				d = c14T
			}
			if e.TimeoutFunc != nil || useFunc {
				dd := d
				e.TimeoutFunc = func() time.Duration { return dd }
				e.Timeout = 0
			} else {
				e.Timeout = d
			}
		}
		out[s] = e
	}
	return out.Copy()
}

// pathTo finds a shortest message path from the initial state to target;
// with nonEmpty a shortest path of at least one message (a cycle when the
// target is the initial state itself).
func pathTo(sp *protoSpec, target protocol.State, nonEmpty bool) ([]*wmsg, bool) {
	type node struct {
		s    protocol.State
		path []*wmsg
	}
	seen := map[protocol.State]bool{}
	queue := []node{{s: sp.Initial}}
	for len(queue) > 0 {
		n := queue[0]
		queue = queue[1:]
		if statesEq(n.s, target) && (len(n.path) > 0 || !nonEmpty) {
			return n.path, true
		}
		for ki, k := range sp.Kinds {
			m := sp.mustBuild(k, uint64(ki))
			next, ok := permits(sp.Map, nil, n.s, m)
			if !ok || seen[next] {
				continue
			}
			seen[next] = true
			queue = append(queue, node{s: next, path: append(append([]*wmsg(nil), n.path...), m)})
		}
	}
	return nil, false
}

type c14Target struct {
	Spec   *protoSpec
	Role   protocol.ProtocolRole
	State  protocol.State
	Timed  bool
	IsInit bool
}

// c14Targets enumerates every reachable state with agency of every exported
// map, for both roles.
func c14Targets() []c14Target {
	var out []c14Target
	for _, sp := range allSpecs {
		for _, role := range []protocol.ProtocolRole{protocol.ProtocolRoleClient, protocol.ProtocolRoleServer} {
			for _, s := range sortedStates(sp.Map) {
				e := sp.Map[s]
				if e.Agency == protocol.AgencyNone {
					continue
				}
				if _, ok := pathTo(sp, s, false); !ok {
					continue
				}
				out = append(out, c14Target{Spec: sp, Role: role, State: s, Timed: hasTimeout(e), IsInit: statesEq(s, sp.Initial)})
			}
		}
	}
	return out
}

// pickMover chooses the message the agency holder sends in state s: one that
// leaves s if the map lists one (leaves=true), else any listed one.
func pickMover(sp *protoSpec, sm protocol.StateMap, s protocol.State) (*wmsg, bool) {
	perm, _ := sp.splitKinds(sm, s)
	for _, ki := range perm {
		m := sp.mustBuild(sp.Kinds[ki], 7)
		if next, _ := permits(sm, nil, s, m); !statesEq(next, s) {
			return m, true
		}
	}
	return sp.mustBuild(sp.Kinds[perm[0]], 7), false
}

// selfLoopMsg returns a message the state map lists in s that leads back into s.
func selfLoopMsg(sp *protoSpec, sm protocol.StateMap, s protocol.State, tag uint64) (*wmsg, bool) {
	perm, _ := sp.splitKinds(sm, s)
	for _, ki := range perm {
		m := sp.mustBuild(sp.Kinds[ki], tag)
		if next, _ := permits(sm, nil, s, m); statesEq(next, s) {
			return m, true
		}
	}
	return nil, false
}

func isTimeoutErr(err error) bool {
	return err != nil && strings.Contains(strings.ToLower(err.Error()), "timeout")
}

// lastTransitionAt returns the time of the last transition event before t.
func lastTransitionAt(snap snapshot, t time.Time, start time.Time) time.Time {
	last := start
	for _, ev := range snap.Events {
		if ev.Kind == "transition" && ev.Err == "" && !ev.At.After(t) {
			last = ev.At
		}
	}
	return last
}

// confirm re-runs a case whose verdict depends on the engine having had enough
// CPU ("it should have acted by now"): such a verdict is only reported when
// three consecutive attempts agree; otherwise the case is discarded. Verdicts
// that are sound under any load (a timeout before T, a timeout where no timer
// may exist, DoneChan not closing) are reported at once.
func confirm(first c14Result, again func() c14Result) c14Result {
	if first.Verdict != "violation" || !first.LoadSensitive {
		return first
	}
	for i := 0; i < 2; i++ {
		r := again()
		if r.Verdict != "violation" || r.Key != first.Key {
			return c14Result{Verdict: "discard", Why: "not_reproduced", What: first.What}
		}
	}
	first.What += " (reproduced in 3 consecutive attempts)"
	return first
}

func runC14Case(c c14Case, probe *noiseProbe) c14Result {
	return confirm(attemptC14Case(c, probe), func() c14Result { return attemptC14Case(c, probe) })
}

func attemptC14Case(c c14Case, probe *noiseProbe) (res c14Result) {
	sp := c.Spec
	var sm protocol.StateMap
	switch c.Kind {
	case "slow", "fast", "loop", "stall":
		sm = scaledMap(sp.Map, func(s protocol.State) bool { return statesEq(s, c.Target) }, c.UseFunc)
	default:
		sm = scaledMap(sp.Map, nil, c.UseFunc)
	}
	startAt := time.Now()
	r := newRig(sp, sm, c.Role, nil, nil)
	defer r.close()
	obj := func(snap snapshot, extra map[string]any) map[string]any {
		errAt := make([]string, len(snap.ErrAt))
		for i, t := range snap.ErrAt {
			errAt[i] = t.Sub(startAt).String()
		}
		evAt := make([]string, len(snap.Events))
		for i, ev := range snap.Events {
			evAt[i] = fmt.Sprintf("%s @%v", ev, ev.At.Sub(startAt))
		}
		m := map[string]any{"case": c.String(), "T": c14T.String(), "trace": evAt, "errors": snap.errStrings(), "errors_at": errAt}
		for k, v := range extra {
			m[k] = v
		}
		return m
	}
	keyBase := fmt.Sprintf("C14:%s:%s:%s:", sp.Name, roleName(c.Role), c.Target)
	discard := func(why string) c14Result { return c14Result{Verdict: "discard", Why: why} }
	nTrans := func() int {
		n := 0
		for _, ev := range r.events {
			if ev.Kind == "transition" {
				n++
			}
		}
		return n
	}
	// move performs one step of the conversation: whoever holds agency in s sends m.
	move := func(s protocol.State, m *wmsg) (time.Time, error) {
		var err error
		if agencyOf(sm, s) == roleAgency(c.Role) {
			err = r.proto.SendMessage(sp.fresh(m))
		} else {
			err = r.peerSend(m.Bytes, 0)
		}
		return time.Now(), err
	}
	// R1: a timeout error less than 0.9T after the last state change is early
	// or stale whatever the machine load (the error is observed after the timer
	// fired, the hook event is emitted before the timer is armed).
	early := func(snap snapshot) (c14Result, bool) {
		for i, err := range snap.Errs {
			if !isTimeoutErr(err) {
				continue
			}
			since := snap.ErrAt[i].Sub(lastTransitionAt(snap, snap.ErrAt[i], startAt))
			if since < c14T*9/10 {
				return c14Result{Verdict: "violation", Key: keyBase + c.Kind + ":timeout-before-T",
					What: fmt.Sprintf("timeout error %q only %v after the last state change; every configured timeout is >= %v", err, since, c14T),
					Obj:  obj(snap, nil)}, true
			}
		}
		return c14Result{}, false
	}

	// ---- walk to the target
	s := sp.Initial
	enteredAt := startAt
	if c.Kind != "initial" && c.Kind != "progress" {
		// slow/fast on the initial state means: the initial state entered again
		path, okPath := pathTo(sp, c.Target, c.Kind == "slow" || c.Kind == "fast" || c.Kind == "stall")
		if !okPath {
			return discard("no_path")
		}
		for _, m := range path {
			before := r.snap()
			n := len(before.transitions())
			if _, err := move(s, m); err != nil {
				return discard("path_send_failed")
			}
			if !r.waitFor(2*time.Second, func() bool { return nTrans() > n || len(r.errs) > 0 }) {
				return discard("path_stalled")
			}
			snap := r.snap()
			if v, bad := early(snap); bad {
				return v
			}
			if len(snap.Errs) > 0 {
				return discard("path_error")
			}
			trs := snap.transitions()
			next, _ := permits(sm, nil, s, m)
			if !statesEq(trs[len(trs)-1].To, next) {
				return discard("path_diverged")
			}
			s = next
			enteredAt = trs[len(trs)-1].At
		}
	}

	// ---- backlog: the peer's bytes that are already there while the timer runs
	if (c.Backlog > 0 || c.Partial) && (c.Kind == "stall" || c.Kind == "fast") {
		localHolds := agencyOf(sm, s) == roleAgency(c.Role)
		switch {
		case c.Backlog > 0 && localHolds:
			// prefer a message that is legal once the local side has moved
			mv, _ := pickMover(sp, sm, s)
			after, _ := permits(sm, nil, s, mv)
			ki := 0
			if agencyOf(sm, after) == roleAgency(otherRole(c.Role)) {
				if perm, _ := sp.splitKinds(sm, after); len(perm) > 0 {
					ki = perm[0]
				}
			}
			before := r.snap().Accounted
			var payload []byte
			for i := 0; i < c.Backlog; i++ {
				payload = append(payload, sp.mustBuild(sp.Kinds[ki], uint64(50+i)).Bytes...)
			}
			if err := r.peerSend(payload, 0); err != nil {
				return discard("backlog_send_failed")
			}
			want := before + c.Backlog
			if !r.waitFor(2*time.Second, func() bool { return r.accounted >= want || len(r.errs) > 0 }) {
				return discard("backlog_not_taken_in")
			}
		case c.Partial && !localHolds:
			mv, _ := pickMover(sp, sm, s)
			if len(mv.Bytes) < 2 {
				return discard("no_partial")
			}
			if err := r.peerSend(mv.Bytes[:len(mv.Bytes)/2], 0); err != nil {
				return discard("backlog_send_failed")
			}
		default:
			return discard("backlog_not_applicable")
		}
	}

	switch c.Kind {
	case "initial", "untimed":
		// nothing may happen for 4T: the initial state never arms a timer, a
		// state without timeout has none, and the timer of the state before
		// must have been cancelled
		time.Sleep(time.Until(enteredAt.Add(4 * c14T)))
		snap := r.snap()
		if v, bad := early(snap); bad {
			return v
		}
		for _, err := range snap.Errs {
			if isTimeoutErr(err) {
				return c14Result{Verdict: "violation", Key: keyBase + c.Kind + ":timeout-where-none-configured",
					What: fmt.Sprintf("timeout error %q while sitting in %s (%s)", err, c.Target, c.Kind), Obj: obj(snap, nil)}
			}
		}
		if len(snap.Errs) > 0 {
			return discard("other_error")
		}
		return c14Result{Verdict: "pass"}

	case "fast":
		m, leaves := pickMover(sp, sm, s)
		time.Sleep(time.Until(enteredAt.Add(c.Delta)))
		n := len(r.snap().transitions())
		var movedAt time.Time
		var err error
		if c.Partial && agencyOf(sm, s) != roleAgency(c.Role) {
			// the first half is already there: deliver the rest
			err = r.peerSend(m.Bytes[len(m.Bytes)/2:], 0)
			movedAt = time.Now()
		} else {
			movedAt, err = move(s, m)
		}
		if err != nil && len(r.snap().Errs) == 0 {
			return discard("move_failed")
		}
		r.waitFor(2*time.Second, func() bool { return nTrans() > n || len(r.errs) > 0 })
		if !leaves {
			// every listed message leads back into the timed state: only the
			// move itself is judged, the timer is legitimately armed again
			snap := r.snap()
			if v, bad := early(snap); bad {
				return v
			}
			trs := snap.transitions()
			if len(snap.Errs) > 0 || len(trs) <= n {
				return discard("fast_ambiguous")
			}
			if trs[n].At.Sub(enteredAt) > c14T*8/10 {
				return discard("fast_too_slow")
			}
			return c14Result{Verdict: "pass"}
		}
		// a stale timer would fire around enteredAt+T: keep watching
		time.Sleep(time.Until(enteredAt.Add(c14T * 16 / 10)))
		snap := r.snap()
		if v, bad := early(snap); bad {
			return v
		}
		late, samples := probe.maxLate(enteredAt, time.Now())
		for i, e := range snap.Errs {
			if !isTimeoutErr(e) {
				continue
			}
			// the holder moved in time; did the engine have a calm machine?
			// a timeout that belongs to a LATER stay in the timed state is legitimate:
			// the conversation (e.g. a queued peer message) led back into it and
			// nobody moved for T after that
			if trsNow := snap.transitions(); len(trsNow) > n+1 {
				lastTr := trsNow[len(trsNow)-1]
				if lastTr.Err == "" && statesEq(lastTr.To, c.Target) && !lastTr.At.After(snap.ErrAt[i]) {
					return c14Result{Verdict: "pass"}
				}
			}
			// budget: the move, then up to 8 goroutine hand-offs each as late as the probe saw
			if samples > 0 && movedAt.Sub(enteredAt)+8*late+10*time.Millisecond <= c14T*9/10 {
				return c14Result{Verdict: "violation", LoadSensitive: true, Key: keyBase + "fast:spurious-timeout",
					What: fmt.Sprintf("agency holder moved %v after the state was entered (timeout %v) but a timeout error was reported at %v (probe lateness %v)",
						movedAt.Sub(enteredAt), c14T, snap.ErrAt[i].Sub(enteredAt), late),
					Obj: obj(snap, map[string]any{"probe_late": late.String()})}
			}
			d := discard("fast_ambiguous")
			d.What = fmt.Sprintf("moved %v after entry, error %v after entry, probe lateness %v (%d samples), trace %v", movedAt.Sub(enteredAt), snap.ErrAt[i].Sub(enteredAt), late, samples, snap.traceStrings())
			return d
		}
		if len(snap.Errs) > 0 {
			return discard("other_error")
		}
		trs := snap.transitions()
		if len(trs) <= n {
			return discard("fast_move_not_processed")
		}
		if trs[n].At.Sub(enteredAt) > c14T*8/10 {
			return discard("fast_too_slow")
		}
		return c14Result{Verdict: "pass"}

	case "slow":
		m, _ := pickMover(sp, sm, s)
		time.Sleep(time.Until(enteredAt.Add(c.Delta)))
		n := len(r.snap().transitions())
		_, _ = move(s, m) // may fail: the protocol should be gone by now
		got := r.waitFor(3*time.Second, func() bool { return (len(r.errs) > 0 && r.isDone()) || nTrans() > n })
		settle(time.Millisecond)
		snap := r.snap()
		if v, bad := early(snap); bad {
			return v
		}
		late, samples := probe.maxLate(enteredAt, time.Now())
		calm := samples > 0 && late <= c14T/5
		var terr error
		for _, e := range snap.Errs {
			if isTimeoutErr(e) {
				terr = e
			}
		}
		if terr == nil {
			if !calm {
				return discard("slow_noisy")
			}
			what := fmt.Sprintf("the protocol sat in %s (timeout %v) for %v without its agency holder moving and no timeout error was reported", c.Target, c14T, c.Delta)
			if len(snap.transitions()) > n {
				what += "; the late message was processed instead"
			}
			_ = got
			return c14Result{Verdict: "violation", LoadSensitive: true, Key: keyBase + "slow:no-timeout", What: what,
				Obj: obj(snap, map[string]any{"probe_late": late.String(), "goroutines": goroutineDump()})}
		}
		if !r.waitDone(30 * time.Second) {
			return c14Result{Verdict: "violation", Key: keyBase + "slow:not-stopped",
				What: fmt.Sprintf("timeout error %q reported but DoneChan still open 30s later", terr),
				Obj:  obj(snap, map[string]any{"goroutines": goroutineDump()})}
		}
		if len(snap.transitions()) > n && snap.transitions()[n].Err == "" {
			if !calm {
				return discard("slow_noisy")
			}
			return c14Result{Verdict: "violation", LoadSensitive: true, Key: keyBase + "slow:late-message-processed",
				What: fmt.Sprintf("a message arriving %v after the state was entered (timeout %v) was still processed", c.Delta, c14T),
				Obj:  obj(snap, nil)}
		}
		return c14Result{Verdict: "pass", Named: strings.Contains(terr.Error(), c.Target.Name)}

	case "stall":
		// nobody moves at all. A timeout that fires late is never a violation;
		// only "no timeout within 50T + 5 s" is (no load can explain that).
		stallBound := 50*c14T + 5*time.Second
		r.waitFor(time.Until(enteredAt.Add(stallBound)), func() bool { return len(r.errs) > 0 })
		settle(time.Millisecond)
		snap := r.snap()
		if v, bad := early(snap); bad {
			return v
		}
		for _, e := range snap.Errs {
			if isTimeoutErr(e) {
				if !r.waitDone(30 * time.Second) {
					return c14Result{Verdict: "violation", Key: keyBase + "stall:not-stopped",
						What: fmt.Sprintf("timeout error %q reported but DoneChan still open 30s later", e), Obj: obj(snap, nil)}
				}
				return c14Result{Verdict: "pass", Named: strings.Contains(e.Error(), c.Target.Name)}
			}
		}
		if len(snap.Errs) > 0 {
			return discard("other_error")
		}
		how := "Timeout"
		if e := sm[c.Target]; c.UseFunc || sp.Map[c.Target].TimeoutFunc != nil {
			how = "TimeoutFunc"
			if e.TimeoutFunc == nil {
				how = "TimeoutFunc (lost by StateMap.Copy(): the copy handed to the Protocol has TimeoutFunc == nil and Timeout == 0)"
			}
		}
		key := keyBase + "stall:never-times-out"
		if how != "Timeout" {
			key = keyBase + "stall:timeoutfunc:never-times-out"
		}
		return c14Result{Verdict: "violation", Key: key,
			What: fmt.Sprintf("state %s has a %v timeout given as %s in the source map that went through StateMap.Copy(); the agency holder stalled for %v and no timeout error was reported", c.Target, c14T, how, stallBound),
			Obj:  obj(snap, map[string]any{"goroutines": goroutineDump()})}

	case "loop":
		// the agency holder keeps sending a message that leads back into the timed
		// state, each within 0.2T..0.5T of the previous one; the stay exceeds T.
		// Every message restarts the limit, so no timeout may be reported while
		// they keep coming; afterwards a stall must still time out.
		last := enteredAt
		for i, d := range c.Deltas {
			m, ok := selfLoopMsg(sp, sm, s, uint64(100+i))
			if !ok {
				return discard("no_self_loop")
			}
			time.Sleep(time.Until(last.Add(d)))
			n := len(r.snap().transitions())
			if _, err := move(s, m); err != nil && len(r.snap().Errs) == 0 {
				return discard("move_failed")
			}
			r.waitFor(2*time.Second, func() bool { return nTrans() > n || len(r.errs) > 0 })
			snap := r.snap()
			if v, bad := early(snap); bad {
				v.What += fmt.Sprintf(" (self-loop message #%d of %d, %v after the state was first entered: the timer was not restarted by the message)", i+1, len(c.Deltas), time.Since(enteredAt))
				return v
			}
			if len(snap.Errs) > 0 {
				return discard("loop_ambiguous")
			}
			trs := snap.transitions()
			if len(trs) <= n {
				return discard("loop_stalled")
			}
			if trs[n].At.Sub(last) > c14T*8/10 {
				return discard("loop_too_slow")
			}
			if !statesEq(trs[n].To, s) {
				return discard("path_diverged")
			}
			last = trs[n].At
		}
		if last.Sub(enteredAt) < c14T*12/10 {
			return discard("loop_stay_too_short")
		}
		// now the holder stalls: the timer must have been re-armed, not disabled
		r.waitFor(20*c14T, func() bool { return len(r.errs) > 0 })
		settle(time.Millisecond)
		snap := r.snap()
		if v, bad := early(snap); bad {
			return v
		}
		for _, e := range snap.Errs {
			if isTimeoutErr(e) {
				if !r.waitDone(30 * time.Second) {
					return c14Result{Verdict: "violation", Key: keyBase + "loop:not-stopped",
						What: fmt.Sprintf("timeout error %q reported but DoneChan still open 30s later", e), Obj: obj(snap, nil)}
				}
				return c14Result{Verdict: "pass", Named: strings.Contains(e.Error(), c.Target.Name)}
			}
		}
		if len(snap.Errs) > 0 {
			return discard("other_error")
		}
		return c14Result{Verdict: "violation", LoadSensitive: true, Key: keyBase + "loop:no-timeout-after-stall",
			What: fmt.Sprintf("after %d self-loop messages the agency holder stalled for %v in %s (timeout %v) and no timeout error was reported", len(c.Deltas), 20*c14T, c.Target, c14T),
			Obj:  obj(snap, map[string]any{"goroutines": goroutineDump()})}

	case "progress":
		// every timed state has timeout T; each step comes after <= 0.5T
		last := startAt
		for i, d := range c.Deltas {
			if agencyOf(sm, s) == protocol.AgencyNone {
				break
			}
			perm, _ := sp.splitKinds(sm, s)
			if len(perm) == 0 {
				break
			}
			// prefer edges that keep the conversation going
			var cont []int
			for _, ki := range perm {
				nx, _ := permits(sm, nil, s, sp.mustBuild(sp.Kinds[ki], 0))
				if agencyOf(sm, nx) != protocol.AgencyNone {
					cont = append(cont, ki)
				}
			}
			if len(cont) > 0 {
				perm = cont
			}
			m := sp.mustBuild(sp.Kinds[perm[c.Picks[i]%len(perm)]], uint64(i))
			time.Sleep(time.Until(last.Add(d)))
			n := len(r.snap().transitions())
			if _, err := move(s, m); err != nil && len(r.snap().Errs) == 0 {
				return discard("move_failed")
			}
			r.waitFor(2*time.Second, func() bool { return nTrans() > n || len(r.errs) > 0 })
			snap := r.snap()
			if v, bad := early(snap); bad {
				return v
			}
			if len(snap.Errs) > 0 {
				return discard("progress_ambiguous")
			}
			trs := snap.transitions()
			if len(trs) <= n {
				return discard("progress_stalled")
			}
			if i > 0 && trs[n].At.Sub(last) > c14T*8/10 {
				return discard("progress_too_slow")
			}
			next, _ := permits(sm, nil, s, m)
			s = next
			last = trs[n].At
		}
		return c14Result{Verdict: "pass"}
	}
	return discard("unknown_kind")
}

func TestC14(t *testing.T) {
	rec := evi.New(t, "C14", evi.Exploration,
		"targets = every reachable state with agency of every exported state map x both roles (enumerated). The state map is copied and its timeouts scaled: T=150ms for the state(s) under test. Case kinds: slow (timed state, agency holder - raw peer or harness caller - moves after delta in [1.8T,2.5T]: a timeout error must be reported and the protocol must stop, the late message must not be processed), fast (delta in [0,0.5T]: no timeout error up to 1.6T after entry, i.e. also no stale timer), untimed (state without timeout reached quickly through states that all have timeout T: silence for 4T), initial (the initial state given timeout T: silence for 4T after Start), progress (all timed states T, 3-8 steps each after <= 0.5T: no timeout although the total exceeds T), stall (timed state, nobody moves - also with 1 or 3 peer messages delivered ahead of turn while the library side holds agency, and with half of the peer's next message delivered while the peer holds agency; the same backlog in fast cases where the holder still answers in time: the timeout error must come; only 'none within 50T+5s' is a violation), every scaled map is built as a source map and handed to the Protocol through StateMap.Copy() as the real clients do, and in half of the cases the timeouts are installed as TimeoutFunc with Timeout==0; a structural oracle compares every package-level state map with its Copy() (Timeout, TimeoutFunc nil-ness and range, limits, agency, edges); loop (timed state with an edge back into itself, e.g. block-fetch Streaming/Block, in both roles so that the sender of the self-loop message is the raw peer or the harness caller: messages at gaps of 0.2T-0.5T for a stay of 1.6T-2.5T must not produce a timeout - each message restarts the limit - and a stall afterwards must still time out). client (a real protocol client - block-fetch, chain-sync, handshake, keep-alive, leios-*, local-state-query, local-tx-monitor, local-tx-submission, peer-sharing, local-message-*, message-submission - whose timeout option is set to T is walked into the state the option belongs to and the server stalls: the timeout must fire, not before 0.9T). First a sweep over all targets with deltas derived from the seed, then the client table, then rapid-drawn batches; 8 cases run concurrently. Scheduling-noise guard: times are measured (hook event time of the state entry, time of the error, time of the move) and a probe goroutine measures wake-up lateness; a verdict that noise could explain is discarded and counted, never reported. Sound-under-load rule: a timeout error less than 0.9T after the last state change is always a violation. Non-trivial = a slow or fast or progress case that reached a verdict; distinct by (map, role, state, kind, delta bucket of 10ms).")
	defer rec.Finish()
	rec.Assume("the verif tracer emits the transition event before the state loop arms the timer of the new state",
		"Go timers never fire early",
		"a re-entered initial state that has a timeout is treated like any other timed state (only the very first entry is exempt)")
	validateSpecs(t)
	checkStateMapCopies(rec)
	targets := c14Targets()
	probe := startProbe()
	defer probe.close()

	record := func(c c14Case, res c14Result) {
		rec.Eval()
		rec.Class("kind_" + c.Kind)
		rec.Class("verdict_" + res.Verdict)
		if res.Verdict == "discard" {
			rec.Class("discard_" + res.Why)
			if testing.Verbose() {
				t.Logf("discarded (%s): %s %s", res.Why, c, res.What)
			}
			return
		}
		if res.Verdict == "pass" {
			if c.Kind == "slow" {
				if res.Named {
					rec.Class("timeout_error_names_state")
				} else {
					rec.Class("timeout_error_does_not_name_state")
				}
			}
			desc := fmt.Sprintf("%s/%s/%s/%s/%d", c.Spec.Name, roleName(c.Role), c.Target, c.Kind, c.Delta/(10*time.Millisecond))
			if c.Kind == "progress" || c.Kind == "loop" {
				desc += fmt.Sprint(c.Picks, c.Deltas)
			}
			if c.Backlog > 0 {
				desc += fmt.Sprintf("/backlog%d", c.Backlog)
				rec.Class("timer_runs_with_peer_messages_queued_ahead_of_turn")
			}
			if c.Partial {
				desc += "/partial"
				rec.Class("timer_runs_with_partial_peer_message_pending")
			}
			if c.UseFunc {
				desc += "/func"
				rec.Class("timeout_given_as_TimeoutFunc")
			}
			if c.Kind == "slow" || c.Kind == "fast" || c.Kind == "progress" || c.Kind == "loop" || c.Kind == "stall" {
				rec.NonTrivial(desc, map[string]any{"protocol": c.Spec.Name, "role": roleName(c.Role), "state": c.Target.String(),
					"kind": c.Kind, "delta": c.Delta.String(), "T": c14T.String(), "verdict": res.Verdict})
			}
		}
	}
	runBatch := func(batch []c14Case) []c14Result {
		out := make([]c14Result, len(batch))
		var wg sync.WaitGroup
		for i := range batch {
			wg.Add(1)
			go func(i int) {
				defer wg.Done()
				out[i] = runC14Case(batch[i], probe)
			}(i)
		}
		wg.Wait()
		return out
	}
	mix := func(a, b uint64) uint64 { // splitmix64 step: deltas of the sweep are a function of the seed
		z := a + b*0x9e3779b97f4a7c15 + 0x9e3779b97f4a7c15
		z = (z ^ (z >> 30)) * 0xbf58476d1ce4e5b9
		z = (z ^ (z >> 27)) * 0x94d049bb133111eb
		return z ^ (z >> 31)
	}
	slowDelta := func(u uint64) time.Duration {
		return c14T*18/10 + time.Duration(u%uint64(c14T*7/10))
	}
	fastDelta := func(u uint64) time.Duration { return time.Duration(u % uint64(c14T/2)) }

	// ---- sweep: every target once per applicable kind
	var sweep []c14Case
	for i, tg := range targets {
		u := mix(uint64(rec.Seed()), uint64(i))
		switch {
		case tg.IsInit:
			if tg.Timed {
				sweep = append(sweep, c14Case{Spec: tg.Spec, Role: tg.Role, Target: tg.State, Kind: "initial"})
				if _, ok := pathTo(tg.Spec, tg.State, true); ok {
					sweep = append(sweep,
						c14Case{Spec: tg.Spec, Role: tg.Role, Target: tg.State, Kind: "slow", Delta: slowDelta(u)},
						c14Case{Spec: tg.Spec, Role: tg.Role, Target: tg.State, Kind: "fast", Delta: fastDelta(u >> 20)})
				}
			} else {
				sweep = append(sweep, c14Case{Spec: tg.Spec, Role: tg.Role, Target: tg.State, Kind: "untimed"})
			}
		case tg.Timed:
			sweep = append(sweep,
				c14Case{Spec: tg.Spec, Role: tg.Role, Target: tg.State, Kind: "slow", Delta: slowDelta(u), UseFunc: i%2 == 0},
				c14Case{Spec: tg.Spec, Role: tg.Role, Target: tg.State, Kind: "fast", Delta: fastDelta(u >> 20), UseFunc: i%2 == 1},
				c14Case{Spec: tg.Spec, Role: tg.Role, Target: tg.State, Kind: "stall", UseFunc: true})
			if tg.Spec.Map[tg.State].Agency == roleAgency(tg.Role) {
				// the library side holds agency and stalls / answers in time while the peer is ahead of its turn
				sweep = append(sweep,
					c14Case{Spec: tg.Spec, Role: tg.Role, Target: tg.State, Kind: "stall", UseFunc: i%2 == 1, Backlog: 1},
					c14Case{Spec: tg.Spec, Role: tg.Role, Target: tg.State, Kind: "stall", UseFunc: i%2 == 0, Backlog: 3},
					c14Case{Spec: tg.Spec, Role: tg.Role, Target: tg.State, Kind: "fast", Delta: fastDelta(u >> 30), Backlog: 1})
			} else {
				sweep = append(sweep,
					c14Case{Spec: tg.Spec, Role: tg.Role, Target: tg.State, Kind: "stall", UseFunc: i%2 == 1, Partial: true},
					c14Case{Spec: tg.Spec, Role: tg.Role, Target: tg.State, Kind: "fast", Delta: fastDelta(u >> 30), Partial: true})
			}
		default:
			sweep = append(sweep, c14Case{Spec: tg.Spec, Role: tg.Role, Target: tg.State, Kind: "untimed"})
		}
	}
	// timed states with an edge back into themselves: both roles, so the sender
	// of the self-loop message is the raw peer in one and the harness caller in the other
	loopDeltas := func(u uint64) []time.Duration {
		total := c14T*16/10 + time.Duration(u%uint64(c14T*9/10))
		var ds []time.Duration
		var sum time.Duration
		for i := uint64(0); sum < total; i++ {
			d := c14T/5 + time.Duration(mix(u, i)%uint64(c14T*3/10))
			ds = append(ds, d)
			sum += d
		}
		return ds
	}
	var loopTargets []c14Target
	for i, tg := range targets {
		if !tg.Timed {
			continue
		}
		if _, ok := selfLoopMsg(tg.Spec, tg.Spec.Map, tg.State, 0); !ok {
			continue
		}
		if _, ok := pathTo(tg.Spec, tg.State, true); !ok {
			continue
		}
		loopTargets = append(loopTargets, tg)
		for rep := uint64(0); rep < 3; rep++ {
			sweep = append(sweep, c14Case{Spec: tg.Spec, Role: tg.Role, Target: tg.State, Kind: "loop",
				Deltas: loopDeltas(mix(uint64(rec.Seed()), uint64(1000+i)+rep*7919))})
		}
	}
	rec.SetExtra("n_loop_targets", len(loopTargets))
	rec.SetExtra("n_targets", len(targets))
	rec.SetExtra("n_sweep_cases", len(sweep))
	const par = 8
	nViol := 0
	for i := 0; i < len(sweep); i += par {
		j := i + par
		if j > len(sweep) {
			j = len(sweep)
		}
		for k, res := range runBatch(sweep[i:j]) {
			record(sweep[i+k], res)
			if res.Verdict == "violation" {
				rec.Violation(res.Key, res.What, res.Obj)
				nViol++
			}
		}
		if nViol >= 3 {
			// enough replays; a failing stall case costs 50T+5s, do not spend the budget on more
			rec.Class("sweep_stopped_after_3_violations")
			return
		}
	}

	// ---- the real protocol clients with their timeout options set to T
	rcs := realClientCases()
	rec.SetExtra("n_real_client_cases", len(rcs))
	for i := 0; i < len(rcs); i += par {
		j := i + par
		if j > len(rcs) {
			j = len(rcs)
		}
		out := make([]c14Result, j-i)
		var wg sync.WaitGroup
		for k := i; k < j; k++ {
			wg.Add(1)
			go func(k int) {
				defer wg.Done()
				out[k-i] = runRealClientCase(rcs[k], probe)
			}(k)
		}
		wg.Wait()
		for k, res := range out {
			rc := rcs[i+k]
			rec.Eval()
			rec.Class("kind_client")
			rec.Class("verdict_" + res.Verdict)
			switch res.Verdict {
			case "discard":
				rec.Class("discard_" + res.Why)
				if testing.Verbose() {
					t.Logf("discarded (%s): client %s", res.Why, rc.Name)
				}
			case "violation":
				rec.Violation(res.Key, res.What, res.Obj)
			default:
				if res.Named {
					rec.Class("timeout_error_names_state")
				}
				rec.NonTrivial("client/"+rc.Name, map[string]any{"client": rc.Name, "state": rc.State, "configured_timeout": c14T.String(), "verdict": res.Verdict})
			}
		}
	}

	// timed targets (for slow/fast draws), including re-entered initial states
	var timed []c14Target
	for _, tg := range targets {
		if !tg.Timed {
			continue
		}
		if _, ok := pathTo(tg.Spec, tg.State, true); ok {
			timed = append(timed, tg)
		}
	}
	// maps that have at least one timed state (progress cases)
	var timedSpecs []*protoSpec
	for _, sp := range allSpecs {
		for _, e := range sp.Map {
			if hasTimeout(e) {
				timedSpecs = append(timedSpecs, sp)
				break
			}
		}
	}

	rec.Check(func(rt *rapid.T) {
		batch := make([]c14Case, par)
		for i := range batch {
			role := rapid.SampledFrom([]protocol.ProtocolRole{protocol.ProtocolRoleClient, protocol.ProtocolRoleServer}).Draw(rt, "role")
			switch k := rapid.IntRange(0, 11).Draw(rt, "kind"); {
			case k >= 10 && len(loopTargets) > 0:
				tg := loopTargets[rapid.IntRange(0, len(loopTargets)-1).Draw(rt, "loopTarget")]
				c := c14Case{Spec: tg.Spec, Role: tg.Role, Target: tg.State, Kind: "loop"}
				total := time.Duration(rapid.Int64Range(int64(c14T*16/10), int64(c14T*25/10)).Draw(rt, "stay"))
				var sum time.Duration
				for sum < total {
					d := time.Duration(rapid.Int64Range(int64(c14T/5), int64(c14T/2)).Draw(rt, "gap"))
					c.Deltas = append(c.Deltas, d)
					sum += d
				}
				batch[i] = c
			case k < 4:
				tg := timed[rapid.IntRange(0, len(timed)-1).Draw(rt, "target")]
				batch[i] = c14Case{Spec: tg.Spec, Role: tg.Role, Target: tg.State, Kind: rapid.SampledFrom([]string{"slow", "slow", "stall"}).Draw(rt, "slowOrStall"),
					UseFunc: rapid.Bool().Draw(rt, "useFunc"),
					Delta: time.Duration(rapid.Int64Range(int64(c14T*18/10), int64(c14T*25/10)).Draw(rt, "delta"))}
			case k < 7:
				tg := timed[rapid.IntRange(0, len(timed)-1).Draw(rt, "target")]
				batch[i] = c14Case{Spec: tg.Spec, Role: tg.Role, Target: tg.State, Kind: "fast",
					UseFunc: rapid.Bool().Draw(rt, "useFunc"),
					Delta: time.Duration(rapid.Int64Range(0, int64(c14T/2)).Draw(rt, "delta"))}
			default:
				sp := timedSpecs[rapid.IntRange(0, len(timedSpecs)-1).Draw(rt, "spec")]
				n := rapid.IntRange(3, 8).Draw(rt, "steps")
				c := c14Case{Spec: sp, Role: role, Target: sp.Initial, Kind: "progress"}
				for j := 0; j < n; j++ {
					c.Deltas = append(c.Deltas, time.Duration(rapid.Int64Range(int64(c14T/5), int64(c14T/2)).Draw(rt, "stepDelta")))
					c.Picks = append(c.Picks, rapid.IntRange(0, 7).Draw(rt, "pick"))
				}
				batch[i] = c
			}
		}
		for k, res := range runBatch(batch) {
			record(batch[k], res)
			if res.Verdict == "violation" {
				rec.Fail(rt, res.Key, res.What, res.Obj)
			}
		}
	})
}
