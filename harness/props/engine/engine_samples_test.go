package engine

import (
	"testing"

	"github.com/blinklabs-io/gouroboros/protocol"
)

// validateSpecs checks the harness' own tables before any property is judged:
// every sample message is accepted by the protocol's decoder with the type the
// table claims, every message type a state map mentions has a sample, the
// initial state is in the map, and every edge leads to a state of the map.
// A failure here is a harness defect (reported as such, never as a violation).
func validateSpecs(t testing.TB) {
	t.Helper()
	for _, sp := range allSpecs {
		if _, ok := sp.Map[sp.Initial]; !ok {
			t.Fatalf("HARNESS: %s: initial state %v not in the state map", sp.Name, sp.Initial)
		}
		have := map[uint8]bool{}
		for _, k := range sp.Kinds {
			for _, tag := range []uint64{0, 1, 77} {
				if _, err := sp.build(k, tag); err != nil {
					t.Fatalf("HARNESS: %v", err)
				}
			}
			have[k.Type] = true
		}
		for s, e := range sp.Map {
			if e.Agency != protocol.AgencyNone && len(e.Transitions) == 0 {
				t.Fatalf("HARNESS: %s: state %s has agency but no edges", sp.Name, s)
			}
			for _, tr := range e.Transitions {
				if !have[tr.MsgType] {
					t.Fatalf("HARNESS: %s: no sample for message type %d (state %s)", sp.Name, tr.MsgType, s)
				}
				if _, ok := sp.Map[tr.NewState]; !ok {
					t.Fatalf("HARNESS: %s: edge from %s leads outside the map", sp.Name, s)
				}
			}
		}
	}
}

func TestEngineSamples(t *testing.T) { validateSpecs(t) }
