package engine

import (
	"github.com/blinklabs-io/gouroboros/protocol"
	pcommon "github.com/blinklabs-io/gouroboros/protocol/common"
	lmn "github.com/blinklabs-io/gouroboros/protocol/localmessagenotification"
	lms "github.com/blinklabs-io/gouroboros/protocol/localmessagesubmission"
	ms "github.com/blinklabs-io/gouroboros/protocol/messagesubmission"
)

// The three CIP-0137 protocols keep their state maps package-private, so the
// generic engine cannot be handed "their" map from outside. To still run the
// engine on maps of that shape (MatchFunc on a blocking flag, client-agency
// reply states, explicit zero timeouts) the maps are transcribed here from
// protocol/{localmessagesubmission,localmessagenotification,messagesubmission}/*.go
// and used together with the packages' exported message decoders. The model
// and the engine both get the transcription, so a transcription slip cannot
// produce an alarm; conformance of the package-private maps themselves is not
// claimed by these checks. The real clients with their real maps are exercised
// by the C14 "client" family.

func dmqMsg(t uint64) pcommon.DmqMessage {
	return pcommon.DmqMessage{
		MessageID:    hash32(t),
		Payload:      pcommon.DmqMessagePayload{MessageBody: []byte{byte(t), 1, 2}, KESPeriod: 3 + t, ExpiresAt: uint32(1000 + t)},
		KESSignature: make([]byte, 448),
		OperationalCertificate: pcommon.OperationalCertificate{
			KESVerificationKey: hash32(t + 1), IssueNumber: 1, KESPeriod: 2, ColdSignature: make([]byte, 64),
		},
		ColdVerificationKey: hash32(t + 2),
	}
}

func dmqSpecs() []*protoSpec {
	const sec = 1e9
	lmsIdle, lmsBusy, lmsDone := st(1, "idle"), st(2, "busy"), st(3, "done")
	lmnIdle, lmnNB, lmnB, lmnDone := st(1, "idle"), st(2, "busyNonBlocking"), st(3, "busyBlocking"), st(4, "done")
	msInit, msIdle, msIdsB, msIdsNB, msMsgs, msDone := st(1, "init"), st(2, "idle"), st(3, "messageIdsBlocking"), st(4, "messageIdsNonBlocking"), st(5, "messages"), st(6, "done")
	blockingIds := func(want bool) protocol.StateTransitionMatchFunc {
		return func(_ any, m protocol.Message) bool {
			r, ok := m.(*ms.MsgRequestMessageIds)
			return ok && r.IsBlocking == want
		}
	}
	blockingReq := func(want bool) protocol.StateTransitionMatchFunc {
		return func(_ any, m protocol.Message) bool {
			r, ok := m.(*lmn.MsgRequestMessages)
			return ok && r.IsBlocking == want
		}
	}
	msKinds := []msgKind{
		{"Init", ms.MessageTypeInit, func(uint64) []byte { return enc(ms.NewMsgInit()) }},
		{"RequestMessageIds/blocking", ms.MessageTypeRequestMessageIds, func(t uint64) []byte { return enc(ms.NewMsgRequestMessageIds(true, uint16(t), 2)) }},
		{"RequestMessageIds/nonblocking", ms.MessageTypeRequestMessageIds, func(t uint64) []byte { return enc(ms.NewMsgRequestMessageIds(false, uint16(t), 2)) }},
		{"ReplyMessageIds", ms.MessageTypeReplyMessageIds, func(t uint64) []byte {
			return enc(ms.NewMsgReplyMessageIds([]pcommon.MessageIDAndSize{{MessageID: hash32(t), SizeInBytes: uint32(100 + t)}}))
		}},
		{"RequestMessages", ms.MessageTypeRequestMessages, func(t uint64) []byte { return enc(ms.NewMsgRequestMessages([][]byte{hash32(t)})) }},
		{"ReplyMessages", ms.MessageTypeReplyMessages, func(t uint64) []byte { return enc(ms.NewMsgReplyMessages([]pcommon.DmqMessage{dmqMsg(t)})) }},
		{"Done", ms.MessageTypeDone, func(uint64) []byte { return enc(ms.NewMsgDone()) }},
	}
	msIdleEdges := []protocol.StateTransition{
		{MsgType: ms.MessageTypeRequestMessageIds, NewState: msIdsB, MatchFunc: blockingIds(true)},
		{MsgType: ms.MessageTypeRequestMessageIds, NewState: msIdsNB, MatchFunc: blockingIds(false)},
		{MsgType: ms.MessageTypeRequestMessages, NewState: msMsgs},
	}
	return []*protoSpec{
		{
			Name: "local-message-submission (map transcribed)", ID: lms.ProtocolID, Mode: protocol.ProtocolModeNodeToClient,
			Initial: lmsIdle, FromCbor: lms.NewMsgFromCbor,
			Map: protocol.StateMap{
				lmsIdle: {Agency: protocol.AgencyClient, Timeout: 300 * sec, Transitions: []protocol.StateTransition{
					{MsgType: lms.MessageTypeSubmitMessage, NewState: lmsBusy}, {MsgType: lms.MessageTypeDone, NewState: lmsDone}}},
				lmsBusy: {Agency: protocol.AgencyServer, Timeout: 30 * sec, Transitions: []protocol.StateTransition{
					{MsgType: lms.MessageTypeAcceptMessage, NewState: lmsIdle}, {MsgType: lms.MessageTypeRejectMessage, NewState: lmsIdle}}},
				lmsDone: {Agency: protocol.AgencyNone},
			},
			Kinds: []msgKind{
				{"SubmitMessage", lms.MessageTypeSubmitMessage, func(t uint64) []byte { return enc(lms.NewMsgSubmitMessage(dmqMsg(t))) }},
				{"AcceptMessage", lms.MessageTypeAcceptMessage, func(uint64) []byte { return enc(lms.NewMsgAcceptMessage()) }},
				{"RejectMessage", lms.MessageTypeRejectMessage, func(t uint64) []byte {
					m, err := lms.NewMsgRejectMessage(pcommon.ExpiredReason{})
					if err != nil {
						panic(err)
					}
					return enc(m)
				}},
				{"Done", lms.MessageTypeDone, func(uint64) []byte { return enc(lms.NewMsgDone()) }},
			},
		},
		{
			Name: "local-message-notification (map transcribed)", ID: lmn.ProtocolID, Mode: protocol.ProtocolModeNodeToClient,
			Initial: lmnIdle, FromCbor: lmn.NewMsgFromCbor,
			Map: protocol.StateMap{
				lmnIdle: {Agency: protocol.AgencyClient, Timeout: 300 * sec, Transitions: []protocol.StateTransition{
					{MsgType: lmn.MessageTypeRequestMessages, NewState: lmnNB, MatchFunc: blockingReq(false)},
					{MsgType: lmn.MessageTypeRequestMessages, NewState: lmnB, MatchFunc: blockingReq(true)},
					{MsgType: lmn.MessageTypeClientDone, NewState: lmnDone}}},
				lmnNB: {Agency: protocol.AgencyServer, Transitions: []protocol.StateTransition{
					{MsgType: lmn.MessageTypeReplyMessagesNonBlocking, NewState: lmnIdle}}},
				lmnB: {Agency: protocol.AgencyServer, Transitions: []protocol.StateTransition{
					{MsgType: lmn.MessageTypeReplyMessagesBlocking, NewState: lmnIdle}}},
				lmnDone: {Agency: protocol.AgencyNone},
			},
			Kinds: []msgKind{
				{"RequestMessages/blocking", lmn.MessageTypeRequestMessages, func(uint64) []byte { return enc(lmn.NewMsgRequestMessages(true)) }},
				{"RequestMessages/nonblocking", lmn.MessageTypeRequestMessages, func(uint64) []byte { return enc(lmn.NewMsgRequestMessages(false)) }},
				{"ReplyMessagesNonBlocking", lmn.MessageTypeReplyMessagesNonBlocking, func(t uint64) []byte {
					return enc(lmn.NewMsgReplyMessagesNonBlocking([]pcommon.DmqMessage{dmqMsg(t)}, t%2 == 0))
				}},
				{"ReplyMessagesBlocking", lmn.MessageTypeReplyMessagesBlocking, func(t uint64) []byte {
					return enc(lmn.NewMsgReplyMessagesBlocking([]pcommon.DmqMessage{dmqMsg(t)}))
				}},
				{"ClientDone", lmn.MessageTypeClientDone, func(uint64) []byte { return enc(lmn.NewMsgClientDone()) }},
			},
		},
		{
			Name: "message-submission/v1 (map transcribed)", ID: ms.ProtocolID, Mode: protocol.ProtocolModeNodeToNode,
			Initial: msInit, FromCbor: ms.NewMsgFromCbor, Kinds: msKinds,
			Map: protocol.StateMap{
				msInit: {Agency: protocol.AgencyClient, Timeout: 30 * sec, Transitions: []protocol.StateTransition{{MsgType: ms.MessageTypeInit, NewState: msIdle}}},
				msIdle: {Agency: protocol.AgencyServer, Timeout: 300 * sec, Transitions: msIdleEdges},
				msIdsB: {Agency: protocol.AgencyClient, Timeout: 30 * sec, Transitions: []protocol.StateTransition{
					{MsgType: ms.MessageTypeReplyMessageIds, NewState: msIdle}, {MsgType: ms.MessageTypeDone, NewState: msDone}}},
				msIdsNB: {Agency: protocol.AgencyClient, Transitions: []protocol.StateTransition{{MsgType: ms.MessageTypeReplyMessageIds, NewState: msIdle}}},
				msMsgs:  {Agency: protocol.AgencyClient, Timeout: 30 * sec, Transitions: []protocol.StateTransition{{MsgType: ms.MessageTypeReplyMessages, NewState: msIdle}}},
				msDone:  {Agency: protocol.AgencyNone},
			},
		},
		{
			Name: "message-submission/v2 (map transcribed)", ID: ms.ProtocolID, Mode: protocol.ProtocolModeNodeToNode,
			Initial: msIdle, FromCbor: ms.NewMsgFromCbor, Kinds: msKinds,
			Map: protocol.StateMap{
				msIdle: {Agency: protocol.AgencyServer, Timeout: 300 * sec, Transitions: append(append([]protocol.StateTransition(nil), msIdleEdges...),
					protocol.StateTransition{MsgType: ms.MessageTypeDone, NewState: msDone})},
				msIdsB:  {Agency: protocol.AgencyClient, Timeout: 30 * sec, Transitions: []protocol.StateTransition{{MsgType: ms.MessageTypeReplyMessageIds, NewState: msIdle}}},
				msIdsNB: {Agency: protocol.AgencyClient, Transitions: []protocol.StateTransition{{MsgType: ms.MessageTypeReplyMessageIds, NewState: msIdle}}},
				msMsgs:  {Agency: protocol.AgencyClient, Timeout: 30 * sec, Transitions: []protocol.StateTransition{{MsgType: ms.MessageTypeReplyMessages, NewState: msIdle}}},
				msDone:  {Agency: protocol.AgencyNone},
			},
		},
	}
}

func init() { allSpecs = append(allSpecs, dmqSpecs()...) }
