package values

import (
	"bytes"
	"fmt"
	"math/big"
	"runtime"
	"sort"
	"strings"
	"testing"

	"github.com/blinklabs-io/gouroboros/cbor"
	"github.com/blinklabs-io/gouroboros/ledger/common"
	"pgregory.net/rapid"

	"verif/harness/internal/evi"
	"verif/harness/internal/xcbor"
)

// ---- generated multi-asset specs and the reference model ---------------------

type maEntry struct {
	policy int // index into maPolicies
	name   int // index into maNames
	qty    *big.Int
}

// a spec is an ordered list of entries (order = insertion order; later entries
// for the same key are not generated, keys are unique per spec)
type maSpec []maEntry

var maPolicies = func() [][28]byte {
	out := make([][28]byte, 4)
	for i := range out {
		for j := range out[i] {
			out[i][j] = byte(i*37 + j*11 + 1)
		}
	}
	out[1][0] = 0 // a policy whose first byte sorts first
	return out
}()

var maNames = [][]byte{
	{}, {0x00}, {0x7f}, []byte("tok"), []byte("token-b"),
	bytes.Repeat([]byte{0xab}, 32), bytes.Repeat([]byte{0x01}, 24),
}

func bigPow2(n uint) *big.Int { return new(big.Int).Lsh(big.NewInt(1), n) }

func genQty(rt *rapid.T, kind string) *big.Int {
	neg := func(x *big.Int) *big.Int { return new(big.Int).Neg(x) }
	var edges []*big.Int
	switch kind {
	case "big":
		edges = []*big.Int{big.NewInt(0), big.NewInt(1), big.NewInt(-1), big.NewInt(5), big.NewInt(-5),
			bigPow2(63), neg(bigPow2(63)), new(big.Int).Sub(bigPow2(64), big.NewInt(1)), bigPow2(64), neg(bigPow2(64)),
			bigPow2(70), neg(bigPow2(70)), new(big.Int).Sub(bigPow2(63), big.NewInt(1))}
	case "int64":
		edges = []*big.Int{big.NewInt(0), big.NewInt(1), big.NewInt(-1), big.NewInt(7), big.NewInt(-7), big.NewInt(1 << 40), big.NewInt(-(1 << 40))}
	default: // uint64
		edges = []*big.Int{big.NewInt(0), big.NewInt(1), big.NewInt(7), big.NewInt(1 << 40), new(big.Int).SetUint64(1 << 61)}
	}
	if rapid.IntRange(0, 3).Draw(rt, "qtyUniform") == 0 {
		switch kind {
		case "big":
			v := new(big.Int).SetBytes(rapid.SliceOfN(rapid.Byte(), 1, 10).Draw(rt, "qtyBytes"))
			if rapid.Bool().Draw(rt, "qtyNeg") {
				v.Neg(v)
			}
			return v
		case "int64":
			return big.NewInt(rapid.Int64Range(-(1<<60), 1<<60).Draw(rt, "qtyI"))
		default:
			return new(big.Int).SetUint64(rapid.Uint64Range(0, 1<<61).Draw(rt, "qtyU"))
		}
	}
	return new(big.Int).Set(edges[rapid.IntRange(0, len(edges)-1).Draw(rt, "qtyEdge")])
}

func genSpec(rt *rapid.T, kind string, label string) maSpec {
	n := rapid.IntRange(0, 6).Draw(rt, label+"N")
	seen := map[[2]int]bool{}
	var s maSpec
	for i := 0; i < n; i++ {
		e := maEntry{policy: rapid.IntRange(0, len(maPolicies)-1).Draw(rt, label+"P"), name: rapid.IntRange(0, len(maNames)-1).Draw(rt, label+"A")}
		if seen[[2]int{e.policy, e.name}] {
			continue
		}
		seen[[2]int{e.policy, e.name}] = true
		e.qty = genQty(rt, kind)
		s = append(s, e)
	}
	return s
}

type refMA map[string]*big.Int // key policy|name, zeros never stored

func refKey(p, n int) string { return fmt.Sprintf("%d|%d", p, n) }

func (s maSpec) ref() refMA {
	r := refMA{}
	for _, e := range s {
		if e.qty.Sign() != 0 {
			r[refKey(e.policy, e.name)] = new(big.Int).Set(e.qty)
		}
	}
	return r
}

func (r refMA) add(o refMA) refMA {
	out := refMA{}
	for k, v := range r {
		out[k] = new(big.Int).Set(v)
	}
	for k, v := range o {
		if cur, ok := out[k]; ok {
			cur.Add(cur, v)
			if cur.Sign() == 0 {
				delete(out, k)
			}
		} else {
			out[k] = new(big.Int).Set(v)
		}
	}
	return out
}

func (r refMA) equal(o refMA) bool {
	if len(r) != len(o) {
		return false
	}
	for k, v := range r {
		if w, ok := o[k]; !ok || v.Cmp(w) != 0 {
			return false
		}
	}
	return true
}

func (r refMA) String() string {
	ks := make([]string, 0, len(r))
	for k, v := range r {
		ks = append(ks, k+"="+v.String())
	}
	sort.Strings(ks)
	return "{" + strings.Join(ks, ",") + "}"
}

func (s maSpec) String() string {
	var ps []string
	for _, e := range s {
		ps = append(ps, fmt.Sprintf("p%d.n%d=%s", e.policy, e.name, e.qty))
	}
	return "[" + strings.Join(ps, " ") + "]"
}

// ---- building library values --------------------------------------------------

type maNum interface{ int64 | uint64 | *big.Int }

func toT[T maNum](q *big.Int) T {
	var z T
	switch any(z).(type) {
	case *big.Int:
		return any(new(big.Int).Set(q)).(T)
	case int64:
		return any(q.Int64()).(T)
	default:
		return any(q.Uint64()).(T)
	}
}

func fromT[T maNum](v T) *big.Int {
	switch x := any(v).(type) {
	case *big.Int:
		if x == nil {
			return new(big.Int)
		}
		return new(big.Int).Set(x)
	case int64:
		return big.NewInt(x)
	case uint64:
		return new(big.Int).SetUint64(x)
	}
	return nil
}

// buildNew builds the value with NewMultiAsset, inserting in spec order (or reversed).
func buildNew[T maNum](s maSpec, reversed bool) *common.MultiAsset[T] {
	data := map[common.Blake2b224]map[cbor.ByteString]T{}
	idx := make([]int, len(s))
	for i := range idx {
		idx[i] = i
		if reversed {
			idx[i] = len(s) - 1 - i
		}
	}
	for _, i := range idx {
		e := s[i]
		p := common.Blake2b224(maPolicies[e.policy])
		if data[p] == nil {
			data[p] = map[cbor.ByteString]T{}
		}
		data[p][cbor.NewByteString(maNames[e.name])] = toT[T](e.qty)
	}
	m := common.NewMultiAsset[T](data)
	return &m
}

// encodeSpec is the harness's own CBOR encoding of a spec: map policy -> map name -> qty,
// in spec order (not sorted), optionally with indefinite maps and bignum tags.
func encodeSpec(s maSpec, indef, tagged bool) []byte {
	top := xcbor.M()
	pos := map[int]*xcbor.Node{}
	for _, e := range s {
		inner, ok := pos[e.policy]
		if !ok {
			inner = xcbor.M()
			pos[e.policy] = inner
			top.Items = append(top.Items, xcbor.B(maPolicies[e.policy][:]), inner)
		}
		q := xcbor.Big(e.qty)
		if tagged {
			q = xcbor.BigTagged(e.qty)
		}
		inner.Items = append(inner.Items, xcbor.B(maNames[e.name]), q)
	}
	fix := func(n *xcbor.Node) {
		n.Width = 0
		if len(n.Items)/2 >= 24 {
			n.Width = 1
		}
		n.Indef = indef
	}
	fix(top)
	for _, in := range pos {
		fix(in)
	}
	return top.Encode()
}

func buildDecoded[T maNum](s maSpec, indef, tagged bool) (*common.MultiAsset[T], []byte, error) {
	enc := encodeSpec(s, indef, tagged)
	var m common.MultiAsset[T]
	if _, err := cbor.Decode(enc, &m); err != nil {
		return nil, enc, err
	}
	return &m, enc, nil
}

// observe reads a library value back into the reference representation through
// its public accessors, and reports any zero entry that is exposed.
func observe[T maNum](m *common.MultiAsset[T]) (refMA, []string) {
	out := refMA{}
	var zeros []string
	for _, p := range m.Policies() {
		pi := -1
		for i := range maPolicies {
			if bytes.Equal(p.Bytes(), maPolicies[i][:]) {
				pi = i
			}
		}
		for _, n := range m.Assets(p) {
			ni := -1
			for i := range maNames {
				if bytes.Equal(n, maNames[i]) {
					ni = i
				}
			}
			q := fromT(m.Asset(p, n))
			if q.Sign() == 0 {
				zeros = append(zeros, fmt.Sprintf("p%d.n%d", pi, ni))
				continue
			}
			out[refKey(pi, ni)] = q
		}
	}
	return out, zeros
}

func runMultiAsset[T maNum](rt *rapid.T, rec *evi.Recorder, kind string) {
	a, b, c := genSpec(rt, kind, "a"), genSpec(rt, kind, "b"), genSpec(rt, kind, "c")
	// make equal-but-differently-represented operands likely
	switch rapid.IntRange(0, 4).Draw(rt, "relate") {
	case 0: // b = a plus explicit zero entries, in reverse order
		b = nil
		for i := len(a) - 1; i >= 0; i-- {
			b = append(b, a[i])
		}
		for p := 0; p < len(maPolicies); p++ {
			k := [2]int{p, 0}
			dup := false
			for _, e := range a {
				if e.policy == k[0] && e.name == k[1] {
					dup = true
				}
			}
			if !dup && rapid.Bool().Draw(rt, "zeroPad") {
				b = append(b, maEntry{p, 0, new(big.Int)})
			}
		}
	case 2: // b cancels a random subset of a so that a+b hits zero on those keys
		if kind != "uint64" {
			b = nil
			for _, e := range a {
				if rapid.Bool().Draw(rt, "cancel") {
					b = append(b, maEntry{e.policy, e.name, new(big.Int).Neg(e.qty)})
				} else {
					b = append(b, maEntry{e.policy, e.name, genQty(rt, kind)})
				}
			}
		}
	case 1: // c = -b on the shared keys so sums hit zero
		c = nil
		for _, e := range b {
			if kind == "uint64" {
				break
			}
			c = append(c, maEntry{e.policy, e.name, new(big.Int).Neg(e.qty)})
		}
	}
	ra, rb, rc := a.ref(), b.ref(), c.ref()
	cs := map[string]any{"kind": kind, "a": a.String(), "b": b.String(), "c": c.String()}
	fail := func(key, what string) { rec.Fail(rt, "C06:"+kind+":"+key, what, cs) }
	mk := func(s maSpec) *common.MultiAsset[T] { return buildNew[T](s, false) }

	shared, zeroSum := 0, 0
	for k, v := range ra {
		if w, ok := rb[k]; ok {
			shared++
			if new(big.Int).Add(v, w).Sign() == 0 {
				zeroSum++
			}
		}
	}
	if shared > 0 {
		rec.Class("operands_share_key")
	}
	if zeroSum > 0 {
		rec.Class("sum_hits_zero")
	}
	if shared > 0 || len(a) != len(ra) || len(b) != len(rb) {
		rec.NonTrivial(fmt.Sprintf("%s a=%s b=%s c=%s", kind, a, b, c), cs)
	}

	// -- equality -------------------------------------------------------------
	A, B, C := mk(a), mk(b), mk(c)
	rec.Eval()
	if !A.Compare(mk(a)) || !A.Compare(buildNew[T](a, true)) {
		fail("compare-not-reflexive", "Compare(a, a) is false")
	}
	if got, want := A.Compare(B), ra.equal(rb); got != want {
		fail("compare-vs-reference", fmt.Sprintf("Compare(a,b)=%v but reference equality of non-zero quantities is %v (a=%s b=%s)", got, want, ra, rb))
	}
	if A.Compare(B) != B.Compare(A) {
		fail("compare-not-symmetric", fmt.Sprintf("Compare(a,b)=%v, Compare(b,a)=%v", A.Compare(B), B.Compare(A)))
	}
	if A.Compare(B) && B.Compare(C) && !A.Compare(C) {
		fail("compare-not-transitive", "a=b and b=c but not a=c")
	}
	if oa, _ := observe(A); !oa.equal(ra) {
		fail("accessors-vs-reference", fmt.Sprintf("Policies/Assets/Asset expose %s, reference %s", oa, ra))
	}

	// -- addition -------------------------------------------------------------
	overflow := false
	if kind != "big" { // stay inside the machine type, as every ledger caller does
		lim := bigPow2(62)
		for _, r := range []refMA{ra.add(rb), ra.add(rb).add(rc), rb.add(rc)} {
			for _, v := range r {
				if v.CmpAbs(lim) > 0 || (kind == "uint64" && v.Sign() < 0) {
					overflow = true
				}
			}
		}
	}
	if !overflow {
		rec.Eval()
		ab := mk(a)
		bOperand := mk(b)
		ab.Add(bOperand)
		if ob, _ := observe(bOperand); !ob.equal(rb) {
			fail("add-mutates-operand", fmt.Sprintf("after a.Add(b) the operand b reads %s, was %s", ob, rb))
		}
		oab, _ := observe(ab)
		if want := ra.add(rb); !oab.equal(want) {
			fail("add-vs-reference", fmt.Sprintf("a+b reads %s, per-asset integer addition gives %s", oab, want))
		}
		ba := mk(b)
		ba.Add(mk(a))
		if !ab.Compare(ba) || !ba.Compare(ab) {
			fail("add-not-commutative", fmt.Sprintf("a+b=%s and b+a=%s compare unequal", ab.String(), ba.String()))
		}
		// (a+b)+c vs a+(b+c)
		l := mk(a)
		l.Add(mk(b))
		l.Add(mk(c))
		bc := mk(b)
		bc.Add(mk(c))
		r := mk(a)
		r.Add(bc)
		if !l.Compare(r) || !r.Compare(l) {
			fail("add-not-associative", fmt.Sprintf("(a+b)+c=%s, a+(b+c)=%s", l.String(), r.String()))
		}
		if ol, _ := observe(l); !ol.equal(ra.add(rb).add(rc)) {
			fail("add3-vs-reference", fmt.Sprintf("(a+b)+c reads %s want %s", ol, ra.add(rb).add(rc)))
		}
		// operands that are REUSED across several additions: x = a; x += B0; x += C0.
		// B0 and C0 must read the same afterwards (no aliasing of their quantities
		// into x), and a second sum built from the same operand objects must be right.
		B0, C0 := mk(b), mk(c)
		x := mk(a)
		x.Add(B0)
		x.Add(C0)
		if ob, _ := observe(B0); !ob.equal(rb) {
			fail("add-mutates-operand:reused", fmt.Sprintf("after x=a; x.Add(b); x.Add(c) the operand b reads %s, was %s", ob, rb))
		}
		if oc, _ := observe(C0); !oc.equal(rc) {
			fail("add-mutates-operand:reused", fmt.Sprintf("after x=a; x.Add(b); x.Add(c) the operand c reads %s, was %s", oc, rc))
		}
		if ox, _ := observe(x); !ox.equal(ra.add(rb).add(rc)) {
			fail("add3-vs-reference:reused", fmt.Sprintf("a+b+c with reused operands reads %s want %s", ox, ra.add(rb).add(rc)))
		}
		y := mk(nil)
		y.Add(B0)
		y.Add(B0)
		if oy, _ := observe(y); !oy.equal(rb.add(rb)) {
			fail("add-vs-reference:reused", fmt.Sprintf("0+b+b (same operand object twice) reads %s want %s", oy, rb.add(rb)))
		}
		if ob, _ := observe(B0); !ob.equal(rb) {
			fail("add-mutates-operand:reused", fmt.Sprintf("after y=0; y.Add(b); y.Add(b) the operand b reads %s, was %s", ob, rb))
		}
		x.Add(C0)
		if ob, _ := observe(B0); !ob.equal(rb) {
			fail("add-mutates-operand:reused", fmt.Sprintf("a later Add into x changed operand b to %s, was %s", ob, rb))
		}
		// adding nil / empty is the identity
		id := mk(a)
		id.Add(nil)
		id.Add(mk(nil))
		if !id.Compare(A) {
			fail("add-identity", "a + empty != a")
		}
		// a sum that has hit zero must still compare equal to the value without that key and
		// encode to something that decodes equal
		if zeroSum > 0 {
			enc, err := cbor.Encode(ab)
			if err != nil {
				fail("encode-after-add", err.Error())
			} else {
				var back common.MultiAsset[T]
				if _, err := cbor.Decode(enc, &back); err != nil {
					fail("decode-after-add", fmt.Sprintf("encoding of a+b (%x) does not decode: %v", enc, err))
				} else {
					if !back.Compare(ab) {
						fail("decode-after-add", "decode(encode(a+b)) != a+b")
					}
					if _, z := observe(&back); len(z) > 0 {
						fail("decoded-exposes-zero", fmt.Sprintf("decode(encode(a+b)) exposes zero entries %v", z))
					}
				}
			}
		}
	}

	// -- encoding -------------------------------------------------------------
	rec.Eval()
	enc1, err1 := cbor.Encode(mk(a))
	enc2, err2 := cbor.Encode(buildNew[T](a, true))
	if err1 != nil || err2 != nil {
		fail("encode-error", fmt.Sprintf("%v %v", err1, err2))
		return
	}
	if !bytes.Equal(enc1, enc2) {
		fail("encoding-depends-on-insertion-order", fmt.Sprintf("%x vs %x", enc1, enc2))
	}
	tree, err := xcbor.ParseExact(enc1)
	if err != nil || tree.Kind != xcbor.Map {
		fail("encoding-not-a-map", fmt.Sprintf("%x: %v", enc1, err))
		return
	}
	sortedKeys := func(m *xcbor.Node) bool {
		for i := 2; i < len(m.Items); i += 2 {
			if bytes.Compare(m.Items[i-2].Encode(), m.Items[i].Encode()) >= 0 {
				return false
			}
		}
		return true
	}
	if !tree.IsCanonicalForm() || !sortedKeys(tree) {
		fail("encoding-not-canonical", fmt.Sprintf("policy keys not in strictly ascending bytewise order / non-minimal heads: %x", enc1))
	}
	for i := 1; i < len(tree.Items); i += 2 {
		if tree.Items[i].Kind != xcbor.Map || !sortedKeys(tree.Items[i]) {
			fail("encoding-not-canonical", fmt.Sprintf("asset names not in strictly ascending bytewise order: %x", enc1))
		}
	}
	var back common.MultiAsset[T]
	if _, err := cbor.Decode(enc1, &back); err != nil {
		fail("decode-own-encoding", fmt.Sprintf("%x: %v", enc1, err))
	} else {
		if !back.Compare(A) || !A.Compare(&back) {
			fail("decode-encode-roundtrip", fmt.Sprintf("decode(encode(a)) = %s, a = %s", back.String(), A.String()))
		}
		ob, z := observe(&back)
		if len(z) > 0 {
			fail("decoded-exposes-zero", fmt.Sprintf("decode(encode(a)) exposes zero entries %v", z))
		}
		if !ob.equal(ra) {
			fail("decode-encode-roundtrip", fmt.Sprintf("decode(encode(a)) reads %s want %s", ob, ra))
		}
	}

	// -- decoding the harness's own (unsorted / indefinite / bignum-tagged) encoding ----
	rec.Eval()
	indef := rapid.Bool().Draw(rt, "indef")
	tagged := kind == "big" && rapid.Bool().Draw(rt, "tagged")
	if indef {
		rec.Class("decode_indefinite_maps")
	}
	if tagged {
		rec.Class("decode_bignum_tags")
	}
	dec, henc, err := buildDecoded[T](a, indef, tagged)
	if err != nil {
		rec.Class("harness_encoding_rejected")
		return
	}
	od, z := observe(dec)
	if len(z) > 0 {
		fail("decoded-exposes-zero", fmt.Sprintf("decode(%x) exposes zero entries %v", henc, z))
	}
	if !od.equal(ra) {
		fail("decode-vs-reference", fmt.Sprintf("decode(%x) reads %s, encoded value is %s", henc, od, ra))
	}
	if !dec.Compare(A) || !A.Compare(dec) {
		fail("decode-vs-constructed", fmt.Sprintf("decode(%x) does not compare equal to the constructed value %s", henc, A.String()))
	}

	// -- decoded values inside the algebra ------------------------------------------
	// A decoded value is "an equal value": it must behave like the constructed one as
	// the receiver and as the operand of Add (also when pruning left nothing).
	if !overflow {
		rec.Eval()
		if len(ra) == 0 {
			rec.Class("decoded_empty_in_add")
		}
		safely := func(key, what string, f func()) {
			defer func() {
				if r := recover(); r != nil {
					if _, isRuntime := r.(runtime.Error); !isRuntime {
						panic(r) // a failure already reported through rapid, not a library panic
					}
					fail(key+":panic", fmt.Sprintf("%s panicked: %v", what, r))
				}
			}()
			f()
		}
		decodedCopies := func() []*common.MultiAsset[T] {
			var out []*common.MultiAsset[T]
			d1 := new(common.MultiAsset[T])
			if _, err := cbor.Decode(enc1, d1); err == nil {
				out = append(out, d1)
			}
			if d2, _, err := buildDecoded[T](a, indef, tagged); err == nil {
				out = append(out, d2)
			}
			return out
		}
		for i, d := range decodedCopies() {
			src := []string{"decode(encode(a))", "decode(harness encoding of a)"}[i]
			safely("decoded-receiver-add", src+".Add(b)", func() {
				d.Add(mk(b))
				if od, _ := observe(d); !od.equal(ra.add(rb)) {
					fail("decoded-receiver-add-vs-reference", fmt.Sprintf("%s then Add(b) reads %s, per-asset integer addition gives %s", src, od, ra.add(rb)))
				}
				d.Add(mk(c))
				if od, _ := observe(d); !od.equal(ra.add(rb).add(rc)) {
					fail("decoded-receiver-add-vs-reference", fmt.Sprintf("%s then Add(b), Add(c) reads %s want %s", src, od, ra.add(rb).add(rc)))
				}
			})
		}
		// decoding INTO a value that already holds something: the result is the decoded
		// value, nothing of the receiver's earlier content survives
		safely("decode-into-used-receiver", "UnmarshalCBOR(encode(a)) into a value holding b", func() {
			for i, recv := range []*common.MultiAsset[T]{mk(b), mk(c)} {
				if i == 1 {
					// a receiver that itself came from a decode and an Add
					if encC, err := cbor.Encode(mk(c)); err == nil {
						recv = new(common.MultiAsset[T])
						if _, err := cbor.Decode(encC, recv); err != nil {
							continue
						}
						recv.Add(mk(b))
					}
				}
				if _, err := cbor.Decode(enc1, recv); err != nil {
					fail("decode-into-used-receiver", fmt.Sprintf("decoding %x into a used receiver fails: %v", enc1, err))
					continue
				}
				or, z := observe(recv)
				if !or.equal(ra) || !recv.Compare(A) || !A.Compare(recv) {
					fail("decode-into-used-receiver", fmt.Sprintf("decoding encode(a)=%x into a value that already held other assets reads %s, the encoded value is %s", enc1, or, ra))
				}
				if len(z) > 0 {
					fail("decoded-exposes-zero", fmt.Sprintf("decode into a used receiver exposes zero entries %v", z))
				}
				// same bytes as a fresh receiver re-encodes to (zeros pruned either way)
				fresh := new(common.MultiAsset[T])
				if _, err := cbor.Decode(enc1, fresh); err == nil {
					want, _ := cbor.Encode(fresh)
					if re, err := cbor.Encode(recv); err != nil || !bytes.Equal(re, want) {
						fail("decode-into-used-receiver", fmt.Sprintf("re-encoding after decoding %x into a used receiver gives %x (err %v), after decoding into a fresh one %x", enc1, re, err, want))
					}
				}
			}
		})
		for i, d := range decodedCopies() {
			src := []string{"decode(encode(a))", "decode(harness encoding of a)"}[i]
			safely("decoded-operand-add", "b.Add("+src+")", func() {
				x := mk(b)
				x.Add(d)
				x.Add(d)
				if ox, _ := observe(x); !ox.equal(rb.add(ra).add(ra)) {
					fail("decoded-operand-add-vs-reference", fmt.Sprintf("b + %s twice reads %s want %s", src, ox, rb.add(ra).add(ra)))
				}
				if od, _ := observe(d); !od.equal(ra) {
					fail("add-mutates-operand:decoded", fmt.Sprintf("after b.Add(%s) the decoded operand reads %s, was %s", src, od, ra))
				}
				y := mk(nil)
				y.Add(d)
				if !y.Compare(A) || !A.Compare(y) {
					fail("decoded-operand-add-vs-reference", fmt.Sprintf("empty + %s does not compare equal to a", src))
				}
			})
		}
	}
}

func TestC06(t *testing.T) {
	rec := evi.New(t, "C06", evi.Exploration,
		"triples (a,b,c) of multi-asset values over a shared universe of 4 policies x 7 asset names (empty, 1-byte, 24-byte, 32-byte names) so operands collide; quantities from {0,+-1,+-5,+-2^63,2^63-1,2^64-1,+-2^64,+-2^70} or uniform up to 80 bits for *big.Int, in-range values for int64/uint64; b is frequently a reordered copy of a padded with explicit zero entries and c frequently -b; values are built through NewMultiAsset (two insertion orders) and by decoding the harness's own unsorted / indefinite-length / bignum-tagged CBOR. Oracle = reference map (policy,name)->big integer with zeros dropped: Compare vs reference equality, reflexive/symmetric/transitive, Add commutative/associative/identity/no operand mutation/equal to per-asset integer addition, accessors, deterministic canonical encoding (strictly ascending bytewise keys, minimal heads) independent of insertion order, decode(encode(x)) equal to x with no zero entry exposed, and decoded values (also those where pruning left nothing) used as receiver and as operand of Add agree with the reference; decoding into a value that already holds other assets yields exactly the decoded value. non-trivial = operands share a key or a spec contains an explicit zero; distinct by the three specs")
	defer rec.Finish()
	rec.Assume("for the int64/uint64 instantiations sums stay inside +-2^62 (the ledger only instantiates *big.Int; machine-type overflow is outside the statement)")
	rec.Check(func(rt *rapid.T) {
		switch rapid.IntRange(0, 4).Draw(rt, "instantiation") {
		case 0:
			rec.Class("T=int64")
			runMultiAsset[int64](rt, rec, "int64")
		case 1:
			rec.Class("T=uint64")
			runMultiAsset[uint64](rt, rec, "uint64")
		default:
			rec.Class("T=big.Int")
			runMultiAsset[*big.Int](rt, rec, "big")
		}
	})
}
