package values

import (
	"bytes"
	"fmt"
	"hash/crc32"
	"math/big"
	"strings"
	"testing"

	"github.com/blinklabs-io/gouroboros/cbor"
	"github.com/blinklabs-io/gouroboros/ledger/common"
	"pgregory.net/rapid"

	"verif/harness/internal/evi"
	"verif/harness/internal/xcbor"
)

// ---- independent bech32 (BIP-173) and base58 ------------------------------------

const b32charset = "qpzry9x8gf2tvdw0s3jn54khce6mua7l"

func b32polymod(values []byte) uint32 {
	gen := [5]uint32{0x3b6a57b2, 0x26508e6d, 0x1ea119fa, 0x3d4233dd, 0x2a1462b3}
	chk := uint32(1)
	for _, v := range values {
		b := chk >> 25
		chk = (chk&0x1ffffff)<<5 ^ uint32(v)
		for i := 0; i < 5; i++ {
			if (b>>uint(i))&1 == 1 {
				chk ^= gen[i]
			}
		}
	}
	return chk
}

func b32hrpExpand(hrp string) []byte {
	out := make([]byte, 0, len(hrp)*2+1)
	for _, c := range hrp {
		out = append(out, byte(c)>>5)
	}
	out = append(out, 0)
	for _, c := range hrp {
		out = append(out, byte(c)&31)
	}
	return out
}

func refBech32(hrp string, data []byte) string {
	// 8 -> 5 bit regrouping with padding
	var five []byte
	acc, bits := uint32(0), uint(0)
	for _, b := range data {
		acc = acc<<8 | uint32(b)
		bits += 8
		for bits >= 5 {
			bits -= 5
			five = append(five, byte(acc>>bits)&31)
		}
	}
	if bits > 0 {
		five = append(five, byte(acc<<(5-bits))&31)
	}
	values := append(b32hrpExpand(hrp), five...)
	values = append(values, 0, 0, 0, 0, 0, 0)
	mod := b32polymod(values) ^ 1
	var sb strings.Builder
	sb.WriteString(hrp)
	sb.WriteByte('1')
	for _, v := range five {
		sb.WriteByte(b32charset[v])
	}
	for i := 0; i < 6; i++ {
		sb.WriteByte(b32charset[(mod>>uint(5*(5-i)))&31])
	}
	return sb.String()
}

const b58alphabet = "123456789ABCDEFGHJKLMNPQRSTUVWXYZabcdefghijkmnopqrstuvwxyz"

func refBase58(b []byte) string {
	x := new(big.Int).SetBytes(b)
	base := big.NewInt(58)
	mod := new(big.Int)
	var out []byte
	for x.Sign() > 0 {
		x.DivMod(x, base, mod)
		out = append(out, b58alphabet[mod.Int64()])
	}
	for _, c := range b {
		if c != 0 {
			break
		}
		out = append(out, b58alphabet[0])
	}
	for i, j := 0, len(out)-1; i < j; i, j = i+1, j-1 {
		out[i], out[j] = out[j], out[i]
	}
	return string(out)
}

// minimal base-128 big-endian varint as used by pointer addresses
func refVarint(v uint64) []byte {
	var tmp []byte
	tmp = append(tmp, byte(v&0x7f))
	v >>= 7
	for v > 0 {
		tmp = append(tmp, byte(v&0x7f)|0x80)
		v >>= 7
	}
	for i, j := 0, len(tmp)-1; i < j; i, j = i+1, j-1 {
		tmp[i], tmp[j] = tmp[j], tmp[i]
	}
	return tmp
}

// the mainnet malformed-trailer allow-list documented in ledger/common/address.go
// (copied: stated assumption of the oracle)
var knownTrailers = [][]byte{
	{203, 87, 175, 176, 179, 95, 200, 156, 99, 6, 28, 153, 20, 224, 85, 0, 26, 81, 140, 117, 22},
	{19, 213, 244, 163, 254, 4, 120, 178, 36, 30, 1, 104, 227, 203, 165, 0, 26, 34, 193, 90, 17},
	{0},
	{106, 51, 48, 102, 53, 97, 109, 107, 119, 104, 119, 113, 97, 52, 119, 118, 102, 121, 106, 100, 101, 122, 121, 97, 101, 108, 109, 110, 110, 103, 100, 54, 100, 52, 101},
	{53, 97, 99, 121, 50, 114, 48, 101, 107, 114, 112, 113, 122, 113, 106, 108, 113, 100, 107, 56, 108, 122, 113, 110, 53, 114, 52, 53, 110},
	{6, 29, 7, 12, 13, 4, 27, 7, 2, 15, 11, 13, 11, 15, 2, 9, 18, 5, 29, 28, 16, 9, 17, 4, 14, 31, 7, 19, 17, 3, 1, 0, 11, 16, 22, 0},
	{18, 110, 119, 53, 51, 53, 103, 54, 118, 115, 112, 55, 120, 55, 102, 104, 120, 112, 113, 50, 112, 116, 115, 104, 57, 103, 107, 114},
	{44},
}

func isKnownTrailer(b []byte) bool {
	for _, k := range knownTrailers {
		if bytes.Equal(k, b) {
			return true
		}
	}
	return false
}

var shelleyTypes = []uint8{0, 1, 2, 3, 4, 5, 6, 7, 14, 15}

type shelleyAddr struct {
	typ, net   uint8
	pay, stake []byte // 28-byte hashes (nil when absent)
	ptr        *[3]uint64
	raw        []byte
}

func genVarVal(rt *rapid.T, label string) uint64 {
	edges := []uint64{0, 1, 127, 128, 16383, 16384, 1 << 32, 1 << 63, ^uint64(0)}
	if rapid.IntRange(0, 2).Draw(rt, label+"Edge") == 0 {
		return edges[rapid.IntRange(0, len(edges)-1).Draw(rt, label+"EdgeIdx")]
	}
	return rapid.Uint64().Draw(rt, label)
}

func genShelley(rt *rapid.T) shelleyAddr {
	a := shelleyAddr{
		typ: shelleyTypes[rapid.IntRange(0, len(shelleyTypes)-1).Draw(rt, "type")],
		net: uint8(rapid.IntRange(0, 1).Draw(rt, "net")),
	}
	h := func(l string) []byte {
		// special hash values by construction: sentinel-looking hashes are ordinary hashes
		switch rapid.IntRange(0, 11).Draw(rt, l+"Kind") {
		case 0:
			return make([]byte, 28)
		case 1:
			return bytes.Repeat([]byte{0xff}, 28)
		case 2:
			b := make([]byte, 28)
			b[rapid.IntRange(0, 27).Draw(rt, l+"One")] = byte(1 << rapid.IntRange(0, 7).Draw(rt, l+"Bit"))
			return b
		}
		return rapid.SliceOfN(rapid.Byte(), 28, 28).Draw(rt, l)
	}
	a.raw = []byte{a.typ<<4 | a.net}
	if a.typ < 8 {
		a.pay = h("pay")
		a.raw = append(a.raw, a.pay...)
	}
	switch a.typ {
	case 0, 1, 2, 3, 14, 15:
		a.stake = h("stake")
		a.raw = append(a.raw, a.stake...)
	case 4, 5:
		p := [3]uint64{genVarVal(rt, "slot"), genVarVal(rt, "tx"), genVarVal(rt, "cert")}
		a.ptr = &p
		for _, v := range p {
			a.raw = append(a.raw, refVarint(v)...)
		}
	}
	return a
}

func wantHRP(typ, net uint8) string {
	h := "addr"
	if typ == 14 || typ == 15 {
		h = "stake"
	}
	if net != 1 {
		h += "_test"
	}
	return h
}

func TestC05(t *testing.T) {
	rec := evi.New(t, "C05", evi.Exploration,
		"Shelley-family addresses built by construction (type in {0..7,14,15} x network {0,1}, random 28-byte hashes, pointer triples as minimal varints biased to 0,127,128,16383,16384,2^32,2^63,2^64-1) and Byron addresses (type 0..2, random root hash, optional derivation payload and network magic) built both through the library constructors and independently as CBOR; oracles: bytes<->Address<->bech32/base58<->CBOR identities against independent bech32/base58/varint/CRC code, accessor values equal the generated parts, and rejection of every truncation, extension (except the documented mainnet trailer allow-list), unknown type nibble, network id 2..15, foreign HRP, corrupted bech32 char, bad CRC, wrong tag, wrong hash length. non-trivial = an accepted address whose round trips were all checked, or a mutation that had to be rejected; distinct by raw bytes + mutation kind")
	defer rec.Finish()
	rec.Assume("the eight mainnet malformed-trailer sequences hard-coded in ledger/common/address.go are a documented exception and are accepted on mainnet only",
		"non-minimal pointer varints are outside the statement (quantifier says minimal varints)",
		"hash/crc32 (IEEE) from the standard library is trusted")

	rec.Check(func(rt *rapid.T) {
		if rapid.IntRange(0, 3).Draw(rt, "kind") == 0 {
			byronCase(rt, rec)
			return
		}
		a := genShelley(rt)
		cs := map[string]any{"raw": evi.Hex(a.raw), "type": a.typ, "net": a.net}
		fail := func(key, what string) { rec.Fail(rt, key, what, cs) }
		rec.Eval()
		rec.Class(fmt.Sprintf("shelley_type_%d", a.typ))
		addr, err := common.NewAddressFromBytes(a.raw)
		if err != nil {
			fail(fmt.Sprintf("shelley:type=%d:valid-bytes-rejected", a.typ), fmt.Sprintf("NewAddressFromBytes(%x): %v", a.raw, err))
			return
		}
		rec.NonTrivial(fmt.Sprintf("ok %x", a.raw), cs)
		if b, err := addr.Bytes(); err != nil || !bytes.Equal(b, a.raw) {
			fail(fmt.Sprintf("shelley:type=%d:bytes-roundtrip", a.typ), fmt.Sprintf("Bytes() = %x (%v), want %x", b, err, a.raw))
		}
		if addr.Type() != a.typ || addr.NetworkId() != uint(a.net) {
			fail(fmt.Sprintf("shelley:type=%d:type-or-network", a.typ), fmt.Sprintf("Type()=%d NetworkId()=%d, want %d/%d", addr.Type(), addr.NetworkId(), a.typ, a.net))
		}
		var zero [28]byte
		wantPay, wantStake := zero[:], zero[:]
		if a.pay != nil {
			wantPay = a.pay
		}
		if a.stake != nil {
			wantStake = a.stake
		}
		if got := addr.PaymentKeyHash(); !bytes.Equal(got.Bytes(), wantPay) {
			fail(fmt.Sprintf("shelley:type=%d:payment-hash", a.typ), fmt.Sprintf("PaymentKeyHash()=%x want %x", got.Bytes(), wantPay))
		}
		if got := addr.StakeKeyHash(); !bytes.Equal(got.Bytes(), wantStake) {
			fail(fmt.Sprintf("shelley:type=%d:stake-hash", a.typ), fmt.Sprintf("StakeKeyHash()=%x want %x", got.Bytes(), wantStake))
		}
		// payload kinds follow the header nibble bits
		payScript := a.typ < 8 && a.typ&1 == 1
		switch p := addr.PayloadPayload().(type) {
		case common.AddressPayloadKeyHash:
			if a.pay == nil || payScript {
				fail(fmt.Sprintf("shelley:type=%d:payment-kind", a.typ), "payment payload reported as key hash")
			}
		case common.AddressPayloadScriptHash:
			if a.pay == nil || !payScript {
				fail(fmt.Sprintf("shelley:type=%d:payment-kind", a.typ), "payment payload reported as script hash")
			}
		case nil:
			if a.pay != nil {
				fail(fmt.Sprintf("shelley:type=%d:payment-kind", a.typ), "payment payload missing")
			}
		default:
			fail(fmt.Sprintf("shelley:type=%d:payment-kind", a.typ), fmt.Sprintf("payment payload %T", p))
		}
		stakeScript := a.typ == 2 || a.typ == 3 || a.typ == 15
		switch p := addr.StakingPayload().(type) {
		case common.AddressPayloadKeyHash:
			if a.stake == nil || stakeScript {
				fail(fmt.Sprintf("shelley:type=%d:stake-kind", a.typ), "staking payload reported as key hash")
			}
		case common.AddressPayloadScriptHash:
			if a.stake == nil || !stakeScript {
				fail(fmt.Sprintf("shelley:type=%d:stake-kind", a.typ), "staking payload reported as script hash")
			}
		case common.AddressPayloadPointer:
			if a.ptr == nil || p.Slot != a.ptr[0] || p.TxIndex != a.ptr[1] || p.CertIndex != a.ptr[2] {
				fail(fmt.Sprintf("shelley:type=%d:pointer", a.typ), fmt.Sprintf("pointer %+v want %v", p, a.ptr))
			}
		case nil:
			if a.stake != nil || a.ptr != nil {
				fail(fmt.Sprintf("shelley:type=%d:stake-kind", a.typ), "staking payload missing")
			}
		}
		if cred, ok := addr.StakeCredential(); ok != (a.stake != nil) || (ok && !bytes.Equal(cred.Credential.Bytes(), a.stake)) {
			fail(fmt.Sprintf("shelley:type=%d:stake-credential", a.typ), fmt.Sprintf("StakeCredential() = (%x, %v) disagrees with the staking part %x", cred.Credential.Bytes(), ok, a.stake))
		} else if ok {
			// staking part is a script hash for the odd base types 2,3 and for reward type 15
			wantScript := a.typ == 2 || a.typ == 3 || a.typ == 15
			if (cred.CredType == common.CredentialTypeScriptHash) != wantScript {
				fail(fmt.Sprintf("shelley:type=%d:stake-credential-kind", a.typ), fmt.Sprintf("StakeCredential() kind %d, header says script=%v", cred.CredType, wantScript))
			}
		}
		// text form
		hrp := wantHRP(a.typ, a.net)
		wantS := refBech32(hrp, a.raw)
		s := addr.String()
		if s != wantS {
			fail(fmt.Sprintf("shelley:type=%d:string", a.typ), fmt.Sprintf("String()=%s want %s", s, wantS))
		}
		if a2, err := common.NewAddress(wantS); err != nil {
			fail(fmt.Sprintf("shelley:type=%d:parse-own-string", a.typ), fmt.Sprintf("NewAddress(%s): %v", wantS, err))
		} else {
			if b, _ := a2.Bytes(); !bytes.Equal(b, a.raw) || a2.String() != wantS {
				fail(fmt.Sprintf("shelley:type=%d:text-roundtrip", a.typ), fmt.Sprintf("text round trip gives %x / %s", b, a2.String()))
			}
		}
		// upper-case bech32 is legal bech32 and must parse to the same address
		if a3, err := common.NewAddress(strings.ToUpper(wantS)); err == nil {
			if b, _ := a3.Bytes(); !bytes.Equal(b, a.raw) {
				fail(fmt.Sprintf("shelley:type=%d:uppercase-text", a.typ), "upper-case bech32 parsed to different bytes")
			}
		}
		// CBOR form
		wantC := xcbor.B(a.raw).Encode()
		if c, err := cbor.Encode(&addr); err != nil || !bytes.Equal(c, wantC) {
			fail(fmt.Sprintf("shelley:type=%d:cbor-encode", a.typ), fmt.Sprintf("cbor.Encode=%x (%v) want %x", c, err, wantC))
		}
		var a4 common.Address
		if _, err := cbor.Decode(wantC, &a4); err != nil {
			fail(fmt.Sprintf("shelley:type=%d:cbor-decode", a.typ), fmt.Sprintf("cbor.Decode(%x): %v", wantC, err))
		} else if b, _ := a4.Bytes(); !bytes.Equal(b, a.raw) {
			fail(fmt.Sprintf("shelley:type=%d:cbor-roundtrip", a.typ), fmt.Sprintf("CBOR round trip gives %x", b))
		}
		// constructor from parts
		var stakePart []byte
		if a.stake != nil {
			stakePart = a.stake
		} else if a.ptr != nil {
			for _, v := range a.ptr {
				stakePart = append(stakePart, refVarint(v)...)
			}
		}
		if a5, err := common.NewAddressFromParts(a.typ, a.net, a.pay, stakePart); err != nil {
			fail(fmt.Sprintf("shelley:type=%d:from-parts", a.typ), fmt.Sprintf("NewAddressFromParts: %v", err))
		} else if b, _ := a5.Bytes(); !bytes.Equal(b, a.raw) {
			fail(fmt.Sprintf("shelley:type=%d:from-parts", a.typ), fmt.Sprintf("NewAddressFromParts gives %x", b))
		}

		// ---- rejections ---------------------------------------------------
		mustReject := func(kind string, b []byte) {
			rec.Eval()
			rec.NonTrivial(fmt.Sprintf("%s %x", kind, b), map[string]any{"mutation": kind, "bytes": evi.Hex(b), "from": evi.Hex(a.raw)})
			if got, err := common.NewAddressFromBytes(b); err == nil {
				gb, _ := got.Bytes()
				rec.Fail(rt, fmt.Sprintf("shelley:type=%d:accepted:%s", a.typ, kind),
					fmt.Sprintf("NewAddressFromBytes(%x) accepted (%s of %x); re-encodes as %x", b, kind, a.raw, gb),
					map[string]any{"mutation": kind, "bytes": evi.Hex(b), "from": evi.Hex(a.raw)})
			}
		}
		// every proper prefix
		cut := rapid.IntRange(0, len(a.raw)-1).Draw(rt, "cut")
		mustReject("truncated", a.raw[:cut])
		if len(a.raw) > 1 {
			mustReject("truncated-by-1", a.raw[:len(a.raw)-1])
		}
		// extension
		var extra []byte
		if rapid.IntRange(0, 3).Draw(rt, "extKind") == 0 {
			extra = knownTrailers[rapid.IntRange(0, len(knownTrailers)-1).Draw(rt, "trailer")]
		} else {
			extra = rapid.SliceOfN(rapid.Byte(), 1, 40).Draw(rt, "extra")
		}
		ext := append(append([]byte{}, a.raw...), extra...)
		if a.net == 1 && isKnownTrailer(extra) {
			rec.Eval()
			rec.Class("mainnet_known_trailer")
			if got, err := common.NewAddressFromBytes(ext); err != nil {
				fail("shelley:known-trailer-rejected", fmt.Sprintf("documented mainnet trailer rejected: %x: %v", ext, err))
			} else if b, _ := got.Bytes(); !bytes.Equal(b, ext) {
				fail("shelley:known-trailer-roundtrip", fmt.Sprintf("trailer address %x re-encodes as %x", ext, b))
			}
		} else {
			mustReject("extended", ext)
		}
		// unknown type nibble / bad network id
		bad := append([]byte{}, a.raw...)
		bad[0] = uint8(rapid.IntRange(9, 13).Draw(rt, "badType"))<<4 | a.net
		mustReject("unknown-type", bad)
		bad2 := append([]byte{}, a.raw...)
		bad2[0] = a.typ<<4 | uint8(rapid.IntRange(2, 15).Draw(rt, "badNet"))
		mustReject("bad-network", bad2)

		// text: foreign HRPs and a corrupted data character
		for _, h := range []string{"addr", "addr_test", "stake", "stake_test", "pool", "foo"} {
			if h == hrp {
				continue
			}
			rec.Eval()
			txt := refBech32(h, a.raw)
			if got, err := common.NewAddress(txt); err == nil {
				rec.Fail(rt, fmt.Sprintf("shelley:type=%d:foreign-hrp-accepted:%s", a.typ, h),
					fmt.Sprintf("NewAddress(%s) accepted although the address is type %d network %d (HRP must be %s); got %s", txt, a.typ, a.net, hrp, got.String()),
					map[string]any{"text": txt, "raw": evi.Hex(a.raw)})
			}
		}
		pos := rapid.IntRange(len(hrp)+1, len(wantS)-1).Draw(rt, "flipPos")
		repl := b32charset[rapid.IntRange(0, 31).Draw(rt, "flipChar")]
		if wantS[pos] != repl {
			rec.Eval()
			txt := wantS[:pos] + string(repl) + wantS[pos+1:]
			if _, err := common.NewAddress(txt); err == nil {
				rec.Fail(rt, fmt.Sprintf("shelley:type=%d:bad-bech32-checksum-accepted", a.typ),
					fmt.Sprintf("NewAddress(%s) accepted a bech32 string with a substituted character (original %s)", txt, wantS),
					map[string]any{"text": txt})
			}
		}
	})
}

func byronCase(rt *rapid.T, rec *evi.Recorder) {
	hash := rapid.SliceOfN(rapid.Byte(), 28, 28).Draw(rt, "root")
	typ := uint64(rapid.IntRange(0, 2).Draw(rt, "byronType"))
	var attr common.ByronAddressAttributes
	attrMap := xcbor.M()
	if rapid.Bool().Draw(rt, "hasPayload") {
		attr.Payload = rapid.SliceOfN(rapid.Byte(), 1, 40).Draw(rt, "derivation")
		attrMap.Items = append(attrMap.Items, xcbor.U(1), xcbor.B(attr.Payload))
		attrMap.Width = 0
	}
	if rapid.Bool().Draw(rt, "hasMagic") {
		m := rapid.Uint32().Draw(rt, "magic")
		attr.Network = &m
		attrMap.Items = append(attrMap.Items, xcbor.U(2), xcbor.B(xcbor.U(uint64(m)).Encode()))
	}
	attrMap = xcbor.M(attrMap.Items...)
	payload := xcbor.A(xcbor.B(hash), attrMap, xcbor.U(typ)).Encode()
	raw := xcbor.A(xcbor.Tg(24, xcbor.B(payload)), xcbor.U(uint64(crc32.ChecksumIEEE(payload)))).Encode()
	cs := map[string]any{"raw": evi.Hex(raw), "byron_type": typ}
	fail := func(key, what string) { rec.Fail(rt, key, what, cs) }
	rec.Eval()
	rec.Class("byron")

	// through the library constructor: must produce the independently built bytes
	a, err := common.NewByronAddressFromParts(typ, hash, attr)
	if err != nil {
		fail("byron:from-parts", fmt.Sprintf("NewByronAddressFromParts: %v", err))
		return
	}
	if b, err := a.Bytes(); err != nil || !bytes.Equal(b, raw) {
		fail("byron:from-parts-bytes", fmt.Sprintf("constructor address encodes as %x (%v), independent encoding is %x", b, err, raw))
	}
	a2, err := common.NewAddressFromBytes(raw)
	if err != nil {
		fail("byron:valid-bytes-rejected", fmt.Sprintf("NewAddressFromBytes(%x): %v", raw, err))
		return
	}
	rec.NonTrivial(fmt.Sprintf("byron ok %x", raw), cs)
	if b, _ := a2.Bytes(); !bytes.Equal(b, raw) {
		fail("byron:bytes-roundtrip", fmt.Sprintf("Bytes()=%x want %x", b, raw))
	}
	wantNet := uint(1)
	if attr.Network != nil {
		wantNet = 0
	}
	if a2.Type() != common.AddressTypeByron || a2.ByronType() != typ || a2.NetworkId() != wantNet {
		fail("byron:type-or-network", fmt.Sprintf("Type()=%d ByronType()=%d NetworkId()=%d", a2.Type(), a2.ByronType(), a2.NetworkId()))
	}
	if got := a2.PaymentKeyHash(); !bytes.Equal(got.Bytes(), hash) {
		fail("byron:root-hash", fmt.Sprintf("PaymentKeyHash()=%x want %x", got.Bytes(), hash))
	}
	ga := a2.ByronAttr()
	if !bytes.Equal(ga.Payload, attr.Payload) || (ga.Network == nil) != (attr.Network == nil) || (ga.Network != nil && *ga.Network != *attr.Network) {
		fail("byron:attributes", "ByronAttr() differs from the generated attributes")
	}
	wantS := refBase58(raw)
	if s := a2.String(); s != wantS {
		fail("byron:string", fmt.Sprintf("String()=%s want %s", s, wantS))
	}
	if a3, err := common.NewAddress(wantS); err != nil {
		fail("byron:parse-own-string", fmt.Sprintf("NewAddress(%s): %v", wantS, err))
	} else if b, _ := a3.Bytes(); !bytes.Equal(b, raw) || a3.String() != wantS {
		fail("byron:text-roundtrip", "base58 round trip changed the address")
	}

	mustReject := func(kind string, b []byte) {
		rec.Eval()
		rec.NonTrivial(fmt.Sprintf("byron %s %x", kind, b), map[string]any{"mutation": kind, "bytes": evi.Hex(b)})
		if _, err := common.NewAddressFromBytes(b); err == nil {
			rec.Fail(rt, "byron:accepted:"+kind, fmt.Sprintf("NewAddressFromBytes(%x) accepted (%s of %x)", b, kind, raw),
				map[string]any{"mutation": kind, "bytes": evi.Hex(b), "from": evi.Hex(raw)})
		}
	}
	crcBad := xcbor.A(xcbor.Tg(24, xcbor.B(payload)), xcbor.U(uint64(crc32.ChecksumIEEE(payload)^(1<<uint(rapid.IntRange(0, 31).Draw(rt, "crcBit")))))).Encode()
	mustReject("bad-crc", crcBad)
	mustReject("wrong-tag", xcbor.A(xcbor.Tg(25, xcbor.B(payload)), xcbor.U(uint64(crc32.ChecksumIEEE(payload)))).Encode())
	for _, n := range []int{27, 29} {
		h2 := make([]byte, n)
		copy(h2, hash)
		p2 := xcbor.A(xcbor.B(h2), attrMap, xcbor.U(typ)).Encode()
		mustReject(fmt.Sprintf("hash-len-%d", n), xcbor.A(xcbor.Tg(24, xcbor.B(p2)), xcbor.U(uint64(crc32.ChecksumIEEE(p2)))).Encode())
	}
	mustReject("truncated", raw[:rapid.IntRange(0, len(raw)-1).Draw(rt, "cut")])
	// wrong length: bytes after the address, and bytes after the inner payload item
	junk := rapid.SliceOfN(rapid.Byte(), 1, 8).Draw(rt, "junk")
	mustReject("extended", append(append([]byte{}, raw...), junk...))
	p3 := append(append([]byte{}, payload...), junk...)
	mustReject("payload-extended", xcbor.A(xcbor.Tg(24, xcbor.B(p3)), xcbor.U(uint64(crc32.ChecksumIEEE(p3)))).Encode())
	// payload byte flipped without fixing the CRC
	pb := append([]byte{}, payload...)
	pb[rapid.IntRange(0, len(pb)-1).Draw(rt, "flipAt")] ^= 1 << uint(rapid.IntRange(0, 7).Draw(rt, "flipBit"))
	mustReject("payload-flip", xcbor.A(xcbor.Tg(24, xcbor.B(pb)), xcbor.U(uint64(crc32.ChecksumIEEE(payload)))).Encode())
	// Byron bytes presented as bech32
	rec.Eval()
	txt := refBech32("addr", raw)
	if _, err := common.NewAddress(txt); err == nil {
		rec.Fail(rt, "byron:accepted-as-bech32", fmt.Sprintf("NewAddress(%s) accepted Byron bytes in bech32 form", txt), map[string]any{"text": txt})
	}
}
