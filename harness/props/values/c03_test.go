package values

import (
	"fmt"
	"reflect"
	"sort"
	"strings"
	"testing"

	"github.com/blinklabs-io/gouroboros/cbor"
	"github.com/blinklabs-io/gouroboros/ledger"
	"github.com/blinklabs-io/gouroboros/ledger/babbage"
	"github.com/blinklabs-io/gouroboros/ledger/byron"
	"github.com/blinklabs-io/gouroboros/ledger/common"
	"github.com/blinklabs-io/gouroboros/ledger/conway"
	"github.com/blinklabs-io/gouroboros/ledger/dijkstra"
	"github.com/blinklabs-io/gouroboros/protocol/localstatequery"
	"github.com/blinklabs-io/gouroboros/protocol/peersharing"
	"pgregory.net/rapid"

	"verif/harness/internal/evi"
	"verif/harness/internal/xcbor"
)

// ---- semantic dump: a value's fields without any stored-CBOR caches ---------

func dump(v any) string {
	var sb strings.Builder
	dumpValue(&sb, reflect.ValueOf(v), 0)
	return sb.String()
}

func dumpValue(sb *strings.Builder, v reflect.Value, depth int) {
	if depth > 40 {
		sb.WriteString("<deep>")
		return
	}
	if !v.IsValid() {
		sb.WriteString("nil")
		return
	}
	switch v.Kind() {
	case reflect.Pointer, reflect.Interface:
		if v.IsNil() {
			sb.WriteString("nil")
			return
		}
		if v.Kind() == reflect.Interface {
			fmt.Fprintf(sb, "(%s)", v.Elem().Type())
		}
		dumpValue(sb, v.Elem(), depth+1)
	case reflect.Struct:
		t := v.Type()
		if t.String() == "cbor.DecodeStoreCbor" || t.String() == "cbor.StructAsArray" {
			return
		}
		fmt.Fprintf(sb, "%s{", t.String())
		for i := 0; i < v.NumField(); i++ {
			f := t.Field(i)
			ft := f.Type.String()
			if ft == "cbor.DecodeStoreCbor" || ft == "cbor.StructAsArray" {
				continue
			}
			fmt.Fprintf(sb, "%s:", f.Name)
			dumpValue(sb, v.Field(i), depth+1)
			sb.WriteString(";")
		}
		sb.WriteString("}")
	case reflect.Slice, reflect.Array:
		if v.Kind() == reflect.Slice && v.IsNil() {
			sb.WriteString("[]")
			return
		}
		if v.Type().Elem().Kind() == reflect.Uint8 {
			b := make([]byte, v.Len())
			for i := range b {
				b[i] = byte(v.Index(i).Uint())
			}
			fmt.Fprintf(sb, "h'%x'", b)
			return
		}
		sb.WriteString("[")
		for i := 0; i < v.Len(); i++ {
			dumpValue(sb, v.Index(i), depth+1)
			sb.WriteString(",")
		}
		sb.WriteString("]")
	case reflect.Map:
		var ents []string
		it := v.MapRange()
		for it.Next() {
			var e strings.Builder
			dumpValue(&e, it.Key(), depth+1)
			e.WriteString("=>")
			dumpValue(&e, it.Value(), depth+1)
			ents = append(ents, e.String())
		}
		sort.Strings(ents)
		sb.WriteString("{" + strings.Join(ents, ",") + "}")
	case reflect.String:
		fmt.Fprintf(sb, "%q", v.String())
	case reflect.Bool:
		fmt.Fprintf(sb, "%v", v.Bool())
	case reflect.Int, reflect.Int8, reflect.Int16, reflect.Int32, reflect.Int64:
		fmt.Fprintf(sb, "%d", v.Int())
	case reflect.Uint, reflect.Uint8, reflect.Uint16, reflect.Uint32, reflect.Uint64, reflect.Uintptr:
		fmt.Fprintf(sb, "%d", v.Uint())
	case reflect.Float32, reflect.Float64:
		fmt.Fprintf(sb, "%v", v.Float())
	default:
		fmt.Fprintf(sb, "<%s>", v.Kind())
	}
}

// ---- tagged-sum families -----------------------------------------------------

type tsample struct {
	id      uint64
	variant string
	tree    *xcbor.Node
	// tagged lists below the root (path, id); when empty the root list is the
	// tagged list and id its first element
	tagged []tagAt
}

type tagAt struct {
	path string
	id   uint64
}

func (s tsample) tags() []tagAt {
	if len(s.tagged) == 0 {
		return []tagAt{{"", s.id}}
	}
	return s.tagged
}

type tfamily struct {
	name    string
	decode  func(b []byte) (any, error)
	samples func(g *tgen) []tsample
}

type tgen struct{ rt *rapid.T }

func (g *tgen) bytes(n int) []byte {
	return rapid.SliceOfN(rapid.Byte(), n, n).Draw(g.rt, "bytes")
}
func (g *tgen) u(max uint64) uint64 { return rapid.Uint64Range(0, max).Draw(g.rt, "u") }
func (g *tgen) cred() *xcbor.Node {
	return xcbor.A(xcbor.U(g.u(1)), xcbor.B(g.bytes(28)))
}
func (g *tgen) drep() *xcbor.Node {
	switch g.u(3) {
	case 0:
		return xcbor.A(xcbor.U(0), xcbor.B(g.bytes(28)))
	case 1:
		return xcbor.A(xcbor.U(1), xcbor.B(g.bytes(28)))
	case 2:
		return xcbor.A(xcbor.U(2))
	}
	return xcbor.A(xcbor.U(3))
}
func (g *tgen) anchorOrNull() *xcbor.Node {
	if g.u(1) == 0 {
		return xcbor.Null()
	}
	return xcbor.A(xcbor.T("https://example.invalid/a"), xcbor.B(g.bytes(32)))
}
func (g *tgen) pubkeyScripts(n int) *xcbor.Node {
	items := make([]*xcbor.Node, n)
	for i := range items {
		items[i] = xcbor.A(xcbor.U(0), xcbor.B(g.bytes(28)))
	}
	return xcbor.A(items...)
}

func decodeInto[T any](b []byte) (any, error) {
	var v T
	if _, err := cbor.Decode(b, &v); err != nil {
		return nil, err
	}
	return &v, nil
}

func families() []tfamily {
	return []tfamily{
		{"native-script", decodeInto[common.NativeScript], func(g *tgen) []tsample {
			k := int(g.u(3))
			return []tsample{
				{0, "pubkey", xcbor.A(xcbor.U(0), xcbor.B(g.bytes(28))), nil},
				{1, "all", xcbor.A(xcbor.U(1), g.pubkeyScripts(k)), nil},
				{2, "any", xcbor.A(xcbor.U(2), g.pubkeyScripts(k)), nil},
				{3, "n-of-k", xcbor.A(xcbor.U(3), xcbor.U(g.u(4)), g.pubkeyScripts(k)), nil},
				{4, "invalid-before", xcbor.A(xcbor.U(4), xcbor.U(g.u(1<<40))), nil},
				{5, "invalid-hereafter", xcbor.A(xcbor.U(5), xcbor.U(g.u(1<<40))), nil},
				{6, "require-guard", xcbor.A(xcbor.U(6), g.cred()), nil},
				{1, "all-nested", xcbor.A(xcbor.U(1), xcbor.A(
					xcbor.A(xcbor.U(2), g.pubkeyScripts(2)),
					xcbor.A(xcbor.U(5), xcbor.U(g.u(1000))),
					xcbor.A(xcbor.U(1), g.pubkeyScripts(1)))), nil},
			}
		}},
		{"certificate", decodeInto[common.CertificateWrapper], func(g *tgen) []tsample {
			coin := func() *xcbor.Node { return xcbor.U(g.u(1 << 50)) }
			return []tsample{
				{0, "stake-reg", xcbor.A(xcbor.U(0), g.cred()), nil},
				{1, "stake-dereg", xcbor.A(xcbor.U(1), g.cred()), nil},
				{2, "stake-deleg", xcbor.A(xcbor.U(2), g.cred(), xcbor.B(g.bytes(28))), nil},
				{4, "pool-retire", xcbor.A(xcbor.U(4), xcbor.B(g.bytes(28)), xcbor.U(g.u(1000))), nil},
				{5, "genesis-deleg", xcbor.A(xcbor.U(5), xcbor.B(g.bytes(28)), xcbor.B(g.bytes(28)), xcbor.B(g.bytes(32))), nil},
				{7, "reg", xcbor.A(xcbor.U(7), g.cred(), coin()), nil},
				{8, "dereg", xcbor.A(xcbor.U(8), g.cred(), coin()), nil},
				{9, "vote-deleg", xcbor.A(xcbor.U(9), g.cred(), g.drep()), nil},
				{10, "stake-vote-deleg", xcbor.A(xcbor.U(10), g.cred(), xcbor.B(g.bytes(28)), g.drep()), nil},
				{11, "stake-reg-deleg", xcbor.A(xcbor.U(11), g.cred(), xcbor.B(g.bytes(28)), coin()), nil},
				{12, "vote-reg-deleg", xcbor.A(xcbor.U(12), g.cred(), g.drep(), coin()), nil},
				{13, "stake-vote-reg-deleg", xcbor.A(xcbor.U(13), g.cred(), xcbor.B(g.bytes(28)), g.drep(), coin()), nil},
				{14, "auth-committee-hot", xcbor.A(xcbor.U(14), g.cred(), g.cred()), nil},
				{15, "resign-committee-cold", xcbor.A(xcbor.U(15), g.cred(), g.anchorOrNull()), nil},
				{16, "reg-drep", xcbor.A(xcbor.U(16), g.cred(), coin(), g.anchorOrNull()), nil},
				{17, "dereg-drep", xcbor.A(xcbor.U(17), g.cred(), coin()), nil},
				{18, "update-drep", xcbor.A(xcbor.U(18), g.cred(), g.anchorOrNull()), nil},
			}
		}},
		{"drep", decodeInto[common.Drep], func(g *tgen) []tsample {
			return []tsample{
				{0, "keyhash", xcbor.A(xcbor.U(0), xcbor.B(g.bytes(28))), nil},
				{1, "scripthash", xcbor.A(xcbor.U(1), xcbor.B(g.bytes(28))), nil},
				{2, "abstain", xcbor.A(xcbor.U(2)), nil},
				{3, "no-confidence", xcbor.A(xcbor.U(3)), nil},
			}
		}},
		{"pool-relay", decodeInto[common.PoolRelay], func(g *tgen) []tsample {
			return []tsample{
				{0, "single-host-addr", xcbor.A(xcbor.U(0), xcbor.U(g.u(65535)), xcbor.B(g.bytes(4)), xcbor.Null()), nil},
				{1, "single-host-name", xcbor.A(xcbor.U(1), xcbor.U(g.u(65535)), xcbor.T("relay.example")), nil},
				{2, "multi-host-name", xcbor.A(xcbor.U(2), xcbor.T("relays.example")), nil},
			}
		}},
		{"nonce", decodeInto[common.Nonce], func(g *tgen) []tsample {
			return []tsample{
				{0, "neutral", xcbor.A(xcbor.U(0)), nil},
				{1, "nonce", xcbor.A(xcbor.U(1), xcbor.B(g.bytes(32))), nil},
			}
		}},
		{"datum-option", decodeInto[babbage.BabbageTransactionOutputDatumOption], func(g *tgen) []tsample {
			inner := xcbor.A(xcbor.U(g.u(1000)), xcbor.B(g.bytes(5))).Encode()
			return []tsample{
				{0, "hash", xcbor.A(xcbor.U(0), xcbor.B(g.bytes(32))), nil},
				{1, "inline", xcbor.A(xcbor.U(1), xcbor.Tg(24, xcbor.B(inner))), nil},
			}
		}},
		{"conway-gov-action", decodeInto[conway.ConwayGovAction], func(g *tgen) []tsample {
			aid := func() *xcbor.Node {
				if g.u(1) == 0 {
					return xcbor.Null()
				}
				return xcbor.A(xcbor.B(g.bytes(32)), xcbor.U(g.u(100)))
			}
			return []tsample{
				{1, "hard-fork", xcbor.A(xcbor.U(1), aid(), xcbor.A(xcbor.U(g.u(20)), xcbor.U(g.u(5)))), nil},
				{3, "no-confidence", xcbor.A(xcbor.U(3), aid()), nil},
				{5, "new-constitution", xcbor.A(xcbor.U(5), aid(), xcbor.A(
					xcbor.A(xcbor.T("https://c.invalid"), xcbor.B(g.bytes(32))), xcbor.Null())), nil},
				{6, "info", xcbor.A(xcbor.U(6)), nil},
			}
		}},
		{"byron-tx-input", decodeInto[byron.ByronTransactionInput], func(g *tgen) []tsample {
			inner := xcbor.A(xcbor.B(g.bytes(32)), xcbor.U(g.u(1000))).Encode()
			return []tsample{
				{0, "regular", xcbor.A(xcbor.U(0), xcbor.Tg(24, xcbor.B(inner))), nil},
			}
		}},
		{"peer-address", decodeInto[peersharing.PeerAddress], func(g *tgen) []tsample {
			w := func() *xcbor.Node { return xcbor.U(g.u(0xffffffff)) }
			return []tsample{
				{0, "ipv4", xcbor.A(xcbor.U(0), w(), xcbor.U(g.u(65535))), nil},
				{1, "ipv6-v13", xcbor.A(xcbor.U(1), w(), w(), w(), w(), xcbor.U(g.u(65535))), nil},
				{1, "ipv6-v11", xcbor.A(xcbor.U(1), w(), w(), w(), w(), w(), w(), xcbor.U(g.u(65535))), nil},
			}
		}},
		{"lsq-with-origin-slot", decodeInto[localstatequery.WithOriginSlot], func(g *tgen) []tsample {
			return []tsample{
				{0, "origin", xcbor.A(xcbor.U(0)), nil},
				{1, "at", xcbor.A(xcbor.U(1), xcbor.U(g.u(1<<40))), nil},
			}
		}},
		{"lsq-relay-access-point", decodeInto[localstatequery.RelayAccessPoint], func(g *tgen) []tsample {
			return []tsample{
				{0, "ipv4-word", xcbor.A(xcbor.U(0), xcbor.U(g.u(0xffffffff)), xcbor.U(g.u(65535))), nil},
				{0, "ipv4-bytes", xcbor.A(xcbor.U(0), xcbor.B(g.bytes(4)), xcbor.U(g.u(65535))), nil},
				{1, "ipv6-words", xcbor.A(xcbor.U(1), xcbor.A(xcbor.U(g.u(0xffffffff)), xcbor.U(g.u(0xffffffff)),
					xcbor.U(g.u(0xffffffff)), xcbor.U(g.u(0xffffffff))), xcbor.U(g.u(65535))), nil},
				{2, "domain", xcbor.A(xcbor.U(2), xcbor.B([]byte("relay.example")), xcbor.U(g.u(65535))), nil},
				{3, "srv", xcbor.A(xcbor.U(3), xcbor.B([]byte("_cardano._tcp.example"))), nil},
			}
		}},
		{"lsq-hot-cred-auth-status", decodeInto[localstatequery.HotCredAuthStatusValue], func(g *tgen) []tsample {
			return []tsample{
				{0, "not-authorized", xcbor.A(xcbor.U(0)), nil},
				{1, "authorized", xcbor.A(xcbor.U(1), g.cred()), nil},
				{2, "resigned", xcbor.A(xcbor.U(2), g.anchorOrNull()), nil},
			}
		}},
		{"lsq-next-epoch-change", decodeInto[localstatequery.NextEpochChangeValue], func(g *tgen) []tsample {
			return []tsample{
				{5, "term-adjusted", xcbor.A(xcbor.U(5), xcbor.U(g.u(1<<30))), nil},
			}
		}},
		{"dijkstra-gov-action", decodeInto[dijkstra.DijkstraGovAction], func(g *tgen) []tsample {
			aid := func() *xcbor.Node {
				if g.u(1) == 0 {
					return xcbor.Null()
				}
				return xcbor.A(xcbor.B(g.bytes(32)), xcbor.U(g.u(100)))
			}
			return []tsample{
				{1, "hard-fork", xcbor.A(xcbor.U(1), aid(), xcbor.A(xcbor.U(g.u(20)), xcbor.U(g.u(5)))), nil},
				{3, "no-confidence", xcbor.A(xcbor.U(3), aid()), nil},
				{6, "info", xcbor.A(xcbor.U(6)), nil},
			}
		}},
		// failure reasons: the tagged lists sit below an untagged envelope
		// [[era, [[0, [utxow-tag, ...]]]]]; a misread tag must not make the
		// whole reply fall back to an opaque GenericError
		{"tx-submit-error", func(b []byte) (any, error) {
			e, err := ledger.NewTxSubmitErrorFromCbor(b)
			if err != nil {
				return nil, err
			}
			return &e, nil
		}, func(g *tgen) []tsample {
			env := func(era uint64, utxow *xcbor.Node) *xcbor.Node {
				return xcbor.A(xcbor.A(xcbor.U(era), xcbor.A(xcbor.A(xcbor.U(0), utxow))))
			}
			tg := func(id uint64) []tagAt { return []tagAt{{"/0/1/0", 0}, {"/0/1/0/1", id}} }
			era := 1 + g.u(2) // Shelley, Allegra, Mary share one numbering
			return []tsample{
				{8, "conway-invalid-metadata", env(6, xcbor.A(xcbor.U(8))), tg(8)},
				{8, "dijkstra-invalid-metadata", env(7, xcbor.A(xcbor.U(8))), tg(8)},
				{8, "shelley-invalid-metadata", env(era, xcbor.A(xcbor.U(8))), tg(8)},
			}
		}},
	}
}

type headVariant struct {
	form   xcbor.Form
	idWide bool // first element encoded as 0x18 <id> (non-minimal integer)
}

func (h headVariant) String() string {
	s := "head=" + h.form.String()
	if h.idWide {
		s += "+id=w1"
	}
	return s
}

func allHeadVariants() []headVariant {
	var out []headVariant
	for _, f := range xcbor.AllForms {
		out = append(out, headVariant{f, false}, headVariant{f, true})
	}
	return out
}

func applyHead(tree *xcbor.Node, hv headVariant, paths ...string) *xcbor.Node {
	root := tree.Clone()
	if len(paths) == 0 {
		paths = []string{""}
	}
	for _, p := range paths {
		n := root.At(p)
		if hv.form != xcbor.FormMinimal {
			n.Apply(hv.form, 0)
		}
		if hv.idWide {
			n.Items[0].Width = 1
		}
	}
	return root
}

// libraryAdmits reports whether the library's own generic decoder accepts the
// bytes as one complete CBOR item: the form is then admissible input for the
// tagged-sum decoders too.
func libraryAdmits(b []byte) bool {
	var x any
	n, err := cbor.Decode(b, &x)
	return err == nil && n == len(b)
}

// TestC03: tagged-sum decoding follows the tag whatever the list-length encoding.
func TestC03(t *testing.T) {
	rec := evi.New(t, "C03", evi.Exploration,
		"every tagged-list variant sample (15 families: native scripts 0-6, certificates, DRep, pool relay, nonce, datum option, Conway and Dijkstra gov actions, Byron tx input, peer address, LSQ origin-slot / relay access point / hot-credential status / next-epoch change, tx-submit failure reasons whose tagged lists sit below an untagged envelope) with rapid-drawn field values, its outer list head re-encoded in each of 6 forms (minimal, 1/2/4/8-byte non-minimal, indefinite) x id as immediate or 0x18-prefixed, plus rapid restyling of nested list heads; oracles: cbor.DecodeIdFromList returns the true id, cbor.ListLength the true element count, cbor.DecodeById the object registered for the true id, and the family decoder the same variant and fields as for the minimal form; an error is tolerated only for a header form that the library's own generic decoder (cbor.Decode into any) also refuses. non-trivial = head form != minimal or id non-minimal or nested restyle applied, and the form was accepted by the decoder; distinct by (family, variant, head variant, nested edits, field bytes)")
	defer rec.Finish()
	rec.Assume("xcbor re-encoding preserves the CBOR data model (self-tested in internal/xcbor)",
		"a header form is admissible when the library's generic decoder accepts the bytes; a tagged-sum decoder that rejects such a form does not produce the variant named by the first element")
	fams := families()
	hvs := allHeadVariants()

	rec.Check(func(rt *rapid.T) {
		g := &tgen{rt}
		fam := fams[rapid.IntRange(0, len(fams)-1).Draw(rt, "family")]
		samples := fam.samples(g)
		s := samples[rapid.IntRange(0, len(samples)-1).Draw(rt, "sample")]
		base := s.tree
		nested := ""
		if rapid.Bool().Draw(rt, "restyleNested") {
			edits := xcbor.Restyle(rt, base, xcbor.StyleOpts{
				MaxEdits: 3,
				Kinds:    map[xcbor.Kind]bool{xcbor.Array: true, xcbor.Uint: true},
				Filter: func(n *xcbor.Node, path string) bool {
					for _, tg := range s.tags() {
						if path == tg.path || path == tg.path+"/0" {
							return false
						}
					}
					return true
				},
			})
			nested = xcbor.EditsString(edits)
		}
		minEnc := base.Encode()
		ref, err := fam.decode(minEnc)
		if err != nil {
			if nested == "" {
				t.Fatalf("harness sample %s/%s rejected in minimal form: %v (%x)", fam.name, s.variant, err, minEnc)
			}
			rec.Class("nested_restyle_rejected")
			return
		}
		refDump := dump(ref)

		tags := s.tags()
		tagPaths := make([]string, len(tags))
		for i, tg := range tags {
			tagPaths[i] = tg.path
		}
		for _, hv := range hvs {
			enc := applyHead(base, hv, tagPaths...).Encode()
			caseObj := map[string]any{"family": fam.name, "variant": s.variant, "id": s.id,
				"head": hv.String(), "nested": nested, "cbor": evi.Hex(enc), "minimal_cbor": evi.Hex(minEnc)}

			for _, tg := range tags {
				sub := applyHead(base.At(tg.path), hv)
				subEnc := sub.Encode()
				subObj := map[string]any{"family": fam.name, "variant": s.variant, "id": tg.id, "tagged_path": tg.path,
					"head": hv.String(), "nested": nested, "cbor": evi.Hex(subEnc)}
				admitted := libraryAdmits(subEnc)

				// (a) direct: the id extractor
				rec.Eval()
				id, err := cbor.DecodeIdFromList(subEnc)
				if err == nil && uint64(id) != tg.id {
					rec.Fail(rt, fmt.Sprintf("DecodeIdFromList:%s", hv),
						fmt.Sprintf("DecodeIdFromList(%x) = %d, the list's first element is %d (%s/%s)", subEnc, id, tg.id, fam.name, s.variant),
						subObj)
				}
				if err != nil {
					rec.Class("idextract_error:" + hv.String())
					if admitted {
						rec.Fail(rt, fmt.Sprintf("DecodeIdFromList-rejects-admissible:%s", hv),
							fmt.Sprintf("DecodeIdFromList(%x) fails (%v) on the list [%d, ...] (%s/%s) in a header form the library's own decoder accepts; the variant named by the first element is not produced", subEnc, err, tg.id, fam.name, s.variant),
							subObj)
					}
				}

				// (a') the list-length reader the tagged decoders consult next to the id
				rec.Eval()
				if n, err := cbor.ListLength(subEnc); err == nil && n != len(sub.Items) {
					rec.Fail(rt, fmt.Sprintf("ListLength:%s", hv),
						fmt.Sprintf("ListLength(%x) = %d, the list has %d elements (%s/%s)", subEnc, n, len(sub.Items), fam.name, s.variant),
						subObj)
				} else if err != nil && admitted {
					rec.Fail(rt, fmt.Sprintf("ListLength-rejects-admissible:%s", hv),
						fmt.Sprintf("ListLength(%x) fails (%v) on a %d-element list in a header form the library's own decoder accepts", subEnc, err, len(sub.Items)),
						subObj)
				}

				// (b) DecodeById picks the registered object of the true id
				rec.Eval()
				type other struct {
					cbor.StructAsArray
					X []cbor.RawMessage
				}
				trueObj := &[]cbor.RawMessage{}
				idMap := map[int]any{}
				for i := 0; i < 24; i++ {
					idMap[i] = &other{}
				}
				idMap[int(tg.id)] = trueObj
				got, err := cbor.DecodeById(subEnc, idMap)
				if err == nil && got != any(trueObj) {
					rec.Fail(rt, fmt.Sprintf("DecodeById:%s", hv),
						fmt.Sprintf("DecodeById(%x) selected the object registered for a different id than %d", subEnc, tg.id), subObj)
				}
				if err != nil && admitted {
					rec.Fail(rt, fmt.Sprintf("DecodeById-rejects-admissible:%s", hv),
						fmt.Sprintf("DecodeById(%x) fails (%v) on the list [%d, ...] in a header form the library's own decoder accepts", subEnc, err, tg.id), subObj)
				}
			}

			// (c) the family decoder
			rec.Eval()
			got, err := fam.decode(enc)
			if err != nil {
				rec.Class("form_rejected:" + hv.String())
				if libraryAdmits(enc) {
					// the minimal form decoded (ref), the library's decoder admits this
					// form, yet the variant named by the first element is not produced
					rec.Fail(rt, fmt.Sprintf("%s:id=%d(%s):rejected:%s", fam.name, s.id, s.variant, hv),
						fmt.Sprintf("%s %x (list [%d, ...], %s) is rejected (%v) although its minimal encoding %x decodes and the library's generic decoder accepts this header form",
							fam.name, enc, s.id, hv, err, minEnc), caseObj)
				}
				continue
			}
			rec.Class("form_accepted:" + hv.String())
			if hv.form != xcbor.FormMinimal || hv.idWide || nested != "" {
				rec.NonTrivial(fmt.Sprintf("%s/%s %s nested=%s %x", fam.name, s.variant, hv, nested, minEnc), caseObj)
			}
			if d := dump(got); d != refDump {
				rec.Fail(rt, fmt.Sprintf("%s:id=%d(%s):%s", fam.name, s.id, s.variant, hv),
					fmt.Sprintf("%s %x (list [%d, ...], %s) decodes to %s but its minimal encoding %x decodes to %s",
						fam.name, enc, s.id, hv, clipS(d, 300), minEnc, clipS(refDump, 300)), caseObj)
			}
		}
	})
}

func clipS(s string, n int) string {
	if len(s) > n {
		return s[:n] + "…"
	}
	return s
}
