package values

import (
	"fmt"
	"reflect"
	"sort"
	"strings"
	"testing"

	"github.com/blinklabs-io/gouroboros/cbor"
	"github.com/blinklabs-io/gouroboros/ledger/babbage"
	"github.com/blinklabs-io/gouroboros/ledger/byron"
	"github.com/blinklabs-io/gouroboros/ledger/common"
	"github.com/blinklabs-io/gouroboros/ledger/conway"
	"github.com/blinklabs-io/gouroboros/protocol/localstatequery"
	"github.com/blinklabs-io/gouroboros/protocol/peersharing"
	"pgregory.net/rapid"

	"verif/harness/internal/evi"
	"verif/harness/internal/xcbor"
)

// ---- semantic dump: a value's fields without any stored-CBOR caches ---------

func dump(v any) string {
	var sb strings.Builder
	dumpValue(&sb, reflect.ValueOf(v), 0)
	return sb.String()
}

func dumpValue(sb *strings.Builder, v reflect.Value, depth int) {
	if depth > 40 {
		sb.WriteString("<deep>")
		return
	}
	if !v.IsValid() {
		sb.WriteString("nil")
		return
	}
	switch v.Kind() {
	case reflect.Pointer, reflect.Interface:
		if v.IsNil() {
			sb.WriteString("nil")
			return
		}
		if v.Kind() == reflect.Interface {
			fmt.Fprintf(sb, "(%s)", v.Elem().Type())
		}
		dumpValue(sb, v.Elem(), depth+1)
	case reflect.Struct:
		t := v.Type()
		if t.String() == "cbor.DecodeStoreCbor" || t.String() == "cbor.StructAsArray" {
			return
		}
		fmt.Fprintf(sb, "%s{", t.String())
		for i := 0; i < v.NumField(); i++ {
			f := t.Field(i)
			ft := f.Type.String()
			if ft == "cbor.DecodeStoreCbor" || ft == "cbor.StructAsArray" {
				continue
			}
			fmt.Fprintf(sb, "%s:", f.Name)
			dumpValue(sb, v.Field(i), depth+1)
			sb.WriteString(";")
		}
		sb.WriteString("}")
	case reflect.Slice, reflect.Array:
		if v.Kind() == reflect.Slice && v.IsNil() {
			sb.WriteString("[]")
			return
		}
		if v.Type().Elem().Kind() == reflect.Uint8 {
			b := make([]byte, v.Len())
			for i := range b {
				b[i] = byte(v.Index(i).Uint())
			}
			fmt.Fprintf(sb, "h'%x'", b)
			return
		}
		sb.WriteString("[")
		for i := 0; i < v.Len(); i++ {
			dumpValue(sb, v.Index(i), depth+1)
			sb.WriteString(",")
		}
		sb.WriteString("]")
	case reflect.Map:
		var ents []string
		it := v.MapRange()
		for it.Next() {
			var e strings.Builder
			dumpValue(&e, it.Key(), depth+1)
			e.WriteString("=>")
			dumpValue(&e, it.Value(), depth+1)
			ents = append(ents, e.String())
		}
		sort.Strings(ents)
		sb.WriteString("{" + strings.Join(ents, ",") + "}")
	case reflect.String:
		fmt.Fprintf(sb, "%q", v.String())
	case reflect.Bool:
		fmt.Fprintf(sb, "%v", v.Bool())
	case reflect.Int, reflect.Int8, reflect.Int16, reflect.Int32, reflect.Int64:
		fmt.Fprintf(sb, "%d", v.Int())
	case reflect.Uint, reflect.Uint8, reflect.Uint16, reflect.Uint32, reflect.Uint64, reflect.Uintptr:
		fmt.Fprintf(sb, "%d", v.Uint())
	case reflect.Float32, reflect.Float64:
		fmt.Fprintf(sb, "%v", v.Float())
	default:
		fmt.Fprintf(sb, "<%s>", v.Kind())
	}
}

// ---- tagged-sum families -----------------------------------------------------

type tsample struct {
	id      uint64
	variant string
	tree    *xcbor.Node
}

type tfamily struct {
	name    string
	decode  func(b []byte) (any, error)
	samples func(g *tgen) []tsample
}

type tgen struct{ rt *rapid.T }

func (g *tgen) bytes(n int) []byte {
	return rapid.SliceOfN(rapid.Byte(), n, n).Draw(g.rt, "bytes")
}
func (g *tgen) u(max uint64) uint64 { return rapid.Uint64Range(0, max).Draw(g.rt, "u") }
func (g *tgen) cred() *xcbor.Node {
	return xcbor.A(xcbor.U(g.u(1)), xcbor.B(g.bytes(28)))
}
func (g *tgen) drep() *xcbor.Node {
	switch g.u(3) {
	case 0:
		return xcbor.A(xcbor.U(0), xcbor.B(g.bytes(28)))
	case 1:
		return xcbor.A(xcbor.U(1), xcbor.B(g.bytes(28)))
	case 2:
		return xcbor.A(xcbor.U(2))
	}
	return xcbor.A(xcbor.U(3))
}
func (g *tgen) anchorOrNull() *xcbor.Node {
	if g.u(1) == 0 {
		return xcbor.Null()
	}
	return xcbor.A(xcbor.T("https://example.invalid/a"), xcbor.B(g.bytes(32)))
}
func (g *tgen) pubkeyScripts(n int) *xcbor.Node {
	items := make([]*xcbor.Node, n)
	for i := range items {
		items[i] = xcbor.A(xcbor.U(0), xcbor.B(g.bytes(28)))
	}
	return xcbor.A(items...)
}

func decodeInto[T any](b []byte) (any, error) {
	var v T
	if _, err := cbor.Decode(b, &v); err != nil {
		return nil, err
	}
	return &v, nil
}

func families() []tfamily {
	return []tfamily{
		{"native-script", decodeInto[common.NativeScript], func(g *tgen) []tsample {
			k := int(g.u(3))
			return []tsample{
				{0, "pubkey", xcbor.A(xcbor.U(0), xcbor.B(g.bytes(28)))},
				{1, "all", xcbor.A(xcbor.U(1), g.pubkeyScripts(k))},
				{2, "any", xcbor.A(xcbor.U(2), g.pubkeyScripts(k))},
				{3, "n-of-k", xcbor.A(xcbor.U(3), xcbor.U(g.u(4)), g.pubkeyScripts(k))},
				{4, "invalid-before", xcbor.A(xcbor.U(4), xcbor.U(g.u(1<<40)))},
				{5, "invalid-hereafter", xcbor.A(xcbor.U(5), xcbor.U(g.u(1<<40)))},
				{6, "require-guard", xcbor.A(xcbor.U(6), g.cred())},
				{1, "all-nested", xcbor.A(xcbor.U(1), xcbor.A(
					xcbor.A(xcbor.U(2), g.pubkeyScripts(2)),
					xcbor.A(xcbor.U(5), xcbor.U(g.u(1000))),
					xcbor.A(xcbor.U(1), g.pubkeyScripts(1))))},
			}
		}},
		{"certificate", decodeInto[common.CertificateWrapper], func(g *tgen) []tsample {
			coin := func() *xcbor.Node { return xcbor.U(g.u(1 << 50)) }
			return []tsample{
				{0, "stake-reg", xcbor.A(xcbor.U(0), g.cred())},
				{1, "stake-dereg", xcbor.A(xcbor.U(1), g.cred())},
				{2, "stake-deleg", xcbor.A(xcbor.U(2), g.cred(), xcbor.B(g.bytes(28)))},
				{4, "pool-retire", xcbor.A(xcbor.U(4), xcbor.B(g.bytes(28)), xcbor.U(g.u(1000)))},
				{5, "genesis-deleg", xcbor.A(xcbor.U(5), xcbor.B(g.bytes(28)), xcbor.B(g.bytes(28)), xcbor.B(g.bytes(32)))},
				{7, "reg", xcbor.A(xcbor.U(7), g.cred(), coin())},
				{8, "dereg", xcbor.A(xcbor.U(8), g.cred(), coin())},
				{9, "vote-deleg", xcbor.A(xcbor.U(9), g.cred(), g.drep())},
				{10, "stake-vote-deleg", xcbor.A(xcbor.U(10), g.cred(), xcbor.B(g.bytes(28)), g.drep())},
				{11, "stake-reg-deleg", xcbor.A(xcbor.U(11), g.cred(), xcbor.B(g.bytes(28)), coin())},
				{12, "vote-reg-deleg", xcbor.A(xcbor.U(12), g.cred(), g.drep(), coin())},
				{13, "stake-vote-reg-deleg", xcbor.A(xcbor.U(13), g.cred(), xcbor.B(g.bytes(28)), g.drep(), coin())},
				{14, "auth-committee-hot", xcbor.A(xcbor.U(14), g.cred(), g.cred())},
				{15, "resign-committee-cold", xcbor.A(xcbor.U(15), g.cred(), g.anchorOrNull())},
				{16, "reg-drep", xcbor.A(xcbor.U(16), g.cred(), coin(), g.anchorOrNull())},
				{17, "dereg-drep", xcbor.A(xcbor.U(17), g.cred(), coin())},
				{18, "update-drep", xcbor.A(xcbor.U(18), g.cred(), g.anchorOrNull())},
			}
		}},
		{"drep", decodeInto[common.Drep], func(g *tgen) []tsample {
			return []tsample{
				{0, "keyhash", xcbor.A(xcbor.U(0), xcbor.B(g.bytes(28)))},
				{1, "scripthash", xcbor.A(xcbor.U(1), xcbor.B(g.bytes(28)))},
				{2, "abstain", xcbor.A(xcbor.U(2))},
				{3, "no-confidence", xcbor.A(xcbor.U(3))},
			}
		}},
		{"pool-relay", decodeInto[common.PoolRelay], func(g *tgen) []tsample {
			return []tsample{
				{0, "single-host-addr", xcbor.A(xcbor.U(0), xcbor.U(g.u(65535)), xcbor.B(g.bytes(4)), xcbor.Null())},
				{1, "single-host-name", xcbor.A(xcbor.U(1), xcbor.U(g.u(65535)), xcbor.T("relay.example"))},
				{2, "multi-host-name", xcbor.A(xcbor.U(2), xcbor.T("relays.example"))},
			}
		}},
		{"nonce", decodeInto[common.Nonce], func(g *tgen) []tsample {
			return []tsample{
				{0, "neutral", xcbor.A(xcbor.U(0))},
				{1, "nonce", xcbor.A(xcbor.U(1), xcbor.B(g.bytes(32)))},
			}
		}},
		{"datum-option", decodeInto[babbage.BabbageTransactionOutputDatumOption], func(g *tgen) []tsample {
			inner := xcbor.A(xcbor.U(g.u(1000)), xcbor.B(g.bytes(5))).Encode()
			return []tsample{
				{0, "hash", xcbor.A(xcbor.U(0), xcbor.B(g.bytes(32)))},
				{1, "inline", xcbor.A(xcbor.U(1), xcbor.Tg(24, xcbor.B(inner)))},
			}
		}},
		{"conway-gov-action", decodeInto[conway.ConwayGovAction], func(g *tgen) []tsample {
			aid := func() *xcbor.Node {
				if g.u(1) == 0 {
					return xcbor.Null()
				}
				return xcbor.A(xcbor.B(g.bytes(32)), xcbor.U(g.u(100)))
			}
			return []tsample{
				{1, "hard-fork", xcbor.A(xcbor.U(1), aid(), xcbor.A(xcbor.U(g.u(20)), xcbor.U(g.u(5))))},
				{3, "no-confidence", xcbor.A(xcbor.U(3), aid())},
				{5, "new-constitution", xcbor.A(xcbor.U(5), aid(), xcbor.A(
					xcbor.A(xcbor.T("https://c.invalid"), xcbor.B(g.bytes(32))), xcbor.Null()))},
				{6, "info", xcbor.A(xcbor.U(6))},
			}
		}},
		{"byron-tx-input", decodeInto[byron.ByronTransactionInput], func(g *tgen) []tsample {
			inner := xcbor.A(xcbor.B(g.bytes(32)), xcbor.U(g.u(1000))).Encode()
			return []tsample{
				{0, "regular", xcbor.A(xcbor.U(0), xcbor.Tg(24, xcbor.B(inner)))},
			}
		}},
		{"peer-address", decodeInto[peersharing.PeerAddress], func(g *tgen) []tsample {
			w := func() *xcbor.Node { return xcbor.U(g.u(0xffffffff)) }
			return []tsample{
				{0, "ipv4", xcbor.A(xcbor.U(0), w(), xcbor.U(g.u(65535)))},
				{1, "ipv6-v13", xcbor.A(xcbor.U(1), w(), w(), w(), w(), xcbor.U(g.u(65535)))},
				{1, "ipv6-v11", xcbor.A(xcbor.U(1), w(), w(), w(), w(), w(), w(), xcbor.U(g.u(65535)))},
			}
		}},
		{"lsq-with-origin-slot", decodeInto[localstatequery.WithOriginSlot], func(g *tgen) []tsample {
			return []tsample{
				{0, "origin", xcbor.A(xcbor.U(0))},
				{1, "at", xcbor.A(xcbor.U(1), xcbor.U(g.u(1<<40)))},
			}
		}},
		{"lsq-relay-access-point", decodeInto[localstatequery.RelayAccessPoint], func(g *tgen) []tsample {
			return []tsample{
				{2, "domain", xcbor.A(xcbor.U(2), xcbor.B([]byte("relay.example")), xcbor.U(g.u(65535)))},
				{3, "srv", xcbor.A(xcbor.U(3), xcbor.B([]byte("_cardano._tcp.example")))},
			}
		}},
	}
}

type headVariant struct {
	form   xcbor.Form
	idWide bool // first element encoded as 0x18 <id> (non-minimal integer)
}

func (h headVariant) String() string {
	s := "head=" + h.form.String()
	if h.idWide {
		s += "+id=w1"
	}
	return s
}

func allHeadVariants() []headVariant {
	var out []headVariant
	for _, f := range xcbor.AllForms {
		out = append(out, headVariant{f, false}, headVariant{f, true})
	}
	return out
}

func applyHead(tree *xcbor.Node, hv headVariant) *xcbor.Node {
	n := tree.Clone()
	if hv.form != xcbor.FormMinimal {
		n.Apply(hv.form, 0)
	}
	if hv.idWide {
		n.Items[0].Width = 1
	}
	return n
}

// TestC03: tagged-sum decoding follows the tag whatever the list-length encoding.
func TestC03(t *testing.T) {
	rec := evi.New(t, "C03", evi.Exploration,
		"every tagged-list variant sample (11 families: native scripts 0-6, certificates, DRep, pool relay, nonce, datum option, Conway gov actions, Byron tx input, peer address, LSQ origin-slot / relay access point) with rapid-drawn field values, its outer list head re-encoded in each of 6 forms (minimal, 1/2/4/8-byte non-minimal, indefinite) x id as immediate or 0x18-prefixed, plus rapid restyling of nested list heads; oracles: cbor.DecodeIdFromList returns the true id or an error; cbor.DecodeById picks the object registered for the true id; the family decoder yields the same variant and fields as for the minimal form, or an error. non-trivial = head form != minimal or id non-minimal or nested restyle applied, and the form was accepted by the decoder; distinct by (family, variant, head variant, nested edits, field bytes)")
	defer rec.Finish()
	rec.Assume("xcbor re-encoding preserves the CBOR data model (self-tested in internal/xcbor)",
		"a decode error on a non-minimal/indefinite form is allowed by the statement (only silent reinterpretation is forbidden)")
	fams := families()
	hvs := allHeadVariants()

	rec.Check(func(rt *rapid.T) {
		g := &tgen{rt}
		fam := fams[rapid.IntRange(0, len(fams)-1).Draw(rt, "family")]
		samples := fam.samples(g)
		s := samples[rapid.IntRange(0, len(samples)-1).Draw(rt, "sample")]
		base := s.tree
		nested := ""
		if rapid.Bool().Draw(rt, "restyleNested") {
			edits := xcbor.Restyle(rt, base, xcbor.StyleOpts{
				MaxEdits: 3,
				Kinds:    map[xcbor.Kind]bool{xcbor.Array: true, xcbor.Uint: true},
				Filter:   func(n *xcbor.Node, path string) bool { return path != "" && path != "/0" },
			})
			nested = xcbor.EditsString(edits)
		}
		minEnc := base.Encode()
		ref, err := fam.decode(minEnc)
		if err != nil {
			if nested == "" {
				t.Fatalf("harness sample %s/%s rejected in minimal form: %v (%x)", fam.name, s.variant, err, minEnc)
			}
			rec.Class("nested_restyle_rejected")
			return
		}
		refDump := dump(ref)

		for _, hv := range hvs {
			enc := applyHead(base, hv).Encode()
			caseObj := map[string]any{"family": fam.name, "variant": s.variant, "id": s.id,
				"head": hv.String(), "nested": nested, "cbor": evi.Hex(enc), "minimal_cbor": evi.Hex(minEnc)}

			// (a) direct: the id extractor
			rec.Eval()
			id, err := cbor.DecodeIdFromList(enc)
			if err == nil && uint64(id) != s.id {
				rec.Fail(rt, fmt.Sprintf("DecodeIdFromList:%s", hv),
					fmt.Sprintf("DecodeIdFromList(%x) = %d, the list's first element is %d (%s/%s)", enc, id, s.id, fam.name, s.variant),
					caseObj)
			}
			if err != nil {
				rec.Class("idextract_error:" + hv.String())
			}

			// (b) DecodeById picks the registered object of the true id
			rec.Eval()
			type other struct {
				cbor.StructAsArray
				X []cbor.RawMessage
			}
			trueObj := &[]cbor.RawMessage{}
			idMap := map[int]any{}
			for i := 0; i < 24; i++ {
				idMap[i] = &other{}
			}
			idMap[int(s.id)] = trueObj
			if got, err := cbor.DecodeById(enc, idMap); err == nil && got != any(trueObj) {
				rec.Fail(rt, fmt.Sprintf("DecodeById:%s", hv),
					fmt.Sprintf("DecodeById(%x) selected the object registered for a different id than %d", enc, s.id), caseObj)
			}

			// (c) the family decoder
			rec.Eval()
			got, err := fam.decode(enc)
			if err != nil {
				rec.Class("form_rejected:" + hv.String())
				continue
			}
			rec.Class("form_accepted:" + hv.String())
			if hv.form != xcbor.FormMinimal || hv.idWide || nested != "" {
				rec.NonTrivial(fmt.Sprintf("%s/%s %s nested=%s %x", fam.name, s.variant, hv, nested, minEnc), caseObj)
			}
			if d := dump(got); d != refDump {
				rec.Fail(rt, fmt.Sprintf("%s:id=%d(%s):%s", fam.name, s.id, s.variant, hv),
					fmt.Sprintf("%s %x (list [%d, ...], %s) decodes to %s but its minimal encoding %x decodes to %s",
						fam.name, enc, s.id, hv, clipS(d, 300), minEnc, clipS(refDump, 300)), caseObj)
			}
		}
	})
}

func clipS(s string, n int) string {
	if len(s) > n {
		return s[:n] + "…"
	}
	return s
}
