package handshake

// C17, history families: "an enabled protocol is always reachable through the
// connection" must keep holding while roles of mini-protocols come and go on a
// full-duplex connection (both roles of one protocol id share the muxer entry),
// and, one level down, on the muxer itself.

import (
	"errors"
	"fmt"
	"strings"
	"sync"
	"time"

	ouroboros "github.com/blinklabs-io/gouroboros"
	"github.com/blinklabs-io/gouroboros/muxer"
	"github.com/blinklabs-io/gouroboros/protocol"
	pcommon "github.com/blinklabs-io/gouroboros/protocol/common"
	"pgregory.net/rapid"

	"verif/harness/internal/evi"
	"verif/harness/internal/rawpeer"
	"verif/harness/internal/xcbor"
)

// ---- restart tracer -------------------------------------------------------------------
//
// A responder that receives the initiator's Done restarts itself inside the
// message handler (Stop / initProtocol / Start). The only race-free way to know
// that the restart is complete (so that a fresh request may be sent without
// hitting the window in which the role is not registered) is the verif tracer:
// "recv_released" is emitted by the receive loop right after the handler of
// that Done message has returned.

type restartTracer struct {
	mu       sync.Mutex
	cond     *sync.Cond
	lastType map[*protocol.Protocol]uint8
	restarts map[uint16]int // protocol id -> completed responder restarts
}

func newRestartTracer() *restartTracer {
	t := &restartTracer{lastType: map[*protocol.Protocol]uint8{}, restarts: map[uint16]int{}}
	t.cond = sync.NewCond(&t.mu)
	return t
}

var doneTag = map[uint16]uint8{mpChainSyncNtN.ID: 7, mpBlockFetch.ID: 1, mpPeerSharing.ID: 2}

func (t *restartTracer) on(ev protocol.VerifEvent) {
	if ev.Role != protocol.ProtocolRoleServer {
		return
	}
	switch ev.Kind {
	case "handler":
		t.mu.Lock()
		t.lastType[ev.P] = ev.MsgType
		t.mu.Unlock()
	case "recv_released":
		t.mu.Lock()
		if d, ok := doneTag[ev.ProtocolId]; ok && t.lastType[ev.P] == d {
			delete(t.lastType, ev.P)
			t.restarts[ev.ProtocolId]++
			t.cond.Broadcast()
		}
		t.mu.Unlock()
	}
}

func (t *restartTracer) reset() {
	t.mu.Lock()
	t.lastType = map[*protocol.Protocol]uint8{}
	t.restarts = map[uint16]int{}
	t.mu.Unlock()
}

func (t *restartTracer) count(id uint16) int {
	t.mu.Lock()
	defer t.mu.Unlock()
	return t.restarts[id]
}

// wait until restarts[id] > before; false on timeout.
func (t *restartTracer) wait(id uint16, before int, d time.Duration) bool {
	stop := time.AfterFunc(d, func() { t.mu.Lock(); t.cond.Broadcast(); t.mu.Unlock() })
	defer stop.Stop()
	deadline := time.Now().Add(d)
	t.mu.Lock()
	defer t.mu.Unlock()
	for t.restarts[id] <= before {
		if time.Now().After(deadline) {
			return false
		}
		t.cond.Wait()
	}
	return true
}

// ---- connection error collector ------------------------------------------------------------

type errCollector struct {
	mu     sync.Mutex
	errs   []string
	closed bool
	done   chan struct{}
}

func collectErrors(c *ouroboros.Connection) *errCollector {
	ec := &errCollector{done: make(chan struct{})}
	go func() {
		for e := range c.ErrorChan() {
			ec.mu.Lock()
			ec.errs = append(ec.errs, e.Error())
			ec.mu.Unlock()
		}
		ec.mu.Lock()
		ec.closed = true
		ec.mu.Unlock()
		close(ec.done)
	}()
	return ec
}

func (ec *errCollector) snapshot() ([]string, bool) {
	ec.mu.Lock()
	defer ec.mu.Unlock()
	return append([]string(nil), ec.errs...), ec.closed
}

// ---- duplex history family -------------------------------------------------------------------

type probeStatus int

const (
	probeOK     probeStatus = iota
	probeSlow               // a bound expired without any explicit failure: inconclusive, never a violation
	probeFailed             // explicit failure: error returned, connection error, connection closed
)

// nextRequest reads the next initiator->responder message on a protocol,
// skipping the Done a stopped client may (or may not) have flushed.
func nextRequest(peer *rawpeer.Peer, id uint16, skip uint8, hasSkip bool) ([]byte, error) {
	for {
		m, err := peer.NextMsg(id, false, longWait)
		if err != nil {
			return nil, err
		}
		if tag, ok := msgTag(m); ok && hasSkip && tag == uint64(skip) {
			continue
		}
		return m, nil
	}
}

func c17DuplexHistory(rt *rapid.T, rec *evi.Recorder, tracer *restartTracer) {
	var cs c17Case
	cs.Cfg = connCfg{Mode: "ntn", Server: rapid.Bool().Draw(rt, "dhServer"), FullDuplex: true,
		PeerSharing: rapid.Bool().Draw(rt, "dhPeerSharing"), Magic: genMagic(rt, "dhMagic")}
	cs.Version = rapid.SampledFrom(refTable("ntn")).Draw(rt, "dhVersion")
	cs.PeerIO = false
	vi, _ := refVersion(cs.Version)
	switch vi.Fam {
	case famNtN11:
		cs.PeerPS = uint64(rapid.IntRange(0, 2).Draw(rt, "dhPeerPS"))
	case famNtN13:
		cs.PeerPS = uint64(rapid.IntRange(0, 1).Draw(rt, "dhPeerPS"))
	}
	psOn := vi.PeerSharing && cs.Cfg.PeerSharing && peerSharingOn(vi.Fam, cs.PeerPS)

	tracer.reset()
	log := &callLog{calls: map[string]int{}}
	a, b := rawpeer.Pipe(genPlan(rt, "dhPlanLib"), genPlan(rt, "dhPlanPeer"))
	peer := rawpeer.NewPeer(b)
	defer peer.Close()
	resCh := startConn(cs.Cfg.options(append(callbackOptions(log), ouroboros.WithConnection(a))...))
	caseObj := map[string]any{"case": "duplex-history " + cs.String()}
	if cs.Cfg.Server {
		reply, err := peer.ProposeHandshake(cs.Version, cs.peerData(), longWait)
		if tag, _ := msgTag(reply); err != nil || tag != 1 {
			rec.Fail(rt, "handshake:not-accepted", fmt.Sprintf("%s: %x %v", cs, reply, err), caseObj)
			return
		}
	} else {
		msg, err := peer.NextMsg(0, false, longWait)
		if err != nil {
			rec.Fail(rt, "handshake:no-proposal", fmt.Sprintf("%s: %v", cs, err), caseObj)
			return
		}
		if prop, err := parseProposal(msg); err != nil || !prop.has(cs.Version) {
			rec.Fail(rt, "handshake:version-not-proposed", fmt.Sprintf("%s: proposal %x", cs, msg), caseObj)
			return
		}
		_ = peer.SendMsg(0, true, xcbor.A(xcbor.U(1), xcbor.U(cs.Version), cs.peerData()).Encode())
	}
	r, ok := await(resCh)
	if !ok || r.Err != nil || r.Conn == nil {
		caseObj["goroutines"] = goroutineDump()
		rec.Fail(rt, "handshake:failed", fmt.Sprintf("%s: NewConnection: ok=%v err=%v", cs, ok, r.Err), caseObj)
		return
	}
	conn := r.Conn
	ec := collectErrors(conn)
	defer func() {
		done := make(chan struct{})
		go func() { _ = conn.Close(); close(done) }()
		select {
		case <-ec.done:
		case <-time.After(longWait):
		}
		select {
		case <-done:
		case <-time.After(longWait):
		}
	}()
	rec.Eval()
	rec.Class("family:duplex-history")

	// the per-protocol model the peer keeps
	type pstate struct {
		serverInited bool   // tx-submission: the peer already sent Init
		clientInited bool   // tx-submission: the local client already sent Init
		lastUnreg    string // last role-unregistering operation on this protocol id
		skipDone     bool   // a stopped local client may have left a Done on the wire
	}
	st := map[uint16]*pstate{}
	protos := []miniProto{mpChainSyncNtN, mpBlockFetch, mpTxSubmission, mpKeepAlive}
	if psOn {
		protos = append(protos, mpPeerSharing)
	}
	for _, p := range protos {
		st[p.ID] = &pstate{lastUnreg: "none"}
	}
	var history []string
	caseObj["history"] = &history

	// judge turns a probe result into a verdict; returns false when the case must stop
	verdict := func(role string, p miniProto, s probeStatus, what string) bool {
		errs, closed := ec.snapshot()
		if s == probeOK && len(errs) == 0 && !closed {
			return true
		}
		if s == probeSlow && len(errs) == 0 && !closed {
			// slowness is never a violation
			rec.Class("duplex-history:inconclusive-slow")
			return false
		}
		caseObj["connection_errors"] = errs
		caseObj["callbacks"] = log.String()
		after := st[p.ID].lastUnreg
		if after == "none" {
			for _, q := range protos {
				if st[q.ID].lastUnreg != "none" {
					after = "other-protocol-" + st[q.ID].lastUnreg
				}
			}
		}
		unknown := ""
		for _, e := range errs {
			if strings.Contains(e, "unknown protocol") {
				unknown = ":unknown-protocol"
			}
		}
		rec.Fail(rt, fmt.Sprintf("reach:duplex-history:%s:%s:lost-after:%s%s", role, p.Name, after, unknown),
			fmt.Sprintf("%s: after history %v the %s role of %s (protocol %d) is no longer reachable: %s; connection errors %v, closed=%v",
				cs, history, role, p.Name, p.ID, what, errs, closed), caseObj)
		return false
	}
	explicit := func(err error) probeStatus {
		if errors.Is(err, rawpeer.ErrTimeout) {
			return probeSlow
		}
		return probeFailed
	}

	probeResponder := func(p miniProto) (probeStatus, string) {
		before := log.get(p.Callback)
		if err := peer.SendMsg(p.ID, false, p.Request); err != nil {
			return probeFailed, "send: " + err.Error()
		}
		if p.ReplyTag != noReply {
			m, err := peer.NextMsg(p.ID, true, longWait)
			if err != nil {
				return explicit(err), fmt.Sprintf("request %x got no answer: %v", p.Request, err)
			}
			if tag, _ := msgTag(m); tag != p.ReplyTag {
				return probeFailed, fmt.Sprintf("request %x answered with %x", p.Request, m)
			}
		}
		if p.Callback != "" {
			deadline := time.Now().Add(longWait)
			for log.get(p.Callback) == before && time.Now().Before(deadline) {
				if _, closed := ec.snapshot(); closed {
					return probeFailed, "connection closed before the responder callback fired"
				}
				time.Sleep(200 * time.Microsecond)
			}
			if log.get(p.Callback) == before {
				return probeSlow, "callback not fired within the bound"
			}
		}
		return probeOK, ""
	}
	probeInitiator := func(p miniProto) (probeStatus, string) {
		var run func() error
		var reply []byte
		switch p.ID {
		case mpChainSyncNtN.ID:
			run = func() error { _, err := conn.ChainSync().Client.GetCurrentTip(); return err }
			reply = xcbor.A(xcbor.U(6), xcbor.A(pt(), xcbor.U(9))).Encode()
		case mpBlockFetch.ID:
			run = func() error {
				_, err := conn.BlockFetch().Client.GetBlock(pcommon.NewPoint(1, hash32))
				if err != nil && !errors.Is(err, protocol.ErrProtocolShuttingDown) {
					return nil // "no blocks" is the expected answer to NoBlocks
				}
				return err
			}
			reply = xcbor.A(xcbor.U(3)).Encode()
		case mpPeerSharing.ID:
			run = func() error { _, err := conn.PeerSharing().Client.GetPeers(3); return err }
			reply = xcbor.A(xcbor.U(1), xcbor.A()).Encode()
		case mpTxSubmission.ID:
			run = func() error { conn.TxSubmission().Client.Init(); return nil }
		}
		done := make(chan error, 1)
		go func() { done <- run() }()
		m, err := nextRequest(peer, p.ID, doneTag[p.ID], st[p.ID].skipDone)
		if err != nil {
			return explicit(err), fmt.Sprintf("client call made but no request arrived: %v", err)
		}
		if reply != nil {
			if err := peer.SendMsg(p.ID, true, reply); err != nil {
				return probeFailed, "send: " + err.Error()
			}
		}
		select {
		case err := <-done:
			if err != nil {
				return probeFailed, fmt.Sprintf("request %x answered with %x, call returned: %v", m, reply, err)
			}
		case <-time.After(longWait):
			return probeSlow, "call did not return within the bound"
		}
		return probeOK, ""
	}

	nOps := rapid.IntRange(3, 10).Draw(rt, "dhOps")
	for i := 0; i < nOps; i++ {
		p := rapid.SampledFrom(protos).Draw(rt, "dhProto")
		s := st[p.ID]
		kinds := []string{"peer-request", "local-call"}
		if _, ok := doneTag[p.ID]; ok {
			kinds = append(kinds, "peer-done", "peer-done")
		}
		if p.ID == mpChainSyncNtN.ID || p.ID == mpBlockFetch.ID {
			kinds = append(kinds, "local-stop-start", "local-stop-start")
		}
		kind := rapid.SampledFrom(kinds).Draw(rt, "dhKind")
		switch kind {
		case "peer-request":
			if p.ID == mpTxSubmission.ID {
				if s.serverInited {
					continue
				}
				s.serverInited = true
			}
			history = append(history, "peer-request:"+p.Name)
			ps, what := probeResponder(p)
			if !verdict("responder", p, ps, what) {
				return
			}
			rec.Class("duplex-history:responder-probe-after:" + s.lastUnreg)
		case "local-call":
			if p.ID == mpKeepAlive.ID {
				continue // keep-alives were not switched on; the client never started
			}
			if p.ID == mpTxSubmission.ID {
				if s.clientInited {
					continue
				}
				s.clientInited = true
			}
			history = append(history, "local-call:"+p.Name)
			ps, what := probeInitiator(p)
			if !verdict("initiator", p, ps, what) {
				return
			}
			rec.Class("duplex-history:initiator-probe-after:" + s.lastUnreg)
		case "peer-done":
			// the peer's initiator ends the protocol; the local responder restarts
			history = append(history, "peer-done:"+p.Name)
			before := tracer.count(p.ID)
			if err := peer.SendMsg(p.ID, false, xcbor.A(xcbor.U(uint64(doneTag[p.ID]))).Encode()); err != nil {
				verdict("responder", p, probeFailed, "send: "+err.Error())
				return
			}
			if !tracer.wait(p.ID, before, longWait) {
				if !verdict("responder", p, probeSlow, "restart not observed") {
					return
				}
			}
			s.lastUnreg = "peer-done"
			rec.Class("duplex-history:op:peer-done")
		case "local-stop-start":
			history = append(history, "local-stop-start:"+p.Name)
			stopStart := make(chan struct{})
			go func() {
				if p.ID == mpChainSyncNtN.ID {
					_ = conn.ChainSync().Client.Stop()
					conn.ChainSync().Client.Start()
				} else {
					_ = conn.BlockFetch().Client.Stop()
					conn.BlockFetch().Client.Start()
				}
				close(stopStart)
			}()
			select {
			case <-stopStart:
			case <-time.After(longWait):
				verdict("initiator", p, probeSlow, "Stop/Start did not return")
				return
			}
			s.lastUnreg = "local-stop-start"
			s.skipDone = true
			rec.Class("duplex-history:op:local-stop-start")
		}
	}
	// closing round: every enabled protocol must still be reachable in both
	// roles (repeatable requests only), keep-alive last as the liveness check
	for _, p := range protos {
		if p.ID == mpTxSubmission.ID {
			continue
		}
		history = append(history, "final-peer-request:"+p.Name)
		ps, what := probeResponder(p)
		if !verdict("responder", p, ps, what) {
			return
		}
		if p.ID == mpKeepAlive.ID {
			continue
		}
		history = append(history, "final-local-call:"+p.Name)
		ps, what = probeInitiator(p)
		if !verdict("initiator", p, ps, what) {
			return
		}
	}
	if !verdict("responder", mpKeepAlive, probeOK, "") {
		return
	}
	rec.NonTrivial("duplex-history|"+cs.String()+"|"+strings.Join(history, ","), map[string]any{"case": caseObj["case"], "history": history})
}

// ---- muxer-level model ---------------------------------------------------------------------------

// c17MuxerModel: on a bare muxer in InitiatorAndResponder mode, (protocol id,
// role) pairs are registered and unregistered in a generated order; the model
// is the set of currently registered pairs. A segment addressed to a registered
// pair must come out of that pair's receive channel and must not stop the muxer.
func c17MuxerModel(rt *rapid.T, rec *evi.Recorder) {
	a, b := rawpeer.Pipe(genPlan(rt, "mmPlanLib"), nil)
	m := muxer.New(a)
	m.SetDiffusionMode(muxer.DiffusionModeInitiatorAndResponder)
	m.Start()
	defer func() {
		m.Stop()
		deadline := time.After(longWait)
		for {
			select {
			case _, open := <-m.ErrorChan():
				if !open {
					_ = b.Close()
					return
				}
			case <-deadline:
				_ = b.Close()
				return
			}
		}
	}()
	rec.Eval()
	rec.Class("family:muxer-model")
	type pair struct {
		id   uint16
		role muxer.ProtocolRole
	}
	roleName := map[muxer.ProtocolRole]string{muxer.ProtocolRoleInitiator: "initiator", muxer.ProtocolRoleResponder: "responder"}
	ids := []uint16{2, 3}
	reg := map[pair]chan *muxer.Segment{}
	var history []string
	caseObj := map[string]any{"case": "muxer-model", "history": &history}
	lastUnreg := map[uint16]string{}
	nOps := rapid.IntRange(4, 24).Draw(rt, "mmOps")
	seq := 0
	for i := 0; i < nOps; i++ {
		pr := pair{rapid.SampledFrom(ids).Draw(rt, "mmId"), muxer.ProtocolRoleInitiator}
		if rapid.Bool().Draw(rt, "mmResponder") {
			pr.role = muxer.ProtocolRoleResponder
		}
		ch, isReg := reg[pr]
		op := rapid.SampledFrom([]string{"toggle", "send", "send"}).Draw(rt, "mmOp")
		switch {
		case op == "toggle" && !isReg:
			_, recv, doneCh := m.RegisterProtocol(pr.id, pr.role)
			if doneCh == nil {
				rec.Fail(rt, "muxer-model:register-refused", fmt.Sprintf("RegisterProtocol(%d,%s) refused after %v", pr.id, roleName[pr.role], history), caseObj)
				return
			}
			reg[pr] = recv
			history = append(history, fmt.Sprintf("register(%d,%s)", pr.id, roleName[pr.role]))
		case op == "toggle":
			m.UnregisterProtocol(pr.id, pr.role)
			delete(reg, pr)
			lastUnreg[pr.id] = roleName[pr.role]
			history = append(history, fmt.Sprintf("unregister(%d,%s)", pr.id, roleName[pr.role]))
		case isReg:
			seq++
			payload := []byte(fmt.Sprintf("seg-%d", seq))
			history = append(history, fmt.Sprintf("send(%d,%s)", pr.id, roleName[pr.role]))
			if _, err := b.Write(rawpeer.Frame(rawpeer.Seg{ProtoID: pr.id, Response: pr.role == muxer.ProtocolRoleInitiator, Payload: payload})); err != nil {
				rec.Fail(rt, "muxer-model:connection-closed", fmt.Sprintf("write failed after %v: %v", history, err), caseObj)
				return
			}
			other := "none"
			if r, ok := lastUnreg[pr.id]; ok {
				other = "unregister-of-" + r
			}
			select {
			case seg, open := <-ch:
				if !open || string(seg.Payload) != string(payload) {
					rec.Fail(rt, fmt.Sprintf("muxer-model:registered-%s-not-delivered:after-%s", roleName[pr.role], other),
						fmt.Sprintf("history %v: segment for registered (%d,%s) not delivered (channel open=%v)", history, pr.id, roleName[pr.role], open), caseObj)
					return
				}
				rec.Class("muxer-model:delivered-after:" + other)
			case err, open := <-m.ErrorChan():
				rec.Fail(rt, fmt.Sprintf("muxer-model:registered-%s-killed-muxer:after-%s", roleName[pr.role], other),
					fmt.Sprintf("history %v: segment for registered (%d,%s) stopped the muxer: %v (open=%v)", history, pr.id, roleName[pr.role], err, open), caseObj)
				return
			case <-time.After(longWait):
				rec.Class("muxer-model:inconclusive-slow")
				return
			}
		}
	}
	rec.NonTrivial("muxer-model|"+strings.Join(history, ","), map[string]any{"case": "muxer-model", "history": history})
}
