package handshake

import (
	"errors"
	"fmt"
	"sort"
	"testing"

	ouroboros "github.com/blinklabs-io/gouroboros"
	"github.com/blinklabs-io/gouroboros/protocol"
	hs "github.com/blinklabs-io/gouroboros/protocol/handshake"
	"pgregory.net/rapid"

	"verif/harness/internal/evi"
	"verif/harness/internal/rawpeer"
	"verif/harness/internal/xcbor"
)

// hsSide is what one endpoint offers: a sub-table of one reference table with
// one magic and one set of flags (as every table constructor of the library
// produces).
type hsSide struct {
	Table         string
	Versions      []uint64 // ascending
	Magic         uint32
	InitiatorOnly bool
	PeerSharing   bool
	Query         bool
}

func (s hsSide) String() string {
	return fmt.Sprintf("%s{%s} magic=%d io=%v ps=%v q=%v", s.Table, versionsString(s.Versions), s.Magic, s.InitiatorOnly, s.PeerSharing, s.Query)
}

func (s hsSide) has(v uint64) bool {
	for _, x := range s.Versions {
		if x == v {
			return true
		}
	}
	return false
}

// offered is the abstract version data the side offers for version v, as the
// specification defines the table entries.
func (s hsSide) offered(v uint64) vdata {
	vi, _ := refVersion(v)
	d := vdata{Magic: uint64(s.Magic), InitiatorOnly: true}
	switch vi.Fam {
	case famNtC15:
		d.Query = s.Query
	case famNtN7:
		d.InitiatorOnly = s.InitiatorOnly
	case famNtN11:
		d.InitiatorOnly = s.InitiatorOnly
		d.Query = s.Query
		if s.PeerSharing {
			d.PeerSharing = 2 // v11/12: 2 = public
		}
	case famNtN13:
		d.InitiatorOnly = s.InitiatorOnly
		d.Query = s.Query
		if s.PeerSharing {
			d.PeerSharing = 1
		}
	}
	return d
}

// asksQuery: the proposal carries a set query flag (only families with the field can).
func (s hsSide) asksQuery() bool {
	if !s.Query {
		return false
	}
	for _, v := range s.Versions {
		vi, _ := refVersion(v)
		if vi.Fam == famNtC15 || vi.Fam == famNtN11 || vi.Fam == famNtN13 {
			return true
		}
	}
	return false
}

func sideOfConn(c connCfg) hsSide {
	return hsSide{Table: c.table(), Versions: refTable(c.table()), Magic: c.Magic, InitiatorOnly: !c.FullDuplex, PeerSharing: c.PeerSharing, Query: c.Query}
}

// ---- the reference -------------------------------------------------------------------

type c18Expect struct {
	Kind    string // accept | mismatch | refused-magic | query
	Version uint64 // accept / refused-magic
	// QueryCorner: query asked but there is no common version or the magics
	// differ; the specification's reference implementation refuses there, the
	// statement asks for the table. Either is tolerated (counted).
	QueryCorner bool
}

func maxCommon(c, s []uint64) (uint64, bool) {
	in := map[uint64]bool{}
	for _, v := range s {
		in[v] = true
	}
	var best uint64
	found := false
	for _, v := range c {
		if in[v] && (!found || v > best) {
			best, found = v, true
		}
	}
	return best, found
}

func c18Ref(c, s hsSide) c18Expect {
	v, common := maxCommon(c.Versions, s.Versions)
	if c.asksQuery() {
		return c18Expect{Kind: "query", QueryCorner: !common || c.Magic != s.Magic}
	}
	switch {
	case !common:
		return c18Expect{Kind: "mismatch"}
	case c.Magic != s.Magic:
		return c18Expect{Kind: "refused-magic", Version: v}
	}
	return c18Expect{Kind: "accept", Version: v}
}

// dataMatches compares library-reported version data with the abstract data the
// peer offered for version v. "" when equal.
func dataMatches(v uint64, got protocol.VersionData, want vdata) string {
	if got == nil {
		return "nil version data"
	}
	vi, _ := refVersion(v)
	if uint64(got.NetworkMagic()) != want.Magic {
		return fmt.Sprintf("magic %d, peer offered %d", got.NetworkMagic(), want.Magic)
	}
	if got.DiffusionMode() != want.InitiatorOnly {
		return fmt.Sprintf("initiator-only %v, peer offered %v", got.DiffusionMode(), want.InitiatorOnly)
	}
	if got.PeerSharing() != peerSharingOn(vi.Fam, want.PeerSharing) {
		return fmt.Sprintf("peer sharing %v, peer offered %d", got.PeerSharing(), want.PeerSharing)
	}
	if got.Query() != want.Query {
		return fmt.Sprintf("query %v, peer offered %v", got.Query(), want.Query)
	}
	return ""
}

func sortedU16(vs []uint16) bool {
	return sort.SliceIsSorted(vs, func(i, j int) bool { return vs[i] < vs[j] })
}

func equalVersions(got []uint16, want []uint64) bool {
	if len(got) != len(want) {
		return false
	}
	for i := range got {
		if uint64(got[i]) != want[i] {
			return false
		}
	}
	return true
}

// ---- generators ----------------------------------------------------------------------

func genConnPair(rt *rapid.T) (cc, sc connCfg) {
	modes := []string{"ntn", "ntc", "dmq"}
	cc.Mode = rapid.SampledFrom(modes).Draw(rt, "cMode")
	if rapid.IntRange(0, 4).Draw(rt, "sameMode") != 0 {
		sc.Mode = cc.Mode
	} else {
		sc.Mode = rapid.SampledFrom(modes).Draw(rt, "sMode")
	}
	sc.Server = true
	cc.Magic = genMagic(rt, "cMagic")
	if rapid.IntRange(0, 3).Draw(rt, "sameMagic") != 0 {
		sc.Magic = cc.Magic
	} else {
		sc.Magic = genMagic(rt, "sMagic")
	}
	cc.FullDuplex, sc.FullDuplex = rapid.Bool().Draw(rt, "cFD"), rapid.Bool().Draw(rt, "sFD")
	cc.PeerSharing, sc.PeerSharing = rapid.Bool().Draw(rt, "cPS"), rapid.Bool().Draw(rt, "sPS")
	cc.Query = rapid.IntRange(0, 5).Draw(rt, "cQuery") == 5
	sc.Query = rapid.IntRange(0, 9).Draw(rt, "sQuery") == 9
	return
}

// genSidePair draws two sub-tables biased to the shapes that matter: disjoint,
// nested, overlapping by one, single-version, different tables.
func genSidePair(rt *rapid.T) (c, s hsSide) {
	c.Table = rapid.SampledFrom(allTables).Draw(rt, "cTable")
	if rapid.IntRange(0, 5).Draw(rt, "sameTable") != 0 {
		s.Table = c.Table
	} else {
		s.Table = rapid.SampledFrom(allTables).Draw(rt, "sTable")
	}
	ct, st := refTable(c.Table), refTable(s.Table)
	shape := rapid.SampledFrom([]string{"free", "free", "disjoint-split", "nested", "touch", "single"}).Draw(rt, "shape")
	if c.Table != s.Table || len(ct) < 2 {
		shape = "free"
	}
	switch shape {
	case "disjoint-split":
		k := rapid.IntRange(1, len(ct)-1).Draw(rt, "splitAt")
		lo, hi := genSubset(rt, ct[:k], "lo"), genSubset(rt, ct[k:], "hi")
		if rapid.Bool().Draw(rt, "clientLow") {
			c.Versions, s.Versions = lo, hi
		} else {
			c.Versions, s.Versions = hi, lo
		}
	case "nested":
		outer := genSubset(rt, ct, "outer")
		inner := genSubset(rt, outer, "inner")
		if rapid.Bool().Draw(rt, "clientOuter") {
			c.Versions, s.Versions = outer, inner
		} else {
			c.Versions, s.Versions = inner, outer
		}
	case "touch": // ranges sharing exactly one version
		k := rapid.IntRange(0, len(ct)-1).Draw(rt, "touchAt")
		lo, hi := append([]uint64(nil), ct[:k+1]...), append([]uint64(nil), ct[k:]...)
		if rapid.Bool().Draw(rt, "clientLow") {
			c.Versions, s.Versions = lo, hi
		} else {
			c.Versions, s.Versions = hi, lo
		}
	case "single":
		c.Versions = []uint64{rapid.SampledFrom(ct).Draw(rt, "cOne")}
		s.Versions = genSubset(rt, st, "sSub")
	default:
		c.Versions, s.Versions = genSubset(rt, ct, "cSub"), genSubset(rt, st, "sSub")
	}
	c.Magic = genMagic(rt, "cMagic")
	if rapid.IntRange(0, 3).Draw(rt, "sameMagic") != 0 {
		s.Magic = c.Magic
	} else {
		s.Magic = genMagic(rt, "sMagic")
	}
	c.InitiatorOnly, s.InitiatorOnly = rapid.Bool().Draw(rt, "cIO"), rapid.Bool().Draw(rt, "sIO")
	c.PeerSharing, s.PeerSharing = rapid.Bool().Draw(rt, "cPS"), rapid.Bool().Draw(rt, "sPS")
	c.Query = rapid.IntRange(0, 5).Draw(rt, "cQuery") == 5
	s.Query = rapid.IntRange(0, 9).Draw(rt, "sQuery") == 9
	return
}

func (s hsSide) libMap() protocol.ProtocolVersionMap {
	return libVersionMap(s.Table, s.Versions, s.Magic, s.InitiatorOnly, s.PeerSharing, s.Query)
}

// ---- observed outcome of one endpoint ---------------------------------------------------

type endOutcome struct {
	Finished bool
	Version  uint16
	Data     protocol.VersionData
	Err      error
	QueryMap protocol.ProtocolVersionMap
	TimedOut bool
}

func (o endOutcome) String() string {
	switch {
	case o.TimedOut:
		return "no outcome (timeout)"
	case o.Finished:
		return fmt.Sprintf("finished v=%s", verName(uint64(o.Version)))
	}
	return "error: " + errString(o.Err)
}

func connOutcome(ch <-chan connResult) (endOutcome, *ouroboros.Connection) {
	r, ok := await(ch)
	if !ok {
		return endOutcome{TimedOut: true}, nil
	}
	if r.Err != nil || r.Conn == nil {
		return endOutcome{Err: r.Err}, nil
	}
	v, d := r.Conn.ProtocolVersion()
	return endOutcome{Finished: true, Version: v, Data: d, QueryMap: r.Conn.QueryReplyVersionMap()}, r.Conn
}

func directOutcome(d *directEnd) endOutcome {
	fin, err, ok := d.outcome()
	if !ok {
		return endOutcome{TimedOut: true}
	}
	o := endOutcome{Err: err}
	if fin != nil {
		o.Finished, o.Version, o.Data = true, fin.Version, fin.Data
	}
	select {
	case m := <-d.QueryRep:
		o.QueryMap = m
	default:
	}
	return o
}

// ---- judging a cooperative library-vs-library handshake ----------------------------------

// judgePair applies the reference to the two observed outcomes. It returns the
// finding key ("" = as specified) and a description.
func judgePair(c, s hsSide, exp c18Expect, co, so endOutcome, rec *evi.Recorder, responderIsHarness bool) (key, what string) {
	if co.TimedOut || so.TimedOut {
		return "hang:" + exp.Kind, fmt.Sprintf("client: %v; server: %v", co, so)
	}
	judgeMismatch := func() (string, string) {
		var vm *hs.VersionMismatchError
		switch {
		case so.Finished:
			return "mismatch:server-finished", fmt.Sprintf("no common version but the server finished with %s", verName(uint64(so.Version)))
		case co.Finished:
			return "mismatch:client-finished", fmt.Sprintf("no common version but the client finished with %s", verName(uint64(co.Version)))
		case !errors.As(co.Err, &vm):
			return "mismatch:refusal-not-reported", fmt.Sprintf("client did not report the version-mismatch refusal, got: %v", co.Err)
		case !sortedU16(vm.SupportedVersions):
			return "mismatch:list-not-ascending", fmt.Sprintf("refusal lists %v", vm.SupportedVersions)
		case !equalVersions(vm.SupportedVersions, s.Versions):
			return "mismatch:list-differs-from-responder-table", fmt.Sprintf("refusal lists %v, responder offers {%s}", vm.SupportedVersions, versionsString(s.Versions))
		}
		return "", ""
	}
	judgeRefused := func(v uint64) (string, string) {
		var re *hs.RefusedError
		switch {
		case so.Finished:
			return "magic-mismatch:server-finished", fmt.Sprintf("magics differ but the server finished with %s", verName(uint64(so.Version)))
		case co.Finished:
			return "magic-mismatch:client-finished", fmt.Sprintf("magics differ but the client finished with %s", verName(uint64(co.Version)))
		case !errors.As(co.Err, &re):
			return "magic-mismatch:refusal-not-reported", fmt.Sprintf("client did not report the refusal, got: %v", co.Err)
		case uint64(re.Version) != v:
			return "magic-mismatch:refusal-names-wrong-version", fmt.Sprintf("refusal names %s, best common version is %s", verName(uint64(re.Version)), verName(v))
		}
		return "", ""
	}
	switch exp.Kind {
	case "mismatch":
		return judgeMismatch()
	case "refused-magic":
		return judgeRefused(exp.Version)
	case "accept":
		v := exp.Version
		switch {
		case !co.Finished && !so.Finished:
			return "accept:neither-finished", fmt.Sprintf("best common version %s with equal magics, but client: %v; server: %v", verName(v), co, so)
		case !co.Finished:
			return "accept:client-not-finished", fmt.Sprintf("server finished with %s, client: %v", verName(uint64(so.Version)), co)
		case !so.Finished:
			return "accept:server-not-finished", fmt.Sprintf("client finished with %s, server: %v", verName(uint64(co.Version)), so)
		case co.Version != so.Version:
			return "accept:versions-disagree", fmt.Sprintf("client %s, server %s", verName(uint64(co.Version)), verName(uint64(so.Version)))
		case uint64(co.Version) != v:
			rel := "lower"
			if uint64(co.Version) > v {
				rel = "other"
			}
			return "accept:not-best-common:" + rel, fmt.Sprintf("both finished with %s, best common version is %s", verName(uint64(co.Version)), verName(v))
		}
		if w := dataMatches(v, co.Data, s.offered(v)); w != "" {
			return "accept:client-reports-wrong-data", "client reports " + w
		}
		if !responderIsHarness {
			if w := dataMatches(v, so.Data, c.offered(v)); w != "" {
				return "accept:server-reports-wrong-data", "server reports " + w
			}
		}
		return "", ""
	case "query":
		if so.Finished {
			return "query:server-selected-version", fmt.Sprintf("query handshake but the server finished with %s", verName(uint64(so.Version)))
		}
		if !co.Finished {
			if exp.QueryCorner {
				// the specification's reference implementation refuses here
				rec.Class("query-corner:refused")
				v, common := maxCommon(c.Versions, s.Versions)
				if !common {
					return judgeMismatch()
				}
				return judgeRefused(v)
			}
			return "query:client-failed", fmt.Sprintf("query handshake did not complete on the client: %v", co.Err)
		}
		if exp.QueryCorner {
			rec.Class("query-corner:table-returned")
		}
		if co.Version != 0 || co.Data != nil {
			return "query:version-selected", fmt.Sprintf("query handshake selected %s", verName(uint64(co.Version)))
		}
		if co.QueryMap == nil {
			return "query:no-table", "client has no query reply table"
		}
		var got []uint64
		for v := range co.QueryMap {
			got = append(got, uint64(v))
		}
		sort.Slice(got, func(i, j int) bool { return got[i] < got[j] })
		if fmt.Sprint(got) != fmt.Sprint(s.Versions) {
			return "query:table-differs", fmt.Sprintf("query reply table {%s}, responder offers {%s}", versionsString(got), versionsString(s.Versions))
		}
		for _, v := range s.Versions {
			if w := dataMatches(v, co.QueryMap[uint16(v)], s.offered(v)); w != "" {
				return "query:table-entry-wrong", fmt.Sprintf("entry %s: %s", verName(v), w)
			}
		}
		return "", ""
	}
	return "harness:bad-expectation", exp.Kind
}

// ---- raw proposer against a library responder ------------------------------------------

type rawProposal struct {
	Keys  []uint64 // in wire order
	Data  map[uint64]*xcbor.Node
	Notes []string
}

func (p rawProposal) encode() []byte {
	var kv []*xcbor.Node
	for _, k := range p.Keys {
		kv = append(kv, xcbor.U(k), p.Data[k])
	}
	return xcbor.A(xcbor.U(0), xcbor.M(kv...)).Encode()
}

// genRawProposal builds a proposal no library client can make: versions of
// several tables, unknown version numbers, and optionally broken data for one
// entry. Query flags are uniform (all entries that have the field share it).
func genRawProposal(rt *rapid.T, s hsSide) (p rawProposal, magic uint32, query bool, badVersion uint64, badKind string) {
	p.Data = map[uint64]*xcbor.Node{}
	magic = s.Magic
	if rapid.IntRange(0, 3).Draw(rt, "pForeign") == 0 {
		magic = otherMagic(rt, s.Magic, "pMagic")
	}
	query = rapid.IntRange(0, 5).Draw(rt, "pQuery") == 5
	set := map[uint64]bool{}
	// mostly the responder's table, sometimes another
	t := s.Table
	if rapid.IntRange(0, 4).Draw(rt, "pOtherTable") == 0 {
		t = rapid.SampledFrom(allTables).Draw(rt, "pTable")
	}
	if rapid.IntRange(0, 9).Draw(rt, "pEmpty") != 0 {
		for _, v := range genSubset(rt, refTable(t), "pSub") {
			set[v] = true
		}
	}
	if rapid.IntRange(0, 2).Draw(rt, "pMix") == 0 {
		t2 := rapid.SampledFrom(allTables).Draw(rt, "pTable2")
		for _, v := range genSubset(rt, refTable(t2), "pSub2") {
			set[v] = true
		}
	}
	nUnknown := rapid.IntRange(0, 2).Draw(rt, "pUnknownN")
	for i := 0; i < nUnknown; i++ {
		v := rapid.SampledFrom([]uint64{0, 3, 6, 16, 17, 100, dmqNtcBit, dmqNtcBit + 2, ntcBit + 1, ntcBit + 8, ntcBit + 22, 0xffff}).Draw(rt, "pUnknown")
		set[v] = true
	}
	for v := range set {
		p.Keys = append(p.Keys, v)
	}
	sort.Slice(p.Keys, func(i, j int) bool { return p.Keys[i] < p.Keys[j] })
	io, ps := rapid.Bool().Draw(rt, "pIO"), rapid.Bool().Draw(rt, "pPS")
	for _, v := range p.Keys {
		vi, known := refVersion(v)
		if !known {
			p.Data[v] = refData(rapid.SampledFrom(allFamilies).Draw(rt, "pUnkFam"), vdata{Magic: uint64(magic), InitiatorOnly: io, Query: query})
			continue
		}
		side := hsSide{Magic: magic, InitiatorOnly: io, PeerSharing: ps, Query: query}
		p.Data[v] = refData(vi.Fam, side.offered(v))
	}
	// break the data of one known entry
	if len(p.Keys) > 0 && rapid.IntRange(0, 4).Draw(rt, "pBreak") == 0 {
		v := rapid.SampledFrom(p.Keys).Draw(rt, "pBreakV")
		if vi, known := refVersion(v); known {
			badVersion = v
			switch rapid.IntRange(0, 3).Draw(rt, "pBreakKind") {
			case 0:
				p.Data[v] = xcbor.T("junk")
				badKind = "text"
			case 1:
				n := refData(vi.Fam, vdata{Magic: uint64(magic)})
				if n.Kind == xcbor.Array {
					n.Items = n.Items[:len(n.Items)-1]
					badKind = "short-array"
				} else {
					n = xcbor.A(n)
					badKind = "wrapped"
				}
				p.Data[v] = n
			case 2:
				p.Data[v] = xcbor.M(xcbor.U(1), xcbor.U(2))
				badKind = "map"
			default:
				p.Data[v] = xcbor.I(-5)
				badKind = "negative"
			}
		}
	}
	if rapid.IntRange(0, 3).Draw(rt, "pShuffle") == 0 && len(p.Keys) > 1 {
		p.Keys = rapid.Permutation(p.Keys).Draw(rt, "pOrder")
		p.Notes = append(p.Notes, "unordered-keys")
	}
	return
}

// TestC18 -------------------------------------------------------------------------------

func TestC18(t *testing.T) {
	rec := evi.New(t, "C18", evi.Exploration,
		"three drivers per case: (conn) two real ouroboros.Connections (client/server × NtN/NtC/DMQ, equal or different modes and magics, full-duplex, peer-sharing, query flags) over a fragmenting in-memory pipe; (direct) protocol/handshake Client and Server with generated sub-tables (free / disjoint / nested / touching-in-one-version / single) of NtN, NtC, DMQ-NtC, DMQ-NtN on real muxers; (raw) a raw peer proposing mixed-table / unknown-version / broken-data proposals to a library responder and reading its reply off the wire. Oracle: reference computed from the two offered tables (max of the intersection, magic equality, query flag): both ends finish with that version and each reports the peer's data, or VersionMismatch refusal listing exactly the responder's versions ascending / Refused naming the best common version / DecodeError, reported by the initiator with the matching error type; a query handshake yields the responder's table and no version. Non-trivial = the two tables differ or the outcome is not a plain accept; distinct by (driver, both sides' tables/magics/flags or proposal bytes)")
	defer rec.Finish()
	rec.Assume(
		"each endpoint offers one magic and one flag set for all its versions (what the library's table constructors produce)",
		"query asked while there is no common version or the magics differ: the statement asks for the table, the specification's reference implementation refuses; both are tolerated and counted",
		"raw proposals carry uniform query flags; handshake messages fit one segment (specification requirement)")

	rec.Check(func(rt *rapid.T) {
		driver := rapid.SampledFrom([]string{"conn", "direct", "direct", "raw", "rawresp"}).Draw(rt, "driver")
		planA, planB := genPlan(rt, "planC"), genPlan(rt, "planS")
		a, b := rawpeer.Pipe(planA, planB)
		rec.Class("driver:" + driver)

		switch driver {
		case "conn":
			cc, sc := genConnPair(rt)
			c, s := sideOfConn(cc), sideOfConn(sc)
			exp := c18Ref(c, s)
			tap := newTap(b)
			sch := startConn(sc.options(ouroboros.WithConnection(tap)))
			cch := startConn(cc.options(ouroboros.WithConnection(a)))
			so, sconn := connOutcome(sch)
			dump := ""
			if !so.Finished && !so.TimedOut {
				// a Connection whose handshake failed has shut itself down; its
				// record is final once it closed its end
				if !tap.waitClosed() {
					dump = goroutineDump()
				}
			}
			co, cconn := connOutcome(cch)
			if (co.TimedOut || so.TimedOut) && dump == "" {
				dump = goroutineDump()
			}
			closeConn(cconn)
			closeConn(sconn)
			_ = a.Close()
			_ = b.Close()
			rec.Eval()
			c18Report(rt, rec, "conn", c, s, exp, co, so, tap.handshakeStream(true), dump)
		case "direct":
			c, s := genSidePair(rt)
			exp := c18Ref(c, s)
			// both ends must speak the same mux mode for the handshake state machine
			tap := newTap(b)
			sd := newDirect(tap, protoMode(s.Table), true, s.libMap())
			cd := newDirect(a, protoMode(c.Table), false, c.libMap())
			sd.startOnce()
			cd.startOnce()
			so := directOutcome(sd)
			if !so.Finished && !so.TimedOut {
				// the responder's owner tears the connection down as soon as the
				// handshake reports its error - exactly what ouroboros.Connection
				// does (protoErrorChan -> Close)
				sd.stop()
			}
			co := directOutcome(cd)
			dump := ""
			if co.TimedOut || so.TimedOut {
				dump = goroutineDump()
			}
			cd.stop()
			sd.stop()
			rec.Eval()
			c18Report(rt, rec, "direct", c, s, exp, co, so, tap.handshakeStream(true), dump)
		case "rawresp":
			c18RawResponder(rt, rec, a, b)
		default:
			c18Raw(rt, rec, a, b)
		}
	})
}

func c18Report(rt *rapid.T, rec *evi.Recorder, driver string, c, s hsSide, exp c18Expect, co, so endOutcome, serverWrote []byte, dump string) {
	rec.Class("expect:" + exp.Kind)
	cs := map[string]any{
		"driver": driver, "client": c.String(), "server": s.String(),
		"expected":       fmt.Sprintf("%s %s", exp.Kind, verName(exp.Version)),
		"client_outcome": co.String(), "server_outcome": so.String(),
		"responder_wrote_on_handshake_stream": evi.Hex(serverWrote),
	}
	if dump != "" {
		cs["goroutines"] = dump
	}
	if exp.Kind != "accept" || fmt.Sprint(c.Versions) != fmt.Sprint(s.Versions) {
		rec.NonTrivial(fmt.Sprintf("%s|%s|%s", driver, c, s), cs)
	}
	if exp.Kind == "accept" {
		if exp.Version != c.Versions[len(c.Versions)-1] || exp.Version != s.Versions[len(s.Versions)-1] {
			rec.Class("accept:best-is-not-both-maxima")
		}
	}
	// The responder decided (its handshake ended with the refusal / query
	// error), tore the connection down, and its final wire record holds no
	// reply: the initiator cannot report what was never sent.
	if exp.Kind != "accept" && !so.Finished && !so.TimedOut {
		if len(serverWrote) == 0 {
			rec.Class("reply-never-sent:" + driver)
		} else {
			rec.Class("reply-sent:" + driver)
		}
	}
	if exp.Kind != "accept" && !so.Finished && !so.TimedOut && len(serverWrote) == 0 {
		if rec.Fail(rt, "reply-never-sent:"+replyCallSite(exp, c, s), fmt.Sprintf("[%s] client %s ; server %s ; expected %s: the responder ended its handshake with %q and closed the connection without ever writing its reply; initiator saw: %v",
			driver, c, s, exp.Kind, errString(so.Err), co), cs) {
			return
		}
	}
	key, what := judgePair(c, s, exp, co, so, rec, false)
	if key != "" {
		rec.Fail(rt, driver+":"+key, fmt.Sprintf("[%s] client %s ; server %s ; expected %s %s: %s", driver, c, s, exp.Kind, verName(exp.Version), what), cs)
	}
}

// replyCallSite names which reply of the responder is concerned (one per
// SendMessage call site in handleProposeVersions).
func replyCallSite(exp c18Expect, c, s hsSide) string {
	if exp.Kind != "query" {
		return exp.Kind
	}
	return "query"
}

// c18Raw: raw proposer against a library responder (Connection server or direct Server).
func c18Raw(rt *rapid.T, rec *evi.Recorder, a, b *rawpeer.FragConn) {
	useConn := rapid.Bool().Draw(rt, "rawServerIsConn")
	var s hsSide
	var sch <-chan connResult
	var sd *directEnd
	if useConn {
		sc := connCfg{Server: true, Mode: rapid.SampledFrom([]string{"ntn", "ntc", "dmq"}).Draw(rt, "sMode"),
			Magic: genMagic(rt, "sMagic"), FullDuplex: rapid.Bool().Draw(rt, "sFD"), PeerSharing: rapid.Bool().Draw(rt, "sPS"),
			Query: rapid.IntRange(0, 9).Draw(rt, "sQuery") == 9}
		s = sideOfConn(sc)
		sch = startConn(sc.options(ouroboros.WithConnection(b)))
	} else {
		s.Table = rapid.SampledFrom(allTables).Draw(rt, "sTable")
		s.Versions = genSubset(rt, refTable(s.Table), "sSub")
		s.Magic = genMagic(rt, "sMagic")
		s.InitiatorOnly, s.PeerSharing = rapid.Bool().Draw(rt, "sIO"), rapid.Bool().Draw(rt, "sPS")
		s.Query = rapid.IntRange(0, 9).Draw(rt, "sQuery") == 9
		sd = newDirect(b, protoMode(s.Table), true, s.libMap())
		sd.startOnce()
	}
	peer := rawpeer.NewPeer(a)
	prop, pMagic, pQuery, badV, badKind := genRawProposal(rt, s)
	msg := prop.encode()
	if err := peer.SendMsg(0, false, msg); err != nil {
		rt.Fatalf("harness: send: %v", err)
	}
	var so endOutcome
	var sconn *ouroboros.Connection
	if useConn {
		so, sconn = connOutcome(sch)
	} else {
		so = directOutcome(sd)
		if !so.Finished && !so.TimedOut {
			sd.stop() // the owner tears down on the handshake error, as Connection does
		}
	}
	reply, rerr := peer.NextMsg(0, true, longWait)
	dump := ""
	if so.TimedOut || errors.Is(rerr, rawpeer.ErrTimeout) {
		dump = goroutineDump()
	}
	closeConn(sconn)
	if sd != nil {
		sd.stop()
	}
	peer.Close()
	rec.Eval()

	cs := map[string]any{"driver": "raw", "server": s.String(), "server_is_conn": useConn, "proposal": evi.Hex(msg),
		"proposal_versions": versionsString(prop.Keys), "proposal_magic": pMagic, "proposal_query": pQuery,
		"broken_entry": fmt.Sprintf("%s:%s", verName(badV), badKind), "notes": prop.Notes,
		"reply": evi.Hex(reply), "reply_error": errString(rerr), "server_outcome": so.String()}
	if dump != "" {
		cs["goroutines"] = dump
	}
	rec.NonTrivial("raw|"+s.String()+"|"+evi.Hex(msg), cs)
	fail := func(key, what string) {
		rec.Fail(rt, "raw:"+key, fmt.Sprintf("[raw] server %s ; proposal {%s} magic=%d q=%v broken=%s:%s reply=%x: %s", s, versionsString(prop.Keys), pMagic, pQuery, verName(badV), badKind, reply, what), cs)
	}
	// the reference on the proposal
	var known []uint64
	for _, v := range prop.Keys {
		if _, ok := refVersion(v); ok {
			known = append(known, v)
		}
	}
	v, common := maxCommon(prop.Keys, s.Versions)
	asksQuery := false
	if pQuery {
		for _, k := range known {
			vi, _ := refVersion(k)
			if k != badV && (vi.Fam == famNtC15 || vi.Fam == famNtN11 || vi.Fam == famNtN13) {
				asksQuery = true
			}
		}
	}
	expKind := "accept"
	switch {
	case asksQuery:
		expKind = "query"
	case !common:
		expKind = "mismatch"
	case v == badV:
		expKind = "decode-error"
	case pMagic != s.Magic:
		expKind = "refused-magic"
	}
	cs["expected"] = expKind
	fail2 := func(key, what string) { // key without the driver prefix
		rec.Fail(rt, key, fmt.Sprintf("[raw] server %s ; proposal {%s} magic=%d q=%v broken=%s:%s: %s", s, versionsString(prop.Keys), pMagic, pQuery, verName(badV), badKind, what), cs)
	}
	if len(prop.Notes) > 0 {
		// the specification requires ascending keys; a responder may reject
		// such a proposal outright. Only counted.
		rec.Class("raw:unordered-keys")
		if rerr != nil {
			rec.Class("raw:unordered-keys-rejected")
			return
		}
	}
	if rerr != nil {
		if expKind != "accept" && !so.Finished && !so.TimedOut && !errors.Is(rerr, rawpeer.ErrTimeout) {
			rec.Class(fmt.Sprintf("reply-never-sent:raw-conn=%v", useConn))
			fail2("reply-never-sent:"+expKind, "the responder ended its handshake with \""+errString(so.Err)+"\" and closed the connection without ever writing its reply ("+rerr.Error()+")")
			return
		}
		fail(expKind+":no-reply", "the responder sent no handshake reply ("+rerr.Error()+"): "+so.String())
		return
	}
	rn, err := xcbor.ParseExact(reply)
	if err != nil || rn.Kind != xcbor.Array || len(rn.Items) < 2 || rn.Items[0].Kind != xcbor.Uint {
		fail("malformed-reply", "reply is not a handshake message")
		return
	}
	kind := rn.Items[0].Arg
	if expKind != "accept" {
		rec.Class(fmt.Sprintf("reply-sent:raw-conn=%v", useConn))
	}
	replyKind := map[uint64]string{1: "accept", 2: "refuse", 3: "queryreply"}[kind]
	rec.Class("raw:reply:" + replyKind)

	refuseReason := func() (code uint64, rest []*xcbor.Node, ok bool) {
		if kind != 2 || len(rn.Items) != 2 || rn.Items[1].Kind != xcbor.Array || len(rn.Items[1].Items) < 1 || rn.Items[1].Items[0].Kind != xcbor.Uint {
			return 0, nil, false
		}
		return rn.Items[1].Items[0].Arg, rn.Items[1].Items[1:], true
	}
	checkMismatch := func() {
		code, rest, ok := refuseReason()
		if !ok || code != 0 || len(rest) != 1 || rest[0].Kind != xcbor.Array {
			fail("mismatch:wrong-reply", "no common version: expected Refuse[VersionMismatch, [versions]]")
			return
		}
		var got []uint64
		for _, it := range rest[0].Items {
			if it.Kind != xcbor.Uint {
				fail("mismatch:list-not-numbers", "version list holds a non-number")
				return
			}
			got = append(got, it.Arg)
		}
		if !sort.SliceIsSorted(got, func(i, j int) bool { return got[i] < got[j] }) {
			fail("mismatch:list-not-ascending", fmt.Sprintf("refusal lists %v", got))
			return
		}
		if fmt.Sprint(got) != fmt.Sprint(s.Versions) {
			fail("mismatch:list-differs-from-responder-table", fmt.Sprintf("refusal lists {%s}, responder offers {%s}", versionsString(got), versionsString(s.Versions)))
		}
		if so.Finished {
			fail("mismatch:server-finished", "the responder finished although it refused")
		}
	}
	checkRefusedMagic := func() {
		code, rest, ok := refuseReason()
		if !ok || code != 2 || len(rest) != 2 || rest[0].Kind != xcbor.Uint || rest[1].Kind != xcbor.Text {
			fail("magic-mismatch:wrong-reply", "magics differ: expected Refuse[Refused, version, text]")
			return
		}
		if rest[0].Arg != v {
			fail("magic-mismatch:refusal-names-wrong-version", fmt.Sprintf("names %s, best common is %s", verName(rest[0].Arg), verName(v)))
		}
		if so.Finished {
			fail("magic-mismatch:server-finished", "the responder finished although it refused")
		}
	}

	switch {
	case asksQuery:
		rec.Class("raw:expect:query")
		corner := !common || pMagic != s.Magic || (common && v == badV)
		if kind != 3 {
			if corner && kind == 2 {
				rec.Class("query-corner:refused")
				return
			}
			fail("query:wrong-reply", "query flag proposed: expected QueryReply with the responder's table")
			return
		}
		if len(rn.Items) != 2 || rn.Items[1].Kind != xcbor.Map {
			fail("query:malformed", "QueryReply without a version map")
			return
		}
		m := rn.Items[1]
		var got []uint64
		for i := 0; i+1 < len(m.Items); i += 2 {
			got = append(got, m.Items[i].Arg)
		}
		sort.Slice(got, func(i, j int) bool { return got[i] < got[j] })
		if fmt.Sprint(got) != fmt.Sprint(s.Versions) {
			fail("query:table-differs", fmt.Sprintf("QueryReply table {%s}, responder offers {%s}", versionsString(got), versionsString(s.Versions)))
			return
		}
		for _, k := range s.Versions {
			vi, _ := refVersion(k)
			d, why := refParse(vi.Fam, m.MapGet(k))
			if why != "" || d != s.offered(k) {
				fail("query:table-entry-wrong", fmt.Sprintf("entry %s = %x (%s), responder offers %+v", verName(k), encOrNil(m.MapGet(k)), why, s.offered(k)))
				return
			}
		}
		if so.Finished {
			fail("query:server-selected-version", fmt.Sprintf("responder finished with %s on a query", verName(uint64(so.Version))))
		}
	case !common:
		rec.Class("raw:expect:mismatch")
		checkMismatch()
	case v == badV:
		rec.Class("raw:expect:decode-error")
		code, rest, ok := refuseReason()
		if !ok || code != 1 || len(rest) != 2 || rest[0].Kind != xcbor.Uint || rest[0].Arg != v || rest[1].Kind != xcbor.Text {
			fail("decode-error:wrong-reply", fmt.Sprintf("data of the best common version %s is malformed: expected Refuse[DecodeError, %d, text]", verName(v), v))
		}
		if so.Finished {
			fail("decode-error:server-finished", "the responder finished although the selected version's data is malformed")
		}
	case pMagic != s.Magic:
		rec.Class("raw:expect:refused-magic")
		checkRefusedMagic()
	default:
		rec.Class("raw:expect:accept")
		if kind != 1 || len(rn.Items) != 3 || rn.Items[1].Kind != xcbor.Uint {
			fail("accept:wrong-reply", fmt.Sprintf("expected AcceptVersion(%s)", verName(v)))
			return
		}
		if rn.Items[1].Arg != v {
			rel := "lower"
			if rn.Items[1].Arg > v || !s.has(rn.Items[1].Arg) {
				rel = "other"
			}
			fail("accept:not-best-common:"+rel, fmt.Sprintf("accepted %s, best common version is %s", verName(rn.Items[1].Arg), verName(v)))
			return
		}
		vi, _ := refVersion(v)
		d, why := refParse(vi.Fam, rn.Items[2])
		if why != "" || d != s.offered(v) {
			fail("accept:wrong-data-on-wire", fmt.Sprintf("AcceptVersion data %x (%s), responder offers %+v", rn.Items[2].Encode(), why, s.offered(v)))
			return
		}
		if !so.Finished {
			fail("accept:server-not-finished", "the responder accepted on the wire but did not finish: "+so.String())
			return
		}
		if uint64(so.Version) != v {
			fail("accept:versions-disagree", fmt.Sprintf("wire says %s, responder reports %s", verName(v), verName(uint64(so.Version))))
			return
		}
		pd, _ := refParse(vi.Fam, prop.Data[v])
		if w := dataMatches(v, so.Data, pd); w != "" {
			fail("accept:server-reports-wrong-data", "responder reports "+w)
		}
	}
}

func encOrNil(n *xcbor.Node) []byte {
	if n == nil {
		return nil
	}
	return n.Encode()
}

// c18RawResponder: a library initiator (Connection or direct Client) against a
// harness responder that answers exactly as the reference prescribes for its
// own generated table. This covers the initiator's half of the statement (it
// finishes with the accepted version and the responder's data, or reports the
// refusal it was sent / returns the table it was sent) independently of the
// library responder.
func c18RawResponder(rt *rapid.T, rec *evi.Recorder, a, b *rawpeer.FragConn) {
	useConn := rapid.Bool().Draw(rt, "rrClientIsConn")
	var c, s hsSide
	var cch <-chan connResult
	var cd *directEnd
	if useConn {
		cc, sc := genConnPair(rt)
		c, s = sideOfConn(cc), sideOfConn(sc)
		// the harness responder may hold any sub-table
		if rapid.Bool().Draw(rt, "rrSub") {
			s.Versions = genSubset(rt, s.Versions, "rrSSub")
		}
		cch = startConn(cc.options(ouroboros.WithConnection(a)))
	} else {
		c, s = genSidePair(rt)
		cd = newDirect(a, protoMode(c.Table), false, c.libMap())
		cd.startOnce()
	}
	peer := rawpeer.NewPeer(b)
	defer peer.Close()
	msg, err := peer.NextMsg(0, false, longWait)
	if err != nil {
		rec.Fail(rt, "harness:no-proposal", fmt.Sprintf("client %s: no ProposeVersions: %v", c, err), map[string]any{"client": c.String(), "goroutines": goroutineDump()})
		return
	}
	prop, err := parseProposal(msg)
	if err != nil {
		rec.Fail(rt, "rawresp:proposal-malformed", fmt.Sprintf("client %s: %v", c, err), map[string]any{"client": c.String(), "proposal": evi.Hex(msg)})
		return
	}
	// what was proposed on the wire must be what the reference says this side offers
	if fmt.Sprint(prop.Versions) != fmt.Sprint(c.Versions) {
		rec.Fail(rt, "rawresp:proposal-differs-from-table", fmt.Sprintf("client %s proposed {%s}", c, versionsString(prop.Versions)), map[string]any{"client": c.String(), "proposal": evi.Hex(msg)})
		return
	}
	for _, v := range c.Versions {
		vi, _ := refVersion(v)
		if d, why := refParse(vi.Fam, prop.Data[v]); why != "" || d != c.offered(v) {
			rec.Fail(rt, "rawresp:proposal-entry-wrong", fmt.Sprintf("client %s proposed %s => %x (%s), reference %+v", c, verName(v), encOrNil(prop.Data[v]), why, c.offered(v)),
				map[string]any{"client": c.String(), "proposal": evi.Hex(msg)})
			return
		}
	}
	exp := c18Ref(c, s)
	exp.QueryCorner = false // this responder always answers a query with its table
	var reply *xcbor.Node
	decodeErrVariant := false
	switch exp.Kind {
	case "accept":
		vi, _ := refVersion(exp.Version)
		reply = xcbor.A(xcbor.U(1), xcbor.U(exp.Version), refData(vi.Fam, s.offered(exp.Version)))
	case "mismatch":
		var vs []*xcbor.Node
		for _, v := range s.Versions {
			vs = append(vs, xcbor.U(v))
		}
		reply = xcbor.A(xcbor.U(2), xcbor.A(xcbor.U(0), xcbor.A(vs...)))
	case "refused-magic":
		if rapid.IntRange(0, 3).Draw(rt, "rrDecodeErr") == 0 {
			decodeErrVariant = true
			reply = xcbor.A(xcbor.U(2), xcbor.A(xcbor.U(1), xcbor.U(exp.Version), xcbor.T("cannot decode version data")))
		} else {
			reply = xcbor.A(xcbor.U(2), xcbor.A(xcbor.U(2), xcbor.U(exp.Version), xcbor.T("network magic mismatch")))
		}
	case "query":
		var kv []*xcbor.Node
		for _, v := range s.Versions {
			vi, _ := refVersion(v)
			kv = append(kv, xcbor.U(v), refData(vi.Fam, s.offered(v)))
		}
		reply = xcbor.A(xcbor.U(3), xcbor.M(kv...))
	}
	rb := reply.Encode()
	if err := peer.SendMsg(0, true, rb); err != nil {
		rt.Fatalf("harness: send: %v", err)
	}
	if exp.Kind != "accept" && rapid.Bool().Draw(rt, "rrCloseBehind") {
		// a responder closes right behind a refusal / query reply
		peer.Close()
	}
	var co endOutcome
	var cconn *ouroboros.Connection
	if useConn {
		co, cconn = connOutcome(cch)
	} else {
		co = directOutcome(cd)
	}
	dump := ""
	if co.TimedOut {
		dump = goroutineDump()
	}
	closeConn(cconn)
	if cd != nil {
		cd.stop()
	}
	rec.Eval()
	rec.Class("rawresp:expect:" + exp.Kind)
	cs := map[string]any{"driver": "rawresp", "client_is_conn": useConn, "client": c.String(), "responder": s.String(),
		"expected": fmt.Sprintf("%s %s", exp.Kind, verName(exp.Version)), "proposal": evi.Hex(msg), "reply": evi.Hex(rb), "client_outcome": co.String()}
	if dump != "" {
		cs["goroutines"] = dump
	}
	if exp.Kind != "accept" || fmt.Sprint(c.Versions) != fmt.Sprint(s.Versions) {
		rec.NonTrivial(fmt.Sprintf("rawresp|%v|%s|%s", useConn, c, s), cs)
	}
	if decodeErrVariant {
		var de *hs.DecodeError
		switch {
		case co.TimedOut:
			rec.Fail(rt, "rawresp:hang:decode-error", fmt.Sprintf("client %s: no outcome", c), cs)
		case co.Finished:
			rec.Fail(rt, "rawresp:decode-error:client-finished", fmt.Sprintf("client %s finished with %s after a DecodeError refusal", c, verName(uint64(co.Version))), cs)
		case !errors.As(co.Err, &de):
			rec.Fail(rt, "rawresp:decode-error:refusal-not-reported", fmt.Sprintf("client %s did not report the DecodeError refusal, got: %v", c, co.Err), cs)
		case uint64(de.Version) != exp.Version || de.Message != "cannot decode version data":
			rec.Fail(rt, "rawresp:decode-error:wrong-report", fmt.Sprintf("client %s reported %+v", c, *de), cs)
		}
		return
	}
	so := endOutcome{Finished: exp.Kind == "accept", Version: uint16(exp.Version)}
	if !so.Finished {
		so.Err = errors.New("harness responder refused / replied to the query")
	}
	if key, what := judgePair(c, s, exp, co, so, rec, true); key != "" {
		rec.Fail(rt, "rawresp:"+key, fmt.Sprintf("[rawresp] client %s ; harness responder %s ; sent %x ; expected %s %s: %s", c, s, rb, exp.Kind, verName(exp.Version), what), cs)
	}
}
