package handshake

import (
	"fmt"
	"strings"
	"testing"

	ouroboros "github.com/blinklabs-io/gouroboros"
	"github.com/blinklabs-io/gouroboros/protocol"
	"pgregory.net/rapid"

	"verif/harness/internal/evi"
	"verif/harness/internal/rawpeer"
	"verif/harness/internal/xcbor"
)

// ---- generators for the responder's answer ------------------------------------------

type c19Answer struct {
	Kind    string // "accept", "queryreply", "refuse"
	Version uint64
	VClass  string // proposed | unproposed-same-table | unproposed-other-table | unknown | wide
	// wide versions: an integer outside 0..65535 whose low 16 bits are Base
	// (two's complement for negative ones), sent in form WideForm
	VNode    *xcbor.Node // how the version number is encoded (nil: minimal uint of Version)
	Base     uint64
	WideForm string // uint | uint-8byte | nint | bignum | neg-bignum
	WideDesc string
	Data     *xcbor.Node
	DataGen  string // how the data was produced (generator class, not the verdict)
	Msg      []byte
	SegSizes []int
}

func genFlagsData(rt *rapid.T, f family, magic uint64) vdata {
	d := vdata{Magic: magic}
	d.InitiatorOnly = rapid.Bool().Draw(rt, "dInitiatorOnly")
	maxPS := 1
	if f == famNtN11 {
		maxPS = 2
	}
	d.PeerSharing = uint64(rapid.IntRange(0, maxPS).Draw(rt, "dPeerSharing"))
	d.Query = rapid.IntRange(0, 5).Draw(rt, "dQuery") == 0
	return d
}

var allFamilies = []family{famNtC9, famNtC15, famNtN7, famNtN11, famNtN13}

func genScalarJunk(rt *rapid.T, label string) *xcbor.Node {
	switch rapid.IntRange(0, 11).Draw(rt, label) {
	case 10:
		return &xcbor.Node{Kind: xcbor.Simple, Arg: 23} // undefined
	case 11:
		return &xcbor.Node{Kind: xcbor.Simple, Arg: 0x3ff0000000000000, Width: 8} // float64 1.0
	case 0:
		return xcbor.Null()
	case 1:
		return xcbor.T("x")
	case 2:
		return xcbor.B([]byte{1, 2})
	case 3:
		return xcbor.I(-1)
	case 4:
		return xcbor.U(0x100000000 + uint64(rapid.Uint32().Draw(rt, label+"Big")))
	case 5:
		return xcbor.A()
	case 6:
		return xcbor.M(xcbor.U(0), xcbor.U(1))
	case 7:
		return xcbor.Tg(2, xcbor.B([]byte{1}))
	case 8:
		return xcbor.Bool(rapid.Bool().Draw(rt, label+"B"))
	}
	return xcbor.U(uint64(rapid.IntRange(0, 3).Draw(rt, label+"U")))
}

// genData produces version data for an acceptance of version v (fam = its
// reference family, famNone for unknown versions).
func genData(rt *rapid.T, fam family, own uint32, proposed *xcbor.Node) (*xcbor.Node, string) {
	if fam == famNone {
		fam = rapid.SampledFrom(allFamilies).Draw(rt, "famForUnknown")
	}
	kind := rapid.SampledFrom([]string{
		"canon-own", "canon-own", "canon-own", "canon-foreign", "canon-foreign", "canon-foreign",
		"echo", "other-family", "mutated", "mutated", "garbage", "restyled",
	}).Draw(rt, "dataKind")
	switch kind {
	case "echo":
		if proposed != nil {
			return proposed.Clone(), kind
		}
		kind = "canon-own"
		fallthrough
	case "canon-own":
		return refData(fam, genFlagsData(rt, fam, uint64(own))), kind
	case "canon-foreign":
		return refData(fam, genFlagsData(rt, fam, uint64(otherMagic(rt, own, "foreign")))), kind
	case "other-family":
		var others []family
		for _, f := range allFamilies {
			if f != fam {
				others = append(others, f)
			}
		}
		of := rapid.SampledFrom(others).Draw(rt, "otherFam")
		m := uint64(own)
		if rapid.Bool().Draw(rt, "otherFamForeign") {
			m = uint64(otherMagic(rt, own, "foreign"))
		}
		return refData(of, genFlagsData(rt, of, m)), kind
	case "restyled":
		n := refData(fam, genFlagsData(rt, fam, uint64(own)))
		xcbor.Restyle(rt, n, xcbor.StyleOpts{MaxEdits: 2})
		return n, kind
	case "mutated":
		m := uint64(own)
		if rapid.IntRange(0, 3).Draw(rt, "mutForeign") == 0 {
			m = uint64(otherMagic(rt, own, "foreign"))
		}
		n := refData(fam, genFlagsData(rt, fam, m))
		if n.Kind != xcbor.Array {
			return genScalarJunk(rt, "mutScalar"), kind
		}
		switch rapid.IntRange(0, 4).Draw(rt, "mutKind") {
		case 0: // drop the last element
			n.Items = n.Items[:len(n.Items)-1]
		case 1: // append an element
			n.Items = append(n.Items, genScalarJunk(rt, "mutAppend"))
		case 2: // replace one field
			i := rapid.IntRange(0, len(n.Items)-1).Draw(rt, "mutIdx")
			n.Items[i] = genScalarJunk(rt, "mutField")
		case 3: // peer sharing out of range (4-field families), else bool->uint
			if len(n.Items) == 4 {
				n.Items[2] = xcbor.U(uint64(rapid.IntRange(2, 300).Draw(rt, "mutPS")))
			} else {
				n.Items[1] = xcbor.U(uint64(rapid.IntRange(0, 1).Draw(rt, "mutBoolAsUint")))
			}
		case 4: // wrap
			n = xcbor.A(n)
		}
		return n, kind
	}
	// garbage
	switch rapid.IntRange(0, 3).Draw(rt, "garbageKind") {
	case 0:
		return genScalarJunk(rt, "garbage"), "garbage"
	case 1:
		k := rapid.IntRange(0, 6).Draw(rt, "garbageLen")
		items := make([]*xcbor.Node, k)
		for i := range items {
			items[i] = genScalarJunk(rt, "garbageItem")
		}
		return xcbor.A(items...), "garbage"
	case 2:
		return xcbor.M(xcbor.U(uint64(own)), xcbor.Bool(false)), "garbage"
	}
	return xcbor.Tg(24, xcbor.B(refData(fam, vdata{Magic: uint64(own)}).Encode())), "garbage"
}

var unknownVersions = []uint64{0, 3, 4, 5, 6, 16, 17, 100, 0x0fff, dmqNtcBit, dmqNtcBit + 2, 0x7fff, ntcBit, ntcBit + 1, ntcBit + 8, ntcBit + 22, ntcBit + 100, 0xffff,
	0x10000, 0x10000 + 13, 0x10000 + ntcBit + 16, 0x10000 + dmqNtcBit + 1, 1 << 32, (1 << 32) + 13}

// ---- wide version numbers -------------------------------------------------------------
//
// The handshake version number is a 16-bit quantity; an integer outside
// 0..65535 is no version any initiator proposed, whatever its low 16 bits are.

var wideMultipliers = []uint64{1, 2, 3, 0xffff, 0x10000, 0x10001, 1 << 31, 1 << 47, (1 << 48) - 1}
var wideForms = []string{"uint", "uint", "uint-8byte", "nint", "bignum", "neg-bignum"}

func beBytes(v uint64, extra byte) []byte {
	var b []byte
	for i := 7; i >= 0; i-- {
		if c := byte(v >> (8 * i)); c != 0 || len(b) > 0 {
			b = append(b, c)
		}
	}
	if extra != 0 { // one more leading byte: a value above 2^64
		pad := make([]byte, 8-len(b))
		b = append(append([]byte{extra}, pad...), b...)
	}
	return b
}

// wideAnswer fills the version part of an acceptance with base + k*65536
// (positive forms) or base - k*65536 (negative forms).
func wideAnswer(a c19Answer, base, k uint64, form string) c19Answer {
	a.VClass, a.Base, a.WideForm = "wide", base, form
	pos := base + k<<16        // < 2^64 for every multiplier in the table
	negArg := k<<16 - base - 1 // CBOR argument n of the negative integer -1-n == base - k*65536
	switch form {
	case "uint":
		a.VNode = xcbor.U(pos)
		a.WideDesc = fmt.Sprintf("%d (=%d+%d*65536)", pos, base, k)
	case "uint-8byte":
		a.VNode = &xcbor.Node{Kind: xcbor.Uint, Arg: pos, Width: 8}
		a.WideDesc = fmt.Sprintf("%d (=%d+%d*65536, 8-byte head)", pos, base, k)
	case "nint":
		a.VNode = xcbor.NegArg(negArg)
		a.WideDesc = fmt.Sprintf("-%d (=%d-%d*65536)", negArg+1, base, k)
	case "bignum":
		// also beyond 64 bits: base + k*65536 + 2^64
		a.VNode = xcbor.Tg(2, xcbor.B(beBytes(pos, byte(k&1))))
		a.WideDesc = fmt.Sprintf("bignum %x (low 16 bits %d)", beBytes(pos, byte(k&1)), base)
	case "neg-bignum":
		a.VNode = xcbor.Tg(3, xcbor.B(beBytes(negArg, 0)))
		a.WideDesc = fmt.Sprintf("negative bignum -1-%x (low 16 bits %d)", beBytes(negArg, 0), base)
	}
	a.Version = pos
	return a
}

func (a c19Answer) encodeAccept() []byte {
	v := a.VNode
	if v == nil {
		v = xcbor.U(a.Version)
	}
	return xcbor.A(xcbor.U(1), v, a.Data).Encode()
}

func genAnswer(rt *rapid.T, prop proposal, propTable string, own uint32, queryClient, maySplit bool) c19Answer {
	a := c19Answer{Kind: "accept"}
	switch rapid.IntRange(0, 19).Draw(rt, "answerKind") {
	case 0:
		a.Kind = "queryreply"
	case 1:
		a.Kind = "refuse"
	}
	switch a.Kind {
	case "queryreply":
		// the responder's table: a subset of some table with some magic
		t := rapid.SampledFrom(allTables).Draw(rt, "qrTable")
		vs := genSubset(rt, refTable(t), "qrSubset")
		var kv []*xcbor.Node
		for _, v := range vs {
			vi, _ := refVersion(v)
			kv = append(kv, xcbor.U(v), refData(vi.Fam, vdata{Magic: uint64(own), InitiatorOnly: true}))
		}
		a.Msg = xcbor.A(xcbor.U(3), xcbor.M(kv...)).Encode()
		a.DataGen = "queryreply:" + t
	case "refuse":
		var reason *xcbor.Node
		switch rapid.IntRange(0, 2).Draw(rt, "refuseKind") {
		case 0:
			reason = xcbor.A(xcbor.U(0), xcbor.A(xcbor.U(7), xcbor.U(8)))
		case 1:
			reason = xcbor.A(xcbor.U(1), xcbor.U(prop.Versions[0]), xcbor.T("decode"))
		default:
			reason = xcbor.A(xcbor.U(2), xcbor.U(prop.Versions[0]), xcbor.T("refused"))
		}
		a.Msg = xcbor.A(xcbor.U(2), reason).Encode()
		a.DataGen = "refuse"
	default:
		// version class
		var unproposedSame, unproposedOther []uint64
		for _, v := range allKnownVersions() {
			if prop.has(v) {
				continue
			}
			vi, _ := refVersion(v)
			if vi.Table == propTable {
				unproposedSame = append(unproposedSame, v)
			} else {
				unproposedOther = append(unproposedOther, v)
			}
		}
		classes := []string{"proposed", "proposed", "proposed", "unproposed-other-table", "unproposed-other-table", "unknown", "wide"}
		if len(unproposedSame) > 0 {
			classes = append(classes, "unproposed-same-table", "unproposed-same-table")
		}
		a.VClass = rapid.SampledFrom(classes).Draw(rt, "vclass")
		fam := famNone
		switch a.VClass {
		case "proposed":
			a.Version = rapid.SampledFrom(prop.Versions).Draw(rt, "vProposed")
		case "unproposed-same-table":
			a.Version = rapid.SampledFrom(unproposedSame).Draw(rt, "vSame")
		case "unproposed-other-table":
			a.Version = rapid.SampledFrom(unproposedOther).Draw(rt, "vOther")
		case "wide":
			// a number outside uint16 that wraps (mod 65536) to a version
			base := rapid.SampledFrom(prop.Versions).Draw(rt, "wBaseProposed")
			switch rapid.IntRange(0, 5).Draw(rt, "wBaseKind") {
			case 4:
				base = rapid.SampledFrom(append(append([]uint64{}, unproposedOther...), unproposedSame...)).Draw(rt, "wBaseKnown")
			case 5:
				base = rapid.SampledFrom([]uint64{0, 6, 16, 0xffff}).Draw(rt, "wBaseUnknown")
			}
			k := rapid.SampledFrom(wideMultipliers).Draw(rt, "wK")
			form := rapid.SampledFrom(wideForms).Draw(rt, "wForm")
			a = wideAnswer(a, base, k, form)
			fam := famNone
			if vi, ok := refVersion(base); ok {
				fam = vi.Fam
			}
			if rapid.IntRange(0, 3).Draw(rt, "wDataAny") == 0 {
				a.Data, a.DataGen = genData(rt, fam, own, prop.Data[base])
			} else if p := prop.Data[base]; p != nil && rapid.Bool().Draw(rt, "wEcho") {
				a.Data, a.DataGen = p.Clone(), "echo"
			} else {
				if fam == famNone {
					fam = rapid.SampledFrom(allFamilies).Draw(rt, "wFam")
				}
				a.Data, a.DataGen = refData(fam, genFlagsData(rt, fam, uint64(own))), "canon-own"
			}
		default:
			if rapid.IntRange(0, 3).Draw(rt, "vUnknownRand") == 0 {
				for i := 0; ; i++ {
					v := uint64(rapid.Uint16().Draw(rt, fmt.Sprintf("vRand%d", i)))
					if _, known := refVersion(v); !known {
						a.Version = v
						break
					}
				}
			} else {
				a.Version = rapid.SampledFrom(unknownVersions).Draw(rt, "vUnknown")
			}
		}
		if a.VClass != "wide" {
			if vi, ok := refVersion(a.Version); ok {
				fam = vi.Fam
			}
			a.Data, a.DataGen = genData(rt, fam, own, prop.Data[a.Version])
		}
		a.Msg = a.encodeAccept()
	}
	// how the message is cut into segments. The specification requires handshake
	// messages to fit one segment and Connection reads exactly one segment before
	// the handshake is over, so splitting is only done against the direct driver
	// (whose muxer is fully started).
	if maySplit && rapid.IntRange(0, 2).Draw(rt, "split") == 0 && len(a.Msg) > 2 {
		cut := rapid.IntRange(1, len(a.Msg)-1).Draw(rt, "cut")
		a.SegSizes = []int{cut, len(a.Msg) - cut}
	} else {
		a.SegSizes = []int{len(a.Msg)}
	}
	return a
}

func (a c19Answer) send(p *rawpeer.Peer) error {
	off := 0
	var segs []rawpeer.Seg
	for _, n := range a.SegSizes {
		segs = append(segs, rawpeer.Seg{ProtoID: 0, Response: true, Payload: a.Msg[off : off+n]})
		off += n
	}
	return p.Send(segs...)
}

// c19Verdict is the reference's judgement of an AcceptVersion.
//
//	may   the initiator is entitled to complete (proposed, strictly valid, own magic)
//	grey  proposed and only decoder tolerance separates the data from a valid
//	      own-magic item (counted, never flagged either way)
//	vclass/dclass name the class for the finding key when it completes anyway
func c19Verdict(a c19Answer, prop proposal, own uint32) (may, grey bool, vclass, dclass string, d vdata) {
	if a.VClass == "wide" {
		wraps := "unknown"
		if prop.has(a.Base) {
			wraps = "proposed"
		} else if _, ok := refVersion(a.Base); ok {
			wraps = "unproposed-known"
		}
		return false, false, "wide-version:" + a.WideForm, "wraps-to-" + wraps, d
	}
	vi, known := refVersion(a.Version)
	switch {
	case prop.has(a.Version):
		vclass = "proposed"
	case known:
		vclass = a.VClass // same-table / other-table, as generated
	default:
		return false, false, "unknown", "any", d
	}
	d, why := refParse(vi.Fam, a.Data)
	switch {
	case why == "" && d.Magic == uint64(own):
		dclass = "own-magic"
	case why == "":
		dclass = "foreign-magic"
	default:
		ld, ok := refLenient(vi.Fam, a.Data)
		switch {
		case !ok:
			dclass = "wrong-shape:" + why
		case vclass != "proposed" && ld.Magic == uint64(own):
			dclass = "own-magic" // the version alone makes it unacceptable; shape detail stays in the case
		case vclass != "proposed":
			dclass = "foreign-magic"
		case ld.Magic == uint64(own):
			dclass = "lenient-shape-own-magic"
		default:
			dclass = "lenient-shape-foreign-magic"
		}
		d = ld
	}
	may = vclass == "proposed" && dclass == "own-magic"
	grey = vclass == "proposed" && dclass == "lenient-shape-own-magic"
	return
}

// ---- one handshake against the raw peer -------------------------------------------------

type c19Client struct {
	Direct   bool
	Cfg      connCfg  // conn driver
	Table    string   // direct driver: sub-table
	Versions []uint64 // direct driver
	IO, PS   bool     // direct driver flags
	Query    bool
	Own      uint32
}

func (c c19Client) table() string {
	if c.Direct {
		return c.Table
	}
	return c.Cfg.table()
}

func (c c19Client) desc() string {
	if c.Direct {
		return fmt.Sprintf("direct %s{%s} io=%v ps=%v q=%v magic=%d", c.Table, versionsString(c.Versions), c.IO, c.PS, c.Query, c.Own)
	}
	return "conn " + c.Cfg.String()
}

type c19Outcome struct {
	Prop      proposal
	Completed bool
	Version   uint16
	Data      protocol.VersionData
	Err       error
}

// runC19 starts the initiator, reads its proposal, sends the answer built by mk
// and collects the outcome. probKey != "" reports a harness problem or a hang
// (with a goroutine dump in probCase).
func runC19(cl c19Client, planA, planB rawpeer.Plan, mk func(proposal) c19Answer) (out c19Outcome, ans c19Answer, probKey, probWhat string, probCase map[string]any) {
	a, b := rawpeer.Pipe(planA, planB)
	peer := rawpeer.NewPeer(b)
	defer peer.Close()
	cfgDesc := cl.desc()
	var resCh <-chan connResult
	var de *directEnd
	if cl.Direct {
		vm := libVersionMap(cl.Table, cl.Versions, cl.Own, cl.IO, cl.PS, cl.Query)
		de = newDirect(a, protoMode(cl.Table), false, vm)
		de.start()
		defer de.stop()
	} else {
		resCh = startConn(cl.Cfg.options(ouroboros.WithConnection(a)))
	}
	// whatever happens, do not leave a Connection behind
	finishConn := func() {
		if resCh != nil {
			_ = a.Close()
			if r, ok := await(resCh); ok && r.Conn != nil {
				closeConn(r.Conn)
			}
		}
	}
	msg, err := peer.NextMsg(0, false, longWait)
	if err != nil {
		dump := goroutineDump()
		finishConn()
		return out, ans, "harness:no-proposal", fmt.Sprintf("%s: no ProposeVersions within %v: %v", cfgDesc, longWait, err), map[string]any{"config": cfgDesc, "goroutines": dump}
	}
	prop, err := parseProposal(msg)
	if err != nil || len(prop.Versions) == 0 {
		finishConn()
		return out, ans, "proposal-malformed", fmt.Sprintf("%s: proposal %x: %v", cfgDesc, msg, err), map[string]any{"config": cfgDesc, "proposal": evi.Hex(msg)}
	}
	out.Prop = prop
	ans = mk(prop)
	if err := ans.send(peer); err != nil {
		finishConn()
		return out, ans, "harness:send-failed", err.Error(), map[string]any{"config": cfgDesc}
	}
	if cl.Direct {
		fin, e, ok := de.outcome()
		if !ok {
			return out, ans, "hang:direct-client-no-outcome", cfgDesc + ": neither FinishedFunc nor an error within " + longWait.String(),
				map[string]any{"config": cfgDesc, "answer": evi.Hex(ans.Msg), "goroutines": goroutineDump()}
		}
		if fin != nil {
			out.Completed, out.Version, out.Data = true, fin.Version, fin.Data
		}
		out.Err = e
		return
	}
	r, ok := await(resCh)
	if !ok {
		return out, ans, "hang:newconnection-no-outcome", cfgDesc + ": NewConnection did not return within " + longWait.String(),
			map[string]any{"config": cfgDesc, "answer": evi.Hex(ans.Msg), "goroutines": goroutineDump()}
	}
	if r.Err == nil && r.Conn != nil {
		out.Completed = true
		out.Version, out.Data = r.Conn.ProtocolVersion()
		if _, ok := closeConn(r.Conn); !ok {
			return out, ans, "hang:close", cfgDesc + ": Close/shutdown did not finish", map[string]any{"config": cfgDesc, "goroutines": goroutineDump()}
		}
	}
	out.Err = r.Err
	return
}

// c19WideSweep is a small deterministic enumeration run in every tier at every
// seed: for a fixed set of clients and for proposed / unproposed / unknown base
// versions v, an acceptance of v + k*65536 (and v - k*65536) in every integer
// encoding, with version data that would be perfectly valid for v and carries
// the client's magic. None of these numbers was proposed; none may be accepted.
func c19WideSweep(rec *evi.Recorder) {
	clients := []c19Client{
		{Cfg: connCfg{Mode: "ntc", Magic: 764824073}, Own: 764824073},
		{Cfg: connCfg{Mode: "ntn", Magic: 2, FullDuplex: true, PeerSharing: true}, Own: 2},
		{Cfg: connCfg{Mode: "dmq", Magic: 3141592}, Own: 3141592},
		{Direct: true, Table: "ntn", Versions: []uint64{13}, Own: 42},
		{Direct: true, Table: "dmq-ntn", Versions: []uint64{1, 2}, IO: true, Own: 1},
		{Direct: true, Table: "ntc", Versions: []uint64{ntcBit + 9, ntcBit + 16}, Own: 999},
	}
	n := 0
	for _, cl := range clients {
		table := refTable(cl.table())
		if cl.Direct {
			table = cl.Versions
		}
		bases := []uint64{table[0], table[len(table)-1]}
		// one known-but-unproposed and one unknown base
		for _, v := range allKnownVersions() {
			in := false
			for _, t := range table {
				in = in || t == v
			}
			if !in {
				bases = append(bases, v)
				break
			}
		}
		bases = append(bases, 0xffff)
		for bi, base := range bases {
			for ki, k := range []uint64{1, 2, 0xffff, 0x10000, 1 << 47} {
				for fi, form := range []string{"uint", "uint-8byte", "nint", "bignum", "neg-bignum"} {
					// thin out the unproposed / unknown bases
					if bi >= 2 && (ki+fi)%3 != 0 {
						continue
					}
					out, ans, probKey, probWhat, probCase := runC19(cl, nil, nil, func(prop proposal) c19Answer {
						a := wideAnswer(c19Answer{Kind: "accept"}, base, k, form)
						fam := famNtN13
						if vi, ok := refVersion(base); ok {
							fam = vi.Fam
						}
						if p := prop.Data[base]; p != nil && (ki+fi)%2 == 0 {
							a.Data, a.DataGen = p.Clone(), "echo"
						} else {
							a.Data, a.DataGen = refData(fam, vdata{Magic: uint64(cl.Own), InitiatorOnly: true}), "canon-own"
						}
						a.Msg = a.encodeAccept()
						a.SegSizes = []int{len(a.Msg)}
						return a
					})
					if probKey != "" {
						rec.Violation("sweep:"+probKey, probWhat, probCase)
						return
					}
					rec.Eval()
					n++
					_, _, vclass, dclass, _ := c19Verdict(ans, out.Prop, cl.Own)
					rec.Class("sweep:" + vclass)
					cs := map[string]any{"config": cl.desc(), "proposed": versionsString(out.Prop.Versions), "answer": evi.Hex(ans.Msg),
						"version_on_wire": ans.WideDesc, "wraps_to": verName(base), "completed": out.Completed, "got_version": out.Version, "error": errString(out.Err)}
					rec.NonTrivial(fmt.Sprintf("sweep|%s|%x", cl.desc(), ans.Msg), cs)
					if out.Completed {
						rec.Violation(fmt.Sprintf("accepted:%s:%s", vclass, dclass),
							fmt.Sprintf("%s (proposed {%s}) completed the handshake on AcceptVersion(version=%s, data=%x); reported version %d - the number on the wire is not a 16-bit version and was never proposed",
								cl.desc(), versionsString(out.Prop.Versions), ans.WideDesc, ans.Data.Encode(), out.Version), cs)
					}
				}
			}
		}
	}
	rec.SetExtra("wide_version_sweep_cases", n)
}

func TestC19(t *testing.T) {
	rec := evi.New(t, "C19", evi.Exploration,
		"a real initiator (ouroboros.Connection client in NtC / NtN(±full-duplex,±peer-sharing) / DMQ mode, or protocol/handshake.Client with a generated sub-table of NtN/NtC/DMQ-NtC/DMQ-NtN on a real muxer) proposes; a raw peer answers with a generated message: AcceptVersion{version ∈ proposed | known-but-unproposed (same table / other table) | unknown | wide: v+k*65536 / v-k*65536 for proposed, unproposed and unknown v as 4-/8-byte uint, negative int, positive / negative bignum (also as a deterministic sweep over 6 fixed clients run at every seed)} × data{canonical own magic | canonical foreign magic | echo | other family's shape | structurally mutated | garbage | restyled heads}, or a QueryReply / a Refuse; oracle: the initiator completes (NewConnection err==nil / FinishedFunc called) only if version ∈ the set read off the wire ∧ data valid per the version's CDDL ∧ magic == own, and a canonical valid acceptance does complete with exactly that version and data; non-trivial = an answer that must NOT complete the handshake; distinct by (driver, client config class, proposed set, answer bytes)")
	defer rec.Finish()
	rec.Assume(
		"the proposed set is read off the wire with the harness's own CBOR parser (ground truth of what was offered)",
		"validity of version data is the harness's strict reading of the handshake CDDL; tolerated-lenient decodings (peer-sharing value out of range, null for a field) are counted separately, not flagged",
		"each client offers one network magic for all its versions (as every table constructor of the library does)")

	c19WideSweep(rec)

	rec.Check(func(rt *rapid.T) {
		own := genMagic(rt, "own")
		direct := rapid.IntRange(0, 2).Draw(rt, "driver") == 2
		planA, planB := genPlan(rt, "planLib"), genPlan(rt, "planPeer")
		queryClient := rapid.IntRange(0, 9).Draw(rt, "queryClient") == 9
		cl := c19Client{Direct: direct, Query: queryClient, Own: own}
		if direct {
			cl.Table = rapid.SampledFrom(allTables).Draw(rt, "directTable")
			cl.Versions = genSubset(rt, refTable(cl.Table), "directSubset")
			cl.IO = rapid.Bool().Draw(rt, "directInitiatorOnly")
			cl.PS = rapid.Bool().Draw(rt, "directPS")
			rec.Class("driver:direct:" + cl.Table)
		} else {
			cl.Cfg = connCfg{
				Mode:        rapid.SampledFrom([]string{"ntc", "ntn", "ntn", "dmq"}).Draw(rt, "mode"),
				FullDuplex:  rapid.Bool().Draw(rt, "fd"),
				PeerSharing: rapid.Bool().Draw(rt, "ps"),
				Query:       queryClient,
				Magic:       own,
			}
			rec.Class("driver:conn:" + cl.Cfg.Mode)
		}
		cfgDesc := cl.desc()
		out, ans, probKey, probWhat, probCase := runC19(cl, planA, planB, func(prop proposal) c19Answer {
			return genAnswer(rt, prop, cl.table(), own, queryClient, direct)
		})
		if probKey != "" {
			rec.Fail(rt, probKey, probWhat, probCase)
			return
		}
		prop, completed, gotVersion, gotData, gotErr := out.Prop, out.Completed, out.Version, out.Data, out.Err
		rec.Eval()

		cs := map[string]any{
			"config": cfgDesc, "proposed": versionsString(prop.Versions), "proposal": evi.Hex(prop.Raw),
			"answer_kind": ans.Kind, "answer": evi.Hex(ans.Msg), "segments": ans.SegSizes,
			"completed": completed, "got_version": gotVersion, "error": errString(gotErr),
		}
		desc := fmt.Sprintf("%s|%s|%x", cfgDesc, versionsString(prop.Versions), ans.Msg)

		switch ans.Kind {
		case "refuse":
			rec.Class("answer:refuse")
			rec.NonTrivial(desc, cs)
			if completed {
				rec.Fail(rt, "completed-after-refuse", cfgDesc+": handshake completed although the responder refused", cs)
			}
			return
		case "queryreply":
			if queryClient {
				rec.Class("answer:queryreply-to-query-client")
				// a query client is entitled to finish (without a version)
				if completed && gotVersion != 0 {
					rec.Fail(rt, "queryreply:version-selected", fmt.Sprintf("%s: query reply selected version %d", cfgDesc, gotVersion), cs)
				}
				return
			}
			// Not an acceptance, hence outside the statement's quantifier; the
			// library's own TestClientQueryReply expects a non-query client to
			// finish with version 0 on a QueryReply. Observed and counted only
			// (see findings/C19.md, "observations").
			rec.Class("answer:queryreply-unsolicited")
			if completed {
				rec.Class("observed:unsolicited-queryreply-completes-with-version-0")
				if gotVersion != 0 {
					rec.Fail(rt, "queryreply:version-selected", fmt.Sprintf("%s: query reply selected version %d", cfgDesc, gotVersion), cs)
				}
			}
			return
		}

		may, grey, vclass, dclass, want := c19Verdict(ans, prop, own)
		cs["version"] = verName(ans.Version)
		if ans.VClass == "wide" {
			cs["version"] = ans.WideDesc
			cs["wraps_to"] = verName(ans.Base)
			rec.Class("wide:" + ans.WideForm)
		}
		cs["version_class"] = vclass
		cs["data_class"] = dclass
		cs["data_generator"] = ans.DataGen
		rec.Class("v:" + vclass)
		rec.Class("d:" + dataClassBucket(dclass))
		rec.Class("gen:" + ans.DataGen)
		if !may && !grey {
			rec.NonTrivial(desc, cs)
		}
		if completed {
			rec.Class("completed")
		} else {
			rec.Class("failed")
		}
		switch {
		case grey:
			if completed {
				rec.Class("lenient-accept")
			}
		case completed && !may:
			key := fmt.Sprintf("accepted:%s:%s", vclass, dclass)
			rec.Fail(rt, key, fmt.Sprintf("%s (proposed {%s}) completed the handshake on AcceptVersion(version=%s [%s], data=%x [%s]); reported version %d",
				cfgDesc, versionsString(prop.Versions), verName(ans.Version), vclass, ans.Data.Encode(), dclass, gotVersion), cs)
		case completed && may:
			// must report exactly what was accepted
			vi, _ := refVersion(ans.Version)
			bad := ""
			switch {
			case uint64(gotVersion) != ans.Version:
				bad = fmt.Sprintf("reported version %d, accepted %d", gotVersion, ans.Version)
			case gotData == nil:
				bad = "reported nil version data"
			case gotData.NetworkMagic() != own:
				bad = fmt.Sprintf("reported magic %d", gotData.NetworkMagic())
			case (vi.Fam == famNtN7 || vi.Fam == famNtN11 || vi.Fam == famNtN13) && gotData.DiffusionMode() != want.InitiatorOnly:
				bad = fmt.Sprintf("reported diffusion mode %v, peer sent %v", gotData.DiffusionMode(), want.InitiatorOnly)
			case gotData.PeerSharing() != peerSharingOn(vi.Fam, want.PeerSharing):
				bad = fmt.Sprintf("reported peer sharing %v, peer sent %d", gotData.PeerSharing(), want.PeerSharing)
			case (vi.Fam != famNtC9 && vi.Fam != famNtN7) && gotData.Query() != want.Query:
				bad = fmt.Sprintf("reported query %v, peer sent %v", gotData.Query(), want.Query)
			}
			if bad != "" {
				rec.Fail(rt, "completed:wrong-report", cfgDesc+": "+bad, cs)
			}
		case !completed && may:
			if ans.DataGen == "restyled" {
				rec.Class("over-rejected:restyled")
				return
			}
			rec.Fail(rt, "rejected:canonical-valid-acceptance", fmt.Sprintf("%s rejected a canonical acceptance of proposed version %s with its own magic: %v", cfgDesc, verName(ans.Version), gotErr), cs)
		}
	})
}

func dataClassBucket(dclass string) string {
	if strings.HasPrefix(dclass, "wrong-shape:") {
		return "wrong-shape"
	}
	return dclass
}
