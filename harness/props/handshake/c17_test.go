package handshake

import (
	"fmt"
	"sort"
	"strings"
	"sync"
	"testing"
	"time"

	ouroboros "github.com/blinklabs-io/gouroboros"
	"github.com/blinklabs-io/gouroboros/protocol"
	"github.com/blinklabs-io/gouroboros/protocol/blockfetch"
	"github.com/blinklabs-io/gouroboros/protocol/chainsync"
	pcommon "github.com/blinklabs-io/gouroboros/protocol/common"
	"github.com/blinklabs-io/gouroboros/protocol/keepalive"
	"github.com/blinklabs-io/gouroboros/protocol/localstatequery"
	"github.com/blinklabs-io/gouroboros/protocol/localtxmonitor"
	"github.com/blinklabs-io/gouroboros/protocol/localtxsubmission"
	"github.com/blinklabs-io/gouroboros/protocol/peersharing"
	"github.com/blinklabs-io/gouroboros/protocol/txsubmission"
	"pgregory.net/rapid"

	"verif/harness/internal/evi"
	"verif/harness/internal/rawpeer"
	"verif/harness/internal/xcbor"
)

// ---- reference: which mini-protocols exist for a negotiated version ------------------

// miniProto describes one mini-protocol as the specification numbers it, with a
// minimal well-formed request (initiator -> responder), a well-formed message
// in the other direction, and how to recognise the responder's answer.
type miniProto struct {
	Name     string
	ID       uint16
	Request  []byte // first message of the initiator
	ReplyTag uint64 // message tag of the responder's answer to Request (noReply: none expected)
	Callback string // name of the responder callback that must fire ("" = none, answer only)
	Response []byte // some message a responder could send (for the responder-only direction check)
}

const noReply = ^uint64(0)

var hash32 = make([]byte, 32)

func pt() *xcbor.Node { return xcbor.A(xcbor.U(1), xcbor.B(hash32)) }

var (
	mpChainSyncNtN = miniProto{"chain-sync", 2, xcbor.A(xcbor.U(4), xcbor.A()).Encode(), 6, "chainsync.FindIntersect", xcbor.A(xcbor.U(1)).Encode()}
	mpBlockFetch   = miniProto{"block-fetch", 3, xcbor.A(xcbor.U(0), pt(), pt()).Encode(), 3, "blockfetch.RequestRange", xcbor.A(xcbor.U(3)).Encode()}
	mpTxSubmission = miniProto{"tx-submission", 4, xcbor.A(xcbor.U(6)).Encode(), noReply, "txsubmission.Init", xcbor.A(xcbor.U(0), xcbor.Bool(true), xcbor.U(0), xcbor.U(1)).Encode()}
	mpKeepAlive    = miniProto{"keep-alive", 8, xcbor.A(xcbor.U(0), xcbor.U(4242)).Encode(), 1, "", xcbor.A(xcbor.U(1), xcbor.U(4242)).Encode()}
	mpPeerSharing  = miniProto{"peer-sharing", 10, xcbor.A(xcbor.U(0), xcbor.U(3)).Encode(), 1, "peersharing.ShareRequest", xcbor.A(xcbor.U(1), xcbor.A()).Encode()}
	mpChainSyncNtC = miniProto{"chain-sync", 5, xcbor.A(xcbor.U(4), xcbor.A()).Encode(), 6, "chainsync.FindIntersect", xcbor.A(xcbor.U(1)).Encode()}
	mpLocalTxSub   = miniProto{"local-tx-submission", 6, xcbor.A(xcbor.U(0), xcbor.A(xcbor.U(6), xcbor.Tg(24, xcbor.B([]byte{0x80})))).Encode(), 1, "localtxsubmission.SubmitTx", xcbor.A(xcbor.U(1)).Encode()}
	mpLocalState   = miniProto{"local-state-query", 7, xcbor.A(xcbor.U(8)).Encode(), 1, "localstatequery.Acquire", xcbor.A(xcbor.U(1)).Encode()}
	mpLocalTxMon   = miniProto{"local-tx-monitor", 9, xcbor.A(xcbor.U(1)).Encode(), 2, "localtxmonitor.GetMempool", xcbor.A(xcbor.U(2), xcbor.U(7)).Encode()}
	mpDmqSubmit    = miniProto{"local-message-submission", 14, xcbor.A(xcbor.U(3)).Encode(), noReply, "", xcbor.A(xcbor.U(1)).Encode()}
	mpDmqNotify    = miniProto{"local-message-notification", 15, xcbor.A(xcbor.U(0), xcbor.Bool(false)).Encode(), 1, "", xcbor.A(xcbor.U(1), xcbor.A(), xcbor.Bool(false)).Encode()}
)

var allMiniProtos = []miniProto{mpChainSyncNtN, mpBlockFetch, mpTxSubmission, mpKeepAlive, mpPeerSharing, mpChainSyncNtC, mpLocalTxSub, mpLocalState, mpLocalTxMon, mpDmqSubmit, mpDmqNotify}

// enabledProtos is the specification's answer to "which mini-protocols run on a
// connection of this mode that negotiated this version".
func enabledProtos(mode string, version uint64) []miniProto {
	vi, _ := refVersion(version)
	switch mode {
	case "ntn":
		out := []miniProto{mpChainSyncNtN, mpBlockFetch, mpTxSubmission}
		if vi.KeepAlive {
			out = append(out, mpKeepAlive)
		}
		if vi.PeerSharing {
			out = append(out, mpPeerSharing)
		}
		return out
	case "ntc":
		out := []miniProto{mpChainSyncNtC, mpLocalTxSub}
		if vi.LSQ {
			out = append(out, mpLocalState)
		}
		if vi.TxMonitor {
			out = append(out, mpLocalTxMon)
		}
		return out
	}
	return []miniProto{mpDmqSubmit, mpDmqNotify}
}

// ---- counting callbacks ---------------------------------------------------------------

type callLog struct {
	mu    sync.Mutex
	calls map[string]int
}

func (l *callLog) hit(name string) {
	l.mu.Lock()
	l.calls[name]++
	l.mu.Unlock()
}

func (l *callLog) get(name string) int {
	l.mu.Lock()
	defer l.mu.Unlock()
	return l.calls[name]
}

func (l *callLog) total() int {
	l.mu.Lock()
	defer l.mu.Unlock()
	n := 0
	for _, v := range l.calls {
		n += v
	}
	return n
}

func (l *callLog) String() string {
	l.mu.Lock()
	defer l.mu.Unlock()
	var ks []string
	for k, v := range l.calls {
		ks = append(ks, fmt.Sprintf("%s=%d", k, v))
	}
	sort.Strings(ks)
	return strings.Join(ks, ",")
}

// libTimeout replaces the library's 5-10 s client-side defaults where a knob
// exists, so that a badly overloaded machine cannot turn a delayed harness
// answer into a library timeout (which would look like an unreachable protocol).
const libTimeout = 60 * time.Second

// negWait bounds the wait for the connection to shut down after a negative
// probe (expected: well under a millisecond of library work).
const negWait = 15 * time.Second

// callbackOptions gives every mini-protocol of every mode a configuration with
// counting callbacks (a responder needs them to answer at all; an initiator's
// callbacks must never fire on an unsolicited message).
func callbackOptions(l *callLog) []ouroboros.ConnectionOptionFunc {
	bf, _ := blockfetch.NewConfig(
		blockfetch.WithRequestRangeFunc(func(ctx blockfetch.CallbackContext, _ pcommon.Point, _ pcommon.Point) error {
			l.hit("blockfetch.RequestRange")
			return ctx.Server.NoBlocks()
		}),
		blockfetch.WithBlockRawFunc(func(blockfetch.CallbackContext, uint, []byte) error { l.hit("client:blockfetch.Block"); return nil }),
		blockfetch.WithBatchDoneFunc(func(blockfetch.CallbackContext) error { l.hit("client:blockfetch.BatchDone"); return nil }),
		blockfetch.WithBatchStartTimeout(libTimeout),
	)
	return []ouroboros.ConnectionOptionFunc{
		ouroboros.WithChainSyncConfig(chainsync.NewConfig(
			chainsync.WithFindIntersectFunc(func(chainsync.CallbackContext, []pcommon.Point) (pcommon.Point, chainsync.Tip, error) {
				l.hit("chainsync.FindIntersect")
				return pcommon.NewPointOrigin(), chainsync.Tip{Point: pcommon.NewPoint(1, hash32), BlockNumber: 1}, chainsync.ErrIntersectNotFound
			}),
			chainsync.WithRequestNextFunc(func(chainsync.CallbackContext) error { l.hit("chainsync.RequestNext"); return nil }),
			chainsync.WithIntersectTimeout(libTimeout),
			chainsync.WithRollForwardRawFunc(func(chainsync.CallbackContext, uint, []byte, chainsync.Tip) error {
				l.hit("client:chainsync.RollForward")
				return nil
			}),
			chainsync.WithRollBackwardFunc(func(chainsync.CallbackContext, pcommon.Point, chainsync.Tip) error {
				l.hit("client:chainsync.RollBackward")
				return nil
			}),
		)),
		ouroboros.WithBlockFetchConfig(bf),
		ouroboros.WithTxSubmissionConfig(txsubmission.NewConfig(
			txsubmission.WithInitFunc(func(txsubmission.CallbackContext) error { l.hit("txsubmission.Init"); return nil }),
			txsubmission.WithRequestTxIdsFunc(func(txsubmission.CallbackContext, bool, uint16, uint16) ([]txsubmission.TxIdAndSize, error) {
				l.hit("client:txsubmission.RequestTxIds")
				return nil, nil
			}),
		)),
		ouroboros.WithPeerSharingConfig(peersharing.NewConfig(
			peersharing.WithShareRequestFunc(func(peersharing.CallbackContext, int) ([]peersharing.PeerAddress, error) {
				l.hit("peersharing.ShareRequest")
				return nil, nil
			}),
		)),
		ouroboros.WithLocalStateQueryConfig(localstatequery.NewConfig(
			localstatequery.WithAcquireFunc(func(localstatequery.CallbackContext, localstatequery.AcquireTarget, bool) error {
				l.hit("localstatequery.Acquire")
				return nil
			}),
			localstatequery.WithAcquireTimeout(libTimeout),
		)),
		ouroboros.WithLocalTxMonitorConfig(localtxmonitor.NewConfig(
			localtxmonitor.WithGetMempoolFunc(func(localtxmonitor.CallbackContext) (uint64, uint32, []localtxmonitor.TxAndEraId, error) {
				l.hit("localtxmonitor.GetMempool")
				return 7, 1000, nil, nil
			}),
			localtxmonitor.WithAcquireTimeout(libTimeout),
		)),
		ouroboros.WithLocalTxSubmissionConfig(localtxsubmission.NewConfig(
			localtxsubmission.WithSubmitTxFunc(func(localtxsubmission.CallbackContext, localtxsubmission.MsgSubmitTxTransaction) error {
				l.hit("localtxsubmission.SubmitTx")
				return nil
			}),
			localtxsubmission.WithTimeout(libTimeout),
		)),
		ouroboros.WithKeepAliveConfig(keepalive.NewConfig(keepalive.WithTimeout(libTimeout))),
	}
}

// ---- the case ------------------------------------------------------------------------------

type c17Case struct {
	Cfg       connCfg
	KeepAlive bool // WithKeepAlive
	Version   uint64
	PeerIO    bool   // the peer's initiator-only flag
	PeerPS    uint64 // the peer's peer-sharing value
}

func (c c17Case) String() string {
	return fmt.Sprintf("%s ka=%v version=%s peer{io=%v ps=%d}", c.Cfg, c.KeepAlive, verName(c.Version), c.PeerIO, c.PeerPS)
}

// negotiated roles per the specification: duplex only node-to-node and only if
// both ends asked for initiator-and-responder.
func (c c17Case) roles() (initiator, responder, duplex bool) {
	duplex = c.Cfg.Mode == "ntn" && c.Cfg.FullDuplex && !c.PeerIO
	return !c.Cfg.Server || duplex, c.Cfg.Server || duplex, duplex
}

func genC17Case(rt *rapid.T) c17Case {
	var c c17Case
	c.Cfg.Mode = rapid.SampledFrom([]string{"ntn", "ntn", "ntn", "ntc", "ntc", "dmq"}).Draw(rt, "mode")
	c.Cfg.Server = rapid.Bool().Draw(rt, "server")
	c.Cfg.FullDuplex = rapid.Bool().Draw(rt, "fullDuplex")
	c.Cfg.PeerSharing = rapid.Bool().Draw(rt, "peerSharing")
	c.Cfg.Magic = genMagic(rt, "magic")
	c.KeepAlive = rapid.Bool().Draw(rt, "keepAlive")
	c.Version = rapid.SampledFrom(refTable(c.Cfg.table())).Draw(rt, "version")
	c.PeerIO = rapid.Bool().Draw(rt, "peerInitiatorOnly")
	vi, _ := refVersion(c.Version)
	switch vi.Fam {
	case famNtN11:
		c.PeerPS = uint64(rapid.IntRange(0, 2).Draw(rt, "peerPS"))
	case famNtN13:
		c.PeerPS = uint64(rapid.IntRange(0, 1).Draw(rt, "peerPS"))
	}
	return c
}

func (c c17Case) peerData() *xcbor.Node {
	vi, _ := refVersion(c.Version)
	return refData(vi.Fam, vdata{Magic: uint64(c.Cfg.Magic), InitiatorOnly: c.PeerIO, PeerSharing: c.PeerPS})
}

// msgTag returns the message tag of a mini-protocol message ([tag, ...]).
func msgTag(b []byte) (uint64, bool) {
	n, err := xcbor.ParseExact(b)
	if err != nil || n.Kind != xcbor.Array || len(n.Items) == 0 || n.Items[0].Kind != xcbor.Uint {
		return 0, false
	}
	return n.Items[0].Arg, true
}

func TestC17(t *testing.T) {
	rec := evi.New(t, "C17", evi.Exploration,
		"a real ouroboros.Connection (client or server × NtN/NtC/DMQ × full-duplex requested or not × peer-sharing × keep-alives, callbacks counting on every mini-protocol) handshakes with a raw peer that forces the negotiated version (every version of the mode's table) and its own diffusion / peer-sharing flags; then (a) accessors are compared with the version's protocol set, (b) every enabled protocol of every enabled role gets a minimal round trip (peer request -> responder callback + reply; client call -> request on the wire on the right protocol id and direction -> reply -> call returns), (c) one negative probe: a segment in the direction the negotiation did not enable, or for a protocol the version does not enable / the other mode's protocol / an unknown id: no callback may fire, no answer may be sent, the connection must report an error and close. Reference: roles = spec rule (duplex only NtN and only if both ends asked for it), protocols = spec version table. Two history families: (duplex-history) on an NtN connection that negotiated InitiatorAndResponder, a generated sequence over {peer request to a local responder, local client call answered by the peer, the peer ends a protocol with Done/ClientDone so the local responder restarts (completion observed through the verif tracer), local chain-sync / block-fetch client Stop()+Start()} followed by a closing round in which every enabled protocol must still answer in both roles and the connection must have reported no error; (muxer-model) register/unregister of (protocol id, role) pairs on a bare muxer with segments sent to still-registered pairs, which must be delivered and must not stop the muxer. In the history families only explicit failures count (connection error, closed connection, call returning an error); an expired bound is inconclusive. Non-trivial = every case (a negative probe is always made / a history of >= 3 operations); distinct by (config, version, peer flags, probe) resp. the operation history")
	defer rec.Finish()
	rec.Assume(
		"a responder is given callbacks for every mini-protocol (without them the library answers nothing)",
		"peer-sharing counts as enabled only when the version has it and both ends advertised it; when a flag is off the library may refuse the request (counted, not judged)",
		"the Leios mini-protocols (no version flag, no specification) are not probed; DMQ message submission is probed for gating only",
		"whether full duplex should also depend on the version (>= 10) is not judged: the library does not use that flag")

	tracer := newRestartTracer()
	protocol.SetVerifTracer(tracer.on)
	defer protocol.SetVerifTracer(nil)

	rec.Check(func(rt *rapid.T) {
		// families: the single-shot configuration case (below), a history of
		// role restarts on a full-duplex connection, and the same one level
		// down on a bare muxer
		switch rapid.SampledFrom([]string{"config", "config", "config", "config", "config", "duplex-history", "duplex-history", "muxer-model"}).Draw(rt, "family") {
		case "duplex-history":
			c17DuplexHistory(rt, rec, tracer)
			return
		case "muxer-model":
			c17MuxerModel(rt, rec)
			return
		}
		rec.Class("family:config")
		cs := genC17Case(rt)
		log := &callLog{calls: map[string]int{}}
		a, b := rawpeer.Pipe(genPlan(rt, "planLib"), genPlan(rt, "planPeer"))
		peer := rawpeer.NewPeer(b)
		defer peer.Close()
		opts := cs.Cfg.options(append(callbackOptions(log), ouroboros.WithConnection(a), ouroboros.WithKeepAlive(cs.KeepAlive))...)
		resCh := startConn(opts)

		caseObj := map[string]any{"case": cs.String()}
		// handshake
		if cs.Cfg.Server {
			reply, err := peer.ProposeHandshake(cs.Version, cs.peerData(), longWait)
			if err != nil {
				rec.Fail(rt, "handshake:no-reply", fmt.Sprintf("%s: %v", cs, err), caseObj)
				return
			}
			if tag, _ := msgTag(reply); tag != 1 {
				rec.Fail(rt, "handshake:not-accepted", fmt.Sprintf("%s: responder answered %x", cs, reply), caseObj)
				return
			}
		} else {
			msg, err := peer.NextMsg(0, false, longWait)
			if err != nil {
				rec.Fail(rt, "handshake:no-proposal", fmt.Sprintf("%s: %v", cs, err), caseObj)
				return
			}
			prop, err := parseProposal(msg)
			if err != nil || !prop.has(cs.Version) {
				rec.Fail(rt, "handshake:version-not-proposed", fmt.Sprintf("%s: proposal %x", cs, msg), caseObj)
				return
			}
			_ = peer.SendMsg(0, true, xcbor.A(xcbor.U(1), xcbor.U(cs.Version), cs.peerData()).Encode())
		}
		r, ok := await(resCh)
		if !ok || r.Err != nil || r.Conn == nil {
			caseObj["goroutines"] = goroutineDump()
			rec.Fail(rt, "handshake:failed", fmt.Sprintf("%s: NewConnection: ok=%v err=%v", cs, ok, r.Err), caseObj)
			return
		}
		conn := r.Conn
		closed := false
		defer func() {
			if !closed {
				closeConn(conn)
			}
		}()
		rec.Eval()
		initiator, responder, duplex := cs.roles()
		rec.Class("mode:" + cs.Cfg.Mode)
		rec.Class(fmt.Sprintf("roles:init=%v,resp=%v", initiator, responder))
		if duplex {
			rec.Class("duplex")
			if cs.Version < 10 {
				rec.Class("duplex-below-v10(not-judged)")
			}
		}
		if cs.Cfg.FullDuplex != !cs.PeerIO && cs.Cfg.Mode == "ntn" {
			rec.Class("duplex-asked-by-one-side-only")
		}
		enabled := enabledProtos(cs.Cfg.Mode, cs.Version)
		isEnabled := map[uint16]bool{}
		for _, p := range enabled {
			isEnabled[p.ID] = true
		}
		fail := func(key, what string) bool {
			caseObj["callbacks"] = log.String()
			return rec.Fail(rt, key, cs.String()+": "+what, caseObj)
		}

		// (a) accessors <=> version table
		acc := map[string]bool{
			"chain-sync":                 conn.ChainSync() != nil,
			"block-fetch":                conn.BlockFetch() != nil,
			"tx-submission":              conn.TxSubmission() != nil,
			"keep-alive":                 conn.KeepAlive() != nil,
			"peer-sharing":               conn.PeerSharing() != nil,
			"local-tx-submission":        conn.LocalTxSubmission() != nil,
			"local-state-query":          conn.LocalStateQuery() != nil,
			"local-tx-monitor":           conn.LocalTxMonitor() != nil,
			"local-message-submission":   conn.LocalMessageSubmission() != nil,
			"local-message-notification": conn.LocalMessageNotification() != nil,
		}
		want := map[string]bool{}
		for _, p := range enabled {
			want[p.Name] = true
		}
		for name, got := range acc {
			if got != want[name] {
				fail(fmt.Sprintf("accessor:%s:%s:present=%v", cs.Cfg.Mode, name, got),
					fmt.Sprintf("accessor %s non-nil=%v but the version table says enabled=%v", name, got, want[name]))
				return
			}
		}
		if v, _ := conn.ProtocolVersion(); uint64(v) != cs.Version {
			fail("handshake:wrong-version-reported", fmt.Sprintf("ProtocolVersion()=%d", v))
			return
		}

		// things the library sends on its own as an initiator
		if initiator && cs.Cfg.Mode == "ntn" {
			if cs.KeepAlive {
				m, err := peer.NextMsg(mpKeepAlive.ID, false, longWait)
				if err != nil {
					caseObj["goroutines"] = goroutineDump()
					fail("reach:initiator:keep-alive:no-keepalive", fmt.Sprintf("keep-alives enabled but none sent: %v", err))
					return
				}
				n, _ := xcbor.ParseExact(m)
				if n == nil || len(n.Items) != 2 || n.Items[0].Arg != 0 {
					fail("reach:initiator:keep-alive:malformed", fmt.Sprintf("%x", m))
					return
				}
				_ = peer.SendMsg(mpKeepAlive.ID, true, xcbor.A(xcbor.U(1), n.Items[1]).Encode())
				rec.Class("reach:initiator:keep-alive")
			}
		}

		// (b) reachability, responder role: peer request -> callback + reply
		if responder {
			order := rapid.Permutation(enabled).Draw(rt, "respOrder")
			for _, p := range order {
				if p.ID == mpDmqSubmit.ID {
					continue // needs a signed DMQ message; gating only
				}
				psOn := true
				if p.ID == mpPeerSharing.ID {
					vi, _ := refVersion(cs.Version)
					psOn = cs.Cfg.PeerSharing && peerSharingOn(vi.Fam, cs.PeerPS)
					if !psOn {
						rec.Class("peer-sharing-flag-off:not-probed")
						continue
					}
				}
				before := log.get(p.Callback)
				if err := peer.SendMsg(p.ID, false, p.Request); err != nil {
					fail("harness:send", err.Error())
					return
				}
				if p.ReplyTag != noReply {
					m, err := peer.NextMsg(p.ID, true, longWait)
					if err != nil {
						caseObj["goroutines"] = goroutineDump()
						fail(fmt.Sprintf("reach:responder:%s:no-reply", p.Name), fmt.Sprintf("request %x on protocol %d got no answer: %v", p.Request, p.ID, err))
						return
					}
					if tag, _ := msgTag(m); tag != p.ReplyTag {
						fail(fmt.Sprintf("reach:responder:%s:wrong-reply", p.Name), fmt.Sprintf("request %x answered with %x", p.Request, m))
						return
					}
				}
				if p.Callback != "" {
					// the callback runs before the reply is sent; for protocols
					// without a reply wait for it (bounded)
					deadline := time.Now().Add(longWait)
					for log.get(p.Callback) == before && time.Now().Before(deadline) {
						time.Sleep(200 * time.Microsecond)
					}
					if log.get(p.Callback) != before+1 {
						caseObj["goroutines"] = goroutineDump()
						fail(fmt.Sprintf("reach:responder:%s:callback-not-fired", p.Name), fmt.Sprintf("request %x on protocol %d: callback %s fired %d times", p.Request, p.ID, p.Callback, log.get(p.Callback)-before))
						return
					}
				}
				rec.Class("reach:responder:" + p.Name)
			}
		}

		// (b) reachability, initiator role: client call -> request on the wire -> reply -> return
		if initiator {
			type call struct {
				p     miniProto
				run   func() error
				reply []byte
				okErr bool // the call may return an error (e.g. "no blocks")
			}
			var calls []call
			vi, _ := refVersion(cs.Version)
			for _, p := range enabled {
				switch p.ID {
				case mpChainSyncNtN.ID, mpChainSyncNtC.ID:
					calls = append(calls, call{p, func() error { _, err := conn.ChainSync().Client.GetCurrentTip(); return err },
						xcbor.A(xcbor.U(6), xcbor.A(pt(), xcbor.U(9))).Encode(), false})
				case mpTxSubmission.ID:
					calls = append(calls, call{p, func() error { conn.TxSubmission().Client.Init(); return nil }, nil, false})
				case mpBlockFetch.ID:
					calls = append(calls, call{p, func() error { _, err := conn.BlockFetch().Client.GetBlock(pcommon.NewPoint(1, hash32)); return err },
						xcbor.A(xcbor.U(3)).Encode(), true})
				case mpPeerSharing.ID:
					if cs.Cfg.PeerSharing && peerSharingOn(vi.Fam, cs.PeerPS) {
						calls = append(calls, call{p, func() error { _, err := conn.PeerSharing().Client.GetPeers(3); return err },
							xcbor.A(xcbor.U(1), xcbor.A()).Encode(), false})
					}
				case mpLocalTxSub.ID:
					calls = append(calls, call{p, func() error { return conn.LocalTxSubmission().Client.SubmitTx(6, []byte{0x80}) },
						xcbor.A(xcbor.U(1)).Encode(), false})
				case mpLocalState.ID:
					calls = append(calls, call{p, func() error { return conn.LocalStateQuery().Client.AcquireVolatileTip() },
						xcbor.A(xcbor.U(1)).Encode(), false})
				case mpLocalTxMon.ID:
					calls = append(calls, call{p, func() error { return conn.LocalTxMonitor().Client.Acquire() },
						xcbor.A(xcbor.U(2), xcbor.U(7)).Encode(), false})
				case mpDmqNotify.ID:
					calls = append(calls, call{p, func() error { return conn.LocalMessageNotification().Client.RequestMessagesNonBlocking() },
						xcbor.A(xcbor.U(1), xcbor.A(), xcbor.Bool(false)).Encode(), false})
				}
			}
			calls = rapid.Permutation(calls).Draw(rt, "initOrder")
			for _, c := range calls {
				done := make(chan error, 1)
				go func() { done <- c.run() }()
				m, err := peer.NextMsg(c.p.ID, false, longWait)
				if err != nil {
					caseObj["goroutines"] = goroutineDump()
					fail(fmt.Sprintf("reach:initiator:%s:request-not-sent", c.p.Name), fmt.Sprintf("client call made but no request arrived on protocol %d: %v", c.p.ID, err))
					return
				}
				caseObj["last_request"] = evi.Hex(m)
				if c.reply != nil {
					_ = peer.SendMsg(c.p.ID, true, c.reply)
				}
				select {
				case err := <-done:
					if err != nil && !c.okErr {
						fail(fmt.Sprintf("reach:initiator:%s:call-failed", c.p.Name), fmt.Sprintf("request %x answered with %x, call returned %v", m, c.reply, err))
						return
					}
				case <-time.After(longWait):
					caseObj["goroutines"] = goroutineDump()
					fail(fmt.Sprintf("reach:initiator:%s:call-hangs", c.p.Name), fmt.Sprintf("request %x answered with %x, call did not return", m, c.reply))
					return
				}
				rec.Class("reach:initiator:" + c.p.Name)
			}
		}
		if cbs := log.total(); !responder && cbs != 0 {
			fail("gate:callback-fired-during-initiator-only-operation", "callbacks: "+log.String())
			return
		}

		// (c) one negative probe
		type neg struct {
			kind     string
			p        miniProto
			response bool // direction bit of the segment the peer sends
		}
		var negs []neg
		for _, p := range allMiniProtos {
			switch {
			case isEnabled[p.ID]:
				if !responder {
					negs = append(negs, neg{"request-on-initiator-only", p, false})
				}
				if !initiator {
					negs = append(negs, neg{"response-on-responder-only", p, true})
				}
			default:
				// a protocol this version / mode does not run, in a direction that is open
				if responder {
					negs = append(negs, neg{"disabled-protocol-request", p, false})
				} else {
					negs = append(negs, neg{"disabled-protocol-request-on-initiator-only", p, false})
				}
			}
		}
		negs = append(negs, neg{"unknown-protocol", miniProto{Name: "unknown", ID: 99, Request: xcbor.A(xcbor.U(0)).Encode(), Response: xcbor.A(xcbor.U(0)).Encode()}, !responder})
		// bias to the two direction probes the statement names
		var named []neg
		for _, n := range negs {
			if n.kind == "request-on-initiator-only" || n.kind == "response-on-responder-only" {
				named = append(named, n)
			}
		}
		var pick neg
		if len(named) > 0 && rapid.IntRange(0, 2).Draw(rt, "negNamed") != 0 {
			pick = rapid.SampledFrom(named).Draw(rt, "neg")
		} else {
			pick = rapid.SampledFrom(negs).Draw(rt, "negAny")
		}
		payload := pick.p.Request
		if pick.response {
			payload = pick.p.Response
		}
		beforeCalls := log.total()
		replyDirBefore := len(peer.Stream(pick.p.ID, !pick.response))
		if err := peer.SendMsg(pick.p.ID, pick.response, payload); err != nil {
			fail("harness:send", err.Error())
			return
		}
		// wait until the connection has shut down; stop early when the probe
		// visibly got through (a callback fired or an answer was written)
		var errs []error
		errClosed, leaked := false, false
		deadline := time.After(negWait)
		tick := time.NewTicker(2 * time.Millisecond)
	waitLoop:
		for {
			select {
			case e, ok := <-conn.ErrorChan():
				if !ok {
					errClosed = true
					break waitLoop
				}
				errs = append(errs, e)
			case <-tick.C:
				if log.total() != beforeCalls || len(peer.Stream(pick.p.ID, !pick.response)) != replyDirBefore {
					leaked = true
					break waitLoop
				}
			case <-deadline:
				break waitLoop
			}
		}
		tick.Stop()
		peerSawClose := false
		if errClosed {
			closed = true
			peerSawClose = peer.WaitClosed(negWait)
		}
		_ = leaked
		caseObj["probe"] = fmt.Sprintf("%s proto=%s(%d) response-bit=%v payload=%x", pick.kind, pick.p.Name, pick.p.ID, pick.response, payload)
		var es []string
		for _, e := range errs {
			es = append(es, e.Error())
		}
		caseObj["errors"] = es
		rec.Class("neg:" + pick.kind)
		rec.NonTrivial(fmt.Sprintf("%s|%s|%d|%v", cs, pick.kind, pick.p.ID, pick.response), caseObj)
		probeKey := fmt.Sprintf("%s:%s", pick.kind, pick.p.Name)
		switch {
		case log.total() != beforeCalls:
			fail("gate:"+probeKey+":callback-fired", fmt.Sprintf("a callback fired on the probe (%s)", log.String()))
		case len(peer.Stream(pick.p.ID, !pick.response)) != replyDirBefore:
			fail("gate:"+probeKey+":answered", fmt.Sprintf("the probe was answered with %x", peer.Stream(pick.p.ID, !pick.response)[replyDirBefore:]))
		case !errClosed || !peerSawClose:
			caseObj["goroutines"] = goroutineDump()
			fail("gate:"+probeKey+":connection-not-closed", fmt.Sprintf("after the probe the connection stayed open (error channel closed=%v, peer saw close=%v)", errClosed, peerSawClose))
		case len(errs) == 0:
			fail("gate:"+probeKey+":closed-without-error", "the connection closed but reported no error")
		}
	})
}
