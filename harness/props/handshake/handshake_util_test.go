package handshake

import (
	"fmt"
	"net"
	"runtime"
	"sort"
	"strings"
	"sync"
	"time"

	ouroboros "github.com/blinklabs-io/gouroboros"
	"github.com/blinklabs-io/gouroboros/connection"
	"github.com/blinklabs-io/gouroboros/muxer"
	"github.com/blinklabs-io/gouroboros/protocol"
	hs "github.com/blinklabs-io/gouroboros/protocol/handshake"
	"pgregory.net/rapid"

	"verif/harness/internal/rawpeer"
	"verif/harness/internal/xcbor"
)

// generous bound for anything that should take well under a millisecond of
// library work (>= 1000x the expected latency); hitting it is reported with a
// goroutine dump, never silently.
const longWait = 30 * time.Second

func goroutineDump() string {
	buf := make([]byte, 1<<20)
	n := runtime.Stack(buf, true)
	s := string(buf[:n])
	if len(s) > 60000 {
		s = s[:60000] + "\n…(truncated)"
	}
	return s
}

// ---- connection configuration ------------------------------------------------

type connCfg struct {
	Mode        string // "ntn", "ntc", "dmq"
	Server      bool
	FullDuplex  bool
	PeerSharing bool
	Query       bool
	Magic       uint32
}

func (c connCfg) String() string {
	role := "client"
	if c.Server {
		role = "server"
	}
	return fmt.Sprintf("%s/%s fd=%v ps=%v q=%v magic=%d", c.Mode, role, c.FullDuplex, c.PeerSharing, c.Query, c.Magic)
}

// table is the reference table this configuration offers.
func (c connCfg) table() string {
	switch c.Mode {
	case "ntn":
		return "ntn"
	case "dmq":
		return "dmq-ntc"
	}
	return "ntc"
}

func (c connCfg) options(extra ...ouroboros.ConnectionOptionFunc) []ouroboros.ConnectionOptionFunc {
	opts := []ouroboros.ConnectionOptionFunc{
		ouroboros.WithNetworkMagic(c.Magic),
		ouroboros.WithServer(c.Server),
		ouroboros.WithNodeToNode(c.Mode == "ntn"),
		ouroboros.WithDMQ(c.Mode == "dmq"),
		ouroboros.WithFullDuplex(c.FullDuplex),
		ouroboros.WithPeerSharing(c.PeerSharing),
		ouroboros.WithQueryMode(c.Query),
	}
	return append(opts, extra...)
}

var magics = []uint32{764824073, 1, 2, 42, 999, 0xffffffff}

func genMagic(rt *rapid.T, label string) uint32 {
	if rapid.IntRange(0, 3).Draw(rt, label+"Rand") == 0 {
		return rapid.Uint32Range(1, 0xffffffff).Draw(rt, label)
	}
	return rapid.SampledFrom(magics).Draw(rt, label+"Pick")
}

// otherMagic returns a magic different from m.
func otherMagic(rt *rapid.T, m uint32, label string) uint32 {
	for i := 0; ; i++ {
		o := genMagic(rt, fmt.Sprintf("%s%d", label, i))
		if o != m {
			return o
		}
	}
}

func genPlan(rt *rapid.T, label string) rawpeer.Plan {
	if rapid.IntRange(0, 2).Draw(rt, label+"Plain") == 0 {
		return nil
	}
	return &rawpeer.SeqPlan{
		Chunks: rapid.SliceOfN(rapid.SampledFrom([]int{0, 1, 2, 3, 5, 8, 13, 64}), 1, 4).Draw(rt, label+"Chunks"),
		Yields: rapid.SliceOfN(rapid.SampledFrom([]int{0, 0, 1, 1, 20}), 1, 3).Draw(rt, label+"Yields"),
	}
}

// ---- running a library connection -----------------------------------------------

type connResult struct {
	Conn *ouroboros.Connection
	Err  error
}

// startConn runs NewConnection in its own goroutine (it blocks until the
// handshake is over).
func startConn(opts []ouroboros.ConnectionOptionFunc) <-chan connResult {
	ch := make(chan connResult, 1)
	go func() {
		c, err := ouroboros.NewConnection(opts...)
		ch <- connResult{c, err}
	}()
	return ch
}

// await waits for the result; ok=false means the generous bound expired.
func await(ch <-chan connResult) (connResult, bool) {
	select {
	case r := <-ch:
		return r, true
	case <-time.After(longWait):
		return connResult{}, false
	}
}

// closeConn closes a library connection and waits for its error channel to be
// closed (end of shutdown). Returns the asynchronous errors seen and false when
// shutdown did not finish within the bound.
func closeConn(c *ouroboros.Connection) ([]error, bool) {
	if c == nil {
		return nil, true
	}
	done := make(chan struct{})
	go func() { _ = c.Close(); close(done) }()
	var errs []error
	deadline := time.After(longWait)
	for {
		select {
		case e, ok := <-c.ErrorChan():
			if !ok {
				select {
				case <-done:
				case <-deadline:
					return errs, false
				}
				return errs, true
			}
			errs = append(errs, e)
		case <-deadline:
			return errs, false
		}
	}
}

// ---- parsing what the library proposed --------------------------------------------

type proposal struct {
	Versions []uint64 // ascending
	Data     map[uint64]*xcbor.Node
	Raw      []byte
}

func (p proposal) has(v uint64) bool { _, ok := p.Data[v]; return ok }

func parseProposal(msg []byte) (proposal, error) {
	n, err := xcbor.ParseExact(msg)
	if err != nil {
		return proposal{}, err
	}
	if n.Kind != xcbor.Array || len(n.Items) != 2 || n.Items[0].Kind != xcbor.Uint || n.Items[0].Arg != 0 || n.Items[1].Kind != xcbor.Map {
		return proposal{}, fmt.Errorf("not a ProposeVersions message: %x", msg)
	}
	p := proposal{Data: map[uint64]*xcbor.Node{}, Raw: msg}
	m := n.Items[1]
	for i := 0; i+1 < len(m.Items); i += 2 {
		if m.Items[i].Kind != xcbor.Uint {
			return proposal{}, fmt.Errorf("non-uint version key in %x", msg)
		}
		p.Versions = append(p.Versions, m.Items[i].Arg)
		p.Data[m.Items[i].Arg] = m.Items[i+1]
	}
	sort.Slice(p.Versions, func(i, j int) bool { return p.Versions[i] < p.Versions[j] })
	return p, nil
}

// ---- driving protocol/handshake directly over a real muxer -------------------------

type finished struct {
	Version uint16
	Data    protocol.VersionData
}

type directEnd struct {
	Mux      *muxer.Muxer
	ErrCh    chan error
	Fin      chan finished
	QueryRep chan protocol.ProtocolVersionMap
	Client   *hs.Client
	Server   *hs.Server
}

func protoMode(table string) protocol.ProtocolMode {
	if table == "ntn" || table == "dmq-ntn" {
		return protocol.ProtocolModeNodeToNode
	}
	return protocol.ProtocolModeNodeToClient
}

// newDirect builds a handshake client or server with a caller-chosen version
// map on a real muxer over conn. Nothing is started.
func newDirect(conn net.Conn, mode protocol.ProtocolMode, server bool, vm protocol.ProtocolVersionMap) *directEnd {
	d := &directEnd{
		Mux:      muxer.New(conn),
		ErrCh:    make(chan error, 10),
		Fin:      make(chan finished, 4),
		QueryRep: make(chan protocol.ProtocolVersionMap, 4),
	}
	cfg := hs.NewConfig(
		hs.WithProtocolVersionMap(vm),
		hs.WithFinishedFunc(func(_ hs.CallbackContext, v uint16, data protocol.VersionData) error {
			d.Fin <- finished{v, data}
			return nil
		}),
		hs.WithQueryReplyFunc(func(_ hs.CallbackContext, m protocol.ProtocolVersionMap) error {
			d.QueryRep <- m
			return nil
		}),
	)
	po := protocol.ProtocolOptions{Muxer: d.Mux, ErrorChan: d.ErrCh, Mode: mode,
		ConnectionId: connection.ConnectionId{LocalAddr: conn.LocalAddr(), RemoteAddr: conn.RemoteAddr()}}
	if server {
		po.Role = protocol.ProtocolRoleServer
		d.Server = hs.NewServer(po, &cfg)
	} else {
		po.Role = protocol.ProtocolRoleClient
		d.Client = hs.NewClient(po, &cfg)
	}
	return d
}

func (d *directEnd) start() { d.startMode(false) }

// startOnce lets the muxer read exactly one segment, which is how
// ouroboros.Connection runs the handshake (the muxer is started fully only
// after the handshake, so a close right behind the reply is not seen early).
func (d *directEnd) startOnce() { d.startMode(true) }

func (d *directEnd) startMode(once bool) {
	if d.Server != nil {
		d.Server.Start()
	} else {
		d.Client.Start()
	}
	if once {
		d.Mux.StartOnce()
	} else {
		d.Mux.Start()
	}
}

// outcome waits for FinishedFunc or a protocol/muxer error.
func (d *directEnd) outcome() (fin *finished, err error, ok bool) {
	select {
	case f := <-d.Fin:
		return &f, nil, true
	case e := <-d.ErrCh:
		return nil, e, true
	case e, open := <-d.Mux.ErrorChan():
		if !open {
			e = fmt.Errorf("muxer stopped")
		}
		return nil, fmt.Errorf("muxer: %w", e), true
	case <-time.After(longWait):
		return nil, nil, false
	}
}

// stop shuts the muxer down and waits until its error channel is closed.
func (d *directEnd) stop() bool {
	d.Mux.Stop()
	deadline := time.After(longWait)
	for {
		select {
		case _, open := <-d.Mux.ErrorChan():
			if !open {
				return true
			}
		case <-deadline:
			return false
		}
	}
}

// libVersionMap builds a library version map for a reference table restricted
// to the given versions, using the library's own constructors for the entries
// (these are the values every real caller passes).
func libVersionMap(table string, versions []uint64, magic uint32, initiatorOnly, peerSharing, query bool) protocol.ProtocolVersionMap {
	var full protocol.ProtocolVersionMap
	switch table {
	case "ntn":
		full = protocol.GetProtocolVersionMap(protocol.ProtocolModeNodeToNode, magic, initiatorOnly, peerSharing, query)
	case "ntc":
		full = protocol.GetProtocolVersionMap(protocol.ProtocolModeNodeToClient, magic, initiatorOnly, peerSharing, query)
	case "dmq-ntc":
		full = protocol.GetProtocolVersionMapDMQNtC(magic, query)
	case "dmq-ntn":
		full = protocol.GetProtocolVersionMapDMQNtN(magic, initiatorOnly, peerSharing, query)
	}
	out := protocol.ProtocolVersionMap{}
	for _, v := range versions {
		if d, ok := full[uint16(v)]; ok {
			out[uint16(v)] = d
		}
	}
	return out
}

// genSubset draws a non-empty subset of vs.
func genSubset(rt *rapid.T, vs []uint64, label string) []uint64 {
	switch rapid.IntRange(0, 4).Draw(rt, label+"Kind") {
	case 0:
		return append([]uint64(nil), vs...)
	case 1:
		return []uint64{rapid.SampledFrom(vs).Draw(rt, label+"One")}
	case 2: // contiguous range
		lo := rapid.IntRange(0, len(vs)-1).Draw(rt, label+"Lo")
		hi := rapid.IntRange(lo, len(vs)-1).Draw(rt, label+"Hi")
		return append([]uint64(nil), vs[lo:hi+1]...)
	}
	var out []uint64
	for _, v := range vs {
		if rapid.Bool().Draw(rt, label+"In") {
			out = append(out, v)
		}
	}
	if len(out) == 0 {
		out = []uint64{rapid.SampledFrom(vs).Draw(rt, label+"Fallback")}
	}
	return out
}

func versionsString(vs []uint64) string {
	parts := make([]string, len(vs))
	for i, v := range vs {
		parts[i] = verName(v)
	}
	return strings.Join(parts, ",")
}

func verName(v uint64) string {
	switch {
	case v >= ntcBit && v < 0x10000:
		return fmt.Sprintf("ntc%d", v-ntcBit)
	case v >= dmqNtcBit && v < dmqNtcBit+0x100:
		return fmt.Sprintf("dmqc%d", v-dmqNtcBit)
	}
	return fmt.Sprintf("%d", v)
}

func errString(e error) string {
	if e == nil {
		return ""
	}
	return e.Error()
}

// ---- wire tap -------------------------------------------------------------------------

// tapConn records everything an endpoint writes and when it closes its end, so
// that "was the reply ever put on the wire" is decided from the bytes, not from
// timing: once the endpoint has closed the connection the record is final.
type tapConn struct {
	net.Conn
	mu     sync.Mutex
	wrote  []byte
	once   sync.Once
	closed chan struct{}
}

func newTap(c net.Conn) *tapConn { return &tapConn{Conn: c, closed: make(chan struct{})} }

func (t *tapConn) Write(p []byte) (int, error) {
	n, err := t.Conn.Write(p)
	if n > 0 {
		t.mu.Lock()
		t.wrote = append(t.wrote, p[:n]...)
		t.mu.Unlock()
	}
	return n, err
}

func (t *tapConn) Close() error {
	err := t.Conn.Close()
	t.once.Do(func() { close(t.closed) })
	return err
}

func (t *tapConn) waitClosed() bool {
	select {
	case <-t.closed:
		return true
	case <-time.After(longWait):
		return false
	}
}

// handshakeStream returns the bytes written on the handshake protocol stream in
// the given direction.
func (t *tapConn) handshakeStream(response bool) []byte {
	t.mu.Lock()
	b := append([]byte(nil), t.wrote...)
	t.mu.Unlock()
	segs, _ := rawpeer.ParseSegs(b)
	var out []byte
	for _, s := range segs {
		if s.ProtoID == 0 && s.Response == response {
			out = append(out, s.Payload...)
		}
	}
	return out
}
