package handshake

// Reference model of the handshake version space, written from the Ouroboros
// network specification (handshake CDDL, node-to-node / node-to-client version
// tables) and CIP-0137 — NOT derived from protocol.GetProtocolVersion. It is
// the independent side of the C17/C18/C19 oracles.

import (
	"fmt"
	"sort"

	"verif/harness/internal/xcbor"
)

type family int

const (
	famNone  family = iota
	famNtC9         // nodeToClientVersionData (v9..v14) = networkMagic (uint)
	famNtC15        // v15+ and DMQ NtC = [networkMagic, query]
	famNtN7         // v7..v10 = [networkMagic, initiatorOnlyDiffusionMode]
	famNtN11        // v11..v12 = [networkMagic, initiatorOnly, peerSharing 0..2, query]
	famNtN13        // v13+ and DMQ NtN = [networkMagic, initiatorOnly, peerSharing 0..1, query]
)

func (f family) String() string {
	return [...]string{"none", "ntc9", "ntc15", "ntn7", "ntn11", "ntn13"}[f]
}

const (
	ntcBit    = 0x8000
	dmqNtcBit = 0x1000
)

type verInfo struct {
	Table string // "ntn", "ntc", "dmq-ntc", "dmq-ntn"
	Fam   family
	// mini-protocol enablement per the spec version tables
	KeepAlive   bool // NtN >= 7
	PeerSharing bool // NtN >= 11
	FullDuplex  bool // NtN >= 10
	LSQ         bool // NtC >= 9 (all supported)
	TxMonitor   bool // NtC >= 12
}

// the versions gouroboros claims to support (its README / the statement's
// "supported version tables"): NtN 7..15, NtC 9..21, DMQ NtC 1, DMQ NtN 1..2.
const (
	ntnLo, ntnHi = 7, 15
	ntcLo, ntcHi = 9, 21
)

func refVersion(v uint64) (verInfo, bool) {
	switch {
	case v >= ntnLo && v <= ntnHi:
		vi := verInfo{Table: "ntn", KeepAlive: true, FullDuplex: v >= 10, PeerSharing: v >= 11}
		switch {
		case v <= 10:
			vi.Fam = famNtN7
		case v <= 12:
			vi.Fam = famNtN11
		default:
			vi.Fam = famNtN13
		}
		return vi, true
	case v >= ntcBit+ntcLo && v <= ntcBit+ntcHi:
		n := v - ntcBit
		vi := verInfo{Table: "ntc", LSQ: true, TxMonitor: n >= 12}
		if n <= 14 {
			vi.Fam = famNtC9
		} else {
			vi.Fam = famNtC15
		}
		return vi, true
	case v == dmqNtcBit+1:
		return verInfo{Table: "dmq-ntc", Fam: famNtC15}, true
	case v == 1 || v == 2:
		return verInfo{Table: "dmq-ntn", Fam: famNtN13}, true
	}
	return verInfo{}, false
}

func refTable(table string) []uint64 {
	var out []uint64
	switch table {
	case "ntn":
		for v := uint64(ntnLo); v <= ntnHi; v++ {
			out = append(out, v)
		}
	case "ntc":
		for v := uint64(ntcLo); v <= ntcHi; v++ {
			out = append(out, v+ntcBit)
		}
	case "dmq-ntc":
		out = []uint64{dmqNtcBit + 1}
	case "dmq-ntn":
		out = []uint64{1, 2}
	}
	return out
}

var allTables = []string{"ntn", "ntc", "dmq-ntc", "dmq-ntn"}

func allKnownVersions() []uint64 {
	var out []uint64
	for _, t := range allTables {
		out = append(out, refTable(t)...)
	}
	sort.Slice(out, func(i, j int) bool { return out[i] < out[j] })
	return out
}

// vdata is the abstract content of a version-data item.
type vdata struct {
	Magic         uint64
	InitiatorOnly bool
	PeerSharing   uint64
	Query         bool
}

// refData builds the canonical CBOR of version data of a family.
func refData(f family, d vdata) *xcbor.Node {
	switch f {
	case famNtC9:
		return xcbor.U(d.Magic)
	case famNtC15:
		return xcbor.A(xcbor.U(d.Magic), xcbor.Bool(d.Query))
	case famNtN7:
		return xcbor.A(xcbor.U(d.Magic), xcbor.Bool(d.InitiatorOnly))
	case famNtN11, famNtN13:
		return xcbor.A(xcbor.U(d.Magic), xcbor.Bool(d.InitiatorOnly), xcbor.U(d.PeerSharing), xcbor.Bool(d.Query))
	}
	panic("refData: no family")
}

func isBool(n *xcbor.Node) (bool, bool) {
	if n.Kind == xcbor.Simple && n.Width == 0 && (n.Arg == 20 || n.Arg == 21) {
		return n.Arg == 21, true
	}
	return false, false
}

// refParse is the strict CDDL reading of a version-data item for a family.
// why names the first reason it is not valid ("" when valid).
func refParse(f family, n *xcbor.Node) (d vdata, why string) {
	if n == nil {
		return d, "absent"
	}
	magic := func(m *xcbor.Node) string {
		if m.Kind != xcbor.Uint {
			return "magic-not-uint(" + m.Kind.String() + ")"
		}
		if m.Arg > 0xffffffff {
			return "magic-exceeds-uint32"
		}
		d.Magic = m.Arg
		return ""
	}
	if f == famNtC9 {
		why = magic(n)
		d.InitiatorOnly = true
		return d, why
	}
	if n.Kind != xcbor.Array {
		return d, "not-array(" + n.Kind.String() + ")"
	}
	want := map[family]int{famNtC15: 2, famNtN7: 2, famNtN11: 4, famNtN13: 4}[f]
	if len(n.Items) != want {
		return d, fmt.Sprintf("array-len-%d-want-%d", len(n.Items), want)
	}
	if w := magic(n.Items[0]); w != "" {
		return d, w
	}
	b, ok := isBool(n.Items[1])
	if !ok {
		return d, "field1-not-bool(" + n.Items[1].Kind.String() + ")"
	}
	switch f {
	case famNtC15:
		d.Query = b
		d.InitiatorOnly = true
		return d, ""
	case famNtN7:
		d.InitiatorOnly = b
		return d, ""
	}
	d.InitiatorOnly = b
	if n.Items[2].Kind != xcbor.Uint {
		return d, "peersharing-not-uint(" + n.Items[2].Kind.String() + ")"
	}
	d.PeerSharing = n.Items[2].Arg
	q, ok := isBool(n.Items[3])
	if !ok {
		return d, "query-not-bool(" + n.Items[3].Kind.String() + ")"
	}
	d.Query = q
	maxPS := uint64(1)
	if f == famNtN11 {
		maxPS = 2
	}
	if d.PeerSharing > maxPS {
		return d, "peersharing-out-of-range"
	}
	return d, ""
}

// peerSharingOn is the spec meaning of the peer-sharing field.
func peerSharingOn(f family, ps uint64) bool {
	switch f {
	case famNtN11, famNtN13:
		return ps != 0
	}
	return false
}

// refLenient reads version data the way a tolerant decoder would: on top of the
// strict reading it takes null/undefined for a zero field (or for the whole
// item), a tag-2 bignum that fits for an unsigned field, and any unsigned
// peer-sharing value. ok=false means the item is not even leniently an instance
// of the family. It exists only so that the oracle can tell "accepted because
// the decoder is tolerant, content is what the initiator wants" (counted, not
// flagged) from "accepted although the content is wrong".
func refLenient(f family, n *xcbor.Node) (d vdata, ok bool) {
	if n == nil {
		return d, false
	}
	isNil := func(x *xcbor.Node) bool {
		return x.Kind == xcbor.Simple && x.Width == 0 && (x.Arg == 22 || x.Arg == 23)
	}
	uintOf := func(x *xcbor.Node, max uint64) (uint64, bool) {
		switch {
		case x.Kind == xcbor.Uint:
			return x.Arg, x.Arg <= max
		case isNil(x):
			return 0, true
		case x.Kind == xcbor.Tag && x.Arg == 2 && len(x.Items) == 1 && x.Items[0].Kind == xcbor.Bytes:
			b := x.Items[0].Payload()
			var v uint64
			for _, c := range b {
				if v>>56 != 0 {
					return 0, false
				}
				v = v<<8 | uint64(c)
			}
			return v, v <= max
		}
		return 0, false
	}
	boolOf := func(x *xcbor.Node) (bool, bool) {
		if isNil(x) {
			return false, true
		}
		return isBool(x)
	}
	if isNil(n) {
		d.InitiatorOnly = f == famNtC9 || f == famNtC15
		return d, true
	}
	if f == famNtC9 {
		d.Magic, ok = uintOf(n, 0xffffffff)
		d.InitiatorOnly = true
		return d, ok
	}
	if n.Kind != xcbor.Array {
		return d, false
	}
	want := map[family]int{famNtC15: 2, famNtN7: 2, famNtN11: 4, famNtN13: 4}[f]
	if len(n.Items) != want {
		return d, false
	}
	if d.Magic, ok = uintOf(n.Items[0], 0xffffffff); !ok {
		return d, false
	}
	b, ok := boolOf(n.Items[1])
	if !ok {
		return d, false
	}
	switch f {
	case famNtC15:
		d.Query, d.InitiatorOnly = b, true
		return d, true
	case famNtN7:
		d.InitiatorOnly = b
		return d, true
	}
	d.InitiatorOnly = b
	if d.PeerSharing, ok = uintOf(n.Items[2], ^uint64(0)); !ok {
		return d, false
	}
	if d.Query, ok = boolOf(n.Items[3]); !ok {
		return d, false
	}
	return d, true
}
