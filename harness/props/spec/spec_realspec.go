package spec

import (
	"errors"
	"fmt"
	"strings"
	"time"

	"github.com/blinklabs-io/gouroboros/protocol"
	"github.com/blinklabs-io/gouroboros/protocol/blockfetch"
	pcommon "github.com/blinklabs-io/gouroboros/protocol/common"
	"github.com/blinklabs-io/gouroboros/protocol/localstatequery"
	"github.com/blinklabs-io/gouroboros/protocol/localtxmonitor"
	"github.com/blinklabs-io/gouroboros/protocol/txsubmission"
)

// "The real object accepts the whole specification": for every mini-protocol and
// both roles the package's real Client / Server object (built by the package's
// constructor, with the callbacks it needs) is brought, by a shortest real
// conversation, into every state in which that role RECEIVES, and is then sent
// every message of the alphabet by the peer:
//   * a message the automaton permits there must produce an accepted transition
//     to the automaton's successor - not a refusal, and not a protocol error
//     before the state machine was even consulted (an object-specific decoder or
//     configuration that rejects a permitted message);
//   * a message the automaton forbids there must not be accepted.
// The automaton is the implementation automaton (simulated exported map or
// learned), whose equality with the specification is established separately, so
// for the protocols with a specification this is "accepts exactly the
// specification" up to the listed known findings.
//
// Getting there: messages the object itself has to send are sent through its
// public API where a raw SendMessage would leave a reply handler blocked on a
// result channel nobody reads (api), or are awaited where the object's handler
// sends them by itself (auto); everything else is a raw SendMessage / raw peer
// segments. What happens in a handler AFTER the transition is not judged.

// realKit is what a factory hands out besides the protocol: API calls by symbol
// (each is started in its own goroutine and may block until the reply arrives).
type realKit struct {
	api map[string]func()
}

type realKitFactory func(role protocol.ProtocolRole, o protocol.ProtocolOptions) (*protocol.Protocol, func(), *realKit)

// autoSends: "binding|role|state|symbol" -> the real object sends symbol in state
// by itself (from the handler of the message that led to state).
var autoSends = map[string]bool{}

func autoKey(b *binding, role protocol.ProtocolRole, state, sym string) string {
	return fmt.Sprintf("%s|%s|%s|%s", b.id, roleName(role), state, sym)
}

type convResult int

const (
	convOK convResult = iota
	convUnreached
)

// converse brings e (a real object of e.role) along access; returns the state
// reached and why it stopped early.
func converse(e *eng, kit *realKit, impl implAuto, access []string) (string, string) {
	cur := impl.initial()
	for i, sym := range access {
		ag := impl.agencyOf(cur)
		msg := e.b.sym(sym).mk[0]()
		local := ag == roleAgency(e.role)
		want, _ := impl.step(cur, sym)
		switch {
		case local && autoSends[autoKey(e.b, e.role, cur, sym)]:
			// the object sends it by itself
		case local && kit != nil && kit.api[sym] != nil:
			go kit.api[sym]()
		default:
			if err := e.send(ag, msg); err != nil {
				return cur, "send failed: " + err.Error()
			}
		}
		ev, err := e.awaitTransition()
		if err != nil {
			return cur, fmt.Sprintf("%s in %s: %v", sym, cur, err)
		}
		if ev.Err != nil || ev.MsgType != msg.Type() || ev.From.Name != cur || ev.To.Name != want {
			return cur, fmt.Sprintf("%s in %s: event type %d %s->%s err %v", sym, cur, ev.MsgType, ev.From.Name, ev.To.Name, ev.Err)
		}
		if local {
			if err := e.awaitSent(); err != nil {
				return cur, "object did not write " + sym
			}
		} else {
			nextAuto := false
			if i+1 < len(access) {
				nextAuto = autoSends[autoKey(e.b, e.role, want, access[i+1])]
			}
			if !nextAuto {
				if ok, herr := e.awaitHandled(); !ok {
					return want, fmt.Sprintf("handler of %s (%s): %v", sym, cur, herr)
				}
			}
		}
		cur = want
	}
	return cur, ""
}

type realSpecStats struct {
	judged    int
	unreached []string
}

func realAcceptsSpec(b *binding, impl implAuto, mk realKitFactory, eval func(), fail failFn, st *realSpecStats) {
	syms := symNames(b)
	acc := shortestAccess(impl, syms)
	for _, role := range []protocol.ProtocolRole{protocol.ProtocolRoleClient, protocol.ProtocolRoleServer} {
		for _, state := range impl.states() {
			ag := impl.agencyOf(state)
			if ag == agNone || ag == roleAgency(role) || acc[state] == nil && state != impl.initial() {
				continue
			}
			for _, sym := range syms {
				wantTo, wantOk := impl.step(state, sym)
				var kit *realKit
				e := newEngCustom(b, role, nil, true, func(o protocol.ProtocolOptions) (*protocol.Protocol, func()) {
					p, start, k := mk(role, o)
					kit = k
					return p, start
				})
				e.handlerWait = 5 * time.Second // the conversations of this pass have no blocking handler on their way
				cur, why := converse(e, kit, impl, acc[state])
				if why != "" || cur != state {
					e.close()
					st.unreached = append(st.unreached, fmt.Sprintf("%s %s %s<-%s: %s", b.id, roleName(role), state, sym, why))
					continue
				}
				msg := b.sym(sym).mk[0]()
				cs := map[string]any{"binding": b.id, "role": roleName(role), "state": state, "conversation": acc[state], "message": sym}
				eval()
				st.judged++
				if err := e.send(ag, msg); err != nil {
					e.close()
					continue
				}
				ev, err := e.awaitTransition()
				var pf *protoFailed
				switch {
				case errors.As(err, &pf):
					if wantOk {
						fail(fmt.Sprintf("real:%s:%s:%s:%s:impl-rejects/spec-accepts", b.proto, roleName(role), state, sym),
							fmt.Sprintf("%s: the real %s object in state %s (after %v) answered the permitted message %s with a protocol error before the state machine judged it: %v",
								b.id, roleName(role), state, acc[state], sym, pf.err), cs)
					}
				case err != nil:
					st.judged--
					st.unreached = append(st.unreached, fmt.Sprintf("%s %s %s<-%s: no reaction", b.id, roleName(role), state, sym))
				case ev.MsgType != msg.Type() || ev.From.Name != state:
					st.judged--
					st.unreached = append(st.unreached, fmt.Sprintf("%s %s %s<-%s: foreign event", b.id, roleName(role), state, sym))
				case wantOk && ev.Err != nil:
					fail(fmt.Sprintf("real:%s:%s:%s:%s:impl-rejects/spec-accepts", b.proto, roleName(role), state, sym),
						fmt.Sprintf("%s: the real %s object in state %s (after %v) refused the permitted message %s: %v",
							b.id, roleName(role), state, acc[state], sym, ev.Err), cs)
				case wantOk && ev.To.Name != wantTo:
					fail(fmt.Sprintf("real:%s:%s:%s:%s:successor", b.proto, roleName(role), state, sym),
						fmt.Sprintf("%s: the real %s object went %s --%s--> %s, the automaton says %s", b.id, roleName(role), state, sym, ev.To.Name, wantTo), cs)
				case !wantOk && ev.Err == nil:
					fail(fmt.Sprintf("real:%s:%s:%s:%s:impl-accepts/spec-rejects", b.proto, roleName(role), state, sym),
						fmt.Sprintf("%s: the real %s object in state %s accepted %s (-> %s), which the automaton forbids there", b.id, roleName(role), state, sym, ev.To.Name), cs)
				}
				e.close()
			}
		}
	}
}

func shortWhy(s string) string {
	if i := strings.Index(s, ": "); i > 0 {
		return s[i+2:]
	}
	return s
}

// ---- kits for the protocols whose deeper receiving states need callbacks / API calls ----

func init() {
	autoSends["local-tx-monitor|server|Acquiring|Acquired"] = true
	autoSends["local-state-query|server|Acquiring|Acquired"] = true
}

var realKits = map[string]realKitFactory{
	// server: Init needs its callback; client: nothing special
	"tx-submission": func(r protocol.ProtocolRole, o protocol.ProtocolOptions) (*protocol.Protocol, func(), *realKit) {
		cfg := txsubmission.NewConfig(txsubmission.WithInitFunc(func(txsubmission.CallbackContext) error { return nil }))
		if isClient(r) {
			return txsubmission.NewClient(o, &cfg).Protocol, nil, nil
		}
		s := txsubmission.NewServer(o, &cfg)
		return s.ProtocolInstance(), s.Start, nil
	},
	// client: RequestRange through GetBlockRange so that StartBatch finds its waiter,
	// blocks delivered to callbacks
	"block-fetch": func(r protocol.ProtocolRole, o protocol.ProtocolOptions) (*protocol.Protocol, func(), *realKit) {
		cfg := must(blockfetch.NewConfig(
			blockfetch.WithBlockRawFunc(func(blockfetch.CallbackContext, uint, []byte) error { return nil }),
			blockfetch.WithBatchDoneFunc(func(blockfetch.CallbackContext) error { return nil }),
			blockfetch.WithRequestRangeFunc(func(blockfetch.CallbackContext, pcommon.Point, pcommon.Point) error { return nil }),
		))
		if isClient(r) {
			c := blockfetch.NewClient(o, &cfg)
			return c.Protocol, nil, &realKit{api: map[string]func(){
				"RequestRange": func() { _ = c.GetBlockRange(pointA, pointA) },
			}}
		}
		return blockfetch.NewServer(o, &cfg).ProtocolInstance(), nil, nil
	},
	"local-tx-monitor": func(r protocol.ProtocolRole, o protocol.ProtocolOptions) (*protocol.Protocol, func(), *realKit) {
		cfg := localtxmonitor.NewConfig(localtxmonitor.WithGetMempoolFunc(
			func(localtxmonitor.CallbackContext) (uint64, uint32, []localtxmonitor.TxAndEraId, error) {
				return 99, 1000, nil, nil
			}))
		if isClient(r) {
			c := localtxmonitor.NewClient(o, &cfg)
			return c.Protocol, nil, &realKit{api: map[string]func(){
				"Acquire":  func() { _ = c.Acquire() },
				"HasTx":    func() { _, _ = c.HasTx(hash32) },
				"NextTx":   func() { _, _ = c.NextTx() },
				"GetSizes": func() { _, _, _, _ = c.GetSizes() },
			}}
		}
		return localtxmonitor.NewServer(o, &cfg).Protocol, nil, nil
	},
	"local-state-query": func(r protocol.ProtocolRole, o protocol.ProtocolOptions) (*protocol.Protocol, func(), *realKit) {
		cfg := localstatequery.NewConfig(
			localstatequery.WithAcquireFunc(func(localstatequery.CallbackContext, localstatequery.AcquireTarget, bool) error { return nil }),
			localstatequery.WithReleaseFunc(func(localstatequery.CallbackContext) error { return nil }),
		)
		if isClient(r) {
			c := localstatequery.NewClient(o, &cfg)
			return c.Protocol, nil, &realKit{api: map[string]func(){
				"Acquire[point]": func() { p := pointA; _ = c.Acquire(&p) },
				"Query":          func() { _, _ = c.GetSystemStart() },
			}}
		}
		return localstatequery.NewServer(o, &cfg).Protocol, nil, nil
	},
}
