package spec

import (
	"fmt"
	"reflect"
	"sort"
	"strings"
	"sync"
	"testing"
	"time"

	"github.com/blinklabs-io/gouroboros/cbor"
	"github.com/blinklabs-io/gouroboros/protocol"
	"pgregory.net/rapid"

	"verif/harness/internal/evi"
	"verif/harness/internal/rawpeer"
	"verif/harness/internal/xcbor"
)

type failFn func(key, what string, cs any) bool

type c16Case struct {
	Binding  string    `json:"binding"`
	Sequence []string  `json:"sequence"`
	Role     string    `json:"engine_role,omitempty"`
	Observed []stepObs `json:"engine_observed,omitempty"`
	Note     string    `json:"note,omitempty"`
}

// ---- (c) every permitted (state, message type) is decodable ---------------------------

func checkSampleDecodes(rec *evi.Recorder, b *binding, state string, sy *symBinding, match func(protocol.Message) bool, fail failFn) {
	for vi, mk := range sy.mk {
		sample := mk()
		rec.Eval()
		rec.Class("codec_samples")
		cs := map[string]any{"binding": b.id, "state": state, "symbol": sy.sym, "variant": vi}
		data, err := cbor.Encode(sample)
		if err != nil {
			fail(fmt.Sprintf("codec:%s:%s:%s:encode", b.proto, state, sy.sym),
				fmt.Sprintf("%s: constructor-built %s does not encode: %v", b.id, sy.sym, err), cs)
			continue
		}
		cs["cbor"] = evi.Hex(data)
		// independent look at the wire form: [tag, ...]
		n, perr := xcbor.ParseExact(data)
		if perr != nil || n.Kind != xcbor.Array || len(n.Items) == 0 || n.Items[0].Kind != xcbor.Uint {
			fail(fmt.Sprintf("codec:%s:%s:%s:shape", b.proto, state, sy.sym),
				fmt.Sprintf("%s: %s does not encode as an array starting with the message tag: %x", b.id, sy.sym, data), cs)
			continue
		}
		tag := n.Items[0].Arg
		if tag != uint64(sample.Type()) {
			fail(fmt.Sprintf("codec:%s:%s:%s:tag-vs-type", b.proto, state, sy.sym),
				fmt.Sprintf("%s: %s encodes tag %d but Type() is %d", b.id, sy.sym, tag, sample.Type()), cs)
		}
		if b.spec != nil {
			if want, ok := b.spec.tags[sy.sym]; ok && want >= 0 && uint64(want) != tag {
				fail(fmt.Sprintf("codec:%s:%s:spec-tag", b.proto, sy.sym),
					fmt.Sprintf("%s: %s is encoded with tag %d, the specification's CDDL gives %d", b.id, sy.sym, tag, want), cs)
			}
		}
		dec, err := b.fromCbor(uint(tag), data)
		if err != nil || dec == nil || reflect.ValueOf(dec).IsNil() {
			fail(fmt.Sprintf("codec:%s:%s:%s:undecodable", b.proto, state, sy.sym),
				fmt.Sprintf("%s: state %s permits %s but NewMsgFromCbor does not decode the constructor-built message %x: msg=%v err=%v",
					b.id, state, sy.sym, data, dec, err), cs)
			continue
		}
		if reflect.TypeOf(dec) != reflect.TypeOf(sample) || dec.Type() != sample.Type() {
			fail(fmt.Sprintf("codec:%s:%s:%s:wrong-type", b.proto, state, sy.sym),
				fmt.Sprintf("%s: %s decodes to %T (type %d), built as %T (type %d)", b.id, sy.sym, dec, dec.Type(), sample, sample.Type()), cs)
			continue
		}
		if match != nil && match(dec) != match(sample) {
			fail(fmt.Sprintf("codec:%s:%s:%s:match-changes", b.proto, state, sy.sym),
				fmt.Sprintf("%s: the transition selected for %s in %s differs between the built and the decoded message", b.id, sy.sym, state), cs)
		}
		rec.NonTrivial(fmt.Sprintf("codec %s %s %s #%d", b.id, state, sy.sym, vi), cs)
	}
}

func checkCodecMap(rec *evi.Recorder, b *binding, fail failFn) int {
	pairs := 0
	states := make([]protocol.State, 0, len(b.sm))
	for s := range b.sm {
		states = append(states, s)
	}
	sort.Slice(states, func(i, j int) bool { return states[i].Id < states[j].Id })
	for _, st := range states {
		for ti, tr := range b.sm[st].Transitions {
			pairs++
			tr := tr
			match := func(m protocol.Message) bool {
				return m.Type() == tr.MsgType && (tr.MatchFunc == nil || tr.MatchFunc(nil, m))
			}
			found := false
			for i := range b.syms {
				sy := &b.syms[i]
				if !match(sy.mk[0]()) {
					continue
				}
				found = true
				checkSampleDecodes(rec, b, st.Name, sy, match, fail)
			}
			if !found {
				rec.Eval()
				// a permitted message type outside the alphabet: can the codec even name it?
				probe := xcbor.A(xcbor.U(uint64(tr.MsgType))).Encode()
				dec, err := b.fromCbor(uint(tr.MsgType), probe)
				fail(fmt.Sprintf("%s:%s:type%d#%d:impl-accepts/outside-alphabet", b.proto, st.Name, tr.MsgType, ti),
					fmt.Sprintf("%s: state %s permits message type %d (transition #%d -> %s) which is none of the specification's messages for this protocol (codec on [%d]: msg=%v err=%v)",
						b.id, st.Name, tr.MsgType, ti, tr.NewState.Name, tr.MsgType, dec, err), nil)
			}
		}
	}
	return pairs
}

func checkCodecLearned(rec *evi.Recorder, b *binding, la *learnedAuto, fail failFn) int {
	pairs := 0
	for _, s := range la.names {
		for i := range b.syms {
			sy := &b.syms[i]
			if to := la.tr[s][sy.sym]; to != "" {
				pairs++
				checkSampleDecodes(rec, b, s, sy, nil, fail)
			}
		}
	}
	return pairs
}

// ---- (a) exhaustive product walk ----------------------------------------------------------

type walkStats struct {
	evaluated int // sequences evaluated (every proper prefix accepted by both automata)
	pairs     *pairing
	accepted  [][]string // sequences accepted by the implementation, by construction order (for engine sampling)
}

func symNames(b *binding) []string {
	out := make([]string, len(b.syms))
	for i, s := range b.syms {
		out[i] = s.sym
	}
	return out
}

func exhaustiveCompare(rec *evi.Recorder, b *binding, impl implAuto, depth int, fail failFn) *walkStats {
	ws := &walkStats{pairs: newPairing()}
	syms := symNames(b)
	var path []string
	agSeen := map[string]bool{}
	var dfs func(is, ss string, d int)
	dfs = func(is, ss string, d int) {
		ws.pairs.add(is, ss)
		if k := is + "/" + ss; !agSeen[k] {
			agSeen[k] = true
			rec.Eval()
			if v := agencyVerdict(b, impl, is, ss); v.key != "" {
				fail(v.key, v.what, c16Case{Binding: b.id, Sequence: append([]string{}, path...)})
			}
		}
		if d == depth {
			return
		}
		for _, sym := range syms {
			iTo, sTo, both, v := compareStep(b, impl, is, ss, sym)
			rec.Eval()
			ws.evaluated++
			path = append(path, sym)
			if v.key != "" || both {
				if len(path) >= 2 {
					rec.NonTrivial(b.id+" "+strings.Join(path, ","), c16Case{Binding: b.id, Sequence: append([]string{}, path...)})
				}
			}
			if v.key != "" {
				what := v.what
				fail(v.key, what+fmt.Sprintf(" [after %v]", path[:len(path)-1]), c16Case{Binding: b.id, Sequence: append([]string{}, path...)})
			}
			if both {
				dfs(iTo, sTo, d+1)
			}
			path = path[:len(path)-1]
		}
	}
	dfs(impl.initial(), b.spec.initial, 0)
	// states never co-reached
	for _, s := range impl.states() {
		rec.Eval()
		if len(ws.pairs.i2s[s]) == 0 {
			fail(fmt.Sprintf("%s:%s:extra-state", b.proto, s),
				fmt.Sprintf("%s: implementation state %s corresponds to no specification state (not reached on any sequence both automata accept up to length %d)", b.id, s, depth), nil)
		}
	}
	for _, s := range b.spec.order {
		rec.Eval()
		if len(ws.pairs.s2i[s]) == 0 {
			fail(fmt.Sprintf("%s:%s:missing-state", b.proto, s),
				fmt.Sprintf("%s: specification state %s has no counterpart in the implementation", b.id, s), nil)
		}
	}
	return ws
}

// implSequences lists every sequence of length <= depth whose proper prefixes the
// implementation accepts (accepted prefix + any one symbol).
func implSequences(b *binding, impl implAuto, depth int) [][]string {
	var out [][]string
	syms := symNames(b)
	var path []string
	var dfs func(is string, d int)
	dfs = func(is string, d int) {
		if d == depth || impl.agencyOf(is) == agNone {
			return
		}
		for _, sym := range syms {
			path = append(path, sym)
			out = append(out, append([]string{}, path...))
			if to, ok := impl.step(is, sym); ok {
				dfs(to, d+1)
			}
			path = path[:len(path)-1]
		}
	}
	dfs(impl.initial(), 0)
	return out
}

// ---- (b) engine validation ----------------------------------------------------------------

// engineBroken: automata whose engine hung once (each hang costs the full step
// bound; the first one is reported, further engine runs are skipped).
var engineBroken sync.Map

type engineCounters struct {
	validated, cut, terminal, refusals int
}

func roleName(r protocol.ProtocolRole) string {
	if r == protocol.ProtocolRoleClient {
		return "client"
	}
	return "server"
}

// runEngineTrace drives one sequence and judges it: engine vs prediction, and the
// engine's verdicts vs the specification (same finding keys as the static walk).
func runEngineTrace(rec *evi.Recorder, b *binding, impl implAuto, role protocol.ProtocolRole, useReal bool,
	plan rawpeer.Plan, seq []string, pick func(int) int, ec *engineCounters, fail failFn) {
	bk := fmt.Sprintf("%s|%v|%d", b.id, useReal, role)
	if _, broken := engineBroken.Load(bk); broken {
		return // an earlier trace of this automaton hung for the whole bound; already reported / counted
	}
	res := driveTrace(b, impl, role, useReal, plan, seq, pick)
	if res.stuck {
		engineBroken.Store(bk, true)
		rec.Class("engine_runs_abandoned_after_hang")
	}
	rec.Eval()
	cs := c16Case{Binding: b.id, Sequence: seq, Role: roleName(role), Observed: res.obs, Note: res.cut}
	if useReal {
		cs.Note = "real Client/Server object; " + cs.Note
	}
	if res.mismatch != nil {
		fail(res.mismatch.key, res.mismatch.what, cs)
		return
	}
	if res.cut != "" {
		ec.cut++
		rec.Class("engine_trace_cut")
		w := strings.Fields(res.cut)
		if len(w) > 4 {
			w = w[:4]
		}
		rec.Class("cut: " + strings.Trim(strings.Join(w, " "), ":("))
	} else {
		ec.validated++
	}
	if res.terminal {
		ec.terminal++
	}
	if res.refusalFinal {
		ec.refusals++
	}
	if b.spec == nil {
		return
	}
	ss := b.spec.initial
	for _, o := range res.obs {
		sTo, sOk := b.spec.step(ss, o.Sym)
		switch {
		case o.Accepted && !sOk:
			fail(findingKey(b.proto, o.From, ss, o.Sym, "impl-accepts/spec-rejects"),
				fmt.Sprintf("%s: the real engine (%s role) in state %s accepted %s (-> %s); the specification is in %s, which does not permit it",
					b.id, roleName(role), o.From, o.Sym, o.To, ss), cs)
			return
		case !o.Accepted && sOk:
			fail(findingKey(b.proto, o.From, ss, o.Sym, "impl-rejects/spec-accepts"),
				fmt.Sprintf("%s: the real engine (%s role) in state %s rejected %s, which the specification permits in %s",
					b.id, roleName(role), o.From, o.Sym, ss), cs)
			return
		case !o.Accepted:
			return
		}
		ss = sTo
	}
}

// ---- the test --------------------------------------------------------------------------------

type builtAuto struct {
	b      *binding
	impl   implAuto
	real   bool // impl was learned from the real objects; engine runs use them
	learnt *learnReport
}

func TestC16(t *testing.T) {
	rec := evi.New(t, "C16", evi.Exploration,
		"case = (implementation automaton, message-kind sequence [, engine role]); automata: every exported StateMap variant of the 12 specified protocols + 3 Leios prototypes, DMQ/leios-votes automata learned from the real Client/Server objects; "+
			"(a) all sequences up to length N over the protocol's alphabet (blocking/non-blocking and acquire-target variants are separate symbols) whose proper prefixes both automata accept, plus rapid-drawn guided walks up to length 60, compared step by step (acceptance, successor pairing, agency, termination) with the hand-encoded specification automaton; "+
			"(b) sequences driven in lock step through a real protocol.Protocol (client and server role; local sends via SendMessage, receives as raw mux segments) and compared with the simulation and the specification; (c) every permitted (state, message type) decoded from constructor-built samples; "+
			"(d) history independence and special values: Copy() compared field by field with the package-level map, copies mutated (entries replaced, transitions appended, states dropped/added), client+server instances with non-default timeouts created, then the package-level maps re-read (again after all engines/instances of the run incl. refused, stopped and restarted ones); restart-capable real servers driven to Done and the new instance's initial state/agency probed; a refusal must shut the protocol down (a following legal message is not accepted); messages whose tag is 255, 256+t, 65536+t, 2^32+t or negative must not be accepted in the probed states; sample variants carry end-of-range field values (version 0/32767/32768/65535, counts 0/65535, slot 2^64-1); "+
			"(e) for every protocol and both roles the real Client/Server (package constructor, needed callbacks, API calls where a raw send would leave a handler blocked) is brought by a shortest real conversation into every state in which it receives and sent every message of the alphabet: permitted ones must be accepted with the right successor (no refusal, no protocol error before the state machine), forbidden ones refused; "+
			"non-trivial = sequence of length >= 2 whose last message at least one automaton accepts (verdict depends on the state reached), or a codec sample; distinct by (automaton, sequence[, role])")
	defer rec.Finish()
	rec.Assume(
		"the specification automata in spec_automata.go are the harness author's transcription of the network specification and CIP-0137 (from memory; no copy is available offline)",
		"no normative automaton for leios-fetch/-notify/-votes and for the message-submission 'V2' variant: only well-formedness, codec coverage and engine agreement are checked for them",
		"state identity and transitions of the running engine are observed through the verif tracer hook (protocol.SetVerifTracer)",
	)
	vfail := func(key, what string, cs any) bool { return rec.Violation(key, what, cs) }
	depth := rec.Pick(6, 8)
	engineDepth := rec.Pick(3, 4)
	realDepth := rec.Pick(2, 3)

	t0 := time.Now()
	allBindings := bindings()
	// ---- history independence, part 1: what callers do with copies and with
	// differently configured instances must leave the package-level maps untouched
	snap0 := map[string]mapSnap{}
	for _, b := range allBindings {
		if b.sm != nil {
			snap0[b.id] = snapshotMap(b.sm)
		}
	}
	comparePkgMaps := func(after string) {
		for _, b := range allBindings {
			if b.sm == nil {
				continue
			}
			rec.Eval()
			for _, d := range diffSnap(snap0[b.id], snapshotMap(b.sm)) {
				vfail(fmt.Sprintf("purity:%s:%s:%s:%s", b.id, d.state, d.field, after),
					fmt.Sprintf("%s: the package-level state map changed (%s): state %s, %s: %s", b.id, after, d.state, d.field, d.detail), nil)
			}
		}
	}
	for _, b := range allBindings {
		if b.sm == nil {
			continue
		}
		rec.Eval()
		cp := b.sm.Copy()
		for _, d := range diffSnap(snap0[b.id], snapshotMap(cp)) {
			vfail(fmt.Sprintf("copy:%s:%s:%s", b.id, d.state, d.field),
				fmt.Sprintf("%s: StateMap.Copy() differs from the map it copies: state %s, %s: %s", b.id, d.state, d.field, d.detail), nil)
		}
		mutateCopy(cp)
		rec.NonTrivial("copy-mutation "+b.id, map[string]any{"binding": b.id, "history": "Copy(); replace every entry (agency, timeouts, limit, appended transitions); drop a state; add a state"})
	}
	comparePkgMaps("after-copies-were-mutated")
	customTimeout = 7777 * time.Millisecond
	nCustom := 0
	for _, b := range allBindings {
		if b.real == nil {
			continue
		}
		for _, role := range []protocol.ProtocolRole{protocol.ProtocolRoleClient, protocol.ProtocolRoleServer} {
			e := newEng(b, role, true, nil)
			e.close()
			nCustom++
		}
	}
	customTimeout = 0
	rec.SetExtra("custom_config_instances_created", nCustom)
	comparePkgMaps("after-custom-instances")

	// ---- build the implementation automata
	var autos []*builtAuto
	learnedProbes := 0
	for _, b := range allBindings {
		ba := &builtAuto{b: b}
		if b.sm != nil {
			ba.impl = newMapAuto(b)
		} else {
			// learning drives real objects over pipes; under heavy machine load a probe
			// can find its connection already shut down. That is a harness hiccup, not a
			// verdict: learn again (the automaton is deterministic, so a repeated attempt
			// that succeeds is as good as a first one) before giving up as inconclusive.
			var rep *learnReport
			var err error
			for attempt := 1; attempt <= 4; attempt++ {
				rep, err = learnAutomaton(b)
				if err == nil {
					break
				}
				rec.Class("learn_retry")
				time.Sleep(time.Duration(attempt) * 300 * time.Millisecond)
			}
			if err != nil {
				t.Fatalf("HARNESS: %v", err)
			}
			ba.impl, ba.real, ba.learnt = rep.auto, true, rep
			// the learner only probes the alphabet: make sure the codec knows no other
			// message type (else a permitted message could go unnoticed) - harness guard
			inAlphabet := map[uint8]bool{}
			for _, sy := range b.syms {
				inAlphabet[sy.mk[0]().Type()] = true
			}
			for ty := 0; ty < 64; ty++ {
				_, err := b.fromCbor(uint(ty), xcbor.A(xcbor.U(uint64(ty))).Encode())
				if !inAlphabet[uint8(ty)] && (err == nil || !strings.Contains(err.Error(), "unknown message type")) {
					t.Fatalf("HARNESS: %s: the codec seems to know message type %d, which is not in the harness alphabet (err=%v)", b.id, ty, err)
				}
			}
			learnedProbes += rep.probes
			for _, c := range rep.conflicts {
				rec.Eval()
				vfail(c.key, c.what, nil)
			}
			if len(rep.unlearned) > 0 {
				t.Fatalf("HARNESS: %s: states %v could not be entered under either role", b.id, rep.unlearned)
			}
		}
		autos = append(autos, ba)
	}
	rec.SetExtra("learned_probes", learnedProbes)
	tLearn := time.Since(t0)
	// the verdict of (state, symbol) must not depend on what was asked before
	verdictTable := func() map[string]string {
		out := map[string]string{}
		for _, ba := range autos {
			if _, ok := ba.impl.(*mapAuto); !ok {
				continue
			}
			for _, st := range ba.impl.states() {
				for _, sy := range symNames(ba.b) {
					to, ok := ba.impl.step(st, sy)
					out[ba.b.id+"|"+st+"|"+sy] = fmt.Sprint(ok, to)
				}
			}
		}
		return out
	}
	verdicts0 := verdictTable()

	summary := map[string]any{}
	codecPairs, totalEvaluated := 0, 0
	ec, ecReal := &engineCounters{}, &engineCounters{}
	nTagProbes := 0
	var tTags, tRestart, tRealSpec time.Duration
	realSpec := &realSpecStats{}
	for _, ba := range autos {
		b, impl := ba.b, ba.impl
		info := map[string]any{"states": impl.states(), "initial": impl.initial()}
		// (c)
		if la, ok := impl.(*learnedAuto); ok {
			codecPairs += checkCodecLearned(rec, b, la, vfail)
		} else {
			codecPairs += checkCodecMap(rec, b, vfail)
		}
		// well-formedness (all automata)
		for _, v := range wellFormed(b.id, impl, symNames(b)) {
			vfail(v.key, v.what, nil)
		}
		rec.Eval()
		// (a)
		if b.spec != nil {
			ws := exhaustiveCompare(rec, b, impl, depth, vfail)
			totalEvaluated += ws.evaluated
			info["sequences_evaluated"] = ws.evaluated
			info["state_pairing"] = ws.pairs.describe()
			rec.Class("automata_with_spec")
		} else {
			info["no_spec"] = b.noSpec
			rec.Class("automata_wellformedness_only")
		}
		// (b) all short sequences, both roles
		seqs := implSequences(b, impl, engineDepth)
		for _, role := range []protocol.ProtocolRole{protocol.ProtocolRoleClient, protocol.ProtocolRoleServer} {
			for _, seq := range seqs {
				runEngineTrace(rec, b, impl, role, ba.real, nil, seq, func(int) int { return 0 }, ec, vfail)
				if len(seq) >= 2 {
					rec.NonTrivial(fmt.Sprintf("engine %s %s %s", b.id, roleName(role), strings.Join(seq, ",")),
						c16Case{Binding: b.id, Sequence: seq, Role: roleName(role)})
				}
			}
		}
		info["engine_sequences_per_role"] = len(seqs)
		// the package's real Client / Server objects must run the same automaton from
		// the same initial state (prediction = simulation of the exported map)
		if !ba.real && b.real != nil {
			for _, role := range []protocol.ProtocolRole{protocol.ProtocolRoleClient, protocol.ProtocolRoleServer} {
				rec.Eval()
				name, ag, err := probeInitial(b, role)
				switch {
				case err != nil:
					rec.Class("real_initial_probe_failed")
				case name != impl.initial() || ag != impl.agencyOf(impl.initial()):
					vfail(fmt.Sprintf("real:%s:%s:initial-state", b.id, roleName(role)),
						fmt.Sprintf("%s: the real %s object starts in state %s with agency %s; the exported state map / specification start in %s with agency %s",
							b.id, roleName(role), name, ag, impl.initial(), impl.agencyOf(impl.initial())), nil)
				default:
					rec.Class("real_initial_state_confirmed")
				}
			}
			rseqs := implSequences(b, impl, realDepth)
			for _, role := range []protocol.ProtocolRole{protocol.ProtocolRoleClient, protocol.ProtocolRoleServer} {
				for _, seq := range rseqs {
					runEngineTrace(rec, b, impl, role, true, nil, seq, func(int) int { return 0 }, ecReal, vfail)
				}
			}
			info["real_object_sequences_per_role"] = len(rseqs)
		}
		// the real Client and Server accept the whole automaton: every state in which the
		// role receives x every message of the alphabet, reached by a real conversation
		if b.real != nil {
			mk := b.realKit
			if mk == nil {
				mk = func(r protocol.ProtocolRole, o protocol.ProtocolOptions) (*protocol.Protocol, func(), *realKit) {
					return b.real(r, o), nil, nil
				}
			}
			trs0 := time.Now()
			realAcceptsSpec(b, impl, mk, rec.Eval, vfail, realSpec)
			tRealSpec += time.Since(trs0)
		}
		// special tag values on the wire, in the initial state and (quick: one, thorough:
		// every) other non-terminal state
		acc := shortestAccess(impl, symNames(b))
		probeStates := []string{impl.initial()}
		for _, st := range impl.states() {
			if st != impl.initial() && impl.agencyOf(st) != agNone && acc[st] != nil && (rec.Thorough() || len(probeStates) < 2) {
				probeStates = append(probeStates, st)
			}
		}
		tp0 := time.Now()
		for _, st := range probeStates {
			nTagProbes += probeWireTags(b, impl, b.sm == nil, st, acc[st], rec.Eval, vfail)
		}
		tTags += time.Since(tp0)
		// a server that restarts its protocol after the client's Done starts over
		if rc, ok := restartCases[b.id]; ok {
			tr0 := time.Now()
			rec.Eval()
			if why := restartProbe(b, impl, rc, vfail); why == "" {
				rec.Class("restart_initial_state_confirmed")
				rec.NonTrivial("restart "+b.id, map[string]any{"binding": b.id, "history": "real server driven to the terminal state; new protocol instance probed"})
			} else {
				rec.Class("restart_probe_no_verdict: " + why)
			}
			tRestart += time.Since(tr0)
		}
		summary[b.id] = info
	}
	rec.SetExtra("wire_tag_probes", nTagProbes)
	rec.SetExtra("real_object_state_x_message_judged", realSpec.judged)
	rec.SetExtra("real_object_state_x_message_unreached", len(realSpec.unreached))
	if len(realSpec.unreached) > 0 {
		rec.SetExtra("real_object_state_x_message_unreached_list", realSpec.unreached)
	}
	if realSpec.judged > 0 {
		rec.NonTrivial(fmt.Sprintf("real-accepts-spec %d", realSpec.judged), map[string]any{"pass": "real Client/Server objects x receiving states x alphabet", "judged": realSpec.judged, "unreached": len(realSpec.unreached)})
	}
	rec.SetExtra("automata", summary)
	rec.SetExtra("phase_seconds", map[string]float64{"learn": tLearn.Seconds(), "static_and_enumerated_engine": (time.Since(t0) - tLearn).Seconds(),
		"of_which_wire_tag_probes": tTags.Seconds(), "of_which_real_accepts_spec": tRealSpec.Seconds(), "of_which_restart_probes": tRestart.Seconds()})
	rec.SetExtra("codec_state_msg_pairs", codecPairs)
	rec.SetExtra("exhaustive_depth", depth)
	rec.SetExtra("engine_exhaustive_depth", engineDepth)
	rec.SetExtra("n_sequences_evaluated_exhaustively", totalEvaluated)

	// ---- rapid: guided long walks, judged statically and on the engine
	maxLen := rec.Pick(40, 60)
	defer func() {
		// history independence, part 2: after every engine, real object, refusal, stop
		// and restart of this run
		comparePkgMaps("after-instances-ran")
		for k, v := range verdictTable() {
			if verdicts0[k] != v {
				vfail("nondeterministic:"+k, fmt.Sprintf("the state-map verdict for %s was %s at the start of the run and %s at its end", k, verdicts0[k], v), nil)
			}
		}
		rec.SetExtra("traces_ending_in_final_refusal", ec.refusals)
		rec.SetExtra("traces_validated_against_impl", ec.validated)
		rec.SetExtra("n_traces_validated_against_impl", ec.validated) // n_*: summed over shards by the driver
		rec.SetExtra("n_real_object_traces_validated", ecReal.validated)
		rec.SetExtra("engine_traces_cut_by_handler", ec.cut)
		rec.SetExtra("engine_traces_reaching_terminal", ec.terminal)
		rec.SetExtra("real_object_traces_validated", ecReal.validated)
		rec.SetExtra("real_object_traces_cut", ecReal.cut)
	}()
	rec.Check(func(rt *rapid.T) {
		// near-uniform index from fair bits (rapid's integer draws favour small values)
		uni := func(label string, n int) int {
			v := 0
			for i := 0; i < 7; i++ {
				v <<= 1
				if rapid.Bool().Draw(rt, label) {
					v |= 1
				}
			}
			return v % n
		}
		ba := autos[uni("automaton", len(autos))]
		b, impl := ba.b, ba.impl
		// rapid's integer draws are biased to small values: sample the target length
		// from a list with the long ones first, and take rare decisions from fair bits
		n := rapid.SampledFrom([]int{maxLen, 30, 22, 16, 12, 9, 7}).Draw(rt, "len")
		rare := func(label string, bits int) bool { // true with probability 2^-bits
			for i := 0; i < bits; i++ {
				if !rapid.Bool().Draw(rt, label) {
					return false
				}
			}
			return true
		}
		rfail := func(key, what string, cs any) bool { return rec.Fail(rt, key, what, cs) }
		syms := symNames(b)
		var seq []string
		is := impl.initial()
		ss := ""
		if b.spec != nil {
			ss = b.spec.initial
		}
		specAlive := b.spec != nil
		for len(seq) < n && impl.agencyOf(is) != agNone {
			var cand, nonFinal []string
			for _, sy := range syms {
				to, iok := impl.step(is, sy)
				sok := false
				if specAlive {
					_, sok = b.spec.step(ss, sy)
				}
				if iok || sok {
					cand = append(cand, sy)
					if iok && impl.agencyOf(to) != agNone {
						nonFinal = append(nonFinal, sy)
					}
				}
			}
			var sym string
			last := len(seq) == n-1
			switch {
			case last || len(cand) == 0 || rare("stray", 5):
				sym = syms[uni("any", len(syms))]
			case len(nonFinal) > 0 && !rare("allowDone", 3):
				sym = nonFinal[uni("cont", len(nonFinal))]
			default:
				sym = cand[uni("cand", len(cand))]
			}
			seq = append(seq, sym)
			// static judgement of this step
			rec.Eval()
			iTo, iOk := impl.step(is, sym)
			if specAlive {
				_, sTo, both, v := compareStep(b, impl, is, ss, sym)
				if v.key != "" {
					rfail(v.key, v.what+fmt.Sprintf(" [after %v]", seq[:len(seq)-1]), c16Case{Binding: b.id, Sequence: seq})
					specAlive = false
				} else if both {
					ss = sTo
					if v := agencyVerdict(b, impl, iTo, ss); v.key != "" {
						rfail(v.key, v.what, c16Case{Binding: b.id, Sequence: seq})
					}
				} else {
					specAlive = false
				}
			}
			if !iOk {
				break
			}
			is = iTo
		}
		rec.Class(fmt.Sprintf("walk_len_%02d_plus", len(seq)/10*10))
		switch {
		case impl.agencyOf(is) == agNone:
			rec.Class("walk_ends_terminal")
		case len(seq) >= n:
			rec.Class("walk_ends_at_target_length")
		default:
			rec.Class("walk_ends_impl_reject")
		}
		if len(seq) >= 2 {
			rec.NonTrivial("walk "+b.id+" "+strings.Join(seq, ","), c16Case{Binding: b.id, Sequence: seq})
		}
		// the same sequence on the real engine
		role := protocol.ProtocolRoleClient
		if rapid.Bool().Draw(rt, "serverRole") {
			role = protocol.ProtocolRoleServer
		}
		var plan rawpeer.Plan
		if rapid.Bool().Draw(rt, "fragment") {
			plan = &rawpeer.SeqPlan{
				Chunks: rapid.SliceOfN(rapid.IntRange(1, 40), 1, 6).Draw(rt, "chunks"),
				Yields: rapid.SliceOfN(rapid.IntRange(0, 2), 1, 4).Draw(rt, "yields"),
			}
			rec.Class("engine_fragmented_reads")
		}
		variant := rapid.IntRange(0, 7).Draw(rt, "variantSeed")
		k := 0
		pick := func(nv int) int { k++; return (variant + k) % nv }
		if !ba.real && b.real != nil && rare("realObject", 2) {
			rec.Class("walk_on_real_object")
			runEngineTrace(rec, b, impl, role, true, plan, seq, pick, ecReal, rfail)
		} else {
			runEngineTrace(rec, b, impl, role, ba.real, plan, seq, pick, ec, rfail)
		}
	})
}
