package spec

import (
	"fmt"
	"reflect"
	"sort"
	"testing"

	"github.com/blinklabs-io/gouroboros/cbor"
	"github.com/blinklabs-io/gouroboros/protocol"
	"github.com/blinklabs-io/gouroboros/protocol/handshake"
	"pgregory.net/rapid"

	"verif/harness/internal/evi"
	"verif/harness/internal/xcbor"
)

// ---- what the specification says about handshake version numbers / data -----
//
// network-spec, "Handshake mini-protocol", CDDL:
//   node-to-node:   versionNumber small integers; nodeToNodeVersionData =
//                   [networkMagic, initiatorOnlyDiffusionMode]                        (v7..v10)
//                   [networkMagic, initiatorOnlyDiffusionMode, peerSharing, query]    (v11..)
//                   peerSharing = 0..2 for v11/v12 (0 none, 1 private, 2 public), 0..1 from v13 on
//   node-to-client: versionNumber has bit 15 set; nodeToClientVersionData =
//                   networkMagic                                                       (..v14)
//                   [networkMagic, query]                                              (v15..)
// CIP-0137 (DMQ): node-to-node data as Cardano NtN v13+, node-to-client data
// [networkMagic, query]; dmq-node marks its node-to-client versions with bit 12.

type vFamily int

const (
	famNtC vFamily = iota
	famNtN
	famDmqNtC
	famDmqNtN
)

type vTable struct {
	name string
	fam  vFamily
	list func() []uint16
	gen  func(magic uint32, diffusion, peerSharing, query bool) protocol.ProtocolVersionMap
}

var vTables = []vTable{
	{"cardano-ntc", famNtC, protocol.GetProtocolVersionsNtC,
		func(m uint32, d, p, q bool) protocol.ProtocolVersionMap {
			return protocol.GetProtocolVersionMap(protocol.ProtocolModeNodeToClient, m, d, p, q)
		}},
	{"cardano-ntn", famNtN, protocol.GetProtocolVersionsNtN,
		func(m uint32, d, p, q bool) protocol.ProtocolVersionMap {
			return protocol.GetProtocolVersionMap(protocol.ProtocolModeNodeToNode, m, d, p, q)
		}},
	{"dmq-ntc", famDmqNtC, protocol.GetProtocolVersionsDMQNtC,
		func(m uint32, d, p, q bool) protocol.ProtocolVersionMap {
			return protocol.GetProtocolVersionMapDMQNtC(m, q)
		}},
	{"dmq-ntn", famDmqNtN, protocol.GetProtocolVersionsDMQNtN,
		func(m uint32, d, p, q bool) protocol.ProtocolVersionMap {
			return protocol.GetProtocolVersionMapDMQNtN(m, d, p, q)
		}},
}

// modePure reports whether version number v belongs to the family's number space.
func modePure(f vFamily, v uint16) bool {
	switch f {
	case famNtC:
		return v&0x8000 != 0
	case famNtN:
		return v&0x8000 == 0 && v&0x1000 == 0
	case famDmqNtC:
		return v&0x8000 == 0 && v&0x1000 != 0
	default:
		return v&0x8000 == 0 && v&0x1000 == 0
	}
}

// carried says which of the four fields the wire form of (family, version) carries.
type carried struct{ diffusion, peerSharing, query bool }

func carriedBy(f vFamily, v uint16) carried {
	switch f {
	case famNtC:
		return carried{query: v&0x7fff >= 15}
	case famNtN:
		if v >= 11 {
			return carried{true, true, true}
		}
		return carried{diffusion: true}
	case famDmqNtC:
		return carried{query: true}
	default:
		return carried{true, true, true}
	}
}

func isBool(n *xcbor.Node) (bool, bool) {
	if n.Kind == xcbor.Simple && (n.Arg == 20 || n.Arg == 21) {
		return n.Arg == 21, true
	}
	return false, false
}

// specShape checks raw version-data bytes against the CDDL of (family, version)
// with the harness's own CBOR reader and returns "" or a description.
func specShape(f vFamily, v uint16, raw []byte, magic uint32, d, p, q bool) string {
	n, err := xcbor.ParseExact(raw)
	if err != nil {
		return "not a single CBOR item: " + err.Error()
	}
	c := carriedBy(f, v)
	if f == famNtC && !c.query {
		if n.Kind != xcbor.Uint || n.Arg != uint64(magic) {
			return fmt.Sprintf("expected bare uint magic %d, got %x", magic, raw)
		}
		return ""
	}
	want := 1
	if c.diffusion {
		want++
	}
	if c.peerSharing {
		want++
	}
	if c.query {
		want++
	}
	if n.Kind != xcbor.Array || len(n.Items) != want {
		return fmt.Sprintf("expected array of %d, got %x", want, raw)
	}
	if n.Items[0].Kind != xcbor.Uint || n.Items[0].Arg != uint64(magic) {
		return fmt.Sprintf("field 0 is not magic %d: %x", magic, raw)
	}
	i := 1
	if c.diffusion {
		b, ok := isBool(n.Items[i])
		if !ok || b != d {
			return fmt.Sprintf("field %d is not diffusion=%v: %x", i, d, raw)
		}
		i++
	}
	if c.peerSharing {
		it := n.Items[i]
		if it.Kind != xcbor.Uint {
			return fmt.Sprintf("field %d (peerSharing) is not a uint: %x", i, raw)
		}
		legacy := f == famNtN && v <= 12
		switch {
		case !p && it.Arg != 0:
			return fmt.Sprintf("peerSharing off encoded as %d", it.Arg)
		case p && legacy && it.Arg != 1 && it.Arg != 2:
			return fmt.Sprintf("peerSharing on encoded as %d for v11/12 (want 1 or 2)", it.Arg)
		case p && !legacy && it.Arg != 1:
			return fmt.Sprintf("peerSharing on encoded as %d for v13+ (want 1)", it.Arg)
		}
		i++
	}
	if c.query {
		b, ok := isBool(n.Items[i])
		if !ok || b != q {
			return fmt.Sprintf("field %d is not query=%v: %x", i, q, raw)
		}
	}
	return ""
}

func eraFlags(pv protocol.ProtocolVersion) []bool {
	return []bool{pv.EnableShelleyEra, pv.EnableAllegraEra, pv.EnableMaryEra, pv.EnableAlonzoEra,
		pv.EnableBabbageEra, pv.EnableConwayEra, pv.EnableDijkstraEra}
}

var eraNames = []string{"Shelley", "Allegra", "Mary", "Alonzo", "Babbage", "Conway", "Dijkstra"}

// prefixLen returns the number of enabled eras and whether they form a prefix.
func prefixLen(fl []bool) (int, bool) {
	n := 0
	for n < len(fl) && fl[n] {
		n++
	}
	for i := n; i < len(fl); i++ {
		if fl[i] {
			return n, false
		}
	}
	return n, true
}

type c20Case struct {
	Table     string `json:"table"`
	Version   uint16 `json:"version"`
	Magic     uint32 `json:"magic"`
	Diffusion bool   `json:"diffusion_initiator_only"`
	PeerShare bool   `json:"peer_sharing"`
	Query     bool   `json:"query"`
	Encoded   string `json:"encoded_hex,omitempty"`
}

// c20Grid runs the full version x flag grid of every table for one magic. fail
// reports a violation and returns true when the key is a known finding.
// deep adds the failure-path / history / aliasing probes to every cell (they cost
// several extra codec calls per cell, so rapid cases enable them for 1 case in 8).
func c20Grid(rec *evi.Recorder, magic uint32, deep bool, fail func(key, what string, cs any) bool) {
	for _, tb := range vTables {
		list := tb.list()
		for fl := 0; fl < 8; fl++ {
			d, p, q := fl&1 != 0, fl&2 != 0, fl&4 != 0
			vm := tb.gen(magic, d, p, q)
			// the wire bytes as the handshake produces them
			prop := handshake.NewMsgProposeVersions(vm)
			// key set of the generated map == the list
			if len(vm) != len(list) {
				fail(fmt.Sprintf("keys:%s", tb.name),
					fmt.Sprintf("%s: generated map has %d versions, list has %d", tb.name, len(vm), len(list)),
					map[string]any{"list": list, "magic": magic})
			}
			firstRaw := map[uint16]string{}
			for _, v := range list {
				if !deep {
					break
				}
				if g, ok := vm[v]; ok && g != nil {
					if r, err := cbor.Encode(&g); err == nil {
						firstRaw[v] = string(r)
					}
				}
			}
			// history independence of the generated maps: a second map generated with
			// other arguments (and then emptied by its caller) must not change the first,
			// and the same arguments give the same data again
			var otherKeep protocol.ProtocolVersionMap
			if deep {
				rec.Eval()
				rec.Class("deep_cell_groups")
				cmp := func(which, whose string, m protocol.ProtocolVersionMap) {
					for _, v := range list {
						g, ok := m[v]
						var r []byte
						if ok && g != nil {
							r, _ = cbor.Encode(&g)
						}
						if want, had := firstRaw[v]; had && string(r) != want {
							fail(fmt.Sprintf("%s:%s", which, tb.name),
								fmt.Sprintf("%s v%d: version data generated for (magic %d, %v,%v,%v) read %x; after another map was generated with other arguments and emptied by its caller, %s reads %x",
									tb.name, v, magic, d, p, q, want, whose, r),
								c20Case{tb.name, v, magic, d, p, q, ""})
						}
					}
				}
				otherKeep = tb.gen(^magic, !d, !p, !q)
				cmp("map-aliased", "the same map (after a second map was generated)", vm)
				other := tb.gen(^magic, !d, !p, !q)
				for k := range other {
					delete(other, k)
				}
				cmp("map-aliased", "the same map", vm)
				cmp("map-unstable", "a map generated again with the same arguments", tb.gen(magic, d, p, q))
				cmp("map-aliased", "the same map (after the same arguments were used again)", vm)
			}
			for _, v := range list {
				cs := c20Case{tb.name, v, magic, d, p, q, ""}
				rec.Eval()
				gen, ok := vm[v]
				if !ok || gen == nil {
					fail(fmt.Sprintf("missing:%s:v%d", tb.name, v),
						fmt.Sprintf("%s: listed version %d has no generated version data", tb.name, v), cs)
					continue
				}
				raw, err := cbor.Encode(&gen)
				if err != nil {
					fail(fmt.Sprintf("encode:%s:v%d", tb.name, v), "version data does not encode: "+err.Error(), cs)
					continue
				}
				cs.Encoded = evi.Hex(raw)
				if hs, ok := prop.VersionMap[v]; !ok || string(hs) != string(raw) {
					fail(fmt.Sprintf("propose-bytes:%s:v%d", tb.name, v),
						fmt.Sprintf("ProposeVersions carries %x for version %d, direct encoding is %x", []byte(hs), v, raw), cs)
				}
				if magic != 0 || d || p || q {
					rec.NonTrivial(fmt.Sprintf("%s v%d m%d %v%v%v", tb.name, v, magic, d, p, q), cs)
				}
				pv := protocol.GetProtocolVersion(v)
				if pv.NewVersionDataFromCborFunc == nil {
					fail(fmt.Sprintf("nodecoder:%s:v%d", tb.name, v), "GetProtocolVersion(v) has no decoder", cs)
					continue
				}
				var dec0 protocol.VersionData
				var err0 error
				if deep {
					dec0, err0 = pv.NewVersionDataFromCborFunc(raw)
				}
				dec, err := c20DecodeAfterHistory(pv, raw, otherKeepOrNil(deep, otherKeep, v))
				if err != nil || dec == nil {
					fail(fmt.Sprintf("decode:%s:v%d", tb.name, v),
						fmt.Sprintf("version %d's own decoder rejects the generated data %x: %v", v, raw, err), cs)
					continue
				}
				if deep && (err0 != nil || dec0 == nil || dec0.NetworkMagic() != dec.NetworkMagic() || dec0.DiffusionMode() != dec.DiffusionMode() ||
					dec0.PeerSharing() != dec.PeerSharing() || dec0.Query() != dec.Query()) {
					fail(fmt.Sprintf("decoder-history:%s:v%d", tb.name, v),
						fmt.Sprintf("%s v%d: decoding %x gave %+v (err %v) at first and %+v after the decoder had refused malformed input and decoded another value (from a buffer overwritten afterwards)", tb.name, v, raw, dec0, err0, dec), cs)
				}
				c := carriedBy(tb.fam, v)
				// (1) literal statement: decoded == generated on all four accessors
				// (2) carried fields equal the arguments the table was generated with
				type fld struct {
					name         string
					dec, gen, in any
					carried      bool
				}
				for _, f := range []fld{
					{"magic", dec.NetworkMagic(), gen.NetworkMagic(), magic, true},
					{"diffusion", dec.DiffusionMode(), gen.DiffusionMode(), d, c.diffusion},
					{"peersharing", dec.PeerSharing(), gen.PeerSharing(), p, c.peerSharing},
					{"query", dec.Query(), gen.Query(), q, c.query},
				} {
					if f.dec != f.gen {
						fail(fmt.Sprintf("roundtrip:%s:v%d:%s", tb.name, v, f.name),
							fmt.Sprintf("%s v%d: %s generated=%v decoded=%v (bytes %x)", tb.name, v, f.name, f.gen, f.dec, raw), cs)
					}
					if f.carried && f.dec != f.in {
						fail(fmt.Sprintf("roundtrip-arg:%s:v%d:%s", tb.name, v, f.name),
							fmt.Sprintf("%s v%d: %s requested=%v decoded=%v (bytes %x)", tb.name, v, f.name, f.in, f.dec, raw), cs)
					}
				}
				// (3) the bytes have the shape the specification gives this version
				if why := specShape(tb.fam, v, raw, magic, d, p, q); why != "" {
					fail(fmt.Sprintf("shape:%s:v%d", tb.name, v),
						fmt.Sprintf("%s v%d: version data does not match the specification's CDDL for that version: %s", tb.name, v, why), cs)
				}
			}
		}
	}
}

func otherKeepOrNil(deep bool, m protocol.ProtocolVersionMap, v uint16) protocol.VersionData {
	if !deep {
		return nil
	}
	return m[v]
}

// c20DecodeAfterHistory decodes raw with the version's own decoder. With a
// non-nil other value it first hands the decoder input it must refuse (empty,
// truncated, the other family's shape) and that different legal value, and decodes
// from a scratch buffer that is overwritten before the result is used.
func c20DecodeAfterHistory(pv protocol.ProtocolVersion, raw []byte, other protocol.VersionData) (protocol.VersionData, error) {
	if other == nil {
		return pv.NewVersionDataFromCborFunc(raw)
	}
	_, _ = pv.NewVersionDataFromCborFunc(nil)
	_, _ = pv.NewVersionDataFromCborFunc(raw[:len(raw)-1])
	if raw[0]&0xe0 == 0x80 {
		_, _ = pv.NewVersionDataFromCborFunc([]byte{0x1a, 0xff, 0xff, 0xff, 0xff})
	} else {
		_, _ = pv.NewVersionDataFromCborFunc([]byte{0x82, 0x1a, 0xff, 0xff, 0xff, 0xff, 0xf5})
	}
	if oraw, oerr := cbor.Encode(&other); oerr == nil {
		_, _ = pv.NewVersionDataFromCborFunc(oraw)
	}
	buf := append([]byte(nil), raw...)
	dec, err := pv.NewVersionDataFromCborFunc(buf)
	for i := range buf {
		buf[i] = 0xff
	}
	return dec, err
}

func TestC20(t *testing.T) {
	rec := evi.New(t, "C20", evi.Exploration,
		"case = (table in {cardano-ntc, cardano-ntn, dmq-ntc, dmq-ntn}, version of that table, diffusion, peerSharing, query, magic); "+
			"for every magic (fixed boundary values + rapid draws) the whole version x 8 flag grid of all four tables is enumerated; "+
			"each rapid case first replays a history of 1-4 caller-side mutations (reverse / overwrite / append / truncate+append on a returned list, delete / nil-out on a returned version map) and re-reads all four lists; "+
			"all 65536 version numbers are looked up once (lookup table vs lists); each grid cell also decodes after the decoder refused malformed input and decoded another value, from a buffer wiped afterwards, and re-reads its map after another map was generated and emptied; "+
			"oracle = list order/mode purity, lists unaffected by what callers do to earlier results, era prefix/monotonicity, encode->own-decoder round trip vs generated value and vs the requested arguments, and CDDL shape via independent CBOR reader; "+
			"non-trivial = magic != 0 or a flag set (decoded value distinguishable from a zero value); distinct by (table, version, flags, magic)")
	defer rec.Finish()
	rec.Assume("the version-number spaces (bit 15 = node-to-client, bit 12 = DMQ node-to-client) and the version-data CDDL are the harness author's transcription of the network specification / CIP-0137")

	// ---- static part: the four lists and the era flags ----
	nVersions := 0
	for _, tb := range vTables {
		list := tb.list()
		nVersions += len(list)
		rec.Eval()
		if len(list) == 0 {
			rec.Violation("list-empty:"+tb.name, tb.name+": empty version list", nil)
		}
		if !sort.SliceIsSorted(list, func(i, j int) bool { return list[i] < list[j] }) {
			rec.Violation("list-unsorted:"+tb.name, fmt.Sprintf("%s: list not ascending: %v", tb.name, list), list)
		}
		for i := 1; i < len(list); i++ {
			if list[i] == list[i-1] {
				rec.Violation("list-dup:"+tb.name, fmt.Sprintf("%s: duplicate version %d", tb.name, list[i]), list)
			}
		}
		for _, v := range list {
			rec.Eval()
			if !modePure(tb.fam, v) {
				rec.Violation(fmt.Sprintf("list-mode:%s:v%d", tb.name, v),
					fmt.Sprintf("%s: list contains version %d (0x%x) of another mode", tb.name, v, v), list)
			}
		}
		// repeated calls give the same list (map iteration order must not leak)
		for k := 0; k < 20; k++ {
			again := tb.list()
			if fmt.Sprint(again) != fmt.Sprint(list) {
				rec.Violation("list-unstable:"+tb.name, fmt.Sprintf("%s: list differs between calls: %v vs %v", tb.name, list, again), nil)
				break
			}
		}
		// era flags: prefix of the era sequence, never shrinking with the version
		prev, prevV := -1, uint16(0)
		for _, v := range list {
			fl := eraFlags(protocol.GetProtocolVersion(v))
			n, isPrefix := prefixLen(fl)
			rec.Eval()
			rec.Class(fmt.Sprintf("era_prefix_len_%d", n))
			if !isPrefix {
				rec.Violation(fmt.Sprintf("era-prefix:%s:v%d", tb.name, v),
					fmt.Sprintf("%s v%d: enabled eras %v are not a prefix of %v", tb.name, v, fl, eraNames), nil)
			}
			if n < prev {
				rec.Violation(fmt.Sprintf("era-shrinks:%s:v%d", tb.name, v),
					fmt.Sprintf("%s: version %d enables %d eras but lower version %d enables %d", tb.name, v, n, prevV, prev), nil)
			}
			if n > 0 || tb.fam == famNtC || tb.fam == famNtN {
				rec.NonTrivial(fmt.Sprintf("era %s v%d n=%d", tb.name, v, n), nil)
			}
			prev, prevV = n, v
		}
	}
	// ---- every 16-bit version number (0, 32767, 32768, 65535 and everything between): the
	// lookup table and the four lists describe the same set of versions, no number is in two
	// lists, and a number that is in no list is not a version (no decoder, no eras, no protocols)
	inLists := map[uint16][]string{}
	for _, tb := range vTables {
		for _, v := range tb.list() {
			inLists[v] = append(inLists[v], tb.name)
		}
	}
	special := map[uint16]bool{0: true, 1: true, 6: true, 16: true, 0x0fff: true, 0x1000: true, 0x1002: true, 0x7fff: true, 0x8000: true, 0x8001: true, 0x8008: true, 0x8016: true, 0x9001: true, 0xffff: true}
	for n := 0; n <= 0xffff; n++ {
		v := uint16(n)
		pv := protocol.GetProtocolVersion(v)
		rec.Eval()
		hasDecoder := pv.NewVersionDataFromCborFunc != nil
		blank := pv
		blank.NewVersionDataFromCborFunc = nil
		isZero := reflect.DeepEqual(blank, protocol.ProtocolVersion{})
		switch tabs := inLists[v]; {
		case len(tabs) > 1:
			rec.Violation(fmt.Sprintf("list-overlap:v%d", v), fmt.Sprintf("version %d (0x%x) is in more than one list: %v", v, v, tabs), nil)
		case len(tabs) == 0 && (hasDecoder || !isZero):
			rec.Violation(fmt.Sprintf("lookup-unlisted:v%d", v),
				fmt.Sprintf("GetProtocolVersion(%d) (0x%x) describes a supported version (decoder=%v, flags %+v) but no version list contains it", v, v, hasDecoder, blank), nil)
		}
		if special[v] {
			rec.Class("special_version_number_probed")
			rec.NonTrivial(fmt.Sprintf("lookup v%d listed=%v", v, inLists[v]), map[string]any{"version": v, "lists": inLists[v], "has_decoder": hasDecoder})
		}
	}
	rec.SetExtra("version_numbers_swept", 65536)
	rec.SetExtra("versions_total", nVersions)
	rec.SetExtra("grid_cells_per_magic", nVersions*8)

	vfail := func(key, what string, cs any) bool { return rec.Violation(key, what, cs) }
	fixed := []uint32{0, 1, 2, 23, 24, 255, 256, 65535, 65536, 764824073, 1097911063, 2912307721, 3141592, 1<<31 - 1, 1 << 31, 1<<32 - 1}
	for _, m := range fixed {
		c20Grid(rec, m, true, vfail)
	}
	rec.SetExtra("fixed_magics", len(fixed))
	rec.SetExhaustive(true)

	rec.Check(func(rt *rapid.T) {
		var magic uint32
		switch rapid.IntRange(0, 3).Draw(rt, "magicKind") {
		case 0:
			magic = rapid.Uint32().Draw(rt, "magic")
			rec.Class("magic_uniform")
		case 1: // CBOR head-width boundaries
			b := rapid.SampledFrom([]uint64{24, 256, 65536, 1 << 32}).Draw(rt, "boundary")
			magic = uint32(int64(b) + int64(rapid.IntRange(-2, 1).Draw(rt, "delta")))
			rec.Class("magic_head_boundary")
		case 2:
			magic = uint32(1) << rapid.IntRange(0, 31).Draw(rt, "bit")
			rec.Class("magic_single_bit")
		default:
			magic = rapid.Uint32Range(0, 2000).Draw(rt, "small")
			rec.Class("magic_small")
		}
		// ---- caller-side mutation history: what a caller does to the list or map it was
		// handed must not change what later calls return
		want := map[string]string{}
		for _, tb := range vTables {
			want[tb.name] = fmt.Sprint(tb.list())
		}
		nMut := rapid.IntRange(1, 4).Draw(rt, "nMut")
		hist := []string{}
		for i := 0; i < nMut; i++ {
			tb := vTables[rapid.IntRange(0, len(vTables)-1).Draw(rt, "mutTable")]
			l := tb.list()
			op := rapid.SampledFrom([]string{"reverse", "overwrite", "append", "append-write", "truncate-append", "map-delete"}).Draw(rt, "mutOp")
			hist = append(hist, tb.name+":"+op)
			x := rapid.Uint16().Draw(rt, "mutValue")
			switch op {
			case "reverse":
				for a, b := 0, len(l)-1; a < b; a, b = a+1, b-1 {
					l[a], l[b] = l[b], l[a]
				}
			case "overwrite":
				if len(l) > 0 {
					l[rapid.IntRange(0, len(l)-1).Draw(rt, "mutIdx")] = x
				}
			case "append":
				l = append(l, x)
			case "append-write":
				l = append(l, x, x^0x8000)
				l[len(l)-1] = 0
			case "truncate-append":
				if len(l) > 0 {
					l = append(l[:rapid.IntRange(0, len(l)-1).Draw(rt, "mutCut")], x)
				}
			case "map-delete":
				vm := tb.gen(magic, true, true, true)
				for v := range vm {
					if (v^x)&1 == 0 {
						delete(vm, v)
					} else {
						vm[v] = nil
					}
				}
			}
			_ = l
			rec.Eval()
			rec.Class("caller_mutation:" + op)
			for _, tb2 := range vTables {
				if got := fmt.Sprint(tb2.list()); got != want[tb2.name] {
					rec.Fail(rt, "list-aliased:"+tb2.name,
						fmt.Sprintf("%s: after a caller modified the slices/maps it had been handed (%v) the list reads %s, before %s", tb2.name, hist, got, want[tb2.name]),
						map[string]any{"history": hist, "table": tb2.name, "before": want[tb2.name], "after": got})
				}
			}
		}
		rec.NonTrivial(fmt.Sprintf("mutation-history %v magic=%d", hist, magic), map[string]any{"history": hist, "magic": magic})
		deep := rapid.Bool().Draw(rt, "deep1") && rapid.Bool().Draw(rt, "deep2") && rapid.Bool().Draw(rt, "deep3")
		c20Grid(rec, magic, deep, func(key, what string, cs any) bool { return rec.Fail(rt, key, what, cs) })
	})
}
