package spec

import (
	"fmt"
	"reflect"
	"sort"
	"time"

	"github.com/blinklabs-io/gouroboros/protocol"

	"verif/harness/internal/xcbor"
)

// ---- snapshots of package-level state maps ------------------------------------------------
//
// History independence: the specification conformance of a protocol must not
// depend on what callers did before - with copies of the state map, with client
// and server instances, with protocols that were stopped or restarted. A snapshot
// records everything a StateMap entry holds; the package-level originals are
// compared with their first snapshot after every such history.

type transSnap struct {
	MsgType  uint8
	To       protocol.State
	HasMatch bool
	MatchPtr uintptr
}

type entrySnap struct {
	State       protocol.State
	Agency      protocol.ProtocolStateAgency
	Timeout     time.Duration
	HasTimeoutF bool
	TimeoutFPtr uintptr
	Limit       int
	Trans       []transSnap
}

type mapSnap map[string]entrySnap // by state name

func funcPtr(f any) uintptr {
	v := reflect.ValueOf(f)
	if !v.IsValid() || v.IsNil() {
		return 0
	}
	return v.Pointer()
}

func snapshotMap(sm protocol.StateMap) mapSnap {
	out := mapSnap{}
	for st, e := range sm {
		es := entrySnap{State: st, Agency: e.Agency, Timeout: e.Timeout, HasTimeoutF: e.TimeoutFunc != nil,
			TimeoutFPtr: funcPtr(e.TimeoutFunc), Limit: e.PendingMessageByteLimit}
		for _, tr := range e.Transitions {
			es.Trans = append(es.Trans, transSnap{tr.MsgType, tr.NewState, tr.MatchFunc != nil, funcPtr(tr.MatchFunc)})
		}
		out[st.Name] = es
	}
	return out
}

type snapDiff struct{ state, field, detail string }

func diffSnap(want, got mapSnap) []snapDiff {
	var out []snapDiff
	names := map[string]bool{}
	for n := range want {
		names[n] = true
	}
	for n := range got {
		names[n] = true
	}
	sorted := make([]string, 0, len(names))
	for n := range names {
		sorted = append(sorted, n)
	}
	sort.Strings(sorted)
	for _, n := range sorted {
		w, wok := want[n]
		g, gok := got[n]
		switch {
		case !gok:
			out = append(out, snapDiff{n, "state", "state missing"})
			continue
		case !wok:
			out = append(out, snapDiff{n, "state", "state added"})
			continue
		}
		add := func(field string, a, b any) {
			if !reflect.DeepEqual(a, b) {
				out = append(out, snapDiff{n, field, fmt.Sprintf("%v -> %v", a, b)})
			}
		}
		add("Id", w.State, g.State)
		add("Agency", w.Agency, g.Agency)
		add("Timeout", w.Timeout, g.Timeout)
		add("TimeoutFunc", w.HasTimeoutF, g.HasTimeoutF)
		add("TimeoutFunc", w.TimeoutFPtr, g.TimeoutFPtr)
		add("PendingMessageByteLimit", w.Limit, g.Limit)
		add("Transitions", w.Trans, g.Trans)
	}
	return out
}

// mutateCopy does to a caller-owned copy everything a caller may do to a map it
// owns: replace entries (agency, timeouts, limits), append transitions (also
// into spare capacity, should a transition slice have any), drop and add states.
// It never writes through the Transitions slice elements themselves:
// StateMap.Copy() is shallow by design (maps.Copy), so element writes reach the
// original on the unchanged tree as well - see findings/C16.md.
func mutateCopy(cp protocol.StateMap) {
	bogus := protocol.NewState(250, "Bogus")
	var first protocol.State
	n := 0
	for st, e := range cp {
		if n == 0 {
			first = st
		}
		n++
		switch e.Agency {
		case protocol.AgencyClient:
			e.Agency = protocol.AgencyServer
		case protocol.AgencyServer:
			e.Agency = protocol.AgencyNone
		default:
			e.Agency = protocol.AgencyClient
		}
		e.Timeout = 12345 * time.Millisecond
		if e.TimeoutFunc != nil {
			e.TimeoutFunc = nil
		} else {
			e.TimeoutFunc = func() time.Duration { return time.Hour }
		}
		e.PendingMessageByteLimit = 1
		e.Transitions = append(e.Transitions,
			protocol.StateTransition{MsgType: 200, NewState: bogus},
			protocol.StateTransition{MsgType: 0, NewState: bogus, MatchFunc: func(any, protocol.Message) bool { return true }})
		cp[st] = e
	}
	delete(cp, first)
	cp[bogus] = protocol.StateMapEntry{Agency: protocol.AgencyClient,
		Transitions: []protocol.StateTransition{{MsgType: 0, NewState: bogus}}}
}

// customTimeout, when non-zero, makes the real-object factories configure every
// timeout they can with this value (instances with a non-default configuration).
var customTimeout time.Duration

func tweak(d *time.Duration) {
	if customTimeout != 0 {
		*d = customTimeout
	}
}

// ---- special message tags on the wire ------------------------------------------------------

type tagProbe struct {
	desc string
	node func(t uint64) *xcbor.Node
}

// Tags that are no message of any protocol: beyond uint8 (a truncating codec
// would fold them back onto a real message), the largest uint8, negative.
var tagProbes = []tagProbe{
	{"255", func(uint64) *xcbor.Node { return xcbor.U(255) }},
	{"256+t", func(t uint64) *xcbor.Node { return xcbor.U(256 + t) }},
	{"65536+t", func(t uint64) *xcbor.Node { return xcbor.U(65536 + t) }},
	{"2^32+t", func(t uint64) *xcbor.Node { return xcbor.U(1<<32 + t) }},
	{"-1-t", func(t uint64) *xcbor.Node { return xcbor.NegArg(t) }},
	{"-256+t", func(t uint64) *xcbor.Node { return xcbor.I(-256 + int64(t)) }},
}

// shortestAccess returns, for every state reachable in impl, a shortest symbol
// sequence leading to it.
func shortestAccess(impl implAuto, syms []string) map[string][]string {
	acc := map[string][]string{impl.initial(): {}}
	q := []string{impl.initial()}
	for len(q) > 0 {
		s := q[0]
		q = q[1:]
		for _, sy := range syms {
			if to, ok := impl.step(s, sy); ok {
				if _, seen := acc[to]; !seen {
					acc[to] = append(append([]string{}, acc[s]...), sy)
					q = append(q, to)
				}
			}
		}
	}
	return acc
}

// driveTo brings a fresh engine into the state reached by access (lock step, as
// driveTrace); ok=false when that was not possible (real handlers).
func driveTo(e *eng, impl implAuto, access []string) (string, bool) {
	cur := impl.initial()
	for _, sym := range access {
		ag := impl.agencyOf(cur)
		msg := e.b.sym(sym).mk[0]()
		if e.send(ag, msg) != nil {
			return cur, false
		}
		ev, err := e.awaitTransition()
		if err != nil || ev.Err != nil || ev.MsgType != msg.Type() || ev.From.Name != cur {
			return cur, false
		}
		if ag == roleAgency(e.role) {
			if e.awaitSent() != nil {
				return cur, false
			}
		} else if ok, _ := e.awaitHandled(); !ok {
			return cur, false
		}
		cur = ev.To.Name
	}
	return cur, true
}

// probeWireTags: in state `state` (reached by access) the peer sends a message
// that is legal there except that its tag is replaced by each special value. None
// may be accepted by the state machine.
func probeWireTags(b *binding, impl implAuto, useReal bool, state string, access []string,
	eval func(), fail failFn) (probed int) {
	ag := impl.agencyOf(state)
	if ag == agNone {
		return 0
	}
	// the engine must be the receiver
	role := protocol.ProtocolRoleServer
	if ag == agServer {
		role = protocol.ProtocolRoleClient
	}
	var legal *symBinding
	for i := range b.syms {
		if _, ok := impl.step(state, b.syms[i].sym); ok {
			legal = &b.syms[i]
			break
		}
	}
	if legal == nil {
		return 0
	}
	sample := legal.mk[0]()
	tree, err := xcbor.ParseExact(encodeMsg(sample))
	if err != nil || tree.Kind != xcbor.Array || len(tree.Items) == 0 {
		return 0
	}
	for pi := 0; pi < 2*len(tagProbes); pi++ {
		tp := tagProbes[pi/2]
		bare := pi%2 == 1 // the tag alone: [tag]
		e := newEng(b, role, useReal, nil)
		cur, ok := driveTo(e, impl, access)
		if !ok || cur != state {
			e.close()
			continue
		}
		mod := tree.Clone()
		mod.Items[0] = tp.node(uint64(sample.Type()))
		if bare {
			mod = xcbor.A(tp.node(uint64(sample.Type())))
		}
		raw := mod.Encode()
		eval()
		probed++
		if e.sendRaw(raw) == nil {
			ev, err := e.awaitTransition()
			if err == nil && ev.Err == nil {
				fail(fmt.Sprintf("%s:%s:wire-tag=%s:impl-accepts/not-a-message", b.proto, state, tp.desc),
					fmt.Sprintf("%s: in state %s the engine accepted a message whose tag is %s (t = %d, the tag of %s) as message type %d (-> %s); bytes %x",
						b.id, state, tp.desc, sample.Type(), legal.sym, ev.MsgType, ev.To.Name, raw),
					map[string]any{"binding": b.id, "state": state, "access": access, "bytes": fmt.Sprintf("%x", raw), "tag": tp.desc})
			}
		}
		e.close()
	}
	return probed
}
