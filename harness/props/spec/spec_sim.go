package spec

import (
	"fmt"
	"sort"
	"strings"

	"github.com/blinklabs-io/gouroboros/protocol"
)

// implAuto is the implementation-side automaton the specification is compared
// with: either a simulation of an exported protocol.StateMap (mapAuto) or an
// automaton learned from the real Client/Server objects (learnedAuto).
type implAuto interface {
	initial() string
	states() []string
	agencyOf(state string) agency
	step(state, sym string) (string, bool)
}

func fromLibAgency(a protocol.ProtocolStateAgency) agency {
	switch a {
	case protocol.AgencyClient:
		return agClient
	case protocol.AgencyServer:
		return agServer
	}
	return agNone
}

// mapAuto simulates protocol.Protocol.nextState over an exported StateMap: the
// first transition whose MsgType equals the message's Type() and whose MatchFunc
// (if any) returns true decides; no such transition = rejected. The message
// objects are the constructor-built primary samples of each symbol.
type mapAuto struct {
	b      *binding
	byName map[string]protocol.State
	msgs   map[string]protocol.Message
	names  []string
}

func newMapAuto(b *binding) *mapAuto {
	m := &mapAuto{b: b, byName: map[string]protocol.State{}, msgs: map[string]protocol.Message{}}
	for s := range b.sm {
		if _, dup := m.byName[s.Name]; dup {
			panic(b.id + ": two states named " + s.Name)
		}
		m.byName[s.Name] = s
		m.names = append(m.names, s.Name)
	}
	sort.Strings(m.names)
	for _, sy := range b.syms {
		m.msgs[sy.sym] = sy.mk[0]()
	}
	return m
}

func (m *mapAuto) initial() string  { return m.b.initial }
func (m *mapAuto) states() []string { return m.names }
func (m *mapAuto) agencyOf(s string) agency {
	st, ok := m.byName[s]
	if !ok {
		return agNone
	}
	return fromLibAgency(m.b.sm[st].Agency)
}
func (m *mapAuto) stepMsg(s string, msg protocol.Message) (string, bool) {
	st, ok := m.byName[s]
	if !ok {
		return "", false
	}
	for _, tr := range m.b.sm[st].Transitions {
		if tr.MsgType != msg.Type() {
			continue
		}
		if tr.MatchFunc != nil && !tr.MatchFunc(nil, msg) {
			continue
		}
		return tr.NewState.Name, true
	}
	return "", false
}
func (m *mapAuto) step(s, sym string) (string, bool) {
	msg, ok := m.msgs[sym]
	if !ok {
		return "", false
	}
	return m.stepMsg(s, msg)
}

// learnedAuto is filled by the black-box learner (spec_learn.go).
type learnedAuto struct {
	init  string
	ag    map[string]agency
	tr    map[string]map[string]string // state -> symbol -> successor ("" = rejected); presence = observed
	names []string
}

func (l *learnedAuto) initial() string          { return l.init }
func (l *learnedAuto) states() []string         { return l.names }
func (l *learnedAuto) agencyOf(s string) agency { return l.ag[s] }
func (l *learnedAuto) step(s, sym string) (string, bool) {
	to := l.tr[s][sym]
	return to, to != ""
}

// ---- comparison ---------------------------------------------------------------------

// verdict of one step of the product walk.
type stepVerdict struct {
	key  string // "" = agreement
	what string
}

func findingKey(proto, implState, specState, sym, dir string) string {
	return fmt.Sprintf("%s:%s/%s:%s:%s", proto, implState, specState, sym, dir)
}

// compareStep compares one symbol in product state (is, ss).
func compareStep(b *binding, impl implAuto, is, ss, sym string) (iTo, sTo string, both bool, v stepVerdict) {
	iTo, iOk := impl.step(is, sym)
	sTo, sOk := b.spec.step(ss, sym)
	switch {
	case iOk && sOk:
		return iTo, sTo, true, stepVerdict{}
	case iOk && !sOk:
		return iTo, "", false, stepVerdict{
			key: findingKey(b.proto, is, ss, sym, "impl-accepts/spec-rejects"),
			what: fmt.Sprintf("%s: implementation state %s accepts %s (-> %s) where the specification is in %s, which does not permit it",
				b.proto, is, sym, iTo, ss)}
	case !iOk && sOk:
		return "", sTo, false, stepVerdict{
			key: findingKey(b.proto, is, ss, sym, "impl-rejects/spec-accepts"),
			what: fmt.Sprintf("%s: implementation state %s rejects %s, which the specification permits in %s (-> %s)",
				b.proto, is, sym, ss, sTo)}
	}
	return "", "", false, stepVerdict{}
}

func agencyVerdict(b *binding, impl implAuto, is, ss string) stepVerdict {
	ia, sa := impl.agencyOf(is), b.spec.agency[ss]
	if ia == sa {
		return stepVerdict{}
	}
	return stepVerdict{
		key: fmt.Sprintf("%s:%s/%s:agency:impl=%s/spec=%s", b.proto, is, ss, ia, sa),
		what: fmt.Sprintf("%s: implementation state %s has agency %s, the corresponding specification state %s has agency %s",
			b.proto, is, ia, ss, sa)}
}

// pairing records which implementation states were co-reached with which
// specification states (the relation induced by running both on the same input).
type pairing struct {
	i2s map[string]map[string]bool
	s2i map[string]map[string]bool
}

func newPairing() *pairing {
	return &pairing{map[string]map[string]bool{}, map[string]map[string]bool{}}
}
func (p *pairing) add(is, ss string) {
	if p.i2s[is] == nil {
		p.i2s[is] = map[string]bool{}
	}
	if p.s2i[ss] == nil {
		p.s2i[ss] = map[string]bool{}
	}
	p.i2s[is][ss] = true
	p.s2i[ss][is] = true
}
func keys(m map[string]bool) []string {
	out := make([]string, 0, len(m))
	for k := range m {
		out = append(out, k)
	}
	sort.Strings(out)
	return out
}
func (p *pairing) describe() map[string]string {
	out := map[string]string{}
	for is, ss := range p.i2s {
		out[is] = strings.Join(keys(ss), ",")
	}
	return out
}

// wellFormed checks the shape every state machine must have regardless of a
// specification: non-terminal states have an agency and at least one outgoing
// edge, every state is reachable from the initial one, a terminal state exists
// and is reachable, successors are states of the machine.
func wellFormed(id string, impl implAuto, syms []string) []stepVerdict {
	var out []stepVerdict
	known := map[string]bool{}
	for _, s := range impl.states() {
		known[s] = true
	}
	if !known[impl.initial()] {
		out = append(out, stepVerdict{id + ":wf:initial-unknown", id + ": initial state " + impl.initial() + " is not a state of the map"})
		return out
	}
	reach := map[string]bool{impl.initial(): true}
	q := []string{impl.initial()}
	for len(q) > 0 {
		s := q[0]
		q = q[1:]
		for _, sy := range syms {
			if to, ok := impl.step(s, sy); ok {
				if !known[to] {
					out = append(out, stepVerdict{fmt.Sprintf("%s:wf:%s:%s:unknown-successor", id, s, sy),
						fmt.Sprintf("%s: %s --%s--> %s, which is not a state of the map", id, s, sy, to)})
					continue
				}
				if !reach[to] {
					reach[to] = true
					q = append(q, to)
				}
			}
		}
	}
	terminalReachable := false
	for _, s := range impl.states() {
		ag := impl.agencyOf(s)
		n := 0
		for _, sy := range syms {
			if _, ok := impl.step(s, sy); ok {
				n++
			}
		}
		switch {
		case ag == agNone && n > 0:
			out = append(out, stepVerdict{fmt.Sprintf("%s:wf:%s:terminal-with-edges", id, s),
				fmt.Sprintf("%s: state %s has no agency but %d outgoing edges", id, s, n)})
		case ag != agNone && n == 0:
			out = append(out, stepVerdict{fmt.Sprintf("%s:wf:%s:stuck", id, s),
				fmt.Sprintf("%s: non-terminal state %s (agency %s) has no outgoing edge", id, s, ag)})
		}
		if !reach[s] {
			out = append(out, stepVerdict{fmt.Sprintf("%s:wf:%s:unreachable", id, s),
				fmt.Sprintf("%s: state %s is not reachable from %s", id, s, impl.initial())})
		}
		if ag == agNone && reach[s] {
			terminalReachable = true
		}
	}
	if !terminalReachable {
		out = append(out, stepVerdict{id + ":wf:no-terminal", id + ": no terminal state is reachable"})
	}
	return out
}
