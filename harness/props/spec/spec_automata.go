package spec

// Hand-encoded mini-protocol automata.
//
// Sources (transcribed from memory of the documents, NOT from gouroboros):
//   * "The Shelley Networking Protocol" (ouroboros-network network-spec), chapter
//     "Mini Protocols": state-transition tables and agency tables of handshake,
//     chain-sync, block-fetch, tx-submission (v2), keep-alive, peer-sharing,
//     local-tx-submission, local-state-query, local-tx-monitor, plus the CDDL of
//     each protocol for the message tags; cross-checked against the typed-protocols
//     `Message` GADTs of ouroboros-network (Ouroboros.Network.Protocol.*.Type).
//   * CIP-0137 (Decentralized Message Queue): message-submission (modelled on
//     tx-submission v2), local-message-submission (modelled on local-tx-submission),
//     local-message-notification.
//
// Every automaton is deterministic over its symbol alphabet. A symbol is a
// message kind as it appears on the wire; where the successor state depends on a
// field of the message (blocking flag) the two values are two symbols.

type agency uint8

const (
	agNone agency = iota
	agClient
	agServer
)

func (a agency) String() string { return [...]string{"none", "client", "server"}[a] }

type fsm struct {
	name    string
	source  string
	initial string
	order   []string // states in declaration order
	agency  map[string]agency
	edges   map[string]map[string]string // state -> symbol -> successor
	tags    map[string]int               // symbol -> CBOR message tag (first array element) per the CDDL
	symbols []string                     // declaration order
}

type stDecl struct {
	name string
	ag   agency
}
type edDecl struct{ from, sym, to string }
type tagDecl struct {
	sym string
	tag int
}

func st(name string, ag agency) stDecl { return stDecl{name, ag} }
func ed(from, sym, to string) edDecl   { return edDecl{from, sym, to} }
func tg(sym string, tag int) tagDecl   { return tagDecl{sym, tag} }

func mkFSM(name, source, initial string, states []stDecl, tags []tagDecl, edges []edDecl) *fsm {
	f := &fsm{name: name, source: source, initial: initial, agency: map[string]agency{},
		edges: map[string]map[string]string{}, tags: map[string]int{}}
	for _, s := range states {
		if _, dup := f.agency[s.name]; dup {
			panic("spec automaton " + name + ": duplicate state " + s.name)
		}
		f.agency[s.name] = s.ag
		f.order = append(f.order, s.name)
		f.edges[s.name] = map[string]string{}
	}
	for _, t := range tags {
		if _, dup := f.tags[t.sym]; dup {
			panic("spec automaton " + name + ": duplicate symbol " + t.sym)
		}
		f.tags[t.sym] = t.tag
		f.symbols = append(f.symbols, t.sym)
	}
	for _, e := range edges {
		if _, ok := f.agency[e.from]; !ok {
			panic("spec automaton " + name + ": edge from unknown state " + e.from)
		}
		if _, ok := f.agency[e.to]; !ok {
			panic("spec automaton " + name + ": edge to unknown state " + e.to)
		}
		if _, ok := f.tags[e.sym]; !ok {
			panic("spec automaton " + name + ": edge with unknown symbol " + e.sym)
		}
		if f.agency[e.from] == agNone {
			panic("spec automaton " + name + ": edge out of terminal state " + e.from)
		}
		if _, dup := f.edges[e.from][e.sym]; dup {
			panic("spec automaton " + name + ": non-deterministic edge " + e.from + "/" + e.sym)
		}
		f.edges[e.from][e.sym] = e.to
	}
	if _, ok := f.agency[initial]; !ok {
		panic("spec automaton " + name + ": unknown initial state")
	}
	return f
}

func (f *fsm) step(state, sym string) (string, bool) {
	to, ok := f.edges[state][sym]
	return to, ok
}

// ---- network-spec ---------------------------------------------------------------

// Handshake. StPropose (client) / StConfirm (server) / StDone.
//
//	StPropose --MsgProposeVersions--> StConfirm
//	StConfirm --MsgAcceptVersion | MsgRefuse | MsgQueryReply--> StDone
//	StConfirm --MsgReplyVersions--> StDone   (TCP simultaneous open: "must not be
//	    explicitly sent; can only be received as a copy of MsgProposeVersions";
//	    it has the wire encoding of MsgProposeVersions, tag 0)
var specHandshake = mkFSM("handshake", "network-spec: Handshake mini-protocol", "StPropose",
	[]stDecl{st("StPropose", agClient), st("StConfirm", agServer), st("StDone", agNone)},
	[]tagDecl{tg("ProposeVersions", 0), tg("AcceptVersion", 1), tg("Refuse", 2), tg("QueryReply", 3)},
	[]edDecl{
		ed("StPropose", "ProposeVersions", "StConfirm"),
		ed("StConfirm", "AcceptVersion", "StDone"),
		ed("StConfirm", "Refuse", "StDone"),
		ed("StConfirm", "QueryReply", "StDone"),
		ed("StConfirm", "ProposeVersions", "StDone"), // = MsgReplyVersions
	})

// Chain-sync (same automaton node-to-node and node-to-client).
var specChainSync = mkFSM("chain-sync", "network-spec: Chain-Sync mini-protocol", "StIdle",
	[]stDecl{st("StIdle", agClient), st("StCanAwait", agServer), st("StMustReply", agServer),
		st("StIntersect", agServer), st("StDone", agNone)},
	[]tagDecl{tg("RequestNext", 0), tg("AwaitReply", 1), tg("RollForward", 2), tg("RollBackward", 3),
		tg("FindIntersect", 4), tg("IntersectFound", 5), tg("IntersectNotFound", 6), tg("Done", 7)},
	[]edDecl{
		ed("StIdle", "RequestNext", "StCanAwait"),
		ed("StIdle", "FindIntersect", "StIntersect"),
		ed("StIdle", "Done", "StDone"),
		ed("StCanAwait", "AwaitReply", "StMustReply"),
		ed("StCanAwait", "RollForward", "StIdle"),
		ed("StCanAwait", "RollBackward", "StIdle"),
		ed("StMustReply", "RollForward", "StIdle"),
		ed("StMustReply", "RollBackward", "StIdle"),
		ed("StIntersect", "IntersectFound", "StIdle"),
		ed("StIntersect", "IntersectNotFound", "StIdle"),
	})

// Block-fetch.
var specBlockFetch = mkFSM("block-fetch", "network-spec: Block-Fetch mini-protocol", "StIdle",
	[]stDecl{st("StIdle", agClient), st("StBusy", agServer), st("StStreaming", agServer), st("StDone", agNone)},
	[]tagDecl{tg("RequestRange", 0), tg("ClientDone", 1), tg("StartBatch", 2), tg("NoBlocks", 3),
		tg("Block", 4), tg("BatchDone", 5)},
	[]edDecl{
		ed("StIdle", "RequestRange", "StBusy"),
		ed("StIdle", "ClientDone", "StDone"),
		ed("StBusy", "NoBlocks", "StIdle"),
		ed("StBusy", "StartBatch", "StStreaming"),
		ed("StStreaming", "Block", "StStreaming"),
		ed("StStreaming", "BatchDone", "StIdle"),
	})

// Tx-submission v2. The "client" is the side that owns the transactions
// (initiator); the server asks for ids and bodies. MsgDone is only available to
// the client when answering a *blocking* id request.
var specTxSubmission = mkFSM("tx-submission", "network-spec: Tx-Submission mini-protocol (version 2)", "StInit",
	[]stDecl{st("StInit", agClient), st("StIdle", agServer), st("StTxIdsBlocking", agClient),
		st("StTxIdsNonBlocking", agClient), st("StTxs", agClient), st("StDone", agNone)},
	[]tagDecl{tg("RequestTxIds[blocking]", 0), tg("RequestTxIds[non-blocking]", 0), tg("ReplyTxIds", 1),
		tg("RequestTxs", 2), tg("ReplyTxs", 3), tg("Done", 4), tg("Init", 6)},
	[]edDecl{
		ed("StInit", "Init", "StIdle"),
		ed("StIdle", "RequestTxIds[blocking]", "StTxIdsBlocking"),
		ed("StIdle", "RequestTxIds[non-blocking]", "StTxIdsNonBlocking"),
		ed("StIdle", "RequestTxs", "StTxs"),
		ed("StTxIdsBlocking", "ReplyTxIds", "StIdle"),
		ed("StTxIdsBlocking", "Done", "StDone"),
		ed("StTxIdsNonBlocking", "ReplyTxIds", "StIdle"),
		ed("StTxs", "ReplyTxs", "StIdle"),
	})

// Keep-alive.
var specKeepAlive = mkFSM("keep-alive", "network-spec: Keep-Alive mini-protocol", "StClient",
	[]stDecl{st("StClient", agClient), st("StServer", agServer), st("StDone", agNone)},
	[]tagDecl{tg("KeepAlive", 0), tg("KeepAliveResponse", 1), tg("Done", 2)},
	[]edDecl{
		ed("StClient", "KeepAlive", "StServer"),
		ed("StClient", "Done", "StDone"),
		ed("StServer", "KeepAliveResponse", "StClient"),
	})

// Peer-sharing.
var specPeerSharing = mkFSM("peer-sharing", "network-spec: Peer-Sharing mini-protocol", "StIdle",
	[]stDecl{st("StIdle", agClient), st("StBusy", agServer), st("StDone", agNone)},
	[]tagDecl{tg("ShareRequest", 0), tg("SharePeers", 1), tg("Done", 2)},
	[]edDecl{
		ed("StIdle", "ShareRequest", "StBusy"),
		ed("StIdle", "Done", "StDone"),
		ed("StBusy", "SharePeers", "StIdle"),
	})

// Local-tx-submission.
var specLocalTxSubmission = mkFSM("local-tx-submission", "network-spec: Local Tx-Submission mini-protocol", "StIdle",
	[]stDecl{st("StIdle", agClient), st("StBusy", agServer), st("StDone", agNone)},
	[]tagDecl{tg("SubmitTx", 0), tg("AcceptTx", 1), tg("RejectTx", 2), tg("Done", 3)},
	[]edDecl{
		ed("StIdle", "SubmitTx", "StBusy"),
		ed("StIdle", "Done", "StDone"),
		ed("StBusy", "AcceptTx", "StIdle"),
		ed("StBusy", "RejectTx", "StIdle"),
	})

// Local-state-query. Acquire / re-acquire each come in three target flavours
// (specific point, volatile tip, immutable tip) with their own wire tags; a
// failed acquisition returns to StIdle, also when it was a re-acquisition.
var specLocalStateQuery = mkFSM("local-state-query", "network-spec: Local State Query mini-protocol", "StIdle",
	[]stDecl{st("StIdle", agClient), st("StAcquiring", agServer), st("StAcquired", agClient),
		st("StQuerying", agServer), st("StDone", agNone)},
	[]tagDecl{tg("Acquire[point]", 0), tg("Acquired", 1), tg("Failure", 2), tg("Query", 3), tg("Result", 4),
		tg("Release", 5), tg("ReAcquire[point]", 6), tg("Done", 7), tg("Acquire[volatile-tip]", 8),
		tg("ReAcquire[volatile-tip]", 9), tg("Acquire[immutable-tip]", 10), tg("ReAcquire[immutable-tip]", 11)},
	[]edDecl{
		ed("StIdle", "Acquire[point]", "StAcquiring"),
		ed("StIdle", "Acquire[volatile-tip]", "StAcquiring"),
		ed("StIdle", "Acquire[immutable-tip]", "StAcquiring"),
		ed("StIdle", "Done", "StDone"),
		ed("StAcquiring", "Acquired", "StAcquired"),
		ed("StAcquiring", "Failure", "StIdle"),
		ed("StAcquired", "Query", "StQuerying"),
		ed("StAcquired", "ReAcquire[point]", "StAcquiring"),
		ed("StAcquired", "ReAcquire[volatile-tip]", "StAcquiring"),
		ed("StAcquired", "ReAcquire[immutable-tip]", "StAcquiring"),
		ed("StAcquired", "Release", "StIdle"),
		ed("StQuerying", "Result", "StAcquired"),
	})

// Local-tx-monitor. One busy state PER REQUEST KIND: StBusy NextTx / HasTx /
// GetSizes, each accepting only the reply of its own kind. MsgAwaitAcquire (in
// StAcquired) has the wire encoding of MsgAcquire (tag 1). MsgDone only in StIdle.
// (A later revision adds MsgGetMeasures/MsgReplyGetMeasures; gouroboros has no
// such message type, it is outside the compared alphabet - see findings/C16.md.)
var specLocalTxMonitor = mkFSM("local-tx-monitor", "network-spec: Local Tx-Monitor mini-protocol", "StIdle",
	[]stDecl{st("StIdle", agClient), st("StAcquiring", agServer), st("StAcquired", agClient),
		st("StBusyNextTx", agServer), st("StBusyHasTx", agServer), st("StBusyGetSizes", agServer), st("StDone", agNone)},
	[]tagDecl{tg("Done", 0), tg("Acquire", 1), tg("Acquired", 2), tg("Release", 3), tg("NextTx", 5),
		tg("ReplyNextTx", 6), tg("HasTx", 7), tg("ReplyHasTx", 8), tg("GetSizes", 9), tg("ReplyGetSizes", 10)},
	[]edDecl{
		ed("StIdle", "Acquire", "StAcquiring"),
		ed("StIdle", "Done", "StDone"),
		ed("StAcquiring", "Acquired", "StAcquired"),
		ed("StAcquired", "Acquire", "StAcquiring"), // = MsgAwaitAcquire
		ed("StAcquired", "Release", "StIdle"),
		ed("StAcquired", "NextTx", "StBusyNextTx"),
		ed("StAcquired", "HasTx", "StBusyHasTx"),
		ed("StAcquired", "GetSizes", "StBusyGetSizes"),
		ed("StBusyNextTx", "ReplyNextTx", "StAcquired"),
		ed("StBusyHasTx", "ReplyHasTx", "StAcquired"),
		ed("StBusyGetSizes", "ReplyGetSizes", "StAcquired"),
	})

// ---- CIP-0137 (DMQ) ---------------------------------------------------------------
// Tags are not part of the comparison for the DMQ protocols (tag -1): the
// author's recollection of the CIP CDDL is not firm enough to raise alarms on.

// Message submission (node-to-node), version 1: tx-submission v2 with messages
// instead of transactions.
var specMessageSubmissionV1 = mkFSM("message-submission", "CIP-0137: Message Submission mini-protocol (NodeToNodeV_1)", "StInit",
	[]stDecl{st("StInit", agClient), st("StIdle", agServer), st("StMessageIdsBlocking", agClient),
		st("StMessageIdsNonBlocking", agClient), st("StMessages", agClient), st("StDone", agNone)},
	[]tagDecl{tg("Init", -1), tg("RequestMessageIds[blocking]", -1), tg("RequestMessageIds[non-blocking]", -1),
		tg("ReplyMessageIds", -1), tg("RequestMessages", -1), tg("ReplyMessages", -1), tg("Done", -1)},
	[]edDecl{
		ed("StInit", "Init", "StIdle"),
		ed("StIdle", "RequestMessageIds[blocking]", "StMessageIdsBlocking"),
		ed("StIdle", "RequestMessageIds[non-blocking]", "StMessageIdsNonBlocking"),
		ed("StIdle", "RequestMessages", "StMessages"),
		ed("StMessageIdsBlocking", "ReplyMessageIds", "StIdle"),
		ed("StMessageIdsBlocking", "Done", "StDone"),
		ed("StMessageIdsNonBlocking", "ReplyMessageIds", "StIdle"),
		ed("StMessages", "ReplyMessages", "StIdle"),
	})

// Local message submission (node-to-client): local-tx-submission with messages.
var specLocalMessageSubmission = mkFSM("local-message-submission", "CIP-0137: Local Message Submission mini-protocol", "StIdle",
	[]stDecl{st("StIdle", agClient), st("StBusy", agServer), st("StDone", agNone)},
	[]tagDecl{tg("SubmitMessage", -1), tg("AcceptMessage", -1), tg("RejectMessage", -1), tg("Done", -1)},
	[]edDecl{
		ed("StIdle", "SubmitMessage", "StBusy"),
		ed("StIdle", "Done", "StDone"),
		ed("StBusy", "AcceptMessage", "StIdle"),
		ed("StBusy", "RejectMessage", "StIdle"),
	})

// Local message notification (node-to-client): the client asks for the next
// messages either non-blocking (reply may be empty, carries hasMore) or blocking
// (reply non-empty); each request kind has its own busy state and reply message.
var specLocalMessageNotification = mkFSM("local-message-notification", "CIP-0137: Local Message Notification mini-protocol", "StIdle",
	[]stDecl{st("StIdle", agClient), st("StBusyNonBlocking", agServer), st("StBusyBlocking", agServer), st("StDone", agNone)},
	[]tagDecl{tg("RequestMessages[non-blocking]", -1), tg("RequestMessages[blocking]", -1),
		tg("ReplyMessagesNonBlocking", -1), tg("ReplyMessagesBlocking", -1), tg("ClientDone", -1)},
	[]edDecl{
		ed("StIdle", "RequestMessages[non-blocking]", "StBusyNonBlocking"),
		ed("StIdle", "RequestMessages[blocking]", "StBusyBlocking"),
		ed("StIdle", "ClientDone", "StDone"),
		ed("StBusyNonBlocking", "ReplyMessagesNonBlocking", "StIdle"),
		ed("StBusyBlocking", "ReplyMessagesBlocking", "StIdle"),
	})
