package spec

import (
	"errors"
	"fmt"
	"sync"
	"sync/atomic"
	"time"

	"github.com/blinklabs-io/gouroboros/cbor"
	"github.com/blinklabs-io/gouroboros/connection"
	"github.com/blinklabs-io/gouroboros/muxer"
	"github.com/blinklabs-io/gouroboros/protocol"

	"verif/harness/internal/rawpeer"
)

// ---- process-wide tracer, demultiplexed per *protocol.Protocol --------------------

type tracerHub struct {
	mu sync.RWMutex
	m  map[*protocol.Protocol]chan protocol.VerifEvent
}

var (
	hub     = &tracerHub{m: map[*protocol.Protocol]chan protocol.VerifEvent{}}
	hubOnce sync.Once
)

func (h *tracerHub) install() {
	hubOnce.Do(func() {
		protocol.SetVerifTracer(func(ev protocol.VerifEvent) {
			h.mu.RLock()
			ch := h.m[ev.P]
			h.mu.RUnlock()
			if ch != nil {
				ch <- ev
			}
		})
	})
}

func (h *tracerHub) register(p *protocol.Protocol) chan protocol.VerifEvent {
	ch := make(chan protocol.VerifEvent, 4096)
	h.mu.Lock()
	h.m[p] = ch
	h.mu.Unlock()
	return ch
}

func (h *tracerHub) unregister(p *protocol.Protocol) {
	h.mu.Lock()
	delete(h.m, p)
	h.mu.Unlock()
}

// ---- one engine instance ---------------------------------------------------------------

// stepWait bounds every single wait for the engine. Nothing on a correct tree
// ever waits this long (a step takes microseconds); hitting it means the engine
// did not process a message that the side holding agency sent.
const stepWait = 20 * time.Second

var errStuck = errors.New("engine did not process the message within the bound")

// realHandlerWait bounds the wait for a real Client/Server object's handler to
// return. Real handlers may legitimately block (a blocking request waits for
// data) or act on their own (auto-replies); both end the lock-step trace as a
// "cut" - never as a verdict - so a short bound only costs coverage.
const realHandlerWait = 250 * time.Millisecond

const realStuckWait = 3 * time.Second

// refusalCheckOff: set after the first protocol that kept running after a refusal.
var refusalCheckOff atomic.Bool

var errAutonomous = errors.New("the object under test made a transition of its own")

// cutMemo remembers (automaton, role, state, symbol) steps whose handler blocked
// or acted autonomously, so later traces stop before repeating them.
var cutMemo sync.Map

func cutKey(b *binding, role protocol.ProtocolRole, state, sym string) string {
	return fmt.Sprintf("%s|%d|%s|%s", b.id, role, state, sym)
}

type eng struct {
	b     *binding
	role  protocol.ProtocolRole
	p     *protocol.Protocol
	mux   *muxer.Muxer
	peer  *rawpeer.Peer
	errCh chan error
	ev    chan protocol.VerifEvent
	real  bool
	// pendingErr: a protocol error taken off errCh while looking for its event
	pendingErr error
	// handlerWait overrides realHandlerWait (0: default)
	handlerWait time.Duration
}

func roleAgency(r protocol.ProtocolRole) agency {
	if r == protocol.ProtocolRoleClient {
		return agClient
	}
	return agServer
}

func stateByName(sm protocol.StateMap, name string) (protocol.State, bool) {
	for s := range sm {
		if s.Name == name {
			return s, true
		}
	}
	return protocol.State{}, false
}

// newEng starts a real protocol.Protocol over an in-memory connection whose other
// end is a raw segment peer. useReal selects the package's real Client/Server
// object; otherwise a bare protocol.Protocol is configured with the exported
// StateMap, the package's NewMsgFromCbor and a no-op handler.
func newEng(b *binding, role protocol.ProtocolRole, useReal bool, plan rawpeer.Plan) *eng {
	if useReal {
		return newEngCustom(b, role, plan, true, func(o protocol.ProtocolOptions) (*protocol.Protocol, func()) {
			return b.real(role, o), nil
		})
	}
	return newEngCustom(b, role, plan, false, func(o protocol.ProtocolOptions) (*protocol.Protocol, func()) {
		init, ok := stateByName(b.sm, b.initial)
		if !ok {
			panic(b.id + ": no state named " + b.initial)
		}
		return protocol.New(protocol.ProtocolConfig{
			Name: b.id, ProtocolId: b.protoID, ErrorChan: o.ErrorChan, Muxer: o.Muxer, Mode: b.mode, Role: role,
			MessageHandlerFunc:  func(protocol.Message) error { return nil },
			MessageFromCborFunc: b.fromCbor,
			StateMap:            b.sm,
			InitialState:        init,
		}), nil
	})
}

// newEngCustom: build constructs the protocol instance from the options and may
// return its own start function (nil: Protocol.Start is called).
func newEngCustom(b *binding, role protocol.ProtocolRole, plan rawpeer.Plan, real bool,
	build func(o protocol.ProtocolOptions) (*protocol.Protocol, func())) *eng {
	hub.install()
	a, c := rawpeer.Pipe(plan, nil)
	e := &eng{b: b, role: role, real: real, errCh: make(chan error, 16)}
	e.mux = muxer.New(a)
	var start func()
	e.p, start = build(protocol.ProtocolOptions{
		ConnectionId: connection.ConnectionId{LocalAddr: a.LocalAddr(), RemoteAddr: a.RemoteAddr()},
		Muxer:        e.mux, ErrorChan: e.errCh, Mode: b.mode, Role: role, Version: b.version})
	e.ev = hub.register(e.p)
	e.peer = rawpeer.NewPeer(c)
	if start != nil {
		start()
	} else {
		e.p.Start()
	}
	e.mux.Start()
	return e
}

// rebind points the engine handle at a new protocol instance on the same
// connection (a server object that restarted its protocol).
func (e *eng) rebind(p *protocol.Protocol) {
	hub.unregister(e.p)
	e.p = p
	e.ev = hub.register(p)
	e.pendingErr = nil
}

// sendRaw injects raw message bytes from the peer.
func (e *eng) sendRaw(data []byte) error {
	return e.peer.SendMsg(e.b.protoID, e.role == protocol.ProtocolRoleClient, data)
}

func (e *eng) close() {
	hub.unregister(e.p)
	e.p.Stop()
	e.mux.Stop()
	e.peer.Close()
	w := 5 * time.Second
	if e.real {
		w = 200 * time.Millisecond // a real handler may still be blocked; do not wait for it
	}
	select {
	case <-e.p.DoneChan():
	case <-time.After(w): // cleanup only, not a verdict
	}
}

func encodeMsg(m protocol.Message) []byte {
	if c := m.Cbor(); c != nil {
		return c
	}
	data, err := cbor.Encode(m)
	if err != nil {
		panic(fmt.Sprintf("sample %T does not encode: %v", m, err))
	}
	return data
}

// send delivers msg as coming from side `from`: through SendMessage when that is
// the engine's own role, otherwise as raw segments from the peer.
func (e *eng) send(from agency, msg protocol.Message) error {
	if from == roleAgency(e.role) {
		return e.p.SendMessage(msg)
	}
	return e.peer.SendMsg(e.b.protoID, e.role == protocol.ProtocolRoleClient, encodeMsg(msg))
}

// awaitTransition returns the next state-transition event of this engine.
func (e *eng) awaitTransition() (protocol.VerifEvent, error) {
	w := stepWait
	if e.real {
		// no verdict is ever drawn from a real object that does not react (it may have
		// moved on by itself); the caller stops using it after the first time
		w = realStuckWait
	}
	t := time.NewTimer(w)
	defer t.Stop()
	for {
		select {
		case ev := <-e.ev:
			if ev.Kind == "transition" {
				return ev, nil
			}
		case err := <-e.errCh:
			// A rejected transition emits its event before the error is reported, so
			// the event (if any) is already queued: look for it before concluding
			// that the protocol failed without judging the message.
			for {
				select {
				case ev := <-e.ev:
					if ev.Kind == "transition" {
						e.pendingErr = err
						return ev, nil
					}
					continue
				default:
				}
				break
			}
			return protocol.VerifEvent{}, &protoFailed{err}
		case <-t.C:
			return protocol.VerifEvent{}, errStuck
		}
	}
}

// protoFailed: the protocol reported an error without a state-transition verdict
// for the message (e.g. the codec could not decode it).
type protoFailed struct{ err error }

func (p *protoFailed) Error() string { return "protocol error without transition: " + p.err.Error() }

// awaitHandled waits until the handler of the message just received returned:
// true when it succeeded (recv_released event), false with the error when the
// handler (or anything else) stopped the protocol.
func (e *eng) awaitHandled() (bool, error) {
	w := stepWait
	if e.real {
		w = realHandlerWait
		if e.handlerWait != 0 {
			w = e.handlerWait
		}
	}
	t := time.NewTimer(w)
	defer t.Stop()
	for {
		select {
		case ev := <-e.ev:
			if ev.Kind == "recv_released" {
				return true, nil
			}
			if ev.Kind == "transition" {
				return false, errAutonomous
			}
		case err := <-e.errCh:
			return false, err
		case <-t.C:
			return false, errStuck
		}
	}
}

// awaitSent waits until the peer has received one complete message written by
// the engine (after which the engine's state change for that send is in effect).
func (e *eng) awaitSent() error {
	_, err := e.peer.NextMsg(e.b.protoID, e.role == protocol.ProtocolRoleServer, stepWait)
	return err
}

// awaitError waits for the protocol error that follows a rejected message.
func (e *eng) awaitError() error {
	if e.pendingErr != nil {
		return e.pendingErr
	}
	select {
	case err := <-e.errCh:
		return err
	case <-time.After(stepWait):
		return nil
	}
}

// ---- driving a trace against a predicted automaton -------------------------------------

type stepObs struct {
	Sym      string `json:"sym"`
	From     string `json:"from"`
	To       string `json:"to,omitempty"`
	Accepted bool   `json:"accepted"`
	Sender   string `json:"sender"`
}

type traceResult struct {
	obs      []stepObs
	mismatch *stepVerdict // engine vs prediction
	cut      string       // non-empty: trace ended early for a reason that is not a verdict
	terminal bool         // engine reported IsDone() in the predicted terminal state
	stuck    bool         // a step waited the whole bound (do not repeat many of these)
	// refusalFinal: the trace ended in a refusal and the protocol was seen to shut down
	refusalFinal bool
}

// driveTrace runs symbols through a fresh engine in lock step. The sender of each
// message is the side the predicted automaton gives agency in the current state.
// pick chooses the sample variant of a symbol.
func driveTrace(b *binding, impl implAuto, role protocol.ProtocolRole, useReal bool, plan rawpeer.Plan,
	seq []string, pick func(n int) int) traceResult {
	e := newEng(b, role, useReal, plan)
	defer e.close()
	var res traceResult
	cur := impl.initial()
	mis := func(key, what string) traceResult {
		res.mismatch = &stepVerdict{key: "engine:" + b.id + ":" + key, what: what}
		return res
	}
	for si, sym := range seq {
		ag := impl.agencyOf(cur)
		if ag == agNone {
			if !e.p.IsDone() {
				return mis(cur+":not-done", fmt.Sprintf("%s: predicted terminal state %s reached but Protocol.IsDone() is false", b.id, cur))
			}
			res.terminal = true
			return res
		}
		sb := b.sym(sym)
		msg := sb.mk[pick(len(sb.mk))]()
		local := ag == roleAgency(role)
		if useReal && !local {
			if _, known := cutMemo.Load(cutKey(b, role, cur, sym)); known {
				res.cut = "known: the real handler of this step blocks or acts on its own"
				return res
			}
		}
		if err := e.send(ag, msg); err != nil {
			res.cut = "send failed: " + err.Error()
			return res
		}
		ev, err := e.awaitTransition()
		var pf *protoFailed
		if errors.As(err, &pf) {
			if _, wantOk := impl.step(cur, sym); useReal && !local && wantOk {
				// every earlier received message of this trace was handled successfully and
				// this one is permitted here: an error before the state machine judged it
				// comes from the object's own decoder / configuration
				res.mismatch = &stepVerdict{
					key: fmt.Sprintf("real:%s:%s:%s:%s:impl-rejects/spec-accepts", b.proto, roleName(role), cur, sym),
					what: fmt.Sprintf("%s: the real %s object in state %s answered the permitted message %s with a protocol error before the state machine judged it: %v",
						b.id, roleName(role), cur, sym, pf.err)}
				return res
			}
			if useReal {
				res.cut = "real object stopped: " + pf.Error()
				return res
			}
			return mis(fmt.Sprintf("%s:%s:error-without-verdict", cur, sym),
				fmt.Sprintf("%s (%s engine): %s sent by the %s side in state %s ended in a protocol error without a state-machine verdict: %v",
					b.id, roleName(role), sym, ag, cur, pf.err))
		}
		if err != nil && useReal {
			// a real object may have moved on by itself (auto-reply); not a verdict
			res.cut = "real object did not process the message (state changed autonomously?)"
			res.stuck = true
			return res
		}
		if err != nil {
			res.stuck = true
			return mis(fmt.Sprintf("%s:%s:stuck", cur, sym),
				fmt.Sprintf("%s (%v engine): %s sent by the %s side in state %s (agency %s per the state map) was not processed within %v",
					b.id, role, sym, ag, cur, ag, stepWait))
		}
		if ev.MsgType != msg.Type() || (useReal && ev.From.Name != cur) {
			if !useReal {
				return mis(fmt.Sprintf("%s:%s:foreign-event", cur, sym),
					fmt.Sprintf("%s: transition event for message type %d from %s while waiting for %s in %s", b.id, ev.MsgType, ev.From.Name, sym, cur))
			}
			res.cut = fmt.Sprintf("transition event for message type %d from state %s while waiting for %s in %s (autonomous send by the real object)", ev.MsgType, ev.From.Name, sym, cur)
			return res
		}
		wantTo, wantOk := impl.step(cur, sym)
		o := stepObs{Sym: sym, From: ev.From.Name, To: ev.To.Name, Accepted: ev.Err == nil, Sender: ag.String()}
		if ev.Err != nil {
			o.To = ""
		}
		res.obs = append(res.obs, o)
		if ev.From.Name != cur {
			return mis(fmt.Sprintf("%s:%s:from", cur, sym),
				fmt.Sprintf("%s: engine was in state %s, prediction %s, before %s", b.id, ev.From.Name, cur, sym))
		}
		if (ev.Err == nil) != wantOk {
			return mis(fmt.Sprintf("%s:%s:engine=%v/sim=%v", cur, sym, ev.Err == nil, wantOk),
				fmt.Sprintf("%s: in state %s message %s: engine accepted=%v (err %v), simulation of the state map accepted=%v",
					b.id, cur, sym, ev.Err == nil, ev.Err, wantOk))
		}
		if ev.Err != nil {
			if e.awaitError() == nil {
				res.stuck = true
				return mis(fmt.Sprintf("%s:%s:no-error", cur, sym),
					fmt.Sprintf("%s: message %s rejected in state %s but no protocol error was reported", b.id, sym, cur))
			}
			if !useReal && !refusalCheckOff.Load() {
				// a refusal is final: the protocol shuts down, so the message that would
				// have been legal in this state cannot be accepted afterwards
				select {
				case <-e.p.DoneChan():
				case <-time.After(stepWait):
					res.stuck = true
					refusalCheckOff.Store(true) // reported once; do not pay the bound on every later trace
					return mis(fmt.Sprintf("%s:%s:alive-after-refusal", cur, sym),
						fmt.Sprintf("%s (%s engine): %s was refused in state %s and an error reported, but the protocol is still running %v later (a following legal message would be accepted as if nothing had happened)",
							b.id, roleName(role), sym, cur, stepWait))
				}
				res.refusalFinal = true
				for _, cand := range b.syms {
					if _, ok := impl.step(cur, cand.sym); !ok {
						continue
					}
					if local {
						if err := e.p.SendMessage(cand.mk[0]()); err == nil {
							return mis(fmt.Sprintf("%s:%s:send-after-refusal", cur, sym),
								fmt.Sprintf("%s: after %s was refused in %s, SendMessage(%s) was still accepted for sending", b.id, sym, cur, cand.sym))
						}
					} else {
						_ = e.send(ag, cand.mk[0]())
					}
					break
				}
				for {
					select {
					case ev2 := <-e.ev:
						if ev2.Kind == "transition" && ev2.Err == nil {
							return mis(fmt.Sprintf("%s:%s:accepted-after-refusal", cur, sym),
								fmt.Sprintf("%s: after %s was refused in %s the engine accepted message type %d (%s -> %s)", b.id, sym, cur, ev2.MsgType, ev2.From.Name, ev2.To.Name))
						}
						continue
					default:
					}
					break
				}
			}
			return res
		}
		if ev.To.Name != wantTo {
			return mis(fmt.Sprintf("%s:%s:to", cur, sym),
				fmt.Sprintf("%s: %s --%s--> engine %s, simulation %s", b.id, cur, sym, ev.To.Name, wantTo))
		}
		if useReal && si == len(seq)-1 && impl.agencyOf(wantTo) != agNone {
			// last step of a real-object trace: the verdict is in; do not wait for a
			// handler that may block
			return res
		}
		if local {
			if err := e.awaitSent(); err != nil {
				res.cut = "engine did not write the accepted message: " + err.Error()
				return res
			}
		} else {
			ok, herr := e.awaitHandled()
			if !ok {
				switch {
				case errors.Is(herr, errStuck):
					res.cut = "handler did not return"
					cutMemo.Store(cutKey(b, role, cur, sym), true)
				case errors.Is(herr, errAutonomous):
					res.cut = "handler made a transition of its own"
					cutMemo.Store(cutKey(b, role, cur, sym), true)
				default:
					res.cut = fmt.Sprintf("handler stopped the protocol: %v", herr)
				}
				return res
			}
		}
		cur = wantTo
	}
	if impl.agencyOf(cur) == agNone {
		if !e.p.IsDone() {
			return mis(cur+":not-done", fmt.Sprintf("%s: predicted terminal state %s reached but Protocol.IsDone() is false", b.id, cur))
		}
		res.terminal = true
	}
	return res
}
