package spec

import (
	"fmt"

	"github.com/blinklabs-io/gouroboros/protocol"
	"github.com/blinklabs-io/gouroboros/protocol/blockfetch"
	"github.com/blinklabs-io/gouroboros/protocol/chainsync"
	"github.com/blinklabs-io/gouroboros/protocol/leiosfetch"
	"github.com/blinklabs-io/gouroboros/protocol/leiosnotify"
	"github.com/blinklabs-io/gouroboros/protocol/peersharing"
	"github.com/blinklabs-io/gouroboros/protocol/txsubmission"
)

// Server objects of six protocols replace their protocol instance when the
// client terminates (handleDone: Stop, initProtocol, Start), so that the next
// conversation on the same connection starts over. The restarted instance is an
// instance like any other: it must start in the specification's initial state
// with the specification's agency.

type restartCase struct {
	// build returns the server's current-protocol getter, its start function (nil:
	// Protocol.Start) and a driver that takes the conversation to the terminal state
	// (false: could not get there; not a verdict).
	build func(o protocol.ProtocolOptions) (get func() *protocol.Protocol, start func(), toDone func(e *eng) bool)
}

// injectDone: the client's terminating message is the first message.
func injectDone(doneSym string) func(e *eng) bool {
	return func(e *eng) bool {
		msg := e.b.sym(doneSym).mk[0]()
		if e.send(agClient, msg) != nil {
			return false
		}
		ev, err := e.awaitTransition()
		if err != nil || ev.Err != nil || ev.MsgType != msg.Type() {
			return false
		}
		ok, _ := e.awaitHandled()
		return ok
	}
}

var restartCases = map[string]restartCase{
	"block-fetch": {func(o protocol.ProtocolOptions) (func() *protocol.Protocol, func(), func(*eng) bool) {
		cfg := must(blockfetch.NewConfig())
		s := blockfetch.NewServer(o, &cfg)
		return s.ProtocolInstance, nil, injectDone("ClientDone")
	}},
	"chain-sync/ntn": {chainSyncRestart},
	"chain-sync/ntc": {chainSyncRestart},
	"peer-sharing": {func(o protocol.ProtocolOptions) (func() *protocol.Protocol, func(), func(*eng) bool) {
		cfg := peersharing.NewConfig()
		s := peersharing.NewServer(o, &cfg)
		return s.ProtocolInstance, nil, injectDone("Done")
	}},
	"leios-fetch": {func(o protocol.ProtocolOptions) (func() *protocol.Protocol, func(), func(*eng) bool) {
		cfg := leiosfetch.NewConfig()
		s := leiosfetch.NewServer(o, &cfg)
		return s.ProtocolInstance, nil, injectDone("Done")
	}},
	"leios-notify": {func(o protocol.ProtocolOptions) (func() *protocol.Protocol, func(), func(*eng) bool) {
		cfg := leiosnotify.NewConfig()
		s := leiosnotify.NewServer(o, &cfg)
		return s.ProtocolInstance, nil, injectDone("Done")
	}},
	// tx-submission: Done is only legal as the answer to a blocking id request, which
	// the server has to issue through its API (the handler hands the Done to the
	// pending RequestTxIds call): Init, RequestTxIds(blocking) by the application, Done.
	"tx-submission": {func(o protocol.ProtocolOptions) (func() *protocol.Protocol, func(), func(*eng) bool) {
		cfg := txsubmission.NewConfig(txsubmission.WithInitFunc(func(txsubmission.CallbackContext) error { return nil }))
		s := txsubmission.NewServer(o, &cfg)
		toDone := func(e *eng) bool {
			initMsg := e.b.sym("Init").mk[0]()
			if e.send(agClient, initMsg) != nil {
				return false
			}
			if ev, err := e.awaitTransition(); err != nil || ev.Err != nil {
				return false
			}
			if ok, _ := e.awaitHandled(); !ok {
				return false
			}
			go func() { _, _ = s.RequestTxIds(true, 3) }()
			if ev, err := e.awaitTransition(); err != nil || ev.Err != nil || ev.MsgType != txsubmission.MessageTypeRequestTxIds {
				return false
			}
			if e.awaitSent() != nil {
				return false
			}
			return injectDone("Done")(e)
		}
		return s.ProtocolInstance, s.Start, toDone
	}},
}

func chainSyncRestart(o protocol.ProtocolOptions) (func() *protocol.Protocol, func(), func(*eng) bool) {
	cfg := chainsync.NewConfig()
	s := chainsync.NewServer(o, &cfg)
	return s.ProtocolInstance, nil, injectDone("Done")
}

// restartProbe: outcome "" = confirmed; otherwise why there is no verdict, or a
// violation through fail.
func restartProbe(b *binding, impl implAuto, rc restartCase, fail failFn) string {
	var get func() *protocol.Protocol
	var toDone func(*eng) bool
	e := newEngCustom(b, protocol.ProtocolRoleServer, nil, true, func(o protocol.ProtocolOptions) (*protocol.Protocol, func()) {
		g, start, td := rc.build(o)
		get, toDone = g, td
		return g(), start
	})
	defer e.close()
	old := e.p
	if !toDone(e) {
		return "terminal state not reached on the real server"
	}
	np := get()
	if np == old {
		return "server did not replace its protocol instance"
	}
	e.rebind(np)
	if np.IsDone() {
		fail(fmt.Sprintf("restart:%s:initial-state", b.id),
			fmt.Sprintf("%s: the protocol instance the server created after the client's termination message reports IsDone()", b.id), nil)
		return ""
	}
	name, ag, err := newLearner(b, protocol.ProtocolRoleServer).whoHasAgency(e)
	if err != nil {
		return "restarted instance did not react: " + err.Error()
	}
	if name != impl.initial() || ag != impl.agencyOf(impl.initial()) {
		fail(fmt.Sprintf("restart:%s:initial-state", b.id),
			fmt.Sprintf("%s: after the client's termination message the server's new protocol instance is in state %s with agency %s; every instance must start in %s with agency %s",
				b.id, name, ag, impl.initial(), impl.agencyOf(impl.initial())), nil)
	}
	return ""
}
