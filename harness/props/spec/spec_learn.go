package spec

import (
	"fmt"
	"sort"

	"github.com/blinklabs-io/gouroboros/protocol"
)

// Black-box learning of the automaton run by a package's real Client / Server
// object (needed where the package does not export its state map, and used as a
// cross-check elsewhere). Observations come from the verif tracer: every
// transition event carries the state before, the state after and the error.
//
//   * state identity   = the state name reported by the engine
//   * agency of a state = which side's message the engine processes first when
//                         one message from each side is pending (the engine only
//                         ever processes the side holding agency), or "none"
//                         when Protocol.IsDone() reports the state terminal
//   * transition        = outcome of one probe message sent, from the side
//                         holding agency, on a fresh instance brought to the
//                         state by an access sequence
//
// Under role R the engine *receives* the other side's messages, so their
// handlers run; an access sequence is usable under R only while those handlers
// succeed. States that cannot be entered that way under one role are entered
// under the other role (where the same messages are sent, not handled).

type learnReport struct {
	auto       *learnedAuto
	probes     int
	conflicts  []stepVerdict
	unlearned  []string // states seen as successors but never entered viably under any role
	roleStates map[string][]string
}

type learner struct {
	b      *binding
	role   protocol.ProtocolRole
	ag     map[string]agency
	tr     map[string]map[string]string
	access map[string][]string
	seen   map[string]bool // successor states observed
	init   string
	probes int
	errs   []string
}

// probeTypes returns two symbols with different message types.
func probeTypes(b *binding) (string, string) {
	x := b.syms[0]
	for _, y := range b.syms[1:] {
		if y.mk[0]().Type() != x.mk[0]().Type() {
			return x.sym, y.sym
		}
	}
	panic(b.id + ": fewer than two message types")
}

// whoHasAgency: engine e is in a non-terminal state; learn its name and agency.
func (l *learner) whoHasAgency(e *eng) (string, agency, error) {
	xs, ys := probeTypes(l.b)
	x, y := l.b.sym(xs).mk[0](), l.b.sym(ys).mk[0]()
	// x pretends to come from the client side, y from the server side
	if err := e.send(agClient, x); err != nil {
		return "", agNone, err
	}
	if err := e.send(agServer, y); err != nil {
		return "", agNone, err
	}
	ev, err := e.awaitTransition()
	if err != nil {
		return "", agNone, err
	}
	switch ev.MsgType {
	case x.Type():
		return ev.From.Name, agClient, nil
	case y.Type():
		return ev.From.Name, agServer, nil
	}
	return "", agNone, fmt.Errorf("unexpected event for message type %d", ev.MsgType)
}

// enter brings a fresh engine into the state reached by access; ok=false when a
// handler stopped the protocol on the way (sequence not usable under this role).
func (l *learner) enter(access []string) (*eng, string, bool, error) {
	e := newEng(l.b, l.role, true, nil)
	cur := l.init
	for _, sym := range access {
		ag := l.ag[cur]
		msg := l.b.sym(sym).mk[0]()
		if err := e.send(ag, msg); err != nil {
			e.close()
			return nil, "", false, err
		}
		ev, err := e.awaitTransition()
		if err != nil {
			e.close()
			return nil, "", false, fmt.Errorf("replaying %v: %w", access, err)
		}
		if ev.Err != nil || ev.MsgType != msg.Type() {
			e.close()
			return nil, "", false, fmt.Errorf("replaying %v: %s no longer accepted in %s (%v)", access, sym, cur, ev.Err)
		}
		if ag == roleAgency(l.role) {
			if err := e.awaitSent(); err != nil {
				e.close()
				return nil, "", false, err
			}
		} else if ok, _ := e.awaitHandled(); !ok {
			e.close()
			return nil, "", false, nil
		}
		cur = ev.To.Name
	}
	return e, cur, true, nil
}

func (l *learner) run() {
	// initial state
	e := newEng(l.b, l.role, true, nil)
	if e.p.IsDone() {
		e.close()
		l.errs = append(l.errs, "initial state is terminal")
		return
	}
	name, ag, err := l.whoHasAgency(e)
	e.close()
	if err != nil {
		l.errs = append(l.errs, "initial state: "+err.Error())
		return
	}
	l.init = name
	l.ag[name] = ag
	l.access[name] = nil
	l.seen[name] = true
	queue := []string{name}
	for len(queue) > 0 {
		s := queue[0]
		queue = queue[1:]
		l.tr[s] = map[string]string{}
		if l.ag[s] == agNone {
			continue
		}
		for _, sb := range l.b.syms {
			e, cur, ok, err := l.enter(l.access[s])
			if err != nil || !ok {
				l.errs = append(l.errs, fmt.Sprintf("cannot re-enter %s: %v", s, err))
				continue
			}
			if cur != s {
				e.close()
				l.errs = append(l.errs, fmt.Sprintf("access sequence of %s now ends in %s", s, cur))
				continue
			}
			msg := sb.mk[0]()
			ag := l.ag[s]
			l.probes++
			if err := e.send(ag, msg); err != nil {
				e.close()
				l.errs = append(l.errs, err.Error())
				continue
			}
			ev, err := e.awaitTransition()
			if err != nil || ev.MsgType != msg.Type() || ev.From.Name != s {
				e.close()
				l.errs = append(l.errs, fmt.Sprintf("probe %s in %s: err=%v event=%+v", sb.sym, s, err, ev))
				continue
			}
			if ev.Err != nil {
				l.tr[s][sb.sym] = ""
				e.close()
				continue
			}
			to := ev.To.Name
			l.tr[s][sb.sym] = to
			l.seen[to] = true
			if _, known := l.ag[to]; !known {
				viable := true
				if ag == roleAgency(l.role) {
					viable = e.awaitSent() == nil
				} else {
					viable, _ = e.awaitHandled()
				}
				if viable {
					if e.p.IsDone() {
						l.ag[to] = agNone
						l.access[to] = append(append([]string{}, l.access[s]...), sb.sym)
						queue = append(queue, to)
					} else if name, ag2, err := l.whoHasAgency(e); err == nil && name == to {
						l.ag[to] = ag2
						l.access[to] = append(append([]string{}, l.access[s]...), sb.sym)
						queue = append(queue, to)
					} else {
						l.errs = append(l.errs, fmt.Sprintf("agency probe in %s: name=%s err=%v", to, name, err))
					}
				}
			}
			e.close()
		}
	}
}

func newLearner(b *binding, role protocol.ProtocolRole) *learner {
	return &learner{b: b, role: role, ag: map[string]agency{}, tr: map[string]map[string]string{},
		access: map[string][]string{}, seen: map[string]bool{}}
}

// learnAutomaton learns from the Client object and from the Server object and
// merges; the two must agree wherever both observed the same thing.
func learnAutomaton(b *binding) (*learnReport, error) {
	rep := &learnReport{roleStates: map[string][]string{}}
	la := &learnedAuto{ag: map[string]agency{}, tr: map[string]map[string]string{}}
	seen := map[string]bool{}
	var errs []string
	for _, role := range []protocol.ProtocolRole{protocol.ProtocolRoleServer, protocol.ProtocolRoleClient} {
		l := newLearner(b, role)
		l.run()
		rep.probes += l.probes
		rn := "client"
		if role == protocol.ProtocolRoleServer {
			rn = "server"
		}
		for _, e := range l.errs {
			errs = append(errs, rn+": "+e)
		}
		if l.init == "" {
			continue
		}
		if la.init == "" {
			la.init = l.init
		} else if la.init != l.init {
			rep.conflicts = append(rep.conflicts, stepVerdict{
				key:  b.proto + ":roles-disagree:initial",
				what: fmt.Sprintf("%s: Client object starts in %s, Server object in %s", b.id, l.init, la.init)})
		}
		for s := range l.seen {
			seen[s] = true
		}
		for s, ag := range l.ag {
			rep.roleStates[rn] = append(rep.roleStates[rn], s)
			if prev, ok := la.ag[s]; ok && prev != ag {
				rep.conflicts = append(rep.conflicts, stepVerdict{
					key:  fmt.Sprintf("%s:roles-disagree:%s:agency", b.proto, s),
					what: fmt.Sprintf("%s: state %s has agency %s in one role's object and %s in the other's", b.id, s, prev, ag)})
			}
			la.ag[s] = ag
		}
		sort.Strings(rep.roleStates[rn])
		for s, m := range l.tr {
			if la.tr[s] == nil {
				la.tr[s] = map[string]string{}
			}
			for sym, to := range m {
				if prev, ok := la.tr[s][sym]; ok && prev != to {
					rep.conflicts = append(rep.conflicts, stepVerdict{
						key: fmt.Sprintf("%s:roles-disagree:%s:%s", b.proto, s, sym),
						what: fmt.Sprintf("%s: in state %s message %s leads to %q in the Server object and %q in the Client object",
							b.id, s, sym, prev, to)})
				}
				la.tr[s][sym] = to
			}
		}
	}
	for s := range la.ag {
		la.names = append(la.names, s)
	}
	sort.Strings(la.names)
	for s := range seen {
		if _, ok := la.ag[s]; !ok {
			rep.unlearned = append(rep.unlearned, s)
		}
	}
	sort.Strings(rep.unlearned)
	rep.auto = la
	if la.init == "" {
		return rep, fmt.Errorf("%s: could not learn anything: %v", b.id, errs)
	}
	if len(errs) > 0 && len(rep.unlearned) > 0 {
		return rep, fmt.Errorf("%s: states %v not learnable: %v", b.id, rep.unlearned, errs)
	}
	return rep, nil
}

// probeInitial observes the state and agency a fresh real object starts in, from
// positive evidence only (see whoHasAgency).
func probeInitial(b *binding, role protocol.ProtocolRole) (string, agency, error) {
	l := newLearner(b, role)
	e := newEng(b, role, true, nil)
	defer e.close()
	if e.p.IsDone() {
		return "", agNone, fmt.Errorf("initial state is terminal")
	}
	return l.whoHasAgency(e)
}
