package spec

import (
	"net"

	"github.com/blinklabs-io/gouroboros/cbor"
	lcommon "github.com/blinklabs-io/gouroboros/ledger/common"
	"github.com/blinklabs-io/gouroboros/protocol"
	"github.com/blinklabs-io/gouroboros/protocol/blockfetch"
	"github.com/blinklabs-io/gouroboros/protocol/chainsync"
	pcommon "github.com/blinklabs-io/gouroboros/protocol/common"
	"github.com/blinklabs-io/gouroboros/protocol/handshake"
	"github.com/blinklabs-io/gouroboros/protocol/keepalive"
	"github.com/blinklabs-io/gouroboros/protocol/leiosfetch"
	"github.com/blinklabs-io/gouroboros/protocol/leiosnotify"
	"github.com/blinklabs-io/gouroboros/protocol/leiosvotes"
	"github.com/blinklabs-io/gouroboros/protocol/localmessagenotification"
	"github.com/blinklabs-io/gouroboros/protocol/localmessagesubmission"
	"github.com/blinklabs-io/gouroboros/protocol/localstatequery"
	"github.com/blinklabs-io/gouroboros/protocol/localtxmonitor"
	"github.com/blinklabs-io/gouroboros/protocol/localtxsubmission"
	"github.com/blinklabs-io/gouroboros/protocol/messagesubmission"
	"github.com/blinklabs-io/gouroboros/protocol/peersharing"
	"github.com/blinklabs-io/gouroboros/protocol/txsubmission"

	"verif/harness/internal/fixtures"
	"verif/harness/internal/xcbor"
)

// mkMsg builds one constructor-made message (fresh object on every call).
type mkMsg func() protocol.Message

// symBinding ties a symbol of the alphabet to constructor-built samples of the
// implementation ([0] is the primary sample used by the simulation).
type symBinding struct {
	sym string
	mk  []mkMsg
}

type realFactory func(role protocol.ProtocolRole, o protocol.ProtocolOptions) *protocol.Protocol

// binding is one implementation automaton under test.
type binding struct {
	id       string // unique, e.g. "chain-sync/ntn"
	proto    string // protocol name used in finding keys
	spec     *fsm   // nil: no normative automaton available (well-formedness only)
	noSpec   string // why spec is nil
	protoID  uint16
	mode     protocol.ProtocolMode
	sm       protocol.StateMap // exported state map; nil when the package does not export it
	initial  string            // name of the implementation's initial state (E1 configuration)
	fromCbor protocol.MessageFromCborFunc
	syms     []symBinding
	// real builds the package's real Client/Server object and returns its embedded
	// *protocol.Protocol (state map, initial state, match context and handlers as
	// the package configures them).
	real    realFactory
	version uint16 // ProtocolOptions.Version handed to real
	// realKit builds the real object with the callbacks / API hooks the
	// "accepts the whole specification" pass needs (nil: real, no hooks).
	realKit realKitFactory
}

func (b *binding) sym(name string) *symBinding {
	for i := range b.syms {
		if b.syms[i].sym == name {
			return &b.syms[i]
		}
	}
	return nil
}

func sb(sym string, mk ...mkMsg) symBinding { return symBinding{sym, mk} }

// ---- sample material -----------------------------------------------------------

var (
	hash32 = func() []byte {
		h := make([]byte, 32)
		for i := range h {
			h[i] = byte(0xa0 + i)
		}
		return h
	}()
	pointA = pcommon.NewPoint(4242, hash32)
	pointO = pcommon.NewPointOrigin()
	tipA   = pcommon.Tip{Point: pointA, BlockNumber: 77}
)

func shelleyBlock() fixtures.Block { return fixtures.ByName("shelley") }

func dmqMsg() pcommon.DmqMessage {
	m := pcommon.DmqMessage{
		Payload:      pcommon.DmqMessagePayload{MessageBody: []byte("hello"), KESPeriod: 3, ExpiresAt: 4102444800},
		KESSignature: make([]byte, 448),
		OperationalCertificate: pcommon.OperationalCertificate{
			KESVerificationKey: make([]byte, 32), IssueNumber: 1, KESPeriod: 2, ColdSignature: make([]byte, 64)},
		ColdVerificationKey: make([]byte, 32),
	}
	_ = m.SetComputedMessageID()
	return m
}

func must[T any](v T, err error) T {
	if err != nil {
		panic(err)
	}
	return v
}

// ---- the table --------------------------------------------------------------------

func ntnMap() protocol.ProtocolVersionMap {
	return protocol.GetProtocolVersionMap(protocol.ProtocolModeNodeToNode, 764824073, false, true, false)
}

func handshakeSyms() []symBinding {
	return []symBinding{
		sb("ProposeVersions",
			func() protocol.Message { return handshake.NewMsgProposeVersions(ntnMap()) },
			func() protocol.Message {
				return handshake.NewMsgProposeVersions(protocol.ProtocolVersionMap{
					0: protocol.VersionDataNtC9to14(0), 32767: ntnMap()[13], 32768: protocol.VersionDataNtC9to14(1<<32 - 1),
					65535: protocol.VersionDataNtC15andUp{CborNetworkMagic: 1<<32 - 1, CborQuery: true}})
			},
			func() protocol.Message { return handshake.NewMsgProposeVersions(protocol.ProtocolVersionMap{}) }),
		sb("AcceptVersion",
			func() protocol.Message { return handshake.NewMsgAcceptVersion(13, ntnMap()[13]) },
			// version numbers at the ends of the number spaces
			func() protocol.Message { return handshake.NewMsgAcceptVersion(0, ntnMap()[13]) },
			func() protocol.Message { return handshake.NewMsgAcceptVersion(32767, ntnMap()[13]) },
			func() protocol.Message { return handshake.NewMsgAcceptVersion(32768, protocol.VersionDataNtC9to14(0)) },
			func() protocol.Message {
				return handshake.NewMsgAcceptVersion(65535, protocol.VersionDataNtC15andUp{CborNetworkMagic: 1<<32 - 1, CborQuery: true})
			}),
		sb("Refuse",
			func() protocol.Message {
				return handshake.NewMsgRefuse([]any{handshake.RefuseReasonVersionMismatch, []uint16{13, 14}})
			},
			func() protocol.Message {
				return handshake.NewMsgRefuse([]any{handshake.RefuseReasonRefused, uint16(13), "no"})
			}),
		sb("QueryReply", func() protocol.Message { return handshake.NewMsgQueryReply(ntnMap()) }),
	}
}

func chainSyncSyms(ntn bool) []symBinding {
	rf := func() protocol.Message {
		b := shelleyBlock()
		if ntn {
			// era 1 = Shelley in the node-to-node header numbering
			return must(chainsync.NewMsgRollForwardNtN(1, 0, b.Bytes, tipA))
		}
		return must(chainsync.NewMsgRollForwardNtC(b.Type, b.Bytes, tipA))
	}
	return []symBinding{
		sb("RequestNext", func() protocol.Message { return chainsync.NewMsgRequestNext() }),
		sb("AwaitReply", func() protocol.Message { return chainsync.NewMsgAwaitReply() }),
		sb("RollForward", rf),
		sb("RollBackward",
			func() protocol.Message { return chainsync.NewMsgRollBackward(pointA, tipA) },
			func() protocol.Message { return chainsync.NewMsgRollBackward(pointO, tipA) }),
		sb("FindIntersect",
			func() protocol.Message { return chainsync.NewMsgFindIntersect([]pcommon.Point{pointA, pointO}) },
			func() protocol.Message { return chainsync.NewMsgFindIntersect([]pcommon.Point{}) }),
		sb("IntersectFound", func() protocol.Message { return chainsync.NewMsgIntersectFound(pointA, tipA) }),
		sb("IntersectNotFound", func() protocol.Message { return chainsync.NewMsgIntersectNotFound(tipA) }),
		sb("Done", func() protocol.Message { return chainsync.NewMsgDone() }),
	}
}

func txid() txsubmission.TxId {
	var t txsubmission.TxId
	t.EraId = 6
	copy(t.TxId[:], hash32)
	return t
}

func bindings() []*binding {
	bs := []*binding{
		{id: "handshake/ntn", proto: "handshake", spec: specHandshake, protoID: handshake.ProtocolId,
			mode: protocol.ProtocolModeNodeToNode, sm: handshake.StateMapNtN, initial: "Propose",
			fromCbor: handshake.NewMsgFromCbor, syms: handshakeSyms()},
		{id: "handshake/ntc", proto: "handshake", spec: specHandshake, protoID: handshake.ProtocolId,
			mode: protocol.ProtocolModeNodeToClient, sm: handshake.StateMapNtC, initial: "Propose",
			fromCbor: handshake.NewMsgFromCbor, syms: handshakeSyms()},
		{id: "handshake/default", proto: "handshake", spec: specHandshake, protoID: handshake.ProtocolId,
			mode: protocol.ProtocolModeNodeToNode, sm: handshake.StateMap, initial: "Propose",
			fromCbor: handshake.NewMsgFromCbor, syms: handshakeSyms()},

		{id: "chain-sync/ntn", proto: "chain-sync", spec: specChainSync, protoID: chainsync.ProtocolIdNtN,
			mode: protocol.ProtocolModeNodeToNode, sm: chainsync.StateMapNtN, initial: "Idle",
			fromCbor: chainsync.NewMsgFromCborNtN, syms: chainSyncSyms(true)},
		{id: "chain-sync/ntc", proto: "chain-sync", spec: specChainSync, protoID: chainsync.ProtocolIdNtC,
			mode: protocol.ProtocolModeNodeToClient, sm: chainsync.StateMapNtC, initial: "Idle",
			fromCbor: chainsync.NewMsgFromCborNtC, syms: chainSyncSyms(false)},
		{id: "chain-sync/default", proto: "chain-sync", spec: specChainSync, protoID: chainsync.ProtocolIdNtN,
			mode: protocol.ProtocolModeNodeToNode, sm: chainsync.StateMap, initial: "Idle",
			fromCbor: chainsync.NewMsgFromCborNtN, syms: chainSyncSyms(true)},

		{id: "block-fetch", proto: "block-fetch", spec: specBlockFetch, protoID: blockfetch.ProtocolId,
			mode: protocol.ProtocolModeNodeToNode, sm: blockfetch.StateMap, initial: "Idle",
			fromCbor: blockfetch.NewMsgFromCbor, syms: []symBinding{
				sb("RequestRange",
					func() protocol.Message { return blockfetch.NewMsgRequestRange(pointA, pointA) },
					func() protocol.Message {
						return blockfetch.NewMsgRequestRange(pointO, pcommon.NewPoint(1<<64-1, hash32))
					}),
				sb("ClientDone", func() protocol.Message { return blockfetch.NewMsgClientDone() }),
				sb("StartBatch", func() protocol.Message { return blockfetch.NewMsgStartBatch() }),
				sb("NoBlocks", func() protocol.Message { return blockfetch.NewMsgNoBlocks() }),
				sb("Block", func() protocol.Message {
					b := shelleyBlock()
					return blockfetch.NewMsgBlock(xcbor.A(xcbor.U(uint64(b.Type)), xcbor.Raw(b.Bytes)).Encode())
				}),
				sb("BatchDone", func() protocol.Message { return blockfetch.NewMsgBatchDone() }),
			}},

		{id: "tx-submission", proto: "tx-submission", spec: specTxSubmission, protoID: txsubmission.ProtocolId,
			mode: protocol.ProtocolModeNodeToNode, sm: txsubmission.StateMap, initial: "Init",
			fromCbor: txsubmission.NewMsgFromCbor, syms: []symBinding{
				sb("Init", func() protocol.Message { return txsubmission.NewMsgInit() }),
				sb("RequestTxIds[blocking]",
					func() protocol.Message { return txsubmission.NewMsgRequestTxIds(true, 0, 3) },
					func() protocol.Message { return txsubmission.NewMsgRequestTxIds(true, 65535, 65535) },
					func() protocol.Message { return txsubmission.NewMsgRequestTxIds(true, 0, 0) }),
				sb("RequestTxIds[non-blocking]",
					func() protocol.Message { return txsubmission.NewMsgRequestTxIds(false, 1, 2) },
					func() protocol.Message { return txsubmission.NewMsgRequestTxIds(false, 65535, 65535) },
					func() protocol.Message { return txsubmission.NewMsgRequestTxIds(false, 0, 0) }),
				sb("ReplyTxIds",
					func() protocol.Message {
						return txsubmission.NewMsgReplyTxIds([]txsubmission.TxIdAndSize{{TxId: txid(), Size: 300}})
					},
					func() protocol.Message { return txsubmission.NewMsgReplyTxIds(nil) }),
				sb("RequestTxs", func() protocol.Message { return txsubmission.NewMsgRequestTxs([]txsubmission.TxId{txid()}) }),
				sb("ReplyTxs",
					func() protocol.Message {
						return txsubmission.NewMsgReplyTxs([]txsubmission.TxBody{{EraId: 6, TxBody: fixtures.DijkstraTx()}})
					},
					func() protocol.Message { return txsubmission.NewMsgReplyTxs(nil) }),
				sb("Done", func() protocol.Message { return txsubmission.NewMsgDone() }),
			}},

		{id: "keep-alive", proto: "keep-alive", spec: specKeepAlive, protoID: keepalive.ProtocolId,
			mode: protocol.ProtocolModeNodeToNode, sm: keepalive.StateMap, initial: "Client",
			fromCbor: keepalive.NewMsgFromCbor, syms: []symBinding{
				sb("KeepAlive",
					func() protocol.Message { return keepalive.NewMsgKeepAlive(0xbeef) },
					func() protocol.Message { return keepalive.NewMsgKeepAlive(0) },
					func() protocol.Message { return keepalive.NewMsgKeepAlive(65535) }),
				sb("KeepAliveResponse",
					func() protocol.Message { return keepalive.NewMsgKeepAliveResponse(0xbeef) },
					func() protocol.Message { return keepalive.NewMsgKeepAliveResponse(0) },
					func() protocol.Message { return keepalive.NewMsgKeepAliveResponse(65535) }),
				sb("Done", func() protocol.Message { return keepalive.NewMsgDone() }),
			}},

		{id: "peer-sharing", proto: "peer-sharing", spec: specPeerSharing, protoID: peersharing.ProtocolId,
			mode: protocol.ProtocolModeNodeToNode, sm: peersharing.StateMap, initial: "Idle",
			fromCbor: peersharing.NewMsgFromCbor, syms: []symBinding{
				sb("ShareRequest",
					func() protocol.Message { return peersharing.NewMsgShareRequest(5) },
					func() protocol.Message { return peersharing.NewMsgShareRequest(0) },
					func() protocol.Message { return peersharing.NewMsgShareRequest(255) }),
				sb("SharePeers",
					func() protocol.Message {
						return peersharing.NewMsgSharePeers([]peersharing.PeerAddress{
							{IP: net.IPv4(10, 1, 2, 3), Port: 3001},
							{IP: net.ParseIP("2001:db8::7"), Port: 3002}})
					},
					func() protocol.Message { return peersharing.NewMsgSharePeers(nil) }),
				sb("Done", func() protocol.Message { return peersharing.NewMsgDone() }),
			}},

		{id: "local-tx-submission", proto: "local-tx-submission", spec: specLocalTxSubmission, protoID: localtxsubmission.ProtocolId,
			mode: protocol.ProtocolModeNodeToClient, sm: localtxsubmission.StateMap, initial: "Idle",
			fromCbor: localtxsubmission.NewMsgFromCbor, syms: []symBinding{
				sb("SubmitTx", func() protocol.Message { return localtxsubmission.NewMsgSubmitTx(7, fixtures.DijkstraTx()) }),
				sb("AcceptTx", func() protocol.Message { return localtxsubmission.NewMsgAcceptTx() }),
				sb("RejectTx", func() protocol.Message {
					return localtxsubmission.NewMsgRejectTx(xcbor.A(xcbor.U(1), xcbor.T("bad")).Encode())
				}),
				sb("Done", func() protocol.Message { return localtxsubmission.NewMsgDone() }),
			}},

		{id: "local-tx-monitor", proto: "local-tx-monitor", spec: specLocalTxMonitor, protoID: localtxmonitor.ProtocolId,
			mode: protocol.ProtocolModeNodeToClient, sm: localtxmonitor.StateMap, initial: "Idle",
			fromCbor: localtxmonitor.NewMsgFromCbor, syms: []symBinding{
				sb("Done", func() protocol.Message { return localtxmonitor.NewMsgDone() }),
				sb("Acquire", func() protocol.Message { return localtxmonitor.NewMsgAcquire() }),
				sb("Acquired",
					func() protocol.Message { return localtxmonitor.NewMsgAcquired(99) },
					func() protocol.Message { return localtxmonitor.NewMsgAcquired(0) },
					func() protocol.Message { return localtxmonitor.NewMsgAcquired(1<<64 - 1) }),
				sb("Release", func() protocol.Message { return localtxmonitor.NewMsgRelease() }),
				sb("NextTx", func() protocol.Message { return localtxmonitor.NewMsgNextTx() }),
				sb("ReplyNextTx",
					func() protocol.Message { return localtxmonitor.NewMsgReplyNextTx(6, fixtures.DijkstraTx()) },
					func() protocol.Message { return localtxmonitor.NewMsgReplyNextTx(0, nil) }),
				sb("HasTx", func() protocol.Message { return localtxmonitor.NewMsgHasTx(hash32) }),
				sb("ReplyHasTx",
					func() protocol.Message { return localtxmonitor.NewMsgReplyHasTx(true) },
					func() protocol.Message { return localtxmonitor.NewMsgReplyHasTx(false) }),
				sb("GetSizes", func() protocol.Message { return localtxmonitor.NewMsgGetSizes() }),
				sb("ReplyGetSizes",
					func() protocol.Message { return localtxmonitor.NewMsgReplyGetSizes(1000, 10, 1) },
					func() protocol.Message { return localtxmonitor.NewMsgReplyGetSizes(0, 0, 0) },
					func() protocol.Message { return localtxmonitor.NewMsgReplyGetSizes(1<<32-1, 1<<32-1, 1<<32-1) }),
			}},

		{id: "local-state-query", proto: "local-state-query", spec: specLocalStateQuery, protoID: localstatequery.ProtocolId,
			mode: protocol.ProtocolModeNodeToClient, sm: localstatequery.StateMap, initial: "Idle",
			fromCbor: localstatequery.NewMsgFromCbor, syms: []symBinding{
				sb("Acquire[point]", func() protocol.Message { return localstatequery.NewMsgAcquire(pointA) }),
				sb("Acquire[volatile-tip]", func() protocol.Message { return localstatequery.NewMsgAcquireVolatileTip() }),
				sb("Acquire[immutable-tip]", func() protocol.Message { return localstatequery.NewMsgAcquireImmutableTip() }),
				sb("Acquired", func() protocol.Message { return localstatequery.NewMsgAcquired() }),
				sb("Failure",
					func() protocol.Message { return localstatequery.NewMsgFailure(1) },
					func() protocol.Message { return localstatequery.NewMsgFailure(0) },
					func() protocol.Message { return localstatequery.NewMsgFailure(255) }),
				sb("Query", func() protocol.Message {
					return localstatequery.NewMsgQuery([]any{localstatequery.QueryTypeSystemStart})
				}),
				sb("Result", func() protocol.Message {
					return localstatequery.NewMsgResult(xcbor.A(xcbor.U(2017), xcbor.U(266), xcbor.U(0)).Encode())
				}),
				sb("Release", func() protocol.Message { return localstatequery.NewMsgRelease() }),
				sb("ReAcquire[point]", func() protocol.Message { return localstatequery.NewMsgReAcquire(pointA) }),
				sb("ReAcquire[volatile-tip]", func() protocol.Message { return localstatequery.NewMsgReAcquireVolatileTip() }),
				sb("ReAcquire[immutable-tip]", func() protocol.Message { return localstatequery.NewMsgReAcquireImmutableTip() }),
				sb("Done", func() protocol.Message { return localstatequery.NewMsgDone() }),
			}},
	}
	bs = append(bs, dmqBindings()...)
	bs = append(bs, leiosBindings()...)
	for _, b := range bs {
		if b.real == nil {
			b.real = exportedReal[b.id]
		}
		if b.realKit == nil {
			b.realKit = realKits[b.id]
		}
	}
	return bs
}

func isClient(r protocol.ProtocolRole) bool { return r == protocol.ProtocolRoleClient }

// exportedReal: the real Client/Server objects of the packages that also export
// their state map, with default configurations (no callbacks). Used to check that
// the objects run the exported map from the expected initial state; handlers that
// fail, block or reply on their own only cut a trace.
var exportedReal = map[string]realFactory{
	"handshake/ntn": func(r protocol.ProtocolRole, o protocol.ProtocolOptions) *protocol.Protocol {
		cfg := handshake.NewConfig(handshake.WithProtocolVersionMap(ntnMap()))
		tweak(&cfg.Timeout)
		if isClient(r) {
			return handshake.NewClient(o, &cfg).Protocol
		}
		return handshake.NewServer(o, &cfg).Protocol
	},
	"handshake/ntc": func(r protocol.ProtocolRole, o protocol.ProtocolOptions) *protocol.Protocol {
		cfg := handshake.NewConfig(handshake.WithProtocolVersionMap(
			protocol.GetProtocolVersionMap(protocol.ProtocolModeNodeToClient, 764824073, false, false, false)))
		tweak(&cfg.Timeout)
		if isClient(r) {
			return handshake.NewClient(o, &cfg).Protocol
		}
		return handshake.NewServer(o, &cfg).Protocol
	},
	"chain-sync/ntn": chainSyncReal,
	"chain-sync/ntc": chainSyncReal,
	"block-fetch": func(r protocol.ProtocolRole, o protocol.ProtocolOptions) *protocol.Protocol {
		cfg := must(blockfetch.NewConfig())
		tweak(&cfg.BatchStartTimeout)
		tweak(&cfg.BlockTimeout)
		if isClient(r) {
			return blockfetch.NewClient(o, &cfg).Protocol
		}
		return blockfetch.NewServer(o, &cfg).Protocol
	},
	"tx-submission": func(r protocol.ProtocolRole, o protocol.ProtocolOptions) *protocol.Protocol {
		cfg := txsubmission.NewConfig()
		if isClient(r) {
			return txsubmission.NewClient(o, &cfg).Protocol
		}
		return txsubmission.NewServer(o, &cfg).Protocol
	},
	"keep-alive": func(r protocol.ProtocolRole, o protocol.ProtocolOptions) *protocol.Protocol {
		cfg := keepalive.NewConfig()
		tweak(&cfg.Timeout)
		if isClient(r) {
			return keepalive.NewClient(o, &cfg).Protocol
		}
		return keepalive.NewServer(o, &cfg).Protocol
	},
	"peer-sharing": func(r protocol.ProtocolRole, o protocol.ProtocolOptions) *protocol.Protocol {
		cfg := peersharing.NewConfig()
		tweak(&cfg.Timeout)
		if isClient(r) {
			return peersharing.NewClient(o, &cfg).Protocol
		}
		return peersharing.NewServer(o, &cfg).Protocol
	},
	"local-tx-submission": func(r protocol.ProtocolRole, o protocol.ProtocolOptions) *protocol.Protocol {
		cfg := localtxsubmission.NewConfig()
		tweak(&cfg.Timeout)
		if isClient(r) {
			return localtxsubmission.NewClient(o, &cfg).Protocol
		}
		return localtxsubmission.NewServer(o, &cfg).Protocol
	},
	"local-tx-monitor": func(r protocol.ProtocolRole, o protocol.ProtocolOptions) *protocol.Protocol {
		cfg := localtxmonitor.NewConfig()
		tweak(&cfg.AcquireTimeout)
		tweak(&cfg.QueryTimeout)
		if isClient(r) {
			return localtxmonitor.NewClient(o, &cfg).Protocol
		}
		return localtxmonitor.NewServer(o, &cfg).Protocol
	},
	"local-state-query": func(r protocol.ProtocolRole, o protocol.ProtocolOptions) *protocol.Protocol {
		cfg := localstatequery.NewConfig()
		tweak(&cfg.AcquireTimeout)
		tweak(&cfg.QueryTimeout)
		if isClient(r) {
			return localstatequery.NewClient(o, &cfg).Protocol
		}
		return localstatequery.NewServer(o, &cfg).Protocol
	},
	"leios-fetch": func(r protocol.ProtocolRole, o protocol.ProtocolOptions) *protocol.Protocol {
		cfg := leiosfetch.NewConfig()
		tweak(&cfg.Timeout)
		if isClient(r) {
			return leiosfetch.NewClient(o, &cfg).Protocol
		}
		return leiosfetch.NewServer(o, &cfg).Protocol
	},
	"leios-notify": func(r protocol.ProtocolRole, o protocol.ProtocolOptions) *protocol.Protocol {
		cfg := leiosnotify.NewConfig()
		tweak(&cfg.Timeout)
		if isClient(r) {
			return leiosnotify.NewClient(o, &cfg).Protocol
		}
		return leiosnotify.NewServer(o, &cfg).Protocol
	},
}

func chainSyncReal(r protocol.ProtocolRole, o protocol.ProtocolOptions) *protocol.Protocol {
	cfg := chainsync.NewConfig()
	tweak(&cfg.IntersectTimeout)
	tweak(&cfg.IdleTimeout)
	tweak(&cfg.BlockTimeout)
	if isClient(r) {
		return chainsync.NewClient(o, &cfg).Protocol
	}
	return chainsync.NewServer(o, &cfg).Protocol
}

// ---- DMQ (CIP-0137): the packages do not export their state maps; the automaton
// is learned from the real Client / Server objects through the engine. ----------

func dmqBindings() []*binding {
	msSyms := []symBinding{
		sb("Init", func() protocol.Message { return messagesubmission.NewMsgInit() }),
		sb("RequestMessageIds[blocking]",
			func() protocol.Message { return messagesubmission.NewMsgRequestMessageIds(true, 0, 3) },
			func() protocol.Message { return messagesubmission.NewMsgRequestMessageIds(true, 65535, 65535) }),
		sb("RequestMessageIds[non-blocking]",
			func() protocol.Message { return messagesubmission.NewMsgRequestMessageIds(false, 0, 3) },
			func() protocol.Message { return messagesubmission.NewMsgRequestMessageIds(false, 65535, 65535) }),
		sb("ReplyMessageIds",
			func() protocol.Message {
				return messagesubmission.NewMsgReplyMessageIds([]pcommon.MessageIDAndSize{{MessageID: hash32, SizeInBytes: 700}})
			},
			func() protocol.Message { return messagesubmission.NewMsgReplyMessageIds([]pcommon.MessageIDAndSize{}) }),
		sb("RequestMessages", func() protocol.Message { return messagesubmission.NewMsgRequestMessages([][]byte{hash32}) }),
		sb("ReplyMessages",
			func() protocol.Message { return messagesubmission.NewMsgReplyMessages([]pcommon.DmqMessage{dmqMsg()}) },
			func() protocol.Message { return messagesubmission.NewMsgReplyMessages([]pcommon.DmqMessage{}) }),
		sb("Done", func() protocol.Message { return messagesubmission.NewMsgDone() }),
	}
	msReal := func(role protocol.ProtocolRole, o protocol.ProtocolOptions) *protocol.Protocol {
		cfg := messagesubmission.NewConfig()
		tweak(&cfg.InitTimeout)
		tweak(&cfg.IdleTimeout)
		tweak(&cfg.MessageIdsBlockingTimeout)
		tweak(&cfg.MessageIdsNonblockingTimeout)
		tweak(&cfg.MessagesTimeout)
		if role == protocol.ProtocolRoleClient {
			return messagesubmission.NewClient(o, &cfg).Protocol
		}
		return messagesubmission.NewServer(o, &cfg).Protocol
	}
	return []*binding{
		{id: "message-submission/v1", proto: "message-submission", spec: specMessageSubmissionV1,
			protoID: messagesubmission.ProtocolID, mode: protocol.ProtocolModeNodeToNode,
			fromCbor: messagesubmission.NewMsgFromCbor, syms: msSyms, real: msReal, version: protocol.ProtocolVersionDMQNtN1},
		{id: "message-submission/v2", proto: "message-submission-v2",
			noSpec:  "the state machine gouroboros calls 'CIP-0137 V2' (NodeToNodeV_2: no StInit, server-side MsgDone) is not a revision the author can reproduce from memory",
			protoID: messagesubmission.ProtocolID, mode: protocol.ProtocolModeNodeToNode,
			fromCbor: messagesubmission.NewMsgFromCbor, syms: msSyms, real: msReal, version: protocol.ProtocolVersionDMQNtN2},
		{id: "local-message-submission", proto: "local-message-submission", spec: specLocalMessageSubmission,
			protoID: localmessagesubmission.ProtocolID, mode: protocol.ProtocolModeNodeToClient,
			fromCbor: localmessagesubmission.NewMsgFromCbor, syms: []symBinding{
				sb("SubmitMessage", func() protocol.Message { return localmessagesubmission.NewMsgSubmitMessage(dmqMsg()) }),
				sb("AcceptMessage", func() protocol.Message { return localmessagesubmission.NewMsgAcceptMessage() }),
				sb("RejectMessage",
					func() protocol.Message {
						return must(localmessagesubmission.NewMsgRejectMessage(pcommon.InvalidReason{Message: "bad"}))
					},
					func() protocol.Message {
						return must(localmessagesubmission.NewMsgRejectMessage(pcommon.AlreadyReceivedReason{}))
					}),
				sb("Done", func() protocol.Message { return localmessagesubmission.NewMsgDone() }),
			},
			real: func(role protocol.ProtocolRole, o protocol.ProtocolOptions) *protocol.Protocol {
				cfg := localmessagesubmission.NewConfig()
				tweak(&cfg.Timeout)
				if role == protocol.ProtocolRoleClient {
					return localmessagesubmission.NewClient(o, &cfg).Protocol
				}
				return localmessagesubmission.NewServer(o, &cfg).Protocol
			}, version: 1 + protocol.ProtocolVersionDMQNtCOffset},
		{id: "local-message-notification", proto: "local-message-notification", spec: specLocalMessageNotification,
			protoID: localmessagenotification.ProtocolID, mode: protocol.ProtocolModeNodeToClient,
			fromCbor: localmessagenotification.NewMsgFromCbor, syms: []symBinding{
				sb("RequestMessages[non-blocking]", func() protocol.Message { return localmessagenotification.NewMsgRequestMessages(false) }),
				sb("RequestMessages[blocking]", func() protocol.Message { return localmessagenotification.NewMsgRequestMessages(true) }),
				sb("ReplyMessagesNonBlocking",
					func() protocol.Message {
						return localmessagenotification.NewMsgReplyMessagesNonBlocking([]pcommon.DmqMessage{dmqMsg()}, true)
					},
					func() protocol.Message {
						return localmessagenotification.NewMsgReplyMessagesNonBlocking([]pcommon.DmqMessage{}, false)
					}),
				sb("ReplyMessagesBlocking", func() protocol.Message {
					return localmessagenotification.NewMsgReplyMessagesBlocking([]pcommon.DmqMessage{dmqMsg()})
				}),
				sb("ClientDone", func() protocol.Message { return localmessagenotification.NewMsgClientDone() }),
			},
			real: func(role protocol.ProtocolRole, o protocol.ProtocolOptions) *protocol.Protocol {
				cfg := localmessagenotification.NewConfig()
				tweak(&cfg.BlockingRequestTimeout)
				if role == protocol.ProtocolRoleClient {
					return localmessagenotification.NewClient(o, &cfg).Protocol
				}
				return localmessagenotification.NewServer(o, &cfg).Protocol
			}, version: 1 + protocol.ProtocolVersionDMQNtCOffset},
	}
}

// ---- Leios prototypes: no normative automaton offline ----------------------------

const leiosWhy = "Leios prototype protocol: no normative automaton is available offline (CIP-0164 is a draft and internal/test/cardano-blueprint is empty)"

func leiosBindings() []*binding {
	raw := func(n *xcbor.Node) cbor.RawMessage { return cbor.RawMessage(n.Encode()) }
	var h lcommon.Blake2b256
	copy(h[:], hash32)
	vote := lcommon.LeiosVote{SlotNo: 9, EndorserBlockHash: h, VoterId: 3, VoteSignature: make([]byte, 48)}
	return []*binding{
		{id: "leios-fetch", proto: "leios-fetch", noSpec: leiosWhy, protoID: leiosfetch.ProtocolId,
			mode: protocol.ProtocolModeNodeToNode, sm: leiosfetch.StateMap, initial: "Idle",
			fromCbor: leiosfetch.NewMsgFromCbor, syms: []symBinding{
				sb("BlockRequest", func() protocol.Message { return leiosfetch.NewMsgBlockRequest(pointA) }),
				sb("Block", func() protocol.Message { return leiosfetch.NewMsgBlock(raw(xcbor.A(xcbor.U(1), xcbor.U(2)))) }),
				sb("NoBlock", func() protocol.Message { return leiosfetch.NewMsgNoBlock() }),
				sb("BlockTxsRequest", func() protocol.Message {
					return leiosfetch.NewMsgBlockTxsRequest(pointA, map[uint16]uint64{0: 3})
				}),
				sb("BlockTxs", func() protocol.Message {
					return leiosfetch.NewMsgBlockTxs([]cbor.RawMessage{raw(xcbor.A(xcbor.U(7)))})
				}),
				sb("NoBlockTxs", func() protocol.Message { return leiosfetch.NewMsgNoBlockTxs() }),
				sb("VotesRequest", func() protocol.Message {
					return leiosfetch.NewMsgVotesRequest([]leiosfetch.MsgVotesRequestVoteId{{SlotNo: 9, VoterId: 3}})
				}),
				sb("Votes", func() protocol.Message { return must(leiosfetch.NewMsgVotesFromVotes([]lcommon.LeiosVote{vote})) }),
				sb("BlockRangeRequest", func() protocol.Message { return leiosfetch.NewMsgBlockRangeRequest(pointA, pointA) }),
				sb("NextBlockAndTxsInRange", func() protocol.Message {
					return leiosfetch.NewMsgNextBlockAndTxsInRange(raw(xcbor.A(xcbor.U(1))), []cbor.RawMessage{raw(xcbor.A(xcbor.U(7)))})
				}),
				sb("LastBlockAndTxsInRange", func() protocol.Message {
					return leiosfetch.NewMsgLastBlockAndTxsInRange(raw(xcbor.A(xcbor.U(1))), []cbor.RawMessage{raw(xcbor.A(xcbor.U(7)))})
				}),
				sb("Done", func() protocol.Message { return leiosfetch.NewMsgDone() }),
			}},
		{id: "leios-notify", proto: "leios-notify", noSpec: leiosWhy, protoID: leiosnotify.ProtocolId,
			mode: protocol.ProtocolModeNodeToNode, sm: leiosnotify.StateMap, initial: "Idle",
			fromCbor: leiosnotify.NewMsgFromCbor, syms: []symBinding{
				sb("NotificationRequestNext", func() protocol.Message { return leiosnotify.NewMsgNotificationRequestNext() }),
				sb("BlockAnnouncement", func() protocol.Message {
					return leiosnotify.NewMsgBlockAnnouncement(raw(xcbor.A(xcbor.U(1), xcbor.U(2))))
				}),
				sb("BlockOffer", func() protocol.Message { return leiosnotify.NewMsgBlockOffer(pointA, 1234) }),
				sb("BlockTxsOffer", func() protocol.Message { return leiosnotify.NewMsgBlockTxsOffer(pointA) }),
				sb("VotesOffer", func() protocol.Message {
					return leiosnotify.NewMsgVotesOffer([]leiosnotify.MsgVotesOfferVote{{SlotNo: 9, VoterId: 3}})
				}),
				sb("Done", func() protocol.Message { return leiosnotify.NewMsgDone() }),
			}},
		// leios-votes: the exported StateMap's MatchFuncs need the package's private
		// *stateContext (a vote-token counter), so the map cannot be simulated from
		// outside; it is learned from the real objects with RequestNext(count=1).
		{id: "leios-votes", proto: "leios-votes", noSpec: leiosWhy, protoID: leiosvotes.ProtocolId,
			mode: protocol.ProtocolModeNodeToNode, fromCbor: leiosvotes.NewMsgFromCbor,
			syms: []symBinding{
				sb("VotesRequestNext[1]", func() protocol.Message { return leiosvotes.NewMsgVotesRequestNext(1) }),
				sb("Vote", func() protocol.Message { return leiosvotes.NewMsgVote(vote) }),
				sb("Done", func() protocol.Message { return leiosvotes.NewMsgDone() }),
			},
			real: func(role protocol.ProtocolRole, o protocol.ProtocolOptions) *protocol.Protocol {
				cfg := leiosvotes.NewConfig()
				tweak(&cfg.Timeout)
				if role == protocol.ProtocolRoleClient {
					return leiosvotes.NewClient(o, &cfg).Protocol
				}
				return leiosvotes.NewServer(o, &cfg).Protocol
			}},
	}
}
