package offsets

import (
	"bytes"
	"errors"
	"fmt"
	"strings"
	"testing"

	"github.com/blinklabs-io/gouroboros/ledger"
	"github.com/blinklabs-io/gouroboros/ledger/byron"
	"github.com/blinklabs-io/gouroboros/ledger/common"
	"pgregory.net/rapid"

	"verif/harness/internal/evi"
	"verif/harness/internal/fixtures"
	"verif/harness/internal/xcbor"
)

// ---- regions of a block ------------------------------------------------------------

type region struct {
	Name      string
	S, E      int
	Committed bool // bytes the header commits to (per the statement)
}

// regionsOf splits a parsed block into named byte regions. Earlier entries win
// where ranges nest (a commitment slot inside the header, a tx body inside the
// tx payload).
func regionsOf(typ uint, root *xcbor.Node) []region {
	var rs []region
	add := func(name string, n *xcbor.Node, committed bool) {
		if n != nil && n.End > n.Start {
			rs = append(rs, region{name, n.Start, n.End, committed})
		}
	}
	slots, err := headerSlots(typ, root)
	if err == nil {
		for _, n := range []*xcbor.Node{slots.Hash, slots.TxCount, slots.Merkle, slots.WitHash, slots.DlgHash, slots.UpdH} {
			add("header-commitment", n, false)
		}
	}
	switch layoutOf(typ) {
	case layShelley:
		names := []string{"", "bodies", "witnesses", "aux", "invalid"}
		for i := 1; i < len(root.Items) && i < len(names); i++ {
			add(names[i], root.Items[i], i <= segmentCount(typ))
		}
	case layDijkstra:
		if len(root.Items) > 1 {
			add("body", root.Items[1], true)
		}
	case layEBB:
		if len(root.Items) > 1 {
			add("body", root.Items[1], true)
		}
		if len(root.Items) > 2 {
			add("extra", root.Items[2], false)
		}
	case layByron:
		if len(root.Items) == 3 && root.Items[1].Kind == xcbor.Array && len(root.Items[1].Items) == 4 {
			b := root.Items[1]
			if b.Items[0].Kind == xcbor.Array {
				for _, p := range b.Items[0].Items {
					if p.Kind == xcbor.Array && len(p.Items) == 2 {
						add("tx-body", p.Items[0], true)
						add("tx-witnesses", p.Items[1], true)
					}
				}
			}
			add("tx-framing", b.Items[0], false) // list / pair heads and breaks: not hashed
			add("ssc", b.Items[1], false)        // outside the claim
			add("dlg", b.Items[2], true)
			add("upd", b.Items[3], true)
			add("body-framing", b, false)
			add("extra", root.Items[2], false)
		}
	}
	if len(root.Items) > 0 {
		add("header-other", root.Items[0], false)
	}
	rs = append(rs, region{"block-framing", root.Start, root.End, false})
	return rs
}

func regionAt(rs []region, pos int) region {
	for _, r := range rs {
		if pos >= r.S && pos < r.E {
			return r
		}
	}
	return region{Name: "trailing"}
}

// positionsOf returns the byte positions that belong to region name (after
// precedence).
func positionsOf(rs []region, n int) map[string][]int {
	out := map[string][]int{}
	for p := 0; p < n; p++ {
		r := regionAt(rs, p)
		out[r.Name] = append(out[r.Name], p)
	}
	return out
}

// ---- the oracle --------------------------------------------------------------------

type c34Verdict struct {
	HashErr    bool   // the rejection is a body-hash / body-proof mismatch (not a shape error)
	Accepted   bool   // decode with body validation succeeded
	Structural bool   // decode with SkipBodyHashValidation succeeded
	Bound      bool   // reference commitment of the body equals the header's
	Why        string // reason when !Bound
	Err        string
}

// c34Eval runs the library decoder and, when it accepts with validation on,
// recomputes the commitment of the accepted bytes independently.
func c34Eval(typ uint, buf []byte) (c34Verdict, error) {
	return c34EvalCfg(typ, buf, common.VerifyConfig{})
}

// the public verification knobs that leave the body binding on: the three
// VerifyBlock-only skips (documented not to affect body-hash validation) and the
// stricter Byron ssc hash comparison. SkipBodyHashValidation switches the
// property off and stays outside.
type cfgCombo struct {
	Name string
	Cfg  common.VerifyConfig
}

func cfgCombos() []cfgCombo {
	var out []cfgCombo
	for m := 0; m < 16; m++ {
		c := common.VerifyConfig{
			SkipTransactionValidation:         m&1 != 0,
			SkipStakePoolValidation:           m&2 != 0,
			SkipBlockLimitsValidation:         m&4 != 0,
			EnableByronSscProofHashValidation: m&8 != 0,
		}
		name := ""
		for i, n := range []string{"SkipTx", "SkipPool", "SkipLimits", "ByronSscHash"} {
			if m&(1<<i) != 0 {
				name += "+" + n
			}
		}
		if name == "" {
			name = "default"
		}
		out = append(out, cfgCombo{strings.TrimPrefix(name, "+"), c})
	}
	return out
}

// c34EvalCfg: cfg must have SkipBodyHashValidation == false.
func c34EvalCfg(typ uint, buf []byte, cfg common.VerifyConfig) (c34Verdict, error) {
	var v c34Verdict
	// every call gets the bytes in the process-wide input buffer, which is
	// overwritten as soon as the call has returned (see offsets_purity.go)
	in := viaScratch(buf)
	_, err := ledger.NewBlockFromCbor(typ, in, cfg)
	clobber(in)
	v.Structural = err == nil // accepted with validation => decodes without it
	if err != nil {
		in = viaScratch(buf)
		_, serr := ledger.NewBlockFromCbor(typ, in, common.VerifyConfig{SkipBodyHashValidation: true})
		clobber(in)
		v.Structural = serr == nil
		v.Err = err.Error()
		var ve *common.ValidationError
		v.HashErr = errors.Is(err, byron.ErrBodyProofMismatch) || (errors.As(err, &ve) && ve.Type == common.ValidationErrorTypeBodyHash)
		return v, nil
	}
	v.Accepted = true
	root, _, perr := xcbor.Parse(buf) // trailing bytes after the block are not part of it
	if perr != nil {
		return v, fmt.Errorf("harness: the library accepted bytes xcbor cannot parse: %w", perr)
	}
	c := bodyCommitmentOf(typ, root, buf)
	v.Bound, v.Why = headerMatches(typ, root, c)
	return v, nil
}

// ---- mutations ----------------------------------------------------------------------

type mutation struct {
	Family string
	Region string
	Desc   string
	Bytes  []byte
}

// genStructural draws one structural edit of the base tree (no recommit).
func genStructural(rt *rapid.T, typ uint, base *xcbor.Node) (family, reg, desc string, tree *xcbor.Node) {
	t := base.Clone()
	lay := layoutOf(typ)
	pick := func(n int, label string) int { return rapid.IntRange(0, n-1).Draw(rt, label) }
	listEdit := func(l *xcbor.Node, label string) string {
		n := len(l.Items)
		switch op := rapid.SampledFrom([]string{"drop", "dup", "swap", "move-last-first"}).Draw(rt, label+"Op"); {
		case op == "drop" && n >= 1:
			i := pick(n, label+"I")
			l.Items = append(l.Items[:i:i], l.Items[i+1:]...)
			return fmt.Sprintf("drop[%d]", i)
		case op == "dup" && n >= 1:
			i := pick(n, label+"I")
			l.Items = append(l.Items[:i+1:i+1], l.Items[i:]...)
			return fmt.Sprintf("dup[%d]", i)
		case op == "swap" && n >= 2:
			i := pick(n-1, label+"I")
			l.Items[i], l.Items[i+1] = l.Items[i+1], l.Items[i]
			return fmt.Sprintf("swap[%d,%d]", i, i+1)
		case n >= 2:
			last := l.Items[n-1]
			copy(l.Items[1:], l.Items[:n-1])
			l.Items[0] = last
			return "rotate"
		}
		l.Items = append(l.Items, xcbor.A())
		return "append-empty-array"
	}
	fix := func(l *xcbor.Node) {
		if !l.Indef {
			l.Width = 0
		}
	}
	if rapid.IntRange(0, 7).Draw(rt, "arity") == 0 {
		// arity edits of the block / body arrays
		target, name := t, "block"
		if (lay == layByron || lay == layDijkstra) && len(t.Items) > 1 && t.Items[1].Kind == xcbor.Array && rapid.Bool().Draw(rt, "arityBody") {
			target, name = t.Items[1], "body"
		}
		if rapid.Bool().Draw(rt, "arityAdd") || len(target.Items) < 2 {
			target.Items = append(target.Items, xcbor.A())
			fix(target)
			return "arity", name + "-array", "element appended to the " + name + " array", t
		}
		target.Items = target.Items[:len(target.Items)-1]
		fix(target)
		return "arity", name + "-array", "last element of the " + name + " array dropped", t
	}
	switch lay {
	case layShelley:
		kinds := []string{"bodies-only", "witnesses-only", "both", "aux", "body-field"}
		if segmentCount(typ) == 4 {
			kinds = append(kinds, "invalid", "invalid")
		}
		k := rapid.SampledFrom(kinds).Draw(rt, "structKind")
		bodies, wits, aux := t.Items[1], t.Items[2], t.Items[3]
		switch k {
		case "bodies-only":
			d := listEdit(bodies, "b")
			fix(bodies)
			return "tx-list", "bodies", "bodies " + d, t
		case "witnesses-only":
			d := listEdit(wits, "w")
			fix(wits)
			return "tx-list", "witnesses", "witnesses " + d, t
		case "both":
			n := len(bodies.Items)
			if n == 0 {
				bodies.Items = append(bodies.Items, xcbor.M(xcbor.U(0), xcbor.A(), xcbor.U(1), xcbor.A(), xcbor.U(2), xcbor.U(0)))
				wits.Items = append(wits.Items, xcbor.M())
				fix(bodies)
				fix(wits)
				return "tx-list", "bodies+witnesses", "add an empty transaction", t
			}
			i := pick(n, "bothI")
			switch rapid.IntRange(0, 2).Draw(rt, "bothOp") {
			case 0:
				bodies.Items = append(bodies.Items[:i:i], bodies.Items[i+1:]...)
				wits.Items = append(wits.Items[:i:i], wits.Items[i+1:]...)
				fix(bodies)
				fix(wits)
				return "tx-list", "bodies+witnesses", fmt.Sprintf("drop tx %d", i), t
			case 1:
				bodies.Items = append(bodies.Items[:i+1:i+1], bodies.Items[i:]...)
				wits.Items = append(wits.Items[:i+1:i+1], wits.Items[i:]...)
				fix(bodies)
				fix(wits)
				return "tx-list", "bodies+witnesses", fmt.Sprintf("duplicate tx %d", i), t
			}
			j := pick(n, "bothJ")
			bodies.Items[i], bodies.Items[j] = bodies.Items[j], bodies.Items[i]
			wits.Items[i], wits.Items[j] = wits.Items[j], wits.Items[i]
			return "tx-list", "bodies+witnesses", fmt.Sprintf("swap tx %d and %d", i, j), t
		case "aux":
			n := len(aux.Items) / 2
			switch op := rapid.IntRange(0, 2).Draw(rt, "auxOp"); {
			case op == 0 && n > 0:
				i := pick(n, "auxI")
				aux.Items = append(aux.Items[:2*i:2*i], aux.Items[2*i+2:]...)
				fix(aux)
				return "aux", "aux", fmt.Sprintf("drop aux entry %d", i), t
			case op == 1 && n > 0:
				i := pick(n, "auxI")
				aux.Items[2*i+1] = genAux(rt)
				return "aux", "aux", fmt.Sprintf("replace aux entry %d", i), t
			}
			key := uint64(len(bodies.Items)) // an index no entry uses yet... unless the list is empty
			if len(bodies.Items) > 0 {
				for key = 0; aux.MapGet(key) != nil; key++ {
				}
			}
			aux.Items = append(aux.Items, xcbor.U(key), genAux(rt))
			fix(aux)
			return "aux", "aux", fmt.Sprintf("add aux entry for tx %d", key), t
		case "invalid":
			inv := t.Items[4]
			if len(inv.Items) > 0 && rapid.Bool().Draw(rt, "invDrop") {
				i := pick(len(inv.Items), "invI")
				inv.Items = append(inv.Items[:i:i], inv.Items[i+1:]...)
				fix(inv)
				return "invalid-list", "invalid", fmt.Sprintf("drop invalid index entry %d", i), t
			}
			nb := len(bodies.Items)
			v := uint64(0)
			if nb > 0 {
				v = uint64(pick(nb, "invV"))
			}
			inv.Items = append(inv.Items, xcbor.U(v))
			fix(inv)
			return "invalid-list", "invalid", fmt.Sprintf("add invalid index %d", v), t
		case "body-field":
			if len(bodies.Items) == 0 {
				break
			}
			i := pick(len(bodies.Items), "bfI")
			if fee := bodies.Items[i].MapGet(2); fee != nil && fee.Kind == xcbor.Uint {
				fee.Arg++
				return "value", "bodies", fmt.Sprintf("fee of tx %d + 1", i), t
			}
		}
	case layByron:
		body := t.Items[1]
		pay := body.Items[0]
		switch rapid.SampledFrom([]string{"txs", "pair-extra", "dlg", "upd", "tx-field"}).Draw(rt, "structKind") {
		case "txs":
			d := listEdit(pay, "p")
			fix(pay)
			return "tx-list", "tx-payload", "tx payload " + d, t
		case "pair-extra":
			if len(pay.Items) > 0 {
				i := pick(len(pay.Items), "peI")
				p := pay.Items[i]
				p.Items = append(p.Items, xcbor.B(genBytes(rt, 0, 8, "peBytes")))
				fix(p)
				return "byron-pair-extra-element", "tx-framing", fmt.Sprintf("third element appended to tx pair %d", i), t
			}
		case "dlg":
			d := body.Items[2]
			if d.Kind == xcbor.Array {
				d.Items = append(d.Items, xcbor.A())
				fix(d)
				return "payload", "dlg", "delegation payload: element appended", t
			}
		case "upd":
			u := body.Items[3]
			if u.Kind == xcbor.Array && len(u.Items) == 2 && u.Items[1].Kind == xcbor.Array {
				u.Items[1].Items = append(u.Items[1].Items, xcbor.A())
				fix(u.Items[1])
				return "payload", "upd", "update payload: vote appended", t
			}
		case "tx-field":
			if len(pay.Items) > 0 {
				i := pick(len(pay.Items), "tfI")
				tx := pay.Items[i].Items[0]
				if tx.Kind == xcbor.Array && len(tx.Items) >= 2 && len(tx.Items[1].Items) > 0 {
					o := tx.Items[1].Items[0]
					if o.Kind == xcbor.Array && len(o.Items) == 2 && o.Items[1].Kind == xcbor.Uint {
						o.Items[1].Arg++
						return "value", "tx-body", fmt.Sprintf("amount of output 0 of tx %d + 1", i), t
					}
				}
			}
		}
	case layDijkstra:
		body := t.Items[1]
		switch rapid.SampledFrom([]string{"txs", "invalid", "peras", "tx-part"}).Draw(rt, "structKind") {
		case "txs":
			d := listEdit(body.Items[1], "t")
			fix(body.Items[1])
			return "tx-list", "body", "transactions " + d, t
		case "invalid":
			if n := len(body.Items[1].Items); n > 0 {
				body.Items[0] = xcbor.A(xcbor.U(uint64(pick(n, "invV"))))
				return "invalid-list", "body", "invalid_transactions replaced", t
			}
		case "peras":
			body.Items[3] = xcbor.B(genBytes(rt, 1, 16, "peras"))
			return "payload", "body", "peras certificate replaced", t
		case "tx-part":
			if n := len(body.Items[1].Items); n > 0 {
				tx := body.Items[1].Items[pick(n, "tpI")]
				tx.Items[2] = genAux(rt)
				return "aux", "body", "auxiliary data of a transaction replaced", t
			}
		}
	}
	return "", "", "", nil
}

// restyleIn changes the head form of one node that lies in region reg (the data
// model is unchanged, the bytes are not). Returns nil if no node qualifies.
func restyleIn(rt *rapid.T, base *xcbor.Node, rs []region, reg string) (string, *xcbor.Node) {
	t := base.Clone()
	orig := base.Nodes()
	nodes := t.Nodes()
	var cands []int
	for i, n := range orig {
		if n.Kind == xcbor.Simple {
			continue
		}
		if regionAt(rs, n.Start).Name == reg {
			cands = append(cands, i)
		}
	}
	if len(cands) == 0 {
		return "", nil
	}
	i := cands[rapid.IntRange(0, len(cands)-1).Draw(rt, "restyleNode")]
	n := nodes[i]
	var adm []xcbor.Form
	for _, f := range []xcbor.Form{xcbor.FormMinimal, xcbor.FormW1, xcbor.FormW2, xcbor.FormW4, xcbor.FormW8, xcbor.FormIndef} {
		if canApply(n, f) {
			adm = append(adm, f)
		}
	}
	if len(adm) == 0 {
		return "", nil
	}
	f := adm[rapid.IntRange(0, len(adm)-1).Draw(rt, "restyleForm")]
	chunk := 0
	if f == xcbor.FormIndef && (n.Kind == xcbor.Bytes || n.Kind == xcbor.Text) && len(n.Data) > 1 {
		chunk = rapid.IntRange(1, len(n.Data)).Draw(rt, "chunk")
	}
	applyForm(n, f, chunk)
	return fmt.Sprintf("%s node #%d at byte %d -> %s", n.Kind, i, orig[i].Start, f), t
}

// appendInside appends a copy of the last element to one array that lies in
// region reg (an extra trailing item inside a proof-covered list while every
// earlier byte of the list stays identical apart from the list head).
func appendInside(rt *rapid.T, base *xcbor.Node, rs []region, reg string) (string, *xcbor.Node) {
	t := base.Clone()
	orig := base.Nodes()
	nodes := t.Nodes()
	var cands []int
	for i, n := range orig {
		if n.Kind == xcbor.Array && len(n.Items) > 0 && regionAt(rs, n.Start).Name == reg {
			cands = append(cands, i)
		}
	}
	if len(cands) == 0 {
		return "", nil
	}
	i := cands[rapid.IntRange(0, len(cands)-1).Draw(rt, "appendNode")]
	n := nodes[i]
	n.Items = append(n.Items, n.Items[len(n.Items)-1].Clone())
	if !n.Indef {
		n.Width = 0
	}
	return fmt.Sprintf("array node #%d at byte %d: last element repeated (%d -> %d elements)", i, orig[i].Start, len(n.Items)-1, len(n.Items)), t
}

type c34Base struct {
	Name  string
	Type  uint
	Bytes []byte
	Tree  *xcbor.Node // parse of Bytes
	Regs  []region
	Pos   map[string][]int
	Names []string // region names with at least one byte, in first-appearance order
}

func newC34Base(name string, typ uint, b []byte) *c34Base {
	root := mustParse(b)
	rs := regionsOf(typ, root)
	// paint the owner of every byte (earlier regions win), in O(total region size)
	owner := make([]int32, len(b))
	for i := range owner {
		owner[i] = -1
	}
	for ri := len(rs) - 1; ri >= 0; ri-- {
		for p := max(rs[ri].S, 0); p < rs[ri].E && p < len(b); p++ {
			owner[p] = int32(ri)
		}
	}
	pos := map[string][]int{}
	var names []string
	for p, ri := range owner {
		n := "trailing"
		if ri >= 0 {
			n = rs[ri].Name
		}
		if _, ok := pos[n]; !ok {
			names = append(names, n)
		}
		pos[n] = append(pos[n], p)
	}
	return &c34Base{name, typ, b, root, rs, pos, names}
}

func TestC34(t *testing.T) {
	rec := evi.New(t, "C34", evi.Exploration,
		"bases = every real block (Byron EBB and main, Shelley..Conway, Dijkstra) plus blocks generated from them (0..26 transactions, synthesised witness collections / aux data / invalid lists, header commitment recomputed by the harness); mutations of a base WITHOUT touching the commitment accordingly: (a) one byte xor a non-zero mask at a position drawn per region (header commitment slots, rest of header, each committed body component, Byron framing/ssc/extra), exhaustive over all positions for the small real blocks; (b) a different CBOR head form for one node of a region; (c) structural edits (drop/duplicate/swap/rotate transactions in bodies, witnesses or both, aux entries added/dropped/replaced, invalid-index list edits, fee/amount +1, Byron payload/pair/dlg/upd edits, Dijkstra tx list / invalid set / peras / aux edits); (d) header of one generated block on the body of another; (e) an extra trailing element inside any list of a region; (f) special sizes: components of 255/256/65535/65536 bytes, > 64 KiB, 255/256 transactions, flips at the first/last byte and at the 255/256/65535/65536-byte marks of every hashed region; (g) histories on one shared, overwritten input buffer: tampered-then-genuine, genuine-tampered-genuine, malformed in between, all eras forwards/backwards, and every rapid case decodes its genuine base again after the mutant; a block whose body is exactly what its header commits to must never be rejected with a body-hash error; oracle = whenever NewBlockFromCbor with body validation accepts, the harness recomputes the commitment from the accepted bytes (xcbor ranges + own blake2b/merkle) and it must equal the header's; non-trivial = mutated bytes differ from the base and still decode with validation skipped; distinct by (base, mutation)")
	defer rec.Finish()
	rec.Assume(
		"blake2b from golang.org/x/crypto is trusted; xcbor defines the byte ranges of header fields and body segments",
		"Byron: the commitment is exactly {tx count, merkle root over tx bodies, blake2b256(0x9f ‖ witness lists ‖ 0xff), blake2b256(dlg), blake2b256(upd)}; the ssc payload, the block's extra field and list framing inside the tx payload are outside the claim; a tx payload entry that is not a [tx, witnesses] pair has no defined commitment, so accepting it counts as unbound",
		"bytes after the end of the block item are not part of the block",
	)

	var bases []*c34Base
	// every real block decodes, and the reference commitment agrees with its header
	for _, fx := range fixtures.Blocks() {
		b := newC34Base(fx.Name, fx.Type, fx.Bytes)
		v, err := c34Eval(fx.Type, fx.Bytes)
		rec.Eval()
		if err != nil {
			t.Fatalf("%s: %v", fx.Name, err)
		}
		if !v.Accepted {
			rec.Violation("C34:real-block-rejected:"+fx.Name, fmt.Sprintf("real block %s does not decode with body validation: %s", fx.Name, v.Err), map[string]any{"block": fx.Name})
			continue
		}
		if !v.Bound {
			rec.Violation("C34:reference-disagrees-on-real-block:"+fx.Name, fmt.Sprintf("harness reference commitment differs from the header of real block %s: %s", fx.Name, v.Why), map[string]any{"block": fx.Name})
			continue
		}
		if !bytes.Equal(b.Tree.Encode(), fx.Bytes) {
			t.Fatalf("harness: xcbor does not round-trip %s", fx.Name)
		}
		rec.Class("real_block_accepted")
		bases = append(bases, b)
	}

	// the configuration mutants are decoded under (default outside the rapid
	// phase; each rapid case draws one of the 16 binding-preserving combinations)
	combos := cfgCombos()
	cfgNow := combos[0]
	judge := func(fail func(key, what string, cs any) bool, b *c34Base, m mutation) {
		if bytes.Equal(m.Bytes, b.Bytes) {
			rec.Class("mutation_was_identity")
			return
		}
		m.Desc += " [config " + cfgNow.Name + "]"
		v, err := c34EvalCfg(b.Type, m.Bytes, cfgNow.Cfg)
		rec.Eval()
		if err != nil {
			fail("C34:harness:"+err.Error(), err.Error(), map[string]any{"base": b.Name, "mutation": m.Desc, "block_hex": evi.Hex(m.Bytes)})
			return
		}
		lay := layoutOf(b.Type)
		rec.Class("family_" + m.Family)
		rec.Class("region_" + lay + "_" + m.Region)
		if v.Structural {
			rec.Class("still_decodes_structurally")
			rec.Class("still_decodes_" + m.Family)
			rec.NonTrivial(b.Name+" | "+m.Family+" | "+m.Desc, map[string]any{"base": b.Name, "family": m.Family, "region": m.Region, "mutation": m.Desc, "accepted_with_validation": v.Accepted})
		} else {
			rec.Class("malformed_after_mutation")
		}
		if !v.Accepted {
			rec.Class("rejected")
			return
		}
		rec.Class("accepted_with_validation")
		rec.Class("accepted_" + lay + "_" + m.Region)
		if v.Bound {
			// legitimately accepted: the mutation did not touch committed bytes
			return
		}
		fail(fmt.Sprintf("C34:%s:type%d:%s:%s", lay, b.Type, m.Family, m.Region),
			fmt.Sprintf("%s block (type %d, base %s) decodes with body validation although its body is not what the header commits to: %s; mutation: %s in region %s: %s", lay, b.Type, b.Name, v.Why, m.Family, m.Region, m.Desc),
			map[string]any{"base": b.Name, "type": b.Type, "family": m.Family, "region": m.Region, "mutation": m.Desc, "block_hex": evi.Hex(m.Bytes), "block_len": len(m.Bytes)})
	}

	// genuine evaluates a block whose header commits to exactly its body (a real
	// block, or a generated one whose commitment the harness computed): it must
	// be accepted now and whenever it is decoded again, whatever was decoded in
	// between. A rejection is reported only when it is a body-hash / body-proof
	// mismatch of bytes that decode structurally and that the reference finds
	// bound (so a shape the decoder refuses for other reasons is never flagged).
	genuine := func(fail func(key, what string, cs any) bool, b *c34Base, when string) bool {
		v, err := c34Eval(b.Type, b.Bytes)
		rec.Eval()
		if err != nil {
			fail("C34:harness:"+err.Error(), err.Error(), map[string]any{"base": b.Name})
			return false
		}
		if v.Accepted {
			if !v.Bound {
				fail("C34:harness:genuine-block-not-bound", "harness: a block the harness committed is not bound by its own reference: "+v.Why, map[string]any{"base": b.Name})
			}
			return true
		}
		if v.Structural && v.HashErr {
			root, _, perr := xcbor.Parse(b.Bytes)
			if perr == nil {
				if ok, _ := headerMatches(b.Type, root, bodyCommitmentOf(b.Type, root, b.Bytes)); ok {
					fail(fmt.Sprintf("C34:%s:type%d:bound-block-rejected:%s", layoutOf(b.Type), b.Type, when),
						fmt.Sprintf("%s block (type %d, %s) whose body is exactly what its header commits to is rejected with a body-hash error (%s): %s", layoutOf(b.Type), b.Type, b.Name, when, v.Err),
						map[string]any{"base": b.Name, "type": b.Type, "when": when, "block_hex": evi.Hex(b.Bytes), "block_len": len(b.Bytes)})
				}
			}
		}
		return false
	}

	// ---- explicit histories on one shared input buffer -----------------------------------
	// per real block G: T1 = same header, one hashed container re-encoded (body
	// bytes differ), T2 = same body, one bit of the header's commitment flipped,
	// M = truncated. Orders: T1 G T1 T2 G M G per block, then all G forwards, all
	// T1, all G backwards (cross-era). G must be accepted and T1/T2/M rejected at
	// every position.
	{
		viol := func(key, what string, cs any) bool { return rec.Violation(key, what, cs) }
		type trio struct {
			g         *c34Base
			t1, t2, m *mutation
		}
		var trios []trio
		for _, b := range bases {
			tr := trio{g: b}
			// T1: first restylable array/map node in a committed region
			nodes := b.Tree.Nodes()
			for i, n := range nodes {
				if (n.Kind == xcbor.Array || n.Kind == xcbor.Map) && regionAt(b.Regs, n.Start).Committed && canApply(n, xcbor.FormW2) {
					c := b.Tree.Clone()
					applyForm(c.Nodes()[i], xcbor.FormW2, 0)
					tr.t1 = &mutation{"history-same-header-other-body", regionAt(b.Regs, n.Start).Name, fmt.Sprintf("%s node #%d -> w2", n.Kind, i), c.Encode()}
					break
				}
			}
			if ps := b.Pos["header-commitment"]; len(ps) > 0 {
				mb := append([]byte(nil), b.Bytes...)
				mb[ps[len(ps)-1]] ^= 0x01
				tr.t2 = &mutation{"history-same-body-other-header", "header-commitment", fmt.Sprintf("byte %d ^= 0x01", ps[len(ps)-1]), mb}
			}
			tr.m = &mutation{"history-truncated", "block-framing", "last third cut off", append([]byte(nil), b.Bytes[:len(b.Bytes)*2/3]...)}
			trios = append(trios, tr)
		}
		step := func(tr trio, what byte, pos string) {
			switch what {
			case 'G':
				if !genuine(viol, tr.g, pos) {
					rec.Violation(fmt.Sprintf("C34:%s:type%d:history:real-block-rejected", layoutOf(tr.g.Type), tr.g.Type),
						fmt.Sprintf("real block %s is rejected %s", tr.g.Name, pos), map[string]any{"block": tr.g.Name, "when": pos})
				}
			case '1':
				if tr.t1 != nil {
					judge(viol, tr.g, *tr.t1)
				}
			case '2':
				if tr.t2 != nil {
					judge(viol, tr.g, *tr.t2)
				}
			case 'M':
				judge(viol, tr.g, *tr.m)
			}
		}
		for _, tr := range trios {
			if tr.g.Type == fixtures.TypeByronEbb && !rec.Thorough() {
				for _, w := range "1G2G" { // the 650 KB block: a shorter sequence
					step(tr, byte(w), "after a tampered sibling")
				}
				continue
			}
			for _, w := range "1G12GMG" {
				step(tr, byte(w), "after tampered / malformed siblings")
			}
		}
		small := trios
		if !rec.Thorough() {
			small = nil
			for _, tr := range trios {
				if tr.g.Type != fixtures.TypeByronEbb {
					small = append(small, tr)
				}
			}
		}
		for _, tr := range small {
			step(tr, 'G', "in a run of genuine blocks of all eras")
		}
		for _, tr := range small {
			step(tr, '1', "")
		}
		for i := len(small) - 1; i >= 0; i-- {
			step(small[i], 'G', "after the tampered siblings of all eras")
		}
	}

	// ---- special sizes: components of 255/256/65535/65536 bytes, >= 64 KiB by repetition,
	// 255/256 transactions: the genuine block must be accepted, and a flip at the first
	// byte, the last byte and at the 255/256/65535/65536-byte marks of every hashed region
	// must be rejected
	{
		viol := func(key, what string, cs any) bool { return rec.Violation(key, what, cs) }
		var special []*c34Base
		add := func(name string, tp *template, tree *xcbor.Node) {
			if tree == nil {
				return
			}
			if err := recommit(tp.Type, tree); err != nil {
				return
			}
			special = append(special, newC34Base(name, tp.Type, tree.Encode()))
		}
		for _, name := range []string{"byron_main", "conway", "dijkstra"} {
			tp := templateByName(name)
			for _, which := range []string{"body", "witness", "aux"} {
				for _, size := range []int{255, 256, 65535, 65536} {
					add(fmt.Sprintf("%s-gen-%s-of-%d-bytes", name, which, size), tp, sizedBlock(tp, which, size))
				}
			}
		}
		for _, name := range []string{"shelley", "mary"} {
			tp := templateByName(name)
			for _, which := range []string{"body", "witness"} {
				add(fmt.Sprintf("%s-gen-%s-over-64KiB", name, which), tp, hugeBlock(tp, which))
			}
		}
		for _, name := range []string{"byron_main", "mary", "dijkstra"} {
			tp := templateByName(name)
			for _, n := range []int{255, 256} {
				add(fmt.Sprintf("%s-gen-%dtx", name, n), tp, bigBlock(tp, n, 0, 0, 0))
			}
		}
		nSpecial := 0
		for _, b := range special {
			if !genuine(viol, b, "special-size block") {
				rec.Class("special_base_not_accepted")
				continue
			}
			rec.Class("special_base_accepted")
			// hashed regions: the first two, the last two and the largest (a Byron
			// block has two per transaction)
			var com []region
			for _, r := range b.Regs {
				if r.Committed {
					com = append(com, r)
				}
			}
			pick := com
			if len(com) > 5 {
				big := com[0]
				for _, r := range com {
					if r.E-r.S > big.E-big.S {
						big = r
					}
				}
				pick = []region{com[0], com[1], big, com[len(com)-2], com[len(com)-1]}
			}
			for _, r := range pick {
				for _, p := range []int{r.S, r.S + 255, r.S + 256, r.S + 65535, r.S + 65536, r.E - 1} {
					if p < r.S || p >= r.E || regionAt(b.Regs, p).Name != r.Name {
						continue
					}
					mb := append([]byte(nil), b.Bytes...)
					mb[p] ^= 0x01
					judge(viol, b, mutation{"byte-flip-at-size-mark", r.Name, fmt.Sprintf("byte %d (region offset %d of %d) ^= 0x01", p, p-r.S, r.E-r.S), mb})
					nSpecial++
				}
			}
		}
		rec.SetExtra("n_special_size_flips", nSpecial)
	}

	// ---- every combination of the verification knobs that keep the binding on ------------
	// For each real block and each of the 16 configurations: the genuine block is
	// accepted; for every hashed component (first region of each name) and the
	// header's commitment, a head-form change of its first container, a flip of
	// its last byte and a flip in its middle must be rejected (accepted => bound).
	// The ssc payload is mutated too but only counted (see below).
	{
		viol := func(key, what string, cs any) bool { return rec.Violation(key, what, cs) }
		nCfg := 0
		for _, b := range bases {
			if b.Type == fixtures.TypeByronEbb && !rec.Thorough() {
				continue
			}
			lay := layoutOf(b.Type)
			// one region per name
			var regs []region
			seen := map[string]bool{}
			for _, r := range b.Regs {
				if (r.Committed || r.Name == "header-commitment" || r.Name == "ssc") && !seen[r.Name] && r.E > r.S {
					seen[r.Name] = true
					regs = append(regs, r)
				}
			}
			var muts []mutation
			nodes := b.Tree.Nodes()
			for _, r := range regs {
				for i, n := range nodes {
					if n.Start >= r.S && n.Start < r.E && (n.Kind == xcbor.Array || n.Kind == xcbor.Map || n.Kind == xcbor.Bytes) && regionAt(b.Regs, n.Start).Name == r.Name && canApply(n, xcbor.FormW2) {
						c := b.Tree.Clone()
						applyForm(c.Nodes()[i], xcbor.FormW2, 0)
						muts = append(muts, mutation{"restyle", r.Name, fmt.Sprintf("%s node #%d -> w2", n.Kind, i), c.Encode()})
						break
					}
				}
				for _, p := range []int{r.E - 1, (r.S + r.E) / 2} {
					if regionAt(b.Regs, p).Name != r.Name {
						continue
					}
					mb := append([]byte(nil), b.Bytes...)
					mb[p] ^= 0x01
					muts = append(muts, mutation{"byte-flip", r.Name, fmt.Sprintf("byte %d ^= 0x01", p), mb})
				}
			}
			for _, cc := range cfgCombos() {
				gv, err := c34EvalCfg(b.Type, b.Bytes, cc.Cfg)
				rec.Eval()
				nCfg++
				if err != nil {
					continue
				}
				if !gv.Accepted {
					if cc.Cfg.EnableByronSscProofHashValidation {
						rec.Class("real_block_rejected_under_opt_in_ssc_hash_validation")
					} else {
						rec.Violation(fmt.Sprintf("C34:%s:type%d:config[%s]:real-block-rejected", lay, b.Type, cc.Name),
							fmt.Sprintf("real block %s is rejected under configuration %s: %s", b.Name, cc.Name, gv.Err), map[string]any{"block": b.Name, "config": cc.Name})
					}
					continue
				}
				rec.Class("real_block_accepted_under_" + cc.Name)
				for _, m := range muts {
					v, err := c34EvalCfg(b.Type, m.Bytes, cc.Cfg)
					rec.Eval()
					nCfg++
					if err != nil || !v.Accepted {
						continue
					}
					unbound := !v.Bound
					why := v.Why
					if m.Region == "ssc" {
						// outside the claim without the opt-in; with it the library hashes a
						// normalised form of the payload (a head-form change inside it is
						// accepted on the unchanged tree, like Byron list framing), for
						// which the harness has no reference: counted, not judged
						if cc.Cfg.EnableByronSscProofHashValidation {
							rec.Class("ssc_mutation_accepted_with_opt_in(" + m.Family + ", not judged)")
						} else {
							rec.Class("ssc_mutation_accepted_without_opt_in(outside the claim)")
						}
					}
					if unbound {
						viol(fmt.Sprintf("C34:%s:type%d:config[%s]:%s:%s", lay, b.Type, cc.Name, m.Family, m.Region),
							fmt.Sprintf("%s block (type %d, base %s) decodes under configuration %s although its body is not what the header commits to: %s; mutation: %s in region %s: %s", lay, b.Type, b.Name, cc.Name, why, m.Family, m.Region, m.Desc),
							map[string]any{"base": b.Name, "type": b.Type, "config": cc.Name, "family": m.Family, "region": m.Region, "mutation": m.Desc, "block_hex": evi.Hex(m.Bytes)})
					} else {
						rec.Class("config_sweep_accepted_and_bound_" + m.Region)
					}
				}
			}
		}
		rec.SetExtra("n_config_sweep_evaluations", nCfg)
	}

	// ---- header of one real block on the body of another real block of the same type ----
	for _, a := range bases {
		for _, b := range bases {
			if a == b || a.Type != b.Type {
				continue
			}
			tr := b.Tree.Clone()
			tr.Items[0] = a.Tree.Items[0].Clone()
			judge(func(key, what string, cs any) bool { return rec.Violation(key, what, cs) }, b,
				mutation{"transplant", "whole-body", "header of real block " + a.Name + " on the body of " + b.Name, tr.Encode()})
		}
	}

	// ---- exhaustive single-byte sweep over the small real blocks ----------------------
	limit := rec.Pick(2000, 9000)
	masks := []byte{0x01, 0x80}
	if rec.Thorough() {
		// two masks per shard, derived from the shard's seed (the driver runs
		// shards with seeds S, S+1, …), so the shards cover different masks
		sd := uint64(rec.Seed())
		masks = []byte{byte(1) << (sd % 8), byte((sd*37+11)%254) + 2}
	}
	rec.SetExtra("exhaustive_flip_masks", fmt.Sprintf("%#02x", masks))
	swept := 0
	for _, b := range bases {
		if len(b.Bytes) > limit {
			continue
		}
		for p := range b.Bytes {
			for _, mk := range masks {
				mb := append([]byte(nil), b.Bytes...)
				mb[p] ^= mk
				judge(func(key, what string, cs any) bool { return rec.Violation(key, what, cs) }, b,
					mutation{"byte-flip", regionAt(b.Regs, p).Name, fmt.Sprintf("byte %d ^= %#02x", p, mk), mb})
				swept++
			}
		}
		rec.Class("exhaustively_flipped_block_" + b.Name)
	}
	rec.SetExtra("n_exhaustive_flips", swept)

	// ---- generated search ----------------------------------------------------------------
	tps := templates()
	rec.Check(func(rt *rapid.T) {
		var b *c34Base
		var other *c34Base // a second block of the same era for transplants
		if rapid.IntRange(0, 2).Draw(rt, "useFixture") == 0 {
			b = bases[rapid.IntRange(0, len(bases)-1).Draw(rt, "fixture")]
			if b.Type == fixtures.TypeByronEbb && rapid.IntRange(0, 3).Draw(rt, "ebbThin") != 0 {
				b = bases[0] // the 650 KB EBB is expensive; sample it less often
			}
			rec.Class("base_real")
		} else {
			tp := tps[rapid.IntRange(0, len(tps)-1).Draw(rt, "template")]
			mk := func() *c34Base {
				big := rapid.IntRange(0, 39).Draw(rt, "bigBlock") == 0 // 254..258 transactions now and then
				tree, info := genBlock(rt, tp, big)
				if err := recommit(tp.Type, tree); err != nil {
					rt.Fatalf("harness: %v", err)
				}
				return newC34Base("gen:"+info.String(), tp.Type, tree.Encode())
			}
			b = mk()
			rec.Class("base_generated")
			if !genuine(func(key, what string, cs any) bool { return rec.Fail(rt, key, what, cs) }, b, "first decode of a generated block") {
				rec.Class("generated_base_not_accepted")
				return
			}
			if rapid.IntRange(0, 5).Draw(rt, "transplant") == 0 {
				other = mk()
			}
		}
		lay := layoutOf(b.Type)
		rec.Class("layout_" + lay)
		fail := func(key, what string, cs any) bool { return rec.Fail(rt, key, what, cs) }
		cfgNow = combos[rapid.IntRange(0, len(combos)-1).Draw(rt, "config")]
		defer func() { cfgNow = combos[0] }()
		if cfgNow.Cfg.EnableByronSscProofHashValidation {
			rec.Class("rapid_case_with_byron_ssc_hash_validation")
		}
		// history: the genuine base is decoded again after its mutant (G T G); it
		// was accepted before, so it must be accepted again
		again := func() {
			if b.Type == fixtures.TypeByronEbb {
				return
			}
			if !genuine(fail, b, "again after its mutant") {
				rec.Fail(rt, fmt.Sprintf("C34:%s:type%d:history:verdict-changed", lay, b.Type),
					fmt.Sprintf("%s block %s was accepted, then a mutant of it was decoded, now the same bytes are rejected", lay, b.Name),
					map[string]any{"base": b.Name, "type": b.Type, "block_hex": evi.Hex(b.Bytes)})
			}
		}
		func() {
			if other != nil {
				// header of b, everything else of other
				t1, t2 := b.Tree.Clone(), other.Tree.Clone()
				t2.Items[0] = t1.Items[0]
				judge(fail, b, mutation{"transplant", "whole-body", "header of one generated block, body of another (" + other.Name + ")", t2.Encode()})
				return
			}
			switch rapid.IntRange(0, 9).Draw(rt, "family") {
			case 0, 1, 2, 3: // byte flip in a drawn region
				reg := b.Names[rapid.IntRange(0, len(b.Names)-1).Draw(rt, "region")]
				ps := b.Pos[reg]
				p := ps[rapid.IntRange(0, len(ps)-1).Draw(rt, "pos")]
				if rapid.IntRange(0, 3).Draw(rt, "edgePos") == 0 { // first / last bytes and size marks of the region
					marks := []int{0, 1, 23, 24, 255, 256, 65535, 65536, len(ps) - 2, len(ps) - 1}
					if k := marks[rapid.IntRange(0, len(marks)-1).Draw(rt, "mark")]; k >= 0 && k < len(ps) {
						p = ps[k]
					}
				}
				mk := byte(rapid.IntRange(1, 255).Draw(rt, "mask"))
				mb := append([]byte(nil), b.Bytes...)
				mb[p] ^= mk
				if rapid.IntRange(0, 19).Draw(rt, "alsoTrailing") == 0 {
					mb = append(mb, genBytes(rt, 1, 4, "trailing")...)
				}
				judge(fail, b, mutation{"byte-flip", reg, fmt.Sprintf("byte %d ^= %#02x (block now %d bytes)", p, mk, len(mb)), mb})
			case 4: // an extra trailing element inside a list of a drawn region
				reg := b.Names[rapid.IntRange(0, len(b.Names)-1).Draw(rt, "region")]
				d, tree := appendInside(rt, b.Tree, b.Regs, reg)
				if tree == nil {
					rec.Class("no_array_in_region")
					return
				}
				judge(fail, b, mutation{"append-inside", reg, d, tree.Encode()})
			case 5, 6: // head form of a node in a drawn region
				reg := b.Names[rapid.IntRange(0, len(b.Names)-1).Draw(rt, "region")]
				d, tree := restyleIn(rt, b.Tree, b.Regs, reg)
				if tree == nil {
					rec.Class("no_restylable_node_in_region")
					return
				}
				judge(fail, b, mutation{"restyle", reg, d, tree.Encode()})
			default:
				fam, reg, d, tree := genStructural(rt, b.Type, b.Tree)
				if tree == nil {
					rec.Class("no_structural_edit_applicable")
					return
				}
				judge(fail, b, mutation{fam, reg, d, tree.Encode()})
			}
		}()
		again()
	})
}
