package offsets

import (
	"fmt"
	"testing"

	"verif/harness/internal/fixtures"
	"verif/harness/internal/xcbor"
)

func TestProbe(t *testing.T) {
	for _, fx := range fixtures.Blocks() {
		root, err := xcbor.ParseExact(fx.Bytes)
		if err != nil {
			t.Fatalf("%s: %v", fx.Name, err)
		}
		c := bodyCommitment(fx.Type, root)
		ok, why := headerMatches(fx.Type, root, c)
		m, err := buildModel(fx.Type, root)
		nr := 0
		if err == nil {
			nr = len(m.roles())
		}
		fmt.Printf("%s: commit ok=%v %s model err=%v roles=%d\n", fx.Name, ok, why, err, nr)
	}
}
