package offsets

import (
	"fmt"
	"reflect"

	"github.com/blinklabs-io/gouroboros/ledger/common"
)

// Purity / history independence (C07 and C34): the offset table and the
// decode verdict of a block must be a function of the block bytes only. Every
// library call of the two checks is made on ONE process-wide input buffer (as
// a caller with a single read buffer would do); the buffer is overwritten as
// soon as the call has returned, and results are compared with what the same
// bytes give from a private copy, with what they gave earlier in the process,
// and with themselves after later calls have run.

var scratch []byte

// viaScratch copies b into the shared input buffer and returns that view.
func viaScratch(b []byte) []byte {
	if cap(scratch) < len(b) {
		scratch = make([]byte, len(b)+len(b)/2+64)
	}
	s := scratch[:len(b)]
	copy(s, b)
	return s
}

// clobber overwrites a buffer the library has been given, after the call.
func clobber(s []byte) {
	for i := range s {
		s[i] = 0xa5
	}
}

func copyOffsets(o *common.BlockTransactionOffsets) *common.BlockTransactionOffsets {
	if o == nil {
		return nil
	}
	c := &common.BlockTransactionOffsets{}
	if o.Transactions != nil {
		c.Transactions = make([]common.TransactionLocation, len(o.Transactions))
	}
	for i, l := range o.Transactions {
		n := l
		if l.Outputs != nil {
			n.Outputs = append([]common.ByteRange{}, l.Outputs...)
		}
		if l.Datums != nil {
			n.Datums = make(map[common.Blake2b256]common.ByteRange, len(l.Datums))
			for k, v := range l.Datums {
				n.Datums[k] = v
			}
		}
		if l.Redeemers != nil {
			n.Redeemers = make(map[common.RedeemerKey]common.ByteRange, len(l.Redeemers))
			for k, v := range l.Redeemers {
				n.Redeemers[k] = v
			}
		}
		if l.Scripts != nil {
			n.Scripts = make(map[common.ScriptHash]common.ByteRange, len(l.Scripts))
			for k, v := range l.Scripts {
				n.Scripts[k] = v
			}
		}
		c.Transactions[i] = n
	}
	return c
}

// sameOffsets compares two tables by content (nil and empty collections are
// the same: both mean "nothing reported").
func sameOffsets(a, b *common.BlockTransactionOffsets) string {
	if (a == nil) != (b == nil) {
		return fmt.Sprintf("one table is nil (%v / %v)", a == nil, b == nil)
	}
	if a == nil {
		return ""
	}
	if len(a.Transactions) != len(b.Transactions) {
		return fmt.Sprintf("%d vs %d transaction locations", len(a.Transactions), len(b.Transactions))
	}
	for i := range a.Transactions {
		x, y := a.Transactions[i], b.Transactions[i]
		if x.Body != y.Body || x.Witness != y.Witness || x.Metadata != y.Metadata {
			return fmt.Sprintf("tx %d: body/witness/metadata %v %v %v vs %v %v %v", i, x.Body, x.Witness, x.Metadata, y.Body, y.Witness, y.Metadata)
		}
		if len(x.Outputs) != len(y.Outputs) || (len(x.Outputs) > 0 && !reflect.DeepEqual(x.Outputs, y.Outputs)) {
			return fmt.Sprintf("tx %d: outputs differ", i)
		}
		if len(x.Datums) != len(y.Datums) || (len(x.Datums) > 0 && !reflect.DeepEqual(x.Datums, y.Datums)) {
			return fmt.Sprintf("tx %d: datums differ", i)
		}
		if len(x.Redeemers) != len(y.Redeemers) || (len(x.Redeemers) > 0 && !reflect.DeepEqual(x.Redeemers, y.Redeemers)) {
			return fmt.Sprintf("tx %d: redeemers differ", i)
		}
		if len(x.Scripts) != len(y.Scripts) || (len(x.Scripts) > 0 && !reflect.DeepEqual(x.Scripts, y.Scripts)) {
			return fmt.Sprintf("tx %d: scripts differ", i)
		}
	}
	return ""
}

// heldResult is a table returned earlier that must not change while later
// calls run (no storage shared between results).
type heldResult struct {
	API, What string
	Live      *common.BlockTransactionOffsets
	Snap      *common.BlockTransactionOffsets
}

var held []heldResult

// holdResult remembers a returned table (a few at a time).
func holdResult(api, what string, o *common.BlockTransactionOffsets) {
	if o == nil {
		return
	}
	if len(held) >= 4 {
		held = held[1:]
	}
	held = append(held, heldResult{api, what, o, copyOffsets(o)})
}

// heldChanged reports the first earlier result that no longer equals the copy
// taken when it was returned.
func heldChanged() string {
	for _, h := range held {
		if d := sameOffsets(h.Live, h.Snap); d != "" {
			return fmt.Sprintf("table returned by %s for %s changed while later calls ran: %s", h.API, h.What, d)
		}
	}
	return ""
}
