// Package offsets holds the checks for C07 (transaction byte offsets) and C34
// (block bodies bound to their headers). This file is the harness's own
// description of the three block layouts, written from the era CDDLs:
//
//	byron main:   [header, [tx_payload, ssc, dlg, upd], extra]
//	              tx_payload = [* [tx, [* witness]]], tx = [inputs, outputs, attrs]
//	shelley-like: [header, [* body], [* witness_set], {* idx => aux}, ?[* invalid_idx]]
//	dijkstra:     [header, [invalid/nil, [* [body, witness_set, aux/nil]], leios/nil, peras/nil]]
//
// Everything here is computed on an xcbor tree; nothing is taken from the
// library under test.
package offsets

import (
	"errors"
	"fmt"

	"verif/harness/internal/fixtures"
	"verif/harness/internal/xcbor"
)

const (
	layByron    = "byron"
	layShelley  = "shelley-like"
	layDijkstra = "dijkstra"
	layEBB      = "byron-ebb"
)

func layoutOf(typ uint) string {
	switch typ {
	case fixtures.TypeByronEbb:
		return layEBB
	case fixtures.TypeByronMain:
		return layByron
	case fixtures.TypeDijkstra:
		return layDijkstra
	}
	return layShelley
}

// segmentCount is the number of top-level body segments of a shelley-like era.
func segmentCount(typ uint) int {
	if typ >= fixtures.TypeAlonzo {
		return 4
	}
	return 3
}

// Script language prefixes (the byte that is hashed in front of the script).
const (
	langNative = 0
	langV1     = 1
	langV2     = 2
	langV3     = 3
	langV4     = 4
)

var witKeyLang = map[uint64]byte{1: langNative, 3: langV1, 6: langV2, 7: langV3, 8: langV4}

type redKey struct{ Tag, Idx uint64 }

type scriptItem struct {
	Lang byte
	N    *xcbor.Node
}

// txModel points at the component nodes of one transaction.
type txModel struct {
	Body, Wit, Aux *xcbor.Node   // Aux nil when the tx has none
	AuxAll         []*xcbor.Node // every aux-map entry keyed with the tx index (more than one only for a duplicated key)
	HasOutputs     bool
	Outputs        []*xcbor.Node
	Datums         []*xcbor.Node
	Redeemers      map[redKey][]*xcbor.Node // data item(s) per key (duplicates possible)
	Scripts        []scriptItem
}

type blockModel struct {
	Layout string
	Type   uint
	Root   *xcbor.Node
	Txs    []txModel
}

func unwrapSet(n *xcbor.Node) *xcbor.Node {
	if n != nil && n.Kind == xcbor.Tag && n.Arg == 258 && len(n.Items) == 1 {
		return n.Items[0]
	}
	return n
}

func isNull(n *xcbor.Node) bool {
	return n.Kind == xcbor.Simple && n.Width == 0 && n.Arg == 22
}

// fillShelleyTx fills outputs and witness components of a map-bodied tx.
func fillShelleyTx(tx *txModel) {
	if tx.Body != nil && tx.Body.Kind == xcbor.Map {
		if outs := tx.Body.MapGet(1); outs != nil && outs.Kind == xcbor.Array {
			tx.HasOutputs = true
			tx.Outputs = outs.Items
		}
	}
	tx.Redeemers = map[redKey][]*xcbor.Node{}
	w := tx.Wit
	if w == nil || w.Kind != xcbor.Map {
		return
	}
	for i := 0; i+1 < len(w.Items); i += 2 {
		k, v := w.Items[i], w.Items[i+1]
		if k.Kind != xcbor.Uint {
			continue
		}
		switch k.Arg {
		case 1, 3, 6, 7, 8:
			arr := unwrapSet(v)
			if arr.Kind == xcbor.Array {
				for _, it := range arr.Items {
					tx.Scripts = append(tx.Scripts, scriptItem{witKeyLang[k.Arg], it})
				}
			}
		case 4:
			arr := unwrapSet(v)
			if arr.Kind == xcbor.Array {
				tx.Datums = append(tx.Datums, arr.Items...)
			}
		case 5:
			switch v.Kind {
			case xcbor.Array: // [[tag, index, data, exunits], ...]
				for _, e := range v.Items {
					if e.Kind == xcbor.Array && len(e.Items) >= 3 && e.Items[0].Kind == xcbor.Uint && e.Items[1].Kind == xcbor.Uint {
						rk := redKey{e.Items[0].Arg, e.Items[1].Arg}
						tx.Redeemers[rk] = append(tx.Redeemers[rk], e.Items[2])
					}
				}
			case xcbor.Map: // {[tag, index] => [data, exunits]}
				for j := 0; j+1 < len(v.Items); j += 2 {
					kk, vv := v.Items[j], v.Items[j+1]
					if kk.Kind == xcbor.Array && len(kk.Items) == 2 && kk.Items[0].Kind == xcbor.Uint && kk.Items[1].Kind == xcbor.Uint &&
						vv.Kind == xcbor.Array && len(vv.Items) >= 1 {
						rk := redKey{kk.Items[0].Arg, kk.Items[1].Arg}
						tx.Redeemers[rk] = append(tx.Redeemers[rk], vv.Items[0])
					}
				}
			}
		}
	}
}

var errShape = errors.New("block does not have the era's shape")

// buildModel describes the block tree (any tree: parsed, so that Start/End are
// valid, or built).
func buildModel(typ uint, root *xcbor.Node) (*blockModel, error) {
	m := &blockModel{Layout: layoutOf(typ), Type: typ, Root: root}
	if root.Kind != xcbor.Array {
		return nil, errShape
	}
	switch m.Layout {
	case layEBB:
		if len(root.Items) < 2 {
			return nil, errShape
		}
	case layByron:
		if len(root.Items) != 3 || root.Items[1].Kind != xcbor.Array || len(root.Items[1].Items) != 4 {
			return nil, errShape
		}
		pay := root.Items[1].Items[0]
		if pay.Kind != xcbor.Array {
			return nil, errShape
		}
		for _, pair := range pay.Items {
			if pair.Kind != xcbor.Array || len(pair.Items) != 2 {
				return nil, fmt.Errorf("%w: tx pair has %d elements", errShape, len(pair.Items))
			}
			tx := txModel{Body: pair.Items[0], Wit: pair.Items[1], Redeemers: map[redKey][]*xcbor.Node{}}
			if tx.Body.Kind == xcbor.Array && len(tx.Body.Items) >= 2 && tx.Body.Items[1].Kind == xcbor.Array {
				tx.HasOutputs = true
				tx.Outputs = tx.Body.Items[1].Items
			}
			m.Txs = append(m.Txs, tx)
		}
	case layShelley:
		want := segmentCount(typ) + 1
		if len(root.Items) != want {
			return nil, fmt.Errorf("%w: %d top-level items, want %d", errShape, len(root.Items), want)
		}
		bodies, wits, aux := root.Items[1], root.Items[2], root.Items[3]
		if bodies.Kind != xcbor.Array || wits.Kind != xcbor.Array || aux.Kind != xcbor.Map || len(bodies.Items) != len(wits.Items) {
			return nil, errShape
		}
		for i := range bodies.Items {
			tx := txModel{Body: bodies.Items[i], Wit: wits.Items[i]}
			// the last entry wins for a duplicated key, as in a map decoder;
			// generated blocks never contain duplicates
			tx.Aux = aux.MapGet(uint64(i))
			for j := 0; j+1 < len(aux.Items); j += 2 {
				if k := aux.Items[j]; k.Kind == xcbor.Uint && k.Arg == uint64(i) {
					tx.AuxAll = append(tx.AuxAll, aux.Items[j+1])
				}
			}
			fillShelleyTx(&tx)
			m.Txs = append(m.Txs, tx)
		}
	case layDijkstra:
		if len(root.Items) != 2 || root.Items[1].Kind != xcbor.Array || len(root.Items[1].Items) != 4 {
			return nil, errShape
		}
		txs := root.Items[1].Items[1]
		if txs.Kind != xcbor.Array {
			return nil, errShape
		}
		for _, t := range txs.Items {
			if t.Kind != xcbor.Array || len(t.Items) != 3 {
				return nil, errShape
			}
			tx := txModel{Body: t.Items[0], Wit: t.Items[1]}
			if !isNull(t.Items[2]) {
				tx.Aux = t.Items[2]
			}
			fillShelleyTx(&tx)
			m.Txs = append(m.Txs, tx)
		}
	}
	return m, nil
}

// ---- container roles --------------------------------------------------------

// roleRef names one container (or item) of the block by the role it plays for
// the offset code.
type roleRef struct {
	Role string
	N    *xcbor.Node
	Tx   int // -1 when not inside a transaction
}

func sizeClass(n *xcbor.Node) string {
	c := 0
	switch n.Kind {
	case xcbor.Array:
		c = len(n.Items)
	case xcbor.Map:
		c = len(n.Items) / 2
	default:
		return ""
	}
	switch {
	case c >= 256:
		return "ge256"
	case c >= 24:
		return "ge24"
	}
	return ""
}

func txRoles(out []roleRef, i int, tx *txModel, shelleyBody bool) []roleRef {
	add := func(role string, n *xcbor.Node) {
		if n != nil {
			out = append(out, roleRef{role, n, i})
		}
	}
	if shelleyBody {
		add("body-map", tx.Body)
		if tx.Body.Kind == xcbor.Map {
			for j := 0; j+1 < len(tx.Body.Items); j += 2 {
				add("body-key", tx.Body.Items[j])
			}
			if tx.HasOutputs {
				add("outputs-array", tx.Body.MapGet(1))
			}
		}
	} else {
		add("tx-body", tx.Body)
		if tx.Body.Kind == xcbor.Array && len(tx.Body.Items) >= 2 {
			add("inputs-array", tx.Body.Items[0])
			add("outputs-array", tx.Body.Items[1])
		}
	}
	for _, o := range tx.Outputs {
		add("output", o)
	}
	if !shelleyBody {
		add("tx-witnesses", tx.Wit)
		return out
	}
	add("witness-map", tx.Wit)
	if tx.Wit.Kind == xcbor.Map {
		for j := 0; j+1 < len(tx.Wit.Items); j += 2 {
			k, v := tx.Wit.Items[j], tx.Wit.Items[j+1]
			add("witness-key", k)
			if k.Kind != xcbor.Uint {
				continue
			}
			arr := unwrapSet(v)
			switch k.Arg {
			case 1:
				add("native-scripts-array", arr)
				for _, it := range arr.Items {
					add("native-script-item", it)
				}
			case 3, 6, 7, 8:
				add("plutus-scripts-array", arr)
				for _, it := range arr.Items {
					add("plutus-script-item", it)
				}
			case 4:
				add("datums-array", arr)
				for _, it := range arr.Items {
					add("datum-item", it)
				}
			case 5:
				if v.Kind == xcbor.Array {
					add("redeemers-array", v)
					for _, e := range v.Items {
						add("redeemer-entry", e)
						if e.Kind == xcbor.Array && len(e.Items) >= 3 {
							add("redeemer-data", e.Items[2])
						}
					}
				} else if v.Kind == xcbor.Map {
					add("redeemers-map", v)
					for q := 0; q+1 < len(v.Items); q += 2 {
						add("redeemer-key", v.Items[q])
						add("redeemer-value", v.Items[q+1])
						if vv := v.Items[q+1]; vv.Kind == xcbor.Array && len(vv.Items) >= 1 {
							add("redeemer-data", vv.Items[0])
						}
					}
				}
			}
		}
	}
	add("aux-item", tx.Aux)
	return out
}

// roles enumerates the named containers of a block model. Nodes that are not
// named here can still be restyled under the role "other".
func (m *blockModel) roles() []roleRef {
	var out []roleRef
	add := func(role string, n *xcbor.Node) { out = append(out, roleRef{role, n, -1}) }
	r := m.Root
	add("block-array", r)
	add("header-array", r.Items[0])
	switch m.Layout {
	case layByron:
		add("body-array", r.Items[1])
		add("tx-payload", r.Items[1].Items[0])
		for _, p := range r.Items[1].Items[0].Items {
			add("tx-pair", p)
		}
		add("dlg-payload", r.Items[1].Items[2])
		for i := range m.Txs {
			out = txRoles(out, i, &m.Txs[i], false)
		}
	case layShelley:
		add("bodies-array", r.Items[1])
		add("witnesses-array", r.Items[2])
		add("aux-map", r.Items[3])
		for j := 0; j+1 < len(r.Items[3].Items); j += 2 {
			add("aux-key", r.Items[3].Items[j])
		}
		if len(r.Items) > 4 {
			add("invalid-array", r.Items[4])
		}
		for i := range m.Txs {
			out = txRoles(out, i, &m.Txs[i], true)
		}
	case layDijkstra:
		add("body-array", r.Items[1])
		add("invalid-array", unwrapSet(r.Items[1].Items[0]))
		add("txs-array", r.Items[1].Items[1])
		for _, t := range r.Items[1].Items[1].Items {
			add("tx-array", t)
		}
		for i := range m.Txs {
			out = txRoles(out, i, &m.Txs[i], true)
		}
	}
	return out
}
