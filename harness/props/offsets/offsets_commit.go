package offsets

import (
	"bytes"
	"fmt"

	"golang.org/x/crypto/blake2b"

	"verif/harness/internal/fixtures"
	"verif/harness/internal/xcbor"
)

// Reference computation of what a block header commits to, written from the
// property statement and the Cardano specs:
//
//	Shelley..Mary   blake2b256( H(bodies) ‖ H(witnesses) ‖ H(aux) )
//	Alonzo..Conway  blake2b256( H(bodies) ‖ H(witnesses) ‖ H(aux) ‖ H(invalid) )
//	Dijkstra        blake2b256( block_body )
//	Byron main      [tx count, merkle root over tx bodies, blake2b256(0x9f ‖ witness lists ‖ 0xff)],
//	                blake2b256(dlg payload), blake2b256(upd payload)   (ssc: outside the claim)
//	Byron EBB       blake2b256( body )
//
// where H = blake2b256 over the exact bytes of the segment as it stands in the
// block. Bytes are taken from node.Encode(), which for a parsed, unedited tree
// reproduces the parsed bytes (xcbor round-trip property, tested in xcbor).

type commitment struct {
	// shelley-like, dijkstra, EBB
	Hash []byte
	// byron main
	TxCount  uint64
	Merkle   []byte
	WitHash  []byte
	DlgHash  []byte
	UpdHash  []byte
	IsByron  bool
	Undefind string // non-empty: the body does not have the era's shape, no commitment is defined
}

func h256(b []byte) []byte { s := blake2b.Sum256(b); return s[:] }

// refMerkle: Byron merkle tree (same construction as the C35 reference, kept
// local so the packages stay independent): leaves 0x00‖item, branches
// 0x01‖l‖r, split at the largest power of two strictly below n, empty list =
// hash of the empty string.
func refMerkle(items [][]byte) []byte {
	switch len(items) {
	case 0:
		return h256(nil)
	case 1:
		return h256(append([]byte{0}, items[0]...))
	}
	n := len(items)
	split := 1
	for split<<1 < n {
		split <<= 1
	}
	buf := append([]byte{1}, refMerkle(items[:split])...)
	buf = append(buf, refMerkle(items[split:])...)
	return h256(buf)
}

// bodyCommitment computes the reference commitment of the body of a built or
// edited block tree (segment bytes = node.Encode()).
func bodyCommitment(typ uint, root *xcbor.Node) commitment {
	return bodyCommitmentOf(typ, root, nil)
}

// bodyCommitmentOf: when src is non-nil, root must be a parse of src and the
// segment bytes are taken verbatim from src (no re-encoding involved).
func bodyCommitmentOf(typ uint, root *xcbor.Node, src []byte) commitment {
	enc := func(n *xcbor.Node) []byte {
		if src != nil {
			return src[n.Start:n.End]
		}
		return n.Encode()
	}
	var c commitment
	bad := func(s string) commitment { c.Undefind = s; return c }
	if root.Kind != xcbor.Array {
		return bad("block is not an array")
	}
	switch layoutOf(typ) {
	case layEBB:
		if len(root.Items) < 2 {
			return bad("ebb: fewer than 2 items")
		}
		c.Hash = h256(enc(root.Items[1]))
	case layDijkstra:
		if len(root.Items) != 2 {
			return bad("dijkstra: not 2 items")
		}
		c.Hash = h256(enc(root.Items[1]))
	case layShelley:
		n := segmentCount(typ)
		if len(root.Items) != n+1 {
			return bad(fmt.Sprintf("%d top-level items, era has %d", len(root.Items), n+1))
		}
		var cat []byte
		for i := 1; i <= n; i++ {
			cat = append(cat, h256(enc(root.Items[i]))...)
		}
		c.Hash = h256(cat)
	case layByron:
		c.IsByron = true
		if len(root.Items) != 3 || root.Items[1].Kind != xcbor.Array || len(root.Items[1].Items) != 4 {
			return bad("byron: body is not a 4-element array in a 3-element block")
		}
		body := root.Items[1]
		pay := body.Items[0]
		if pay.Kind != xcbor.Array {
			return bad("byron: tx payload is not an array")
		}
		var leaves [][]byte
		wl := []byte{0x9f}
		for i, pair := range pay.Items {
			if pair.Kind != xcbor.Array || len(pair.Items) != 2 {
				return bad(fmt.Sprintf("byron: tx %d is not a [tx, witnesses] pair", i))
			}
			leaves = append(leaves, enc(pair.Items[0]))
			wl = append(wl, enc(pair.Items[1])...)
		}
		wl = append(wl, 0xff)
		c.TxCount = uint64(len(pay.Items))
		c.Merkle = refMerkle(leaves)
		c.WitHash = h256(wl)
		c.DlgHash = h256(enc(body.Items[2]))
		c.UpdHash = h256(enc(body.Items[3]))
	}
	return c
}

// commitNodes returns the header nodes that carry the commitment.
type commitSlots struct {
	Hash                                    *xcbor.Node // non-byron-main
	TxCount, Merkle, WitHash, DlgHash, UpdH *xcbor.Node
}

func headerSlots(typ uint, root *xcbor.Node) (commitSlots, error) {
	var s commitSlots
	fail := func(f string, a ...any) (commitSlots, error) {
		return s, fmt.Errorf("header shape: "+f, a...)
	}
	if root.Kind != xcbor.Array || len(root.Items) < 1 {
		return fail("no header")
	}
	h := root.Items[0]
	if h.Kind != xcbor.Array {
		return fail("header is not an array")
	}
	switch layoutOf(typ) {
	case layEBB:
		if len(h.Items) < 3 {
			return fail("ebb header has %d items", len(h.Items))
		}
		s.Hash = h.Items[2]
	case layByron:
		// surplus elements after the four proofs / after the three tx-proof fields
		// are header content, not body content: the commitment slots are the
		// leading ones (C34 is about the body; the header's own shape is not judged)
		if len(h.Items) < 3 || h.Items[2].Kind != xcbor.Array || len(h.Items[2].Items) < 4 {
			return fail("byron body proof")
		}
		p := h.Items[2].Items
		if p[0].Kind != xcbor.Array || len(p[0].Items) < 3 {
			return fail("byron tx proof")
		}
		s.TxCount, s.Merkle, s.WitHash = p[0].Items[0], p[0].Items[1], p[0].Items[2]
		s.DlgHash, s.UpdH = p[2], p[3]
	default:
		if len(h.Items) != 2 || h.Items[0].Kind != xcbor.Array {
			return fail("not [header_body, signature]")
		}
		hb := h.Items[0].Items
		idx := 8 // Shelley..Alonzo: 15-field header body, body hash is field 8
		if typ >= fixtures.TypeBabbage {
			idx = 7 // Babbage+: 10(+)-field header body, body hash is field 7
		}
		if len(hb) <= idx {
			return fail("header body has %d fields", len(hb))
		}
		s.Hash = hb[idx]
	}
	return s, nil
}

func isHash32(n *xcbor.Node) bool {
	return n != nil && n.Kind == xcbor.Bytes && len(n.Payload()) == 32
}

// headerMatches reports whether the header of the tree commits to exactly c.
func headerMatches(typ uint, root *xcbor.Node, c commitment) (bool, string) {
	if c.Undefind != "" {
		return false, "body has no defined commitment: " + c.Undefind
	}
	s, err := headerSlots(typ, root)
	if err != nil {
		return false, err.Error()
	}
	eq := func(name string, n *xcbor.Node, want []byte) (bool, string) {
		if !isHash32(n) {
			return false, name + " in header is not a 32-byte string"
		}
		if !bytes.Equal(n.Payload(), want) {
			return false, fmt.Sprintf("%s: header %x, body gives %x", name, n.Payload(), want)
		}
		return true, ""
	}
	if !c.IsByron {
		return eq("body hash", s.Hash, c.Hash)
	}
	if s.TxCount.Kind != xcbor.Uint || s.TxCount.Arg != c.TxCount {
		return false, fmt.Sprintf("tx count: header %v/%d, body has %d", s.TxCount.Kind, s.TxCount.Arg, c.TxCount)
	}
	for _, x := range []struct {
		name string
		n    *xcbor.Node
		w    []byte
	}{{"merkle root", s.Merkle, c.Merkle}, {"witness hash", s.WitHash, c.WitHash}, {"delegation hash", s.DlgHash, c.DlgHash}, {"update hash", s.UpdH, c.UpdHash}} {
		if ok, why := eq(x.name, x.n, x.w); !ok {
			return false, why
		}
	}
	return true, ""
}

// recommit rewrites the header's commitment so that it matches the body of the
// (edited) tree. Headers are not signature-checked at decode time.
func recommit(typ uint, root *xcbor.Node) error {
	c := bodyCommitment(typ, root)
	if c.Undefind != "" {
		return fmt.Errorf("recommit: %s", c.Undefind)
	}
	s, err := headerSlots(typ, root)
	if err != nil {
		return err
	}
	set := func(n *xcbor.Node, v []byte) {
		if n.Kind == xcbor.Bytes && !n.Indef {
			n.Data = v // keep the head form the node already has
			return
		}
		*n = *xcbor.B(v)
	}
	if !c.IsByron {
		set(s.Hash, c.Hash)
		return nil
	}
	*s.TxCount = *xcbor.U(c.TxCount)
	set(s.Merkle, c.Merkle)
	set(s.WitHash, c.WitHash)
	set(s.DlgHash, c.DlgHash)
	set(s.UpdH, c.UpdHash)
	return nil
}
