package offsets

import (
	"bytes"
	"fmt"
	"sort"
	"strings"
	"testing"

	"github.com/blinklabs-io/gouroboros/ledger"
	"github.com/blinklabs-io/gouroboros/ledger/common"
	"golang.org/x/crypto/blake2b"
	"pgregory.net/rapid"

	"verif/harness/internal/evi"
	"verif/harness/internal/fixtures"
	"verif/harness/internal/xcbor"
)

// ---- style plans --------------------------------------------------------------

// formSet258 is an extra "form" on top of xcbor's head forms: the collection is
// wrapped as a tag-258 set (admissible from Conway on for the witness-set
// script and datum collections).
const formSet258 xcbor.Form = 100

// formGhostAux is not an encoding change but a data-model one the era decoders
// accept: the auxiliary-data map gets one more entry whose key is a
// transaction index plus 2^32 (no transaction has that index, so no decoded
// transaction owns the entry).
const formGhostAux xcbor.Form = 101

// More data-model edits / encoding choices the era decoders accept:
const (
	formGhostAux16  xcbor.Form = 102 // aux entry keyed (tx index + 65536)   (uint16 cast)
	formGhostAux8   xcbor.Form = 103 // aux entry keyed (tx index + 256)     (uint8 cast)
	formGhostMax32  xcbor.Form = 104 // aux entry keyed 2^32-1 (no such transaction)
	formGhost65535  xcbor.Form = 105 // aux entry keyed 65535 (no such transaction)
	formReverseKeys xcbor.Form = 106 // map entries in reverse (non-canonical) order
	formDupKey      xcbor.Form = 107 // first map entry repeated at the end (duplicate key, same value)
)

var pseudoNames = map[xcbor.Form]string{
	formSet258: "set258", formGhostAux: "ghost-entry-index+2^32", formGhostAux16: "ghost-entry-index+65536",
	formGhostAux8: "ghost-entry-index+256", formGhostMax32: "ghost-entry-key-2^32-1", formGhost65535: "ghost-entry-key-65535",
	formReverseKeys: "reverse-key-order", formDupKey: "duplicate-first-key",
}

var ghostForms = map[xcbor.Form]bool{formGhostAux: true, formGhostAux16: true, formGhostAux8: true, formGhostMax32: true, formGhost65535: true}

func formName(f xcbor.Form) string {
	if n, ok := pseudoNames[f]; ok {
		return n
	}
	return f.String()
}

// formClass is the head-form class used in finding keys: all four non-minimal
// definite widths are one class (the measured matrix in the evidence shows
// whether they behave alike).
func formClass(f xcbor.Form) string {
	if n, ok := pseudoNames[f]; ok {
		return n
	}
	switch f {
	case xcbor.FormIndef:
		return "indefinite"
	case xcbor.FormMinimal:
		return "minimal"
	}
	return "nonminimal-definite"
}

type edit struct {
	Idx   int // preorder index of the node in the base tree
	Role  string
	Form  xcbor.Form
	Chunk int
	Size  string // size class of the container ("", ge24, ge256)
	Tx    int
}

func (e edit) String() string {
	s := fmt.Sprintf("%s#%d", e.Role, e.Idx)
	if e.Tx >= 0 {
		s += fmt.Sprintf("(tx%d)", e.Tx)
	}
	s += "=" + formName(e.Form)
	if e.Size != "" {
		s += ":" + e.Size
	}
	return s
}

func editsString(es []edit) string {
	ss := make([]string, len(es))
	for i, e := range es {
		ss[i] = e.String()
	}
	return strings.Join(ss, ",")
}

func causeKey(layout, api string, e edit) string {
	k := fmt.Sprintf("C07:%s:%s:%s:%s", layout, api, e.Role, formClass(e.Form))
	if _, pseudo := pseudoNames[e.Form]; e.Size != "" && (!pseudo || e.Form == formSet258) {
		k += ":" + e.Size
	}
	return k
}

var set258Roles = map[string]bool{"native-scripts-array": true, "plutus-scripts-array": true, "datums-array": true}

// admissible reports whether form f is a different admissible form for the
// node in that role in that era.
func admissible(typ uint, r roleRef, f xcbor.Form) bool {
	if f == formSet258 {
		return typ >= fixtures.TypeConway && set258Roles[r.Role] && r.N.Kind == xcbor.Array
	}
	if ghostForms[f] {
		return r.Role == "aux-map" && r.N.Kind == xcbor.Map
	}
	if f == formReverseKeys {
		return r.N.Kind == xcbor.Map && len(r.N.Items) >= 4
	}
	if f == formDupKey {
		return r.N.Kind == xcbor.Map && len(r.N.Items) >= 2 &&
			(r.Role == "redeemers-map" || r.Role == "aux-map") // body / witness maps: rejected by every era decoder (measured), not generated
	}
	return canApply(r.N, f)
}

// canApply extends xcbor's CanApply to nodes that are indefinite in the base
// block (Byron lists, Plutus data lists): every definite form is a different
// admissible form for them.
func canApply(n *xcbor.Node, f xcbor.Form) bool {
	if !n.Indef {
		return n.CanApply(f)
	}
	if f == xcbor.FormIndef || n.Kind == xcbor.Simple {
		return false
	}
	var arg int
	switch n.Kind {
	case xcbor.Array:
		arg = len(n.Items)
	case xcbor.Map:
		arg = len(n.Items) / 2
	case xcbor.Bytes, xcbor.Text:
		arg = len(n.Payload())
	default:
		return false
	}
	minW := 0
	switch {
	case arg >= 1<<16:
		minW = 4
	case arg >= 256:
		minW = 2
	case arg >= 24:
		minW = 1
	}
	if f == xcbor.FormMinimal {
		return true
	}
	w := map[xcbor.Form]int{xcbor.FormW1: 1, xcbor.FormW2: 2, xcbor.FormW4: 4, xcbor.FormW8: 8}[f]
	return w > minW
}

func applyForm(n *xcbor.Node, f xcbor.Form, chunk int) {
	if n.Indef && f != xcbor.FormIndef && (n.Kind == xcbor.Bytes || n.Kind == xcbor.Text) {
		n.Data = n.Payload()
		n.Items = nil
	}
	n.Apply(f, chunk)
}

var allForms = []xcbor.Form{xcbor.FormMinimal, xcbor.FormW1, xcbor.FormW2, xcbor.FormW4, xcbor.FormW8, xcbor.FormIndef, formSet258,
	formGhostAux, formGhostAux16, formGhostAux8, formGhostMax32, formGhost65535, formReverseKeys, formDupKey}

// applyPlan clones base, applies the edits, recomputes the header commitment
// and returns the encoded block.
func applyPlan(typ uint, base *xcbor.Node, plan []edit) ([]byte, error) {
	t := base.Clone()
	nodes := t.Nodes()
	var wraps []*xcbor.Node
	for _, e := range plan {
		n := nodes[e.Idx]
		if e.Form == formSet258 {
			wraps = append(wraps, n)
			continue
		}
		if e.Form == formReverseKeys {
			for i, j := 0, len(n.Items)-2; i < j; i, j = i+2, j-2 {
				n.Items[i], n.Items[j] = n.Items[j], n.Items[i]
				n.Items[i+1], n.Items[j+1] = n.Items[j+1], n.Items[i+1]
			}
			continue
		}
		if e.Form == formDupKey {
			n.Items = append(n.Items, n.Items[0].Clone(), n.Items[1].Clone())
			if !n.Indef {
				n.Width = 0
			}
			continue
		}
		if ghostForms[e.Form] {
			// key = offset + (index of the first transaction that has aux data, else 0)
			var k uint64
			if len(n.Items) >= 2 && n.Items[0].Kind == xcbor.Uint {
				k = n.Items[0].Arg
			}
			switch e.Form {
			case formGhostAux:
				k += 1 << 32
			case formGhostAux16:
				k += 1 << 16
			case formGhostAux8:
				k += 1 << 8
			case formGhostMax32:
				k = 1<<32 - 1
			case formGhost65535:
				k = 65535
			}
			n.Items = append(n.Items, xcbor.U(k), xcbor.M(xcbor.U(5), xcbor.T("ghost")))
			if !n.Indef && n.Width < 1 {
				n.Width = 0
			}
			continue
		}
		applyForm(n, e.Form, e.Chunk)
	}
	for _, n := range wraps {
		inner := *n
		*n = *xcbor.Tg(258, &inner)
	}
	if err := recommit(typ, t); err != nil {
		return nil, err
	}
	return t.Encode(), nil
}

// ---- the oracle ------------------------------------------------------------------

type mismatch struct {
	Comp   string
	Tx     int
	Detail string
}

func (m mismatch) String() string { return fmt.Sprintf("tx%d %s: %s", m.Tx, m.Comp, m.Detail) }

type judgeStats struct{ Reported, Unreported, MissingTxs int }

func h224(lang byte, b []byte) []byte {
	h, _ := blake2b.New(28, nil)
	h.Write([]byte{lang})
	h.Write(b)
	return h.Sum(nil)
}

func rangeOf(n *xcbor.Node) (uint32, uint32) { return uint32(n.Start), uint32(n.End - n.Start) }

func describe(buf []byte, r common.ByteRange) string {
	end := uint64(r.Offset) + uint64(r.Length)
	if end > uint64(len(buf)) {
		return fmt.Sprintf("[%d,+%d) outside the %d-byte block", r.Offset, r.Length, len(buf))
	}
	b := buf[r.Offset:end]
	if len(b) > 12 {
		b = b[:12]
	}
	return fmt.Sprintf("[%d,+%d) = %x…", r.Offset, r.Length, b)
}

// judge compares every *reported* range with xcbor's own byte range of the
// component in buf. m must have been built from a parse of buf.
func judge(buf []byte, m *blockModel, offs *common.BlockTransactionOffsets) ([]mismatch, judgeStats) {
	var mm []mismatch
	var st judgeStats
	bad := func(tx int, comp, f string, a ...any) {
		mm = append(mm, mismatch{comp, tx, fmt.Sprintf(f, a...)})
	}
	inBlock := func(r common.ByteRange) bool {
		return uint64(r.Offset)+uint64(r.Length) <= uint64(len(buf))
	}
	same := func(tx int, comp string, got common.ByteRange, want *xcbor.Node) {
		st.Reported++
		if !inBlock(got) {
			bad(tx, comp, "reported range %s", describe(buf, got))
			return
		}
		o, l := rangeOf(want)
		if got.Offset != o || got.Length != l {
			bad(tx, comp, "reported %s, component is at [%d,+%d) = %x…", describe(buf, got), o, l, buf[o:min(int(o)+12, int(o+l))])
		}
	}
	if len(offs.Transactions) > len(m.Txs) {
		bad(len(m.Txs), "tx-count", "%d transaction locations reported, block has %d transactions", len(offs.Transactions), len(m.Txs))
	}
	if len(offs.Transactions) < len(m.Txs) {
		st.MissingTxs = len(m.Txs) - len(offs.Transactions)
	}
	for i := range offs.Transactions {
		if i >= len(m.Txs) {
			break
		}
		loc, tx := &offs.Transactions[i], &m.Txs[i]
		if loc.Body.Length > 0 || loc.Body.Offset > 0 {
			same(i, "body", loc.Body, tx.Body)
		} else {
			st.Unreported++
		}
		if loc.Witness.Length > 0 || loc.Witness.Offset > 0 {
			same(i, "witness", loc.Witness, tx.Wit)
		} else {
			st.Unreported++
		}
		if loc.Metadata.Length > 0 || loc.Metadata.Offset > 0 {
			switch {
			case tx.Aux == nil:
				st.Reported++
				bad(i, "metadata", "range %s reported for a transaction without auxiliary data", describe(buf, loc.Metadata))
			case len(tx.AuxAll) > 1:
				// duplicated key (byte-identical values): either occurrence is the component
				st.Reported++
				hit := false
				for _, a := range tx.AuxAll {
					o, l := rangeOf(a)
					hit = hit || (loc.Metadata.Offset == o && loc.Metadata.Length == l)
				}
				if !hit {
					bad(i, "metadata", "reported %s is none of the %d entries keyed %d", describe(buf, loc.Metadata), len(tx.AuxAll), i)
				}
			default:
				same(i, "metadata", loc.Metadata, tx.Aux)
			}
		} else if tx.Aux != nil {
			st.Unreported++
		}
		if loc.Outputs != nil {
			for j, r := range loc.Outputs {
				if j >= len(tx.Outputs) {
					st.Reported++
					bad(i, "output", "output %d reported, transaction has %d outputs", j, len(tx.Outputs))
					break
				}
				same(i, "output", r, tx.Outputs[j])
			}
			if len(loc.Outputs) < len(tx.Outputs) {
				st.Unreported += len(tx.Outputs) - len(loc.Outputs)
			}
		} else {
			st.Unreported += len(tx.Outputs)
		}
		// keyed collections: iterate in a deterministic order
		dk := make([]common.Blake2b256, 0, len(loc.Datums))
		for k := range loc.Datums {
			dk = append(dk, k)
		}
		sort.Slice(dk, func(a, b int) bool { return bytes.Compare(dk[a][:], dk[b][:]) < 0 })
		for _, k := range dk {
			r := loc.Datums[k]
			st.Reported++
			if !inBlock(r) {
				bad(i, "datum", "reported range %s", describe(buf, r))
				continue
			}
			found := false
			for _, d := range tx.Datums {
				o, l := rangeOf(d)
				if r.Offset == o && r.Length == l {
					found = true
					if h := blake2b.Sum256(buf[d.Start:d.End]); !bytes.Equal(h[:], k[:]) {
						bad(i, "datum-key", "datum at [%d,+%d) is keyed %x, its hash is %x", o, l, k[:6], h[:6])
					}
					break
				}
			}
			if !found {
				bad(i, "datum", "reported %s is not the range of any of the %d datums of the witness set", describe(buf, r), len(tx.Datums))
			}
		}
		if len(loc.Datums) < len(tx.Datums) {
			st.Unreported += len(tx.Datums) - len(loc.Datums)
		}
		rk := make([]common.RedeemerKey, 0, len(loc.Redeemers))
		for k := range loc.Redeemers {
			rk = append(rk, k)
		}
		sort.Slice(rk, func(a, b int) bool {
			if rk[a].Tag != rk[b].Tag {
				return rk[a].Tag < rk[b].Tag
			}
			return rk[a].Index < rk[b].Index
		})
		for _, k := range rk {
			r := loc.Redeemers[k]
			st.Reported++
			if !inBlock(r) {
				bad(i, "redeemer", "reported range %s", describe(buf, r))
				continue
			}
			cands := tx.Redeemers[redKey{uint64(k.Tag), uint64(k.Index)}]
			found := false
			for _, d := range cands {
				o, l := rangeOf(d)
				if r.Offset == o && r.Length == l {
					found = true
				}
			}
			if !found {
				bad(i, "redeemer", "redeemer (%d,%d) reported at %s; the data item of that redeemer is elsewhere (%d candidates)", k.Tag, k.Index, describe(buf, r), len(cands))
			}
		}
		if len(loc.Redeemers) < len(tx.Redeemers) {
			st.Unreported += len(tx.Redeemers) - len(loc.Redeemers)
		}
		sk := make([]common.ScriptHash, 0, len(loc.Scripts))
		for k := range loc.Scripts {
			sk = append(sk, k)
		}
		sort.Slice(sk, func(a, b int) bool { return bytes.Compare(sk[a][:], sk[b][:]) < 0 })
		for _, k := range sk {
			r := loc.Scripts[k]
			st.Reported++
			if !inBlock(r) {
				bad(i, "script", "reported range %s", describe(buf, r))
				continue
			}
			found := false
			for _, s := range tx.Scripts {
				o, l := rangeOf(s.N)
				if r.Offset == o && r.Length == l {
					found = true
					// the key must be the script hash: blake2b-224(language ‖ script),
					// where for a Plutus script "script" is the content of the byte
					// string and for a native script its CBOR
					item := buf[s.N.Start:s.N.End]
					content := item
					if s.Lang != langNative {
						content = s.N.Payload()
					}
					if want := h224(s.Lang, content); !bytes.Equal(want, k[:]) {
						if s.Lang != langNative && bytes.Equal(h224(s.Lang, item), k[:]) {
							bad(i, "script-key:plutus-hash-over-cbor-item", "Plutus script (language %d) at [%d,+%d) is keyed %x = blake2b224(lang ‖ CBOR byte-string item); its script hash blake2b224(lang ‖ script bytes) is %x", s.Lang, o, l, k[:6], want[:6])
						} else {
							bad(i, "script-key:unexplained", "script (language %d) at [%d,+%d) is keyed %x, its script hash is %x", s.Lang, o, l, k[:6], want[:6])
						}
					}
					break
				}
			}
			if !found {
				bad(i, "script", "reported %s is not the range of any of the %d scripts of the witness set", describe(buf, r), len(tx.Scripts))
			}
		}
		if len(loc.Scripts) < len(tx.Scripts) {
			st.Unreported += len(tx.Scripts) - len(loc.Scripts)
		}
	}
	return mm, st
}

// completeness is the other direction of judge: every component that exists in
// the block (per the harness's own parse) must have an entry in the table — a
// non-zero range; that it is the right range is judge's business — and the
// per-transaction counts must match. Comp is "missing-entry:<component>" or
// "spurious-entry:<component>".
func completeness(buf []byte, m *blockModel, offs *common.BlockTransactionOffsets) []mismatch {
	var mm []mismatch
	bad := func(tx int, comp, f string, a ...any) {
		mm = append(mm, mismatch{comp, tx, fmt.Sprintf(f, a...)})
	}
	nonZero := func(r common.ByteRange) bool { return r.Length > 0 || r.Offset > 0 }
	if len(offs.Transactions) < len(m.Txs) {
		bad(len(offs.Transactions), "missing-entry:transaction", "%d transaction locations for a block with %d transactions", len(offs.Transactions), len(m.Txs))
	}
	for i := range offs.Transactions {
		if i >= len(m.Txs) {
			break
		}
		loc, tx := &offs.Transactions[i], &m.Txs[i]
		if !nonZero(loc.Body) {
			bad(i, "missing-entry:body", "no body range")
		}
		if !nonZero(loc.Witness) {
			bad(i, "missing-entry:witness", "no witness range")
		}
		if tx.Aux != nil && !nonZero(loc.Metadata) {
			o, l := rangeOf(tx.Aux)
			bad(i, "missing-entry:metadata", "zero Metadata range although the transaction has auxiliary data at [%d,+%d)", o, l)
		}
		if tx.HasOutputs && len(loc.Outputs) < len(tx.Outputs) {
			bad(i, "missing-entry:output", "%d output ranges for %d outputs", len(loc.Outputs), len(tx.Outputs))
		}
		sameBytes := func(a, b *xcbor.Node) bool { return bytes.Equal(buf[a.Start:a.End], buf[b.Start:b.End]) }
		dset := make(map[common.ByteRange]bool, len(loc.Datums))
		for _, r := range loc.Datums {
			dset[r] = true
		}
		for _, d := range tx.Datums {
			o, l := rangeOf(d)
			hit := dset[common.ByteRange{Offset: o, Length: l}]
			for k := 0; !hit && k < len(tx.Datums); k++ { // a byte-identical twin may hold the entry
				if e := tx.Datums[k]; e != d && sameBytes(d, e) {
					eo, el := rangeOf(e)
					hit = dset[common.ByteRange{Offset: eo, Length: el}]
				}
			}
			if !hit {
				bad(i, "missing-entry:datum", "no Datums entry for the datum at [%d,+%d) (%d entries for %d datums)", o, l, len(loc.Datums), len(tx.Datums))
				break
			}
		}
		for k := range tx.Redeemers {
			if _, ok := loc.Redeemers[common.RedeemerKey{Tag: common.RedeemerTag(k.Tag), Index: uint32(k.Idx)}]; !ok {
				bad(i, "missing-entry:redeemer", "no Redeemers entry for (%d,%d) (%d entries for %d redeemers)", k.Tag, k.Idx, len(loc.Redeemers), len(tx.Redeemers))
				break
			}
		}
		if len(loc.Redeemers) > len(tx.Redeemers) {
			bad(i, "spurious-entry:redeemer", "%d Redeemers entries for %d redeemers", len(loc.Redeemers), len(tx.Redeemers))
		}
		sset := make(map[common.ByteRange]bool, len(loc.Scripts))
		for _, r := range loc.Scripts {
			sset[r] = true
		}
		for _, sc := range tx.Scripts {
			o, l := rangeOf(sc.N)
			hit := sset[common.ByteRange{Offset: o, Length: l}]
			for k := 0; !hit && k < len(tx.Scripts); k++ {
				if e := tx.Scripts[k]; e.N != sc.N && e.Lang == sc.Lang && sameBytes(sc.N, e.N) {
					eo, el := rangeOf(e.N)
					hit = sset[common.ByteRange{Offset: eo, Length: el}]
				}
			}
			if !hit {
				bad(i, "missing-entry:script", "no Scripts entry for the language-%d script at [%d,+%d) (%d entries for %d scripts)", sc.Lang, o, l, len(loc.Scripts), len(tx.Scripts))
				break
			}
		}
	}
	return mm
}

// helpersAgree checks that the Extract*Cbor helpers return exactly the bytes of
// the reported ranges (and an error for a range outside the block).
func helpersAgree(buf []byte, offs *common.BlockTransactionOffsets) string {
	chk := func(name string, r common.ByteRange, got []byte, err error) string {
		in := uint64(r.Offset)+uint64(r.Length) <= uint64(len(buf))
		switch {
		case in && err != nil:
			return fmt.Sprintf("%s: error %v for an in-block range", name, err)
		case !in && err == nil:
			return fmt.Sprintf("%s: no error for a range outside the block", name)
		case in && !bytes.Equal(got, buf[r.Offset:r.Offset+r.Length]):
			return fmt.Sprintf("%s: returned bytes differ from block[range]", name)
		}
		return ""
	}
	for i, loc := range offs.Transactions {
		b, err := common.ExtractTransactionBodyCbor(buf, offs, i)
		if s := chk("ExtractTransactionBodyCbor", loc.Body, b, err); s != "" {
			return s
		}
		w, err := common.ExtractWitnessCbor(buf, offs, i)
		if s := chk("ExtractWitnessCbor", loc.Witness, w, err); s != "" {
			return s
		}
		for j, r := range loc.Outputs {
			o, err := common.ExtractOutputCbor(buf, offs, i, j)
			if s := chk("ExtractOutputCbor", r, o, err); s != "" {
				return s
			}
		}
	}
	return ""
}

var apis = []string{"streaming", "extract"}

func callAPI(api string, typ uint, buf []byte) (*common.BlockTransactionOffsets, error) {
	if api == "streaming" {
		bo, err := ledger.NewBlockFromCborWithOffsets(typ, buf)
		if err != nil {
			return nil, err
		}
		return bo.Offsets, nil
	}
	return common.ExtractTransactionOffsets(buf)
}

// encodingMismatches filters out the key-identity mismatches.
func encodingMismatches(mm []mismatch) []mismatch {
	var out []mismatch
	for _, x := range mm {
		if !strings.HasPrefix(x.Comp, "script-key:") && x.Comp != "datum-key" &&
			!strings.HasPrefix(x.Comp, "missing-entry:") && !strings.HasPrefix(x.Comp, "spurious-entry:") {
			out = append(out, x)
		}
	}
	return out
}

// keyIdentityOnly keeps the key-identity mismatches (the known Plutus key class).
func keyIdentityOnly(mm []mismatch) []mismatch {
	var out []mismatch
	for _, x := range mm {
		if strings.HasPrefix(x.Comp, "script-key:") || x.Comp == "datum-key" {
			out = append(out, x)
		}
	}
	return out
}

type verdict struct {
	Hist     map[string]string // api -> purity / history violation ("kind: detail")
	Accepted bool
	Err      map[string]string     // api -> extractor error on an accepted block
	MM       map[string][]mismatch // api -> mismatches
	St       map[string]judgeStats
	Helper   map[string]string
}

// evaluate runs the era decoder (body validation on: the commitment was
// recomputed) and, when it accepts, both extractors against the xcbor model.
//
// Purity: every library call gets the bytes in the shared input buffer, which is
// overwritten right after the call; tables returned earlier must still equal
// their snapshots; every evalTick-th evaluation additionally feeds a truncated
// and a garbled copy of the block to the extractor first (a failed extraction
// must return no table and must not influence the next result) and repeats the
// call on a private copy (same bytes => same table).
var evalCount int

const evalTick = 6

func evaluate(typ uint, buf []byte) (*verdict, error) {
	v := &verdict{Hist: map[string]string{}, Err: map[string]string{}, MM: map[string][]mismatch{}, St: map[string]judgeStats{}, Helper: map[string]string{}}
	in := viaScratch(buf)
	_, derr := ledger.NewBlockFromCbor(typ, in)
	clobber(in)
	if derr != nil {
		return v, nil
	}
	v.Accepted = true
	evalCount++
	deep := evalCount%evalTick == 0
	root, err := xcbor.ParseExact(buf)
	if err != nil {
		return nil, fmt.Errorf("harness: accepted block does not parse: %w", err)
	}
	m, err := buildModel(typ, root)
	if err != nil {
		return nil, fmt.Errorf("harness: accepted block has no model: %w", err)
	}
	for _, api := range apis {
		if deep {
			// failure steps first: truncated, then garbled
			for k, bad := range [][]byte{buf[:len(buf)/2], append([]byte{0xff}, buf[1:]...)} {
				in := viaScratch(bad)
				o, err := callAPI(api, typ, in)
				clobber(in)
				if err != nil && o != nil {
					v.Hist[api] = fmt.Sprintf("table-returned-with-error: failure step %d returned error %q together with a table of %d transactions", k, err, len(o.Transactions))
				}
			}
		}
		in := viaScratch(buf)
		offs, err := callAPI(api, typ, in)
		clobber(in)
		if d := heldChanged(); d != "" && v.Hist[api] == "" {
			v.Hist[api] = "earlier-result-changed: " + d
			held = nil
		}
		if err != nil {
			v.Err[api] = err.Error()
			if offs != nil && v.Hist[api] == "" {
				v.Hist[api] = "table-returned-with-error: " + err.Error()
			}
			continue
		}
		if offs == nil {
			v.Err[api] = "nil offsets"
			continue
		}
		holdResult(api, fmt.Sprintf("a %d-byte type-%d block", len(buf), typ), offs)
		v.MM[api], v.St[api] = judge(buf, m, offs)
		if !(api == "streaming" && m.Layout == layDijkstra) {
			// (the streaming decoder reports no transactions at all for the
			// 2-element Dijkstra block: documented gap, counted, not judged)
			v.MM[api] = append(v.MM[api], completeness(buf, m, offs)...)
		}
		v.Helper[api] = helpersAgree(buf, offs)
		if deep && v.Hist[api] == "" {
			priv := append([]byte(nil), buf...)
			again, err2 := callAPI(api, typ, priv)
			if err2 != nil {
				v.Hist[api] = "repeat-differs: second call on the same bytes fails: " + err2.Error()
			} else if d := sameOffsets(offs, again); d != "" {
				v.Hist[api] = "repeat-differs: second call on the same bytes gives another table: " + d
			}
		}
	}
	return v, nil
}

func summarize(mm []mismatch) string {
	comps := map[string]int{}
	for _, m := range mm {
		comps[m.Comp]++
	}
	ks := make([]string, 0, len(comps))
	for k := range comps {
		ks = append(ks, k)
	}
	sort.Strings(ks)
	var sb strings.Builder
	for _, k := range ks {
		fmt.Fprintf(&sb, "%s×%d ", k, comps[k])
	}
	sb.WriteString("| first: " + mm[0].String())
	return sb.String()
}

// ---- the check -------------------------------------------------------------------

type baseBlock struct {
	Name string
	Type uint
	Tree *xcbor.Node
	// OnlySize restricts the sweep over this base to containers of that size class
	OnlySize string
	// OnlyRoles restricts the sweep over this base to these roles (nil = all);
	// an empty non-nil map means "unedited block only"
	OnlyRoles map[string]bool
	// OnlyForms restricts the forms tried on this base (nil = all admissible)
	OnlyForms []xcbor.Form
}

var txListRoles = map[string]bool{"bodies-array": true, "witnesses-array": true, "tx-payload": true, "txs-array": true}

// two representative head forms for the large special-size bases
var twoForms = []xcbor.Form{xcbor.FormW2, xcbor.FormIndef, xcbor.FormMinimal}

// the containers whose heads sit in front of / around the transactions
var listRoles = map[string]bool{"block-array": true, "bodies-array": true, "witnesses-array": true, "aux-map": true,
	"body-array": true, "tx-payload": true, "tx-pair": true, "txs-array": true, "tx-array": true}

func sweepBases() []baseBlock {
	var out []baseBlock
	for _, fx := range fixtures.SmallBlocks() {
		out = append(out, baseBlock{Name: fx.Name, Type: fx.Type, Tree: mustParse(fx.Bytes)})
	}
	for _, t := range templates() {
		out = append(out, baseBlock{Name: t.Name + "-gen-3tx-3outs-3coll", Type: t.Type, Tree: bigBlock(t, 3, 3, 3, 3)})
		// >= 24 members (2-byte minimal head): 25 transactions, the first with 25
		// outputs and 25-member collections; only the ge24 containers are swept
		out = append(out, baseBlock{Name: t.Name + "-gen-25tx-25outs-25coll", Type: t.Type, Tree: bigBlock(t, 25, 25, 25, 1), OnlySize: "ge24"})
	}
	// containers with >= 256 members (3-byte minimal head), one per layout
	for _, name := range []string{"byron_main", "mary", "dijkstra"} {
		t := templateByName(name)
		out = append(out, baseBlock{Name: t.Name + "-gen-257tx-2outs", Type: t.Type, Tree: bigBlock(t, 257, 2, 0, 0), OnlySize: "ge256"})
		out = append(out, baseBlock{Name: t.Name + "-gen-2tx-257outs", Type: t.Type, Tree: bigBlock(t, 2, 257, 0, 1), OnlySize: "ge256"})
	}
	// special transaction counts (CBOR head-width boundaries), one template per
	// layout, swept over the list containers only
	for _, name := range []string{"byron_main", "mary", "dijkstra"} {
		t := templateByName(name)
		for _, n := range []int{1, 23, 24, 255, 256} {
			b := baseBlock{Name: fmt.Sprintf("%s-gen-%dtx", t.Name, n), Type: t.Type, Tree: bigBlock(t, n, 0, 0, 0), OnlyRoles: listRoles, OnlyForms: twoForms}
			if n >= 255 { // large blocks: the transaction lists only, one form
				b.OnlyRoles, b.OnlyForms = txListRoles, []xcbor.Form{xcbor.FormIndef, xcbor.FormMinimal}
			}
			out = append(out, b)
		}
	}
	// a transaction body / witness set / auxiliary data item of exactly 23, 24,
	// 255, 256, 65535, 65536 bytes (where the era offers a knob; otherwise
	// >= 65536 bytes by repetition), unedited; list containers swept for the
	// boundary sizes of one template per layout
	for _, t := range templates() {
		for _, which := range []string{"body", "witness", "aux"} {
			for _, size := range []int{23, 24, 255, 256, 65535, 65536} {
				tree := sizedBlock(t, which, size)
				if tree == nil {
					continue
				}
				roles := map[string]bool{}
				if (t.Name == "byron_main" || t.Name == "conway" || t.Name == "dijkstra") && (size == 24 || size == 256) {
					roles = listRoles
				} else if (t.Name == "byron_main" || t.Name == "conway") && size == 65536 {
					roles = txListRoles
				}
				out = append(out, baseBlock{Name: fmt.Sprintf("%s-gen-%s-of-%d-bytes", t.Name, which, size), Type: t.Type, Tree: tree, OnlyRoles: roles, OnlyForms: twoForms})
			}
		}
		for _, which := range []string{"body", "witness"} {
			if tree := hugeBlock(t, which); tree != nil {
				out = append(out, baseBlock{Name: fmt.Sprintf("%s-gen-%s-over-64KiB", t.Name, which), Type: t.Type, Tree: tree, OnlyRoles: map[string]bool{}})
			}
		}
	}
	// the epoch boundary block (no transactions: nothing may be reported)
	ebb := fixtures.ByName("byron_ebb")
	out = append(out, baseBlock{Name: ebb.Name, Type: ebb.Type, Tree: mustParse(ebb.Bytes), OnlyRoles: map[string]bool{}})
	return out
}

func TestC07(t *testing.T) {
	rec := evi.New(t, "C07", evi.Exploration,
		"blocks = the real blocks of every era plus blocks generated from them (1..258 transactions drawn from the era's real transactions, output lists resized to 1..26, synthesised datums / redeemers (array and map form) / native and Plutus scripts / auxiliary data / invalid lists; Dijkstra from the cardano-ledger Dijkstra tx and Conway txs); each is re-encoded with a style plan over the containers of the layout (block, header, bodies/witnesses/aux/invalid, Byron body/payload/pair/tx, Dijkstra body/txs/tx, body map and keys, outputs array, outputs, witness map and keys, script/datum/redeemer collections and their items, tag-258 set wrappers, any other node) with non-minimal 1/2/4/8-byte heads or indefinite length, the header commitment is recomputed, and only re-encodings the era decoder accepts WITH body validation are judged; oracle = xcbor's own byte range of each component in the re-encoded bytes vs every range reported by NewBlockFromCborWithOffsets and ExtractTransactionOffsets (+ Extract*Cbor helpers); special values: 1/23/24/255/256/257 transactions, a body / witness set / aux item of exactly 23, 24, 255, 256, 65535, 65536 bytes (or > 64 KiB by repetition), the EBB, reversed map key order, duplicated redeemer / aux keys, aux entries keyed index+256 / +65536 / +2^32 / 65535 / 2^32-1, unsorted / duplicate / out-of-range invalid lists; purity: every call is made on one shared input buffer that is overwritten after the call, tables returned earlier must not change, a repeated call gives the same table, a failed (truncated / garbled) call returns no table and does not influence the next one, and every real block plus same-header and same-body siblings give the same table forwards, backwards and interleaved across eras; completeness: every component the harness finds in the block (transaction, body, witness set, aux data, each output, each datum / redeemer / script of the witness set) must have an entry (missing-entry:<component>), no more redeemer entries than redeemers; non-trivial = accepted, >=1 head differs from the original and >=1 range was reported; distinct by (block description, plan)")
	defer rec.Finish()
	rec.Assume(
		"xcbor (independent RFC 8949 parser, round-trip tested) defines the byte range of a component",
		"blake2b from golang.org/x/crypto is trusted",
		"a ByteRange{0,0} means 'no entry': for a component that exists it is an omission (missing-entry), except that the streaming decoder reports no transactions at all for Dijkstra blocks (documented gap, counted); a reported Metadata range for a transaction without auxiliary data, or an Outputs entry beyond the transaction's outputs, is a wrong report",
		"the Datums/Scripts maps are documented as hash -> location: a datum key must be blake2b-256 of the datum bytes, a script key blake2b-224(language byte ‖ script) with script = content of the byte string for Plutus and the CBOR item for native scripts (Cardano script hash); key-identity failures are reported under their own keys, separate from range failures",
	)

	type cell struct{ Pass, Fail, Rejected, ApiErr int }
	matrix := map[string]*cell{}
	cellOf := func(k string) *cell {
		c := matrix[k]
		if c == nil {
			c = &cell{}
			matrix[k] = c
		}
		return c
	}

	// runCase evaluates one (base, plan) and reports per API. Returns the verdict.
	report := func(fail func(key, what string, cs any) bool, b baseBlock, plan []edit, v *verdict, buf []byte, attribute func(api string) string) {
		lay := layoutOf(b.Type)
		for _, api := range apis {
			// key-identity mismatches do not depend on the encoding plan: own keys
			var rest []mismatch
			keyed := map[string][]mismatch{}
			gaps := map[string][]mismatch{}
			for _, x := range v.MM[api] {
				if strings.HasPrefix(x.Comp, "script-key:") || x.Comp == "datum-key" {
					keyed[x.Comp] = append(keyed[x.Comp], x)
				} else if strings.HasPrefix(x.Comp, "missing-entry:") || strings.HasPrefix(x.Comp, "spurious-entry:") {
					gaps[x.Comp] = append(gaps[x.Comp], x)
				} else {
					rest = append(rest, x)
				}
			}
			gk := make([]string, 0, len(gaps))
			for k := range gaps {
				gk = append(gk, k)
			}
			sort.Strings(gk)
			for _, k := range gk {
				fail(fmt.Sprintf("C07:%s:%s:%s", lay, api, k),
					fmt.Sprintf("%s offsets of %s block %q re-encoded with [%s]: the table does not have exactly the components of the block: %s", api, lay, b.Name, editsString(plan), summarize(gaps[k])),
					map[string]any{"block": b.Name, "type": b.Type, "plan": editsString(plan), "api": api, "block_hex": evi.Hex(buf), "block_len": len(buf)})
			}
			kk := make([]string, 0, len(keyed))
			for k := range keyed {
				kk = append(kk, k)
			}
			sort.Strings(kk)
			for _, k := range kk {
				fail(fmt.Sprintf("C07:%s:%s:%s", lay, api, k),
					fmt.Sprintf("%s offsets of %s block %q: map key does not identify the component: %s", api, lay, b.Name, summarize(keyed[k])),
					map[string]any{"block": b.Name, "type": b.Type, "plan": editsString(plan), "api": api, "block_hex": evi.Hex(buf), "block_len": len(buf)})
			}
			if h := v.Hist[api]; h != "" {
				kind := h[:strings.Index(h, ":")]
				fail(fmt.Sprintf("C07:%s:%s:history:%s", lay, api, kind),
					fmt.Sprintf("%s offsets of %s block %q are not a function of the block bytes alone: %s", api, lay, b.Name, h),
					map[string]any{"block": b.Name, "type": b.Type, "plan": editsString(plan), "api": api, "block_hex": evi.Hex(buf), "block_len": len(buf)})
			}
			what := ""
			if len(rest) > 0 {
				what = summarize(rest)
			} else if h := v.Helper[api]; h != "" {
				what = "helper: " + h
			}
			if what == "" {
				continue
			}
			key := attribute(api)
			fail(key, fmt.Sprintf("%s offsets wrong on %s block %q re-encoded with [%s]: %s", api, lay, b.Name, editsString(plan), what),
				map[string]any{"block": b.Name, "type": b.Type, "plan": editsString(plan), "api": api, "block_hex": evi.Hex(buf), "block_len": len(buf)})
		}
	}

	// ---- phase 1: exhaustive single-edit sweep over role classes ------------------
	perRole := rec.Pick(2, 4)
	sweepEvals := 0
	for _, b := range sweepBases() {
		lay := layoutOf(b.Type)
		m, err := buildModel(b.Type, b.Tree)
		if err != nil {
			t.Fatalf("model of %s: %v", b.Name, err)
		}
		idx := map[*xcbor.Node]int{}
		for i, n := range b.Tree.Nodes() {
			idx[n] = i
		}
		// the unedited block first
		{
			buf, err := applyPlan(b.Type, b.Tree, nil)
			if err != nil {
				t.Fatalf("%s: %v", b.Name, err)
			}
			v, err := evaluate(b.Type, buf)
			if err != nil {
				t.Fatalf("%s: %v", b.Name, err)
			}
			rec.Eval()
			sweepEvals++
			if !v.Accepted {
				_, derr := ledger.NewBlockFromCbor(b.Type, buf)
				rec.Violation("C07:harness:base-block-rejected:"+b.Name, fmt.Sprintf("the era decoder rejects an unedited base block %s: %v", b.Name, derr), nil)
				continue
			}
			report(rec.Violation, b, nil, v, buf, func(api string) string {
				return fmt.Sprintf("C07:%s:%s:original-encoding:%s", lay, api, b.Name)
			})
		}
		byRole := map[string][]roleRef{}
		var order []string
		for _, r := range m.roles() {
			if _, ok := byRole[r.Role]; !ok {
				order = append(order, r.Role)
			}
			byRole[r.Role] = append(byRole[r.Role], r)
		}
		for _, role := range order {
			if b.OnlyRoles != nil && !b.OnlyRoles[role] {
				continue
			}
			refs := byRole[role]
			// instances: spread over the block (first, last, middle…), preferring
			// large containers so the ge24 classes are met
			pick := []roleRef{refs[0]}
			if len(refs) > 1 {
				pick = append(pick, refs[len(refs)-1])
			}
			for k := 1; len(pick) < perRole && k < len(refs)-1; k += max(1, len(refs)/perRole) {
				pick = append(pick, refs[k])
			}
			for _, r := range refs {
				if sizeClass(r.N) != "" && len(pick) < perRole+2 {
					dup := false
					for _, p := range pick {
						dup = dup || p.N == r.N
					}
					if !dup {
						pick = append(pick, r)
					}
				}
			}
			for _, r := range pick {
				if b.OnlySize != "" && sizeClass(r.N) != b.OnlySize {
					continue
				}
				forms := allForms
				if b.OnlyForms != nil {
					forms = b.OnlyForms
				}
				for _, f := range forms {
					if !admissible(b.Type, r, f) {
						continue
					}
					e := edit{Idx: idx[r.N], Role: r.Role, Form: f, Size: sizeClass(r.N), Tx: r.Tx}
					if f == xcbor.FormIndef && (r.N.Kind == xcbor.Bytes || r.N.Kind == xcbor.Text) && len(r.N.Data) > 1 {
						e.Chunk = (len(r.N.Data) + 1) / 2
					}
					plan := []edit{e}
					buf, err := applyPlan(b.Type, b.Tree, plan)
					if err != nil {
						t.Fatalf("%s %v: %v", b.Name, e, err)
					}
					v, err := evaluate(b.Type, buf)
					if err != nil {
						rec.Violation("C07:harness:"+err.Error(), err.Error(), map[string]any{"block": b.Name, "plan": editsString(plan)})
						continue
					}
					rec.Eval()
					sweepEvals++
					for _, api := range apis {
						mk := fmt.Sprintf("%s|%s|%s|%s", lay, api, role, formName(f))
						if e.Size != "" {
							mk += "|" + e.Size
						}
						c := cellOf(mk)
						switch {
						case !v.Accepted:
							c.Rejected++
						case v.Err[api] != "":
							c.ApiErr++
						case len(v.MM[api]) > len(keyIdentityOnly(v.MM[api])) || v.Helper[api] != "" || v.Hist[api] != "":
							c.Fail++
						default:
							c.Pass++
						}
					}
					if !v.Accepted {
						rec.Class("sweep_rejected_by_era_decoder")
						continue
					}
					rec.Class("sweep_accepted")
					if v.St["streaming"].Reported+v.St["extract"].Reported > 0 {
						rec.NonTrivial("sweep "+b.Name+" "+e.String(), map[string]any{"block": b.Name, "plan": e.String(), "len": len(buf),
							"reported_streaming": v.St["streaming"].Reported, "reported_extract": v.St["extract"].Reported})
					}
					report(rec.Violation, b, plan, v, buf, func(api string) string { return causeKey(lay, api, e) })
				}
			}
		}
	}
	rec.SetExtra("n_sweep_evaluations", sweepEvals)
	{
		keys := make([]string, 0, len(matrix))
		for k := range matrix {
			keys = append(keys, k)
		}
		sort.Strings(keys)
		rows := make([]string, 0, len(keys))
		for _, k := range keys {
			c := matrix[k]
			rows = append(rows, fmt.Sprintf("%s pass=%d fail=%d rejected=%d apierr=%d", k, c.Pass, c.Fail, c.Rejected, c.ApiErr))
		}
		rec.SetExtra("sweep_matrix(layout|api|role|form|size)", rows)
	}

	// ---- phase 1b: explicit histories -------------------------------------------------
	// Every real block (all eras, EBB included) plus, for each, two siblings that
	// keep the header and/or the body bytes: S1 = same header, same body, block
	// array head 0x98 (every offset moves by one) and S2 = same body, header
	// array head 0x98 (different header bytes). The sequence is run forwards,
	// backwards and interleaved with failed calls on one shared input buffer; the
	// table of an item must be the same in every pass (and is judged against the
	// xcbor model in the first).
	{
		type hItem struct {
			name string
			typ  uint
			b    []byte
		}
		var items []hItem
		for _, fx := range fixtures.Blocks() {
			items = append(items, hItem{fx.Name, fx.Type, fx.Bytes})
			if fx.Type == fixtures.TypeByronEbb {
				continue
			}
			tree := mustParse(fx.Bytes)
			for i, form := range []xcbor.Form{xcbor.FormW1, xcbor.FormW2} {
				if buf, err := applyPlan(fx.Type, tree, []edit{{Idx: i, Role: []string{"block-array", "header-array"}[i], Form: form, Tx: -1}}); err == nil {
					items = append(items, hItem{fmt.Sprintf("%s/S%d", fx.Name, i+1), fx.Type, buf})
				}
			}
		}
		first := map[string]*common.BlockTransactionOffsets{}
		firstErr := map[string]bool{}
		nHist := 0
		visit := func(it hItem, pass string, failFirst bool) {
			lay := layoutOf(it.typ)
			for _, api := range apis {
				if failFirst {
					in := viaScratch(it.b[:len(it.b)*2/3])
					_, _ = callAPI(api, it.typ, in)
					clobber(in)
				}
				in := viaScratch(it.b)
				o, err := callAPI(api, it.typ, in)
				clobber(in)
				rec.Eval()
				nHist++
				k := it.name + "|" + api
				if prev, seen := first[k]; !seen {
					first[k], firstErr[k] = copyOffsets(o), err != nil
				} else if d := sameOffsets(prev, o); d != "" || firstErr[k] != (err != nil) {
					rec.Violation(fmt.Sprintf("C07:%s:%s:history:order-dependent", lay, api),
						fmt.Sprintf("%s on block %s gives another result in pass %q than when first called (error then %v, now %v): %s", api, it.name, pass, firstErr[k], err, d),
						map[string]any{"block": it.name, "pass": pass, "api": api})
				}
			}
		}
		for _, it := range items { // forwards; also judged
			if it.typ != fixtures.TypeByronEbb || true {
				v, err := evaluate(it.typ, it.b)
				if err == nil && v.Accepted {
					report(rec.Violation, baseBlock{Name: "history:" + it.name, Type: it.typ}, nil, v, it.b, func(api string) string {
						return fmt.Sprintf("C07:%s:%s:history:sibling-block:%s", layoutOf(it.typ), api, it.name)
					})
					if v.St["streaming"].Reported+v.St["extract"].Reported > 0 {
						rec.NonTrivial("history "+it.name, nil)
					}
				}
			}
			visit(it, "forwards", false)
		}
		for i := len(items) - 1; i >= 0; i-- {
			visit(items[i], "backwards after failed calls", true)
		}
		for i := range items { // A, sibling, A, other era, A …
			visit(items[i], "interleaved", false)
			visit(items[(i*7+3)%len(items)], "interleaved", i%2 == 0)
			visit(items[i], "interleaved", false)
		}
		rec.SetExtra("n_history_calls", nHist)
	}

	// ---- phase 2: generated blocks × random multi-edit plans -----------------------
	big := rec.Thorough()
	maxEdits := rec.Pick(4, 6)
	tps := templates()
	fxs := fixtures.SmallBlocks()
	rec.Check(func(rt *rapid.T) {
		var b baseBlock
		if rapid.IntRange(0, 3).Draw(rt, "useFixture") == 0 {
			fx := fxs[rapid.IntRange(0, len(fxs)-1).Draw(rt, "fixture")]
			b = baseBlock{Name: fx.Name, Type: fx.Type, Tree: mustParse(fx.Bytes)}
			rec.Class("base_fixture")
		} else {
			tp := tps[rapid.IntRange(0, len(tps)-1).Draw(rt, "template")]
			tree, info := genBlock(rt, tp, big)
			b = baseBlock{Name: "gen:" + info.String(), Type: tp.Type, Tree: tree}
			rec.Class("base_generated")
			switch {
			case info.NTx >= 256:
				rec.Class("gen_ntx_ge256")
			case info.NTx >= 24:
				rec.Class("gen_ntx_ge24")
			case info.NTx == 0:
				rec.Class("gen_ntx_0")
			}
			if info.MaxOuts >= 24 {
				rec.Class("gen_outputs_ge24")
			}
			if info.Synth > 0 {
				rec.Class("gen_synth_witness")
			}
		}
		lay := layoutOf(b.Type)
		rec.Class("layout_" + lay)
		rec.Class("era_type_" + fmt.Sprint(b.Type))
		m, err := buildModel(b.Type, b.Tree)
		if err != nil {
			rt.Fatalf("harness: model: %v", err)
		}
		nodes := b.Tree.Nodes()
		idx := make(map[*xcbor.Node]int, len(nodes))
		for i, n := range nodes {
			idx[n] = i
		}
		primary := apis[rapid.IntRange(0, 1).Draw(rt, "primaryApi")]
		// candidates grouped by role class so rare roles are drawn as often as common ones
		byRole := map[string][]roleRef{}
		var order, txOrder []string
		named := map[*xcbor.Node]bool{}
		for _, r := range m.roles() {
			if _, ok := byRole[r.Role]; !ok {
				order = append(order, r.Role)
				if r.Tx >= 0 {
					txOrder = append(txOrder, r.Role)
				}
			}
			byRole[r.Role] = append(byRole[r.Role], r)
			named[r.N] = true
		}
		var plan []edit
		used := map[int]bool{}
		nEd := rapid.IntRange(1, maxEdits).Draw(rt, "nEdits")
		for k := 0; k < nEd; k++ {
			var r roleRef
			if rapid.IntRange(0, 7).Draw(rt, "otherNode") == 0 {
				n := nodes[rapid.IntRange(0, len(nodes)-1).Draw(rt, "anyNode")]
				if named[n] {
					continue
				}
				r = roleRef{"other", n, -1}
			} else {
				pool := order
				if len(txOrder) > 0 && rapid.IntRange(0, 3).Draw(rt, "txLevel") != 0 {
					pool = txOrder // three in four edits go to a container inside a transaction
				}
				refs := byRole[pool[rapid.IntRange(0, len(pool)-1).Draw(rt, "role")]]
				r = refs[rapid.IntRange(0, len(refs)-1).Draw(rt, "instance")]
			}
			if used[idx[r.N]] {
				continue
			}
			var adm []xcbor.Form
			for _, f := range allForms {
				if !admissible(b.Type, r, f) {
					continue
				}
				e := edit{Role: r.Role, Form: f, Size: sizeClass(r.N)}
				if rec.IsKnown(causeKey(lay, primary, e)) {
					continue // excluded class: the search continues behind it
				}
				adm = append(adm, f)
			}
			if len(adm) == 0 {
				continue
			}
			f := adm[rapid.IntRange(0, len(adm)-1).Draw(rt, "form")]
			e := edit{Idx: idx[r.N], Role: r.Role, Form: f, Size: sizeClass(r.N), Tx: r.Tx}
			if f == xcbor.FormIndef && (r.N.Kind == xcbor.Bytes || r.N.Kind == xcbor.Text) && len(r.N.Data) > 1 {
				e.Chunk = rapid.IntRange(1, len(r.N.Data)).Draw(rt, "chunk")
			}
			used[e.Idx] = true
			plan = append(plan, e)
		}
		buf, err := applyPlan(b.Type, b.Tree, plan)
		if err != nil {
			rt.Fatalf("harness: %v", err)
		}
		v, err := evaluate(b.Type, buf)
		if err != nil {
			rt.Fatalf("%v", err)
		}
		rec.Eval()
		if !v.Accepted {
			rec.Class("rejected_by_era_decoder")
			for _, e := range plan {
				rec.Class("rejected_with_" + formClass(e.Form))
			}
			return
		}
		rec.Class("accepted")
		for _, e := range plan {
			rec.Class("accepted_edit_" + formClass(e.Form))
			rec.Class("accepted_role_" + e.Role)
		}
		for _, api := range apis {
			if v.Err[api] != "" {
				rec.Class(api + "_error_on_accepted_block(reports nothing)")
			}
			rec.ClassN(api+"_ranges_reported", v.St[api].Reported)
			rec.ClassN(api+"_components_unreported", v.St[api].Unreported)
			if v.St[api].MissingTxs > 0 {
				rec.Class(api + "_reports_no_location_for_some_transactions(" + lay + ")")
			}
		}
		if len(plan) > 0 && v.St["streaming"].Reported+v.St["extract"].Reported > 0 {
			rec.NonTrivial(b.Name+" | "+editsString(plan), map[string]any{"block": b.Name, "plan": editsString(plan), "len": len(buf),
				"head":               evi.Hex(buf[:min(len(buf), 48)]),
				"reported_streaming": v.St["streaming"].Reported, "reported_extract": v.St["extract"].Reported})
		}
		// attribution: the first single edit of the plan that alone reproduces a
		// failure of that API names the class; otherwise the whole plan does
		attribute := func(api string) string {
			failsAlone := func(p []edit) bool {
				bb, err := applyPlan(b.Type, b.Tree, p)
				if err != nil {
					return false
				}
				vv, err := evaluate(b.Type, bb)
				return err == nil && vv.Accepted && (len(encodingMismatches(vv.MM[api])) > 0 || vv.Helper[api] != "")
			}
			if failsAlone(nil) {
				return fmt.Sprintf("C07:%s:%s:unedited-generated-block", lay, api)
			}
			for _, e := range plan {
				if failsAlone([]edit{e}) {
					return causeKey(lay, api, e)
				}
			}
			ks := make([]string, len(plan))
			for i, e := range plan {
				ks[i] = e.Role + "=" + formClass(e.Form) + e.Size
			}
			sort.Strings(ks)
			return fmt.Sprintf("C07:%s:%s:combination:%s", lay, api, strings.Join(ks, "+"))
		}
		for _, api := range apis {
			if api != primary {
				// the plan was drawn to avoid the primary API's known classes only
				skip := false
				for _, e := range plan {
					skip = skip || rec.IsKnown(causeKey(lay, api, e))
				}
				if skip {
					rec.Class("secondary_api_not_judged(plan contains its known class)")
					v.MM[api], v.Helper[api] = nil, ""
				}
			}
		}
		report(func(key, what string, cs any) bool { return rec.Fail(rt, key, what, cs) }, b, plan, v, buf, attribute)
	})
}
