package offsets

import (
	"fmt"
	"sync"

	"github.com/blinklabs-io/gouroboros/ledger"
	"pgregory.net/rapid"

	"verif/harness/internal/fixtures"
	"verif/harness/internal/xcbor"
)

// Generated blocks: a real block of the era is the template (its header is kept,
// the commitment in it is recomputed by the harness), the transactions are
// drawn from the real transactions of that era and then resized / enriched by
// construction (output lists of chosen length, synthesised datums, redeemers,
// native and Plutus scripts, tag-258 sets where the era's CDDL has them,
// auxiliary data present / absent / synthesised, invalid-transaction lists).

type poolTx struct{ Body, Wit, Aux *xcbor.Node }

type template struct {
	Name string
	Type uint
	Root *xcbor.Node // parsed fixture
	Pool []poolTx
}

var (
	tplOnce sync.Once
	tpls    []*template
)

func mustParse(b []byte) *xcbor.Node {
	n, err := xcbor.ParseExact(b)
	if err != nil {
		panic(err)
	}
	return n
}

// unwrapWitnessSets turns the tag-258 script / datum sets of a witness-set map
// into plain arrays (same members). Generated base blocks carry plain arrays;
// the set form is re-introduced by the style plan as an explicit, attributable
// encoding choice ("set258").
func unwrapWitnessSets(wit *xcbor.Node) int {
	n := 0
	if wit == nil || wit.Kind != xcbor.Map {
		return 0
	}
	for i := 0; i+1 < len(wit.Items); i += 2 {
		k := wit.Items[i]
		if k.Kind != xcbor.Uint {
			continue
		}
		switch k.Arg {
		case 1, 3, 4, 6, 7, 8:
			if v := wit.Items[i+1]; v.Kind == xcbor.Tag && v.Arg == 258 {
				wit.Items[i+1] = v.Items[0]
				n++
			}
		}
	}
	return n
}

func poolOf(typ uint, root *xcbor.Node) []poolTx {
	m, err := buildModel(typ, root)
	if err != nil {
		panic(err)
	}
	var out []poolTx
	for _, tx := range m.Txs {
		w := tx.Wit.Clone()
		unwrapWitnessSets(w)
		out = append(out, poolTx{tx.Body, w, tx.Aux})
	}
	return out
}

// templates returns one template per fixture that can carry transactions.
func templates() []*template {
	tplOnce.Do(func() {
		for _, name := range []string{"byron_main", "shelley", "allegra", "mary", "alonzo", "babbage", "conway"} {
			fx := fixtures.ByName(name)
			root := mustParse(fx.Bytes)
			tpls = append(tpls, &template{Name: name, Type: fx.Type, Root: root, Pool: poolOf(fx.Type, root)})
		}
		// Dijkstra: the real block has no transactions; the pool is the
		// cardano-ledger Dijkstra transaction plus every Conway transaction
		// the Dijkstra block decoder accepts (tried once, here).
		dj := fixtures.ByName("dijkstra")
		t := &template{Name: "dijkstra", Type: dj.Type, Root: mustParse(dj.Bytes)}
		// (small Conway transactions first, the 15 KB ledger transaction last:
		// the Dijkstra decoder limits a transaction to 16 KiB, so only small
		// ones can be grown to >= 24 outputs / collection members)
		cw := fixtures.ByName("conway")
		cands := poolOf(cw.Type, mustParse(cw.Bytes))
		dtx := mustParse(fixtures.DijkstraTx())
		if dtx.Kind == xcbor.Array && len(dtx.Items) == 3 {
			p := poolTx{Body: dtx.Items[0], Wit: dtx.Items[1].Clone()}
			unwrapWitnessSets(p.Wit)
			if !isNull(dtx.Items[2]) {
				p.Aux = dtx.Items[2]
			}
			cands = append(cands, p)
		}
		for _, c := range cands {
			root := assemble(t, []poolTx{c}, nil)
			if err := recommit(t.Type, root); err != nil {
				continue
			}
			if _, err := ledger.NewBlockFromCbor(t.Type, root.Encode()); err == nil {
				t.Pool = append(t.Pool, c)
			}
		}
		tpls = append(tpls, t)
	})
	return tpls
}

func templateByName(name string) *template {
	for _, t := range templates() {
		if t.Name == name {
			return t
		}
	}
	panic("no template " + name)
}

// assemble builds a block tree of the template's era from transactions.
// The header is cloned from the template; call recommit afterwards.
func assemble(t *template, txs []poolTx, invalid []uint64) *xcbor.Node {
	hdr := t.Root.Items[0].Clone()
	switch layoutOf(t.Type) {
	case layByron:
		tb := t.Root.Items[1]
		var pairs []*xcbor.Node
		for _, tx := range txs {
			pairs = append(pairs, xcbor.A(tx.Body, tx.Wit))
		}
		pay := xcbor.AI(pairs...) // Byron lists are indefinite on the wire
		body := xcbor.A(pay, tb.Items[1].Clone(), tb.Items[2].Clone(), tb.Items[3].Clone())
		return xcbor.A(hdr, body, t.Root.Items[2].Clone())
	case layDijkstra:
		tb := t.Root.Items[1]
		var items []*xcbor.Node
		for _, tx := range txs {
			aux := tx.Aux
			if aux == nil {
				aux = xcbor.Null()
			}
			items = append(items, xcbor.A(tx.Body, tx.Wit, aux))
		}
		inv := xcbor.Null()
		if len(invalid) > 0 {
			var ii []*xcbor.Node
			for _, v := range invalid {
				ii = append(ii, xcbor.U(v))
			}
			inv = xcbor.A(ii...)
		}
		body := xcbor.A(inv, xcbor.A(items...), tb.Items[2].Clone(), tb.Items[3].Clone())
		return xcbor.A(hdr, body)
	}
	var bodies, wits, aux []*xcbor.Node
	for i, tx := range txs {
		bodies = append(bodies, tx.Body)
		wits = append(wits, tx.Wit)
		if tx.Aux != nil {
			aux = append(aux, xcbor.U(uint64(i)), tx.Aux)
		}
	}
	items := []*xcbor.Node{hdr, xcbor.A(bodies...), xcbor.A(wits...), xcbor.M(aux...)}
	if segmentCount(t.Type) == 4 {
		var ii []*xcbor.Node
		for _, v := range invalid {
			ii = append(ii, xcbor.U(v))
		}
		items = append(items, xcbor.A(ii...))
	}
	return xcbor.A(items...)
}

// ---- generators --------------------------------------------------------------

func genCount(rt *rapid.T, label string, big bool) int {
	switch rapid.IntRange(0, 9).Draw(rt, label+"Cls") {
	case 0:
		return 0
	case 1, 2, 3, 4, 5:
		return rapid.IntRange(1, 6).Draw(rt, label)
	case 6, 7:
		return rapid.IntRange(22, 26).Draw(rt, label) // around the 1-byte/2-byte head boundary
	case 8:
		if big {
			return rapid.IntRange(254, 258).Draw(rt, label) // around the 2-byte/3-byte boundary
		}
		return rapid.IntRange(7, 21).Draw(rt, label)
	}
	return rapid.IntRange(1, 3).Draw(rt, label)
}

func genBytes(rt *rapid.T, lo, hi int, label string) []byte {
	return rapid.SliceOfN(rapid.Byte(), lo, hi).Draw(rt, label)
}

func genPlutusData(rt *rapid.T, depth int) *xcbor.Node {
	k := rapid.IntRange(0, 5).Draw(rt, "pdKind")
	if depth <= 0 && k >= 2 {
		k %= 2
	}
	switch k {
	case 0:
		return xcbor.I(rapid.Int64().Draw(rt, "pdInt"))
	case 1:
		return xcbor.B(genBytes(rt, 0, 40, "pdBytes"))
	case 2:
		n := rapid.IntRange(0, 4).Draw(rt, "pdListN")
		items := make([]*xcbor.Node, n)
		for i := range items {
			items[i] = genPlutusData(rt, depth-1)
		}
		return xcbor.A(items...)
	case 3:
		n := rapid.IntRange(0, 3).Draw(rt, "pdMapN")
		var kv []*xcbor.Node
		for i := 0; i < n; i++ {
			// distinct keys by construction
			kv = append(kv, xcbor.U(uint64(i)), genPlutusData(rt, depth-1))
		}
		return xcbor.M(kv...)
	case 4:
		n := rapid.IntRange(0, 3).Draw(rt, "pdConN")
		items := make([]*xcbor.Node, n)
		for i := range items {
			items[i] = genPlutusData(rt, depth-1)
		}
		return xcbor.Tg(uint64(121+rapid.IntRange(0, 6).Draw(rt, "pdCon")), xcbor.A(items...))
	}
	n := rapid.IntRange(0, 2).Draw(rt, "pdCon102N")
	items := make([]*xcbor.Node, n)
	for i := range items {
		items[i] = genPlutusData(rt, depth-1)
	}
	return xcbor.Tg(102, xcbor.A(xcbor.U(uint64(rapid.IntRange(7, 300).Draw(rt, "pdCon102"))), xcbor.A(items...)))
}

func genNativeScript(rt *rapid.T, typ uint, depth int) *xcbor.Node {
	maxKind := 5
	if typ == fixtures.TypeShelley {
		maxKind = 3 // multisig only
	}
	k := rapid.IntRange(0, maxKind).Draw(rt, "nsKind")
	if depth <= 0 && k >= 1 && k <= 3 {
		k = 0
	}
	sub := func() *xcbor.Node {
		n := rapid.IntRange(0, 3).Draw(rt, "nsN")
		items := make([]*xcbor.Node, n)
		for i := range items {
			items[i] = genNativeScript(rt, typ, depth-1)
		}
		return xcbor.A(items...)
	}
	switch k {
	case 0:
		return xcbor.A(xcbor.U(0), xcbor.B(genBytes(rt, 28, 28, "nsKey")))
	case 1, 2:
		return xcbor.A(xcbor.U(uint64(k)), sub())
	case 3:
		return xcbor.A(xcbor.U(3), xcbor.U(uint64(rapid.IntRange(0, 3).Draw(rt, "nsM"))), sub())
	}
	return xcbor.A(xcbor.U(uint64(k)), xcbor.U(rapid.Uint64Range(0, 1<<40).Draw(rt, "nsSlot")))
}

func genMetadatum(rt *rapid.T, depth int) *xcbor.Node {
	k := rapid.IntRange(0, 4).Draw(rt, "mdKind")
	if depth <= 0 && k >= 3 {
		k %= 3
	}
	switch k {
	case 0:
		return xcbor.I(rapid.Int64().Draw(rt, "mdInt"))
	case 1:
		return xcbor.B(genBytes(rt, 0, 64, "mdBytes"))
	case 2:
		return xcbor.T(rapid.StringMatching(`[a-z ]{0,40}`).Draw(rt, "mdText"))
	case 3:
		n := rapid.IntRange(0, 3).Draw(rt, "mdListN")
		items := make([]*xcbor.Node, n)
		for i := range items {
			items[i] = genMetadatum(rt, depth-1)
		}
		return xcbor.A(items...)
	}
	n := rapid.IntRange(0, 3).Draw(rt, "mdMapN")
	var kv []*xcbor.Node
	for i := 0; i < n; i++ {
		kv = append(kv, xcbor.U(uint64(i)), genMetadatum(rt, depth-1))
	}
	return xcbor.M(kv...)
}

func genAux(rt *rapid.T) *xcbor.Node {
	n := rapid.IntRange(1, 3).Draw(rt, "auxN")
	var kv []*xcbor.Node
	for i := 0; i < n; i++ {
		kv = append(kv, xcbor.U(uint64(674+i)), genMetadatum(rt, 2))
	}
	return xcbor.M(kv...)
}

// witness-set synthesis: which keys the era's witness set has
func eraWitnessKeys(typ uint) (native bool, plutus []uint64, data bool) {
	switch {
	case typ == fixtures.TypeDijkstra:
		return true, []uint64{3, 6, 7, 8}, true
	case typ == fixtures.TypeConway:
		return true, []uint64{3, 6, 7}, true
	case typ == fixtures.TypeBabbage:
		return true, []uint64{3, 6}, true
	case typ == fixtures.TypeAlonzo:
		return true, []uint64{3}, true
	}
	return true, nil, false // Shelley (multisig), Allegra, Mary
}

// enrichWitness adds synthesised collections to a (cloned) witness-set map.
func enrichWitness(rt *rapid.T, typ uint, wit *xcbor.Node, big bool) {
	if wit.Kind != xcbor.Map {
		return
	}
	native, plutus, data := eraWitnessKeys(typ)
	// collections are generated as plain arrays; wrapping them as tag-258 sets
	// (Conway+) is an *encoding choice* and therefore part of the style plan
	wrap := func(arr *xcbor.Node) *xcbor.Node { return arr }
	count := func(label string) int {
		switch rapid.IntRange(0, 7).Draw(rt, label+"Cls") {
		case 0:
			return 24 + rapid.IntRange(0, 2).Draw(rt, label+"Big")
		default:
			return rapid.IntRange(1, 4).Draw(rt, label)
		}
	}
	_ = big
	if native && rapid.IntRange(0, 2).Draw(rt, "addNative") == 0 {
		n := count("nNative")
		items := make([]*xcbor.Node, 0, n)
		seen := map[string]bool{}
		for i := 0; i < n; i++ {
			s := genNativeScript(rt, typ, 2)
			if k := string(s.Encode()); !seen[k] {
				seen[k] = true
				items = append(items, s)
			}
		}
		wit.MapSet(1, wrap(xcbor.A(items...)))
	}
	for _, key := range plutus {
		if rapid.IntRange(0, 2).Draw(rt, "addPlutus") != 0 {
			continue
		}
		n := count("nPlutus")
		items := make([]*xcbor.Node, 0, n)
		seen := map[string]bool{}
		for i := 0; i < n; i++ {
			b := genBytes(rt, 1, 60, "script")
			if !seen[string(b)] {
				seen[string(b)] = true
				items = append(items, xcbor.B(b))
			}
		}
		wit.MapSet(key, wrap(xcbor.A(items...)))
	}
	if data && rapid.IntRange(0, 1).Draw(rt, "addDatums") == 0 {
		n := count("nDatums")
		items := make([]*xcbor.Node, 0, n)
		seen := map[string]bool{}
		for i := 0; i < n; i++ {
			d := genPlutusData(rt, 2)
			if k := string(d.Encode()); !seen[k] {
				seen[k] = true
				items = append(items, d)
			}
		}
		wit.MapSet(4, wrap(xcbor.A(items...)))
	}
	if data && rapid.IntRange(0, 1).Draw(rt, "addRedeemers") == 0 {
		n := count("nRedeemers")
		maxTag := 3
		if typ >= fixtures.TypeConway {
			maxTag = 5
		}
		mapForm := typ == fixtures.TypeDijkstra || (typ == fixtures.TypeConway && rapid.Bool().Draw(rt, "redeemerMap"))
		var items []*xcbor.Node
		for i := 0; i < n; i++ {
			// distinct (tag, index) by construction
			tag := xcbor.U(uint64(i % (maxTag + 1)))
			idx := xcbor.U(uint64(i / (maxTag + 1)))
			ex := xcbor.A(xcbor.U(rapid.Uint64Range(0, 1<<32).Draw(rt, "exMem")), xcbor.U(rapid.Uint64Range(0, 1<<40).Draw(rt, "exSteps")))
			d := genPlutusData(rt, 2)
			if mapForm {
				items = append(items, xcbor.A(tag, idx), xcbor.A(d, ex))
			} else {
				items = append(items, xcbor.A(tag, idx, d, ex))
			}
		}
		if mapForm {
			wit.MapSet(5, xcbor.M(items...))
		} else {
			wit.MapSet(5, xcbor.A(items...))
		}
	}
}

// dijkstraMaxTx is the Dijkstra decoder's transaction size limit (MaxTxSize);
// a resize that would exceed it is not performed.
const dijkstraMaxTx = 16384

// resizeOutputs makes the outputs list of a (cloned) body n long by repeating
// the real outputs.
func resizeOutputs(lay string, body *xcbor.Node, n int) {
	if lay == layDijkstra {
		if outs := body.MapGet(1); outs != nil && outs.Kind == xcbor.Array && len(outs.Items) > 0 {
			per := 0
			for _, o := range outs.Items {
				per = max(per, len(o.Encode()))
			}
			if len(body.Encode())+per*n > dijkstraMaxTx/2 {
				return
			}
		}
	}
	resizeOutputsAny(lay, body, n)
}

func resizeOutputsAny(lay string, body *xcbor.Node, n int) {
	var outs *xcbor.Node
	if lay == layByron {
		if body.Kind != xcbor.Array || len(body.Items) < 2 {
			return
		}
		outs = body.Items[1]
	} else {
		outs = body.MapGet(1)
	}
	if outs == nil || outs.Kind != xcbor.Array || len(outs.Items) == 0 || n < 1 {
		return
	}
	src := outs.Items
	items := make([]*xcbor.Node, n)
	for i := range items {
		items[i] = src[i%len(src)].Clone()
	}
	outs.Items = items
	if !outs.Indef {
		outs.Width = 0 // the encoder picks the minimal width that fits
	}
}

type genInfo struct {
	InvalidShape string
	Tpl          string
	NTx          int
	MaxOuts      int
	Synth        int
	NInvalid     int
}

func (g genInfo) String() string {
	return fmt.Sprintf("%s ntx=%d maxouts=%d synth=%d invalid=%d%s", g.Tpl, g.NTx, g.MaxOuts, g.Synth, g.NInvalid, g.InvalidShape)
}

// genBlock draws a block of the template's era. The result is a built tree
// (not yet recommitted).
func genBlock(rt *rapid.T, t *template, big bool) (*xcbor.Node, genInfo) {
	info := genInfo{Tpl: t.Name}
	lay := layoutOf(t.Type)
	n := genCount(rt, "nTx", big)
	if len(t.Pool) == 0 {
		n = 0
	}
	txs := make([]poolTx, n)
	for i := range txs {
		p := t.Pool[rapid.IntRange(0, len(t.Pool)-1).Draw(rt, "poolTx")]
		tx := poolTx{Body: p.Body.Clone(), Wit: p.Wit.Clone()}
		// outputs
		if rapid.IntRange(0, 2).Draw(rt, "resizeOuts") == 0 {
			k := genCount(rt, "nOuts", false)
			if k < 1 {
				k = 1
			}
			resizeOutputs(lay, tx.Body, k)
			if k > info.MaxOuts {
				info.MaxOuts = k
			}
		}
		if lay != layByron {
			if rapid.IntRange(0, 1).Draw(rt, "enrich") == 0 {
				enrichWitness(rt, t.Type, tx.Wit, big)
				info.Synth++
			}
			switch rapid.IntRange(0, 3).Draw(rt, "auxMode") {
			case 0, 1:
				if p.Aux != nil {
					tx.Aux = p.Aux.Clone()
				}
			case 2:
				tx.Aux = genAux(rt)
			}
		}
		txs[i] = tx
	}
	var invalid []uint64
	if (lay == layShelley && segmentCount(t.Type) == 4 || lay == layDijkstra) && n > 0 && rapid.IntRange(0, 2).Draw(rt, "withInvalid") == 0 {
		for i := 0; i < n; i++ {
			if rapid.IntRange(0, 3).Draw(rt, "isInvalid") == 0 {
				invalid = append(invalid, uint64(i))
			}
		}
	}
	// special shapes of the invalid-index list: unsorted, duplicate, out of range
	// (the decoder decides; a rejected block is simply not judged)
	if len(invalid) > 0 {
		switch rapid.IntRange(0, 7).Draw(rt, "invalidShape") {
		case 0:
			for i, j := 0, len(invalid)-1; i < j; i, j = i+1, j-1 {
				invalid[i], invalid[j] = invalid[j], invalid[i]
			}
			info.InvalidShape = "unsorted"
		case 1:
			invalid = append(invalid, invalid[0])
			info.InvalidShape = "duplicate"
		case 2:
			invalid = append(invalid, uint64(n))
			info.InvalidShape = "out-of-range"
		}
	}
	info.NTx = n
	info.NInvalid = len(invalid)
	return assemble(t, txs, invalid), info
}

// enrichFixed deterministically adds n-member script / datum / redeemer
// collections (whatever the era's witness set has) to a cloned witness set.
func enrichFixed(typ uint, wit *xcbor.Node, n, salt int) {
	if wit.Kind != xcbor.Map || n < 1 {
		return
	}
	native, plutus, data := eraWitnessKeys(typ)
	pat := func(i, l int) []byte {
		b := make([]byte, l)
		for j := range b {
			b[j] = byte(i*31 + j*7 + salt)
		}
		return b
	}
	if native {
		var items []*xcbor.Node
		for i := 0; i < n; i++ {
			items = append(items, xcbor.A(xcbor.U(1), xcbor.A(xcbor.A(xcbor.U(0), xcbor.B(pat(i, 28))))))
		}
		wit.MapSet(1, xcbor.A(items...))
	}
	for q, key := range plutus {
		var items []*xcbor.Node
		for i := 0; i < n; i++ {
			items = append(items, xcbor.B(pat(i+100*q, 5+i%30)))
		}
		wit.MapSet(key, xcbor.A(items...))
	}
	if data {
		var items []*xcbor.Node
		for i := 0; i < n; i++ {
			items = append(items, xcbor.Tg(121, xcbor.A(xcbor.U(uint64(i)), xcbor.B(pat(i, 8)), xcbor.A(xcbor.I(int64(-i-1))))))
		}
		wit.MapSet(4, xcbor.A(items...))
		maxTag := 3
		if typ >= fixtures.TypeConway {
			maxTag = 5
		}
		mapForm := typ == fixtures.TypeDijkstra || (typ == fixtures.TypeConway && salt%2 == 1)
		var rs []*xcbor.Node
		for i := 0; i < n; i++ {
			tag, idx := xcbor.U(uint64(i%(maxTag+1))), xcbor.U(uint64(i/(maxTag+1)))
			ex := xcbor.A(xcbor.U(uint64(1000+i)), xcbor.U(uint64(500000+i)))
			d := xcbor.Tg(122, xcbor.A(xcbor.U(uint64(i)), xcbor.M(xcbor.U(1), xcbor.B(pat(i, 3)))))
			if mapForm {
				rs = append(rs, xcbor.A(tag, idx), xcbor.A(d, ex))
			} else {
				rs = append(rs, xcbor.A(tag, idx, d, ex))
			}
		}
		if mapForm {
			wit.MapSet(5, xcbor.M(rs...))
		} else {
			wit.MapSet(5, xcbor.A(rs...))
		}
	}
}

// bigBlock builds a deterministic block with nTx transactions whose outputs
// lists have nOuts entries and whose witness sets carry nColl-member synthesised
// collections, for the first firstK transactions (used by the exhaustive
// single-edit sweep).
func bigBlock(t *template, nTx, nOuts, nColl, firstK int) *xcbor.Node {
	if len(t.Pool) == 0 {
		nTx = 0
	}
	lay := layoutOf(t.Type)
	txs := make([]poolTx, nTx)
	for i := range txs {
		p := t.Pool[i%len(t.Pool)]
		tx := poolTx{Body: p.Body, Wit: p.Wit, Aux: p.Aux} // shared nodes: the tree is cloned before any edit
		if i < firstK {
			tx = poolTx{Body: p.Body.Clone(), Wit: p.Wit.Clone()}
			if p.Aux != nil {
				tx.Aux = p.Aux.Clone()
			}
		}
		if tx.Aux != nil {
		} else if lay != layByron && i%2 == 1 {
			tx.Aux = xcbor.M(xcbor.U(674), xcbor.T("generated"))
		}
		if nOuts > 0 && i < firstK {
			resizeOutputs(lay, tx.Body, nOuts)
		}
		if lay != layByron && nColl > 0 && i < firstK {
			w := tx.Wit.Clone()
			enrichFixed(t.Type, w, nColl, i)
			if lay == layDijkstra && len(tx.Body.Encode())+len(w.Encode()) > dijkstraMaxTx-1500 {
				w = tx.Wit.Clone()
				enrichFixed(t.Type, w, 2, i)
			}
			tx.Wit = w
		}
		txs[i] = tx
	}
	return assemble(t, txs, nil)
}

// ---- components of exact encoded size -----------------------------------------------------
//
// Special sizes (23/24, 255/256, 65535/65536 bytes: the CBOR head-width and
// uint8/uint16 boundaries) for a transaction body, witness set or auxiliary
// data item. A "bulk knob" (a byte string somewhere inside the component that
// the era decoder accepts at any length) is sized so that the encoding of the
// whole component has exactly the wanted length.

func headLen(l int) int {
	switch {
	case l < 24:
		return 1
	case l < 256:
		return 2
	case l < 65536:
		return 3
	}
	return 5
}

// padBytes returns a byte-string node whose encoding is exactly enc bytes
// (enc >= 1); where the minimal head would jump over enc, the head is one
// step wider than minimal.
func padBytes(enc int, fill byte) *xcbor.Node {
	mk := func(l, width int) *xcbor.Node {
		b := make([]byte, l)
		for i := range b {
			b[i] = fill + byte(i*13)
		}
		n := xcbor.B(b)
		if width > n.Width {
			n.Width = width
		}
		return n
	}
	for _, h := range []int{1, 2, 3, 5} {
		if l := enc - h; l >= 0 && headLen(l) == h {
			return mk(l, 0)
		}
	}
	// gap: use the next wider head for the largest payload that fits
	for _, hw := range [][2]int{{2, 1}, {3, 2}, {5, 4}, {9, 8}} {
		if l := enc - hw[0]; l >= 0 && headLen(l) < hw[0] {
			return mk(l, hw[1])
		}
	}
	panic(fmt.Sprintf("padBytes(%d)", enc))
}

// fitExact sizes the pad so that build(pad) encodes to exactly target bytes.
func fitExact(target int, build func(pad *xcbor.Node) *xcbor.Node) *xcbor.Node {
	base := len(build(padBytes(1, 0)).Encode()) - 1
	guess := target - base
	for e := guess + 2; e >= guess-14 && e >= 1; e-- {
		if n := build(padBytes(e, byte(target))); len(n.Encode()) == target {
			return n
		}
	}
	return nil
}

// sizedTx returns a transaction of the template's era whose body / witness set
// / auxiliary data ("body", "witness", "aux") encodes to exactly size bytes, or
// nil when the era offers no knob for it.
func sizedTx(t *template, which string, size int) *poolTx {
	if len(t.Pool) == 0 {
		return nil
	}
	lay := layoutOf(t.Type)
	if lay == layDijkstra && size > dijkstraMaxTx/2 {
		return nil // the Dijkstra decoder limits a transaction to 16 KiB
	}
	p := t.Pool[0]
	tx := poolTx{Body: p.Body.Clone(), Wit: p.Wit.Clone()}
	if p.Aux != nil {
		tx.Aux = p.Aux.Clone()
	}
	switch which {
	case "aux":
		if lay == layByron {
			return nil
		}
		tx.Aux = fitExact(size, func(pad *xcbor.Node) *xcbor.Node { return xcbor.M(xcbor.U(674), pad) })
		if tx.Aux == nil {
			return nil
		}
	case "witness":
		if lay == layByron {
			// one witness [0, #6.24(bytes)] whose byte string is the knob
			tx.Wit = fitExact(size, func(pad *xcbor.Node) *xcbor.Node {
				return xcbor.AI(xcbor.A(xcbor.U(0), xcbor.Tg(24, pad)))
			})
		} else {
			_, plutus, _ := eraWitnessKeys(t.Type)
			if len(plutus) == 0 {
				return nil
			}
			tx.Wit = fitExact(size, func(pad *xcbor.Node) *xcbor.Node { return xcbor.M(xcbor.U(plutus[0]), xcbor.A(pad)) })
		}
		if tx.Wit == nil {
			return nil
		}
	case "body":
		var body *xcbor.Node
		switch {
		case lay == layByron:
			// attributes map of the tx carries the knob
			src := p.Body
			body = fitExact(size, func(pad *xcbor.Node) *xcbor.Node {
				b := src.Clone()
				b.Items[2] = xcbor.M(xcbor.U(9), pad)
				return b
			})
			if body == nil { // too small for the real inputs/outputs: empty lists
				body = fitExact(size, func(pad *xcbor.Node) *xcbor.Node {
					return xcbor.A(xcbor.AI(), xcbor.AI(), xcbor.M(xcbor.U(9), pad))
				})
			}
		case t.Type >= fixtures.TypeBabbage:
			// an extra map-form output with a script reference
			// #6.24(bytes .cbor [1, plutus_v1_script]) carries the knob
			mkOut := func(pad *xcbor.Node) *xcbor.Node {
				inner := xcbor.A(xcbor.U(1), pad).Encode()
				addr := make([]byte, 29)
				addr[0] = 0x61
				return xcbor.M(xcbor.U(0), xcbor.B(addr), xcbor.U(1), xcbor.U(1000000), xcbor.U(3), xcbor.Tg(24, xcbor.B(inner)))
			}
			src := p.Body
			body = fitExact(size, func(pad *xcbor.Node) *xcbor.Node {
				b := src.Clone()
				outs := b.MapGet(1)
				outs.Items = append(outs.Items, mkOut(pad))
				if !outs.Indef {
					outs.Width = 0
				}
				return b
			})
			if body == nil {
				body = fitExact(size, func(pad *xcbor.Node) *xcbor.Node {
					return xcbor.M(xcbor.U(0), xcbor.A(), xcbor.U(1), xcbor.A(mkOut(pad)), xcbor.U(2), xcbor.U(0))
				})
			}
		}
		if body == nil {
			return nil
		}
		tx.Body = body
	}
	return &tx
}

// sizedBlock: two ordinary transactions around one with a component of exact size.
func sizedBlock(t *template, which string, size int) *xcbor.Node {
	stx := sizedTx(t, which, size)
	if stx == nil {
		return nil
	}
	mk := func(i int) poolTx {
		p := t.Pool[i%len(t.Pool)]
		tx := poolTx{Body: p.Body.Clone(), Wit: p.Wit.Clone()}
		if p.Aux != nil {
			tx.Aux = p.Aux.Clone()
		}
		return tx
	}
	return assemble(t, []poolTx{mk(0), *stx, mk(1)}, nil)
}

// hugeBlock: for eras without an exact-size knob, a transaction whose body (by
// repeating its outputs) or witness set (by a long native-script list) exceeds
// 64 KiB. Returns nil where sizedTx already covers 65536 or the era has a
// transaction size limit.
func hugeBlock(t *template, which string) *xcbor.Node {
	if len(t.Pool) == 0 || layoutOf(t.Type) != layShelley || sizedTx(t, which, 65536) != nil {
		return nil
	}
	p := t.Pool[0]
	tx := poolTx{Body: p.Body.Clone(), Wit: p.Wit.Clone()}
	switch which {
	case "body":
		outs := tx.Body.MapGet(1)
		if outs == nil || len(outs.Items) == 0 {
			return nil
		}
		per := len(outs.Items[0].Encode())
		resizeOutputsAny(layShelley, tx.Body, 65536/per+2)
	case "witness":
		var items []*xcbor.Node
		for i := 0; i < 2100; i++ {
			k := make([]byte, 28)
			k[0], k[1] = byte(i), byte(i>>8)
			items = append(items, xcbor.A(xcbor.U(0), xcbor.B(k)))
		}
		tx.Wit.MapSet(1, xcbor.A(items...))
	}
	other := poolTx{Body: p.Body.Clone(), Wit: p.Wit.Clone()}
	return assemble(t, []poolTx{other, tx, other}, nil)
}
