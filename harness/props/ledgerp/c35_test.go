package ledgerp

import (
	"bytes"
	"fmt"
	"testing"

	"github.com/blinklabs-io/gouroboros/ledger/byron"
	"golang.org/x/crypto/blake2b"
	"pgregory.net/rapid"

	"verif/harness/internal/evi"
)

// refMerkle is written from the property statement: leaves tagged 0, branches
// tagged 1, a node of n>1 items splits at the largest power of two strictly
// below n, the empty list hashes the empty string.
func refMerkle(items [][]byte) [32]byte {
	if len(items) == 0 {
		return blake2b.Sum256(nil)
	}
	if len(items) == 1 {
		return blake2b.Sum256(append([]byte{0}, items[0]...))
	}
	n := len(items)
	split := 1
	for split<<1 < n { // largest power of two p with p < n
		split <<= 1
	}
	l := refMerkle(items[:split])
	r := refMerkle(items[split:])
	buf := make([]byte, 0, 65)
	buf = append(buf, 1)
	buf = append(buf, l[:]...)
	buf = append(buf, r[:]...)
	return blake2b.Sum256(buf)
}

func genMerkleLen(t *rapid.T, maxN int) int {
	// bias to the neighbourhood of powers of two
	if rapid.Bool().Draw(t, "nearPow2") {
		p := 1 << rapid.IntRange(0, 9).Draw(t, "pow")
		n := p + rapid.IntRange(-2, 2).Draw(t, "delta")
		if n < 0 {
			n = 0
		}
		if n > maxN {
			n = maxN
		}
		return n
	}
	return rapid.IntRange(0, maxN).Draw(t, "n")
}

func TestC35(t *testing.T) {
	rec := evi.New(t, "C35", evi.Exploration,
		"lists of 0..N random byte-string items (lengths biased to 2^k-2..2^k+2, k<=9; items 0..64 bytes plus, in a third of the cases, 1-3 transaction-sized items of 2^k-2..2^k+2 bytes, k<=14; duplicates allowed), a deterministic sweep of every list length and of every item size 0..2100 and around 2^12..2^17; oracle = independent recursive reference construction, plus the metamorphic relation that flipping any bit of any item changes the root; non-trivial = list length >= 3 (at least one unbalanced split decision); distinct by (length, first item bytes, root)")
	defer rec.Finish()
	rec.Assume("blake2b-256 from golang.org/x/crypto is trusted by both sides")
	maxN := rec.Pick(520, 1100)

	// deterministic sweep: every length 0..maxN once with fixed-pattern items
	for n := 0; n <= maxN; n++ {
		items := make([][]byte, n)
		for i := range items {
			items[i] = []byte{byte(i), byte(i >> 8), byte(n)}
		}
		got := byron.MerkleRoot(items)
		want := refMerkle(items)
		rec.Eval()
		if n >= 3 {
			rec.NonTrivial(fmt.Sprintf("sweep n=%d", n), nil)
		}
		if !bytes.Equal(got[:], want[:]) {
			rec.Violation(fmt.Sprintf("sweep:n=%d", n),
				fmt.Sprintf("MerkleRoot of %d items = %x, reference = %x", n, got[:], want[:]),
				map[string]any{"n": n, "items": "item i = [i&255, i>>8, n]"})
			break
		}
	}
	rec.SetExtra("lengths_swept_exhaustively", maxN+1)

	// deterministic sweep over ITEM sizes (real Byron items are whole transactions / proofs,
	// far larger than a few bytes): 1-3 item lists with every size 0..2100 and 2^k-2..2^k+2, k<=17
	sizes := []int{}
	for sz := 0; sz <= 2100; sz++ {
		sizes = append(sizes, sz)
	}
	for k := 12; k <= 17; k++ {
		for d := -2; d <= 2; d++ {
			sizes = append(sizes, 1<<k+d)
		}
	}
	for _, sz := range sizes {
		mk := func(seed byte) []byte {
			b := make([]byte, sz)
			for i := range b {
				b[i] = byte(i*7) + seed
			}
			return b
		}
		for _, items := range [][][]byte{{mk(1)}, {mk(2), {9}}, {{9}, mk(3), mk(4)}} {
			got := byron.MerkleRoot(items)
			want := refMerkle(items)
			rec.Eval()
			rec.NonTrivial(fmt.Sprintf("size-sweep size=%d n=%d", sz, len(items)), nil)
			if !bytes.Equal(got[:], want[:]) {
				rec.Violation(fmt.Sprintf("size-sweep:n=%d", len(items)),
					fmt.Sprintf("MerkleRoot of %d items with an item of %d bytes = %x, reference = %x", len(items), sz, got[:], want[:]),
					map[string]any{"n": len(items), "item_size": sz, "items": "item bytes b[i] = 7*i + seed"})
				break
			}
		}
	}
	rec.SetExtra("item_sizes_swept", len(sizes))

	rec.Check(func(rt *rapid.T) {
		n := genMerkleLen(rt, maxN)
		dup := rapid.Bool().Draw(rt, "dups")
		items := make([][]byte, n)
		for i := range items {
			if dup && i > 0 && rapid.IntRange(0, 3).Draw(rt, "dupPrev") == 0 {
				items[i] = items[i-1]
				continue
			}
			items[i] = rapid.SliceOfN(rapid.Byte(), 0, 64).Draw(rt, "item")
		}
		// a few items of realistic (transaction-sized) length, sizes biased to 2^k-2..2^k+2
		maxSize := 0
		if n > 0 && rapid.IntRange(0, 2).Draw(rt, "bigItems") == 0 {
			for j := rapid.IntRange(1, 3).Draw(rt, "nBig"); j > 0; j-- {
				sz := 1<<rapid.IntRange(6, 14).Draw(rt, "bigPow") + rapid.IntRange(-2, 2).Draw(rt, "bigDelta")
				b := make([]byte, sz)
				fill := rapid.SliceOfN(rapid.Byte(), 1, 8).Draw(rt, "bigFill")
				for i := range b {
					b[i] = fill[i%len(fill)] + byte(i>>8)
				}
				items[rapid.IntRange(0, n-1).Draw(rt, "bigAt")] = b
				if sz > maxSize {
					maxSize = sz
				}
			}
			rec.Class("has_large_item")
		}
		got := byron.MerkleRoot(items)
		want := refMerkle(items)
		rec.Eval()
		switch {
		case n == 0:
			rec.Class("empty")
		case n&(n-1) == 0:
			rec.Class("len_pow2")
		case (n-1)&(n-2) == 0:
			rec.Class("len_pow2_plus1")
		default:
			rec.Class("len_other")
		}
		if n >= 3 {
			var first []byte
			if n > 0 {
				first = items[0]
			}
			rec.NonTrivial(fmt.Sprintf("n=%d first=%x root=%x", n, first, want[:8]),
				map[string]any{"n": n, "first_item": evi.Hex(first), "root": evi.Hex(want[:])})
		}
		// metamorphic: changing one bit anywhere in one item changes the root
		if n > 0 {
			at := rapid.IntRange(0, n-1).Draw(rt, "flipItem")
			if len(items[at]) > 0 {
				mut := make([][]byte, n)
				copy(mut, items)
				b := append([]byte(nil), items[at]...)
				pos := len(b) - 1 - rapid.IntRange(0, min(len(b)-1, 2)).Draw(rt, "flipFromEnd")
				if rapid.Bool().Draw(rt, "flipAnywhere") {
					pos = rapid.IntRange(0, len(b)-1).Draw(rt, "flipPos")
				}
				b[pos] ^= 1 << rapid.IntRange(0, 7).Draw(rt, "flipBit")
				mut[at] = b
				rec.Eval()
				if r2 := byron.MerkleRoot(mut); bytes.Equal(r2[:], got[:]) {
					rec.Fail(rt, "root-ignores-item-byte",
						fmt.Sprintf("MerkleRoot of %d items is unchanged (%x) after flipping a bit of byte %d of item %d (%d bytes)", n, got[:], pos, at, len(b)),
						map[string]any{"n": n, "item": at, "item_len": len(b), "byte": pos})
				}
			}
		}
		if !bytes.Equal(got[:], want[:]) {
			hexItems := make([]string, len(items))
			for i, it := range items {
				hexItems[i] = evi.Hex(it)
			}
			rec.Fail(rt, fmt.Sprintf("root-mismatch:n=%d", n),
				fmt.Sprintf("MerkleRoot of %d items = %x, reference = %x", n, got[:], want[:]),
				map[string]any{"items": hexItems})
		}
	})
}
