package ledgerp

import (
	"bytes"
	"fmt"
	"testing"

	"github.com/blinklabs-io/gouroboros/ledger/byron"
	"golang.org/x/crypto/blake2b"
	"pgregory.net/rapid"

	"verif/harness/internal/evi"
)

// refMerkle is written from the property statement: leaves tagged 0, branches
// tagged 1, a node of n>1 items splits at the largest power of two strictly
// below n, the empty list hashes the empty string.
func refMerkle(items [][]byte) [32]byte {
	if len(items) == 0 {
		return blake2b.Sum256(nil)
	}
	if len(items) == 1 {
		return blake2b.Sum256(append([]byte{0}, items[0]...))
	}
	n := len(items)
	split := 1
	for split<<1 < n { // largest power of two p with p < n
		split <<= 1
	}
	l := refMerkle(items[:split])
	r := refMerkle(items[split:])
	buf := make([]byte, 0, 65)
	buf = append(buf, 1)
	buf = append(buf, l[:]...)
	buf = append(buf, r[:]...)
	return blake2b.Sum256(buf)
}

func genMerkleLen(t *rapid.T, maxN int) int {
	// bias to the neighbourhood of powers of two
	if rapid.Bool().Draw(t, "nearPow2") {
		p := 1 << rapid.IntRange(0, 9).Draw(t, "pow")
		n := p + rapid.IntRange(-2, 2).Draw(t, "delta")
		if n < 0 {
			n = 0
		}
		if n > maxN {
			n = maxN
		}
		return n
	}
	return rapid.IntRange(0, maxN).Draw(t, "n")
}

func TestC35(t *testing.T) {
	rec := evi.New(t, "C35", evi.Exploration,
		"lists of 0..N random byte-string items (lengths biased to 2^k-2..2^k+2, k<=9; items 0..64 bytes, duplicates allowed); oracle = independent recursive reference construction; non-trivial = list length >= 3 (at least one unbalanced split decision); distinct by (length, first item bytes, root)")
	defer rec.Finish()
	rec.Assume("blake2b-256 from golang.org/x/crypto is trusted by both sides")
	maxN := rec.Pick(520, 1100)

	// deterministic sweep: every length 0..maxN once with fixed-pattern items
	for n := 0; n <= maxN; n++ {
		items := make([][]byte, n)
		for i := range items {
			items[i] = []byte{byte(i), byte(i >> 8), byte(n)}
		}
		got := byron.MerkleRoot(items)
		want := refMerkle(items)
		rec.Eval()
		if n >= 3 {
			rec.NonTrivial(fmt.Sprintf("sweep n=%d", n), nil)
		}
		if !bytes.Equal(got[:], want[:]) {
			rec.Violation(fmt.Sprintf("sweep:n=%d", n),
				fmt.Sprintf("MerkleRoot of %d items = %x, reference = %x", n, got[:], want[:]),
				map[string]any{"n": n, "items": "item i = [i&255, i>>8, n]"})
			break
		}
	}
	rec.SetExtra("lengths_swept_exhaustively", maxN+1)

	rec.Check(func(rt *rapid.T) {
		n := genMerkleLen(rt, maxN)
		dup := rapid.Bool().Draw(rt, "dups")
		items := make([][]byte, n)
		for i := range items {
			if dup && i > 0 && rapid.IntRange(0, 3).Draw(rt, "dupPrev") == 0 {
				items[i] = items[i-1]
				continue
			}
			items[i] = rapid.SliceOfN(rapid.Byte(), 0, 64).Draw(rt, "item")
		}
		got := byron.MerkleRoot(items)
		want := refMerkle(items)
		rec.Eval()
		switch {
		case n == 0:
			rec.Class("empty")
		case n&(n-1) == 0:
			rec.Class("len_pow2")
		case (n-1)&(n-2) == 0:
			rec.Class("len_pow2_plus1")
		default:
			rec.Class("len_other")
		}
		if n >= 3 {
			var first []byte
			if n > 0 {
				first = items[0]
			}
			rec.NonTrivial(fmt.Sprintf("n=%d first=%x root=%x", n, first, want[:8]),
				map[string]any{"n": n, "first_item": evi.Hex(first), "root": evi.Hex(want[:])})
		}
		if !bytes.Equal(got[:], want[:]) {
			hexItems := make([]string, len(items))
			for i, it := range items {
				hexItems[i] = evi.Hex(it)
			}
			rec.Fail(rt, fmt.Sprintf("root-mismatch:n=%d", n),
				fmt.Sprintf("MerkleRoot of %d items = %x, reference = %x", n, got[:], want[:]),
				map[string]any{"items": hexItems})
		}
	})
}
